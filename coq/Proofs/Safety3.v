(* Safety3.v — safety of the entry API (src/entry.rs), of the Set methods
   (src/set/*.rs) and of the set-algebra adaptors, for EVERY environment. *)
Require Import Model.Base Model.Slots Model.MapOps Model.EntryOps Model.SetOps Proofs.Hoare Proofs.Inv Proofs.Safety.

(* ------------------------------------------------------------------ *)
(* generic helpers                                                     *)
(* ------------------------------------------------------------------ *)
Section Generic.
Context {K V Q T : Type} (E : env K V Q T) (debug : bool).
Notation M := (M K V T).
Notation world := (world K V T).
Notation map := (map K V).

Lemma inv_post_trans (w w' w'' : world) : inv_post w w' -> inv_post w' w'' -> inv_post w w''.
Proof. unfold inv_post. intros [H1 H2] [H3 H4]. split; [exact H3 | congruence]. Qed.

Lemma keeps_bind {A B} (c : M A) (f : A -> M B) :
  keeps c -> (forall a, keeps (f a)) -> keeps (bind c f).
Proof.
  intros Hc Hf w Hw. apply wp_bind. eapply wp_mono; [apply Hc; exact Hw | |]; cbn beta.
  - intros a w' Hi. eapply wp_mono; [apply Hf; apply Hi | |]; cbn beta.
    + intros _ w'' Hi'. eapply inv_post_trans; eauto.
    + intros w'' Hi'. eapply inv_post_trans; eauto.
  - intros w' Hi. exact Hi.
Qed.

Lemma keeps_ret {A} (a : A) : keeps (@ret K V T A a).
Proof. apply frame_keeps. apply frame_ret. Qed.

Lemma frame_panic {A} : frame (@panic K V T A).
Proof. intros w. apply wp_panic. reflexivity. Qed.

(* unwinding cleanup that only runs destructors of locals keeps everything *)
Lemma keeps_on_unwind {A} (cleanup : M unit) (c : M A) :
  frame cleanup -> keeps c -> keeps (on_unwind cleanup c).
Proof.
  intros Hf Hc w Hw. apply wp_on_unwind_frame; [exact Hf|].
  eapply wp_mono; [apply Hc; exact Hw | |]; cbn beta.
  - intros _ w' H. exact H.
  - intros w' H w'' Hs. eapply inv_post_frame; eauto.
Qed.

Lemma frame_keep_value e : frame (keep_value E e).
Proof.
  destruct e as [[k' v']|]; cbn [keep_value].
  - apply frame_bind; [apply frame_drop_key|]. intros _. apply frame_ret.
  - apply frame_ret.
Qed.

Lemma frame_call_next nx : frame (@call_next K V T nx).
Proof.
  unfold call_next. apply frame_bind; [apply frame_emit|]. intros _.
  apply frame_bind; [apply frame_cbk|]. intros _. apply frame_ret.
Qed.

Lemma frame_call_mk f : frame (@call_mk K V T f).
Proof. unfold call_mk. apply frame_bind; [apply frame_emit|]. intros _. apply frame_cbo. Qed.

(* the unwinding destructor of a pair never panics and leaves [self] alone *)
Lemma unwind_pair_nopanic p (w : world) :
  wp (unwind_pair E p) (fun _ w' => self w' = self w) (fun _ => False) w.
Proof.
  unfold unwind_pair. apply wp_bind. apply wp_emit.
  apply wp_bind. apply wp_cbd. intros bk s. apply wp_bind. apply wp_cbd. intros bv s'.
  apply wp_ret. reflexivity.
Qed.

(* Destructors run WHILE UNWINDING over slots [i, i+n): all of them must be
   live; it never panics; afterwards these slots are empty, slots outside are
   as before, length and capacity are not touched *)
Definition unwound_range (n i : nat) (w w' : world) : Prop :=
  len (self w') = len (self w) /\ cap (self w') = cap (self w) /\
  (forall j, i <= j < i + n -> nth_error (slots (self w')) j = Some None) /\
  (forall j, j < i \/ i + n <= j -> nth_error (slots (self w')) j = nth_error (slots (self w)) j).

Lemma unwind_range_spec n : forall i (w : world),
  (forall j, i <= j < i + n -> live (self w) j) ->
  wp (unwind_range E n i) (fun _ w' => unwound_range n i w w') (fun _ => False) w.
Proof.
  induction n as [|n IH]; intros i w Hl; cbn [unwind_range].
  - apply wp_ret. unfold unwound_range. repeat split; auto. intros j Hj. lia.
  - destruct (Hl i ltac:(lia)) as [p Hp].
    assert (Hic : i < length (slots (self w))).
    { apply nth_error_Some. rewrite Hp. discriminate. }
    apply wp_bind. eapply wp_p_read; [exact Hp|].
    apply wp_bind. eapply wp_mono; [apply unwind_pair_nopanic | | intros w' []]; cbn beta.
    intros _ w' Hs.
    eapply wp_mono; [apply IH | | intros w'' []]; cbn beta.
    + intros j Hj. rewrite Hs. cbn [with_self self]. apply live_set_slot_neq; [lia | apply Hl; lia].
    + intros _ w'' (H1 & H2 & H3 & H4). unfold unwound_range. rewrite Hs in H1, H2, H4.
      cbn [with_self self set_slot_m len slots] in H1, H2, H4.
      split; [exact H1|]. split; [rewrite H2; apply cap_set_slot|]. split.
      * intros j Hj. destruct (Nat.eq_dec i j) as [<-|Hne].
        -- rewrite H4 by lia. apply nth_error_upd_eq. exact Hic.
        -- apply H3. lia.
      * intros j Hj. rewrite H4 by lia. apply nth_error_upd_neq. lia.
Qed.

(* the unwinding destructor of a well-formed container: never UB, never
   panics; every slot [0,len) has been read, the rest is untouched *)
Lemma unwind_map_spec (w : world) :
  WF (self w) ->
  wp (unwind_map E) (fun _ w' => unwound_range (len (self w)) 0 w w') (fun _ => False) w.
Proof.
  intros [Hl Hs]. unfold unwind_map. apply wp_bind. apply wp_get_len.
  apply unwind_range_spec. intros j Hj. apply Hs. lia.
Qed.

(* unwinding over a well-formed local container: its destructor is safe.
   General rule: the panic postcondition is established from what the
   unwinding destructor leaves behind *)
Lemma wp_finally_drop_gen {A} (c : M A) (Qn : A -> world -> Prop) (Qp : world -> Prop) w :
  wp c Qn (fun w' => WF (self w') /\
                     forall w'', unwound_range (len (self w')) 0 w' w'' -> Qp w'') w ->
  wp (finally_drop E c) Qn Qp w.
Proof.
  unfold wp at 1 2, finally_drop. destruct (c w) as [a w'|w'|]; auto.
  intros [Hw' HQ]. pose proof (unwind_map_spec w' Hw') as Hd. unfold wp in Hd.
  destruct (unwind_map E w') as [u w''|w''|]; [apply HQ; exact Hd | destruct Hd | destruct Hd].
Qed.

Lemma wp_finally_drop {A} (c : M A) (Qn : A -> world -> Prop) w :
  wp c Qn (fun w' => WF (self w')) w -> wp (finally_drop E c) Qn (fun _ => True) w.
Proof.
  intros H. apply wp_finally_drop_gen. eapply wp_mono; [exact H | auto |]; cbn beta.
  intros w' Hw'. split; [exact Hw' | intros; exact I].
Qed.

(* strengthened insert_ii: the returned index is live afterwards *)
Lemma insert_ii_spec k v u w :
  WF (self w) ->
  wp (insert_ii E debug k v u)
     (fun r w' => inv_post w w' /\ fst r < len (self w')) (inv_post w) w.
Proof.
  intros Hw. unfold insert_ii. apply wp_bind.
  apply wp_on_unwind_frame; [apply frame_unwind_args|].
  eapply wp_mono; [apply scan_spec; [intros; apply frame_test_k | exact Hw] | |]; cbn beta.
  - intros [i|] w' [Hs Hi].
    + destruct (WF_live _ _ Hw Hi) as [p Hp].
      assert (Hic : i < cap (self w)) by (apply live_lt_cap; exists p; exact Hp).
      destruct u.
      * apply wp_bind. eapply wp_p_replace; [rewrite Hs; exact Hp|].
        apply wp_ret. unfold inv_post. simp_w. rewrite Hs. cbn [fst].
        split; [split; [apply WF_set_slot_some; auto | apply cap_set_slot] | exact Hi].
      * apply wp_bind. eapply wp_p_replace; [rewrite Hs; exact Hp|].
        apply wp_ret. unfold inv_post. simp_w. rewrite Hs. cbn [fst].
        split; [split; [apply WF_set_slot_some; auto | apply cap_set_slot] | exact Hi].
    + apply wp_bind. apply wp_get_len. apply wp_bind. apply wp_get_cap.
      apply wp_bind. apply wp_on_unwind_frame; [apply frame_unwind_args|].
      apply wp_bind. apply wp_dbg_assert.
      * intros _. apply wp_check_index.
        -- intros Hc. apply wp_bind. apply wp_p_write_checked.
           ++ intros _. apply wp_bind. apply wp_set_len. apply wp_ret.
              unfold inv_post. simp_w. rewrite Hs in *. cbn [fst].
              split; [|lia].
              split; [apply WF_append; auto | rewrite cap_set_len, cap_set_slot; reflexivity].
           ++ intros _. apply inv_post_refl; auto.
        -- intros _ w'' Hs''. apply inv_post_refl; [exact Hw | congruence].
      * intros _ _ w'' Hs''. apply inv_post_refl; [exact Hw | congruence].
  - intros w' Hs w'' Hs''. apply inv_post_refl; [exact Hw | congruence].
Qed.

Lemma keeps_insert k v : keeps (insert E debug k v).
Proof.
  unfold insert. apply keeps_bind; [apply keeps_insert_ii|].
  intros [i e]. apply frame_keeps. apply frame_keep_value.
Qed.

End Generic.

(* ------------------------------------------------------------------ *)
(* Part A — the entry API                                              *)
(* ------------------------------------------------------------------ *)
Section Entry.
Context {K V Q T : Type} (E : env K V Q T) (debug : bool).
Notation M := (M K V T).
Notation world := (world K V T).
Notation map := (map K V).

Definition entry_ok (e : @entry K) (m : map) : Prop :=
  match e with Occupied i => i < len m | Vacant _ => True end.

(* A1 *)
Lemma entry_of_spec k (w : world) :
  WF (self w) ->
  wp (entry_of E k) (fun e w' => self w' = self w /\ entry_ok e (self w))
     (fun w' => self w' = self w) w.
Proof.
  intros Hw. unfold entry_of. apply wp_bind.
  apply wp_on_unwind_frame; [apply frame_unwind_key|].
  eapply wp_mono; [apply scan_spec; [intros; apply frame_test_k | exact Hw] | |]; cbn beta.
  - intros [i|] w' [Hs Hi].
    + apply wp_bind. apply wp_frame; [apply frame_drop_key | |].
      * intros _ w'' Hs'. apply wp_ret. split; [congruence | exact Hi].
      * intros w'' Hs'. congruence.
    + apply wp_ret. split; [exact Hs | exact I].
  - intros w' Hs w'' Hs''. congruence.
Qed.

(* A2 *)
Lemma occ_key_spec i (w : world) :
  i < len (self w) -> WF (self w) ->
  wp (occ_key i) (fun j w' => j = i /\ self w' = self w) (fun _ => False) w.
Proof.
  intros Hi Hw. destruct (WF_live _ _ Hw Hi) as [p Hp]. unfold occ_key.
  apply wp_bind. eapply wp_p_ref; [exact Hp|]. apply wp_ret. auto.
Qed.
Lemma occ_get_spec i (w : world) :
  i < len (self w) -> WF (self w) ->
  wp (occ_get i) (fun j w' => j = i /\ self w' = self w) (fun _ => False) w.
Proof. exact (occ_key_spec i w). Qed.
Lemma occ_get_mut_spec i (w : world) :
  i < len (self w) -> WF (self w) ->
  wp (occ_get_mut i) (fun j w' => j = i /\ self w' = self w) (fun _ => False) w.
Proof. exact (occ_key_spec i w). Qed.
Lemma occ_into_mut_spec i (w : world) :
  i < len (self w) -> WF (self w) ->
  wp (occ_into_mut i) (fun j w' => j = i /\ self w' = self w) (fun _ => False) w.
Proof. exact (occ_key_spec i w). Qed.

(* A3 *)
Lemma occ_insert_spec i v (w : world) :
  WF (self w) -> i < len (self w) ->
  wp (occ_insert i v) (fun _ => inv_post w) (fun _ => False) w.
Proof.
  intros Hw Hi. destruct (WF_live _ _ Hw Hi) as [p Hp].
  assert (Hic : i < cap (self w)) by (apply live_lt_cap; exists p; exact Hp).
  unfold occ_insert. apply wp_bind. eapply wp_p_replace; [exact Hp|].
  apply wp_ret. unfold inv_post. simp_w.
  split; [apply WF_set_slot_some; auto | apply cap_set_slot].
Qed.

(* A4 *)
Lemma occ_remove_entry_spec i (w : world) :
  WF (self w) -> i < len (self w) ->
  wp (occ_remove_entry debug i) (fun _ => inv_post w) (inv_post w) w.
Proof. intros Hw Hi. unfold occ_remove_entry. apply keeps_remove_index_read; assumption. Qed.

Lemma occ_remove_spec i (w : world) :
  WF (self w) -> i < len (self w) ->
  wp (occ_remove E debug i) (fun _ => inv_post w) (inv_post w) w.
Proof.
  intros Hw Hi. unfold occ_remove. apply wp_bind.
  eapply wp_mono; [apply keeps_remove_index_read; assumption | |]; cbn beta.
  - intros p w' H. apply wp_bind. apply wp_frame; [apply frame_drop_key | |].
    + intros _ w'' Hs. apply wp_ret. eapply inv_post_frame; eauto.
    + intros w'' Hs. eapply inv_post_frame; eauto.
  - intros w' H. exact H.
Qed.

(* A5 *)
Lemma vac_insert_spec k v (w : world) :
  WF (self w) ->
  wp (vac_insert E debug k v)
     (fun i w' => inv_post w w' /\ i < len (self w')) (inv_post w) w.
Proof.
  intros Hw. unfold vac_insert. apply wp_bind.
  eapply wp_mono; [apply insert_ii_spec; exact Hw | |]; cbn beta.
  - intros [index e] w' [Hinv Hlt]. cbn [fst] in Hlt.
    apply wp_bind.
    assert (Hfr : frame (match e with Some p => drop_pair E p | None => ret tt end)).
    { destruct e; [apply frame_drop_pair | apply frame_ret]. }
    apply wp_frame; [exact Hfr | |].
    + intros _ w'' Hs.
      assert (Hinv' : inv_post w w'') by (eapply inv_post_frame; eauto).
      destruct Hinv' as [Hwf Hcap].
      rewrite <- Hs in Hlt.
      destruct (WF_live _ _ Hwf Hlt) as [p Hp].
      apply wp_bind. eapply wp_p_ref; [exact Hp|]. apply wp_ret.
      split; [split; assumption | exact Hlt].
    + intros w'' Hs. eapply inv_post_frame; eauto.
  - intros w' H. exact H.
Qed.

Lemma keeps_vac_insert k v : keeps (vac_insert E debug k v).
Proof.
  intros w Hw. eapply wp_mono; [apply vac_insert_spec; exact Hw | |]; cbn beta; tauto.
Qed.

(* A6 *)
Lemma call_modf_spec (f : modf_t) i (w : world) :
  WF (self w) -> i < len (self w) ->
  wp (call_modf f i)
     (fun _ w' => inv_post w w' /\ len (self w') = len (self w))
     (fun w' => inv_post w w' /\ len (self w') = len (self w)) w.
Proof.
  intros Hw Hi. destruct (WF_live _ _ Hw Hi) as [p Hp].
  assert (Hic : i < cap (self w)) by (apply live_lt_cap; exists p; exact Hp).
  unfold call_modf. apply wp_bind. eapply wp_p_ref; [exact Hp|].
  unfold wp. destruct (f (cb w) (snd p)) as [[boom v'] s].
  assert (Hgoal : forall w' : world,
             self w' = set_slot_m (self w) i (Some (fst p, v')) ->
             inv_post w w' /\ len (self w') = len (self w)).
  { intros w' Hs. unfold inv_post. rewrite Hs. split; [|reflexivity].
    split; [apply WF_set_slot_some; auto | apply cap_set_slot]. }
  destruct boom; apply Hgoal; reflexivity.
Qed.

(* A7 *)
Lemma and_modify_spec (e : @entry K) (f : modf_t) (w : world) :
  WF (self w) -> entry_ok e (self w) ->
  wp (and_modify e f)
     (fun e' w' => inv_post w w' /\ e' = e /\ len (self w') = len (self w))
     (inv_post w) w.
Proof.
  intros Hw He. destruct e as [i|k]; cbn [and_modify entry_ok] in *.
  - apply wp_bind. eapply wp_mono; [apply occ_get_mut_spec; assumption | |]; cbn beta; [|tauto].
    intros j w' [_ Hs]. apply wp_bind.
    eapply wp_mono; [apply call_modf_spec; rewrite Hs; assumption | |]; cbn beta.
    + intros _ w'' [Hinv Hl]. apply wp_ret.
      split; [eapply inv_post_base; eauto|]. split; [reflexivity | congruence].
    + intros w'' [Hinv _]. eapply inv_post_base; eauto.
  - apply wp_ret. split; [apply inv_post_refl; auto | auto].
Qed.

(* A8 *)
Lemma or_insert_spec (e : @entry K) v (w : world) :
  WF (self w) -> entry_ok e (self w) ->
  wp (or_insert E debug e v)
     (fun i w' => inv_post w w' /\ i < len (self w')) (inv_post w) w.
Proof.
  intros Hw He. destruct e as [i|k]; cbn [or_insert entry_ok] in *.
  - apply wp_bind. eapply wp_mono; [apply occ_into_mut_spec; assumption | |]; cbn beta; [|tauto].
    intros j w' [-> Hs]. apply wp_bind. apply wp_frame; [apply frame_drop_val | |].
    + intros _ w'' Hs'. apply wp_ret.
      split; [apply inv_post_refl; [auto | congruence] | rewrite Hs', Hs; exact He].
    + intros w'' Hs'. apply inv_post_refl; [auto | congruence].
  - apply vac_insert_spec. exact Hw.
Qed.

Lemma or_insert_with_spec (e : @entry K) f (w : world) :
  WF (self w) -> entry_ok e (self w) ->
  wp (or_insert_with E debug e f)
     (fun i w' => inv_post w w' /\ i < len (self w')) (inv_post w) w.
Proof.
  intros Hw He. destruct e as [i|k]; cbn [or_insert_with entry_ok] in *.
  - eapply wp_mono; [apply occ_into_mut_spec; assumption | |]; cbn beta; [|tauto].
    intros j w' [-> Hs]. split; [apply inv_post_refl; auto | rewrite Hs; exact He].
  - apply wp_bind. apply wp_frame; [apply frame_on_unwind; [apply frame_unwind_key | apply frame_call_mk] | |].
    + intros v w' Hs.
      eapply wp_mono; [apply vac_insert_spec; rewrite Hs; exact Hw | |]; cbn beta.
      * intros i w'' [Hinv Hlt]. split; [eapply inv_post_base; eauto | exact Hlt].
      * intros w'' Hinv. eapply inv_post_base; eauto.
    + intros w' Hs. apply inv_post_refl; auto.
Qed.

Lemma or_insert_with_key_spec (e : @entry K) f (w : world) :
  WF (self w) -> entry_ok e (self w) ->
  wp (or_insert_with_key E debug e f)
     (fun i w' => inv_post w w' /\ i < len (self w')) (inv_post w) w.
Proof.
  intros Hw He. destruct e as [i|k]; cbn [or_insert_with_key entry_ok] in *.
  - eapply wp_mono; [apply occ_into_mut_spec; assumption | |]; cbn beta; [|tauto].
    intros j w' [-> Hs]. split; [apply inv_post_refl; auto | rewrite Hs; exact He].
  - apply wp_bind. apply wp_frame; [apply frame_on_unwind; [apply frame_unwind_key | apply frame_call_mk] | |].
    + intros v w' Hs.
      eapply wp_mono; [apply vac_insert_spec; rewrite Hs; exact Hw | |]; cbn beta.
      * intros i w'' [Hinv Hlt]. split; [eapply inv_post_base; eauto | exact Hlt].
      * intros w'' Hinv. eapply inv_post_base; eauto.
    + intros w' Hs. apply inv_post_refl; auto.
Qed.

(* A9 *)
Lemma entry_key_spec (e : @entry K) (w : world) :
  WF (self w) -> entry_ok e (self w) ->
  wp (entry_key e)
     (fun r w' => self w' = self w /\ match r with inl j => j < len (self w) | inr _ => True end)
     (fun _ => False) w.
Proof.
  intros Hw He. destruct e as [i|k]; cbn [entry_key entry_ok] in *.
  - apply wp_bind. eapply wp_mono; [apply occ_key_spec; assumption | |]; cbn beta; [|tauto].
    intros j w' [-> Hs]. apply wp_ret. split; [exact Hs | exact He].
  - apply wp_ret. split; [reflexivity | exact I].
Qed.

End Entry.

(* ------------------------------------------------------------------ *)
(* retain (for an arbitrary predicate)                                 *)
(* ------------------------------------------------------------------ *)
Section Retain.
Context {K V Q T : Type} (E : env K V Q T) (debug : bool).
Notation M := (M K V T).
Notation world := (world K V T).
Notation map := (map K V).

(* the predicate rewrites the value of live slot i: invariant and length stay *)
Lemma call_pred_spec (f : pred_t) i (w : world) :
  WF (self w) -> i < len (self w) ->
  wp (call_pred f i)
     (fun _ w' => inv_post w w' /\ len (self w') = len (self w))
     (fun w' => inv_post w w' /\ len (self w') = len (self w)) w.
Proof.
  intros Hw Hi. destruct (WF_live _ _ Hw Hi) as [p Hp].
  assert (Hic : i < cap (self w)) by (apply live_lt_cap; exists p; exact Hp).
  unfold call_pred. apply wp_bind. eapply wp_p_ref; [exact Hp|].
  unfold wp. destruct (f (cb w) (fst p) (snd p)) as [[r v'] s].
  assert (Hgoal : forall w' : world,
             self w' = set_slot_m (self w) i (Some (fst p, v')) ->
             inv_post w w' /\ len (self w') = len (self w)).
  { intros w' Hs. unfold inv_post. rewrite Hs. split; [|reflexivity].
    split; [apply WF_set_slot_some; auto | apply cap_set_slot]. }
  destruct r; apply Hgoal; reflexivity.
Qed.

Lemma retain_loop_spec (f : pred_t) : forall fuel i (w : world),
  WF (self w) -> len (self w) - i <= fuel ->
  wp (retain_loop E debug f fuel i) (fun _ => inv_post w) (inv_post w) w.
Proof.
  induction fuel as [|fuel IH]; intros i w Hw Hf; cbn [retain_loop].
  - apply wp_bind. apply wp_get_len.
    destruct (Nat.ltb_spec i (len (self w))) as [Hlt|Hge]; [lia|].
    apply wp_ret. apply inv_post_refl; auto.
  - apply wp_bind. apply wp_get_len.
    destruct (Nat.ltb_spec i (len (self w))) as [Hlt|Hge].
    + apply wp_bind.
      eapply wp_mono; [apply call_pred_spec; assumption | |]; cbn beta; [|tauto].
      intros keep w' [Hinv Hl]. destruct keep.
      * eapply wp_mono; [apply IH; [apply Hinv | lia] | |]; cbn beta.
        -- intros _ w'' H. eapply inv_post_trans; eauto.
        -- intros w'' H. eapply inv_post_trans; eauto.
      * apply wp_bind.
        eapply wp_mono; [apply keeps_remove_index_drop; [apply Hinv | lia] | |]; cbn beta.
        -- intros _ w'' [Hinv' Hl'].
           eapply wp_mono; [apply IH; [apply Hinv' | lia] | |]; cbn beta.
           ++ intros _ w3 H. eapply inv_post_trans; [|exact H]. eapply inv_post_trans; eauto.
           ++ intros w3 H. eapply inv_post_trans; [|exact H]. eapply inv_post_trans; eauto.
        -- intros w'' [Hinv' _]. eapply inv_post_trans; eauto.
    + apply wp_ret. apply inv_post_refl; auto.
Qed.

Lemma keeps_retain' (f : pred_t) : keeps (retain E debug f).
Proof.
  intros w Hw. unfold retain. apply wp_bind. apply wp_get_len.
  apply retain_loop_spec; [exact Hw | lia].
Qed.

End Retain.

(* ------------------------------------------------------------------ *)
(* Part B — Set methods                                                *)
(* ------------------------------------------------------------------ *)
Section SetMethods.
Context {K Q T : Type} (E : env K unit Q T) (debug : bool).
Notation M := (M K unit T).
Notation world := (world K unit T).
Notation smap := (map K unit).

(* B1 *)
Lemma keeps_s_contains q : keeps (s_contains E q).
Proof. unfold s_contains. apply keeps_contains_key. Qed.

Lemma keeps_s_remove q : keeps (s_remove E debug q).
Proof.
  unfold s_remove. apply keeps_bind; [apply keeps_remove|]. intros r. apply keeps_ret.
Qed.

Lemma keeps_s_get q : keeps (s_get E q).
Proof. unfold s_get. apply keeps_get_key_value. Qed.

Lemma keeps_s_take q : keeps (s_take E debug q).
Proof.
  unfold s_take. apply keeps_bind; [apply keeps_remove_entry|]. intros r. apply keeps_ret.
Qed.

Lemma keeps_s_clear : keeps (s_clear E).
Proof. unfold s_clear. apply keeps_clear. Qed.

(* B2 *)
Lemma keeps_s_insert k : keeps (s_insert E debug k).
Proof.
  unfold s_insert. apply keeps_bind; [apply keeps_insert|]. intros r. apply keeps_ret.
Qed.

Lemma keeps_s_replace k : keeps (s_replace E debug k).
Proof.
  unfold s_replace. apply keeps_bind; [apply keeps_insert_ii|]. intros [i e]. apply keeps_ret.
Qed.

(* B3 *)
Lemma keeps_s_retain f : keeps (s_retain E debug f).
Proof. unfold s_retain. apply keeps_retain'. Qed.

(* B4 *)
Lemma keeps_s_extend_loop nx items : keeps (s_extend_loop E debug nx items).
Proof.
  induction items as [|k rest IH]; cbn [s_extend_loop].
  - apply frame_keeps. apply frame_call_next.
  - apply keeps_bind.
    { apply keeps_on_unwind; [apply frame_unwind_pairs|].
      apply frame_keeps. apply frame_call_next. }
    intros _. apply keeps_bind.
    { apply keeps_on_unwind; [apply frame_unwind_pairs|].
      apply keeps_bind; [apply keeps_s_insert|]. intros _. apply keeps_ret. }
    intros _. exact IH.
Qed.

Lemma keeps_s_extend nx items : keeps (s_extend E debug nx items).
Proof. unfold s_extend. apply keeps_s_extend_loop. Qed.

Lemma s_from_iter_safe nx items (w : world) :
  WF (self w) ->
  wp (s_from_iter E debug nx items) (fun _ => inv_post w) (fun _ => True) w.
Proof.
  intros Hw. unfold s_from_iter. apply wp_finally_drop.
  eapply wp_mono; [apply keeps_s_extend_loop; exact Hw | |]; cbn beta.
  - intros _ w' H. exact H.
  - intros w' [H _]. exact H.
Qed.

End SetMethods.

(* ------------------------------------------------------------------ *)
(* Part C — set algebra only reads its operands                        *)
(* ------------------------------------------------------------------ *)
Section SetAlgebra.
Context {K Q T : Type} (E : env K unit Q T) (debug : bool).
Notation M := (M K unit T).
Notation world := (world K unit T).
Notation smap := (map K unit).

(* a computation run on a shared-borrowed operand: [self] is restored *)
Lemma wp_on_map {A} (m : smap) (c : M A) (R : A -> Prop) (w : world) :
  (forall w0 : world, self w0 = m -> wp c (fun a _ => R a) (fun _ => True) w0) ->
  wp (on_map m c) (fun a w' => self w' = self w /\ R a) (fun w' => self w' = self w) w.
Proof.
  intros H. unfold wp, on_map.
  specialize (H {| cb := cb w; log := log w; self := m |} eq_refl). unfold wp in H.
  destruct (c {| cb := cb w; log := log w; self := m |}); cbn [self]; auto.
Qed.

Lemma on_map_iter_spec (a : smap) (w : world) :
  WF a ->
  wp (on_map a iter) (fun c w' => self w' = self w /\ c = (0, len a))
     (fun w' => self w' = self w) w.
Proof.
  intros Ha. apply wp_on_map. intros w0 Hs. unfold iter.
  apply wp_bind. apply wp_p_prefix.
  - intros _. apply wp_bind. apply wp_get_len. apply wp_ret. rewrite Hs. reflexivity.
  - intros _. exact I.
Qed.

(* C1 *)
Lemma contains_in_frame (b : smap) k (w : world) :
  WF b ->
  wp (contains_in E b k) (fun _ w' => self w' = self w) (fun w' => self w' = self w) w.
Proof.
  intros Hb. unfold contains_in.
  eapply wp_mono; [apply wp_on_map with (R := fun _ => True) | |]; cbn beta.
  - intros w0 Hs. apply wp_bind.
    eapply wp_mono; [apply scan_spec; [intros; apply frame_test_k | rewrite Hs; exact Hb] | |];
      cbn beta.
    + intros r w' _. apply wp_ret. exact I.
    + intros w' _. exact I.
  - intros _ w' [Hs _]. exact Hs.
  - intros w' Hs. exact Hs.
Qed.

(* C2 *)
Lemma filter_next_spec (a b : smap) want n : forall lo (w : world),
  WF a -> WF b -> lo + n <= len a ->
  wp (filter_next E a b want n lo)
     (fun r w' => self w' = self w /\
                  match fst r with
                  | Some i => lo <= i < lo + n /\ snd r = (S i, lo + n)
                  | None => snd r = (lo + n, lo + n)
                  end)
     (fun w' => self w' = self w) w.
Proof.
  induction n as [|n IH]; intros lo w Ha Hb Hn; cbn [filter_next].
  - apply wp_ret. split; [reflexivity|]. cbn [fst snd]. f_equal; lia.
  - assert (Hlo : lo < len a) by lia.
    destruct (WF_live _ _ Ha Hlo) as [[k u] Hp]. rewrite Hp. cbn beta iota.
    apply wp_bind. eapply wp_mono; [apply contains_in_frame; exact Hb | |]; cbn beta.
    + intros inb w' Hs. destruct (Bool.eqb inb want).
      * apply wp_ret. cbn [fst snd]. split; [exact Hs|]. split; [lia|]. f_equal; lia.
      * eapply wp_mono; [apply IH; [exact Ha | exact Hb | lia] | |]; cbn beta.
        -- intros r w'' [Hs' Hr]. split; [congruence|]. destruct (fst r) as [i|].
           ++ destruct Hr as [Hr1 Hr2]. split; [lia|]. rewrite Hr2. f_equal; lia.
           ++ rewrite Hr. f_equal; lia.
        -- intros w'' Hs'. congruence.
    + intros w' Hs. exact Hs.
Qed.

(* C3 *)
Lemma diff_next_spec (a b : smap) (c : cursor) (w : world) :
  WF a -> WF b -> snd c <= len a -> fst c <= snd c ->
  wp (diff_next E a b c)
     (fun r w' => self w' = self w /\ snd (snd r) <= len a /\ fst (snd r) <= snd (snd r) /\
                  match fst r with Some i => fst c <= i < snd c | None => True end)
     (fun w' => self w' = self w) w.
Proof.
  intros Ha Hb H1 H2. unfold diff_next, cursor_len.
  eapply wp_mono; [apply filter_next_spec; [exact Ha | exact Hb | lia] | |]; cbn beta.
  - intros r w' [Hs Hr]. split; [exact Hs|]. destruct (fst r) as [i|].
    + destruct Hr as [Hr1 Hr2]. rewrite Hr2. cbn [fst snd]. lia.
    + rewrite Hr. cbn [fst snd]. lia.
  - intros w' Hs. exact Hs.
Qed.

Lemma inter_next_spec (a b : smap) (c : cursor) (w : world) :
  WF a -> WF b -> snd c <= len a -> fst c <= snd c ->
  wp (inter_next E a b c)
     (fun r w' => self w' = self w /\ snd (snd r) <= len a /\ fst (snd r) <= snd (snd r) /\
                  match fst r with Some i => fst c <= i < snd c | None => True end)
     (fun w' => self w' = self w) w.
Proof.
  intros Ha Hb H1 H2. unfold inter_next, cursor_len.
  eapply wp_mono; [apply filter_next_spec; [exact Ha | exact Hb | lia] | |]; cbn beta.
  - intros r w' [Hs Hr]. split; [exact Hs|]. destruct (fst r) as [i|].
    + destruct Hr as [Hr1 Hr2]. rewrite Hr2. cbn [fst snd]. lia.
    + rewrite Hr. cbn [fst snd]. lia.
  - intros w' Hs. exact Hs.
Qed.

(* C4 *)
Lemma filter_fold_frame (a b : smap) want n : forall lo acc (w : world),
  WF a -> WF b -> lo + n <= len a ->
  wp (filter_fold E a b want n lo acc) (fun _ w' => self w' = self w)
     (fun w' => self w' = self w) w.
Proof.
  induction n as [|n IH]; intros lo acc w Ha Hb Hn; cbn [filter_fold].
  - apply wp_ret. reflexivity.
  - assert (Hlo : lo < len a) by lia.
    destruct (WF_live _ _ Ha Hlo) as [[k u] Hp]. rewrite Hp. cbn beta iota.
    apply wp_bind. eapply wp_mono; [apply contains_in_frame; exact Hb | |]; cbn beta.
    + intros inb w' Hs.
      eapply wp_mono; [apply IH; [exact Ha | exact Hb | lia] | |]; cbn beta.
      * intros _ w'' Hs'. congruence.
      * intros w'' Hs'. congruence.
    + intros w' Hs. exact Hs.
Qed.

(* C5 *)
Definition chain_ok (la lb : nat) (u : chain) : Prop :=
  (match front u with Some c => fst c <= snd c /\ snd c <= la | None => True end) /\
  fst (back u) <= snd (back u) /\ snd (back u) <= lb.

Lemma siter_next_spec (b : smap) (c : cursor) (w : world) :
  WF b -> fst c <= snd c -> snd c <= len b ->
  wp (siter_next b c)
     (fun r w' => self w' = self w /\
                  match fst r with
                  | Some i => fst c <= i < snd c /\ snd r = (S i, snd c)
                  | None => snd r = c
                  end)
     (fun w' => self w' = self w) w.
Proof.
  intros Hb H1 H2. unfold siter_next. apply wp_on_map. intros w0 Hs.
  destruct c as [lo hi]. cbn [fst snd] in *. cbn [iter_next].
  destruct (Nat.ltb_spec lo hi) as [Hlt|Hge].
  - assert (Hlo : lo < len b) by lia.
    destruct (WF_live _ _ Hb Hlo) as [p Hp].
    apply wp_bind. eapply wp_p_ref; [rewrite Hs; exact Hp|].
    apply wp_ret. cbn [fst snd]. split; [lia | reflexivity].
  - apply wp_ret. cbn [fst snd]. reflexivity.
Qed.

(* the back half of a chain: a difference over operand [x] against [y] *)
Lemma chain_back_step {X} (x y : smap) (bk : cursor) (g : option nat -> X) (la : nat) (w : world) :
  WF x -> WF y -> fst bk <= snd bk -> snd bk <= len x ->
  wp ('(r2, k') <- diff_next E x y bk ;; ret (g r2, {| front := None; back := k' |}))
     (fun r w' => self w' = self w /\ chain_ok la (len x) (snd r))
     (fun w' => self w' = self w) w.
Proof.
  intros Hx Hy H1 H2. apply wp_bind.
  eapply wp_mono; [apply diff_next_spec; [exact Hx | exact Hy | exact H2 | exact H1] | |];
    cbn beta.
  - intros [r2 k'] w' (Hs & Ha & Hb & _). cbn [fst snd] in *. apply wp_ret.
    split; [exact Hs|]. unfold chain_ok. cbn [snd front back]. auto.
  - intros w' Hs. exact Hs.
Qed.

Lemma union_next_frame (a b : smap) (u : chain) (w : world) :
  WF a -> WF b -> chain_ok (len b) (len a) u ->
  wp (union_next E a b u)
     (fun r w' => self w' = self w /\ chain_ok (len b) (len a) (snd r))
     (fun w' => self w' = self w) w.
Proof.
  intros Ha Hb Hu. destruct u as [fr bk]. unfold chain_ok in Hu. cbn [front back] in Hu.
  destruct Hu as (Hf & Hk1 & Hk2). unfold union_next. cbn [front back].
  destruct fr as [c|].
  - destruct Hf as [Hc1 Hc2]. apply wp_bind.
    eapply wp_mono; [apply siter_next_spec; [exact Hb | exact Hc1 | exact Hc2] | |]; cbn beta.
    + intros [r c'] w' [Hs Hr]. cbn [fst snd] in Hr. destruct r as [i|].
      * destruct Hr as [Hi ->]. apply wp_ret. split; [exact Hs|].
        unfold chain_ok. cbn [snd front back fst]. lia.
      * eapply wp_mono; [apply chain_back_step with (la := len b); assumption | |]; cbn beta.
        -- intros r w'' [Hs' Hr']. split; [congruence | exact Hr'].
        -- intros w'' Hs'. congruence.
    + intros w' Hs. exact Hs.
  - apply chain_back_step; assumption.
Qed.

Lemma symdiff_next_frame (a b : smap) (u : chain) (w : world) :
  WF a -> WF b -> chain_ok (len a) (len b) u ->
  wp (symdiff_next E a b u)
     (fun r w' => self w' = self w /\ chain_ok (len a) (len b) (snd r))
     (fun w' => self w' = self w) w.
Proof.
  intros Ha Hb Hu. destruct u as [fr bk]. unfold chain_ok in Hu. cbn [front back] in Hu.
  destruct Hu as (Hf & Hk1 & Hk2). unfold symdiff_next. cbn [front back].
  destruct fr as [c|].
  - destruct Hf as [Hc1 Hc2]. apply wp_bind.
    eapply wp_mono; [apply diff_next_spec; [exact Ha | exact Hb | exact Hc2 | exact Hc1] | |];
      cbn beta.
    + intros [r c'] w' (Hs & Hr1 & Hr2 & Hr3). cbn [fst snd] in *. destruct r as [i|].
      * apply wp_ret. split; [exact Hs|].
        unfold chain_ok. cbn [snd front back fst]. lia.
      * eapply wp_mono; [apply chain_back_step with (la := len a); assumption | |]; cbn beta.
        -- intros r w'' [Hs' Hr']. split; [congruence | exact Hr'].
        -- intros w'' Hs'. congruence.
    + intros w' Hs. exact Hs.
  - apply chain_back_step; assumption.
Qed.

(* C6 *)
Lemma all_in_frame (a b : smap) want n : forall lo (w : world),
  WF a -> WF b -> lo + n <= len a ->
  wp (all_in E a b want n lo) (fun _ w' => self w' = self w) (fun w' => self w' = self w) w.
Proof.
  induction n as [|n IH]; intros lo w Ha Hb Hn; cbn [all_in].
  - apply wp_ret. reflexivity.
  - assert (Hlo : lo < len a) by lia.
    destruct (WF_live _ _ Ha Hlo) as [[k u] Hp]. rewrite Hp. cbn beta iota.
    apply wp_bind. eapply wp_mono; [apply contains_in_frame; exact Hb | |]; cbn beta.
    + intros inb w' Hs. destruct (Bool.eqb inb want).
      * eapply wp_mono; [apply IH; [exact Ha | exact Hb | lia] | |]; cbn beta.
        -- intros _ w'' Hs'. congruence.
        -- intros w'' Hs'. congruence.
      * apply wp_ret. exact Hs.
    + intros w' Hs. exact Hs.
Qed.

Lemma iter_all_frame (a b : smap) want (w : world) :
  WF a -> WF b ->
  wp (iter_all E a b want) (fun _ w' => self w' = self w) (fun w' => self w' = self w) w.
Proof.
  intros Ha Hb. unfold iter_all. apply wp_bind.
  eapply wp_mono; [apply on_map_iter_spec; exact Ha | |]; cbn beta.
  - intros c w' [Hs ->]. unfold cursor_len. cbn [fst snd].
    eapply wp_mono; [apply all_in_frame; [exact Ha | exact Hb | lia] | |]; cbn beta.
    + intros _ w'' Hs'. congruence.
    + intros w'' Hs'. congruence.
  - intros w' Hs. exact Hs.
Qed.

Lemma is_disjoint_frame (a b : smap) (w : world) :
  WF a -> WF b ->
  wp (is_disjoint E a b) (fun _ w' => self w' = self w) (fun w' => self w' = self w) w.
Proof.
  intros Ha Hb. unfold is_disjoint.
  destruct (len a <=? len b); apply iter_all_frame; assumption.
Qed.

Lemma is_subset_frame (a b : smap) (w : world) :
  WF a -> WF b ->
  wp (is_subset E a b) (fun _ w' => self w' = self w) (fun w' => self w' = self w) w.
Proof.
  intros Ha Hb. unfold is_subset.
  destruct (len a <=? len b); [apply iter_all_frame; assumption | apply wp_ret; reflexivity].
Qed.

Lemma is_superset_frame (a b : smap) (w : world) :
  WF a -> WF b ->
  wp (is_superset E a b) (fun _ w' => self w' = self w) (fun w' => self w' = self w) w.
Proof. intros Ha Hb. unfold is_superset. apply is_subset_frame; assumption. Qed.

(* C7 *)
Lemma frame_clone_key k : frame (clone_key E k).
Proof. unfold clone_key. apply frame_bind; [apply frame_emit|]. intros _. apply frame_cbo. Qed.

Lemma sub_loop_spec (a b : smap) :
  WF a -> WF b ->
  forall fuel (c : cursor) (w : world),
    WF (self w) -> fst c <= snd c -> snd c <= len a -> cursor_len c < fuel ->
    wp (sub_loop E debug a b fuel c) (fun _ => inv_post w) (inv_post w) w.
Proof.
  intros Ha Hb. induction fuel as [|fuel IH]; intros c w Hw H1 H2 Hf; [lia|].
  cbn [sub_loop]. apply wp_bind. unfold diff_next.
  assert (Hc : fst c + cursor_len c = snd c) by (unfold cursor_len; lia).
  eapply wp_mono; [apply filter_next_spec; [exact Ha | exact Hb | lia] | |]; cbn beta.
  - intros [r c'] w' [Hs Hr]. cbn [fst snd] in Hr. destruct r as [i|].
    + destruct Hr as [Hi ->].
      assert (Hia : i < len a) by lia.
      destruct (WF_live _ _ Ha Hia) as [[k u] Hp]. rewrite Hp. cbn beta iota.
      apply wp_bind. apply wp_frame; [apply frame_clone_key | |].
      * intros k' w2 Hs2.
        assert (Hs2' : self w2 = self w) by congruence.
        apply wp_bind.
        eapply wp_mono; [apply (keeps_s_insert E debug k'); rewrite Hs2'; exact Hw | |]; cbn beta.
        -- intros _ w3 Hinv. apply (inv_post_base _ _ _ Hs2') in Hinv.
           eapply wp_mono; [apply IH; [apply Hinv | | |] | |]; cbn beta.
           ++ cbn [fst snd]. lia.
           ++ cbn [fst snd]. lia.
           ++ unfold cursor_len in *. cbn [fst snd]. lia.
           ++ intros _ w4 H4. eapply inv_post_trans; eauto.
           ++ intros w4 H4. eapply inv_post_trans; eauto.
        -- intros w3 Hinv. eapply inv_post_base; eauto.
      * intros w2 Hs2. apply inv_post_refl; [exact Hw | congruence].
    + apply wp_ret. apply inv_post_refl; [exact Hw | exact Hs].
  - intros w' Hs. apply inv_post_refl; [exact Hw | exact Hs].
Qed.

Lemma set_sub_safe (a b : smap) (w : world) :
  WF a -> WF b -> WF (self w) ->
  wp (set_sub E debug a b) (fun _ => inv_post w) (fun _ => True) w.
Proof.
  intros Ha Hb Hw. unfold set_sub. apply wp_finally_drop. apply wp_bind. unfold difference.
  eapply wp_mono; [apply on_map_iter_spec; exact Ha | |]; cbn beta.
  - intros c w' [Hs ->].
    eapply wp_mono; [apply sub_loop_spec; [exact Ha | exact Hb | rewrite Hs; exact Hw | | |] | |];
      cbn beta.
    + cbn [fst snd]. lia.
    + cbn [fst snd]. lia.
    + lia.
    + intros _ w'' H. eapply inv_post_base; eauto.
    + intros w'' H. apply (inv_post_base _ _ _ Hs) in H. apply H.
  - intros w' Hs. rewrite Hs. exact Hw.
Qed.

End SetAlgebra.
