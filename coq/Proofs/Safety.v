(* Safety.v — for EVERY environment (no lawfulness, any number of panics):
   every operation keeps the container invariant in both outcomes (normal
   return and unwinding), never reads/drops a dead slot, never writes outside
   the array (outcome UB is excluded by [wp]). *)
Require Import Model.Base Model.Slots Model.MapOps Proofs.Hoare Proofs.Inv.

Section Safety.
Context {K V Q T : Type} (E : env K V Q T) (debug : bool).
Notation M := (M K V T).
Notation world := (world K V T).
Notation map := (map K V).

(* the computation leaves the container untouched (callbacks, logging) *)
Definition frame {A} (c : M A) : Prop :=
  forall w, wp c (fun _ w' => self w' = self w) (fun w' => self w' = self w) w.

(* the computation keeps invariant and capacity, whatever the outcome *)
Definition inv_post (w : world) : world -> Prop :=
  fun w' => WF (self w') /\ cap (self w') = cap (self w).
Definition keeps {A} (c : M A) : Prop :=
  forall w, WF (self w) -> wp c (fun _ => inv_post w) (inv_post w) w.

Lemma inv_post_base w w' w'' : self w' = self w -> inv_post w' w'' -> inv_post w w''.
Proof. unfold inv_post. intros ->. auto. Qed.
Lemma inv_post_frame w w' w'' : self w'' = self w' -> inv_post w w' -> inv_post w w''.
Proof. unfold inv_post. intros ->. auto. Qed.
Lemma inv_post_refl w w' : WF (self w) -> self w' = self w -> inv_post w w'.
Proof. unfold inv_post. intros H ->. auto. Qed.

Lemma frame_cbk f : frame (@cbk K V T f).
Proof. intros w. apply wp_cbk; intros; reflexivity. Qed.
Lemma frame_cbo {A} (f : T -> option A * T) : frame (@cbo K V T A f).
Proof. intros w. apply wp_cbo; intros; reflexivity. Qed.
Lemma frame_cbd f : frame (@cbd K V T f).
Proof. intros w. apply wp_cbd; intros; reflexivity. Qed.
Lemma frame_emit e : frame (@emit K V T e).
Proof. intros w. apply wp_emit. reflexivity. Qed.
Lemma frame_ret {A} (a : A) : frame (@ret K V T A a).
Proof. intros w. apply wp_ret. reflexivity. Qed.

Lemma frame_bind {A B} (c : M A) (f : A -> M B) :
  frame c -> (forall a, frame (f a)) -> frame (bind c f).
Proof.
  intros Hc Hf w. apply wp_bind. eapply wp_mono; [apply Hc | |]; cbn beta.
  - intros a w' Hw'. eapply wp_mono; [apply Hf | |]; cbn beta; intros; congruence.
  - intros w' Hw'. exact Hw'.
Qed.

Lemma frame_test_q q p : frame (test_q E q p).
Proof. apply frame_cbk. Qed.
Lemma frame_test_k k p : frame (test_k E k p).
Proof. apply frame_cbk. Qed.

Lemma frame_drop_key k : frame (drop_key E k).
Proof.
  unfold drop_key. apply frame_bind; [apply frame_emit|]. intros _.
  apply frame_bind; [apply frame_cbd|]. intros [|]; intros w; [apply wp_panic | apply wp_ret]; reflexivity.
Qed.
Lemma frame_drop_val v : frame (drop_val E v).
Proof.
  unfold drop_val. apply frame_bind; [apply frame_emit|]. intros _.
  apply frame_bind; [apply frame_cbd|]. intros [|]; intros w; [apply wp_panic | apply wp_ret]; reflexivity.
Qed.
Lemma frame_drop_pair p : frame (drop_pair E p).
Proof.
  unfold drop_pair. apply frame_bind; [apply frame_emit|]. intros _.
  apply frame_bind; [apply frame_cbd|]. intros bk.
  apply frame_bind; [apply frame_cbd|]. intros bv.
  destruct (bk || bv); intros w; [apply wp_panic | apply wp_ret]; reflexivity.
Qed.

Lemma frame_unwind_key k : frame (unwind_key E k).
Proof.
  unfold unwind_key. apply frame_bind; [apply frame_emit|]. intros _.
  apply frame_bind; [apply frame_cbd|]. intros _. apply frame_ret.
Qed.
Lemma frame_unwind_pair p : frame (unwind_pair E p).
Proof.
  unfold unwind_pair. apply frame_bind; [apply frame_emit|]. intros _.
  apply frame_bind; [apply frame_cbd|]. intros _.
  apply frame_bind; [apply frame_cbd|]. intros _. apply frame_ret.
Qed.
Lemma frame_unwind_val v : frame (unwind_val E v).
Proof.
  unfold unwind_val. apply frame_bind; [apply frame_emit|]. intros _.
  apply frame_bind; [apply frame_cbd|]. intros _. apply frame_ret.
Qed.
Lemma frame_unwind_args k v : frame (unwind_args E k v).
Proof.
  unfold unwind_args. apply frame_bind; [apply frame_emit|]. intros _.
  apply frame_bind; [apply frame_cbd|]. intros _.
  apply frame_bind; [apply frame_cbd|]. intros _. apply frame_ret.
Qed.
Lemma frame_drop_args k v : frame (drop_args E k v).
Proof.
  unfold drop_args. apply frame_bind; [apply frame_emit|]. intros _.
  apply frame_bind; [apply frame_cbd|]. intros bv.
  apply frame_bind; [apply frame_cbd|]. intros bk.
  destruct (bv || bk); intros w; [apply wp_panic | apply wp_ret]; reflexivity.
Qed.
Lemma frame_unwind_pairs l : frame (unwind_pairs E l).
Proof.
  induction l as [|p t IH]; cbn [unwind_pairs]; [apply frame_ret|].
  apply frame_bind; [apply frame_unwind_pair | intros _; exact IH].
Qed.

(* a frame computation keeps everything *)
Lemma frame_keeps {A} (c : M A) : frame c -> keeps c.
Proof.
  intros Hc w Hw. eapply wp_mono; [apply Hc | |]; cbn beta; unfold inv_post.
  - intros _ w' ->. auto.
  - intros w' ->. auto.
Qed.

(* using a frame computation inside a larger proof *)
Lemma wp_frame {A} (c : M A) (Qn : A -> world -> Prop) (Qp : world -> Prop) w :
  frame c ->
  (forall a w', self w' = self w -> Qn a w') -> (forall w', self w' = self w -> Qp w') ->
  wp c Qn Qp w.
Proof. intros Hc H1 H2. eapply wp_mono; [apply Hc | |]; cbn beta; auto. Qed.

(* unwinding cleanup that only runs destructors of locals *)
Lemma wp_on_unwind_frame {A} (cleanup : M unit) (c : M A) (Qn : A -> world -> Prop) (Qp : world -> Prop) w :
  frame cleanup ->
  wp c Qn (fun w' => forall w'', self w'' = self w' -> Qp w'') w ->
  wp (on_unwind cleanup c) Qn Qp w.
Proof.
  intros Hf H. apply wp_on_unwind. eapply wp_mono; [exact H | auto |]; cbn beta.
  intros w' Hq. apply wp_frame; [exact Hf | |]; intros; apply Hq; assumption.
Qed.

Lemma frame_on_unwind {A} (cleanup : M unit) (c : M A) :
  frame cleanup -> frame c -> frame (on_unwind cleanup c).
Proof.
  intros Hf Hc w. apply wp_on_unwind_frame; [exact Hf|].
  eapply wp_mono; [apply Hc | auto |]; cbn beta. intros w' H w'' H2. congruence.
Qed.

(* ---------- scanning ---------- *)
Lemma scan_loop_spec (test : K * V -> M bool) :
  (forall p, frame (test p)) ->
  forall n i w,
    (forall j, i <= j < i + n -> live (self w) j) ->
    wp (scan_loop test n i)
       (fun r w' => self w' = self w /\ match r with Some x => i <= x < i + n | None => True end)
       (fun w' => self w' = self w) w.
Proof.
  intros Ht. induction n as [|n IH]; intros i w Hl; cbn [scan_loop].
  - apply wp_ret. auto.
  - destruct (Hl i ltac:(lia)) as [p Hp].
    apply wp_bind. eapply wp_p_ref; [exact Hp|].
    apply wp_bind. apply wp_frame; [apply Ht | |].
    + intros b w' Hs. destruct b.
      * apply wp_ret. split; [exact Hs | lia].
      * eapply wp_mono; [apply IH | |]; cbn beta.
        -- intros j Hj. rewrite Hs. apply Hl. lia.
        -- intros r w'' [Hs' Hr]. split; [congruence|]. destruct r; [lia | exact I].
        -- intros w'' Hs'. congruence.
    + intros w' Hs. exact Hs.
Qed.

Lemma scan_spec (test : K * V -> M bool) :
  (forall p, frame (test p)) ->
  forall w, WF (self w) ->
    wp (scan test)
       (fun r w' => self w' = self w /\ match r with Some x => x < len (self w) | None => True end)
       (fun w' => self w' = self w) w.
Proof.
  intros Ht w [Hl Hs]. unfold scan.
  apply wp_bind. apply wp_p_prefix; [intros _ | lia].
  apply wp_bind. apply wp_get_len.
  eapply wp_mono; [apply (scan_loop_spec test Ht) | |]; cbn beta.
  - intros j Hj. apply Hs. lia.
  - intros r w' [H1 H2]. split; [exact H1|]. destruct r; [lia | exact I].
  - auto.
Qed.

Lemma frame_scan_loop (test : K * V -> M bool) :
  (forall p, frame (test p)) ->
  forall n i w, (forall j, i <= j < i + n -> live (self w) j) ->
    wp (scan_loop test n i) (fun _ w' => self w' = self w) (fun w' => self w' = self w) w.
Proof.
  intros Ht n i w Hl. eapply wp_mono; [apply scan_loop_spec; eauto | |]; cbn beta; tauto.
Qed.

(* ---------- removal ---------- *)
(* swap-remove of a live slot: afterwards len is one less, invariant holds *)
Lemma remove_index_read_spec i w :
  WF (self w) -> i < len (self w) ->
  wp (remove_index_read debug i)
     (fun _ w' => inv_post w w' /\ S (len (self w')) = len (self w))
     (fun _ => False) w.
Proof.
  intros [Hl Hs] Hi. unfold remove_index_read.
  destruct (Hs i Hi) as [p Hp].
  apply wp_bind. eapply wp_p_read; [exact Hp|].
  destruct (len (self w)) as [|n] eqn:Hn; [lia|].
  apply wp_bind. eapply wp_dec_len; [simp_w; exact Hn|].
  apply wp_bind. apply wp_get_len. simp_w.
  destruct (Nat.eqb_spec i n) as [->|Hne].
  - apply wp_bind. apply wp_ret. apply wp_ret. simp_w.
    split; [|reflexivity]. unfold inv_post. simp_w. split.
    + split; simp_w.
      * unfold cap; simp_w. rewrite upd_length. fold (cap (self w)). lia.
      * intros j Hj. unfold live; simp_w. rewrite nth_error_upd_neq by lia.
        apply Hs. lia.
    + unfold cap; simp_w. apply upd_length.
  - assert (Hnl : n < S n) by lia.
    destruct (Hs n Hnl) as [q Hq].
    apply wp_bind. apply wp_bind.
    eapply wp_p_read with (p := q).
    { simp_w. rewrite nth_error_upd_neq by auto. exact Hq. }
    simp_w.
    apply wp_p_write.
    { unfold cap; simp_w. rewrite !upd_length. fold (cap (self w)). lia. }
    apply wp_ret. simp_w.
    split; [|reflexivity]. unfold inv_post. simp_w. split.
    + split; simp_w.
      * unfold cap; simp_w. rewrite !upd_length. fold (cap (self w)). lia.
      * intros j Hj. unfold live; simp_w.
        destruct (Nat.eq_dec i j) as [<-|Hij].
        -- exists q. apply nth_error_upd_eq. rewrite !upd_length. fold (cap (self w)). lia.
        -- rewrite nth_error_upd_neq by exact Hij.
           rewrite nth_error_upd_neq by lia.
           rewrite nth_error_upd_neq by exact Hij.
           apply Hs. lia.
    + unfold cap; simp_w. rewrite !upd_length. reflexivity.
Qed.

Lemma keeps_remove_index_read i w :
  WF (self w) -> i < len (self w) ->
  wp (remove_index_read debug i) (fun _ => inv_post w) (inv_post w) w.
Proof.
  intros Hw Hi. eapply wp_mono; [apply remove_index_read_spec; auto | |]; cbn beta; tauto.
Qed.

Lemma keeps_remove_index_drop i w :
  WF (self w) -> i < len (self w) ->
  wp (remove_index_drop E debug i)
     (fun _ w' => inv_post w w' /\ S (len (self w')) = len (self w))
     (fun w' => inv_post w w' /\ S (len (self w')) = len (self w)) w.
Proof.
  intros Hw Hi. unfold remove_index_drop. apply wp_bind.
  eapply wp_mono; [apply remove_index_read_spec; auto | |]; cbn beta; [|tauto].
  intros p w' [[H1 H2] H3]. apply wp_frame; [apply frame_drop_pair | |].
  - intros _ w'' Hs. unfold inv_post. rewrite Hs. auto.
  - intros w'' Hs. unfold inv_post. rewrite Hs. auto.
Qed.

(* ---------- drop loops ---------- *)
(* dropping slots [i, i+n): all of them must be live; slots outside stay as
   they are; the length is not touched *)
Lemma drop_range_spec n : forall i w,
  (forall j, i <= j < i + n -> live (self w) j) ->
  let post := fun w' : world =>
    len (self w') = len (self w) /\ cap (self w') = cap (self w) /\
    (forall j, j < i \/ i + n <= j -> nth_error (slots (self w')) j = nth_error (slots (self w)) j) in
  wp (drop_range E n i) (fun _ => post) post w.
Proof.
  induction n as [|n IH]; intros i w Hl post; cbn [drop_range].
  - apply wp_ret. unfold post. auto.
  - destruct (Hl i ltac:(lia)) as [p Hp].
    unfold p_drop. apply wp_bind. apply wp_bind.
    eapply wp_p_read; [exact Hp|].
    assert (Hstep : post (with_self w (set_slot_m (self w) i None)) \/ True) by (right; exact I).
    clear Hstep.
    apply wp_frame; [apply frame_drop_pair | |].
    + intros _ w' Hs.
      eapply wp_mono; [apply IH | |]; cbn beta.
      * intros j Hj. rewrite Hs. cbn [with_self self]. apply live_set_slot_neq; [lia | apply Hl; lia].
      * intros _ w'' (H1 & H2 & H3). unfold post. rewrite Hs in H1, H2, H3.
        cbn [with_self self set_slot_m len slots] in H1, H2, H3.
        split; [exact H1|]. split; [rewrite H2; apply cap_set_slot|].
        intros j Hj. rewrite H3 by lia. apply nth_error_upd_neq. lia.
      * intros w'' (H1 & H2 & H3). unfold post. rewrite Hs in H1, H2, H3.
        cbn [with_self self set_slot_m len slots] in H1, H2, H3.
        split; [exact H1|]. split; [rewrite H2; apply cap_set_slot|].
        intros j Hj. rewrite H3 by lia. apply nth_error_upd_neq. lia.
    + intros w' Hs. unfold post. rewrite Hs. cbn [with_self self set_slot_m len slots].
      split; [reflexivity|]. split; [apply cap_set_slot|].
      intros j Hj. apply nth_error_upd_neq. lia.
Qed.

(* Drop for Map on a well-formed container: never touches a dead slot *)
Lemma drop_map_safe w :
  WF (self w) -> wp (drop_map E) (fun _ _ => True) (fun _ => True) w.
Proof.
  intros [Hl Hs]. unfold drop_map. apply wp_bind. apply wp_get_len.
  eapply wp_mono; [apply drop_range_spec | |]; cbn beta; auto.
  intros j Hj. apply Hs. lia.
Qed.

(* clear(): length first, then the elements *)
Lemma keeps_clear : keeps (clear E).
Proof.
  intros w [Hl Hs]. unfold clear.
  apply wp_bind. apply wp_get_len. apply wp_bind. apply wp_set_len.
  eapply wp_mono; [apply drop_range_spec | |]; cbn beta.
  - intros j Hj. cbn [with_self self]. apply live_set_len. apply Hs. lia.
  - intros _ w' (H1 & H2 & _). cbn [with_self self set_len_m len] in H1, H2.
    split; [|exact H2]. split; [lia | intros j Hj; lia].
  - intros w' (H1 & H2 & _). cbn [with_self self set_len_m len] in H1, H2.
    split; [|exact H2]. split; [lia | intros j Hj; lia].
Qed.

(* ---------- lookups ---------- *)
Lemma keeps_scan (test : K * V -> M bool) : (forall p, frame (test p)) -> keeps (scan test).
Proof.
  intros Ht w Hw. eapply wp_mono; [apply scan_spec; auto | |]; cbn beta; unfold inv_post.
  - intros r w' [-> _]. auto.
  - intros w' ->. auto.
Qed.

Lemma keeps_contains_key q : keeps (contains_key E q).
Proof.
  intros w Hw. unfold contains_key. apply wp_bind.
  eapply wp_mono; [apply keeps_scan; [intros; apply frame_test_q | exact Hw] | |]; cbn beta.
  - intros r w' H. apply wp_ret. exact H.
  - auto.
Qed.
Lemma keeps_get q : keeps (get E q).
Proof. apply keeps_scan. intros; apply frame_test_q. Qed.
Lemma keeps_get_mut q : keeps (get_mut E q).
Proof. apply keeps_scan. intros; apply frame_test_q. Qed.
Lemma keeps_get_key_value q : keeps (get_key_value E q).
Proof. apply keeps_scan. intros; apply frame_test_q. Qed.

(* the slot a lookup hands out is live *)
Lemma get_result_live q w :
  WF (self w) ->
  wp (get E q) (fun r w' => self w' = self w /\ match r with Some i => live (self w) i | None => True end)
     (fun w' => self w' = self w) w.
Proof.
  intros Hw. eapply wp_mono; [apply scan_spec; [intros; apply frame_test_q | exact Hw] | |]; cbn beta; auto.
  intros r w' [H1 H2]. split; [exact H1|]. destruct r; [apply WF_live; assumption | exact I].
Qed.

Lemma keeps_index q : keeps (index E q).
Proof.
  intros w Hw. unfold index. apply wp_bind.
  eapply wp_mono; [apply keeps_get; exact Hw | |]; cbn beta.
  - intros [i|] w' H; [apply wp_ret | apply wp_panic]; exact H.
  - auto.
Qed.
Lemma keeps_index_mut q : keeps (index_mut E q).
Proof.
  intros w Hw. unfold index_mut. apply wp_bind.
  eapply wp_mono; [apply keeps_get_mut; exact Hw | |]; cbn beta.
  - intros [i|] w' H; [apply wp_ret | apply wp_panic]; exact H.
  - auto.
Qed.

(* ---------- remove / remove_entry ---------- *)
Lemma keeps_remove q : keeps (remove E debug q).
Proof.
  intros w Hw. unfold remove. apply wp_bind.
  eapply wp_mono; [apply scan_spec; [intros; apply frame_test_q | exact Hw] | |]; cbn beta.
  - intros [i|] w' [Hs Hi].
    + apply wp_bind. eapply wp_mono; [apply keeps_remove_index_read; rewrite Hs; auto | |]; cbn beta.
      * intros p w'' H. apply (inv_post_base _ _ _ Hs) in H. apply wp_bind.
        apply wp_frame; [apply frame_drop_key | |].
        -- intros _ w3 Hs3. apply wp_ret. eapply inv_post_frame; eauto.
        -- intros w3 Hs3. eapply inv_post_frame; eauto.
      * intros w'' H. eapply inv_post_base; eauto.
    + apply wp_ret. apply inv_post_refl; auto.
  - intros w' Hs. apply inv_post_refl; auto.
Qed.

Lemma keeps_remove_entry q : keeps (remove_entry E debug q).
Proof.
  intros w Hw. unfold remove_entry. apply wp_bind.
  eapply wp_mono; [apply scan_spec; [intros; apply frame_test_q | exact Hw] | |]; cbn beta.
  - intros [i|] w' [Hs Hi].
    + apply wp_bind. eapply wp_mono; [apply keeps_remove_index_read; rewrite Hs; auto | |]; cbn beta.
      * intros p w'' H. apply wp_ret. eapply inv_post_base; eauto.
      * intros w'' H. eapply inv_post_base; eauto.
    + apply wp_ret. apply inv_post_refl; auto.
  - intros w' Hs. apply inv_post_refl; auto.
Qed.

(* ---------- insertion ---------- *)
Lemma keeps_insert_ii k v u : keeps (insert_ii E debug k v u).
Proof.
  intros w Hw. unfold insert_ii. apply wp_bind.
  apply wp_on_unwind_frame; [apply frame_unwind_args|].
  eapply wp_mono; [apply scan_spec; [intros; apply frame_test_k | exact Hw] | |]; cbn beta.
  - intros [i|] w' [Hs Hi].
    + destruct (WF_live _ _ Hw Hi) as [p Hp].
      assert (Hic : i < cap (self w)) by (apply live_lt_cap; exists p; exact Hp).
      destruct u.
      * apply wp_bind. eapply wp_p_replace; [rewrite Hs; exact Hp|].
        apply wp_ret. unfold inv_post. simp_w. rewrite Hs.
        split; [apply WF_set_slot_some; auto | apply cap_set_slot].
      * apply wp_bind. eapply wp_p_replace; [rewrite Hs; exact Hp|].
        apply wp_ret. unfold inv_post. simp_w. rewrite Hs.
        split; [apply WF_set_slot_some; auto | apply cap_set_slot].
    + apply wp_bind. apply wp_get_len. apply wp_bind. apply wp_get_cap.
      apply wp_bind. apply wp_on_unwind_frame; [apply frame_unwind_args|].
      apply wp_bind. apply wp_dbg_assert.
      * intros _. apply wp_check_index.
        -- intros Hc. apply wp_bind. apply wp_p_write_checked.
           ++ intros _. apply wp_bind. apply wp_set_len. apply wp_ret.
              unfold inv_post. simp_w. rewrite Hs in *.
              split; [apply WF_append; auto | rewrite cap_set_len, cap_set_slot; reflexivity].
           ++ intros _. apply inv_post_refl; auto.
        -- intros _ w'' Hs''. apply inv_post_refl; [exact Hw | congruence].
      * intros _ _ w'' Hs''. apply inv_post_refl; [exact Hw | congruence].
  - intros w' Hs w'' Hs''. apply inv_post_refl; [exact Hw | congruence].
Qed.

End Safety.
