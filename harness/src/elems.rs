// Instrumented element types and the thread-local context (script, counters,
// ledger, event log).  Mirrors coq/Model/Exec.v: env_map / env_set.
use std::borrow::Borrow;
use std::cell::{Cell, RefCell};
use std::collections::HashMap;
use std::fmt;

pub const MAGIC_K: u64 = 0x4b4b_4b4b_1357_9bdf;
pub const MAGIC_V: u64 = 0x5656_5656_2468_ace0;
pub const DEAD: u64 = 0xdead_dead_dead_dead;

pub struct Ctx {
    pub adv: bool,
    pub seed: u64,
    pub fk: u64,
    pub fa: u64,
    pub n_eq: u64,
    pub n_clone: u64,
    pub n_call: u64,
    pub next_id: u64,
    pub op_ids: Vec<u64>, // identities handed in by the running operation
    pub quiet: u8,     // 1: callbacks answer lawfully, uncounted, never fault; 2: every == answers false
    pub in_call: bool, // record events
    pub drops: Vec<u64>,
    pub clones: Vec<u64>,
    pub ledger: HashMap<u64, u8>, // 1 live, 2 dropped
    pub faults: Vec<String>,
    pub leak_ok: bool,
    pub fired: bool,
}

impl Ctx {
    pub fn new() -> Self {
        Ctx {
            adv: false,
            seed: 0,
            fk: 0,
            fa: 0,
            n_eq: 0,
            n_clone: 0,
            n_call: 0,
            next_id: 100_000,
            op_ids: Vec::new(),
            quiet: 0,
            in_call: false,
            drops: Vec::with_capacity(1024),
            clones: Vec::with_capacity(1024),
            ledger: HashMap::with_capacity(1024),
            faults: Vec::new(),
            leak_ok: false,
            fired: false,
        }
    }
}

thread_local! {
    pub static CTX: RefCell<Ctx> = RefCell::new(Ctx::new());
    // allocation counting is suspended inside callbacks and harness code
    pub static COUNTING: Cell<bool> = const { Cell::new(false) };
    pub static ALLOCS: Cell<u64> = const { Cell::new(0) };
}

pub fn with_ctx<R>(f: impl FnOnce(&mut Ctx) -> R) -> R {
    let was = COUNTING.with(|c| c.replace(false));
    let r = CTX.with(|c| f(&mut c.borrow_mut()));
    COUNTING.with(|c| c.set(was));
    r
}

pub fn fault(s: String) {
    with_ctx(|c| c.faults.push(s));
}

fn mix(seed: u64, n: u64) -> u64 {
    let mut z = seed.wrapping_add((n.wrapping_add(1)).wrapping_mul(11400714819323198485));
    z = (z ^ (z >> 30)).wrapping_mul(13787848793156543929);
    z = (z ^ (z >> 27)).wrapping_mul(10723151780598845931);
    z ^ (z >> 31)
}

// Exec.cls_truth: what a comparison of two key CLASSES answers by itself -- equality, except under the fifth
// adversarial kind (seed mod 5 = 3), where "a == b" iff a <= b: reflexive, transitive, not symmetric, so that the
// order of the operands in every comparison the crate makes is observable
fn cls_truth(a: u64, b: u64) -> bool {
    let asym = with_ctx(|c| c.adv && c.seed % 5 == 3);
    if asym { if FLIP.load(std::sync::atomic::Ordering::Relaxed) { b <= a } else { a <= b } } else { a == b }
}
/// MM_FLIP=1: the asymmetric kind answers with the operands swapped.  Used by the driver only to CLASSIFY a
/// difference under that kind: a crate that uses ONE relation throughout, with the operands of every comparison the
/// other way round than the model, agrees with the model under the flipped == (no property is concerned by that)
pub static FLIP: std::sync::atomic::AtomicBool = std::sync::atomic::AtomicBool::new(false);

// every ==: Key==Key, Cls==Cls, Val==Val
fn eq_cb(truth: bool) -> bool {
    let r = with_ctx(|c| {
        if c.quiet == 1 {
            return Some(truth);
        }
        if c.quiet == 2 {
            return Some(false);
        }
        let n = c.n_eq;
        c.n_eq += 1;
        if c.fk == 1 && c.fa == n {
            c.fired = true;
            c.leak_ok = true;
            return None;
        }
        if !c.adv {
            return Some(truth);
        }
        // a misbehaving ==: the seed selects the kind of misbehaviour (Exec.adv_answer)
        Some(match c.seed % 5 {
            4 => if mix(c.seed, n) % 4 == 0 { !truth } else { truth },
            0 => true,
            1 => false,
            2 => if n % 2 == 0 { truth } else { !truth },
            _ => truth,     // kind 3: the operands decide, asymmetrically (cls_truth below)
        })
    });
    match r {
        Some(b) => b,
        None => panic!("injected eq panic"),
    }
}

fn clone_tick(src: u64) -> u64 {
    let r = with_ctx(|c| {
        if c.in_call {
            c.clones.push(src);
        }
        let n = c.n_clone;
        c.n_clone += 1;
        if c.fk == 2 && c.fa == n {
            c.fired = true;
            c.leak_ok = true;
            return None;
        }
        let id = c.next_id;
        c.next_id += 1;
        c.ledger.insert(id, 1);
        Some(id)
    });
    match r {
        Some(id) => id,
        None => panic!("injected clone panic"),
    }
}

// a user closure / source next() / Default::default()
pub fn call_tick() {
    let boom = with_ctx(|c| {
        let n = c.n_call;
        c.n_call += 1;
        if c.fk == 4 && c.fa == n {
            c.fired = true;
            c.leak_ok = true;
            true
        } else {
            false
        }
    });
    if boom {
        panic!("injected call panic");
    }
}

pub fn fresh_id() -> u64 {
    with_ctx(|c| {
        let id = c.next_id;
        c.next_id += 1;
        c.ledger.insert(id, 1);
        id
    })
}

fn observe(id: u64, magic: u64, want: u64, what: &str) {
    with_ctx(|c| {
        if magic != want {
            c.faults
                .push(format!("USE_GARBAGE {} id={} magic={:#x}", what, id, magic));
        } else if c.ledger.get(&id) != Some(&1) {
            c.faults.push(format!("USE_DEAD {} id={}", what, id));
        }
    });
}

fn on_drop(id: u64, magic: u64, want: u64, what: &str) -> bool {
    with_ctx(|c| {
        if magic != want {
            c.faults
                .push(format!("DROP_GARBAGE {} id={} magic={:#x}", what, id, magic));
            return false;
        }
        match c.ledger.get(&id) {
            Some(&1) => {
                c.ledger.insert(id, 2);
            }
            Some(_) => c.faults.push(format!("DOUBLE_DROP {} id={}", what, id)),
            None => c.faults.push(format!("DROP_UNKNOWN {} id={}", what, id)),
        }
        if c.in_call {
            c.drops.push(id);
        }
        if c.in_call && c.fk == 3 && c.fa == id && !std::thread::panicking() {
            c.fired = true;
            c.leak_ok = true;
            true
        } else {
            false
        }
    })
}

// ---------------------------------------------------------------- Cls / Key
#[repr(transparent)]
pub struct Cls(pub u64);
impl PartialEq for Cls {
    fn eq(&self, o: &Cls) -> bool {
        eq_cb(cls_truth(self.0, o.0))
    }
}
impl Eq for Cls {}

#[repr(C)]
pub struct Key {
    pub magic: u64,
    pub id: u64,
    pub cls: Cls,
}
impl Key {
    pub fn new(id: u64, cls: u64) -> Key {
        with_ctx(|c| {
            c.ledger.insert(id, 1);
            c.op_ids.push(id);
        });
        Key { magic: MAGIC_K, id, cls: Cls(cls) }
    }
    pub fn ok(&self) -> bool {
        self.magic == MAGIC_K
    }
}
impl PartialEq for Key {
    fn eq(&self, o: &Key) -> bool {
        observe(self.id, self.magic, MAGIC_K, "eq-lhs");
        observe(o.id, o.magic, MAGIC_K, "eq-rhs");
        eq_cb(cls_truth(self.cls.0, o.cls.0))
    }
}
impl Eq for Key {}
impl Borrow<Cls> for Key {
    fn borrow(&self) -> &Cls {
        observe(self.id, self.magic, MAGIC_K, "borrow");
        &self.cls
    }
}
// while a container is being cloned, clone() must be called on the elements stored in it
thread_local! { pub static CLONE_WIN: std::cell::Cell<(usize, usize)> = const { std::cell::Cell::new((0, 0)) }; }
fn in_window(addr: usize, sz: usize) {
    let (base, size) = CLONE_WIN.with(|w| w.get());
    if size != 0 && !(addr >= base && addr + sz <= base + size) {
        fault(format!("CLONE_SELF clone() was called on an object at {:#x} that is not stored in the container being cloned", addr));
    }
}
pub fn windowed<T, R>(c: &T, f: impl FnOnce() -> R) -> R {
    CLONE_WIN.with(|w| w.set((c as *const T as usize, std::mem::size_of::<T>())));
    let r = f();
    CLONE_WIN.with(|w| w.set((0, 0)));
    r
}

impl Clone for Key {
    fn clone(&self) -> Key {
        in_window(self as *const Key as usize, std::mem::size_of::<Key>());
        observe(self.id, self.magic, MAGIC_K, "clone");
        let id = clone_tick(self.id);
        Key { magic: MAGIC_K, id, cls: Cls(self.cls.0) }
    }
}
impl Drop for Key {
    fn drop(&mut self) {
        let boom = on_drop(self.id, self.magic, MAGIC_K, "key");
        self.magic = DEAD;
        if boom {
            panic!("injected drop panic");
        }
    }
}
impl fmt::Debug for Key {
    fn fmt(&self, f: &mut fmt::Formatter<'_>) -> fmt::Result {
        observe(self.id, self.magic, MAGIC_K, "debug");
        write!(f, "K{}c{}", self.id, self.cls.0)
    }
}
impl fmt::Display for Key {
    fn fmt(&self, f: &mut fmt::Formatter<'_>) -> fmt::Result {
        observe(self.id, self.magic, MAGIC_K, "display");
        write!(f, "k{}", self.cls.0)
    }
}

// ---------------------------------------------------------------------- Val
#[repr(C)]
pub struct Val {
    pub magic: u64,
    pub id: u64,
    pub dat: u64,
}
impl Val {
    pub fn new(id: u64, dat: u64) -> Val {
        with_ctx(|c| {
            c.ledger.insert(id, 1);
            c.op_ids.push(id);
        });
        Val { magic: MAGIC_V, id, dat }
    }
    pub fn ok(&self) -> bool {
        self.magic == MAGIC_V
    }
}
impl PartialEq for Val {
    fn eq(&self, o: &Val) -> bool {
        observe(self.id, self.magic, MAGIC_V, "veq-lhs");
        observe(o.id, o.magic, MAGIC_V, "veq-rhs");
        eq_cb(self.dat == o.dat)
    }
}
impl Clone for Val {
    fn clone(&self) -> Val {
        in_window(self as *const Val as usize, std::mem::size_of::<Val>());
        observe(self.id, self.magic, MAGIC_V, "vclone");
        let id = clone_tick(self.id);
        Val { magic: MAGIC_V, id, dat: self.dat }
    }
}
impl Default for Val {
    fn default() -> Val {
        call_tick();
        Val { magic: MAGIC_V, id: fresh_id(), dat: 0 }
    }
}
impl Drop for Val {
    fn drop(&mut self) {
        let boom = on_drop(self.id, self.magic, MAGIC_V, "val");
        self.magic = DEAD;
        if boom {
            panic!("injected drop panic");
        }
    }
}
impl fmt::Debug for Val {
    fn fmt(&self, f: &mut fmt::Formatter<'_>) -> fmt::Result {
        observe(self.id, self.magic, MAGIC_V, "vdebug");
        write!(f, "V{}d{}", self.id, self.dat)
    }
}
impl fmt::Display for Val {
    fn fmt(&self, f: &mut fmt::Formatter<'_>) -> fmt::Result {
        observe(self.id, self.magic, MAGIC_V, "vdisplay");
        write!(f, "d{}", self.dat)
    }
}

// ------------------------------------------------------------------- serde
impl serde::Serialize for Key {
    fn serialize<S: serde::Serializer>(&self, s: S) -> Result<S::Ok, S::Error> {
        observe(self.id, self.magic, MAGIC_K, "ser");
        (self.id, self.cls.0).serialize(s)
    }
}
impl<'de> serde::Deserialize<'de> for Key {
    fn deserialize<D: serde::Deserializer<'de>>(d: D) -> Result<Key, D::Error> {
        let (_, cls) = <(u64, u64)>::deserialize(d)?;
        Ok(Key { magic: MAGIC_K, id: fresh_id(), cls: Cls(cls) })
    }
}
impl serde::Serialize for Val {
    fn serialize<S: serde::Serializer>(&self, s: S) -> Result<S::Ok, S::Error> {
        observe(self.id, self.magic, MAGIC_V, "vser");
        (self.id, self.dat).serialize(s)
    }
}
impl<'de> serde::Deserialize<'de> for Val {
    fn deserialize<D: serde::Deserializer<'de>>(d: D) -> Result<Val, D::Error> {
        let (_, dat) = <(u64, u64)>::deserialize(d)?;
        Ok(Val { magic: MAGIC_V, id: fresh_id(), dat })
    }
}
