(* ExecUniq.v — history-level key uniqueness for the interpreter [step] of
   Model/Exec.v under an HONEST script (no adversarial ==, no injected
   faults): every operation — whether it returns or panics — keeps the keys
   of all four registers pairwise different.  Mirrors ExecSafe.v with a
   stronger invariant. *)
Require Import Model.Base Model.Slots Model.MapOps Model.EntryOps Model.SetOps Model.Fmt Model.Exec.
Require Import Proofs.Hoare Proofs.Inv Proofs.Safety Proofs.Safety2 Proofs.Safety3 Proofs.Spec Proofs.Lawful Proofs.Lawful2 Proofs.Lawful3 Proofs.IterSpec Proofs.EqClone Proofs.Disjoint Proofs.EntrySpec Proofs.Dict Proofs.Bulk Proofs.SetDict Proofs.FmtSerde Proofs.ExecSafe.
From Coq Require Import Permutation.

(* ------------------------------------------------------------------ *)
(* 0. statements                                                       *)
(* ------------------------------------------------------------------ *)
Definition UniqX (x : xworld) : Prop :=
  Uniq kcls (Spec.elems (xm0 x)) /\ Uniq kcls (Spec.elems (xm1 x)) /\
  Uniq kcls (Spec.elems (xs0 x)) /\ Uniq kcls (Spec.elems (xs1 x)).

Fixpoint run_final (debug : bool) (sc : script) (ops : list op) (x : xworld) : xworld :=
  match ops with [] => x | o :: t => run_final debug sc t (snd (step debug sc o x)) end.

(* ------------------------------------------------------------------ *)
(* 1. pure facts                                                       *)
(* ------------------------------------------------------------------ *)
Definition Um {V} (m : map key V) : Prop := Uniq kcls (Spec.elems m).
Definition cls {V} (m : map key V) : list N := List.map (fun p => kcls (fst p)) (Spec.elems m).

Lemma Um_cls {V} (m : map key V) : Um m <-> NoDup (cls m).
Proof. reflexivity. Qed.

Lemma Um_cls_eq {V} (m m' : map key V) : cls m' = cls m -> Um m -> Um m'.
Proof. unfold Um, Uniq, cls. intros ->. auto. Qed.

Lemma elems_len0 {V} (m : map key V) : len m = 0 -> Spec.elems m = [].
Proof. unfold Spec.elems. intros ->. destruct (slots m); reflexivity. Qed.

Lemma Um_len0 {V} (m : map key V) : len m = 0 -> Um m.
Proof. intros H. unfold Um. rewrite (elems_len0 m H). constructor. Qed.

Lemma Um_new {V} n : Um (@new_map key V n).
Proof. apply Um_len0. reflexivity. Qed.

(* overwriting an entry by one of the same class *)
Lemma Uniq_upd_same {V} (l : list (key * V)) i p q :
  nth_error l i = Some p -> kcls (fst q) = kcls (fst p) -> Uniq kcls l -> Uniq kcls (upd l i q).
Proof.
  intros Hp Hc Hu. unfold Uniq in *.
  rewrite (Bulk.map_upd_same (fun p : key * V => kcls (fst p)) l i q p Hp Hc). exact Hu.
Qed.

(* value-only write: the helper announced in the task *)
Lemma Uniq_upd_val {V} (l : list (key * V)) i k0 v v' :
  nth_error l i = Some (k0, v) -> Uniq kcls l -> Uniq kcls (upd l i (k0, v')).
Proof. intros Hp Hu. eapply Uniq_upd_same; [exact Hp | reflexivity | exact Hu]. Qed.

Lemma cls_set_slot_same {V} (m : map key V) i p q :
  WF m -> nth_error (slots m) i = Some (Some p) -> kcls (fst q) = kcls (fst p) ->
  cls (set_slot_m m i (Some q)) = cls m.
Proof.
  intros Hw Hp Hc. unfold cls. destruct (Nat.lt_ge_cases i (len m)) as [Hi|Hi].
  - rewrite elems_set_slot by assumption.
    apply (Bulk.map_upd_same (fun p : key * V => kcls (fst p)) _ i q p); [|exact Hc].
    apply elems_nth; assumption.
  - rewrite elems_set_slot_ge by exact Hi. reflexivity.
Qed.

Lemma Uniq_l_insert {V} (l : list (key * V)) k v u :
  Uniq kcls l -> Uniq kcls (fst (fst (l_insert kcls l k v u))).
Proof.
  intros Hu. unfold l_insert. destruct (find_idx kcls (kcls k) l) as [i|] eqn:Hf.
  - destruct (find_idx_inv kcls (kcls k) l i Hf) as [[[k0 v0] [Hp Hc]] _]. rewrite Hp.
    cbn [fst] in Hc. destruct u; cbn [fst].
    + eapply Uniq_upd_same; [exact Hp | cbn [fst]; congruence | exact Hu].
    + eapply Uniq_upd_same; [exact Hp | reflexivity | exact Hu].
  - cbn [fst]. apply FmtSerde.Uniq_snoc; [exact Hu | exact Hf].
Qed.

Lemma Uniq_swap_remove {V} (l : list (key * V)) i p :
  nth_error l i = Some p -> Uniq kcls l -> Uniq kcls (swap_remove l i).
Proof.
  intros Hp Hu.
  destruct (Dict.d_abs_del kcls l l (kcls (fst p)) i p Hu (Permutation_refl _) Hp eq_refl) as [H _].
  exact H.
Qed.

Lemma Uniq_l_remove {V} (l : list (key * V)) c :
  Uniq kcls l -> Uniq kcls (fst (l_remove kcls l c)).
Proof.
  intros Hu. unfold l_remove. destruct (find_idx kcls c l) as [i|] eqn:Hf; cbn [fst]; [|exact Hu].
  destruct (find_idx_inv kcls c l i Hf) as [[p [Hp _]] _].
  eapply Uniq_swap_remove; eauto.
Qed.

(* ------------------------------------------------------------------ *)
(* 2. the invariant carried through a computation                      *)
(* ------------------------------------------------------------------ *)
Section UGen.
Context {V : Type}.
Notation world := (world key V cstate).
Notation MV := (M key V cstate).

(* invariant, capacity and key uniqueness hold afterwards *)
Definition invU (w w' : world) : Prop :=
  WF (self w') /\ cap (self w') = cap (self w) /\ Um (self w').
Definition keepsU {A} (c : MV A) : Prop :=
  forall w, WF (self w) -> Um (self w) -> wp c (fun _ => invU w) (invU w) w.
(* the container is untouched, from a well-formed state *)
Definition stays {A} (c : MV A) : Prop :=
  forall w, WF (self w) -> wp c (fun _ w' => self w' = self w) (fun w' => self w' = self w) w.

Lemma invU_inv (w w' : world) : invU w w' -> inv_post w w'.
Proof. intros (H1 & H2 & _). split; assumption. Qed.
Lemma invU_WF (w w' : world) : invU w w' -> WF (self w').
Proof. intros (H1 & _). exact H1. Qed.
Lemma invU_U (w w' : world) : invU w w' -> Um (self w').
Proof. intros (_ & _ & H). exact H. Qed.
Lemma invU_refl (w w' : world) : WF (self w) -> Um (self w) -> self w' = self w -> invU w w'.
Proof. intros Hw Hu Hs. unfold invU. rewrite Hs. auto. Qed.
Lemma invU_trans (w w' w'' : world) : invU w w' -> invU w' w'' -> invU w w''.
Proof. intros (_ & H2 & _) (H4 & H5 & H6). unfold invU. split; [exact H4|]. split; [congruence | exact H6]. Qed.
Lemma invU_base (w w' w'' : world) : self w' = self w -> invU w' w'' -> invU w w''.
Proof. unfold invU. intros ->. auto. Qed.
Lemma invU_frame (w w' w'' : world) : self w'' = self w' -> invU w w' -> invU w w''.
Proof. unfold invU. intros ->. auto. Qed.
Lemma invU_len0 (w w' : world) : inv_post w w' -> len (self w') = 0 -> invU w w'.
Proof. intros [H1 H2] H0. split; [exact H1|]. split; [exact H2 | apply Um_len0; exact H0]. Qed.
Lemma invU_mk (w w' : world) : inv_post w w' -> Um (self w') -> invU w w'.
Proof. intros [H1 H2] H0. split; [exact H1|]. split; assumption. Qed.

Lemma keepsU_ret {A} (a : A) : keepsU (ret a).
Proof. intros w Hw Hu. apply wp_ret. apply invU_refl; auto. Qed.

Lemma keepsU_bind {A B} (c : MV A) (f : A -> MV B) :
  keepsU c -> (forall a, keepsU (f a)) -> keepsU (bind c f).
Proof.
  intros Hc Hf w Hw Hu. apply wp_bind.
  eapply wp_mono; [apply Hc; assumption | |]; cbn beta; [|auto].
  intros a w1 H1.
  eapply wp_mono; [apply (Hf a w1); [eapply invU_WF; eauto | eapply invU_U; eauto] | |]; cbn beta.
  - intros _ w2 H2. eapply invU_trans; eauto.
  - intros w2 H2. eapply invU_trans; eauto.
Qed.

Lemma keepsU_on_unwind {A} (cleanup : MV unit) (c : MV A) :
  frame cleanup -> keepsU c -> keepsU (on_unwind cleanup c).
Proof.
  intros Hf Hc w Hw Hu. apply wp_on_unwind_frame; [exact Hf|].
  eapply wp_mono; [apply Hc; assumption | |]; cbn beta; [auto|].
  intros w' H w'' Hs. eapply invU_frame; eauto.
Qed.

Lemma stays_keepsU {A} (c : MV A) : stays c -> keepsU c.
Proof.
  intros Hc w Hw Hu. eapply wp_mono; [apply Hc; exact Hw | |]; cbn beta.
  - intros _ w' Hs. apply invU_refl; auto.
  - intros w' Hs. apply invU_refl; auto.
Qed.

Lemma frame_stays {A} (c : MV A) : frame c -> stays c.
Proof. intros Hc w _. apply Hc. Qed.
Lemma frame_keepsU {A} (c : MV A) : frame c -> keepsU c.
Proof. intros Hc. apply stays_keepsU. apply frame_stays. exact Hc. Qed.

Lemma stays_bind {A B} (c : MV A) (f : A -> MV B) :
  stays c -> (forall a, stays (f a)) -> stays (bind c f).
Proof.
  intros Hc Hf w Hw. apply wp_bind.
  eapply wp_mono; [apply Hc; exact Hw | |]; cbn beta; [|auto].
  intros a w1 H1.
  eapply wp_mono; [apply (Hf a w1); rewrite H1; exact Hw | |]; cbn beta; intros; congruence.
Qed.
Lemma stays_ret {A} (a : A) : stays (ret a).
Proof. intros w _. apply wp_ret. reflexivity. Qed.

Lemma keepsU_then_ret {A B} (c : MV A) (g : A -> B) : keepsU c -> keepsU (a <- c ;; ret (g a)).
Proof. intros Hc. apply keepsU_bind; [exact Hc|]. intros a. apply keepsU_ret. Qed.
Lemma keepsU_then_const {A B} (c : MV A) (b : B) : keepsU c -> keepsU (c ;; ret b).
Proof. intros Hc. apply keepsU_bind; [exact Hc|]. intros a. apply keepsU_ret. Qed.

(* lift to a different base world *)
Lemma wp_keepsU_at {A} (c : MV A) (w0 w : world) :
  keepsU c -> invU w0 w -> wp c (fun _ => invU w0) (invU w0) w.
Proof.
  intros Hc H0. eapply wp_mono; [apply Hc; [eapply invU_WF | eapply invU_U]; exact H0 | |]; cbn beta.
  - intros _ w' H. eapply invU_trans; eauto.
  - intros w' H. eapply invU_trans; eauto.
Qed.

Lemma wp_keepsU_then_frame {A B} (c : MV A) (f : A -> MV B) (w w0 : world) :
  wp c (fun _ => invU w0) (invU w0) w -> (forall a, frame (f a)) ->
  wp (bind c f) (fun _ => invU w0) (invU w0) w.
Proof.
  intros Hc Hf. apply wp_bind. eapply wp_mono; [exact Hc | |]; cbn beta; [|auto].
  intros a w1 H1. apply wp_frame; [apply Hf | |]; intros; eapply invU_frame; eauto.
Qed.

(* ---- keys, length and capacity stay; values may change ---- *)
Definition keepk (w w' : world) : Prop :=
  WF (self w') /\ cap (self w') = cap (self w) /\ len (self w') = len (self w) /\
  cls (self w') = cls (self w).

Lemma keepk_refl (w w' : world) : WF (self w) -> self w' = self w -> keepk w w'.
Proof. intros Hw Hs. unfold keepk. rewrite Hs. auto. Qed.
Lemma keepk_trans (w w' w'' : world) : keepk w w' -> keepk w' w'' -> keepk w w''.
Proof. intros (A1 & A2 & A3 & A4) (B1 & B2 & B3 & B4). unfold keepk. split; [exact B1|]. split; [congruence|]. split; congruence. Qed.
Lemma keepk_base (w w' w'' : world) : self w' = self w -> keepk w' w'' -> keepk w w''.
Proof. unfold keepk. intros ->. auto. Qed.
Lemma keepk_frame (w w' w'' : world) : self w'' = self w' -> keepk w w' -> keepk w w''.
Proof. unfold keepk. intros ->. auto. Qed.
Lemma keepk_WF (w w' : world) : keepk w w' -> WF (self w').
Proof. intros (H & _). exact H. Qed.
Lemma keepk_len (w w' : world) : keepk w w' -> len (self w') = len (self w).
Proof. intros (_ & _ & H & _). exact H. Qed.
Lemma keepk_invU (w w' : world) : Um (self w) -> keepk w w' -> invU w w'.
Proof.
  intros Hu (H1 & H2 & _ & H4). split; [exact H1|]. split; [exact H2|].
  eapply Um_cls_eq; eauto.
Qed.
Lemma keepk_invU_at (w0 w w' : world) : invU w0 w -> keepk w w' -> invU w0 w'.
Proof.
  intros H0 Hk. eapply invU_trans; [exact H0|]. apply keepk_invU; [eapply invU_U; eauto | exact Hk].
Qed.

(* writing a pair of the same class into a live slot *)
Lemma keepk_set_slot (w : world) i p q :
  WF (self w) -> nth_error (slots (self w)) i = Some (Some p) -> kcls (fst q) = kcls (fst p) ->
  keepk w (with_self w (set_slot_m (self w) i (Some q))).
Proof.
  intros Hw Hp Hc. unfold keepk. simp_w.
  split; [apply WF_set_slot_some; [exact Hw | apply live_lt_cap; exists p; exact Hp]|].
  split; [apply cap_set_slot|]. split; [reflexivity|].
  eapply cls_set_slot_same; eauto.
Qed.

Lemma wp_p_replace_k i (f : key * V -> key * V) (w : world) :
  WF (self w) -> live (self w) i -> (forall p, kcls (fst (f p)) = kcls (fst p)) ->
  wp (p_replace i f) (fun _ w' => keepk w w') (fun _ => False) w.
Proof.
  intros Hw [p Hp] Hf. eapply wp_p_replace; [exact Hp|].
  eapply keepk_set_slot; eauto.
Qed.

Lemma wp_frame_bindU {A B} (c : MV A) (f : A -> MV B) (Qn : B -> world -> Prop) (Qp : world -> Prop) w :
  frame c ->
  (forall a w', self w' = self w -> wp (f a) Qn Qp w') ->
  (forall w', self w' = self w -> Qp w') ->
  wp (bind c f) Qn Qp w.
Proof. intros Hc H1 H2. apply wp_bind. apply wp_frame; auto. Qed.

End UGen.

(* ------------------------------------------------------------------ *)
(* 3. the core operations keep the keys unique                         *)
(* ------------------------------------------------------------------ *)
Section UCore.
Context {V : Type} (E : env key V query cstate) (debug : bool).
Notation world := (world key V cstate).
Notation MV := (M key V cstate).

(* ---- no lawfulness needed: removal by index, retain ---- *)
Lemma remove_index_read_U i (w : world) :
  WF (self w) -> Um (self w) -> i < len (self w) ->
  wp (remove_index_read debug i)
     (fun _ w' => invU w w' /\ S (len (self w')) = len (self w)) (fun _ => False) w.
Proof.
  intros Hw Hu Hi.
  eapply wp_mono;
    [apply (wp_conj _ _ _ _ _ _ (remove_index_read_spec debug i w Hw Hi)
                                 (remove_index_read_elems debug i w Hw Hi)) | |]; cbn beta; [|tauto].
  intros p w' [[Hinv Hl] (_ & _ & _ & _ & Hp & He)]. split; [|exact Hl].
  apply invU_mk; [exact Hinv|]. unfold Um. rewrite He. eapply Uniq_swap_remove; eauto.
Qed.

Lemma remove_index_drop_U i (w : world) :
  WF (self w) -> Um (self w) -> i < len (self w) ->
  wp (remove_index_drop E debug i)
     (fun _ w' => invU w w' /\ S (len (self w')) = len (self w))
     (fun w' => invU w w' /\ S (len (self w')) = len (self w)) w.
Proof.
  intros Hw Hu Hi. unfold remove_index_drop. apply wp_bind.
  eapply wp_mono; [apply remove_index_read_U; assumption | |]; cbn beta; [|tauto].
  intros p w1 [H1 Hl1].
  apply wp_frame; [apply frame_drop_pair | |]; intros; rewrite H; split; auto; eapply invU_frame; eauto.
Qed.

Lemma call_pred_U (f : pred_t) i (w : world) :
  WF (self w) -> i < len (self w) ->
  wp (call_pred f i) (fun _ w' => keepk w w') (fun w' => keepk w w') w.
Proof.
  intros Hw Hi. destruct (WF_live _ _ Hw Hi) as [p Hp].
  unfold call_pred. apply wp_bind. eapply wp_p_ref; [exact Hp|].
  unfold wp. destruct (f (cb w) (fst p) (snd p)) as [[r v'] s].
  assert (Hgoal : forall w' : world,
             self w' = set_slot_m (self w) i (Some (fst p, v')) -> keepk w w').
  { intros w' Hs.
    eapply keepk_frame; [|apply (keepk_set_slot w i p (fst p, v') Hw Hp eq_refl)].
    rewrite Hs. reflexivity. }
  destruct r; apply Hgoal; reflexivity.
Qed.

Lemma retain_loop_U (f : pred_t) : forall fuel i (w : world),
  WF (self w) -> Um (self w) -> len (self w) - i <= fuel ->
  wp (retain_loop E debug f fuel i) (fun _ => invU w) (invU w) w.
Proof.
  induction fuel as [|fuel IH]; intros i w Hw Hu Hf; cbn [retain_loop].
  - apply wp_bind. apply wp_get_len.
    destruct (Nat.ltb_spec i (len (self w))) as [Hlt|Hge]; [lia|].
    apply wp_ret. apply invU_refl; auto.
  - apply wp_bind. apply wp_get_len.
    destruct (Nat.ltb_spec i (len (self w))) as [Hlt|Hge].
    + apply wp_bind.
      eapply wp_mono; [apply call_pred_U; assumption | |]; cbn beta.
      2:{ intros w' Hk. apply keepk_invU; assumption. }
      intros keep w' Hk.
      pose proof (keepk_invU _ _ Hu Hk) as Hinv. pose proof (keepk_len _ _ Hk) as Hl.
      destruct keep.
      * eapply wp_mono; [apply IH; [eapply invU_WF; eauto | eapply invU_U; eauto | lia] | |]; cbn beta.
        -- intros _ w'' H. eapply invU_trans; eauto.
        -- intros w'' H. eapply invU_trans; eauto.
      * apply wp_bind.
        eapply wp_mono; [apply remove_index_drop_U; [eapply invU_WF; eauto | eapply invU_U; eauto | lia] | |];
          cbn beta.
        -- intros _ w'' [Hinv' Hl'].
           eapply wp_mono; [apply IH; [eapply invU_WF; eauto | eapply invU_U; eauto | lia] | |]; cbn beta.
           ++ intros _ w3 H. eapply invU_trans; [|exact H]. eapply invU_trans; eauto.
           ++ intros w3 H. eapply invU_trans; [|exact H]. eapply invU_trans; eauto.
        -- intros w'' [Hinv' _]. eapply invU_trans; eauto.
    + apply wp_ret. apply invU_refl; auto.
Qed.

Lemma keepsU_retain (f : pred_t) : keepsU (retain E debug f).
Proof.
  intros w Hw Hu. unfold retain. apply wp_bind. apply wp_get_len.
  apply retain_loop_U; [exact Hw | exact Hu | lia].
Qed.

(* ---- under a lawful environment ---- *)
Context (HL : Lawful E kcls qcls).

Lemma insert_ii_U k v u (w : world) :
  WF (self w) -> Um (self w) ->
  wp (insert_ii E debug k v u) (fun r w' => invU w w' /\ fst r < len (self w')) (invU w) w.
Proof.
  intros Hw Hu.
  eapply wp_mono;
    [apply (wp_conj _ _ _ _ _ _ (Safety3.insert_ii_spec E debug k v u w Hw)
                                 (insert_ii_lawful E debug kcls qcls HL k v u w Hw)) | |]; cbn beta.
  - intros r w' [[Hinv Hi] (_ & _ & _ & Hins & _)]. split; [|exact Hi].
    apply invU_mk; [exact Hinv|]. unfold Um.
    replace (Spec.elems (self w')) with (fst (fst (l_insert kcls (Spec.elems (self w)) k v u)))
      by (rewrite <- Hins; reflexivity).
    apply Uniq_l_insert. exact Hu.
  - intros w' [_ [Hs _]]. apply invU_refl; auto.
Qed.

Lemma keepsU_insert_ii k v u : keepsU (insert_ii E debug k v u).
Proof.
  intros w Hw Hu. eapply wp_mono; [apply insert_ii_U; assumption | |]; cbn beta; [|auto]. tauto.
Qed.

Lemma keepsU_insert k v : keepsU (insert E debug k v).
Proof.
  unfold insert. apply keepsU_bind; [apply keepsU_insert_ii|]. intros [i e].
  apply frame_keepsU. apply Safety3.frame_keep_value.
Qed.

Lemma keepsU_insert_key_value k v : keepsU (insert_key_value E debug k v).
Proof.
  unfold insert_key_value. apply keepsU_bind; [apply keepsU_insert_ii|]. intros [i e]. apply keepsU_ret.
Qed.

Lemma keepsU_checked_insert k v : keepsU (checked_insert E debug k v).
Proof.
  intros w Hw Hu.
  eapply wp_mono; [apply (checked_insert_lawful E debug kcls qcls HL k v w Hw) | |]; cbn beta; [|tauto].
  intros r w' (Hw' & Hc' & Hm). split; [exact Hw'|]. split; [exact Hc'|]. unfold Um.
  destruct (find_idx kcls (kcls k) (Spec.elems (self w))) as [i|] eqn:Hf.
  - destruct Hm as [-> _]. apply Uniq_l_insert. exact Hu.
  - destruct (len (self w) <? cap (self w)).
    + destruct Hm as [-> _]. apply FmtSerde.Uniq_snoc; [exact Hu | exact Hf].
    + destruct Hm as [-> _]. exact Hu.
Qed.

Lemma keepsU_insert_unchecked k v (w : world) :
  WF (self w) -> Um (self w) -> (debug = true \/ len (self w) < cap (self w)) ->
  wp (insert_unchecked E debug k v) (fun _ => invU w) (invU w) w.
Proof.
  intros Hw Hu Hc.
  assert (Heq : insert_unchecked E debug k v w = insert E debug k v w).
  { unfold insert_unchecked, insert, bind.
    rewrite (insert_i_eq_core E debug k v false w Hw); [reflexivity|]. tauto. }
  unfold wp. rewrite Heq. apply keepsU_insert; assumption.
Qed.

Lemma keepsU_remove q : keepsU (remove E debug q).
Proof.
  intros w Hw Hu.
  eapply wp_mono; [apply (remove_lawful E debug kcls qcls HL q w Hw) | |]; cbn beta; [|tauto].
  intros r w' (Hw' & Hc' & He & _). split; [exact Hw'|]. split; [exact Hc'|]. unfold Um.
  rewrite He. apply Uniq_l_remove. exact Hu.
Qed.

Lemma keepsU_remove_entry q : keepsU (remove_entry E debug q).
Proof.
  intros w Hw Hu.
  eapply wp_mono; [apply (remove_entry_lawful E debug kcls qcls HL q w Hw) | |]; cbn beta; [|tauto].
  intros r w' (Hw' & Hc' & _ & He & _). split; [exact Hw'|]. split; [exact Hc'|]. unfold Um.
  rewrite He. apply Uniq_l_remove. exact Hu.
Qed.

End UCore.

(* ------------------------------------------------------------------ *)
(* 4. helpers of Exec.v                                                *)
(* ------------------------------------------------------------------ *)
Section UHelpers.
Context {V : Type}.
Notation world := (world key V cstate).
Notation MV := (M key V cstate).

(* emptied: invariant, capacity, and length 0 *)
Definition zpost (w w' : world) : Prop := inv_post w w' /\ len (self w') = 0.

Lemma zpost_invU (w w' : world) : zpost w w' -> invU w w'.
Proof. intros [H1 H2]. apply invU_len0; assumption. Qed.

Lemma clear_Z (E : env key V query cstate) (w : world) :
  WF (self w) -> wp (clear E) (fun _ => zpost w) (zpost w) w.
Proof.
  intros [Hl Hs]. unfold clear.
  apply wp_bind. apply wp_get_len. apply wp_bind. apply wp_set_len.
  eapply wp_mono; [apply drop_range_spec | |]; cbn beta.
  - intros j Hj. cbn [with_self self]. apply live_set_len. apply Hs. lia.
  - intros _ w' (H1 & H2 & _). cbn [with_self self set_len_m len] in H1, H2.
    split; [|exact H1]. split; [|exact H2]. split; [lia | intros j Hj; lia].
  - intros w' (H1 & H2 & _). cbn [with_self self set_len_m len] in H1, H2.
    split; [|exact H1]. split; [|exact H2]. split; [lia | intros j Hj; lia].
Qed.

Lemma keepsU_clear (E : env key V query cstate) : keepsU (clear E).
Proof.
  intros w Hw _. eapply wp_mono; [apply clear_Z; exact Hw | |]; cbn beta; intros; apply zpost_invU; assumption.
Qed.

Lemma stays_scan_opt_slot (E : env key V query cstate) q (rp : key * V -> list N) :
  stays (o <- scan (test_q E q) ;; opt_slot rp o).
Proof.
  intros w Hw. apply wp_bind.
  eapply wp_mono; [apply scan_spec; [intros; apply frame_test_q | exact Hw] | |]; cbn beta.
  - intros r w' [Hs Hr]. eapply wp_mono; [apply opt_slot_spec | |]; cbn beta.
    + rewrite Hs. destruct r; [apply WF_live; assumption | exact I].
    + intros _ w'' Hs'. congruence.
    + intros w'' [].
  - intros w' Hs. exact Hs.
Qed.

Lemma stays_scan (E : env key V query cstate) (test : key * V -> MV bool) :
  (forall p, frame (test p)) -> stays (scan test).
Proof.
  intros Ht w Hw. eapply wp_mono; [apply scan_spec; [exact Ht | exact Hw] | |]; cbn beta; [|auto]. tauto.
Qed.

(* replacing a register by a freshly built container *)
Lemma replace_with_U (E : env key V query cstate) build body (w : world) :
  WF (self w) -> Um (self w) ->
  (forall w0 : world, self w0 = new_map (cap (self w)) ->
     wp build (fun _ w' => WF (self w') /\ cap (self w') = cap (self w) /\ Um (self w')) (fun _ => True) w0) ->
  wp (replace_with E build body) (fun _ => invU w) (invU w) w.
Proof.
  intros Hw Hu Hb. unfold replace_with. apply wp_bind. apply wp_get_cap. apply wp_bind.
  apply wp_swap_self.
  eapply wp_mono; [apply Hb; reflexivity | |]; cbn beta.
  - intros [] w1 (Hw1 & Hc1 & Hu1).
    apply wp_bind. apply wp_get_self. apply wp_bind. apply wp_put_self. apply wp_bind.
    apply wp_swap_self. simp_w.
    eapply wp_mono; [apply drop_map_safe; simp_w; exact Hw | |]; cbn beta.
    + intros [] w2 _. apply wp_ret. unfold invU. simp_w. auto.
    + intros w2 _. unfold invU. simp_w. auto.
  - intros w1 _. simp_w. apply invU_refl; [exact Hw | exact Hu | reflexivity].
Qed.

Lemma replace_build_U (E : env key V query cstate) build body (w : world) :
  WF (self w) -> Um (self w) ->
  (forall w0 : world, WF (self w0) -> len (self w0) = 0 -> cap (self w0) = cap (self w) ->
     wp build (fun _ => invU w0) (fun _ => True) w0) ->
  wp (replace_with E build body) (fun _ => invU w) (invU w) w.
Proof.
  intros Hw Hu Hb. apply replace_with_U; [exact Hw | exact Hu|]. intros w0 Hs0.
  eapply wp_mono; [apply Hb | |]; cbn beta.
  - rewrite Hs0. apply WF_new.
  - rewrite Hs0. reflexivity.
  - rewrite Hs0. apply cap_new.
  - intros _ w' (H1 & H2 & H3). split; [exact H1|]. split; [|exact H3]. rewrite H2, Hs0. apply cap_new.
  - auto.
Qed.

Lemma keepsU_op_with_capacity (E : env key V query cstate) c :
  keepsU (n <- get_cap ;; if with_capacity_ok c n then replace_with E (ret tt) [] else panic).
Proof.
  intros w Hw Hu. apply wp_bind. apply wp_get_cap. destruct (with_capacity_ok c (cap (self w))).
  - apply replace_build_U; [exact Hw | exact Hu|]. intros w0 Hw0 Hl0 _. apply wp_ret.
    apply invU_refl; [exact Hw0 | apply Um_len0; exact Hl0 | reflexivity].
  - apply wp_panic. apply invU_refl; auto.
Qed.

Lemma keepsU_op_default (E : env key V query cstate) body :
  keepsU (replace_with E (ret tt) body).
Proof.
  intros w Hw Hu. apply replace_build_U; [exact Hw | exact Hu|]. intros w0 Hw0 Hl0 _. apply wp_ret.
  apply invU_refl; [exact Hw0 | apply Um_len0; exact Hl0 | reflexivity].
Qed.

(* a local container built by a [keepsU] computation under finally_drop *)
Lemma keepsU_op_finally (E : env key V query cstate) (c : MV unit) body :
  keepsU c -> keepsU (replace_with E (finally_drop E c) body).
Proof.
  intros Hc w Hw Hu. apply replace_build_U; [exact Hw | exact Hu|]. intros w0 Hw0 Hl0 _.
  apply Safety3.wp_finally_drop.
  eapply wp_mono; [apply Hc; [exact Hw0 | apply Um_len0; exact Hl0] | |]; cbn beta; [auto|].
  intros w' H. eapply invU_WF; eauto.
Qed.

(* final teardown-like detaching of the register *)
Lemma detach_U (w : world) (w2 : world) : WF (self w) -> invU w (with_self w2 (new_map (cap (self w)))).
Proof.
  intros Hw. unfold invU. simp_w. split; [apply WF_new|]. split; [apply cap_new | apply Um_new].
Qed.

(* ---- drain sessions ---- *)
Lemma DrainInv_zpost (w w' : world) c :
  DrainInv c (self w') -> cap (self w') = cap (self w) -> zpost w w'.
Proof.
  intros HD Hc. split; [split; [eapply DrainInv_WF; eauto | exact Hc] | apply HD].
Qed.

(* the rest of a Drain destroyed while unwinding: the register stays empty *)
Lemma unwind_drain_Z (E : env key V query cstate) c (w w0 : world) :
  DrainInv c (self w) -> cap (self w) = cap (self w0) ->
  wp (unwind_drain E c) (fun _ => zpost w0) (fun _ => False) w.
Proof.
  intros (Hl & Hc & Hs) Hc0. unfold unwind_drain.
  eapply wp_mono; [apply Safety2.unwind_range_spec | |]; cbn beta; [| |tauto].
  - intros j Hj. apply Hs. unfold cursor_len in Hj. lia.
  - intros _ w' (H1 & H2 & _). split; [|lia]. split; [|congruence].
    split; [lia | intros i Hi; lia].
Qed.

Lemma call_or_drain_Z (E : env key V query cstate) cl p c (w : world) :
  DrainInv c (self w) ->
  wp (call_or_drain E cl p c) (fun _ w' => self w' = self w) (zpost w) w.
Proof.
  intros HD. unfold call_or_drain. apply wp_on_unwind.
  apply wp_frame.
  { apply frame_bind; [apply frame_emit|]. intros _.
    apply frame_bind; [apply frame_cbk|]. intros _. apply frame_ret. }
  - intros _ w1 Hs1. exact Hs1.
  - intros w1 Hs1. apply wp_bind.
    eapply wp_mono; [apply unwind_pair_nopanic | |]; cbn beta; [|tauto].
    intros _ w2 Hs2.
    eapply wp_mono; [apply unwind_drain_Z with (w0 := w); rewrite Hs2, Hs1; [exact HD | reflexivity] | |];
      cbn beta; tauto.
Qed.

Lemma drop_or_drain_Z (E : env key V query cstate) p c (w : world) :
  DrainInv c (self w) ->
  wp (on_unwind (unwind_drain E c) (drop_pair E p)) (fun _ w' => self w' = self w) (zpost w) w.
Proof.
  intros HD. apply wp_on_unwind. apply wp_frame; [apply frame_drop_pair | |].
  - intros _ w1 Hs1. exact Hs1.
  - intros w1 Hs1.
    eapply wp_mono; [apply unwind_drain_Z with (w0 := w); rewrite Hs1; [exact HD | reflexivity] | |];
      cbn beta; tauto.
Qed.

Lemma zpost_base (w w1 w' : world) : cap (self w1) = cap (self w) -> zpost w1 w' -> zpost w w'.
Proof. intros Hc [[H1 H2] H3]. split; [split; [exact H1 | congruence] | exact H3]. Qed.

Lemma drain_for_each_Z (E : env key V query cstate) cl : forall fuel c cnt (w : world),
  DrainInv c (self w) ->
  wp (drain_for_each E cl fuel c cnt) (fun _ => zpost w) (zpost w) w.
Proof.
  induction fuel as [|f IH]; intros c cnt w HD; cbn [drain_for_each].
  - apply wp_ret. eapply DrainInv_zpost; eauto.
  - apply wp_bind. eapply wp_mono; [apply drain_next_spec; exact HD | |]; cbn beta; [|tauto].
    intros [o c'] w1 (HD1 & Hc1 & _). cbn [snd] in HD1.
    assert (H1 : zpost w w1) by (eapply DrainInv_zpost; eauto).
    destruct o as [p|]; [|apply wp_ret; exact H1].
    apply wp_bind. eapply wp_mono; [apply call_or_drain_Z; exact HD1 | |]; cbn beta.
    + intros _ w2 Hs2. eapply wp_mono; [apply IH; rewrite Hs2; exact HD1 | |]; cbn beta.
      * intros _ w3 H3. eapply zpost_base; [|exact H3]. rewrite Hs2. exact Hc1.
      * intros w3 H3. eapply zpost_base; [|exact H3]. rewrite Hs2. exact Hc1.
    + intros w2 H2. eapply zpost_base; [exact Hc1 | exact H2].
Qed.

Lemma drain_count_Z (E : env key V query cstate) : forall fuel c cnt (w : world),
  DrainInv c (self w) ->
  wp (drain_count E fuel c cnt) (fun _ => zpost w) (zpost w) w.
Proof.
  induction fuel as [|f IH]; intros c cnt w HD; cbn [drain_count].
  - apply wp_ret. eapply DrainInv_zpost; eauto.
  - apply wp_bind. eapply wp_mono; [apply drain_next_spec; exact HD | |]; cbn beta; [|tauto].
    intros [o c'] w1 (HD1 & Hc1 & _). cbn [snd] in HD1.
    assert (H1 : zpost w w1) by (eapply DrainInv_zpost; eauto).
    destruct o as [p|]; [|apply wp_ret; exact H1].
    apply wp_bind. eapply wp_mono; [apply drop_or_drain_Z; exact HD1 | |]; cbn beta.
    + intros _ w2 Hs2. eapply wp_mono; [apply IH; rewrite Hs2; exact HD1 | |]; cbn beta.
      * intros _ w3 H3. eapply zpost_base; [|exact H3]. rewrite Hs2. exact Hc1.
      * intros w3 H3. eapply zpost_base; [|exact H3]. rewrite Hs2. exact Hc1.
    + intros w2 H2. eapply zpost_base; [exact Hc1 | exact H2].
Qed.

Lemma keepsU_drain_session (E : env key V query cstate) rp dk dv with_dbg cl take fate :
  keepsU (drain_session E rp dk dv with_dbg cl take fate).
Proof.
  intros w Hw Hu. unfold drain_session. apply wp_bind.
  eapply wp_mono; [apply drain_spec; exact Hw | |]; cbn beta.
  - intros c w1 (HD1 & Hc1 & _). apply wp_bind.
    eapply wp_mono; [apply drain_steps_spec; exact HD1 | |]; cbn beta; [|tauto].
    intros [acc c'] w2 [HD2 Hc2]. cbn [snd] in HD2.
    apply wp_frame_bind.
    { apply frame_if; [apply frame_dbg_range | apply frame_ret]. }
    2:{ intros w3 Hs3. apply zpost_invU. apply DrainInv_zpost with (c := c'); rewrite Hs3; [exact HD2 | congruence]. }
    intros d0 w3 Hs3. apply wp_frame_bind.
    { apply frame_if; [apply frame_dbg_range | apply frame_ret]. }
    2:{ intros w4 Hs4. apply zpost_invU. apply DrainInv_zpost with (c := c'); rewrite Hs4, Hs3; [exact HD2 | congruence]. }
    intros d1 w4 Hs4.
    assert (Hs42 : self w4 = self w2) by congruence.
    assert (HD4 : DrainInv c' (self w4)) by (rewrite Hs42; exact HD2).
    assert (Hc4 : cap (self w4) = cap (self w)) by (rewrite Hs42; congruence).
    assert (H4 : zpost w w4) by (eapply DrainInv_zpost; eauto).
    apply wp_bind. destruct (N.eqb fate 0).
    + apply wp_bind.
      eapply wp_mono; [apply drain_drop_spec with (c := c'); exact HD4 | |]; cbn beta.
      * intros _ w5 (Hw5 & Hl5 & Hc5). apply wp_ret. apply wp_ret.
        apply zpost_invU. split; [split; [exact Hw5 | congruence] | exact Hl5].
      * intros w5 (Hw5 & Hl5 & Hc5). apply zpost_invU. split; [split; [exact Hw5 | congruence] | exact Hl5].
    + destruct (N.eqb fate 2).
      * apply wp_bind.
        eapply wp_mono; [apply drain_for_each_Z; exact HD4 | |]; cbn beta.
        -- intros n w5 H5. apply wp_ret. apply wp_ret. apply zpost_invU. eapply zpost_base; eauto.
        -- intros w5 H5. apply zpost_invU. eapply zpost_base; eauto.
      * destruct (N.eqb fate 3).
        -- apply wp_bind.
           eapply wp_mono; [apply drain_count_Z; exact HD4 | |]; cbn beta.
           ++ intros n w5 H5. apply wp_ret. apply wp_ret. apply zpost_invU. eapply zpost_base; eauto.
           ++ intros w5 H5. apply zpost_invU. eapply zpost_base; eauto.
        -- apply wp_ret. apply wp_ret. apply zpost_invU. exact H4.
  - intros w1 Hs1. apply invU_refl; auto.
Qed.

End UHelpers.

(* ------------------------------------------------------------------ *)
(* 5. Map sessions                                                     *)
(* ------------------------------------------------------------------ *)
Lemma set_dat_K i d (w : mworld) :
  WF (self w) -> live (self w) i ->
  wp (set_dat i d) (fun _ w' => keepk w w') (fun _ => False) w.
Proof.
  intros Hw Hl. unfold set_dat. apply wp_bind.
  eapply wp_mono; [apply wp_p_replace_k; [exact Hw | exact Hl | intros p; reflexivity] | |]; cbn beta; [|tauto].
  intros p w' Hk. apply wp_ret. exact Hk.
Qed.

Lemma keepsU_op_get_mut sc q d :
  keepsU (o <- get_mut (env_map sc) q ;; b <- opt_slot (fun p : key * vobj => r_val (snd p)) o ;;
          (match o with Some i => set_dat i d | None => ret tt end) ;; ret b).
Proof.
  intros w Hw Hu. apply wp_bind. unfold get_mut.
  eapply wp_mono; [apply scan_spec; [intros; apply frame_test_q | exact Hw] | |]; cbn beta.
  - intros r w1 [Hs1 Hr]. apply wp_bind.
    assert (Hw1 : WF (self w1)) by (rewrite Hs1; exact Hw).
    eapply wp_mono; [apply opt_slot_spec | |]; cbn beta.
    + destruct r; [apply WF_live; [exact Hw1 | rewrite Hs1; exact Hr] | exact I].
    + intros b w2 Hs2. apply wp_bind. destruct r as [i|].
      * eapply wp_mono; [apply set_dat_K | |]; cbn beta.
        -- rewrite Hs2. exact Hw1.
        -- rewrite Hs2. apply WF_live; [exact Hw1 | rewrite Hs1; exact Hr].
        -- intros _ w3 H3. apply wp_ret. apply keepk_invU; [exact Hu|].
           eapply keepk_base; [|exact H3]. congruence.
        -- intros w3 [].
      * apply wp_ret. apply wp_ret. apply invU_refl; [exact Hw | exact Hu | congruence].
    + intros w2 [].
  - intros w1 Hs1. apply invU_refl; auto.
Qed.

Lemma stays_op_index sc q :
  stays (i <- index (env_map sc) q ;; p <- p_ref i ;; ret (nn i :: r_val (snd p))).
Proof.
  intros w Hw. apply wp_bind. eapply wp_mono; [apply index_spec; exact Hw | |]; cbn beta.
  - intros i w1 [Hs1 Hl]. apply wp_bind. apply wp_p_ref_live; [rewrite Hs1; exact Hl|].
    intros p. apply wp_ret. exact Hs1.
  - intros w1 Hs1. exact Hs1.
Qed.

Lemma keepsU_op_index_mut sc q d :
  keepsU (i <- index_mut (env_map sc) q ;; p <- p_ref i ;; set_dat i d ;; ret (nn i :: r_val (snd p))).
Proof.
  intros w Hw Hu. apply wp_bind. eapply wp_mono; [apply (index_spec (env_map sc) q); exact Hw | |]; cbn beta.
  - intros i w1 [Hs1 Hl]. apply wp_bind. apply wp_p_ref_live; [rewrite Hs1; exact Hl|].
    intros p. apply wp_bind.
    eapply wp_mono; [apply set_dat_K; rewrite Hs1; assumption | |]; cbn beta.
    + intros _ w2 H2. apply wp_ret. apply keepk_invU; [exact Hu|]. eapply keepk_base; eauto.
    + intros w2 [].
  - intros w1 Hs1. apply invU_refl; auto.
Qed.

(* ---- borrowing iterator sessions ---- *)
Lemma iter_steps_K kind wd : forall n j c acc (w : mworld),
  WF (self w) -> snd c <= len (self w) ->
  wp (iter_steps kind wd n j c acc)
     (fun r w' => keepk w w' /\ snd (snd r) <= len (self w))
     (fun _ => False) w.
Proof.
  induction n as [|n IH]; intros j c acc w Hw Hc; cbn [iter_steps].
  - apply wp_ret. cbn [snd]. split; [apply keepk_refl; auto | exact Hc].
  - cbv zeta. apply wp_bind.
    eapply wp_mono; [apply iter_next_spec; [exact Hw | exact Hc] | |]; cbn beta; [|tauto].
    intros [o c'] w1 [Hs1 Ho]. cbn [fst snd] in Ho.
    assert (Hw1 : WF (self w1)) by (rewrite Hs1; exact Hw).
    destruct o as [i|].
    + destruct Ho as (Hi & Hlt & Hc'). subst i c'.
      assert (Hl : live (self w1) (fst c)) by (apply WF_live; [exact Hw1 | rewrite Hs1; lia]).
      apply wp_bind. apply wp_p_ref_live; [exact Hl|]. intros p. apply wp_bind.
      assert (Hk : forall w2 : mworld, keepk w1 w2 ->
                wp (iter_steps kind wd n (S j) (S (fst c), snd c)
                      (acc ++ [nn (cursor_len c); nn (cursor_len c); nn (cursor_len c); 1%N; nn (fst c)] ++
                       r_item kind p))
                   (fun r w' => keepk w w' /\ snd (snd r) <= len (self w)) (fun _ => False) w2).
      { intros w2 H2. pose proof (keepk_WF _ _ H2) as Hw2. pose proof (keepk_len _ _ H2) as Hl2.
        eapply wp_mono; [apply IH; [exact Hw2 | cbn [snd]; rewrite Hl2, Hs1; exact Hc] | |]; cbn beta; [|tauto].
        intros r w3 [H3 Hr]. split.
        - eapply keepk_base; [exact Hs1|]. eapply keepk_trans; [exact H2 | exact H3].
        - rewrite Hl2, Hs1 in Hr. exact Hr. }
      destruct (is_mut_kind kind).
      * eapply wp_mono; [apply set_dat_K; assumption | |]; cbn beta; [|tauto].
        intros _ w2 H2. apply Hk. exact H2.
      * apply wp_ret. apply Hk. apply keepk_refl; auto.
    + destruct Ho as [_ ->].
      eapply wp_mono; [apply IH; [exact Hw1 | rewrite Hs1; exact Hc] | |]; cbn beta; [|tauto].
      intros r w3 [H3 Hr]. split; [eapply keepk_base; eauto | rewrite Hs1 in Hr; exact Hr].
Qed.

Lemma keepsU_iter_session kind steps wd : keepsU (iter_session kind steps wd).
Proof.
  intros w Hw Hu. unfold iter_session. apply wp_bind.
  eapply wp_mono; [apply iter_spec; exact Hw | |]; cbn beta.
  - intros c w1 [Hs1 ->]. apply wp_bind.
    eapply wp_mono; [apply iter_steps_K; [rewrite Hs1; exact Hw | cbn [snd]; rewrite Hs1; lia] | |];
      cbn beta; [|tauto].
    intros [acc c'] w2 [H2 Hc']. cbn [snd] in Hc'.
    assert (H2' : keepk w w2) by (eapply keepk_base; eauto).
    assert (Hw2 : WF (self w2)) by (eapply keepk_WF; eauto).
    assert (Hl2 : len (self w2) = len (self w)) by (eapply keepk_len; eauto).
    assert (HU2 : invU w w2) by (apply keepk_invU; assumption).
    rewrite Hs1 in Hc'.
    apply wp_frame_bind; [apply frame_dbg_iter | |].
    2:{ intros w3 Hs3. eapply invU_frame; [exact Hs3 | exact HU2]. }
    intros d0 w3 Hs3. apply wp_frame_bind; [apply frame_dbg_iter | |].
    2:{ intros w4 Hs4. apply invU_frame with (w' := w2); [congruence | exact HU2]. }
    intros d1 w4 Hs4. apply wp_bind.
    assert (Hs42 : self w4 = self w2) by congruence.
    destruct (is_mut_kind kind).
    + apply wp_ret. apply wp_ret. eapply invU_frame; [exact Hs42 | exact HU2].
    + eapply wp_mono; [apply rest_slots_spec | |]; cbn beta; [| |tauto].
      * rewrite Hs42. apply cursor_live; [exact Hw2 | lia].
      * intros r w5 Hs5. apply wp_ret. apply invU_frame with (w' := w2); [congruence | exact HU2].
  - intros w1 Hs1. apply invU_refl; auto.
Qed.

Lemma stays_format_m style : stays (format_m style).
Proof.
  intros w Hw. unfold format_m. apply wp_bind.
  eapply wp_mono; [apply iter_spec; exact Hw | |]; cbn beta.
  - intros c w1 [Hs1 _]. unfold wp. exact Hs1.
  - intros w1 Hs1. exact Hs1.
Qed.
Lemma stays_format_s style : stays (format_s style).
Proof.
  intros w Hw. unfold format_s. apply wp_bind.
  eapply wp_mono; [apply iter_spec; exact Hw | |]; cbn beta.
  - intros c w1 [Hs1 _]. unfold wp. exact Hs1.
  - intros w1 Hs1. exact Hs1.
Qed.

(* ---- consuming iterator sessions: the register holds a fresh container ---- *)
Lemma keepsU_op_into_iter sc kind take fate :
  keepsU (c <- get_cap ;; old <- get_self ;; put_self (new_map c) ;;
          '(body, _) <- swap_self old (into_session sc kind take fate) ;; ret body).
Proof.
  intros w Hw Hu. apply wp_bind. apply wp_get_cap. apply wp_bind. apply wp_get_self.
  apply wp_bind. apply wp_put_self. apply wp_bind. apply wp_swap_self. simp_w.
  eapply wp_mono; [apply into_session_safe; simp_w; exact Hw | |]; cbn beta.
  - intros body w2 _. apply wp_ret. apply detach_U. exact Hw.
  - intros w2 _. apply detach_U. exact Hw.
Qed.

(* ---- the entry API ---- *)
Section UEntry.
Context {V : Type} (E : env key V query cstate) (debug : bool) (HL : Lawful E kcls qcls).
Notation world := (world key V cstate).

Lemma occ_insert_K i v (w : world) :
  WF (self w) -> i < len (self w) ->
  wp (occ_insert i v) (fun _ w' => keepk w w') (fun _ => False) w.
Proof.
  intros Hw Hi. unfold occ_insert. apply wp_bind.
  eapply wp_mono; [apply wp_p_replace_k; [exact Hw | apply WF_live; assumption | intros p; reflexivity] | |];
    cbn beta; [|tauto].
  intros p w' Hk. apply wp_ret. exact Hk.
Qed.

Lemma occ_remove_entry_U i (w : world) :
  WF (self w) -> Um (self w) -> i < len (self w) ->
  wp (occ_remove_entry debug i) (fun _ => invU w) (invU w) w.
Proof.
  intros Hw Hu Hi. unfold occ_remove_entry.
  eapply wp_mono; [apply remove_index_read_U; assumption | |]; cbn beta; tauto.
Qed.

Lemma occ_remove_U i (w : world) :
  WF (self w) -> Um (self w) -> i < len (self w) ->
  wp (occ_remove E debug i) (fun _ => invU w) (invU w) w.
Proof.
  intros Hw Hu Hi. unfold occ_remove. apply wp_bind.
  eapply wp_mono; [apply remove_index_read_U; assumption | |]; cbn beta; [|tauto].
  intros p w' [H _]. apply wp_bind. apply wp_frame; [apply frame_drop_key | |].
  - intros _ w'' Hs. apply wp_ret. eapply invU_frame; eauto.
  - intros w'' Hs. eapply invU_frame; eauto.
Qed.

Lemma vac_insert_U k v (w : world) :
  WF (self w) -> Um (self w) ->
  wp (vac_insert E debug k v) (fun i w' => invU w w' /\ i < len (self w')) (invU w) w.
Proof.
  intros Hw Hu. unfold vac_insert. apply wp_bind.
  eapply wp_mono; [apply (insert_ii_U E debug HL); assumption | |]; cbn beta.
  - intros [index e] w' [Hinv Hlt]. cbn [fst] in Hlt.
    apply wp_bind.
    assert (Hfr : frame (match e with Some p => drop_pair E p | None => ret tt end)).
    { destruct e; [apply frame_drop_pair | apply frame_ret]. }
    apply wp_frame; [exact Hfr | |].
    + intros _ w'' Hs.
      assert (Hinv' : invU w w'') by (eapply invU_frame; eauto).
      rewrite <- Hs in Hlt.
      destruct (WF_live _ _ (invU_WF _ _ Hinv') Hlt) as [p Hp].
      apply wp_bind. eapply wp_p_ref; [exact Hp|]. apply wp_ret.
      split; [exact Hinv' | exact Hlt].
    + intros w'' Hs. eapply invU_frame; eauto.
  - intros w' H. exact H.
Qed.

Lemma call_modf_K (f : modf_t) i (w : world) :
  WF (self w) -> i < len (self w) ->
  wp (call_modf f i) (fun _ w' => keepk w w') (fun w' => keepk w w') w.
Proof.
  intros Hw Hi. destruct (WF_live _ _ Hw Hi) as [p Hp].
  unfold call_modf. apply wp_bind. eapply wp_p_ref; [exact Hp|].
  unfold wp. destruct (f (cb w) (snd p)) as [[boom v'] s].
  assert (Hgoal : forall w' : world,
             self w' = set_slot_m (self w) i (Some (fst p, v')) -> keepk w w').
  { intros w' Hs.
    eapply keepk_frame; [|apply (keepk_set_slot w i p (fst p, v') Hw Hp eq_refl)].
    rewrite Hs. reflexivity. }
  destruct boom; apply Hgoal; reflexivity.
Qed.

Lemma and_modify_U (e : @entry key) (f : modf_t) (w : world) :
  WF (self w) -> Um (self w) -> entry_ok e (self w) ->
  wp (and_modify e f)
     (fun e' w' => invU w w' /\ e' = e /\ len (self w') = len (self w))
     (invU w) w.
Proof.
  intros Hw Hu He. destruct e as [i|k]; cbn [and_modify entry_ok] in *.
  - apply wp_bind. eapply wp_mono; [apply occ_get_mut_spec; assumption | |]; cbn beta; [|tauto].
    intros j w' [_ Hs]. apply wp_bind.
    eapply wp_mono; [apply call_modf_K; rewrite Hs; assumption | |]; cbn beta.
    + intros _ w'' Hk. apply wp_ret.
      assert (Hk' : keepk w w'') by (eapply keepk_base; eauto).
      split; [apply keepk_invU; assumption|]. split; [reflexivity | eapply keepk_len; eauto].
    + intros w'' Hk. apply keepk_invU; [exact Hu|]. eapply keepk_base; eauto.
  - apply wp_ret. split; [apply invU_refl; auto | auto].
Qed.

Lemma or_insert_U (e : @entry key) v (w : world) :
  WF (self w) -> Um (self w) -> entry_ok e (self w) ->
  wp (or_insert E debug e v) (fun i w' => invU w w' /\ i < len (self w')) (invU w) w.
Proof.
  intros Hw Hu He. destruct e as [i|k]; cbn [or_insert entry_ok] in *.
  - apply wp_bind. eapply wp_mono; [apply occ_into_mut_spec; assumption | |]; cbn beta; [|tauto].
    intros j w' [-> Hs]. apply wp_bind. apply wp_frame; [apply frame_drop_val | |].
    + intros _ w'' Hs'. apply wp_ret.
      split; [apply invU_refl; [auto | auto | congruence] | rewrite Hs', Hs; exact He].
    + intros w'' Hs'. apply invU_refl; [auto | auto | congruence].
  - apply vac_insert_U; assumption.
Qed.

Lemma or_insert_with_U (e : @entry key) f (w : world) :
  WF (self w) -> Um (self w) -> entry_ok e (self w) ->
  wp (or_insert_with E debug e f) (fun i w' => invU w w' /\ i < len (self w')) (invU w) w.
Proof.
  intros Hw Hu He. destruct e as [i|k]; cbn [or_insert_with entry_ok] in *.
  - eapply wp_mono; [apply occ_into_mut_spec; assumption | |]; cbn beta; [|tauto].
    intros j w' [-> Hs]. split; [apply invU_refl; auto | rewrite Hs; exact He].
  - apply wp_bind. apply wp_frame; [apply frame_on_unwind; [apply frame_unwind_key | apply frame_call_mk] | |].
    + intros v w' Hs.
      eapply wp_mono; [apply vac_insert_U; rewrite Hs; assumption | |]; cbn beta.
      * intros i w'' [Hinv Hlt]. split; [eapply invU_base; eauto | exact Hlt].
      * intros w'' Hinv. eapply invU_base; eauto.
    + intros w' Hs. apply invU_refl; auto.
Qed.

Lemma or_insert_with_key_U (e : @entry key) f (w : world) :
  WF (self w) -> Um (self w) -> entry_ok e (self w) ->
  wp (or_insert_with_key E debug e f) (fun i w' => invU w w' /\ i < len (self w')) (invU w) w.
Proof.
  intros Hw Hu He. destruct e as [i|k]; cbn [or_insert_with_key entry_ok] in *.
  - eapply wp_mono; [apply occ_into_mut_spec; assumption | |]; cbn beta; [|tauto].
    intros j w' [-> Hs]. split; [apply invU_refl; auto | rewrite Hs; exact He].
  - apply wp_bind. apply wp_frame; [apply frame_on_unwind; [apply frame_unwind_key | apply frame_call_mk] | |].
    + intros v w' Hs.
      eapply wp_mono; [apply vac_insert_U; rewrite Hs; assumption | |]; cbn beta.
      * intros i w'' [Hinv Hlt]. split; [eapply invU_base; eauto | exact Hlt].
      * intros w'' Hinv. eapply invU_base; eauto.
    + intros w' Hs. apply invU_refl; auto.
Qed.

End UEntry.

(* an index-producing computation followed by r_slotval *)
Lemma wp_then_slotval_U (c : Mm nat) tag (w : mworld) :
  wp c (fun i w' => invU w w' /\ i < len (self w')) (invU w) w ->
  wp (i <- c ;; r_slotval tag i) (fun _ => invU w) (invU w) w.
Proof.
  intros Hc. apply wp_bind. eapply wp_mono; [exact Hc | |]; cbn beta; [|auto].
  intros i w1 [H1 Hi]. eapply wp_mono; [apply r_slotval_spec | |]; cbn beta.
  - apply WF_live; [eapply invU_WF; eauto | exact Hi].
  - intros _ w2 Hs2. eapply invU_frame; eauto.
  - intros w2 [].
Qed.

(* get the slot, render it, overwrite its payload *)
Lemma wp_slot_set_U tag j d (w : mworld) :
  WF (self w) -> Um (self w) -> j < len (self w) ->
  wp (r <- r_slotval tag j ;; set_dat j d ;; ret r) (fun _ => invU w) (invU w) w.
Proof.
  intros Hw Hu Hj. assert (Hl : live (self w) j) by (apply WF_live; assumption).
  apply wp_bind. eapply wp_mono; [apply r_slotval_spec; exact Hl | |]; cbn beta; [|tauto].
  intros r w1 Hs1. apply wp_bind.
  eapply wp_mono; [apply set_dat_K; rewrite Hs1; assumption | |]; cbn beta; [|tauto].
  intros _ w2 H2. apply wp_ret. apply keepk_invU; [exact Hu|]. eapply keepk_base; eauto.
Qed.

Section UEntryChain.
Context (debug : bool) (sc : script) (Hh : honest sc).
Notation Em := (env_map sc).
Let HLm : Lawful Em kcls qcls := env_map_lawful sc Hh.

Definition chain_goal_U (c : Mm (list N)) (w : mworld) : Prop :=
  wp c (fun _ => invU w) (invU w) w.

Lemma chU_or_insert e v (w : mworld) : WF (self w) -> Um (self w) -> entry_ok e (self w) ->
  chain_goal_U (i <- or_insert Em debug e v ;; r_slotval 0 i) w.
Proof. intros Hw Hu He. apply wp_then_slotval_U. apply or_insert_U; assumption. Qed.

Lemma chU_or_insert_with e f (w : mworld) : WF (self w) -> Um (self w) -> entry_ok e (self w) ->
  chain_goal_U (i <- or_insert_with Em debug e f ;; r_slotval 0 i) w.
Proof. intros Hw Hu He. apply wp_then_slotval_U. apply or_insert_with_U; assumption. Qed.

Lemma chU_or_insert_with_key e f (w : mworld) : WF (self w) -> Um (self w) -> entry_ok e (self w) ->
  chain_goal_U (i <- or_insert_with_key Em debug e f ;; r_slotval 0 i) w.
Proof. intros Hw Hu He. apply wp_then_slotval_U. apply or_insert_with_key_U; assumption. Qed.

Lemma chU_and_modify e v (w : mworld) : WF (self w) -> Um (self w) -> entry_ok e (self w) ->
  chain_goal_U (e' <- and_modify e (modf_add sc) ;; i <- or_insert Em debug e' v ;; r_slotval 0 i) w.
Proof.
  intros Hw Hu He. apply wp_bind.
  eapply wp_mono; [apply and_modify_U; assumption | |]; cbn beta; [|auto].
  intros e' w1 (H1 & -> & Hl1).
  eapply wp_mono; [apply chU_or_insert with (e := e); [eapply invU_WF; eauto | eapply invU_U; eauto | ] | |];
    cbn beta.
  - destruct e; cbn [entry_ok] in *; [lia | exact I].
  - intros _ w2 H2. eapply invU_trans; eauto.
  - intros w2 H2. eapply invU_trans; eauto.
Qed.

Lemma chU_key e (w : mworld) : WF (self w) -> Um (self w) -> entry_ok e (self w) ->
  chain_goal_U (x <- entry_key e ;;
              match x with
              | inl j => p <- p_ref j ;; ret ([0%N; nn j] ++ r_key (fst p))
              | inr k' => drop_key Em k' ;; ret (1%N :: r_key k')
              end) w.
Proof.
  intros Hw Hu He. apply wp_bind.
  eapply wp_mono; [apply entry_key_spec; assumption | |]; cbn beta; [|tauto].
  intros [j|k'] w1 [Hs1 Hj].
  - apply wp_bind. apply wp_p_ref_live; [rewrite Hs1; apply WF_live; assumption|].
    intros p. apply wp_ret. apply invU_refl; auto.
  - apply wp_frame_bind; [apply frame_drop_key | |].
    + intros _ w2 Hs2. apply wp_ret. apply invU_refl; [exact Hw | exact Hu | congruence].
    + intros w2 Hs2. apply invU_refl; [exact Hw | exact Hu | congruence].
Qed.

Lemma chU_get e (w : mworld) : WF (self w) -> Um (self w) -> entry_ok e (self w) ->
  chain_goal_U (match e with
              | Occupied i => j <- occ_get i ;; r_slotval 0 j
              | Vacant k' => drop_key Em k' ;; ret (1%N :: r_key k')
              end) w.
Proof.
  intros Hw Hu He. destruct e as [i|k']; cbn [entry_ok] in He.
  - apply wp_then_slotval_U.
    eapply wp_mono; [apply occ_get_spec; assumption | |]; cbn beta; [|tauto].
    intros j w1 [-> Hs1]. split; [apply invU_refl; auto | rewrite Hs1; exact He].
  - apply wp_frame_bind; [apply frame_drop_key | |].
    + intros _ w2 Hs2. apply wp_ret. apply invU_refl; auto.
    + intros w2 Hs2. apply invU_refl; auto.
Qed.

Lemma chU_get_mut e v (w : mworld) : WF (self w) -> Um (self w) -> entry_ok e (self w) ->
  chain_goal_U (match e with
              | Occupied i => j <- occ_get_mut i ;; r <- r_slotval 0 j ;; set_dat j (vdat v) ;; ret r
              | Vacant k' => ret (1%N :: r_key k')
              end) w.
Proof.
  intros Hw Hu He. destruct e as [i|k']; cbn [entry_ok] in He.
  - apply wp_bind.
    eapply wp_mono; [apply occ_get_mut_spec; assumption | |]; cbn beta; [|tauto].
    intros j w1 [-> Hs1].
    eapply wp_mono; [apply wp_slot_set_U with (j := i); rewrite Hs1; assumption | |]; cbn beta.
    + intros _ w2 H2. eapply invU_base; eauto.
    + intros w2 H2. eapply invU_base; eauto.
  - apply wp_ret. apply invU_refl; auto.
Qed.

Lemma chU_insert e v (w : mworld) : WF (self w) -> Um (self w) -> entry_ok e (self w) ->
  chain_goal_U (match e with
              | Occupied i => old <- occ_insert i v ;; ret (0%N :: r_val old)
              | Vacant k' => j <- vac_insert Em debug k' v ;; r_slotval 1 j
              end) w.
Proof.
  intros Hw Hu He. destruct e as [i|k']; cbn [entry_ok] in He.
  - apply wp_bind.
    eapply wp_mono; [apply occ_insert_K; assumption | |]; cbn beta; [|tauto].
    intros old w1 H1. apply wp_ret. apply keepk_invU; assumption.
  - apply wp_then_slotval_U. apply vac_insert_U; assumption.
Qed.

Lemma chU_remove e (w : mworld) : WF (self w) -> Um (self w) -> entry_ok e (self w) ->
  chain_goal_U (match e with
              | Occupied i => old <- occ_remove Em debug i ;; ret (0%N :: r_val old)
              | Vacant k' => drop_key Em k' ;; ret [1%N]
              end) w.
Proof.
  intros Hw Hu He. destruct e as [i|k']; cbn [entry_ok] in He.
  - apply wp_bind.
    eapply wp_mono; [apply occ_remove_U; assumption | |]; cbn beta; [|auto].
    intros old w1 H1. apply wp_ret. exact H1.
  - apply wp_frame_bind; [apply frame_drop_key | |].
    + intros _ w2 Hs2. apply wp_ret. apply invU_refl; auto.
    + intros w2 Hs2. apply invU_refl; auto.
Qed.

Lemma chU_remove_entry e (w : mworld) : WF (self w) -> Um (self w) -> entry_ok e (self w) ->
  chain_goal_U (match e with
              | Occupied i => p <- occ_remove_entry debug i ;; ret (0%N :: r_pair p)
              | Vacant k' => ret (1%N :: r_key k')
              end) w.
Proof.
  intros Hw Hu He. destruct e as [i|k']; cbn [entry_ok] in He.
  - apply wp_bind.
    eapply wp_mono; [apply occ_remove_entry_U; assumption | |]; cbn beta; [|auto].
    intros old w1 H1. apply wp_ret. exact H1.
  - apply wp_ret. apply invU_refl; auto.
Qed.

Lemma chU_into_mut e v (w : mworld) : WF (self w) -> Um (self w) -> entry_ok e (self w) ->
  chain_goal_U (match e with
              | Occupied i => j <- occ_into_mut i ;; r <- r_slotval 0 j ;; set_dat j (vdat v) ;; ret r
              | Vacant k' => j <- vac_insert Em debug k' v ;; r_slotval 1 j
              end) w.
Proof.
  intros Hw Hu He. destruct e as [i|k']; cbn [entry_ok] in He.
  - apply wp_bind.
    eapply wp_mono; [apply occ_into_mut_spec; assumption | |]; cbn beta; [|tauto].
    intros j w1 [-> Hs1].
    eapply wp_mono; [apply wp_slot_set_U with (j := i); rewrite Hs1; assumption | |]; cbn beta.
    + intros _ w2 H2. eapply invU_base; eauto.
    + intros w2 H2. eapply invU_base; eauto.
  - apply wp_then_slotval_U. apply vac_insert_U; assumption.
Qed.

Lemma keepsU_entry_chain k chain v : keepsU (entry_chain debug sc k chain v).
Proof.
  intros w Hw Hu. unfold entry_chain. apply wp_bind.
  eapply wp_mono; [apply entry_of_spec; exact Hw | |]; cbn beta.
  - intros e w1 [Hs1 He].
    assert (Hw1 : WF (self w1)) by (rewrite Hs1; exact Hw).
    assert (Hu1 : Um (self w1)) by (rewrite Hs1; exact Hu).
    assert (He1 : entry_ok e (self w1)) by (rewrite Hs1; exact He).
    assert (Hb : chain_goal_U
      (match chain with
       | 0%N => i <- or_insert Em debug e v ;; r_slotval 0 i
       | 1%N => i <- or_insert_with Em debug e (mk_val sc v) ;; r_slotval 0 i
       | 2%N => i <- or_insert_with_key Em debug e (fun _ => mk_val sc v) ;; r_slotval 0 i
       | 3%N => i <- or_insert_with Em debug e (mk_default sc) ;; r_slotval 0 i
       | 4%N => e' <- and_modify e (modf_add sc) ;; i <- or_insert Em debug e' v ;; r_slotval 0 i
       | 5%N =>
           x <- entry_key e ;;
           match x with
           | inl j => p <- p_ref j ;; ret ([0%N; nn j] ++ r_key (fst p))
           | inr k' => drop_key Em k' ;; ret (1%N :: r_key k')
           end
       | 6%N =>
           match e with
           | Occupied i => j <- occ_get i ;; r_slotval 0 j
           | Vacant k' => drop_key Em k' ;; ret (1%N :: r_key k')
           end
       | 7%N =>
           match e with
           | Occupied i => j <- occ_get_mut i ;; r <- r_slotval 0 j ;; set_dat j (vdat v) ;; ret r
           | Vacant k' => ret (1%N :: r_key k')
           end
       | 8%N =>
           match e with
           | Occupied i => old <- occ_insert i v ;; ret (0%N :: r_val old)
           | Vacant k' => j <- vac_insert Em debug k' v ;; r_slotval 1 j
           end
       | 9%N =>
           match e with
           | Occupied i => old <- occ_remove Em debug i ;; ret (0%N :: r_val old)
           | Vacant k' => drop_key Em k' ;; ret [1%N]
           end
       | 10%N =>
           match e with
           | Occupied i => p <- occ_remove_entry debug i ;; ret (0%N :: r_pair p)
           | Vacant k' => ret (1%N :: r_key k')
           end
       | _ =>
           match e with
           | Occupied i => j <- occ_into_mut i ;; r <- r_slotval 0 j ;; set_dat j (vdat v) ;; ret r
           | Vacant k' => j <- vac_insert Em debug k' v ;; r_slotval 1 j
           end
       end) w1).
    { destruct chain as [|p]; [apply chU_or_insert; assumption|].
      repeat (match goal with
              | |- context [match ?q with xI _ => _ | xO _ => _ | xH => _ end] => is_var q; destruct q
              end);
      first [ apply chU_or_insert; assumption
            | apply chU_or_insert_with; assumption
            | apply chU_or_insert_with_key; assumption
            | apply chU_and_modify; assumption
            | apply chU_key; assumption
            | apply chU_get; assumption
            | apply chU_get_mut; assumption
            | apply chU_insert; assumption
            | apply chU_remove; assumption
            | apply chU_remove_entry; assumption
            | apply chU_into_mut; assumption ]. }
    unfold chain_goal_U in Hb.
    eapply wp_mono; [exact Hb | |]; cbn beta.
    + intros _ w2 H2. eapply invU_base; eauto.
    + intros w2 H2. eapply invU_base; eauto.
  - intros w1 Hs1. apply invU_refl; auto.
Qed.

End UEntryChain.

(* ---- get_disjoint_mut ---- *)
Lemma disjoint_render_K : forall l wd j (w : mworld),
  WF (self w) -> (forall i, In (Some i) l -> i < len (self w)) ->
  wp (disjoint_render l wd j) (fun _ w' => keepk w w') (fun _ => False) w.
Proof.
  induction l as [|[i|] l IH]; intros wd j w Hw Hl; cbn [disjoint_render].
  - apply wp_ret. apply keepk_refl; auto.
  - assert (Hi : i < len (self w)) by (apply Hl; left; reflexivity).
    apply wp_bind. apply wp_p_ref_live; [apply WF_live; assumption|]. intros p.
    apply wp_bind.
    eapply wp_mono; [apply set_dat_K; [exact Hw | apply WF_live; assumption] | |]; cbn beta; [|tauto].
    intros _ w1 H1. apply wp_bind.
    eapply wp_mono; [apply IH; [eapply keepk_WF; eauto|] | |]; cbn beta; [| |tauto].
    + intros i' Hi'. rewrite (keepk_len _ _ H1). apply Hl. right. exact Hi'.
    + intros r w2 H2. apply wp_ret. eapply keepk_trans; eauto.
  - apply wp_bind.
    eapply wp_mono; [apply IH; [exact Hw|] | |]; cbn beta; [| |tauto].
    + intros i' Hi'. apply Hl. right. exact Hi'.
    + intros r w2 H2. apply wp_ret. exact H2.
Qed.

Lemma keepsU_disjoint_session sc unchecked qs wd : keepsU (disjoint_session sc unchecked qs wd).
Proof.
  intros w Hw Hu. unfold disjoint_session. apply wp_bind.
  assert (Hd : wp (if unchecked then get_disjoint_unchecked_mut (env_map sc) (List.map QCls qs)
                   else get_disjoint_mut (env_map sc) (List.map QCls qs))
                  (fun r w' => self w' = self w /\
                               (forall j i, nth_error r j = Some (Some i) -> i < len (self w)))
                  (fun w' => self w' = self w) w).
  { destruct unchecked.
    - eapply wp_mono; [apply disjoint_unchecked_safe; exact Hw | |]; cbn beta; [|auto].
      intros r w' (H1 & _ & H3 & _). auto.
    - eapply wp_mono; [apply disjoint_safe; exact Hw | |]; cbn beta; [|auto].
      intros r w' (H1 & _ & H3 & _). auto. }
  eapply wp_mono; [exact Hd | |]; cbn beta.
  - intros l w1 [Hs1 Hl].
    eapply wp_mono; [apply disjoint_render_K | |]; cbn beta.
    + rewrite Hs1. exact Hw.
    + intros i Hi. apply In_nth_error in Hi. destruct Hi as [j Hj]. rewrite Hs1. eapply Hl; eauto.
    + intros _ w2 H2. apply keepk_invU; [exact Hu|]. eapply keepk_base; eauto.
    + intros w2 [].
  - intros w1 Hs1. apply invU_refl; auto.
Qed.

(* ---- bulk construction: extend / from_iter / serde visitors ---- *)
Section UBulk.
Context {V : Type} (E : env key V query cstate) (debug : bool) (HL : Lawful E kcls qcls).

Lemma keepsU_extend_loop nx items : keepsU (extend_loop E debug nx items).
Proof.
  induction items as [|[k v] rest IH]; cbn [extend_loop].
  - apply frame_keepsU. apply Safety3.frame_call_next.
  - apply keepsU_bind.
    { apply keepsU_on_unwind; [apply frame_unwind_pairs|]. apply frame_keepsU; apply Safety3.frame_call_next. }
    intros _. apply keepsU_bind; [|intros _; exact IH].
    apply keepsU_on_unwind; [apply frame_unwind_pairs|].
    apply keepsU_bind; [apply (keepsU_insert E debug HL)|]. intros old.
    apply frame_keepsU; apply frame_drop_opt_val.
Qed.

Lemma keepsU_op_from_iter nx items : keepsU (replace_with E (from_iter E debug nx items) []).
Proof. unfold from_iter. apply keepsU_op_finally. apply keepsU_extend_loop. Qed.

End UBulk.

Section USetBulk.
Context (E : env key unit query cstate) (debug : bool) (HL : Lawful E kcls qcls).

Lemma keepsU_s_insert k : keepsU (s_insert E debug k).
Proof. unfold s_insert. apply keepsU_then_ret. apply (keepsU_insert E debug HL). Qed.
Lemma keepsU_s_replace k : keepsU (s_replace E debug k).
Proof.
  unfold s_replace. apply keepsU_bind; [apply (keepsU_insert_ii E debug HL)|].
  intros [i e]. apply keepsU_ret.
Qed.
Lemma keepsU_s_remove q : keepsU (s_remove E debug q).
Proof. unfold s_remove. apply keepsU_then_ret. apply (keepsU_remove E debug HL). Qed.
Lemma keepsU_s_take q : keepsU (s_take E debug q).
Proof. unfold s_take. apply keepsU_then_ret. apply (keepsU_remove_entry E debug HL). Qed.
Lemma keepsU_s_retain f : keepsU (s_retain E debug f).
Proof. unfold s_retain. apply keepsU_retain. Qed.
Lemma keepsU_s_clear : keepsU (s_clear E).
Proof. unfold s_clear. apply keepsU_clear. Qed.

Lemma keepsU_s_extend_loop nx items : keepsU (s_extend_loop E debug nx items).
Proof.
  induction items as [|k rest IH]; cbn [s_extend_loop].
  - apply frame_keepsU. apply Safety3.frame_call_next.
  - apply keepsU_bind.
    { apply keepsU_on_unwind; [apply frame_unwind_pairs|]. apply frame_keepsU; apply Safety3.frame_call_next. }
    intros _. apply keepsU_bind; [|intros _; exact IH].
    apply keepsU_on_unwind; [apply frame_unwind_pairs|].
    apply keepsU_bind; [apply keepsU_s_insert|]. intros _. apply keepsU_ret.
Qed.

Lemma keepsU_op_s_from_iter nx items : keepsU (replace_with E (s_from_iter E debug nx items) []).
Proof. unfold s_from_iter. apply keepsU_op_finally. apply keepsU_s_extend_loop. Qed.

End USetBulk.

Lemma keepsU_visit_map debug sc items : honest sc -> keepsU (visit_map debug sc items).
Proof.
  intros Hh. induction items as [|[k v] rest IH]; cbn [visit_map].
  - apply keepsU_ret.
  - apply keepsU_bind; [apply frame_keepsU; apply frame_get_next_id|]. intros id.
    apply keepsU_bind; [apply frame_keepsU; apply frame_bump_id|]. intros _.
    apply keepsU_bind; [apply (keepsU_insert _ debug (env_map_lawful sc Hh))|]. intros old.
    apply keepsU_bind; [apply frame_keepsU; apply frame_drop_opt_val|]. intros _. exact IH.
Qed.
Lemma keepsU_visit_seq debug sc items : honest sc -> keepsU (visit_seq debug sc items).
Proof.
  intros Hh. induction items as [|k rest IH]; cbn [visit_seq].
  - apply keepsU_ret.
  - apply keepsU_bind; [apply frame_keepsU; apply frame_get_next_id|]. intros id.
    apply keepsU_bind; [apply frame_keepsU; apply frame_bump_id|]. intros _.
    apply keepsU_bind; [apply (keepsU_s_insert _ debug (env_set_lawful sc Hh))|]. intros _. exact IH.
Qed.

(* ---- clone: the copy has the classes of the source ---- *)
Lemma op_clone_m_U sc (src : map key vobj) (w : mworld) :
  honest sc -> WF src -> Um src -> WF (self w) -> Um (self w) -> cap src = cap (self w) ->
  wp (replace_with (env_map sc) (clone_from_src (env_map sc) src) []) (fun _ => invU w) (invU w) w.
Proof.
  intros Hh Hsrc Husrc Hw Hu Hc. apply replace_with_U; [exact Hw | exact Hu|]. intros w0 Hs0.
  eapply wp_mono; [apply (clone_honest_map sc src w0 Hh Hsrc) | |]; cbn beta.
  - rewrite Hs0. apply WF_new.
  - rewrite Hs0. reflexivity.
  - rewrite Hs0, cap_new. congruence.
  - intros _ w' (H1 & H2 & _ & H4). split; [exact H1|]. split; [congruence|].
    pose proof (EqClone.clone_classes kcls (fun a b => N.eqb (vdat a) (vdat b)) _ _ H4) as Hcl.
    unfold EqClone.classes in Hcl. unfold Um, Uniq. rewrite Hcl. exact Husrc.
  - auto.
Qed.

Lemma op_clone_s_U sc (src : map key unit) (w : sworld) :
  honest sc -> WF src -> Um src -> WF (self w) -> Um (self w) -> cap src = cap (self w) ->
  wp (replace_with (env_set sc) (clone_from_src (env_set sc) src) []) (fun _ => invU w) (invU w) w.
Proof.
  intros Hh Hsrc Husrc Hw Hu Hc. apply replace_with_U; [exact Hw | exact Hu|]. intros w0 Hs0.
  eapply wp_mono;
    [apply (EqClone.clone_lawful (env_set sc) kcls (fun _ _ : unit => true)
              (env_set_cloneK sc Hh) (env_set_cloneV sc) src w0 Hsrc) | |]; cbn beta.
  - rewrite Hs0. apply WF_new.
  - rewrite Hs0. reflexivity.
  - rewrite Hs0, cap_new. congruence.
  - intros _ w' (H1 & H2 & _ & H4 & _). split; [exact H1|]. split; [congruence|].
    pose proof (EqClone.clone_classes kcls (fun _ _ : unit => true) _ _ H4) as Hcl.
    unfold EqClone.classes in Hcl. unfold Um, Uniq. rewrite Hcl. exact Husrc.
  - auto.
Qed.

(* ------------------------------------------------------------------ *)
(* 6. Set sessions                                                     *)
(* ------------------------------------------------------------------ *)
Lemma stays_set_iter_session steps : stays (set_iter_session steps).
Proof.
  intros w Hw. unfold set_iter_session. apply wp_bind.
  eapply wp_mono; [apply iter_spec; exact Hw | |]; cbn beta.
  - intros c w1 [Hs1 ->]. apply wp_bind.
    eapply wp_mono; [apply set_iter_steps_spec; [rewrite Hs1; exact Hw | cbn [snd]; rewrite Hs1; lia] | |];
      cbn beta; [|tauto].
    intros [acc c'] w2 [Hs2 Hc']. cbn [snd] in Hc'. rewrite Hs1 in Hc'.
    assert (Hs2' : self w2 = self w) by congruence.
    apply wp_bind.
    eapply wp_mono; [apply rest_slots_s_spec | |]; cbn beta; [| |tauto].
    + rewrite Hs2'. apply cursor_live; [exact Hw | exact Hc'].
    + intros r w3 Hs3. apply wp_ret. congruence.
  - intros w1 Hs1. exact Hs1.
Qed.

Lemma keepsU_op_s_into_iter sc take fate :
  keepsU (c <- get_cap ;; old <- get_self ;; put_self (new_map c) ;;
          '(body, _) <- swap_self old
             (acc <- set_into_steps take [] ;; l <- get_len ;;
              tail <- (if N.eqb fate 0 then (drop_map (env_set sc) ;; ret [])
                       else if N.eqb fate 2
                            then (n <- finally_drop (env_set sc) (set_into_for_each sc (S l) 0) ;; ret [nn n])
                       else if N.eqb fate 3
                            then (n <- finally_drop (env_set sc) (set_into_count sc (S l) 0) ;; ret [nn n])
                            else ret []) ;;
              ret (acc ++ [nn l] ++ tail)) ;;
          ret body).
Proof.
  intros w Hw Hu. apply wp_bind. apply wp_get_cap. apply wp_bind. apply wp_get_self.
  apply wp_bind. apply wp_put_self. apply wp_bind. apply wp_swap_self. simp_w.
  assert (Hfin : forall w2 : sworld, invU w (with_self w2 (new_map (cap (self w))))).
  { intros w2. apply detach_U. exact Hw. }
  apply wp_bind.
  eapply wp_mono; [apply keeps_set_into_steps; simp_w; exact Hw | |]; cbn beta.
  - intros acc w1 [Hw1 _]. apply wp_bind. apply wp_get_len. apply wp_bind.
    destruct (N.eqb fate 0).
    + apply wp_bind.
      eapply wp_mono; [apply drop_map_safe; exact Hw1 | |]; cbn beta.
      * intros _ w2 _. apply wp_ret. apply wp_ret. apply wp_ret. apply Hfin.
      * intros w2 _. apply Hfin.
    + destruct (N.eqb fate 2).
      * apply wp_bind.
        eapply wp_mono; [apply wp_finally_keeps; [apply keeps_set_into_for_each | exact Hw1] | |];
          cbn beta.
        -- intros n w2 _. apply wp_ret. apply wp_ret. apply wp_ret. apply Hfin.
        -- intros w2 _. apply Hfin.
      * destruct (N.eqb fate 3).
        -- apply wp_bind.
           eapply wp_mono; [apply wp_finally_keeps; [apply keeps_set_into_count | exact Hw1] | |];
             cbn beta.
           ++ intros n w2 _. apply wp_ret. apply wp_ret. apply wp_ret. apply Hfin.
           ++ intros w2 _. apply Hfin.
        -- apply wp_ret. apply wp_ret. apply wp_ret. apply Hfin.
  - intros w1 _. apply Hfin.
Qed.

(* ---- operations that only read their operands ---- *)
Lemma op_eq_stays {V} (E : env key V query cstate) (a b : map key V) (w : world key V cstate) :
  WF a -> WF b ->
  wp (b' <- map_eq E a b ;; ret (r_bool b')) (fun _ w' => self w' = self w) (fun w' => self w' = self w) w.
Proof.
  intros Ha Hb. apply wp_bind.
  eapply wp_mono; [apply map_eq_frame; assumption | |]; cbn beta; [|auto].
  intros r w' Hs. apply wp_ret. exact Hs.
Qed.

Lemma op_pred_stays sc kind (a b : map key unit) (w : sworld) :
  WF a -> WF b ->
  wp (b' <- (if N.eqb kind 0 then is_disjoint (env_set sc) a b
             else if N.eqb kind 1 then is_subset (env_set sc) a b
             else is_superset (env_set sc) a b) ;; ret (r_bool b'))
     (fun _ w' => self w' = self w) (fun w' => self w' = self w) w.
Proof.
  intros Ha Hb. apply wp_bind.
  assert (H : wp (if N.eqb kind 0 then is_disjoint (env_set sc) a b
                  else if N.eqb kind 1 then is_subset (env_set sc) a b
                  else is_superset (env_set sc) a b)
                 (fun _ w' => self w' = self w) (fun w' => self w' = self w) w).
  { destruct (N.eqb kind 0); [apply is_disjoint_frame; assumption|].
    destruct (N.eqb kind 1); [apply is_subset_frame | apply is_superset_frame]; assumption. }
  eapply wp_mono; [exact H | |]; cbn beta; [|auto].
  intros r w' Hs. apply wp_ret. exact Hs.
Qed.

Lemma op_sub_stays sc debug (a b : map key unit) (w : sworld) :
  WF a -> WF b ->
  wp ('(_, res) <- swap_self (new_map (cap a)) (set_sub (env_set sc) debug a b) ;;
      let body := nn (len res) :: flat_map r_spair (Exec.elems res) in
      '(_, _) <- swap_self res (drop_map (env_set sc)) ;;
      ret body)
     (fun _ w' => self w' = self w) (fun w' => self w' = self w) w.
Proof.
  intros Ha Hb. apply wp_bind. apply wp_swap_self.
  eapply wp_mono; [apply set_sub_safe; [exact Ha | exact Hb | simp_w; apply WF_new] | |]; cbn beta.
  - intros [] w1 [Hw1 _]. cbv zeta. apply wp_bind. apply wp_swap_self. simp_w.
    eapply wp_mono; [apply drop_map_safe; simp_w; exact Hw1 | |]; cbn beta.
    + intros [] w2 _. apply wp_ret. simp_w. reflexivity.
    + intros w2 _. simp_w. reflexivity.
  - intros w1 _. simp_w. reflexivity.
Qed.

(* from "unchanged at w" to the invariant at w *)
Lemma stays_at_U {V A} (c : M key V cstate A) (w : world key V cstate) :
  WF (self w) -> Um (self w) ->
  wp c (fun _ w' => self w' = self w) (fun w' => self w' = self w) w ->
  wp c (fun _ => invU w) (invU w) w.
Proof.
  intros Hw Hu Hc. eapply wp_mono; [exact Hc | |]; cbn beta.
  - intros _ w' Hs. apply invU_refl; auto.
  - intros w' Hs. apply invU_refl; auto.
Qed.

(* ---- nth sessions ---- *)
Section UNth.
Context {V : Type}.
Notation world := (world key V cstate).

(* borrowing iterators: self is untouched *)
Lemma stays_iter_nth_session (proj : key * V -> list N) pre nk :
  stays (iter_nth_session proj pre nk).
Proof.
  intros w Hw. unfold iter_nth_session. apply wp_bind.
  eapply wp_mono; [apply iter_spec; exact Hw | |]; cbn beta; [|intros w' Hs; exact Hs].
  intros c w1 [Hs1 Hc]. subst c. apply wp_bind.
  eapply wp_mono; [apply b_skip_spec; [rewrite Hs1; exact Hw | cbn [snd]; rewrite Hs1; lia] | |];
    cbn beta; [|tauto].
  intros c1 w2 [Hs2 Hc1]. assert (Hs2' : self w2 = self w) by congruence. rewrite Hs1 in Hc1.
  apply wp_bind.
  eapply wp_mono; [apply b_nth_spec; [rewrite Hs2'; exact Hw | rewrite Hs2'; exact Hc1] | |];
    cbn beta; [|tauto].
  intros [o c2] w3 (Hs3 & Hc2 & Ho). cbn [fst snd] in Hc2, Ho.
  assert (Hs3' : self w3 = self w) by congruence. rewrite Hs2' in Hc2, Ho.
  apply wp_bind.
  eapply wp_mono; [apply r_slot_item_spec; [rewrite Hs3'; exact Hw | rewrite Hs3'; exact Ho] | |];
    cbn beta; [|tauto].
  intros r w4 Hs4. assert (Hs4' : self w4 = self w) by congruence.
  apply wp_bind.
  eapply wp_mono; [apply iter_next_bound; [rewrite Hs4'; exact Hw | rewrite Hs4'; exact Hc2] | |];
    cbn beta; [|tauto].
  intros [o2 c3] w5 (Hs5 & _ & Ho2). cbn [fst snd] in Ho2.
  assert (Hs5' : self w5 = self w) by congruence. rewrite Hs4' in Ho2.
  apply wp_bind.
  eapply wp_mono; [apply r_slot_item_spec; [rewrite Hs5'; exact Hw | rewrite Hs5'; exact Ho2] | |];
    cbn beta; [|tauto].
  intros r2 w6 Hs6. apply wp_ret. congruence.
Qed.

(* drains: the register is left empty *)
Lemma d_nth_Z (E : env key V query cstate) : forall n c (w : world),
  DrainInv c (self w) ->
  wp (d_nth E n c)
     (fun r w' => DrainInv (snd r) (self w') /\ cap (self w') = cap (self w))
     (zpost w) w.
Proof.
  induction n as [|n IH]; intros c w HD; cbn [d_nth].
  - eapply wp_mono; [apply drain_next_spec; exact HD | |]; cbn beta; [|tauto].
    intros r w1 (H1 & H2 & _). auto.
  - apply wp_bind. eapply wp_mono; [apply drain_next_spec; exact HD | |]; cbn beta; [|tauto].
    intros [o c'] w1 (HD1 & Hc1 & _). cbn [snd] in HD1. destruct o as [p|].
    + apply wp_bind. eapply wp_mono; [apply drop_or_drain_Z; exact HD1 | |]; cbn beta.
      * intros _ w2 Hs2.
        eapply wp_mono; [apply IH; rewrite Hs2; exact HD1 | |]; cbn beta.
        -- intros r w3 [H3 Hc3]. split; [exact H3 | congruence].
        -- intros w3 [[H3 Hc3] Hl3]. split; [split; [exact H3 | congruence] | exact Hl3].
      * intros w2 H2. eapply zpost_base; [exact Hc1 | exact H2].
    + apply wp_ret. cbn [snd]. auto.
Qed.

Lemma keepsU_drain_nth_session (E : env key V query cstate) rp pre nk :
  keepsU (drain_nth_session E rp pre nk).
Proof.
  intros w Hw Hu. unfold drain_nth_session. apply wp_bind.
  eapply wp_mono; [apply drain_spec; exact Hw | |]; cbn beta;
    [|intros w' Hs; apply invU_refl; auto].
  intros c w1 (HD1 & Hc1 & _). apply wp_bind.
  eapply wp_mono; [apply d_skip_spec; exact HD1 | |]; cbn beta; [|tauto].
  intros c1 w2 [HD2 Hc2]. apply wp_bind.
  eapply wp_mono; [apply d_nth_Z; exact HD2 | |]; cbn beta.
  2:{ intros w3 [[Hw3 Hc3] Hl3]. apply zpost_invU. split; [split; [exact Hw3 | congruence] | exact Hl3]. }
  intros [o c2] w3 [HD3 Hc3]. cbn [snd] in HD3. apply wp_bind.
  eapply wp_mono; [apply drain_next_spec; exact HD3 | |]; cbn beta; [|tauto].
  intros [o2 c3] w4 (HD4 & Hc4 & _). cbn [snd] in HD4. apply wp_bind.
  eapply wp_mono; [apply drain_drop_spec with (c := c3); exact HD4 | |]; cbn beta.
  - intros _ w5 (Hw5 & Hl5 & Hc5). apply wp_ret. apply zpost_invU.
    split; [split; [exact Hw5 | congruence] | exact Hl5].
  - intros w5 (Hw5 & Hl5 & Hc5). apply zpost_invU.
    split; [split; [exact Hw5 | congruence] | exact Hl5].
Qed.

(* consuming iterators: the register holds a fresh container *)
Lemma keepsU_op_into_nth (E : env key V query cstate)
      (item : key * V -> M key V cstate (list N)) (rest : key * V -> M key V cstate unit) pre nk :
  (forall p, frame (item p)) -> (forall p, frame (rest p)) ->
  keepsU (c <- get_cap ;; old <- get_self ;; put_self (new_map c) ;;
          '(body, _) <- swap_self old (into_nth_session E item rest pre nk) ;; ret body).
Proof.
  intros Hitem Hrest w Hw Hu. apply wp_bind. apply wp_get_cap. apply wp_bind. apply wp_get_self.
  apply wp_bind. apply wp_put_self. apply wp_bind. apply wp_swap_self. simp_w.
  eapply wp_mono; [apply (into_nth_session_safe item rest Hitem Hrest); simp_w; exact Hw | |]; cbn beta.
  - intros body w2 _. apply wp_ret. apply detach_U. exact Hw.
  - intros w2 _. apply detach_U. exact Hw.
Qed.

End UNth.

(* ------------------------------------------------------------------ *)
(* 7. running a computation on a register                              *)
(* ------------------------------------------------------------------ *)
Lemma UniqX_get_m r x : UniqX x -> Um (get_m r x).
Proof. intros (H0 & H1 & _). unfold get_m, Um. destruct (N.eqb r 0); assumption. Qed.
Lemma UniqX_get_s r x : UniqX x -> Um (get_s r x).
Proof. intros (_ & _ & H2 & H3). unfold get_s, Um. destruct (N.eqb r 2); assumption. Qed.

Lemma put_m_UniqX r m cs x : UniqX x -> Um m -> UniqX (put_m r m cs x).
Proof.
  unfold UniqX, put_m, Um. intros (H0 & H1 & H2 & H3) Hm.
  destruct (N.eqb r 0); cbn [xm0 xm1 xs0 xs1]; auto.
Qed.
Lemma put_s_UniqX r m cs x : UniqX x -> Um m -> UniqX (put_s r m cs x).
Proof.
  unfold UniqX, put_s, Um. intros (H0 & H1 & H2 & H3) Hm.
  destruct (N.eqb r 2); cbn [xm0 xm1 xs0 xs1]; auto.
Qed.

Lemma run_m_U_at r (c : Mm (list N)) x :
  UniqX x ->
  wp c (fun _ => invU (w_init (xcb x) (get_m r x))) (invU (w_init (xcb x) (get_m r x)))
     (w_init (xcb x) (get_m r x)) ->
  UniqX (snd (run_m r c x)).
Proof.
  intros Hx. unfold run_m, wp, w_init.
  destruct (c _) as [body w|w|]; cbn [finish fst snd]; [| |intros []].
  - intros (_ & _ & Hu). apply put_m_UniqX; assumption.
  - intros (_ & _ & Hu). apply put_m_UniqX; assumption.
Qed.
Lemma run_s_U_at r (c : Ms (list N)) x :
  UniqX x ->
  wp c (fun _ => invU (w_init (xcb x) (get_s r x))) (invU (w_init (xcb x) (get_s r x)))
     (w_init (xcb x) (get_s r x)) ->
  UniqX (snd (run_s r c x)).
Proof.
  intros Hx. unfold run_s, wp, w_init.
  destruct (c _) as [body w|w|]; cbn [finish fst snd]; [| |intros []].
  - intros (_ & _ & Hu). apply put_s_UniqX; assumption.
  - intros (_ & _ & Hu). apply put_s_UniqX; assumption.
Qed.

Lemma run_m_U r (c : Mm (list N)) x :
  WFx x -> UniqX x -> keepsU c -> UniqX (snd (run_m r c x)).
Proof.
  intros Hx Hu Hc. apply run_m_U_at; [exact Hu|].
  apply Hc; [apply WFx_get_m; exact Hx | apply UniqX_get_m; exact Hu].
Qed.
Lemma run_s_U r (c : Ms (list N)) x :
  WFx x -> UniqX x -> keepsU c -> UniqX (snd (run_s r c x)).
Proof.
  intros Hx Hu Hc. apply run_s_U_at; [exact Hu|].
  apply Hc; [apply WFx_get_s; exact Hx | apply UniqX_get_s; exact Hu].
Qed.

(* ------------------------------------------------------------------ *)
(* 8. the history-level theorems                                       *)
(* ------------------------------------------------------------------ *)
Ltac kbU H := apply keepsU_bind; [apply H | intros; apply keepsU_ret].

Theorem step_uniq debug sc o x :
  honest sc -> WFx x -> contract_ok debug o x -> UniqX x -> UniqX (snd (step debug sc o x)).
Proof.
  intros Hh Hx Hc Hu. assert (Hd : xdead x = false) by apply Hx.
  pose proof (env_map_lawful sc Hh) as HLm. pose proof (env_set_lawful sc Hh) as HLs.
  unfold step. cbv beta zeta. rewrite Hd.
  destruct o.
  - (* OInsert *) apply run_m_U; [exact Hx | exact Hu|]. kbU (keepsU_insert (env_map sc) debug HLm).
  - (* OInsertKV *) apply run_m_U; [exact Hx | exact Hu|]. kbU (keepsU_insert_key_value (env_map sc) debug HLm).
  - (* OCheckedInsert *) apply run_m_U; [exact Hx | exact Hu|]. kbU (keepsU_checked_insert (env_map sc) debug HLm).
  - (* OInsertUnchecked *) apply run_m_U_at; [exact Hu|]. cbn [contract_ok] in Hc.
    apply wp_keepsU_then_frame; [|intros; apply frame_ret].
    apply (keepsU_insert_unchecked (env_map sc) debug HLm);
      [apply WFx_get_m; exact Hx | apply UniqX_get_m; exact Hu | exact Hc].
  - (* OGet *) apply run_m_U; [exact Hx | exact Hu|]. apply stays_keepsU. apply (stays_scan_opt_slot (env_map sc)).
  - (* OGetMut *) apply run_m_U; [exact Hx | exact Hu|]. apply keepsU_op_get_mut.
  - (* OGetKV *) apply run_m_U; [exact Hx | exact Hu|]. apply stays_keepsU. apply (stays_scan_opt_slot (env_map sc)).
  - (* OContains *) apply run_m_U; [exact Hx | exact Hu|]. apply stays_keepsU. unfold contains_key.
    apply stays_bind; [|intros; apply stays_ret].
    apply stays_bind; [|intros; apply stays_ret].
    apply (stays_scan (env_map sc)). intros; apply frame_test_q.
  - (* OIndex *) apply run_m_U; [exact Hx | exact Hu|]. apply stays_keepsU. apply stays_op_index.
  - (* OIndexMut *) apply run_m_U; [exact Hx | exact Hu|]. apply keepsU_op_index_mut.
  - (* ORemove *) apply run_m_U; [exact Hx | exact Hu|]. kbU (keepsU_remove (env_map sc) debug HLm).
  - (* ORemoveEntry *) apply run_m_U; [exact Hx | exact Hu|]. kbU (keepsU_remove_entry (env_map sc) debug HLm).
  - (* ORetain *) apply run_m_U; [exact Hx | exact Hu|]. kbU (@keepsU_retain vobj (env_map sc) debug).
  - (* OClear *) apply run_m_U; [exact Hx | exact Hu|]. kbU (@keepsU_clear vobj (env_map sc)).
  - (* ODrain *) apply run_m_U; [exact Hx | exact Hu|]. apply keepsU_drain_session.
  - (* OWithCapacity *) apply run_m_U; [exact Hx | exact Hu|]. apply keepsU_op_with_capacity.
  - (* OIter *) apply run_m_U; [exact Hx | exact Hu|]. apply keepsU_iter_session.
  - (* OIntoIter *) apply run_m_U; [exact Hx | exact Hu|]. apply keepsU_op_into_iter.
  - (* OEntry *) apply run_m_U; [exact Hx | exact Hu|]. apply keepsU_entry_chain. exact Hh.
  - (* ODisjoint *) apply run_m_U; [exact Hx | exact Hu|]. apply keepsU_disjoint_session.
  - (* OClone *)
    destruct (Nat.eqb_spec (cap (get_m r x)) (cap (get_m r' x))) as [Heq|Hne].
    + apply run_m_U_at; [exact Hu|].
      apply op_clone_m_U; [exact Hh | apply WFx_get_m; exact Hx | apply UniqX_get_m; exact Hu
                           | apply WFx_get_m; exact Hx | apply UniqX_get_m; exact Hu | exact Heq].
    + cbn [fst snd]. exact Hu.
  - (* OEq *) apply run_m_U_at; [exact Hu|].
    apply stays_at_U; [apply WFx_get_m; exact Hx | apply UniqX_get_m; exact Hu|].
    apply op_eq_stays; apply WFx_get_m; exact Hx.
  - (* OFromIter *) apply run_m_U; [exact Hx | exact Hu|]. apply (keepsU_op_from_iter (env_map sc) debug HLm).
  - (* OFormat *) apply run_m_U; [exact Hx | exact Hu|]. apply stays_keepsU. apply stays_format_m.
  - (* OSerde *) apply run_m_U; [exact Hx | exact Hu|]. apply keepsU_op_finally. apply keepsU_visit_map. exact Hh.
  - (* SInsert *) apply run_s_U; [exact Hx | exact Hu|]. kbU (keepsU_s_insert (env_set sc) debug HLs).
  - (* SReplace *) apply run_s_U; [exact Hx | exact Hu|]. kbU (keepsU_s_replace (env_set sc) debug HLs).
  - (* SContains *) apply run_s_U; [exact Hx | exact Hu|]. apply stays_keepsU. unfold s_contains, contains_key.
    apply stays_bind; [|intros; apply stays_ret].
    apply stays_bind; [|intros; apply stays_ret].
    apply (stays_scan (env_set sc)). intros; apply frame_test_q.
  - (* SGet *) apply run_s_U; [exact Hx | exact Hu|]. apply stays_keepsU. apply (stays_scan_opt_slot (env_set sc)).
  - (* SRemove *) apply run_s_U; [exact Hx | exact Hu|]. kbU (keepsU_s_remove (env_set sc) debug HLs).
  - (* STake *) apply run_s_U; [exact Hx | exact Hu|]. kbU (keepsU_s_take (env_set sc) debug HLs).
  - (* SRetain *) apply run_s_U; [exact Hx | exact Hu|]. kbU (keepsU_s_retain (env_set sc) debug).
  - (* SClear *) apply run_s_U; [exact Hx | exact Hu|]. kbU (keepsU_s_clear (env_set sc)).
  - (* SDrain *) apply run_s_U; [exact Hx | exact Hu|]. apply keepsU_drain_session.
  - (* SExtend *) apply run_s_U; [exact Hx | exact Hu|]. unfold s_extend.
    kbU (keepsU_s_extend_loop (env_set sc) debug HLs).
  - (* SIter *) apply run_s_U; [exact Hx | exact Hu|]. apply stays_keepsU. apply stays_set_iter_session.
  - (* SIntoIter *) apply run_s_U; [exact Hx | exact Hu|]. apply keepsU_op_s_into_iter.
  - (* SClone *)
    destruct (Nat.eqb_spec (cap (get_s r x)) (cap (get_s r' x))) as [Heq|Hne].
    + apply run_s_U_at; [exact Hu|].
      apply op_clone_s_U; [exact Hh | apply WFx_get_s; exact Hx | apply UniqX_get_s; exact Hu
                           | apply WFx_get_s; exact Hx | apply UniqX_get_s; exact Hu | exact Heq].
    + cbn [fst snd]. exact Hu.
  - (* SEq *) apply run_s_U_at; [exact Hu|].
    apply stays_at_U; [apply WFx_get_s; exact Hx | apply UniqX_get_s; exact Hu|].
    apply op_eq_stays; apply WFx_get_s; exact Hx.
  - (* SFromIter *) apply run_s_U; [exact Hx | exact Hu|]. apply (keepsU_op_s_from_iter (env_set sc) debug HLs).
  - (* SAlgebra *) apply run_s_U_at; [exact Hu|].
    apply stays_at_U; [apply WFx_get_s; exact Hx | apply UniqX_get_s; exact Hu|].
    apply alg_session_frame; apply WFx_get_s; exact Hx.
  - (* SPred *) apply run_s_U_at; [exact Hu|].
    apply stays_at_U; [apply WFx_get_s; exact Hx | apply UniqX_get_s; exact Hu|].
    apply op_pred_stays; apply WFx_get_s; exact Hx.
  - (* SSub *) apply run_s_U_at; [exact Hu|].
    apply stays_at_U; [apply WFx_get_s; exact Hx | apply UniqX_get_s; exact Hu|].
    apply op_sub_stays; apply WFx_get_s; exact Hx.
  - (* SFormat *) apply run_s_U; [exact Hx | exact Hu|]. apply stays_keepsU. apply stays_format_s.
  - (* SSerde *) apply run_s_U; [exact Hx | exact Hu|]. apply keepsU_op_finally. apply keepsU_visit_seq. exact Hh.
  - (* OCloneFrom *)
    destruct (Nat.eqb_spec (cap (get_m r x)) (cap (get_m r' x))) as [Heq|Hne].
    + apply run_m_U_at; [exact Hu|].
      apply op_clone_m_U; [exact Hh | apply WFx_get_m; exact Hx | apply UniqX_get_m; exact Hu
                           | apply WFx_get_m; exact Hx | apply UniqX_get_m; exact Hu | exact Heq].
    + cbn [fst snd]. exact Hu.
  - (* SCloneFrom *)
    destruct (Nat.eqb_spec (cap (get_s r x)) (cap (get_s r' x))) as [Heq|Hne].
    + apply run_s_U_at; [exact Hu|].
      apply op_clone_s_U; [exact Hh | apply WFx_get_s; exact Hx | apply UniqX_get_s; exact Hu
                           | apply WFx_get_s; exact Hx | apply UniqX_get_s; exact Hu | exact Heq].
    + cbn [fst snd]. exact Hu.
  - (* ODefault *) apply run_m_U; [exact Hx | exact Hu|]. apply keepsU_op_default.
  - (* SDefault *) apply run_s_U; [exact Hx | exact Hu|]. apply keepsU_op_default.
  - (* OIterNth *) apply run_m_U; [exact Hx | exact Hu|]. apply stays_keepsU. apply stays_iter_nth_session.
  - (* ODrainNth *) apply run_m_U; [exact Hx | exact Hu|]. apply keepsU_drain_nth_session.
  - (* OIntoNth *) apply run_m_U; [exact Hx | exact Hu|].
    apply keepsU_op_into_nth; intros p; [apply frame_into_steps_item | apply frame_into_rest].
  - (* SIterNth *) apply run_s_U; [exact Hx | exact Hu|]. apply stays_keepsU. apply stays_iter_nth_session.
  - (* SDrainNth *) apply run_s_U; [exact Hx | exact Hu|]. apply keepsU_drain_nth_session.
  - (* SIntoNth *) apply run_s_U; [exact Hx | exact Hu|].
    apply keepsU_op_into_nth; intros p; [apply frame_ret | apply frame_drop_key].
  - (* OBad *) cbn [fst snd]. exact Hu.
Qed.

Theorem run_uniq debug sc ops x :
  honest sc -> WFx x -> UniqX x -> Forall safe_op ops ->
  WFx (run_final debug sc ops x) /\ UniqX (run_final debug sc ops x).
Proof.
  intros Hh. revert x. induction ops as [|o t IH]; intros x Hx Hu Hs; cbn [run_final].
  - split; assumption.
  - inversion Hs as [|o' t' Ho Ht]; subst.
    pose proof (safe_op_contract debug o x Ho) as Hc.
    apply IH; [apply (step_safe debug sc o x Hx Hc) | apply step_uniq; assumption | exact Ht].
Qed.

Lemma init_UniqX c0 c1 c2 c3 : UniqX (init_world c0 c1 c2 c3).
Proof. unfold UniqX, init_world. cbn [xm0 xm1 xs0 xs1]. repeat split; apply Um_new. Qed.

Theorem run_uniq_init debug sc ops c0 c1 c2 c3 :
  honest sc -> Forall safe_op ops ->
  let x := run_final debug sc ops (init_world c0 c1 c2 c3) in
  WFx x /\ UniqX x /\
  (length (Spec.elems (xm0 x)) = len (xm0 x) /\ len (xm0 x) <= cap (xm0 x)) /\
  (length (Spec.elems (xm1 x)) = len (xm1 x) /\ len (xm1 x) <= cap (xm1 x)) /\
  (length (Spec.elems (xs0 x)) = len (xs0 x) /\ len (xs0 x) <= cap (xs0 x)) /\
  (length (Spec.elems (xs1 x)) = len (xs1 x) /\ len (xs1 x) <= cap (xs1 x)).
Proof.
  intros Hh Hs x.
  destruct (run_uniq debug sc ops (init_world c0 c1 c2 c3) Hh (init_WFx c0 c1 c2 c3)
              (init_UniqX c0 c1 c2 c3) Hs) as [Hx Hu].
  fold x in Hx, Hu. split; [exact Hx|]. split; [exact Hu|].
  destruct Hx as (H0 & H1 & H2 & H3 & _).
  repeat split; first [apply elems_length; assumption | apply WF_len_le_cap; assumption].
Qed.

(* the capacities never change along a run *)
Theorem run_final_caps debug sc ops x :
  WFx x -> Forall safe_op ops -> caps (run_final debug sc ops x) = caps x.
Proof.
  revert x. induction ops as [|o t IH]; intros x Hx Hs; cbn [run_final]; [reflexivity|].
  inversion Hs as [|o' t' Ho Ht]; subst.
  destruct (step_safe debug sc o x Hx (safe_op_contract debug o x Ho)) as [H1 H2].
  rewrite IH; assumption.
Qed.

(* every yielded key can be looked up and returns the pair yielded with it *)
Corollary yielded_lookup {V} (m : map key V) p :
  WF m -> Uniq kcls (Spec.elems m) -> In p (Spec.elems m) ->
  lookup kcls (Spec.elems m) (kcls (fst p)) = Some p.
Proof. intros _ Hu Hp. apply EqClone.lookup_uniq_In; assumption. Qed.
