(* ========================================================================== *)
(* C04 — A panic in user code never corrupts a container (exception safety)

   STATEMENT (properties.jsonl):
     "If key comparison, Clone, Drop, a retain predicate, an entry closure or a
      source iterator panics in the middle of any Map or Set operation, then
      after unwinding no element has been or will later be destroyed twice, no
      uninitialised slot is treated as live, and every container involved -
      including a partially built clone or collection - is well-formed and can
      be used and dropped normally. Leaking elements on such a panic is
      tolerated; double destruction, use of dead data or a broken container is
      not."

   QUANTIFIER (properties.jsonl):
     "every operation x every reachable container state x every position among
      the user callbacks (eq, clone, drop, closures, iterator next) that the
      operation makes, one injected panic per run"

   HOW THE MODEL EXPRESSES IT
     - User code is the environment E : env K V Q T (Model/Base.v): every ==,
       Clone, Drop, closure and source-iterator next() may answer anything,
       change its answer from call to call, and PANIC (ans = Boom, option =
       None, drop flag = true).  The theorems below quantify over EVERY E (or,
       at history level, every script sc of Model/Exec.v, whose fault kinds
       1-4 inject a panic at an arbitrary eq / clone / drop / closure-or-next
       call).  This is stronger than "one injected panic per run".
     - wp c Qn Qp w : c started in w never reaches UB; Qn holds on return, Qp
       holds of the world left behind by unwinding.  Every unchecked slot access
       to a slot that holds no live element is UB in the model, a second Drop of
       an element needs such an access; so "wp ... (panic postcondition: WF)"
       is exactly: no dead/uninitialised slot was used, and the container left
       by the panic is well-formed (len <= cap, slots [0,len) live), so that
       every later operation - including its Drop (C04_drop_map_safe,
       C04_teardown_safe) - again starts from a well-formed state.
     - WF m := len m <= cap m /\ forall i, i < len m -> live m i  (Proofs/Inv.v)
       The statements written  WF (self w') /\ cap (self w') = cap (self w)
       are Safety.inv_post w w' unfolded; a lemma `keeps c` of the Proofs files
       is the first form below with that postcondition on both exits.

   READING GUIDE (clause -> theorem)
     every operation of the interpreter (all Map/Set/entry/iterator/drain/
       algebra/clone/eq/collect/fmt/serde entry points), every script, i.e.
       every position of an injected panic: no UB, all registers WF, same
       capacities, whether the call returned or unwound
                                             C04_step_safe, C04_step_safe_obs
     ... along any history, and the final drop of all containers
                                             C04_run_safe, C04_teardown_safe
     "partially built clone": the clone under construction (self) is WF at
       every exit; on panic it has been dropped by unwinding without UB
                                             C04_clone_safe
     "partially built collection" (Map / Set collect, From<[..;N]>)
                                             C04_from_iter_safe, C04_s_from_iter_safe
     retain predicate panics / Drop panics inside retain
                                             C04_keeps_retain,
                                             C04_keeps_remove_index_drop
     source iterator / == / Drop panics inside extend
                                             C04_keeps_extend_loop
     Drop panics inside clear                C04_keeps_clear
     Drop panics inside Drop for Map: no UB  C04_drop_map_safe
     == / Clone panics inside &Set - &Set    C04_set_sub_safe
     entry closures                          C04_or_insert_with_spec,
                                             C04_and_modify_spec
     "no element has been or will later be destroyed twice": no identity is
       ever at two places among stored / destroyed, ALSO on the panic exit
       (for every `conserves` operation, see C02)
                                             C04_conserves_NoDup
     the same for Clone, which is not a `conserves` operation (it creates new
       objects): on a Clone panic every object made so far (incl. the orphan key
       of the failing pair) has been destroyed exactly once by the unwinding of
       the partial clone, whose storage is then empty
                                             C04_clone_acct (panic clause),
                                             C04_clone_NoDup
     The three defects found in the original tree (F1 clone, F2 clear,
       F3 remove_index_drop/retain; /verif/KNOWN_FINDINGS) are genuine
       violations of this property: the pre-fix code, kept in Proofs/Legacy.v,
       reaches UB on concrete histories
                                             C04_clear_legacy_refuted,
                                             C04_retain_legacy_refuted,
                                             C04_clone_legacy_refuted
       and the repaired code (Model/MapOps.v) does not on the same histories
                                             C04_clear_fixed_same_history,
                                             C04_clone_fixed_same_history,
                                             C04_retain_fixed_same_history,
                                             C04_retain_fixed_same_history_outcome

   PARTLY / NOT COVERED BY A THEOREM (left to the correspondence check)
     - that the model's positions of user callbacks and the order of slot
       operations are those of the Rust code (the correspondence check runs
       the same fault-injected histories on both sides);
     - C04_conserves_NoDup is stated for operations having a `conserves`
       lemma: in Proofs/Owned.v insert*, remove*, retain, clear, lookups,
       IntoIter::next, extend/from_iter via from_iter_acct; since then also
       (Proofs/Owned2.v, restated in C02) the entry API, IntoKeys/IntoValues::next
       and every Set method.  Clone is NOW COVERED by C04_clone_acct /
       C04_clone_NoDup, &Set - &Set by C02_set_sub_acct.  For the remaining
       operations (BitOr/BitAnd/BitXor of sets, which borrow and clone like Sub)
       "never destroyed twice" is carried by UB-freedom (C04_step_safe) only;
     - Legacy: CLOSED - the repaired retain on the history of F3 is now
       C04_retain_fixed_same_history (+ _outcome); the Example
       C04_example_retain_fixed is kept.
   SECOND ADDENDUM (very end of this file, lemmas in Proofs/MoreHist.v): histories
     with panicking stateful predicates / entry closures / Clone / source iterators,
     any environment: C04_cstep_keeps, C04_crun_any_env_safe, C04_crun_NoDup,
     C04_crun_no_double_drop, C04_replace_g_build_panic_keeps_self
   AUDIT ADDENDUM (end of this file, lemmas in Proofs/MoreOwned.v) - NOW COVERED:
     - "no element has been or will later be destroyed twice" ALONG A HISTORY,
       every environment                   C04_run_NoDup, C04_run_no_double_drop,
                                           C04_run2_NoDup, C04_srun_NoDup
     - key uniqueness after an INJECTED panic (all 56 constructors)
                                           C04_step_uniq_fault, C04_run_uniq_fault,
                                           C04_run_uniq_fault_init
     - keeps_* lemmas used by C04_step_safe_obs, restated
                                           C04_keeps_insert, C04_keeps_insert_key_value,
                                           C04_keeps_checked_insert, C04_keeps_remove,
                                           C04_keeps_remove_entry, C04_keeps_s_insert,
                                           C04_keeps_s_replace, C04_keeps_s_retain,
                                           C04_keeps_s_extend_loop,
                                           C04_or_insert_with_key_spec, C04_disjoint_safe,
                                           C04_disjoint_unchecked_safe, C04_map_eq_frame
     - what holds of the partially built clone / collection on a panic
                                           C04_clone_safe_acct, C04_from_iter_safe_acct,
                                           C04_s_from_iter_safe_acct, C04_set_sub_safe_acct,
                                           C04_replace_with_build_panic_keeps_self,
                                           C04_step_clone_src_untouched,
                                           C04_step_clone_panic_dst_cases,
                                           C04_step_clone_panic_dst_untouched (+ s, from_iter,
                                           serde variants)
   ========================================================================== *)
Require Import Model.Base Model.Slots Model.MapOps Model.EntryOps Model.SetOps Model.Fmt Model.Exec.
Require Import Proofs.Hoare Proofs.Inv Proofs.Safety Proofs.Safety2 Proofs.Safety3 Proofs.Spec Proofs.Owned
               Proofs.Owned2 Proofs.ExecSafe Proofs.Legacy Proofs.Gaps.
From Coq Require Import Permutation.

(* -------------------------------------------------------------------------- *)
(* history level: every operation, every script (= every fault position)      *)
Theorem C04_step_safe :
  forall (debug : bool) (sc : script) (o : op) (x : xworld),
  WFx x ->
  contract_ok debug o x ->
  WFx (snd (step debug sc o x)) /\ caps (snd (step debug sc o x)) = caps x.
Proof. exact step_safe. Qed.
Print Assumptions C04_step_safe.

(* ... and the observation is never the UB observation [3]
   (ExecSafe.safe_step x x' obs, unfolded) *)
Theorem C04_step_safe_obs :
  forall (debug : bool) (sc : script) (o : op) (x : xworld),
  WFx x ->
  contract_ok debug o x ->
  WFx (snd (step debug sc o x)) /\
  caps (snd (step debug sc o x)) = caps x /\
  fst (step debug sc o x) <> [3%N].
Proof. exact step_safe_obs. Qed.
Print Assumptions C04_step_safe_obs.

Theorem C04_run_safe :
  forall (debug : bool) (sc : script) (ops : list op) (x : xworld),
  WFx x ->
  Forall safe_op ops ->
  Forall (fun obs : list N => obs <> [3%N]) (run_ops debug sc ops x).
Proof. exact run_safe. Qed.
Print Assumptions C04_run_safe.

(* dropping all four containers at the end never reaches UB *)
Theorem C04_teardown_safe :
  forall (sc : script) (x : xworld),
  WFx x -> fst (teardown sc x) <> [3%N].
Proof. exact teardown_safe. Qed.
Print Assumptions C04_teardown_safe.

(* -------------------------------------------------------------------------- *)
(* per operation, arbitrary environment                                       *)
(* Clone: self = the clone being built (starts as Map::new()), src shared-borrowed;
   a panic of K::clone / V::clone unwinds through finally_drop = Drop of the partial clone *)
Theorem C04_clone_safe :
  forall (K V Q T : Type) (E : env K V Q T) (src : map K V) (w : world K V T),
  WF src ->
  WF (self w) ->
  len (self w) = 0 ->
  cap (self w) = cap src ->
  wp (clone_from_src E src)
    (fun (_ : unit) (w' : world K V T) =>
       (WF (self w') /\ cap (self w') = cap (self w)) /\ len (self w') = len src)
    (fun _ : world K V T => True)
    w.
Proof. exact (@clone_safe). Qed.
Print Assumptions C04_clone_safe.

Theorem C04_from_iter_safe :
  forall (K V Q T : Type) (E : env K V Q T) (debug : bool) (nx : T -> ans * T)
         (items : list (K * V)) (w : world K V T),
  WF (self w) ->
  wp (from_iter E debug nx items)
    (fun (_ : unit) (w' : world K V T) => WF (self w') /\ cap (self w') = cap (self w))
    (fun _ : world K V T => True)
    w.
Proof. exact (@from_iter_safe). Qed.
Print Assumptions C04_from_iter_safe.

Theorem C04_s_from_iter_safe :
  forall (K Q T : Type) (E : env K unit Q T) (debug : bool) (nx : T -> ans * T)
         (items : list K) (w : world K unit T),
  WF (self w) ->
  wp (s_from_iter E debug nx items)
    (fun (_ : unit) (w' : world K unit T) => WF (self w') /\ cap (self w') = cap (self w))
    (fun _ : world K unit T => True)
    w.
Proof. exact (@s_from_iter_safe). Qed.
Print Assumptions C04_s_from_iter_safe.

Theorem C04_keeps_retain :
  forall (K V Q T : Type) (E : env K V Q T) (debug : bool) (f : @pred_t K V T)
         (w : world K V T),
  WF (self w) ->
  wp (retain E debug f)
    (fun (_ : unit) (w' : world K V T) => WF (self w') /\ cap (self w') = cap (self w))
    (fun w' : world K V T => WF (self w') /\ cap (self w') = cap (self w))
    w.
Proof. exact (@keeps_retain). Qed.
Print Assumptions C04_keeps_retain.

Theorem C04_keeps_extend_loop :
  forall (K V Q T : Type) (E : env K V Q T) (debug : bool) (nx : T -> ans * T)
         (items : list (K * V)) (w : world K V T),
  WF (self w) ->
  wp (extend_loop E debug nx items)
    (fun (_ : unit) (w' : world K V T) => WF (self w') /\ cap (self w') = cap (self w))
    (fun w' : world K V T => WF (self w') /\ cap (self w') = cap (self w))
    w.
Proof. exact (@keeps_extend_loop). Qed.
Print Assumptions C04_keeps_extend_loop.

Theorem C04_keeps_clear :
  forall (K V Q T : Type) (E : env K V Q T) (w : world K V T),
  WF (self w) ->
  wp (clear E)
    (fun (_ : unit) (w' : world K V T) => WF (self w') /\ cap (self w') = cap (self w))
    (fun w' : world K V T => WF (self w') /\ cap (self w') = cap (self w))
    w.
Proof. exact (@keeps_clear). Qed.
Print Assumptions C04_keeps_clear.

Theorem C04_drop_map_safe :
  forall (K V Q T : Type) (E : env K V Q T) (w : world K V T),
  WF (self w) ->
  wp (drop_map E)
    (fun (_ : unit) (_ : world K V T) => True)
    (fun _ : world K V T => True)
    w.
Proof. exact (@drop_map_safe). Qed.
Print Assumptions C04_drop_map_safe.

(* the repaired remove_index_drop: the length is already decremented on BOTH exits *)
Theorem C04_keeps_remove_index_drop :
  forall (K V Q T : Type) (E : env K V Q T) (debug : bool) (i : nat) (w : world K V T),
  WF (self w) ->
  i < len (self w) ->
  wp (remove_index_drop E debug i)
    (fun (_ : unit) (w' : world K V T) =>
       (WF (self w') /\ cap (self w') = cap (self w)) /\ S (len (self w')) = len (self w))
    (fun w' : world K V T =>
       (WF (self w') /\ cap (self w') = cap (self w)) /\ S (len (self w')) = len (self w))
    w.
Proof. exact (@keeps_remove_index_drop). Qed.
Print Assumptions C04_keeps_remove_index_drop.

(* &Set - &Set (src/set/sub.rs): self.difference(rhs).cloned().collect(); self = the
   set being built, a and b shared-borrowed; ==, Clone and Drop may panic *)
Theorem C04_set_sub_safe :
  forall (K Q T : Type) (E : env K unit Q T) (debug : bool) (a b : map K unit)
         (w : world K unit T),
  WF a ->
  WF b ->
  WF (self w) ->
  wp (set_sub E debug a b)
    (fun (_ : unit) (w' : world K unit T) => WF (self w') /\ cap (self w') = cap (self w))
    (fun _ : world K unit T => True)
    w.
Proof. exact (@set_sub_safe). Qed.
Print Assumptions C04_set_sub_safe.

(* entry_ok e m := match e with Occupied i => i < len m | Vacant _ => True end *)
Theorem C04_or_insert_with_spec :
  forall (K V Q T : Type) (E : env K V Q T) (debug : bool) (e : @entry K)
         (f : T -> option V * T) (w : world K V T),
  WF (self w) ->
  entry_ok e (self w) ->
  wp (or_insert_with E debug e f)
    (fun (i : nat) (w' : world K V T) =>
       (WF (self w') /\ cap (self w') = cap (self w)) /\ i < len (self w'))
    (fun w' : world K V T => WF (self w') /\ cap (self w') = cap (self w))
    w.
Proof. exact (@or_insert_with_spec). Qed.
Print Assumptions C04_or_insert_with_spec.

Theorem C04_and_modify_spec :
  forall (K V T : Type) (e : @entry K) (f : @modf_t V T) (w : world K V T),
  WF (self w) ->
  entry_ok e (self w) ->
  wp (and_modify e f)
    (fun (e' : @entry K) (w' : world K V T) =>
       (WF (self w') /\ cap (self w') = cap (self w)) /\
       e' = e /\
       len (self w') = len (self w))
    (fun w' : world K V T => WF (self w') /\ cap (self w') = cap (self w))
    w.
Proof. exact (@and_modify_spec). Qed.
Print Assumptions C04_and_modify_spec.

(* nothing is duplicated, on return and ON PANIC (see C02 for `conserves`) *)
Theorem C04_conserves_NoDup :
  forall (K V Q T : Type) (E : env K V Q T) (A : Type) (c : M K V T A) (ins : list N)
         (outs : A -> list N) (w : world K V T),
  conserves E c ins outs ->
  WF (self w) ->
  NoDup (owned E (self w) ++ ins ++ dropped (log w)) ->
  wp c
    (fun (a : A) (w' : world K V T) => NoDup (owned E (self w') ++ outs a ++ dropped (log w')))
    (fun w' : world K V T => NoDup (owned E (self w') ++ dropped (log w')))
    w.
Proof. exact (@conserves_NoDup). Qed.
Print Assumptions C04_conserves_NoDup.

(* Clone, ledger level (Proofs/Owned2.v).  clone_made E src n i s = the pairs the
   Clone callbacks return, in order, when cloning slots i, i+1, ... of src from
   callback state s, up to the first Clone panic; clone_orphans E src n i s = the
   identities of the key K::clone had just made when the V::clone of the same
   pair panicked (destroyed by unwinding; [] otherwise).  PANIC clause: the
   partial clone has by then been destroyed by the unwinding (finally_drop runs
   the panic-free unwind_map: a Drop that panics while unwinding would abort);
   self w' is its dead storage: it holds NOTHING any more (owned = []), and the
   destroyed-list grew by exactly the objects made so far, made ++ orphan, each
   once (Permutation, multisets): nothing leaked, nothing destroyed twice *)
Theorem C04_clone_acct :
  forall (K V Q T : Type) (E : env K V Q T) (src : map K V) (w : world K V T),
  WF src ->
  WF (self w) ->
  len (self w) = 0 ->
  cap (self w) = cap src ->
  Tidy (self w) ->
  let made := flat_map (ids_pair E) (clone_made E src (len src) 0 (cb w)) in
  let orphan := clone_orphans E src (len src) 0 (cb w) in
  wp (clone_from_src E src)
    (fun (_ : unit) (w' : world K V T) =>
     WF (self w') /\
     Tidy (self w') /\
     len (self w') = len src /\
     length (clone_made E src (len src) 0 (cb w)) = len src /\
     dropped (log w') = dropped (log w) /\ Permutation (owned E (self w')) made)
    (fun w' : world K V T =>
     owned E (self w') = [] /\
     (exists d : list N,
        dropped (log w') = dropped (log w) ++ d /\ Permutation d (made ++ orphan))) w.
Proof. exact (@clone_acct). Qed.
Print Assumptions C04_clone_acct.

(* ... hence, if the Clone callbacks return distinct new objects (the orphan key
   included), no identity is at two places among stored-in-the-clone /
   destroyed, on return AND on panic *)
Theorem C04_clone_NoDup :
  forall (K V Q T : Type) (E : env K V Q T) (src : map K V) (w : world K V T),
  WF src ->
  WF (self w) ->
  len (self w) = 0 ->
  cap (self w) = cap src ->
  Tidy (self w) ->
  NoDup
    (flat_map (ids_pair E) (clone_made E src (len src) 0 (cb w)) ++
     clone_orphans E src (len src) 0 (cb w) ++ dropped (log w)) ->
  wp (clone_from_src E src)
    (fun (_ : unit) (w' : world K V T) => NoDup (owned E (self w') ++ dropped (log w')))
    (fun w' : world K V T => NoDup (owned E (self w') ++ dropped (log w'))) w.
Proof. exact (@clone_NoDup). Qed.
Print Assumptions C04_clone_NoDup.

(* -------------------------------------------------------------------------- *)
(* the confirmed defects of the original tree, and their repair               *)
(* F2: clear() reset len AFTER the drop loop: a panicking Drop leaves len = 3
   over destroyed slots; dropping the map afterwards is UB (double drop) *)
Theorem C04_clear_legacy_refuted :
  exists (sc : script) (w : world key vobj cstate),
    WF (self w) /\
    match clear_legacy (env_map sc) w with
    | Panic w' => drop_map (env_map sc) w' = UB
    | _ => False
    end.
Proof. exact clear_legacy_refuted. Qed.
Print Assumptions C04_clear_legacy_refuted.

(* F3: remove_index_drop destroyed the slot BEFORE len -= 1 (used by retain) *)
Theorem C04_retain_legacy_refuted :
  exists (sc : script) (w : world key vobj cstate),
    WF (self w) /\
    match retain_legacy (env_map sc) false pred_false w with
    | Panic w' => drop_map (env_map sc) w' = UB
    | _ => False
    end.
Proof. exact retain_legacy_refuted. Qed.
Print Assumptions C04_retain_legacy_refuted.

(* F1: Map::clone published len = self.len before writing any element clone *)
Theorem C04_clone_legacy_refuted :
  exists (sc : script) (src : map key vobj) (w : world key vobj cstate),
    WF src /\
    WF (self w) /\
    len (self w) = 0 /\
    clone_from_src_legacy (env_map sc) src w = UB.
Proof. exact clone_legacy_refuted. Qed.
Print Assumptions C04_clone_legacy_refuted.

Theorem C04_clear_fixed_same_history :
  match clear (env_map (sc_drop 3)) (w_of m3) with
  | Panic w' => len (self w') = 0 /\ drop_map (env_map (sc_drop 3)) w' <> UB
  | _ => False
  end.
Proof. exact clear_fixed_same_history. Qed.
Print Assumptions C04_clear_fixed_same_history.

Theorem C04_clone_fixed_same_history :
  match clone_from_src (env_map (sc_clone 2)) m3 (w_of (new_map 3)) with
  | Panic _ => True
  | _ => False
  end.
Proof. exact clone_fixed_same_history. Qed.
Print Assumptions C04_clone_fixed_same_history.

(* F3 repaired: retain(|_,_| false) on m3 where the Drop of key id 1 panics
   unwinds into a well-formed container whose later Drop is not UB ... *)
Theorem C04_retain_fixed_same_history :
  match retain (env_map (sc_drop 1)) false pred_false (w_of m3) with
  | Panic w' => WF (self w') /\ drop_map (env_map (sc_drop 1)) w' <> UB
  | _ => False
  end.
Proof. exact retain_fixed_same_history. Qed.
Print Assumptions C04_retain_fixed_same_history.

(* ... namely: two entries survive; only the removed pair (ids 1, 2) has been
   destroyed *)
Theorem C04_retain_fixed_same_history_outcome :
  match retain (env_map (sc_drop 1)) false pred_false (w_of m3) with
  | Panic w' => len (self w') = 2 /\
                log w' = [EvCall 0; EvDrop 1; EvDrop 2] /\
                Spec.elems (self w') = [(k_ 5 7, v_ 6 9); (k_ 3 6, v_ 4 8)]
  | _ => False
  end.
Proof. exact retain_fixed_same_history_outcome. Qed.
Print Assumptions C04_retain_fixed_same_history_outcome.

(* -------------------------------------------------------------------------- *)
(* non-vacuity                                                                *)
Example C04_example_WF : WF (self (w_of m3)).
Proof. exact m3_WF. Qed.

Example C04_example_WFx : WFx (init_world 2 2 0 0).
Proof. exact (init_WFx 2 2 0 0). Qed.

(* the repaired retain on the history of C04_retain_legacy_refuted
   (retain(|_,_| false), Drop of key id 1 panics): it unwinds with len = 2 over
   two live slots, and dropping the map afterwards is fine *)
Example C04_example_retain_fixed :
  match retain (env_map (sc_drop 1)) false pred_false (w_of m3) with
  | Panic w' => len (self w') = 2 /\
                log w' = [EvCall 0; EvDrop 1; EvDrop 2] /\
                drop_map (env_map (sc_drop 1)) w' <> UB
  | _ => False
  end.
Proof. vm_compute. repeat split; try reflexivity. discriminate. Qed.

(* a case with an injected Clone panic (script fk = 2: clone call number 1, the
   first V::clone, panics), release build: two inserts into Map register 0, then
   register 1 := register 0 .clone().  The third observation starts with 2 (the
   call unwound) and shows register 1 empty and well-formed; a panic observation
   now ends with the events of the call: the orphan key 100000 (cloned just
   before its value's Clone panicked) was destroyed by unwinding, and K::clone /
   V::clone had been called on ids 1 and 2; the teardown then destroys ids
   1 2 3 4 exactly once. *)
Example C04_example_clone_panic :
  run_case false [[0; 0; 2; 1; 2; 2; 0; 0];
                  [10; 0; 1; 5; 2; 7]; [10; 0; 3; 6; 4; 8]; [60; 0; 1]]%N
  = [[1; 0; 7777; 1; 2; 1; 5; 2; 7; 8888; 8889];
     [1; 0; 7777; 2; 2; 1; 5; 2; 7; 3; 6; 4; 8; 8888; 8889];
     [2; 7777; 0; 2; 8888; 100000; 8889; 1; 2];
     [1; 7777; 0; 2; 8888; 1; 2; 3; 4; 8889;  1; 7777; 0; 2; 8888; 8889;
      1; 7777; 0; 0; 8888; 8889;  1; 7777; 0; 0; 8888; 8889;
      8890; 1; 2; 0; 100001]]%N.
Proof. vm_compute. reflexivity. Qed.

(* C04_clone_acct's panic clause on a concrete history: cloning m3 where the
   second K::clone panics (script sc_clone 2).  One pair (ids 100000, 100001) had
   been made; the unwinding Drop of the partial clone destroys exactly these two,
   nothing is left in its storage *)
Example C04_example_clone_acct_panic :
  clone_made (env_map (sc_clone 2)) m3 (len m3) 0 cs0 = [(k_ 100000 5, v_ 100001 7)] /\
  match clone_from_src (env_map (sc_clone 2)) m3 (w_of (new_map 3)) with
  | Panic w' => owned (env_map (sc_clone 2)) (self w') = [] /\
                dropped (log w') = [100000; 100001]%N
  | _ => False
  end.
Proof. vm_compute. repeat split; reflexivity. Qed.


(* ========================================================================== *)
(* ADDENDUM (audit closure).  New lemmas: Proofs/MoreOwned.v.
   Vocabulary of the history theorems (mstep / mfinal, op_ins, op_outs, op_ok,
   mouts; the Dict2 and Set variants) : see the addendum of Props/C02.v.       *)
(* ========================================================================== *)
Require Import Proofs.Lawful Proofs.Dict Proofs.Dict2 Proofs.SetDict Proofs.ExecUniq Proofs.FmtSerde Proofs.MoreOwned.

(* -------------------------------------------------------------------------- *)
(* "no element has been OR WILL LATER BE destroyed twice", along a whole
   history and for EVERY environment (any number of panics, at any callback):
   if the identities stored at the start, those of all arguments of the history,
   those of uninvolved objects (extra) and those already destroyed are pairwise
   distinct, then after ANY history of the dictionary operations (a panicking
   step continues on the unwound state) no identity occurs twice among
   stored ++ with the caller ++ extra ++ destroyed: nothing was destroyed twice
   at any point, nothing destroyed is still stored (so no later drop can destroy
   it again).  mfinal2: with drains, iteration, entry, extend; smfinal: Set.    *)
Theorem C04_run_NoDup :
  forall (K V Q T : Type) (E : env K V Q T) (debug : bool) (ops : list dop)
    (w wf : world K V T) (extra : list N),
  WF (self w) ->
  Forall (op_ok E) ops ->
  NoDup (owned E (self w) ++ flat_map (op_ins E) ops ++ extra ++ dropped (log w)) ->
  mfinal E debug ops w = Some wf ->
  NoDup (owned E (self wf) ++ mouts E debug ops w ++ extra ++ dropped (log wf)).
Proof. exact (@run_NoDup). Qed.
Print Assumptions C04_run_NoDup.

Theorem C04_run_no_double_drop :
  forall (K V Q T : Type) (E : env K V Q T) (debug : bool) (ops : list dop)
    (w wf : world K V T),
  WF (self w) ->
  Forall (op_ok E) ops ->
  NoDup (owned E (self w) ++ flat_map (op_ins E) ops ++ dropped (log w)) ->
  mfinal E debug ops w = Some wf ->
  NoDup (dropped (log wf)) /\
  NoDup (owned E (self wf)) /\
  (forall x : N,
   In x (owned E (self wf)) -> ~ In x (dropped (log wf)) /\ ~ In x (mouts E debug ops w)) /\
  (forall x : N, In x (mouts E debug ops w) -> ~ In x (dropped (log wf))).
Proof. exact (@run_no_double_drop). Qed.
Print Assumptions C04_run_no_double_drop.

Theorem C04_run2_NoDup :
  forall (K V Q T : Type) (E : env K V Q T) (debug : bool) (ops : list dop2)
    (w wf : world K V T) (extra : list N),
  WF (self w) ->
  Forall (op2_ok E) ops ->
  NoDup (owned E (self w) ++ flat_map (op2_ins E) ops ++ extra ++ dropped (log w)) ->
  mfinal2 E debug ops w = Some wf ->
  NoDup (owned E (self wf) ++ mouts2 E debug ops w ++ extra ++ dropped (log wf)).
Proof. exact (@run2_NoDup). Qed.
Print Assumptions C04_run2_NoDup.

Theorem C04_srun_NoDup :
  forall (K Q T : Type) (E : env K unit Q T) (debug : bool),
  idV E tt = [] ->
  forall (ops : list sop) (w wf : world K unit T) (extra : list N),
  WF (self w) ->
  NoDup (owned E (self w) ++ flat_map (sop_ins E) ops ++ extra ++ dropped (log w)) ->
  smfinal E debug ops w = Some wf ->
  NoDup (owned E (self wf) ++ souts E debug ops w ++ extra ++ dropped (log wf)).
Proof. exact (@srun_NoDup). Qed.
Print Assumptions C04_srun_NoDup.

(* -------------------------------------------------------------------------- *)
(* Key uniqueness AFTER AN INJECTED PANIC (ExecUniq.step_uniq needs an honest
   script: no fault at all).  Here the script only has to be non-adversarial:
   sc_adv sc = false, i.e. == answers truthfully WHEN IT ANSWERS; sc_fk / sc_fa
   are arbitrary: one panic injected at any == / Clone / Drop / closure / next()
   call.  UniqX x: in each of the four registers the keys are pairwise of
   different class.  All 56 constructors of Exec.op are covered: every
   comparison precedes the mutation, so a panic leaves uniqueness intact. *)
Theorem C04_step_uniq_fault :
  forall (debug : bool) (sc : script) (o : op) (x : xworld),
  sc_adv sc = false ->
  WFx x -> contract_ok debug o x -> UniqX x -> UniqX (snd (step debug sc o x)).
Proof. exact (@step_uniq_fault). Qed.
Print Assumptions C04_step_uniq_fault.

Theorem C04_run_uniq_fault :
  forall (debug : bool) (sc : script) (ops : list op) (x : xworld),
  sc_adv sc = false ->
  WFx x ->
  UniqX x ->
  Forall safe_op ops -> WFx (run_final debug sc ops x) /\ UniqX (run_final debug sc ops x).
Proof. exact (@run_uniq_fault). Qed.
Print Assumptions C04_run_uniq_fault.

Theorem C04_run_uniq_fault_init :
  forall (debug : bool) (sc : script) (ops : list op) (c0 c1 c2 c3 : N),
  sc_adv sc = false ->
  Forall safe_op ops ->
  let x := run_final debug sc ops (init_world c0 c1 c2 c3) in WFx x /\ UniqX x.
Proof. exact (@run_uniq_fault_init). Qed.
Print Assumptions C04_run_uniq_fault_init.

(* -------------------------------------------------------------------------- *)
(* per-operation exception safety used inside C04_step_safe_obs but not
   restated so far (Safety.keeps unfolded), EVERY environment: in both outcomes
   the container is well-formed with the same capacity *)
Theorem C04_keeps_insert :
  forall (K V Q T : Type) (E : env K V Q T) (debug : bool) (k : K) (v : V) (w : world K V T),
  WF (self w) ->
  wp (insert E debug k v)
    (fun _ (w' : world K V T) => WF (self w') /\ cap (self w') = cap (self w))
    (fun w' : world K V T => WF (self w') /\ cap (self w') = cap (self w))
    w.
Proof. exact (@Safety3.keeps_insert). Qed.
Print Assumptions C04_keeps_insert.

Theorem C04_keeps_insert_key_value :
  forall (K V Q T : Type) (E : env K V Q T) (debug : bool) (k : K) (v : V) (w : world K V T),
  WF (self w) ->
  wp (insert_key_value E debug k v)
    (fun _ (w' : world K V T) => WF (self w') /\ cap (self w') = cap (self w))
    (fun w' : world K V T => WF (self w') /\ cap (self w') = cap (self w))
    w.
Proof. exact (@keeps_insert_key_value). Qed.
Print Assumptions C04_keeps_insert_key_value.

Theorem C04_keeps_checked_insert :
  forall (K V Q T : Type) (E : env K V Q T) (debug : bool) (k : K) (v : V) (w : world K V T),
  WF (self w) ->
  wp (checked_insert E debug k v)
    (fun _ (w' : world K V T) => WF (self w') /\ cap (self w') = cap (self w))
    (fun w' : world K V T => WF (self w') /\ cap (self w') = cap (self w))
    w.
Proof. exact (@keeps_checked_insert). Qed.
Print Assumptions C04_keeps_checked_insert.

Theorem C04_keeps_remove :
  forall (K V Q T : Type) (E : env K V Q T) (debug : bool) (q : Q) (w : world K V T),
  WF (self w) ->
  wp (remove E debug q)
    (fun _ (w' : world K V T) => WF (self w') /\ cap (self w') = cap (self w))
    (fun w' : world K V T => WF (self w') /\ cap (self w') = cap (self w))
    w.
Proof. exact (@keeps_remove). Qed.
Print Assumptions C04_keeps_remove.

Theorem C04_keeps_remove_entry :
  forall (K V Q T : Type) (E : env K V Q T) (debug : bool) (q : Q) (w : world K V T),
  WF (self w) ->
  wp (remove_entry E debug q)
    (fun _ (w' : world K V T) => WF (self w') /\ cap (self w') = cap (self w))
    (fun w' : world K V T => WF (self w') /\ cap (self w') = cap (self w))
    w.
Proof. exact (@keeps_remove_entry). Qed.
Print Assumptions C04_keeps_remove_entry.

Theorem C04_keeps_s_insert :
  forall (K Q T : Type) (E : env K unit Q T) (debug : bool) (k : K) (w : world K unit T),
  WF (self w) ->
  wp (s_insert E debug k)
    (fun _ (w' : world K unit T) => WF (self w') /\ cap (self w') = cap (self w))
    (fun w' : world K unit T => WF (self w') /\ cap (self w') = cap (self w))
    w.
Proof. exact (@keeps_s_insert). Qed.
Print Assumptions C04_keeps_s_insert.

Theorem C04_keeps_s_replace :
  forall (K Q T : Type) (E : env K unit Q T) (debug : bool) (k : K) (w : world K unit T),
  WF (self w) ->
  wp (s_replace E debug k)
    (fun _ (w' : world K unit T) => WF (self w') /\ cap (self w') = cap (self w))
    (fun w' : world K unit T => WF (self w') /\ cap (self w') = cap (self w))
    w.
Proof. exact (@keeps_s_replace). Qed.
Print Assumptions C04_keeps_s_replace.

Theorem C04_keeps_s_retain :
  forall (K Q T : Type) (E : env K unit Q T) (debug : bool) (f : T -> K -> option bool * T) (w : world K unit T),
  WF (self w) ->
  wp (s_retain E debug f)
    (fun _ (w' : world K unit T) => WF (self w') /\ cap (self w') = cap (self w))
    (fun w' : world K unit T => WF (self w') /\ cap (self w') = cap (self w))
    w.
Proof. exact (@keeps_s_retain). Qed.
Print Assumptions C04_keeps_s_retain.

Theorem C04_keeps_s_extend_loop :
  forall (K Q T : Type) (E : env K unit Q T) (debug : bool) (nx : T -> ans * T) (items : list K) (w : world K unit T),
  WF (self w) ->
  wp (s_extend_loop E debug nx items)
    (fun _ (w' : world K unit T) => WF (self w') /\ cap (self w') = cap (self w))
    (fun w' : world K unit T => WF (self w') /\ cap (self w') = cap (self w))
    w.
Proof. exact (@keeps_s_extend_loop). Qed.
Print Assumptions C04_keeps_s_extend_loop.

Theorem C04_or_insert_with_key_spec :
  forall (K V Q T : Type) (E : env K V Q T) (debug : bool) (e : @entry K)
         (f : K -> T -> option V * T) (w : world K V T),
  WF (self w) ->
  entry_ok e (self w) ->
  wp (or_insert_with_key E debug e f)
    (fun (i : nat) (w' : world K V T) =>
       (WF (self w') /\ cap (self w') = cap (self w)) /\ i < len (self w'))
    (fun w' : world K V T => WF (self w') /\ cap (self w') = cap (self w))
    w.
Proof. exact (@or_insert_with_key_spec). Qed.
Print Assumptions C04_or_insert_with_key_spec.

(* get_disjoint_mut / get_disjoint_unchecked_mut and PartialEq never touch the
   container, whatever == does (lie, panic); the indices handed out are live and
   pairwise distinct *)
Theorem C04_disjoint_safe :
  forall (K V Q T : Type) (E : env K V Q T) (ks : list Q) (w : world K V T),
  WF (self w) ->
  wp (get_disjoint_mut E ks)
    (fun (r : list (option nat)) (w' : world K V T) =>
     self w' = self w /\
     length r = length ks /\
     (forall j i : nat, nth_error r j = Some (Some i) -> i < len (self w)) /\
     (forall j1 j2 i : nat,
      nth_error r j1 = Some (Some i) -> nth_error r j2 = Some (Some i) -> j1 = j2))
    (fun w' : world K V T => self w' = self w) w.
Proof. exact (@disjoint_safe). Qed.
Print Assumptions C04_disjoint_safe.

Theorem C04_disjoint_unchecked_safe :
  forall (K V Q T : Type) (E : env K V Q T) (ks : list Q) (w : world K V T),
  WF (self w) ->
  wp (get_disjoint_unchecked_mut E ks)
    (fun (r : list (option nat)) (w' : world K V T) =>
     self w' = self w /\
     length r = length ks /\
     (forall j i : nat, nth_error r j = Some (Some i) -> i < len (self w)) /\
     (forall j1 j2 i : nat,
      nth_error r j1 = Some (Some i) -> nth_error r j2 = Some (Some i) -> j1 = j2))
    (fun w' : world K V T => self w' = self w) w.
Proof. exact (@disjoint_unchecked_safe). Qed.
Print Assumptions C04_disjoint_unchecked_safe.

Theorem C04_map_eq_frame :
  forall (K V Q T : Type) (E : env K V Q T) (a b : map K V) (w : world K V T),
  WF a ->
  WF b ->
  wp (map_eq E a b) (fun (_ : bool) (w' : world K V T) => self w' = self w)
    (fun w' : world K V T => self w' = self w) w.
Proof. exact (@map_eq_frame). Qed.
Print Assumptions C04_map_eq_frame.

(* -------------------------------------------------------------------------- *)
(* C04_clone_safe, C04_from_iter_safe, C04_s_from_iter_safe, C04_set_sub_safe
   have panic postcondition True.  What holds of the partially built container
   when Clone / the source iterator / == / Drop panics midway: it has been
   destroyed by unwinding (finally_drop = the panic-free unwind_map), self w' is
   what is left in its dead storage; the elements already cloned / stored were
   destroyed exactly once (d, appended to the destroyed list; for Clone also the
   orphan key of the failing pair), `lost` is only what sat beyond len in a
   non-tidy start state, none twice; from a tidy start nothing is lost and the
   storage is empty (Clone).  The source is a parameter of the computation (a shared
   borrow): it cannot change.  inv_post w w' := WF (self w') /\ cap (self w') =
   cap (self w). *)
Theorem C04_clone_safe_acct :
  forall (K V Q T : Type) (E : env K V Q T) (src : map K V) (w : world K V T),
  WF src ->
  WF (self w) ->
  len (self w) = 0 ->
  cap (self w) = cap src ->
  let made := flat_map (ids_pair E) (clone_made E src (len src) 0 (cb w)) in
  let orphan := clone_orphans E src (len src) 0 (cb w) in
  wp (clone_from_src E src)
    (fun (_ : unit) (w' : world K V T) =>
     (inv_post w w' /\ len (self w') = len src) /\
     length (clone_made E src (len src) 0 (cb w)) = len src /\
     dropped (log w') = dropped (log w) /\
     (exists lost : list N,
        Permutation (owned E (self w') ++ lost) (owned E (self w) ++ made) /\
        (Tidy (self w) -> lost = [] /\ Tidy (self w'))))
    (fun w' : world K V T =>
     exists d lost : list N,
       dropped (log w') = dropped (log w) ++ d /\
       Permutation (owned E (self w') ++ d ++ lost) (owned E (self w) ++ made ++ orphan) /\
       (Tidy (self w) -> lost = [] /\ owned E (self w') = [])) w.
Proof. exact (@clone_safe_acct). Qed.
Print Assumptions C04_clone_safe_acct.

Theorem C04_from_iter_safe_acct :
  forall (K V Q T : Type) (E : env K V Q T) (debug : bool) (nx : T -> ans * T)
    (items : list (K * V)) (w : world K V T),
  WF (self w) ->
  wp (from_iter E debug nx items)
    (fun (_ : unit) (w' : world K V T) =>
     inv_post w w' /\
     (exists lost : list N,
        acct E w w' (flat_map (ids_pair E) items) [] lost /\
        (Tidy (self w) -> lost = [] /\ Tidy (self w'))))
    (fun w' : world K V T =>
     exists lost : list N, acct E w w' (flat_map (ids_pair E) items) [] lost) w.
Proof. exact (@from_iter_safe_acct). Qed.
Print Assumptions C04_from_iter_safe_acct.

Theorem C04_s_from_iter_safe_acct :
  forall (K Q T : Type) (E : env K unit Q T) (debug : bool),
  idV E tt = [] ->
  forall (nx : T -> ans * T) (items : list K) (w : world K unit T),
  WF (self w) ->
  wp (s_from_iter E debug nx items)
    (fun (_ : unit) (w' : world K unit T) =>
     inv_post w w' /\
     (exists lost : list N,
        acct E w w' (flat_map (fun k : K => ids_pair E (k, tt)) items) [] lost /\
        (Tidy (self w) -> lost = [] /\ Tidy (self w'))))
    (fun w' : world K unit T =>
     exists lost : list N,
       acct E w w' (flat_map (fun k : K => ids_pair E (k, tt)) items) [] lost) w.
Proof. exact (@s_from_iter_safe_acct). Qed.
Print Assumptions C04_s_from_iter_safe_acct.

Theorem C04_set_sub_safe_acct :
  forall (K Q T : Type) (E : env K unit Q T) (debug : bool),
  idV E tt = [] ->
  forall (a b : map K unit) (w : world K unit T),
  WF a ->
  WF b ->
  WF (self w) ->
  wp (set_sub E debug a b)
    (fun (_ : unit) (w' : world K unit T) =>
     inv_post w w' /\
     (exists made : list K,
        Forall (cloned_from E a) made /\
        (exists lost : list N,
           acct E w w' (flat_map (fun k : K => ids_pair E (k, tt)) made) [] lost /\
           (Tidy (self w) -> lost = [] /\ Tidy (self w')))))
    (fun w' : world K unit T =>
     exists made : list K,
       Forall (cloned_from E a) made /\
       (exists lost : list N,
          acct E w w' (flat_map (fun k : K => ids_pair E (k, tt)) made) [] lost)) w.
Proof. exact (@set_sub_safe_acct). Qed.
Print Assumptions C04_set_sub_safe_acct.

(* at operation level (Exec.replace_with: build in a local, install, drop the
   old value): if the BUILD panics the register keeps its old contents ... *)
Theorem C04_replace_with_build_panic_keeps_self :
  forall (V : Type) (E : env key V query cstate) (build : M key V cstate unit) 
    (body : list N) (w w1 : world key V cstate),
  build (with_self w (new_map (cap (self w)))) = Panic w1 ->
  replace_with E build body w = Panic (with_self w1 (self w)).
Proof. exact (@replace_with_build_panic_keeps_self). Qed.
Print Assumptions C04_replace_with_build_panic_keeps_self.

(* ... and at interpreter level, for every script: the source register of
   clone / clone_from is untouched; when the call unwinds (observation starts
   with 2) the destination register is untouched too - unless the panic came
   from the Drop of an OLD destination element after the new clone was
   installed (second disjunct; excluded when the script injects no Drop fault).
   The naive claim "panic => destination untouched" is FALSE:
   C04_example_clone_from_drop_panic. *)
Theorem C04_step_clone_src_untouched :
  forall (debug : bool) (sc : script) (r r' : N) (x : xworld),
  (r < 2)%N ->
  (r' < 2)%N ->
  r <> r' ->
  get_m r (snd (step debug sc (OClone r r') x)) = get_m r x /\
  get_m r (snd (step debug sc (OCloneFrom r r') x)) = get_m r x.
Proof. exact (@cf_step_clone_src_untouched). Qed.
Print Assumptions C04_step_clone_src_untouched.

Theorem C04_step_clone_panic_dst_cases :
  forall (debug : bool) (sc : script) (r r' : N) (x : xworld) (o : op),
  o = OClone r r' \/ o = OCloneFrom r r' ->
  hd 0%N (fst (step debug sc o x)) = 2%N ->
  get_m r' (snd (step debug sc o x)) = get_m r' x \/
  (exists w1 w2 : mworld,
     clone_from_src (env_map sc) (get_m r x)
       (with_self (w_init (xcb x) (get_m r' x)) (new_map (cap (get_m r' x)))) = 
     Ok tt w1 /\
     drop_map (env_map sc) (with_self w1 (get_m r' x)) = Panic w2 /\
     get_m r' (snd (step debug sc o x)) = self w1).
Proof. exact (@cf_step_clone_panic_dst_cases). Qed.
Print Assumptions C04_step_clone_panic_dst_cases.

Theorem C04_step_clone_panic_dst_untouched :
  forall (debug : bool) (sc : script) (r r' : N) (x : xworld) (o : op),
  o = OClone r r' \/ o = OCloneFrom r r' ->
  sc_fk sc <> 3%N ->
  hd 0%N (fst (step debug sc o x)) = 2%N -> get_m r' (snd (step debug sc o x)) = get_m r' x.
Proof. exact (@cf_step_clone_panic_dst_untouched). Qed.
Print Assumptions C04_step_clone_panic_dst_untouched.

Theorem C04_step_sclone_src_untouched :
  forall (debug : bool) (sc : script) (r r' : N) (x : xworld),
  s_ok r = true ->
  s_ok r' = true ->
  r <> r' ->
  get_s r (snd (step debug sc (SClone r r') x)) = get_s r x /\
  get_s r (snd (step debug sc (SCloneFrom r r') x)) = get_s r x.
Proof. exact (@cf_step_sclone_src_untouched). Qed.
Print Assumptions C04_step_sclone_src_untouched.

Theorem C04_step_sclone_panic_dst_untouched :
  forall (debug : bool) (sc : script) (r r' : N) (x : xworld) (o : op),
  o = SClone r r' \/ o = SCloneFrom r r' ->
  sc_fk sc <> 3%N ->
  hd 0%N (fst (step debug sc o x)) = 2%N -> get_s r' (snd (step debug sc o x)) = get_s r' x.
Proof. exact (@cf_step_sclone_panic_dst_untouched). Qed.
Print Assumptions C04_step_sclone_panic_dst_untouched.

Theorem C04_step_from_iter_panic_untouched :
  forall (debug : bool) (sc : script) (r : N) (arr : bool) (items : list (key * vobj))
    (x : xworld),
  sc_fk sc <> 3%N ->
  hd 0%N (fst (step debug sc (OFromIter r arr items) x)) = 2%N ->
  get_m r (snd (step debug sc (OFromIter r arr items) x)) = get_m r x.
Proof. exact (@cf_step_from_iter_panic_untouched). Qed.
Print Assumptions C04_step_from_iter_panic_untouched.

Theorem C04_step_serde_panic_untouched :
  forall (debug : bool) (sc : script) (r r' : N) (x : xworld),
  sc_fk sc <> 3%N ->
  hd 0%N (fst (step debug sc (OSerde r r') x)) = 2%N ->
  get_m r' (snd (step debug sc (OSerde r r') x)) = get_m r' x.
Proof. exact (@cf_step_serde_panic_untouched). Qed.
Print Assumptions C04_step_serde_panic_untouched.

(* -------------------------------------------------------------------------- *)
(* non-vacuity                                                                *)
(* the hypotheses of C04_step_uniq_fault: a script that is not adversarial but
   injects a Drop panic (object id 1), a well-formed world with unique keys *)
Example C04_example_uniq_fault_hyps :
  sc_adv (sc_drop 1) = false /\ sc_fk (sc_drop 1) = 3%N /\
  WFx (init_world 2 2 0 0) /\ UniqX (init_world 2 2 0 0).
Proof. split; [reflexivity|]. split; [reflexivity|]. split; [exact (init_WFx 2 2 0 0) | exact (init_UniqX 2 2 0 0)]. Qed.

(* clone_from where the Clone of the first value panics (script sc_clone 1):
   the call unwinds and the destination register 1 is untouched *)
Example C04_example_clone_from_clone_panic :
  let x := run_final false (sc_clone 1)
             [OInsert 0 (mk 1 5) (mv 2 7); OInsert 1 (mk 5 6) (mv 6 9)] (init_world 2 2 0 0) in
  hd 0%N (fst (step false (sc_clone 1) (OCloneFrom 0 1) x)) = 2%N /\
  get_m 1 (snd (step false (sc_clone 1) (OCloneFrom 0 1) x)) = get_m 1 x.
Proof. vm_compute. split; reflexivity. Qed.

(* clone_from where the Drop of the OLD destination key (id 5) panics: the call
   unwinds AFTER the new clone was installed: register 1 holds the complete
   clone (ids 100000, 100001), the source register 0 is untouched *)
Example C04_example_clone_from_drop_panic :
  let x := run_final false (sc_drop 5)
             [OInsert 0 (mk 1 5) (mv 2 7); OInsert 1 (mk 5 6) (mv 6 9)] (init_world 2 2 0 0) in
  hd 0%N (fst (step false (sc_drop 5) (OCloneFrom 0 1) x)) = 2%N /\
  Spec.elems (get_m 1 (snd (step false (sc_drop 5) (OCloneFrom 0 1) x))) = [(mk 100000 5, mv 100001 7)] /\
  get_m 1 (snd (step false (sc_drop 5) (OCloneFrom 0 1) x)) <> get_m 1 x /\
  get_m 0 (snd (step false (sc_drop 5) (OCloneFrom 0 1) x)) = get_m 0 x.
Proof. vm_compute. repeat split; try reflexivity. discriminate. Qed.


(* ========================================================================== *)
(* ADDENDUM 2 (second audit round).  New lemmas: Proofs/MoreHist.v.
   cop / cstep / cfinal / c_ins / c_outs / c_ok / cins / couts, replace_g,
   detach_g, fresh_w: see ADDENDUM 2 of Props/C02.v.  cstep is a history
   interpreter for an ARBITRARY environment whose steps include retain with a
   stateful predicate that may panic, entry closures that may panic
   (or_insert_with, or_insert_with_key, and_modify), get_disjoint_mut(_unchecked),
   clone_from, collect from a source that may panic, ==, consuming iterators
   (into_iter / into_keys / into_values) dropped or forgotten midway, forgotten
   drains, and all operations of Dict2.
   c_safe o := the other container of CCloneFrom / CEq is well-formed; True
   otherwise.  keeps c := from WF, in BOTH outcomes, WF and same capacity.      *)
(* ========================================================================== *)
Require Import Proofs.MoreHist.

(* -------------------------------------------------------------------------- *)
(* "If key comparison, Clone, Drop, a retain predicate, an entry closure or a
   source iterator panics in the middle of any Map operation, then ... every
   container involved is well-formed and can be used ... normally": along ANY
   history of cstep, for EVERY environment (any number of panics at any callback
   position, not just one): no UB, the container is WF after every step, whether
   it returned or unwound, and the history continues on the unwound state *)
Theorem C04_cstep_keeps :
  forall (K V Q T : Type) (E : env K V Q T) (debug : bool) (o : cop),
  c_safe o -> keeps (cstep E debug o).
Proof. exact (@cstep_keeps). Qed.
Print Assumptions C04_cstep_keeps.

Theorem C04_crun_any_env_safe :
  forall (K V Q T : Type) (E : env K V Q T) (debug : bool) (ops : list cop) (w : world K V T),
  WF (self w) ->
  Forall c_safe ops ->
  exists wf : world K V T,
    cfinal E debug ops w = Some wf /\ WF (self wf) /\ cap (self wf) = cap (self w).
Proof. exact (@crun_any_env_safe). Qed.
Print Assumptions C04_crun_any_env_safe.

(* "no element has been or will later be destroyed twice" along such histories:
   with fresh taken-in identities (arguments and every object user code creates:
   cins), no identity occurs twice among stored ++ with the caller ++ extra ++
   destroyed at the end; c_ok: value-rewriting closures keep the value's identity *)
Theorem C04_crun_NoDup :
  forall (K V Q T : Type) (E : env K V Q T) (debug : bool) (ops : list cop)
    (w wf : world K V T) (extra : list N),
  WF (self w) ->
  Forall (c_ok E) ops ->
  NoDup (owned E (self w) ++ cins E debug ops w ++ extra ++ dropped (log w)) ->
  cfinal E debug ops w = Some wf ->
  NoDup (owned E (self wf) ++ couts E debug ops w ++ extra ++ dropped (log wf)).
Proof. exact (@crun_NoDup). Qed.
Print Assumptions C04_crun_NoDup.

Theorem C04_crun_no_double_drop :
  forall (K V Q T : Type) (E : env K V Q T) (debug : bool) (ops : list cop)
    (w wf : world K V T),
  WF (self w) ->
  Forall (c_ok E) ops ->
  NoDup (owned E (self w) ++ cins E debug ops w ++ dropped (log w)) ->
  cfinal E debug ops w = Some wf ->
  NoDup (dropped (log wf)) /\
  NoDup (owned E (self wf)) /\
  (forall x : N,
   In x (owned E (self wf)) -> ~ In x (dropped (log wf)) /\ ~ In x (couts E debug ops w)) /\
  (forall x : N, In x (couts E debug ops w) -> ~ In x (dropped (log wf))).
Proof. exact (@crun_no_double_drop). Qed.
Print Assumptions C04_crun_no_double_drop.

(* "a partially built clone or collection": when the build of clone_from /
   collect panics, the register keeps its old contents (generic form of
   C04_replace_with_build_panic_keeps_self) *)
Theorem C04_replace_g_build_panic_keeps_self :
  forall (K V Q T : Type) (E : env K V Q T) (build : M K V T unit) (w w1 : world K V T),
  build (fresh_w w) = Panic w1 ->
  exists w' : world K V T, replace_g E build w = Panic w' /\ self w' = self w.
Proof. exact (@replace_g_build_panic_keeps_self). Qed.
Print Assumptions C04_replace_g_build_panic_keeps_self.

(* non-vacuity: a history with panicking closures / Clone: C02_example_cops_ok,
   C02_example_cops_clone_panic (Props/C02.v).  Here: the closure of
   or_insert_with panics (closure call number 0 of script fk = 4): the call
   unwinds, the key 7 is destroyed once, the full map is untouched, and a later
   retain with the stateful predicate runs normally *)
Example C04_example_cop_closure_panic :
  let sc := {| sc_adv := false; sc_seed := 0; sc_fk := 4; sc_fa := 0 |} in
  let ops := [CEntryWith (k_ 7 9) (mk_val sc (v_ 8 1)); CRetainF (pred_m sc 1 [(5, 0)]%N)] in
  Forall (@c_safe key vobj query cstate) ops /\
  match cfinal (env_map sc) false ops (w_of m3) with
  | Some wf => Spec.elems (self wf) = [(k_ 5 7, v_ 6 9); (k_ 3 6, v_ 4 8)] /\
               dropped (log wf) = [7; 1; 2]%N
  | None => False
  end.
Proof. cbv zeta. split; [repeat constructor|]. vm_compute. split; reflexivity. Qed.
