(* MoreIter.v — closing audit findings for C06 (references point inside the
   container), C09 (borrowing iterators: len/size_hint/count, the six kinds,
   writes through iter_mut seen by lookups, clones) and C10 (into_keys /
   into_values, drain: reusable container, no panic before Drop). *)
Require Import Model.Base Model.Slots Model.MapOps Model.EntryOps Model.SetOps Model.Fmt Model.Exec.
Require Import Proofs.Hoare Proofs.Inv Proofs.Safety Proofs.Safety2 Proofs.Safety3 Proofs.Spec
               Proofs.Lawful Proofs.Lawful2 Proofs.Lawful3 Proofs.IterSpec Proofs.EqClone
               Proofs.EntrySpec Proofs.Dict Proofs.Dict2 Proofs.Owned Proofs.Owned2
               Proofs.Algebra Proofs.Algebra2 Proofs.Legacy Proofs.Gaps.
From Coq Require Import Permutation.

(* ====================================================================== *)
(* Part A (C06): every reference handed out designates a live slot of the  *)
(* container's own array, below len (hence below cap). EVERY environment.  *)
(* ====================================================================== *)
Section RefsInside.
Context {K V Q T : Type} (E : env K V Q T) (debug : bool).
Notation M := (M K V T). Notation world := (world K V T). Notation map := (map K V).

(* slot i of m is a live element slot of the array: below len, below cap *)
Definition inside (m : map) (i : nat) : Prop := i < len m /\ len m <= cap m /\ live m i.

Lemma inside_lt_cap (m : map) i : inside m i -> i < cap m.
Proof. intros (H1 & H2 & _). lia. Qed.

Lemma WF_inside (m : map) i : WF m -> i < len m -> inside m i.
Proof. intros Hw Hi. split; [exact Hi|]. split; [apply WF_len_le_cap; exact Hw | apply WF_live; assumption]. Qed.

Definition opt_inside (m : map) (r : option nat) : Prop :=
  match r with Some i => inside m i | None => True end.

Lemma scan_q_inside q (w : world) :
  WF (self w) ->
  wp (scan (test_q E q))
     (fun r w' => self w' = self w /\ opt_inside (self w') r)
     (fun w' => self w' = self w) w.
Proof.
  intros Hw. eapply wp_mono; [apply scan_spec; [intros; apply frame_test_q | exact Hw] | |]; cbn beta; auto.
  intros r w' [H1 H2]. split; [exact H1|]. rewrite H1.
  destruct r as [i|]; cbn [opt_inside]; [apply WF_inside; assumption | exact I].
Qed.

Lemma get_inside q (w : world) :
  WF (self w) ->
  wp (get E q) (fun r w' => self w' = self w /\ opt_inside (self w') r) (fun w' => self w' = self w) w.
Proof. exact (scan_q_inside q w). Qed.

Lemma get_mut_inside q (w : world) :
  WF (self w) ->
  wp (get_mut E q) (fun r w' => self w' = self w /\ opt_inside (self w') r) (fun w' => self w' = self w) w.
Proof. exact (scan_q_inside q w). Qed.

Lemma get_key_value_inside q (w : world) :
  WF (self w) ->
  wp (get_key_value E q) (fun r w' => self w' = self w /\ opt_inside (self w') r) (fun w' => self w' = self w) w.
Proof. exact (scan_q_inside q w). Qed.

(* Index / IndexMut: a reference is returned only on the normal path *)
Lemma index_inside q (w : world) :
  WF (self w) ->
  wp (index E q) (fun i w' => self w' = self w /\ inside (self w') i) (fun w' => self w' = self w) w.
Proof.
  intros Hw. unfold index. apply wp_bind.
  eapply wp_mono; [apply get_inside; exact Hw | |]; cbn beta; [|auto].
  intros [i|] w' [Hs Hi]; [apply wp_ret; auto | apply wp_panic; exact Hs].
Qed.

Lemma index_mut_inside q (w : world) :
  WF (self w) ->
  wp (index_mut E q) (fun i w' => self w' = self w /\ inside (self w') i) (fun w' => self w' = self w) w.
Proof.
  intros Hw. unfold index_mut. apply wp_bind.
  eapply wp_mono; [apply get_mut_inside; exact Hw | |]; cbn beta; [|auto].
  intros [i|] w' [Hs Hi]; [apply wp_ret; auto | apply wp_panic; exact Hs].
Qed.

(* iteration: every slot yielded by the actual  iter ;; iter_run n  *)
Lemma iter_yields_inside n (w : world) :
  WF (self w) ->
  wp (c <- iter ;; iter_run n c)
     (fun r w' => self w' = self w /\ Forall (fun i => i < len (self w')) (fst r) /\
                  Forall (inside (self w')) (fst r))
     (fun _ => False) w.
Proof.
  intros Hw. eapply wp_mono; [apply iter_run_spec; exact Hw | | auto]; cbn beta.
  intros r w' (Hs & _ & Hr & _). split; [exact Hs|]. rewrite Hs, Hr.
  split; apply Forall_forall; intros i Hi; apply in_seq in Hi.
  - lia.
  - apply WF_inside; [exact Hw | lia].
Qed.

(* one step of a borrowing iterator from any cursor over the container *)
Lemma iter_next_inside lo hi (w : world) :
  WF (self w) -> hi <= len (self w) ->
  wp (iter_next (lo, hi))
     (fun r w' => w' = w /\ opt_inside (self w') (fst r))
     (fun _ => False) w.
Proof.
  intros Hw Hhi. eapply wp_mono; [apply iter_next_exact; eassumption | | auto]; cbn beta.
  intros r w' [-> ->]. split; [reflexivity|].
  destruct (Nat.ltb_spec lo hi); cbn [fst opt_inside]; [apply WF_inside; [exact Hw | lia] | exact I].
Qed.

(* OccupiedEntry::get / get_mut / into_mut / key: the recorded index, unchanged world *)
Lemma occ_get_inside i (w : world) :
  WF (self w) -> i < len (self w) ->
  wp (occ_get i) (fun j w' => w' = w /\ j = i /\ inside (self w') j) (fun _ => False) w.
Proof.
  intros Hw Hi. eapply wp_mono; [apply (occ_get_lawful i w Hw Hi) | | auto]; cbn beta.
  intros j w' [-> ->]. split; [reflexivity|]. split; [reflexivity | apply WF_inside; assumption].
Qed.
Lemma occ_get_mut_inside i (w : world) :
  WF (self w) -> i < len (self w) ->
  wp (occ_get_mut i) (fun j w' => w' = w /\ j = i /\ inside (self w') j) (fun _ => False) w.
Proof. exact (occ_get_inside i w). Qed.
Lemma occ_into_mut_inside i (w : world) :
  WF (self w) -> i < len (self w) ->
  wp (occ_into_mut i) (fun j w' => w' = w /\ j = i /\ inside (self w') j) (fun _ => False) w.
Proof. exact (occ_get_inside i w). Qed.
Lemma occ_key_inside i (w : world) :
  WF (self w) -> i < len (self w) ->
  wp (occ_key i) (fun j w' => w' = w /\ j = i /\ inside (self w') j) (fun _ => False) w.
Proof. exact (occ_get_inside i w). Qed.

(* the whole chain  map.entry(k) -> Occupied -> get/get_mut/into_mut/key,
   whatever == answers: an occupied entry's reference lands inside *)
Lemma entry_ref_inside k (acc : nat -> M nat) (w : world) :
  (acc = occ_get \/ acc = occ_get_mut \/ acc = occ_into_mut \/ acc = occ_key) ->
  WF (self w) ->
  wp (e <- entry_of E k ;;
      match e with
      | Occupied i => j <- acc i ;; ret (Some j)
      | Vacant _ => ret None
      end)
     (fun r w' => self w' = self w /\ opt_inside (self w') r)
     (fun w' => self w' = self w) w.
Proof.
  intros Hacc Hw. apply wp_bind.
  eapply wp_mono; [apply (entry_of_spec E k w Hw) | |]; cbn beta; [|auto].
  intros e w1 [Hs1 He]. destruct e as [i|k'].
  - cbn [entry_ok] in He.
    assert (Hw1 : WF (self w1)) by (rewrite Hs1; exact Hw).
    assert (Hi1 : i < len (self w1)) by (rewrite Hs1; exact He).
    apply wp_bind.
    assert (H : wp (acc i) (fun j w' => w' = w1 /\ j = i /\ inside (self w') j) (fun _ => False) w1).
    { destruct Hacc as [-> | [-> | [-> | ->]]].
      - apply occ_get_inside; assumption.
      - apply occ_get_mut_inside; assumption.
      - apply occ_into_mut_inside; assumption.
      - apply occ_key_inside; assumption. }
    eapply wp_mono; [exact H | | intros ? []]; cbn beta.
    intros j w2 (-> & -> & Hin). apply wp_ret. split; [exact Hs1 | exact Hin].
  - apply wp_ret. split; [exact Hs1 | exact I].
Qed.

(* construction *)
Lemma new_map_shape n :
  cap (@new_map K V n) = n /\ len (@new_map K V n) = 0 /\ WF (@new_map K V n) /\
  Spec.elems (@new_map K V n) = [] /\ Tidy (@new_map K V n).
Proof.
  split; [apply cap_new|]. split; [reflexivity|]. split; [apply WF_new|]. split; [reflexivity|].
  intros i _ Hn. unfold new_map in *. cbn [slots] in *.
  destruct (nth_error (repeat None n) i) as [x|] eqn:Hx; [|congruence].
  apply nth_error_In in Hx. apply repeat_spec in Hx. subst x. reflexivity.
Qed.

(* Map::with_capacity(c) for a Map<_,_,n>: accepted exactly when c = n *)
Lemma with_capacity_shape c n :
  (with_capacity_ok c n = true <-> c = n) /\
  (with_capacity_ok c n = true ->
   cap (@new_map K V n) = c /\ len (@new_map K V n) = 0 /\ WF (@new_map K V n)).
Proof.
  unfold with_capacity_ok. split; [apply Nat.eqb_eq|]. intros H. apply Nat.eqb_eq in H. subst c.
  split; [apply cap_new|]. split; [reflexivity | apply WF_new].
Qed.

End RefsInside.

(* Set::get is get_key_value on the underlying map *)
Lemma s_get_inside {K Q T : Type} (E : env K unit Q T) q (w : world K unit T) :
  WF (self w) ->
  wp (s_get E q) (fun r w' => self w' = self w /\ opt_inside (self w') r) (fun w' => self w' = self w) w.
Proof. exact (get_key_value_inside E q w). Qed.

(* ---------------------------------------------------------------------- *)
(* set algebra: every item an adaptor yields is a slot of the operand it     *)
(* comes from ((false,i) = slot i of a, (true,i) = slot i of b), below that  *)
(* operand's len.  EVERY environment.                                        *)
(* ---------------------------------------------------------------------- *)
Section AlgebraInside.
Context {K Q T : Type} (E : env K unit Q T).
Notation M := (M K unit T). Notation world := (world K unit T). Notation smap := (map K unit).

(* the pure selection of Algebra.v only lists slots of the left operand *)
Lemma sel_In_inside (ck : K -> N) (a b : smap) want lo n i :
  WF a -> In i (sel ck a b want lo n) -> lo + n <= len a -> i < len a /\ inside a i.
Proof.
  intros Ha Hin Hn. apply sel_In in Hin. destruct Hin as [Hr _].
  assert (Hi : i < len a) by lia. split; [exact Hi | apply WF_inside; assumption].
Qed.

Definition side_inside (a b : smap) (x : bool * nat) : Prop :=
  inside (if fst x then b else a) (snd x).
Definition opt_side_inside (a b : smap) (o : option (bool * nat)) : Prop :=
  match o with Some x => side_inside a b x | None => True end.

Lemma diff_next_inside (a b : smap) (c : cursor) (w : world) :
  WF a -> WF b -> snd c <= len a -> fst c <= snd c ->
  wp (diff_next E a b c)
     (fun r w' => self w' = self w /\ snd (snd r) <= len a /\ fst (snd r) <= snd (snd r) /\
                  opt_inside a (fst r))
     (fun w' => self w' = self w) w.
Proof.
  intros Ha Hb H1 H2.
  eapply wp_mono; [apply diff_next_spec; eassumption | |]; cbn beta; [|auto].
  intros r w' (Hs & Hr1 & Hr2 & Hr3). split; [exact Hs|]. split; [exact Hr1|]. split; [exact Hr2|].
  destruct (fst r) as [i|]; cbn [opt_inside]; [apply WF_inside; [exact Ha | lia] | exact I].
Qed.

Lemma inter_next_inside (a b : smap) (c : cursor) (w : world) :
  WF a -> WF b -> snd c <= len a -> fst c <= snd c ->
  wp (inter_next E a b c)
     (fun r w' => self w' = self w /\ snd (snd r) <= len a /\ fst (snd r) <= snd (snd r) /\
                  opt_inside a (fst r))
     (fun w' => self w' = self w) w.
Proof.
  intros Ha Hb H1 H2.
  eapply wp_mono; [apply inter_next_spec; eassumption | |]; cbn beta; [|auto].
  intros r w' (Hs & Hr1 & Hr2 & Hr3). split; [exact Hs|]. split; [exact Hr1|]. split; [exact Hr2|].
  destruct (fst r) as [i|]; cbn [opt_inside]; [apply WF_inside; [exact Ha | lia] | exact I].
Qed.

(* the back half of a chain: a difference over operand x, items tagged [tag] *)
Lemma back_step_inside (x y : smap) (bk : cursor) (tag : bool) (la : nat) (w : world) :
  WF x -> WF y -> fst bk <= snd bk -> snd bk <= len x ->
  wp ('(r2, k') <- diff_next E x y bk ;;
      ret (option_map (fun i => (tag, i)) r2, {| front := None; back := k' |}))
     (fun r w' => self w' = self w /\ chain_ok la (len x) (snd r) /\
                  match fst r with Some z => fst z = tag /\ inside x (snd z) | None => True end)
     (fun w' => self w' = self w) w.
Proof.
  intros Hx Hy H1 H2. apply wp_bind.
  eapply wp_mono; [apply diff_next_inside; [exact Hx | exact Hy | exact H2 | exact H1] | |]; cbn beta; [|auto].
  intros [r2 k'] w' (Hs & Ha & Hb & Hi). cbn [fst snd] in *. apply wp_ret.
  split; [exact Hs|]. split; [unfold chain_ok; cbn [snd front back]; auto|].
  destruct r2 as [i|]; cbn [option_map fst snd opt_inside] in *; auto.
Qed.

Lemma union_next_inside (a b : smap) (u : chain) (w : world) :
  WF a -> WF b -> chain_ok (len b) (len a) u ->
  wp (union_next E a b u)
     (fun r w' => self w' = self w /\ chain_ok (len b) (len a) (snd r) /\ opt_side_inside a b (fst r))
     (fun w' => self w' = self w) w.
Proof.
  intros Ha Hb Hu. destruct u as [fr bk]. unfold chain_ok in Hu. cbn [front back] in Hu.
  destruct Hu as (Hf & Hk1 & Hk2). unfold union_next. cbn [front back].
  assert (Hback : forall w1 : world, self w1 = self w ->
    wp ('(r2, k') <- diff_next E a b bk ;;
        ret (option_map (fun i => (false, i)) r2, {| front := None; back := k' |}))
       (fun r w' => self w' = self w /\ chain_ok (len b) (len a) (snd r) /\ opt_side_inside a b (fst r))
       (fun w' => self w' = self w) w1).
  { intros w1 Hs1.
    eapply wp_mono; [apply (back_step_inside a b bk false (len b) w1); assumption | |]; cbn beta.
    - intros r w2 (Hs2 & Hok & Hi). split; [congruence|]. split; [exact Hok|].
      destruct (fst r) as [[t i]|]; cbn [opt_side_inside]; [|exact I].
      cbn [fst snd] in Hi. destruct Hi as [-> Hi]. exact Hi.
    - intros w2 Hs2. congruence. }
  destruct fr as [c|]; [|apply Hback; reflexivity].
  destruct Hf as [Hc1 Hc2]. apply wp_bind.
  eapply wp_mono; [apply siter_next_spec; [exact Hb | exact Hc1 | exact Hc2] | |]; cbn beta; [|auto].
  intros [r c'] w1 [Hs1 Hr]. cbn [fst snd] in Hr. destruct r as [i|].
  - destruct Hr as [Hi ->]. apply wp_ret. cbn [fst snd]. split; [exact Hs1|].
    split; [unfold chain_ok; cbn [front back fst snd]; lia|].
    unfold opt_side_inside, side_inside. cbn [fst snd]. apply WF_inside; [exact Hb | lia].
  - apply Hback. exact Hs1.
Qed.

Lemma symdiff_next_inside (a b : smap) (u : chain) (w : world) :
  WF a -> WF b -> chain_ok (len a) (len b) u ->
  wp (symdiff_next E a b u)
     (fun r w' => self w' = self w /\ chain_ok (len a) (len b) (snd r) /\ opt_side_inside a b (fst r))
     (fun w' => self w' = self w) w.
Proof.
  intros Ha Hb Hu. destruct u as [fr bk]. unfold chain_ok in Hu. cbn [front back] in Hu.
  destruct Hu as (Hf & Hk1 & Hk2). unfold symdiff_next. cbn [front back].
  assert (Hback : forall w1 : world, self w1 = self w ->
    wp ('(r2, k') <- diff_next E b a bk ;;
        ret (option_map (fun i => (true, i)) r2, {| front := None; back := k' |}))
       (fun r w' => self w' = self w /\ chain_ok (len a) (len b) (snd r) /\ opt_side_inside a b (fst r))
       (fun w' => self w' = self w) w1).
  { intros w1 Hs1.
    eapply wp_mono; [apply (back_step_inside b a bk true (len a) w1); assumption | |]; cbn beta.
    - intros r w2 (Hs2 & Hok & Hi). split; [congruence|]. split; [exact Hok|].
      destruct (fst r) as [[t i]|]; cbn [opt_side_inside]; [|exact I].
      cbn [fst snd] in Hi. destruct Hi as [-> Hi]. exact Hi.
    - intros w2 Hs2. congruence. }
  destruct fr as [c|]; [|apply Hback; reflexivity].
  destruct Hf as [Hc1 Hc2]. apply wp_bind.
  eapply wp_mono; [apply diff_next_inside; [exact Ha | exact Hb | exact Hc2 | exact Hc1] | |]; cbn beta; [|auto].
  intros [r c'] w1 (Hs1 & Hr1 & Hr2 & Hr3). cbn [fst snd] in *. destruct r as [i|].
  - apply wp_ret. cbn [fst snd]. split; [exact Hs1|].
    split; [unfold chain_ok; cbn [front back fst snd]; lia|]. exact Hr3.
  - apply Hback. exact Hs1.
Qed.

End AlgebraInside.

(* ====================================================================== *)
(* Part B (C09): borrowing iterators                                       *)
(* ====================================================================== *)
Section IterMore.
Context {K V Q T : Type} (E : env K V Q T) (debug : bool).
Notation M := (M K V T). Notation world := (world K V T). Notation map := (map K V). Notation kv := (K * V)%type.

(* ---- B1. len() / size_hint(): the model's observation is cursor_len of the
   iterator's cursor (Exec.iter_steps emits it three times before every step:
   len, size_hint lower, size_hint upper).  After j steps of the actual
   session it is exactly the number of items still to come. ---- *)
Definition iter_len (c : cursor) : M nat := ret (cursor_len c).
Definition iter_size_hint (c : cursor) : M (nat * option nat) := ret (cursor_len c, Some (cursor_len c)).

Lemma iter_len_after j (w : world) :
  WF (self w) ->
  wp (c <- iter ;; r <- iter_run j c ;; n <- iter_len (snd r) ;; h <- iter_size_hint (snd r) ;; ret (n, h))
     (fun x w' => w' = w /\
                  fst x = len (self w) - Nat.min j (len (self w)) /\
                  snd x = (len (self w) - Nat.min j (len (self w)),
                           Some (len (self w) - Nat.min j (len (self w)))))
     (fun _ => False) w.
Proof.
  intros Hw.
  apply (wp_bind_assoc iter (fun c => iter_run j c)
           (fun r => n <- iter_len (snd r) ;; h <- iter_size_hint (snd r) ;; ret (n, h))).
  apply wp_bind.
  eapply wp_mono; [apply iter_run_exact; exact Hw | | auto]; cbn beta.
  intros r w' (-> & _ & Hc). unfold iter_len, iter_size_hint.
  apply wp_bind. apply wp_ret. apply wp_bind. apply wp_ret. apply wp_ret.
  rewrite Hc. unfold cursor_len. cbn [fst snd]. auto.
Qed.

(* ---- count(): consumes the iterator (calls next() until None) and returns
   the number of items it saw ---- *)
Definition iter_count (c : cursor) : M (nat * cursor) :=
  r <- iter_run (S (cursor_len c)) c ;; ret (length (fst r), snd r).

Lemma iter_count_from lo hi (w : world) :
  WF (self w) -> lo <= hi -> hi <= len (self w) ->
  wp (iter_count (lo, hi))
     (fun x w' => w' = w /\ fst x = hi - lo /\ snd x = (hi, hi))
     (fun _ => False) w.
Proof.
  intros Hw H1 H2. unfold iter_count. apply wp_bind.
  eapply wp_mono; [apply (iter_continue_from (S (cursor_len (lo, hi))) lo hi w Hw H1 H2) | | auto]; cbn beta.
  intros r w' (-> & Hr & Hc). apply wp_ret. cbn [fst snd].
  unfold cursor_len in *. cbn [fst snd] in *.
  replace (Nat.min (S (hi - lo)) (hi - lo)) with (hi - lo) in * by lia.
  split; [reflexivity|]. split; [rewrite Hr; apply seq_length | rewrite Hc; f_equal; lia].
Qed.

(* after j steps of the session, count() returns exactly len - min j len, has
   consumed the rest (cursor (len,len): len() = 0), and next() then returns None *)
Lemma iter_count_after j (w : world) :
  WF (self w) ->
  wp (c <- iter ;; r <- iter_run j c ;; x <- iter_count (snd r) ;; y <- iter_next (snd x) ;; ret (x, fst y))
     (fun z w' => w' = w /\
                  fst (fst z) = len (self w) - Nat.min j (len (self w)) /\
                  snd (fst z) = (len (self w), len (self w)) /\
                  cursor_len (snd (fst z)) = 0 /\ snd z = None)
     (fun _ => False) w.
Proof.
  intros Hw.
  apply (wp_bind_assoc iter (fun c => iter_run j c)
           (fun r => x <- iter_count (snd r) ;; y <- iter_next (snd x) ;; ret (x, fst y))).
  apply wp_bind.
  eapply wp_mono; [apply iter_run_exact; exact Hw | | auto]; cbn beta.
  intros r w' (-> & _ & Hc). rewrite Hc. apply wp_bind.
  pose proof (Nat.le_min_r j (len (self w))) as Hm.
  eapply wp_mono; [apply (iter_count_from _ _ w Hw Hm (Nat.le_refl _)) | | auto]; cbn beta.
  intros x w1 (-> & Hx1 & Hx2). rewrite Hx2. apply wp_bind.
  eapply wp_mono; [apply (iter_next_exact (len (self w)) (len (self w)) w Hw (Nat.le_refl _)) | | auto]; cbn beta.
  intros y w2 (-> & ->). rewrite Nat.ltb_irrefl. apply wp_ret. cbn [fst snd].
  split; [reflexivity|]. split; [exact Hx1|]. split; [exact Hx2|]. rewrite Hx2.
  split; [unfold cursor_len; cbn [fst snd]; lia | reflexivity].
Qed.

(* ---- B2. Clone of a borrowing iterator: Iter/Keys/Values/SetIter hold a
   slice iterator; Clone copies it.  In the model the iterator IS its cursor,
   so the clone is a copy of the cursor value. ---- *)
Definition iter_clone (c : cursor) : M cursor := ret c.

(* after j steps, clone; run the clone n steps, then the original m steps:
   the clone yields what the original would have yielded (the next slots in
   order), the original's position is untouched by running the clone, and when
   both are run equally far they give the same result *)
Lemma iter_clone_continues j n m (w : world) :
  WF (self w) ->
  wp (c0 <- iter ;; r <- iter_run j c0 ;;
      c' <- iter_clone (snd r) ;;
      rc <- iter_run n c' ;;
      l <- iter_len (snd r) ;;
      ro <- iter_run m (snd r) ;;
      ret (rc, l, ro))
     (fun x w' =>
        let pos := Nat.min j (len (self w)) in
        let rest := len (self w) - pos in
        w' = w /\
        fst (fst (fst x)) = seq pos (Nat.min n rest) /\
        snd (fst (fst x)) = (pos + Nat.min n rest, len (self w)) /\
        snd (fst x) = rest /\
        fst (snd x) = seq pos (Nat.min m rest) /\
        snd (snd x) = (pos + Nat.min m rest, len (self w)) /\
        (n = m -> fst (fst x) = snd x))
     (fun _ => False) w.
Proof.
  intros Hw.
  apply (wp_bind_assoc iter (fun c => iter_run j c)
           (fun r => c' <- iter_clone (snd r) ;; rc <- iter_run n c' ;; l <- iter_len (snd r) ;;
                     ro <- iter_run m (snd r) ;; ret (rc, l, ro))).
  apply wp_bind.
  eapply wp_mono; [apply iter_run_exact; exact Hw | | auto]; cbn beta.
  intros r w' (-> & _ & Hc). rewrite Hc. unfold iter_clone, iter_len.
  pose proof (Nat.le_min_r j (len (self w))) as Hm.
  apply wp_bind. apply wp_ret. apply wp_bind.
  eapply wp_mono; [apply (iter_continue_from n _ _ w Hw Hm (Nat.le_refl _)) | | auto]; cbn beta.
  intros rc w1 (-> & Hc1 & Hc2). apply wp_bind. apply wp_ret. apply wp_bind.
  eapply wp_mono; [apply (iter_continue_from m _ _ w Hw Hm (Nat.le_refl _)) | | auto]; cbn beta.
  intros ro w2 (-> & Ho1 & Ho2). apply wp_ret. cbv zeta. cbn [fst snd].
  split; [reflexivity|]. split; [exact Hc1|]. split; [exact Hc2|].
  split; [unfold cursor_len; reflexivity|]. split; [exact Ho1|]. split; [exact Ho2|].
  intros ->. destruct rc, ro. cbn [fst snd] in *. congruence.
Qed.

(* ---- B3. a write through the reference iter_mut / values_mut yielded last
   is exactly what a later lookup returns.  [write_val i f] is the in-place
   modification  [r := f r]  of the VALUE of slot i through the &mut V handed
   out (Exec.set_dat is the instance f v = {| vid := vid v; vdat := d |}). ---- *)
Definition write_val (i : nat) (f : V -> V) : M unit :=
  _ <- p_replace i (fun p => (fst p, f (snd p))) ;; ret tt.

Lemma find_idx_upd_key (ck : K -> N) c (l : list kv) : forall i k v v',
  nth_error l i = Some (k, v) -> find_idx ck c (upd l i (k, v')) = find_idx ck c l.
Proof.
  induction l as [|h t IH]; intros [|i] k v v' H; cbn [nth_error] in H; try discriminate.
  - injection H as ->. reflexivity.
  - cbn [upd find_idx]. rewrite (IH i k v v' H). reflexivity.
Qed.

Lemma find_idx_uniq_nth (ck : K -> N) (l : list kv) i p :
  Uniq ck l -> nth_error l i = Some p -> find_idx ck (ck (fst p)) l = Some i.
Proof.
  intros Hu Hp. apply (find_idx_some ck _ l i p Hp eq_refl).
  intros j q Hj Hq Heq. unfold Uniq in Hu.
  assert (Hlen : i < length l) by (apply nth_error_Some; rewrite Hp; discriminate).
  assert (Hji : j = i).
  { apply (proj1 (NoDup_nth (List.map (fun p => ck (fst p)) l) 0%N) Hu); rewrite ?map_length; try lia.
    rewrite (nth_error_nth _ _ 0%N (map_nth_error (fun p => ck (fst p)) j l Hq)).
    rewrite (nth_error_nth _ _ 0%N (map_nth_error (fun p => ck (fst p)) i l Hp)). exact Heq. }
  lia.
Qed.

Lemma write_val_exact i f k v (w : world) :
  WF (self w) -> nth_error (Spec.elems (self w)) i = Some (k, v) ->
  wp (write_val i f)
     (fun _ w' => w' = with_self w (set_slot_m (self w) i (Some (k, f v))) /\
                  WF (self w') /\ cap (self w') = cap (self w) /\ len (self w') = len (self w) /\
                  Spec.elems (self w') = upd (Spec.elems (self w)) i (k, f v))
     (fun _ => False) w.
Proof.
  intros Hw Hp. destruct (elems_nth_slot _ _ _ Hw Hp) as [Hi Hsl].
  unfold write_val. apply wp_bind. eapply wp_p_replace; [exact Hsl|]. apply wp_ret. cbn [fst snd].
  split; [reflexivity|]. simp_w.
  destruct (writes_visible i (f v) w Hw Hi k v Hp) as [He Hwf].
  split; [exact Hwf|]. split; [apply cap_set_slot|]. split; [reflexivity | exact He].
Qed.

(* the composition asked for: take S i items from iter_mut(), write through the
   last one, then look the key up: the lookup returns that slot and the slot
   holds the written value; every other entry is unchanged and every lookup
   still lands on the slot it landed on before *)
Lemma iter_mut_write_then_get (ck : K -> N) (cq : Q -> N) (HL : Lawful E ck cq)
      i (f : V -> V) q k v (w : world) :
  WF (self w) -> Uniq ck (Spec.elems (self w)) ->
  nth_error (Spec.elems (self w)) i = Some (k, v) -> cq q = ck k ->
  wp (c <- iter ;; r <- iter_run (S i) c ;;
      write_val (last (fst r) 0) f ;;
      o <- get E q ;;
      match o with
      | Some x => p <- p_ref x ;; ret (Some (x, p))
      | None => ret None
      end)
     (fun res w' =>
        res = Some (i, (k, f v)) /\
        WF (self w') /\ cap (self w') = cap (self w) /\ log w' = log w /\
        Spec.elems (self w') = upd (Spec.elems (self w)) i (k, f v) /\
        (forall j, j <> i -> nth_error (Spec.elems (self w')) j = nth_error (Spec.elems (self w)) j) /\
        (forall c, find_idx ck c (Spec.elems (self w')) = find_idx ck c (Spec.elems (self w))))
     (fun _ => False) w.
Proof.
  intros Hw Hu Hp Hq. destruct (elems_nth_slot _ _ _ Hw Hp) as [Hi Hsl].
  apply (wp_bind_assoc iter (fun c => iter_run (S i) c)
           (fun r => write_val (last (fst r) 0) f ;; o <- get E q ;;
                     match o with Some x => p <- p_ref x ;; ret (Some (x, p)) | None => ret None end)).
  apply wp_bind.
  eapply wp_mono; [apply iter_run_exact; exact Hw | | auto]; cbn beta.
  intros r w0 (-> & Hr & _).
  replace (Nat.min (S i) (len (self w))) with (S i) in Hr by lia.
  assert (Hlast : last (fst r) 0 = i).
  { rewrite Hr, seq_S. cbn [Nat.add]. apply last_last. }
  rewrite Hlast. apply wp_bind.
  eapply wp_mono; [apply (write_val_exact i f k v w Hw Hp) | | auto]; cbn beta.
  intros _ w1 (Hw1eq & Hw1 & Hc1 & Hl1 & He1).
  assert (Hlog1 : log w1 = log w) by (rewrite Hw1eq; reflexivity).
  assert (Hfind : forall c, find_idx ck c (Spec.elems (self w1)) = find_idx ck c (Spec.elems (self w))).
  { intros c. rewrite He1. apply (find_idx_upd_key ck c _ i k v (f v) Hp). }
  apply wp_bind.
  eapply wp_mono; [apply (get_lawful E ck cq HL q w1 Hw1) | | auto]; cbn beta.
  intros o w2 ([Hs2 Hl2] & ->). rewrite Hfind, Hq.
  change (ck k) with (ck (fst (k, v))). rewrite (find_idx_uniq_nth ck _ i (k, v) Hu Hp).
  assert (Hsl2 : nth_error (slots (self w2)) i = Some (Some (k, f v))).
  { rewrite Hs2, Hw1eq. simp_w. apply nth_error_upd_eq.
    apply nth_error_Some. rewrite Hsl. discriminate. }
  apply wp_bind. eapply wp_p_ref; [exact Hsl2|]. apply wp_ret.
  split; [reflexivity|]. rewrite Hs2.
  split; [exact Hw1|]. split; [exact Hc1|]. split; [congruence|]. split; [exact He1|].
  split; [|exact Hfind].
  intros j Hj. rewrite He1. apply nth_error_upd_neq. auto.
Qed.

End IterMore.

(* ---------------------------------------------------------------------- *)
(* B4. the interpreter's iterator sessions (Model/Exec.v): what is observed  *)
(* at every step, for each of the kinds 0 iter | 1 iter_mut | 2 keys |       *)
(* 3 values | 4 values_mut, and for Set::iter                                *)
(* ---------------------------------------------------------------------- *)
Section ExecIter.
Notation mworld := (world key vobj cstate).
Notation sworld := (world key unit cstate).

(* the projection each kind hands to the caller *)
Lemma r_item_kinds (p : key * vobj) :
  r_item 0 p = r_pair p /\ r_item 1 p = r_pair p /\ r_item 2 p = r_key (fst p) /\
  r_item 3 p = r_val (snd p) /\ r_item 4 p = r_val (snd p) /\
  is_mut_kind 0 = false /\ is_mut_kind 1 = true /\ is_mut_kind 2 = false /\
  is_mut_kind 3 = false /\ is_mut_kind 4 = true.
Proof. repeat split; reflexivity. Qed.

(* what a session of n steps from cursor (lo,hi) over slots sl reports: before
   EVERY step the three numbers len(), size_hint().0, size_hint().1 are all
   hi - lo = the number of items still to come; then 1, the slot and the kind's
   projection of the pair stored there, or 0 once exhausted (and again 0,
   with hints 0, at every later step) *)
Fixpoint steps_obs {V} (item : key * V -> list N) (sl : list (option (key * V))) (n lo hi : nat) : list N :=
  match n with
  | 0 => []
  | S n' =>
      let l := nn (hi - lo) in
      if lo <? hi then
        match nth_error sl lo with
        | Some (Some p) => [l; l; l; 1%N; nn lo] ++ item p ++ steps_obs item sl n' (S lo) hi
        | _ => []
        end
      else [l; l; l; 0%N] ++ steps_obs item sl n' lo hi
  end.

Lemma steps_obs_ext {V} (item : key * V -> list N) (sl sl' : list (option (key * V))) hi : forall n lo,
  (forall i, lo <= i -> nth_error sl i = nth_error sl' i) ->
  steps_obs item sl n lo hi = steps_obs item sl' n lo hi.
Proof.
  induction n as [|n IH]; intros lo H; cbn [steps_obs]; [reflexivity|].
  rewrite (H lo (Nat.le_refl _)). rewrite (IH (S lo)) by (intros i Hi; apply H; lia).
  rewrite (IH lo H). reflexivity.
Qed.

(* the value iter_mut / values_mut write: payload replaced, object kept *)
Definition dat_set (d : N) (p : key * vobj) : key * vobj :=
  (fst p, {| vid := vid (snd p); vdat := d |}).

Lemma set_dat_is_write_val i d :
  set_dat i d = write_val (T := cstate) i (fun v => {| vid := vid v; vdat := d |}).
Proof. reflexivity. Qed.

Lemma set_dat_exact i d p (w : mworld) :
  nth_error (slots (self w)) i = Some (Some p) ->
  wp (set_dat i d) (fun _ w' => w' = with_self w (set_slot_m (self w) i (Some (dat_set d p))))
     (fun _ => False) w.
Proof.
  intros Hp. unfold set_dat. apply wp_bind. eapply wp_p_replace; [exact Hp|]. apply wp_ret. reflexivity.
Qed.

(* Exec.iter_steps, every kind: the observations are steps_obs with the kind's
   projection r_item, the cursor advances by the number of items yielded;
   kinds 0,2,3 leave the world untouched; kinds 1 and 4 (iter_mut, values_mut)
   write wd+j through the reference yielded at step j into exactly that slot:
   every slot outside the yielded range is untouched, every yielded slot keeps
   its key and object and gets the new payload *)
Lemma iter_steps_obs kind wd : forall n j lo hi acc (w : mworld),
  WF (self w) -> hi <= len (self w) ->
  wp (iter_steps kind wd n j (lo, hi) acc)
     (fun r w' =>
        let m := Nat.min n (hi - lo) in
        fst r = acc ++ steps_obs (r_item kind) (slots (self w)) n lo hi /\
        snd r = (lo + m, hi) /\
        cb w' = cb w /\ log w' = log w /\ WF (self w') /\
        len (self w') = len (self w) /\ cap (self w') = cap (self w) /\
        (is_mut_kind kind = false -> w' = w) /\
        (forall i, i < lo \/ lo + m <= i ->
           nth_error (slots (self w')) i = nth_error (slots (self w)) i) /\
        (forall i p, lo <= i < lo + m -> nth_error (slots (self w)) i = Some (Some p) ->
           nth_error (slots (self w')) i =
             Some (Some (if is_mut_kind kind then dat_set (wd + nn (j + (i - lo))) p else p))))
     (fun _ => False) w.
Proof.
  induction n as [|n IH]; intros j lo hi acc w Hw Hhi; cbn [iter_steps steps_obs].
  - apply wp_ret. cbv zeta. cbn [fst snd]. rewrite Nat.min_0_l, Nat.add_0_r, app_nil_r.
    split; [reflexivity|]. split; [reflexivity|]. split; [reflexivity|]. split; [reflexivity|].
    split; [exact Hw|]. split; [reflexivity|]. split; [reflexivity|]. split; [reflexivity|].
    split; [reflexivity|]. intros i p Hi. lia.
  - cbv zeta. apply wp_bind.
    eapply wp_mono; [apply (iter_next_exact lo hi w Hw Hhi) | | auto]; cbn beta.
    intros r0 w0 [-> ->]. unfold cursor_len. cbn [fst snd].
    destruct (Nat.ltb_spec lo hi) as [Hlt|Hge]; cbv beta iota.
    + assert (Hlo : lo < len (self w)) by lia.
      destruct (WF_live _ _ Hw Hlo) as [p Hp]. rewrite Hp.
      apply wp_bind. eapply wp_p_ref; [exact Hp|]. apply wp_bind.
      set (acc' := acc ++ [nn (hi - lo); nn (hi - lo); nn (hi - lo); 1%N; nn lo] ++ r_item kind p).
      replace (Nat.min (S n) (hi - lo)) with (S (Nat.min n (hi - S lo))) by lia.
      set (m' := Nat.min n (hi - S lo)).
      destruct (is_mut_kind kind) eqn:Hmut.
      * eapply wp_mono; [apply (set_dat_exact lo (wd + nn j) p w Hp) | | auto]; cbn beta.
        intros _ w2 ->.
        set (w2 := with_self w (set_slot_m (self w) lo (Some (dat_set (wd + nn j) p)))).
        assert (Hcap : lo < cap (self w)) by (pose proof (WF_len_le_cap _ Hw); lia).
        assert (Hw2 : WF (self w2)) by (apply WF_set_slot_some; assumption).
        assert (Hsl2 : forall i, i <> lo -> nth_error (slots (self w2)) i = nth_error (slots (self w)) i).
        { intros i Hi. unfold w2. simp_w. apply nth_error_upd_neq. auto. }
        eapply wp_mono; [apply (IH (S j) (S lo) hi acc' w2 Hw2); exact Hhi | | auto]; cbn beta.
        intros r w3. cbv zeta. fold m'.
        intros (H1 & H2 & H3 & H4 & H5 & H6 & H7 & _ & H9 & H10).
        split.
        { rewrite (steps_obs_ext (r_item kind) (slots (self w2)) (slots (self w)) hi n (S lo)) in H1
            by (intros i Hi; apply Hsl2; lia).
          rewrite H1. unfold acc'. rewrite <- !app_assoc. reflexivity. }
        split; [rewrite H2; f_equal; lia|].
        split; [exact H3|]. split; [exact H4|]. split; [exact H5|].
        split; [exact H6|]. split; [rewrite H7; apply cap_set_slot|].
        split; [discriminate|]. split.
        { intros i Hi. rewrite H9 by lia. apply Hsl2. lia. }
        { intros i p0 Hi Hp0. destruct (Nat.eq_dec i lo) as [->|Hne].
          - rewrite Hp in Hp0. injection Hp0 as <-. rewrite H9 by lia.
            unfold w2. simp_w. rewrite Nat.sub_diag, Nat.add_0_r.
            apply nth_error_upd_eq. fold (cap (self w)). exact Hcap.
          - rewrite (H10 i p0); [|lia|rewrite Hsl2 by exact Hne; exact Hp0].
            replace (S j + (i - S lo)) with (j + (i - lo)) by lia. reflexivity. }
      * apply wp_ret.
        eapply wp_mono; [apply (IH (S j) (S lo) hi acc' w Hw); exact Hhi | | auto]; cbn beta.
        intros r w3. cbv zeta. fold m'.
        intros (H1 & H2 & H3 & H4 & H5 & H6 & H7 & H8 & H9 & H10).
        split.
        { rewrite H1. unfold acc'. rewrite <- !app_assoc. reflexivity. }
        split; [rewrite H2; f_equal; lia|].
        split; [exact H3|]. split; [exact H4|]. split; [exact H5|].
        split; [exact H6|]. split; [exact H7|].
        split; [exact H8|]. split.
        { intros i Hi. apply H9. lia. }
        { intros i p0 Hi Hp0. rewrite (H8 eq_refl). exact Hp0. }
    + replace (Nat.min (S n) (hi - lo)) with 0 by lia.
      eapply wp_mono; [apply (IH (S j) lo hi _ w Hw Hhi) | | auto]; cbn beta.
      intros r w3. cbv zeta. replace (Nat.min n (hi - lo)) with 0 by lia.
      intros (H1 & H2 & H3 & H4 & H5 & H6 & H7 & H8 & H9 & H10).
      split; [rewrite H1, <- app_assoc; reflexivity|]. repeat (split; [assumption|]). intros i p0 Hi. lia.
Qed.

(* one step read off: the rendered item is the kind's projection of the pair
   stored in the yielded slot *)
Lemma steps_obs_step {V} (item : key * V -> list N) sl lo hi p :
  lo < hi -> nth_error sl lo = Some (Some p) ->
  steps_obs item sl 1 lo hi = [nn (hi - lo); nn (hi - lo); nn (hi - lo); 1%N; nn lo] ++ item p.
Proof.
  intros Hlt Hp. cbn [steps_obs]. destruct (Nat.ltb_spec lo hi); [|lia]. rewrite Hp, app_nil_r. reflexivity.
Qed.

Lemma steps_obs_end {V} (item : key * V -> list N) sl lo hi :
  hi <= lo -> steps_obs item sl 1 lo hi = [0%N; 0%N; 0%N; 0%N].
Proof.
  intros Hge. cbn [steps_obs]. destruct (Nat.ltb_spec lo hi); [lia|].
  replace (hi - lo) with 0 by lia. reflexivity.
Qed.

(* Set::iter: the key of the pair (k, ()) stored in the yielded slot *)
Lemma set_iter_steps_obs : forall n lo hi acc (w : sworld),
  WF (self w) -> hi <= len (self w) ->
  wp (set_iter_steps n (lo, hi) acc)
     (fun r w' => w' = w /\
        fst r = acc ++ steps_obs (fun p : key * unit => r_key (fst p)) (slots (self w)) n lo hi /\
        snd r = (lo + Nat.min n (hi - lo), hi))
     (fun _ => False) w.
Proof.
  induction n as [|n IH]; intros lo hi acc w Hw Hhi; cbn [set_iter_steps steps_obs].
  - apply wp_ret. cbn [fst snd]. rewrite Nat.min_0_l, Nat.add_0_r, app_nil_r. auto.
  - cbv zeta. apply wp_bind.
    eapply wp_mono; [apply (iter_next_exact lo hi w Hw Hhi) | | auto]; cbn beta.
    intros r0 w0 [-> ->]. unfold cursor_len. cbn [fst snd].
    destruct (Nat.ltb_spec lo hi) as [Hlt|Hge]; cbv beta iota.
    + assert (Hlo : lo < len (self w)) by lia.
      destruct (WF_live _ _ Hw Hlo) as [p Hp]. rewrite Hp.
      apply wp_bind. eapply wp_p_ref; [exact Hp|].
      eapply wp_mono; [apply (IH (S lo) hi _ w Hw Hhi) | | auto]; cbn beta.
      intros r w3 (-> & H1 & H2). split; [reflexivity|].
      split; [rewrite H1, <- !app_assoc; reflexivity|]. rewrite H2. f_equal. lia.
    + eapply wp_mono; [apply (IH lo hi _ w Hw Hhi) | | auto]; cbn beta.
      intros r w3 (-> & H1 & H2). split; [reflexivity|].
      split; [rewrite H1, <- app_assoc; reflexivity|]. rewrite H2. f_equal. lia.
Qed.

(* Exec.rest_slots = consuming a clone of the iterator: it yields exactly the
   slots the original still has to yield, and does not move the original *)
Lemma rest_slots_exact : forall n lo (w : mworld),
  WF (self w) -> lo + n <= len (self w) ->
  wp (rest_slots n lo) (fun r w' => w' = w /\ r = List.map nn (seq lo n)) (fun _ => False) w.
Proof.
  induction n as [|n IH]; intros lo w Hw Hn; cbn [rest_slots].
  - apply wp_ret. auto.
  - assert (Hlo : lo < len (self w)) by lia.
    destruct (WF_live _ _ Hw Hlo) as [p Hp].
    apply wp_bind. eapply wp_p_ref; [exact Hp|]. apply wp_bind.
    eapply wp_mono; [apply (IH (S lo) w Hw); lia | | auto]; cbn beta.
    intros r w' [-> ->]. apply wp_ret. auto.
Qed.

Lemma rest_slots_s_exact : forall n lo (w : sworld),
  WF (self w) -> lo + n <= len (self w) ->
  wp (rest_slots_s n lo) (fun r w' => w' = w /\ r = List.map nn (seq lo n)) (fun _ => False) w.
Proof.
  induction n as [|n IH]; intros lo w Hw Hn; cbn [rest_slots_s].
  - apply wp_ret. auto.
  - assert (Hlo : lo < len (self w)) by lia.
    destruct (WF_live _ _ Hw Hlo) as [p Hp].
    apply wp_bind. eapply wp_p_ref; [exact Hp|]. apply wp_bind.
    eapply wp_mono; [apply (IH (S lo) w Hw); lia | | auto]; cbn beta.
    intros r w' [-> ->]. apply wp_ret. auto.
Qed.

(* the clone consumed by rest_slots yields what the original would yield *)
Lemma rest_slots_is_clone_run lo hi (w : mworld) :
  WF (self w) -> lo <= hi -> hi <= len (self w) ->
  wp (c' <- iter_clone (lo, hi) ;; r <- iter_run (cursor_len c') c' ;;
      rest <- rest_slots (cursor_len (lo, hi)) (fst (lo, hi)) ;; ret (r, rest))
     (fun x w' => w' = w /\ snd x = List.map nn (fst (fst x)) /\
                  fst (fst x) = seq lo (hi - lo) /\ length (snd x) = cursor_len (lo, hi))
     (fun _ => False) w.
Proof.
  intros Hw H1 H2. unfold iter_clone. apply wp_bind. apply wp_ret. apply wp_bind.
  unfold cursor_len. cbn [fst snd].
  eapply wp_mono; [apply (iter_continue_from (hi - lo) lo hi w Hw H1 H2) | | auto]; cbn beta.
  intros r w1 (-> & Hr & _). rewrite Nat.min_id in Hr. apply wp_bind.
  eapply wp_mono; [apply (rest_slots_exact (hi - lo) lo w Hw); lia | | auto]; cbn beta.
  intros rest w2 [-> ->]. apply wp_ret. cbn [fst snd].
  split; [reflexivity|]. rewrite Hr. split; [reflexivity|]. split; [reflexivity|].
  rewrite map_length, seq_length. reflexivity.
Qed.

(* the whole interpreter session for the non-mutable kinds (iter, keys,
   values): per-step observations, then (after the two Debug renderings, which
   do not touch anything) count() of a clone = number of items still to come,
   the slots that clone yields = the next slots in order, and the original's
   len() afterwards is still that number; the world is unchanged *)
Lemma iter_session_obs kind steps wd (w : mworld) :
  WF (self w) -> is_mut_kind kind = false ->
  wp (iter_session kind steps wd)
     (fun r w' =>
        let pos := Nat.min steps (len (self w)) in
        let rest := len (self w) - pos in
        w' = w /\
        exists d0 d1,
          r = steps_obs (r_item kind) (slots (self w)) steps 0 (len (self w)) ++ d0 ++ d1 ++
              [nn rest] ++ List.map nn (seq pos rest) ++ [nn rest])
     (fun _ => False) w.
Proof.
  intros Hw Hk. unfold iter_session. apply wp_bind.
  eapply wp_mono; [apply iter_exact; exact Hw | | auto]; cbn beta.
  intros c w0 [-> ->]. apply wp_bind.
  eapply wp_mono; [apply (iter_steps_obs kind wd steps 0 0 (len (self w)) [] w Hw (Nat.le_refl _)) | | auto];
    cbn beta.
  intros [acc c'] w1. cbv zeta. cbn [fst snd]. rewrite Nat.sub_0_r.
  intros (Ha & Hc & _ & _ & _ & _ & _ & Hsame & _). rewrite (Hsame Hk). subst acc c'. cbn [Nat.add app].
  unfold dbg_iter at 1. apply wp_bind. unfold wp at 1. cbv beta iota.
  unfold dbg_iter at 1. apply wp_bind. unfold wp at 1. cbv beta iota.
  rewrite Hk. unfold cursor_len. cbn [fst snd]. apply wp_bind.
  pose proof (Nat.le_min_r steps (len (self w))) as Hm.
  eapply wp_mono; [apply (rest_slots_exact _ _ w Hw); lia | | auto]; cbn beta.
  intros rest w2 [-> ->]. apply wp_ret. cbv zeta. split; [reflexivity|].
  eexists. eexists. rewrite map_length, seq_length. reflexivity.
Qed.

End ExecIter.

(* ====================================================================== *)
(* Part C (C10): consuming iterators and drain                             *)
(* ====================================================================== *)
Section IntoMore.
Context {K V Q T : Type} (E : env K V Q T) (debug : bool).
Notation M := (M K V T). Notation world := (world K V T). Notation map := (map K V). Notation kv := (K * V)%type.

(* n calls of a next() function, stopping at the first None *)
Fixpoint proj_run {A} (next : M (option A)) (n : nat) : M (list A) :=
  match n with
  | 0 => ret []
  | S n' => o <- next ;;
            match o with None => ret [] | Some a => r <- proj_run next n' ;; ret (a :: r) end
  end.

(* one step of a projecting consuming iterator: pops the last entry p, logs
   [evs p] (the destruction of the half that is not handed out), yields
   [proj p]; it can only panic after the entry was popped and [evs p] logged *)
Definition proj_step {A} (proj : kv -> A) (evs : kv -> list event) (next : M (option A)) : Prop :=
  forall w : world, WF (self w) ->
    wp next
       (fun r w' => WF (self w') /\ cap (self w') = cap (self w) /\
          match r with
          | None => len (self w) = 0 /\ self w' = self w /\ log w' = log w
          | Some a => exists p, a = proj p /\ S (len (self w')) = len (self w) /\
                                Spec.elems (self w) = Spec.elems (self w') ++ [p] /\
                                log w' = log w ++ evs p
          end)
       (fun w' => WF (self w') /\ cap (self w') = cap (self w) /\
          exists p, S (len (self w')) = len (self w) /\
                    Spec.elems (self w) = Spec.elems (self w') ++ [p] /\
                    log w' = log w ++ evs p)
       w.

Lemma firstn_app_exact {A} (l1 l2 : list A) c : c <= length l1 -> firstn c (l1 ++ l2) = firstn c l1.
Proof.
  intros H. rewrite firstn_app. replace (c - length l1) with 0 by lia. cbn [firstn]. apply app_nil_r.
Qed.

(* n steps: the yielded objects are the projections of the entries in the
   consuming order (last slot first), the log grew by exactly the events of
   those entries, in that order, each once; what is left is a prefix.  When a
   destructor panics at step t, the entries 0..t were popped and their events
   logged, nothing else. *)
Lemma proj_run_spec {A} (proj : kv -> A) (evs : kv -> list event) (next : M (option A)) :
  proj_step proj evs next ->
  forall n (w : world), WF (self w) ->
    wp (proj_run next n)
       (fun r w' =>
          let took := firstn n (rev (Spec.elems (self w))) in
          r = List.map proj took /\ log w' = log w ++ flat_map evs took /\
          WF (self w') /\ cap (self w') = cap (self w) /\
          len (self w') = len (self w) - Nat.min n (len (self w)) /\
          Spec.elems (self w') = firstn (len (self w) - Nat.min n (len (self w))) (Spec.elems (self w)))
       (fun w' => exists t, t < Nat.min n (len (self w)) /\
          let took := firstn (S t) (rev (Spec.elems (self w))) in
          log w' = log w ++ flat_map evs took /\
          WF (self w') /\ cap (self w') = cap (self w) /\
          len (self w') = len (self w) - S t /\
          Spec.elems (self w') = firstn (len (self w) - S t) (Spec.elems (self w)))
       w.
Proof.
  intros Hstep. induction n as [|n IH]; intros w Hw; cbn [proj_run].
  - apply wp_ret. cbv zeta. cbn [firstn List.map flat_map]. rewrite app_nil_r, Nat.min_0_l, Nat.sub_0_r.
    split; [reflexivity|]. split; [reflexivity|]. split; [exact Hw|]. split; [reflexivity|].
    split; [reflexivity|]. rewrite <- (elems_length _ Hw). symmetry. apply firstn_all.
  - apply wp_bind. eapply wp_mono; [apply (Hstep w Hw) | |]; cbn beta.
    + intros [a|] w1 (Hw1 & Hc1 & H1).
      * destruct H1 as (p & -> & Hlen & He & Hlog).
        pose proof (elems_length _ Hw1) as HL1.
        assert (Hrev : rev (Spec.elems (self w)) = p :: rev (Spec.elems (self w1)))
          by (rewrite He, rev_app_distr; reflexivity).
        apply wp_bind. eapply wp_mono; [apply (IH w1 Hw1) | |]; cbn beta; cbv zeta.
        -- intros r w2 (Hr & Hlog2 & Hw2 & Hc2 & Hlen2 & He2). apply wp_ret.
           rewrite Hrev. cbn [firstn List.map flat_map].
           split; [rewrite Hr; reflexivity|].
           split; [rewrite Hlog2, Hlog, <- app_assoc; reflexivity|].
           split; [exact Hw2|]. split; [congruence|]. split; [lia|].
           rewrite He2, He.
           replace (len (self w) - Nat.min (S n) (len (self w)))
             with (len (self w1) - Nat.min n (len (self w1))) by lia.
           symmetry. apply firstn_app_exact. lia.
        -- intros w2 (t & Ht & Hlog2 & Hw2 & Hc2 & Hlen2 & He2). exists (S t).
           split; [lia|]. rewrite Hrev.
           change (firstn (S (S t)) (p :: rev (Spec.elems (self w1))))
             with (p :: firstn (S t) (rev (Spec.elems (self w1)))).
           cbn [flat_map].
           split; [rewrite Hlog2, Hlog, <- app_assoc; reflexivity|].
           split; [exact Hw2|]. split; [congruence|]. split; [lia|].
           rewrite He2, He. replace (len (self w) - S (S t)) with (len (self w1) - S t) by lia.
           symmetry. apply firstn_app_exact. lia.
      * destruct H1 as (Hlen & Hs & Hlog). apply wp_ret. cbv zeta.
        assert (Hnil : Spec.elems (self w) = []).
        { apply length_zero_iff_nil. rewrite (elems_length _ Hw). exact Hlen. }
        rewrite Hs, Hnil, Hlen, Hlog. cbn [rev]. rewrite !firstn_nil. cbn [List.map flat_map].
        rewrite app_nil_r. split; [reflexivity|]. split; [reflexivity|]. split; [exact Hw|].
        split; [reflexivity|]. split; [lia | reflexivity].
    + intros w1 (Hw1 & Hc1 & p & Hlen & He & Hlog). exists 0.
      pose proof (elems_length _ Hw1) as HL1.
      assert (Hrev : rev (Spec.elems (self w)) = p :: rev (Spec.elems (self w1)))
        by (rewrite He, rev_app_distr; reflexivity).
      split; [lia|]. cbv zeta. rewrite Hrev. cbn [firstn flat_map]. rewrite app_nil_r.
      split; [exact Hlog|]. split; [exact Hw1|]. split; [exact Hc1|]. split; [lia|].
      rewrite He. replace (len (self w) - 1) with (length (Spec.elems (self w1))) by lia.
      rewrite firstn_app_exact by lia. symmetry. apply firstn_all.
Qed.

(* the three projections of the crate *)
Definition dropsV (p : kv) : list event := ev_drops (idV E (snd p)).
Definition dropsK (p : kv) : list event := ev_drops (idK E (fst p)).

(* IntoKeys::next (Owned2.into_keys_next): yields the key, destroys the value *)
Lemma into_keys_step : proj_step fst dropsV (into_keys_next E).
Proof.
  intros w Hw. unfold into_keys_next. apply wp_bind.
  eapply wp_mono; [apply into_iter_next_exact; exact Hw | | intros ? []]; cbn beta.
  intros [p|] w1 (Hw1 & Hc1 & Hl1 & H1).
  - destruct H1 as [Hlen He]. apply wp_bind.
    eapply wp_mono; [apply (drop_val_spec E (snd p) w1) | |]; cbn beta.
    + intros _ w2 [Hs2 Hl2]. apply wp_ret. rewrite Hs2.
      split; [exact Hw1|]. split; [exact Hc1|]. exists p.
      split; [reflexivity|]. split; [exact Hlen|]. split; [exact He|].
      unfold dropsV. congruence.
    + intros w2 [Hs2 Hl2]. rewrite Hs2. split; [exact Hw1|]. split; [exact Hc1|]. exists p.
      split; [exact Hlen|]. split; [exact He|]. unfold dropsV. congruence.
  - destruct H1 as [Hlen Hs]. apply wp_ret. rewrite Hs. auto.
Qed.

(* IntoValues::next: yields the value, destroys the key *)
Lemma into_values_step : proj_step snd dropsK (into_values_next E).
Proof.
  intros w Hw. unfold into_values_next. apply wp_bind.
  eapply wp_mono; [apply into_iter_next_exact; exact Hw | | intros ? []]; cbn beta.
  intros [p|] w1 (Hw1 & Hc1 & Hl1 & H1).
  - destruct H1 as [Hlen He]. apply wp_bind.
    eapply wp_mono; [apply (drop_key_spec E (fst p) w1) | |]; cbn beta.
    + intros _ w2 [Hs2 Hl2]. apply wp_ret. rewrite Hs2.
      split; [exact Hw1|]. split; [exact Hc1|]. exists p.
      split; [reflexivity|]. split; [exact Hlen|]. split; [exact He|].
      unfold dropsK. congruence.
    + intros w2 [Hs2 Hl2]. rewrite Hs2. split; [exact Hw1|]. split; [exact Hc1|]. exists p.
      split; [exact Hlen|]. split; [exact He|]. unfold dropsK. congruence.
  - destruct H1 as [Hlen Hs]. apply wp_ret. rewrite Hs. auto.
Qed.

(* Set::into_iter (SetIntoIter::next = self.iter.next().map(|p| p.0) with V = ():
   nothing to destroy in the model of the interpreter, Exec.set_into_steps) and,
   with proj = id, IntoIter itself *)
Definition into_proj_next {A} (proj : kv -> A) : M (option A) :=
  o <- into_iter_next ;; ret (option_map proj o).

Lemma into_proj_step {A} (proj : kv -> A) : proj_step proj (fun _ => []) (into_proj_next proj).
Proof.
  intros w Hw. unfold into_proj_next. apply wp_bind.
  eapply wp_mono; [apply into_iter_next_exact; exact Hw | | intros ? []]; cbn beta.
  intros [p|] w1 (Hw1 & Hc1 & Hl1 & H1); apply wp_ret; cbn [option_map].
  - destruct H1 as [Hlen He]. split; [exact Hw1|]. split; [exact Hc1|]. exists p.
    rewrite app_nil_r. auto.
  - destruct H1 as [Hlen Hs]. rewrite Hs. auto.
Qed.

Definition into_keys_run := proj_run (into_keys_next E).
Definition into_values_run := proj_run (into_values_next E).
Definition into_proj_run {A} (proj : kv -> A) := proj_run (into_proj_next proj).

(* into_keys: the yielded keys are  map fst  of the entries in consuming order;
   the VALUE of each yielded entry is destroyed exactly once, at that step (the
   log grows by exactly those Drop events, in order); when a value's Drop panics
   at step t, exactly the values of entries 0..t were destroyed *)
Lemma into_keys_run_spec n (w : world) :
  WF (self w) ->
  wp (into_keys_run n)
     (fun r w' =>
        let took := firstn n (rev (Spec.elems (self w))) in
        r = List.map fst took /\ log w' = log w ++ flat_map dropsV took /\
        WF (self w') /\ cap (self w') = cap (self w) /\
        len (self w') = len (self w) - Nat.min n (len (self w)) /\
        Spec.elems (self w') = firstn (len (self w) - Nat.min n (len (self w))) (Spec.elems (self w)))
     (fun w' => exists t, t < Nat.min n (len (self w)) /\
        let took := firstn (S t) (rev (Spec.elems (self w))) in
        log w' = log w ++ flat_map dropsV took /\
        WF (self w') /\ cap (self w') = cap (self w) /\
        len (self w') = len (self w) - S t /\
        Spec.elems (self w') = firstn (len (self w) - S t) (Spec.elems (self w)))
     w.
Proof. exact (proj_run_spec fst dropsV (into_keys_next E) into_keys_step n w). Qed.

Lemma into_values_run_spec n (w : world) :
  WF (self w) ->
  wp (into_values_run n)
     (fun r w' =>
        let took := firstn n (rev (Spec.elems (self w))) in
        r = List.map snd took /\ log w' = log w ++ flat_map dropsK took /\
        WF (self w') /\ cap (self w') = cap (self w) /\
        len (self w') = len (self w) - Nat.min n (len (self w)) /\
        Spec.elems (self w') = firstn (len (self w) - Nat.min n (len (self w))) (Spec.elems (self w)))
     (fun w' => exists t, t < Nat.min n (len (self w)) /\
        let took := firstn (S t) (rev (Spec.elems (self w))) in
        log w' = log w ++ flat_map dropsK took /\
        WF (self w') /\ cap (self w') = cap (self w) /\
        len (self w') = len (self w) - S t /\
        Spec.elems (self w') = firstn (len (self w) - S t) (Spec.elems (self w)))
     w.
Proof. exact (proj_run_spec snd dropsK (into_values_next E) into_values_step n w). Qed.

Lemma flat_map_nil {A B} (l : list A) : flat_map (fun _ : A => @nil B) l = [].
Proof. induction l as [|a l IH]; [reflexivity | exact IH]. Qed.

(* a projection that destroys nothing (Set::into_iter: proj = fst): no panic,
   log untouched *)
Lemma into_proj_run_spec {A} (proj : kv -> A) n (w : world) :
  WF (self w) ->
  wp (into_proj_run proj n)
     (fun r w' =>
        r = List.map proj (firstn n (rev (Spec.elems (self w)))) /\ log w' = log w /\
        WF (self w') /\ cap (self w') = cap (self w) /\
        len (self w') = len (self w) - Nat.min n (len (self w)) /\
        Spec.elems (self w') = firstn (len (self w) - Nat.min n (len (self w))) (Spec.elems (self w)))
     (fun _ => False) w.
Proof.
  intros Hw. unfold into_proj_run.
  assert (Hnp : forall n (w0 : world), WF (self w0) ->
            wp (proj_run (into_proj_next proj) n) (fun _ w' => WF (self w')) (fun _ => False) w0).
  { clear. induction n as [|n IH]; intros w0 Hw0; cbn [proj_run]; [apply wp_ret; exact Hw0|].
    apply wp_bind. unfold into_proj_next. apply wp_bind.
    eapply wp_mono; [apply into_iter_next_exact; exact Hw0 | | auto]; cbn beta.
    intros o w1 (Hw1 & _). apply wp_ret. destruct o as [p|]; cbn [option_map].
    - apply wp_bind. eapply wp_mono; [apply (IH w1 Hw1) | | auto]; cbn beta.
      intros r w2 Hw2. apply wp_ret. exact Hw2.
    - apply wp_ret. exact Hw1. }
  pose proof (proj_run_spec proj (fun _ => []) (into_proj_next proj) (into_proj_step proj) n w Hw) as H.
  pose proof (Hnp n w Hw) as H0. unfold wp in *.
  destruct (proj_run (into_proj_next proj) n w) as [r w'|w'|]; [|destruct H0|exact H].
  cbv zeta in H. rewrite flat_map_nil, app_nil_r in H. exact H.
Qed.

(* ---- drain never panics before its Drop runs ---- *)
Lemma drain_run_nopanic n (w : world) :
  WF (self w) ->
  wp (c <- drain ;; drain_run n c)
     (fun r w' => fst r = firstn n (Spec.elems (self w)) /\
                  snd r = (Nat.min n (len (self w)), len (self w)) /\
                  DrainInv (snd r) (self w') /\
                  cap (self w') = cap (self w) /\ log w' = log w /\ len (self w') = 0)
     (fun _ => False) w.
Proof.
  intros Hw. eapply wp_mono; [apply drain_run_strong; exact Hw | | auto]; cbn beta.
  intros r w' (H1 & H2 & H3 & _ & H4 & H5 & H6). auto 10.
Qed.

Lemma drain_forgotten_nopanic n (w : world) :
  WF (self w) ->
  wp (c <- drain ;; drain_run n c)
     (fun _ w' => WF (self w') /\ len (self w') = 0 /\ cap (self w') = cap (self w))
     (fun _ => False) w.
Proof.
  intros Hw. eapply wp_mono; [apply drain_run_nopanic; exact Hw | | auto]; cbn beta.
  intros r w' (_ & _ & HD & Hcap & _ & Hlen).
  split; [eapply DrainInv_WF; exact HD | auto].
Qed.

(* ---- "fully reusable": after a drain session the container IS the empty
   dictionary of the same capacity ---- *)
Lemma Abs_empty (ck : K -> N) (m : map) : WF m -> len m = 0 -> Abs ck m [].
Proof.
  intros Hw Hl. split; [exact Hw|]. unfold Spec.elems. rewrite Hl. cbn [take_live].
  split; [apply NoDup_nil | apply perm_nil].
Qed.

(* any environment (Drop may panic), any number taken, drain dropped *)
Lemma drain_session_Abs (ck : K -> N) n (w : world) :
  WF (self w) ->
  let post := fun w' : world => Abs ck (self w') [] /\ cap (self w') = cap (self w) in
  wp (c <- drain ;; r <- drain_run n c ;; drain_drop E (snd r)) (fun _ => post) post w.
Proof.
  intros Hw post.
  eapply wp_mono; [apply (drain_empties_strong E n w Hw) | |]; cbn beta; unfold post.
  - intros _ w' (H1 & H2 & H3). split; [apply Abs_empty; assumption | exact H3].
  - intros w' (H1 & H2 & H3). split; [apply Abs_empty; assumption | exact H3].
Qed.

(* mem::forget(drain) *)
Lemma drain_forgotten_Abs (ck : K -> N) n (w : world) :
  WF (self w) ->
  wp (c <- drain ;; drain_run n c)
     (fun _ w' => Abs ck (self w') [] /\ cap (self w') = cap (self w)) (fun _ => False) w.
Proof.
  intros Hw. eapply wp_mono; [apply drain_forgotten_nopanic; exact Hw | | auto]; cbn beta.
  intros _ w' (H1 & H2 & H3). split; [apply Abs_empty; assumption | exact H3].
Qed.

Section Reuse.
Context (ck : K -> N) (cq : Q -> N) (HL : Lawful E ck cq).

(* every later history of dictionary operations behaves exactly like the same
   history on a FRESH container of the same capacity (Dict.run_refines) *)
Theorem drain_then_run_refines take (ops : list (@Dict.dop K V Q)) (w : world) :
  WF (self w) ->
  match (c <- drain ;; r <- drain_run take c ;; drain_drop E (snd r)) w with
  | Ok _ w' | Panic w' =>
      cap (self w') = cap (self w) /\
      mrun E debug ops w' = drun ck cq (cap (self w)) ops [] /\
      forall s lg, mrun E debug ops w' =
                   mrun E debug ops {| cb := s; log := lg; self := new_map (cap (self w)) |}
  | UB => False
  end.
Proof.
  intros Hw. pose proof (drain_session_Abs ck take w Hw) as H. cbv zeta in H. unfold wp in H.
  destruct ((c <- drain ;; r <- drain_run take c ;; drain_drop E (snd r)) w) as [u w'|w'|];
    [| |exact H]; destruct H as [Ha Hc];
    (split; [exact Hc|]; split;
     [apply (run_refines E debug ck cq HL _ ops w' [] Ha Hc)
     |intros s lg; rewrite (run_refines_new E debug ck cq HL);
      apply (run_refines E debug ck cq HL _ ops w' [] Ha Hc)]).
Qed.

Theorem drain_forgotten_then_run_refines take (ops : list (@Dict.dop K V Q)) (w : world) :
  WF (self w) ->
  match (c <- drain ;; drain_run take c) w with
  | Ok _ w' =>
      cap (self w') = cap (self w) /\
      mrun E debug ops w' = drun ck cq (cap (self w)) ops [] /\
      forall s lg, mrun E debug ops w' =
                   mrun E debug ops {| cb := s; log := lg; self := new_map (cap (self w)) |}
  | _ => False
  end.
Proof.
  intros Hw. pose proof (drain_forgotten_Abs ck take w Hw) as H. unfold wp in H.
  destruct ((c <- drain ;; drain_run take c) w) as [u w'|w'|]; [|exact H|exact H].
  destruct H as [Ha Hc]. split; [exact Hc|]. split.
  - apply (run_refines E debug ck cq HL _ ops w' [] Ha Hc).
  - intros s lg. rewrite (run_refines_new E debug ck cq HL).
    apply (run_refines E debug ck cq HL _ ops w' [] Ha Hc).
Qed.

(* the same inside the mixed histories of Dict2: a history that starts with a
   drain (any number taken) continues from the EMPTY dictionary *)
Theorem drain_first_run2_refines n take (ops : list (@Dict2.dop2 K V Q)) (w : world) d :
  Abs ck (self w) d -> cap (self w) = n ->
  exists wf df p rs,
    mfinal2 E debug (DDrain take :: ops) w = Some wf /\
    Permutation p d /\
    mrun2 E debug (DDrain take :: ops) w = RItems (firstn take p) :: rs /\
    druns2 ck cq n ops [] rs df /\
    Abs ck (self wf) df /\ cap (self wf) = n.
Proof.
  intros Ha Hc.
  destruct (run2_refines E debug ck cq HL n (DDrain take :: ops) w d Ha Hc) as (wf & df & Hf & Hr & Haf & Hcf).
  inversion Hr as [|o ops' d0 r d' rs df' Hst Hrest Ho Hd Hrs Hdf]; subst.
  cbn [dstep2] in Hst. destruct Hst as (-> & p & Hp & ->).
  exists wf, df, p, rs. auto 10.
Qed.

End Reuse.
End IntoMore.

(* ---------------------------------------------------------------------- *)
(* the interpreter's consuming sessions use exactly these projections       *)
(* (Exec.into_steps_item kind: 0 into_iter | 1 into_keys | 2 into_values;   *)
(*  Exec.set_into_steps: the key of (k, ()))                                 *)
(* ---------------------------------------------------------------------- *)
Section ExecInto.
Context (sc : script).
Notation Em := (env_map sc).
Notation mworld := (world key vobj cstate).

Lemma into_steps_item_kinds (p : key * vobj) :
  into_steps_item sc 0 p = ret (r_pair p) /\
  into_steps_item sc 1 p = (drop_val Em (snd p) ;; ret (r_key (fst p))) /\
  into_steps_item sc 2 p = (drop_key Em (fst p) ;; ret (r_val (snd p))).
Proof. repeat split; reflexivity. Qed.

(* one step of Exec.into_steps for kind 1 / 2 / 0 is IntoKeys::next /
   IntoValues::next / IntoIter::next followed by rendering *)
Lemma into_steps_keys_next (w : mworld) :
  (o <- into_iter_next ;;
   match o with None => ret None | Some p => it <- into_steps_item sc 1 p ;; ret (Some it) end) w
  = (o <- into_keys_next Em ;; ret (option_map r_key o)) w.
Proof.
  unfold into_keys_next, bind. destruct (into_iter_next w) as [[p|] w1|w1|]; try reflexivity.
  change (into_steps_item sc 1 p) with (drop_val Em (snd p) ;; ret (r_key (fst p))).
  unfold bind. destruct (drop_val Em (snd p) w1) as [u w2|w2|]; reflexivity.
Qed.

Lemma into_steps_values_next (w : mworld) :
  (o <- into_iter_next ;;
   match o with None => ret None | Some p => it <- into_steps_item sc 2 p ;; ret (Some it) end) w
  = (o <- into_values_next Em ;; ret (option_map r_val o)) w.
Proof.
  unfold into_values_next, bind. destruct (into_iter_next w) as [[p|] w1|w1|]; try reflexivity.
  change (into_steps_item sc 2 p) with (drop_key Em (fst p) ;; ret (r_val (snd p))).
  unfold bind. destruct (drop_key Em (fst p) w1) as [u w2|w2|]; reflexivity.
Qed.

Lemma into_steps_pairs_next (w : mworld) :
  (o <- into_iter_next ;;
   match o with None => ret None | Some p => it <- into_steps_item sc 0 p ;; ret (Some it) end) w
  = (into_proj_next r_pair) w.
Proof.
  unfold into_proj_next, bind. destruct (into_iter_next w) as [[p|] w1|w1|]; reflexivity.
Qed.

End ExecInto.

(* Map::with_capacity in the interpreter (Exec.step, OWithCapacity): accepted
   exactly when the requested capacity is the type's N; the register then holds
   a container of that capacity with len 0 (also when the destructor of the old
   value panics) *)
Lemma with_capacity_op {V} (E : env key V query cstate) c (w : world key V cstate) :
  WF (self w) ->
  wp (n <- get_cap ;; if with_capacity_ok c n then replace_with E (ret tt) [] else panic)
     (fun _ w' => c = cap (self w) /\ cap (self w') = c /\ len (self w') = 0 /\ self w' = new_map c)
     (fun w' => (c <> cap (self w) /\ self w' = self w) \/
                (c = cap (self w) /\ self w' = new_map c))
     w.
Proof.
  intros Hw. apply wp_bind. apply wp_get_cap. unfold with_capacity_ok.
  destruct (Nat.eqb_spec c (cap (self w))) as [Hc|Hc]; [|apply wp_panic; left; auto].
  unfold replace_with. apply wp_bind. apply wp_get_cap. apply wp_bind.
  unfold swap_self at 1. unfold wp at 1. cbn [ret].
  apply wp_bind. apply wp_get_self. apply wp_bind. apply wp_put_self. simp_w.
  apply wp_bind. unfold wp at 1, swap_self. simp_w.
  pose proof (drop_map_safe E {| cb := cb w; log := log w; self := self w |} Hw) as Hd.
  unfold wp in Hd. simp_w.
  destruct (drop_map E {| cb := cb w; log := log w; self := self w |}) as [u w1|w1|]; [| |exact Hd].
  - apply wp_ret. simp_w. rewrite <- Hc. rewrite cap_new. auto.
  - simp_w. right. rewrite <- Hc. auto.
Qed.

(* iter_mut / values_mut sessions of the interpreter, seen on the content: after
   n steps from iter_mut() entry i < n holds the same key and the same value
   object with the payload written at step i; every other entry is unchanged *)
Lemma iter_mut_session_writes kind wd n (w : world key vobj cstate) :
  WF (self w) -> is_mut_kind kind = true ->
  wp (c <- iter ;; iter_steps kind wd n 0 c [])
     (fun r w' =>
        fst r = steps_obs (r_item kind) (slots (self w)) n 0 (len (self w)) /\
        snd r = (Nat.min n (len (self w)), len (self w)) /\
        WF (self w') /\ len (self w') = len (self w) /\ cap (self w') = cap (self w) /\
        log w' = log w /\
        forall i k v, nth_error (Spec.elems (self w)) i = Some (k, v) ->
          nth_error (Spec.elems (self w')) i =
            Some (k, if i <? n then {| vid := vid v; vdat := wd + nn i |} else v))
     (fun _ => False) w.
Proof.
  intros Hw Hk. apply wp_bind.
  eapply wp_mono; [apply iter_exact; exact Hw | | auto]; cbn beta.
  intros c w0 [-> ->].
  eapply wp_mono; [apply (iter_steps_obs kind wd n 0 0 (len (self w)) [] w Hw (Nat.le_refl _)) | | auto];
    cbn beta.
  intros r w'. cbv zeta. rewrite Nat.sub_0_r, Hk. cbn [Nat.add app].
  intros (H1 & H2 & _ & H4 & H5 & H6 & H7 & _ & H9 & H10).
  split; [exact H1|]. split; [exact H2|]. split; [exact H5|]. split; [exact H6|]. split; [exact H7|].
  split; [exact H4|].
  intros i k v Hp. destruct (elems_nth_slot _ _ _ Hw Hp) as [Hi Hsl].
  assert (Hi' : i < len (self w')) by lia.
  apply (elems_nth (self w') i _ H5 Hi').
  destruct (Nat.ltb_spec i n) as [Hlt|Hge].
  - rewrite (H10 i (k, v)); [|lia|exact Hsl]. rewrite Nat.sub_0_r. reflexivity.
  - rewrite H9 by lia. exact Hsl.
Qed.
