(* Bulk.v — property C16: building a Map / Set from an iterator or an array
   (FromIterator, From<[_; N]>, Extend) is "insert the items one at a time, in
   order": last value wins, first key object kept, repeats take no capacity,
   the source is pulled exactly once per item (plus the final None). *)
Require Import Model.Base Model.Slots Model.MapOps Model.SetOps Proofs.Hoare Proofs.Inv Proofs.Safety Proofs.Safety2 Proofs.Spec Proofs.Lawful Proofs.Lawful2 Proofs.Lawful3.

Section Bulk.
Context {K V Q T : Type} (E : env K V Q T) (debug : bool).
Context (ck : K -> N) (cq : Q -> N) (HL : Lawful E ck cq).
Notation M := (M K V T).
Notation world := (world K V T).
Notation map := (map K V).
Notation kv := (K * V)%type.

(* the classes of the keys of a list, in order (the list [Uniq] talks about) *)
Notation clss l := (List.map (fun p : kv => ck (fst p)) l).
(* the list after one insert *)
Notation ins l k v := (fst (fst (l_insert ck l k v false))).

(* ---------------------------------------------------------------------- *)
(* 1. the pure mirror                                                      *)
(* ---------------------------------------------------------------------- *)
Fixpoint l_extend (N : nat) (l : list kv) (items : list kv) : option (list kv) :=
  match items with
  | [] => Some l
  | (k, v) :: rest =>
      match find_idx ck (ck k) l with
      | Some _ => l_extend N (fst (fst (l_insert ck l k v false))) rest
      | None => if length l <? N then l_extend N (l ++ [(k, v)]) rest else None
      end
  end.

Lemma l_insert_fst_none (l : list kv) k v :
  find_idx ck (ck k) l = None -> ins l k v = l ++ [(k, v)].
Proof. intros H. unfold l_insert. rewrite H. reflexivity. Qed.

(* a successful step is one l_insert *)
Lemma l_extend_cons_ok N (l : list kv) k v rest :
  length (ins l k v) <= N ->
  l_extend N l ((k, v) :: rest) = l_extend N (ins l k v) rest.
Proof.
  intros H. cbn [l_extend]. destruct (find_idx ck (ck k) l) as [i|] eqn:Hf; [reflexivity|].
  rewrite (l_insert_fst_none l k v Hf) in *. rewrite app_length in H. cbn [length] in H.
  destruct (Nat.ltb_spec (length l) N); [reflexivity | lia].
Qed.

(* a new class arriving at a full container stops everything *)
Lemma l_extend_cons_full N (l : list kv) k v rest :
  find_idx ck (ck k) l = None -> N <= length l -> l_extend N l ((k, v) :: rest) = None.
Proof.
  intros Hf H. cbn [l_extend]. rewrite Hf. destruct (Nat.ltb_spec (length l) N); [lia | reflexivity].
Qed.

Lemma l_extend_inv N (l : list kv) k v rest res :
  l_extend N l ((k, v) :: rest) = Some res -> l_extend N (ins l k v) rest = Some res.
Proof.
  cbn [l_extend]. destruct (find_idx ck (ck k) l) as [i|] eqn:Hf; [auto|].
  destruct (length l <? N); [|discriminate]. rewrite (l_insert_fst_none l k v Hf). auto.
Qed.

(* the same thing as a fold of single inserts with an overflow check *)
Lemma l_extend_fold N (l : list kv) items :
  l_extend N l items =
  fold_left (fun (acc : option (list kv)) (p : kv) =>
               match acc with
               | None => None
               | Some a => if length (ins a (fst p) (snd p)) <=? N
                           then Some (ins a (fst p) (snd p))
                           else if match find_idx ck (ck (fst p)) a with Some _ => true | None => false end
                                then Some (ins a (fst p) (snd p)) else None
               end) items (Some l).
Proof.
  assert (Hnone : forall its : list kv,
    fold_left (fun (acc : option (list kv)) (p : kv) =>
               match acc with
               | None => None
               | Some a => if length (ins a (fst p) (snd p)) <=? N
                           then Some (ins a (fst p) (snd p))
                           else if match find_idx ck (ck (fst p)) a with Some _ => true | None => false end
                                then Some (ins a (fst p) (snd p)) else None
               end) its None = None).
  { induction its as [|p its IH]; [reflexivity | exact IH]. }
  revert l. induction items as [|[k v] rest IH]; intros l; [reflexivity|].
  cbn [fold_left fst snd]. cbn [l_extend].
  destruct (find_idx ck (ck k) l) as [i|] eqn:Hf.
  - rewrite IH. destruct (length (ins l k v) <=? N); reflexivity.
  - rewrite (l_insert_fst_none l k v Hf). rewrite app_length. cbn [length].
    destruct (Nat.ltb_spec (length l) N) as [Hlt|Hge].
    + destruct (Nat.leb_spec (length l + 1) N); [|lia]. apply IH.
    + destruct (Nat.leb_spec (length l + 1) N); [lia|]. symmetry. apply Hnone.
Qed.

(* ---------------------------------------------------------------------- *)
(* small list facts                                                        *)
(* ---------------------------------------------------------------------- *)
Lemma NoDup_snoc {A} (l : list A) x : NoDup l -> ~ In x l -> NoDup (l ++ [x]).
Proof.
  induction l as [|a t IH]; intros Hn Hx; cbn [app].
  - constructor; [intros [] | constructor].
  - inversion Hn as [|a' t' Ha Ht]; subst. constructor.
    + rewrite in_app_iff. cbn [In]. intros [H|[H|[]]]; [auto|]. subst. apply Hx. left. reflexivity.
    + apply IH; [exact Ht|]. intros H. apply Hx. right. exact H.
Qed.

Lemma nodup_length_ext (a b : list N) :
  (forall x, In x a <-> In x b) -> length (nodup N.eq_dec a) = length (nodup N.eq_dec b).
Proof.
  intros H. apply Nat.le_antisymm; apply NoDup_incl_length; try apply NoDup_nodup;
    intros x Hx; apply nodup_In; apply nodup_In in Hx; apply H; exact Hx.
Qed.

Lemma map_upd_same {A B} (f : A -> B) (l : list A) i x p :
  nth_error l i = Some p -> f x = f p -> List.map f (upd l i x) = List.map f l.
Proof.
  revert i; induction l as [|h t IH]; intros i Hp Hf; [destruct i; discriminate|].
  destruct i as [|i]; cbn [nth_error] in Hp; cbn [upd List.map].
  - injection Hp as ->. rewrite Hf. reflexivity.
  - rewrite (IH i Hp Hf). reflexivity.
Qed.

Lemma find_idx_upd_same c (l : list kv) i x p :
  nth_error l i = Some p -> ck (fst x) = ck (fst p) -> find_idx ck c (upd l i x) = find_idx ck c l.
Proof.
  revert i; induction l as [|h t IH]; intros i Hp Hf; [destruct i; discriminate|].
  destruct i as [|i]; cbn [nth_error] in Hp; cbn [upd find_idx].
  - injection Hp as ->. rewrite Hf. reflexivity.
  - rewrite (IH i Hp Hf). reflexivity.
Qed.

Lemma find_idx_app c (l l' : list kv) :
  find_idx ck c (l ++ l') =
  match find_idx ck c l with
  | Some i => Some i
  | None => option_map (Nat.add (length l)) (find_idx ck c l')
  end.
Proof.
  induction l as [|h t IH]; cbn [app find_idx length].
  - destruct (find_idx ck c l'); reflexivity.
  - destruct (N.eqb (ck (fst h)) c); [reflexivity|]. rewrite IH.
    destruct (find_idx ck c t); [reflexivity|]. destruct (find_idx ck c l'); reflexivity.
Qed.

Lemma find_idx_in c (l : list kv) i : find_idx ck c l = Some i -> In c (clss l).
Proof.
  intros H. destruct (find_idx_inv ck c l i H) as [[p [Hp Hc]] _].
  apply in_map_iff. exists p. split; [exact Hc | eapply nth_error_In; exact Hp].
Qed.

Lemma find_idx_notin c (l : list kv) : find_idx ck c l = None -> ~ In c (clss l).
Proof.
  intros H Hin. apply in_map_iff in Hin. destruct Hin as [p [Hc Hp]].
  apply In_nth_error in Hp. destruct Hp as [j Hj].
  exact (find_idx_none_inv ck c l H j p Hj Hc).
Qed.

(* ---------------------------------------------------------------------- *)
(* one insert, seen through classes and through lookup                     *)
(* ---------------------------------------------------------------------- *)
Lemma clss_insert_some (l : list kv) k v i :
  find_idx ck (ck k) l = Some i -> clss (ins l k v) = clss l.
Proof.
  intros Hf. unfold l_insert. rewrite Hf.
  destruct (find_idx_inv ck _ _ _ Hf) as [[[k0 v0] [Hp Hc]] _]. rewrite Hp. cbn [fst].
  apply (map_upd_same (fun p : kv => ck (fst p)) l i (k0, v) (k0, v0) Hp). reflexivity.
Qed.

Lemma length_insert_some (l : list kv) k v i :
  find_idx ck (ck k) l = Some i -> length (ins l k v) = length l.
Proof.
  intros Hf. rewrite <- (map_length (fun p : kv => ck (fst p)) (ins l k v)).
  rewrite (clss_insert_some l k v i Hf). apply map_length.
Qed.

Lemma clss_insert_in (l : list kv) k v c :
  In c (clss (ins l k v)) <-> In c (clss l) \/ c = ck k.
Proof.
  destruct (find_idx ck (ck k) l) as [i|] eqn:Hf.
  - rewrite (clss_insert_some l k v i Hf). split; [auto|]. intros [H| ->]; [exact H|].
    eapply find_idx_in; exact Hf.
  - rewrite (l_insert_fst_none l k v Hf). rewrite map_app, in_app_iff. cbn [List.map In fst].
    split; [intros [H|[H|[]]]; auto | intros [H|H]; auto].
Qed.

Lemma Uniq_insert (l : list kv) k v : Uniq ck l -> Uniq ck (ins l k v).
Proof.
  intros Hu. unfold Uniq in *. destruct (find_idx ck (ck k) l) as [i|] eqn:Hf.
  - rewrite (clss_insert_some l k v i Hf). exact Hu.
  - rewrite (l_insert_fst_none l k v Hf). rewrite map_app. cbn [List.map fst].
    apply NoDup_snoc; [exact Hu | apply find_idx_notin; exact Hf].
Qed.

(* last value wins, first key object is kept *)
Lemma lookup_insert (l : list kv) k v c :
  lookup ck (ins l k v) c =
  if N.eqb (ck k) c
  then Some (match lookup ck l c with Some (k0, _) => k0 | None => k end, v)
  else lookup ck l c.
Proof.
  unfold lookup. destruct (find_idx ck (ck k) l) as [i|] eqn:Hf.
  - destruct (find_idx_inv ck _ _ _ Hf) as [[[k0 v0] [Hp Hc]] _]. cbn [fst] in Hc.
    pose proof (find_idx_lt ck _ _ _ Hf) as Hi.
    unfold l_insert. rewrite Hf, Hp. cbn [fst].
    rewrite (find_idx_upd_same c l i (k0, v) (k0, v0) Hp eq_refl).
    destruct (N.eqb_spec (ck k) c) as [Heq|Hne].
    + subst c. rewrite Hf. rewrite nth_error_upd_eq by exact Hi. rewrite Hp. reflexivity.
    + destruct (find_idx ck c l) as [j|] eqn:Hj; [|reflexivity].
      rewrite nth_error_upd_neq; [reflexivity|]. intros <-.
      destruct (find_idx_inv ck _ _ _ Hj) as [[q [Hq Hcq]] _].
      rewrite Hp in Hq. injection Hq as <-. cbn [fst] in Hcq. congruence.
  - rewrite (l_insert_fst_none l k v Hf). rewrite find_idx_app.
    destruct (N.eqb_spec (ck k) c) as [Heq|Hne].
    + subst c. rewrite Hf. cbn [find_idx fst]. rewrite N.eqb_refl. cbn [option_map].
      rewrite Nat.add_0_r. rewrite nth_error_app2 by lia. rewrite Nat.sub_diag. reflexivity.
    + destruct (find_idx ck c l) as [j|] eqn:Hj.
      * rewrite nth_error_app1; [reflexivity | eapply find_idx_lt; exact Hj].
      * cbn [find_idx fst]. destruct (N.eqb_spec (ck k) c); [contradiction | reflexivity].
Qed.

(* ---------------------------------------------------------------------- *)
(* 5. the pure content of l_extend                                         *)
(* ---------------------------------------------------------------------- *)
(* key object of the first item of class c *)
Fixpoint first_key (c : N) (items : list kv) : option K :=
  match items with
  | [] => None
  | (k, _) :: rest => if N.eqb (ck k) c then Some k else first_key c rest
  end.
(* value of the last item of class c *)
Fixpoint last_val (c : N) (items : list kv) : option V :=
  match items with
  | [] => None
  | (k, v) :: rest =>
      match last_val c rest with
      | Some v' => Some v'
      | None => if N.eqb (ck k) c then Some v else None
      end
  end.

(* what class c maps to after the items went into a container in which it
   mapped to [start]: an existing key object stays, the last value wins *)
Definition bulk_view (c : N) (start : option kv) (items : list kv) : option kv :=
  match (match start with Some (k0, _) => Some k0 | None => first_key c items end),
        (match last_val c items with Some v => Some v | None => option_map snd start end) with
  | Some k, Some v => Some (k, v)
  | _, _ => None
  end.

Lemma bulk_lookup_gen N items : forall (l res : list kv) c,
  l_extend N l items = Some res -> lookup ck res c = bulk_view c (lookup ck l c) items.
Proof.
  induction items as [|[k v] rest IH]; intros l res c H.
  - cbn [l_extend] in H. injection H as <-. unfold bulk_view. cbn [first_key last_val].
    destruct (lookup ck l c) as [[k0 v0]|]; reflexivity.
  - apply l_extend_inv in H. rewrite (IH _ _ c H). rewrite lookup_insert.
    unfold bulk_view. cbn [first_key last_val].
    destruct (N.eqb (ck k) c); destruct (lookup ck l c) as [[k0 v0]|];
      destruct (last_val c rest); destruct (first_key c rest); reflexivity.
Qed.

Lemma l_extend_sound N items : forall (l res : list kv),
  l_extend N l items = Some res -> Uniq ck l ->
  Uniq ck res /\ forall c, In c (clss res) <-> In c (clss l ++ clss items).
Proof.
  induction items as [|[k v] rest IH]; intros l res H Hu.
  - cbn [l_extend] in H. injection H as <-. split; [exact Hu|].
    intros c. cbn [List.map]. rewrite app_nil_r. tauto.
  - apply l_extend_inv in H. destruct (IH _ _ H (Uniq_insert l k v Hu)) as [Hur Hin].
    split; [exact Hur|]. intros c. rewrite Hin. rewrite !in_app_iff. rewrite clss_insert_in.
    cbn [List.map In fst]. split; [intros [[H1|H1]|H1]; auto | intros [H1|[H1|H1]]; auto].
Qed.

Lemma bulk_size_gen N items (l res : list kv) :
  l_extend N l items = Some res -> Uniq ck l ->
  length res = length (nodup N.eq_dec (clss l ++ clss items)).
Proof.
  intros H Hu. destruct (l_extend_sound N items l res H Hu) as [Hur Hin].
  rewrite <- (map_length (fun p : kv => ck (fst p)) res).
  rewrite <- (nodup_fixed_point N.eq_dec Hur) at 1.
  apply nodup_length_ext. exact Hin.
Qed.

Lemma bulk_overflow_gen N items : forall l : list kv,
  Uniq ck l -> length l <= N ->
  (l_extend N l items = None <-> N < length (nodup N.eq_dec (clss l ++ clss items))).
Proof.
  induction items as [|[k v] rest IH]; intros l Hu Hn.
  - cbn [l_extend List.map]. rewrite app_nil_r. rewrite (nodup_fixed_point N.eq_dec Hu).
    rewrite map_length. split; [discriminate | lia].
  - cbn [l_extend]. destruct (find_idx ck (ck k) l) as [i|] eqn:Hf.
    + rewrite IH; [| apply Uniq_insert; exact Hu | rewrite (length_insert_some l k v i Hf); exact Hn].
      rewrite (nodup_length_ext (clss (ins l k v) ++ clss rest) (clss l ++ clss ((k, v) :: rest))); [reflexivity|].
      intros x. rewrite (clss_insert_some l k v i Hf). cbn [List.map fst]. rewrite !in_app_iff. cbn [In].
      split; [intros [H|H]; auto|]. intros [H|[H|H]]; auto. subst x. left. eapply find_idx_in; exact Hf.
    + destruct (Nat.ltb_spec (length l) N) as [Hlt|Hge].
      * rewrite IH.
        -- rewrite map_app, <- app_assoc. reflexivity.
        -- rewrite <- (l_insert_fst_none l k v Hf). apply Uniq_insert. exact Hu.
        -- rewrite app_length. cbn [length]. lia.
      * split; [intros _ | reflexivity].
        assert (Hnd : NoDup (clss l ++ [ck k])).
        { apply NoDup_snoc; [exact Hu | apply find_idx_notin; exact Hf]. }
        pose proof (NoDup_incl_length (l' := nodup N.eq_dec (clss l ++ clss ((k, v) :: rest))) Hnd) as Hle.
        rewrite app_length, map_length in Hle. cbn [length] in Hle.
        assert (Hincl : incl (clss l ++ [ck k]) (nodup N.eq_dec (clss l ++ clss ((k, v) :: rest)))).
        { intros x Hx. apply nodup_In. rewrite in_app_iff in *. cbn [List.map In fst] in *.
          destruct Hx as [Hx|[Hx|[]]]; auto. }
        specialize (Hle Hincl). lia.
Qed.

(* instances for an empty starting container *)
Lemma bulk_uniq N items (res : list kv) : l_extend N [] items = Some res -> Uniq ck res.
Proof. intros H. apply (l_extend_sound N items [] res H). constructor. Qed.

Lemma bulk_lookup N items (res : list kv) c :
  l_extend N [] items = Some res ->
  lookup ck res c = match first_key c items, last_val c items with
                    | Some k, Some v => Some (k, v)
                    | _, _ => None
                    end.
Proof.
  intros H. rewrite (bulk_lookup_gen N items [] res c H). unfold bulk_view, lookup. cbn [find_idx option_map].
  destruct (first_key c items); destruct (last_val c items); reflexivity.
Qed.

Lemma bulk_size N items (res : list kv) :
  l_extend N [] items = Some res -> length res = length (nodup N.eq_dec (clss items)).
Proof. intros H. apply (bulk_size_gen N items [] res H). constructor. Qed.

Lemma bulk_overflow N items :
  l_extend N [] items = None <-> N < length (nodup N.eq_dec (clss items)).
Proof. apply (bulk_overflow_gen N items []); [constructor | cbn [length]; lia]. Qed.

(* a successful bulk build never exceeds the capacity it started under *)
Lemma l_extend_length N items : forall l res : list kv,
  l_extend N l items = Some res -> length l <= N -> length res <= N.
Proof.
  induction items as [|[k v] rest IH]; intros l res H Hn.
  - cbn [l_extend] in H. injection H as <-. exact Hn.
  - cbn [l_extend] in H. destruct (find_idx ck (ck k) l) as [i|] eqn:Hf.
    + apply (IH _ _ H). rewrite (length_insert_some l k v i Hf). exact Hn.
    + destruct (Nat.ltb_spec (length l) N) as [Hlt|Hge]; [|discriminate].
      apply (IH _ _ H). rewrite app_length. cbn [length]. lia.
Qed.

(* ---------------------------------------------------------------------- *)
(* 2. the loop is "insert the items one by one, in order"                  *)
(* ---------------------------------------------------------------------- *)
Lemma extend_loop_is_inserts nx items :
  extend_loop E debug nx items =
  (fix go (its : list kv) : M unit :=
     match its with
     | [] => call_next nx
     | (k, v) :: rest =>
         bind (on_unwind (unwind_pairs E its) (call_next nx)) (fun _ =>
         bind (on_unwind (unwind_pairs E rest)
                 (bind (insert E debug k v) (fun old => drop_opt_val E old))) (fun _ =>
         go rest))
     end) items.
Proof.
  induction items as [|[k v] rest IH]; [reflexivity|].
  cbn [extend_loop]. rewrite IH. reflexivity.
Qed.

(* ---------------------------------------------------------------------- *)
(* 3. the loop computes l_extend; the source is pulled once per item       *)
(* ---------------------------------------------------------------------- *)
(* "this event is a call of the source iterator's next()" *)
Definition is_pull (e : event) : bool :=
  match e with EvCall t => N.eqb t 1 | _ => false end.

Lemma nopull_drops l : filter is_pull (ev_drops l) = [].
Proof. induction l as [|a t IH]; [reflexivity | exact IH]. Qed.

Lemma call_next_lawful (nx : T -> ans * T) (w : world) :
  (forall s, fst (nx s) <> Boom) ->
  wp (call_next nx) (fun _ w' => self w' = self w /\ log w' = log w ++ [EvCall 1]) (fun _ => False) w.
Proof.
  intros Hnx. unfold call_next. apply wp_bind. apply wp_emit. apply wp_bind. apply wp_cbk_eq.
  simp_w. pose proof (Hnx (cb w)) as H.
  destruct (fst (nx (cb w))); [apply wp_ret; simp_w; auto | apply wp_ret; simp_w; auto | congruence].
Qed.

Lemma drop_opt_val_lawful o (w : world) :
  wp (drop_opt_val E o)
     (fun _ w' => self w' = self w /\
                  logged w w' (match o with Some v => ev_drops (idV E v) | None => [] end))
     (fun _ => False) w.
Proof.
  destruct o as [v|]; cbn [drop_opt_val].
  - apply (drop_val_lawful E ck cq HL).
  - apply wp_ret. split; [reflexivity | apply logged_nil].
Qed.

Lemma extend_loop_full nx items :
  (forall s, fst (nx s) <> Boom) -> forall w : world, WF (self w) ->
  wp (extend_loop E debug nx items)
     (fun _ w' => WF (self w') /\ cap (self w') = cap (self w) /\
                  l_extend (cap (self w)) (elems (self w)) items = Some (elems (self w')) /\
                  exists evs, log w' = log w ++ evs /\
                              length (filter is_pull evs) = S (length items))
     (fun w' => WF (self w') /\ cap (self w') = cap (self w) /\
                l_extend (cap (self w)) (elems (self w)) items = None) w.
Proof.
  intros Hnx. induction items as [|[k v] rest IH]; intros w Hw; cbn [extend_loop].
  - eapply wp_mono; [apply call_next_lawful; exact Hnx | | intros ? []]; cbn beta.
    intros _ w1 [Hs1 Hl1]. rewrite Hs1. split; [exact Hw|]. split; [reflexivity|]. split; [reflexivity|].
    exists [EvCall 1]. split; [exact Hl1 | reflexivity].
  - apply wp_bind. apply wp_on_unwind_nopanic.
    eapply wp_mono; [apply call_next_lawful; exact Hnx | | intros ? []]; cbn beta.
    intros _ w1 [Hs1 Hl1].
    assert (Hw1 : WF (self w1)) by (rewrite Hs1; exact Hw).
    apply wp_bind. apply wp_on_unwind_frame; [apply frame_unwind_pairs|].
    apply wp_bind. eapply wp_mono; [apply (insert_lawful E debug ck cq HL k v w1 Hw1) | |]; cbn beta.
    + intros old w2 (Hw2 & Hc2 & He2 & _ & Hlg2). rewrite Hs1 in Hc2, He2, Hlg2.
      eapply wp_mono; [apply drop_opt_val_lawful | | intros ? []]; cbn beta.
      intros _ w3 [Hs3 Hlg3].
      assert (Hw3 : WF (self w3)) by (rewrite Hs3; exact Hw2).
      eapply wp_mono; [apply (IH w3 Hw3) | |]; cbn beta.
      * intros _ w4 (Hw4 & Hc4 & Hex & evs & Hl4 & Hcnt). rewrite Hs3 in Hc4, Hex.
        split; [exact Hw4|]. split; [congruence|]. split.
        { rewrite l_extend_cons_ok.
          - rewrite <- He2, <- Hc2. exact Hex.
          - rewrite <- He2, (elems_length _ Hw2), <- Hc2. apply WF_len_le_cap. exact Hw2. }
        unfold logged in Hlg2, Hlg3.
        eexists. split.
        { rewrite Hl4, Hlg3, Hlg2, Hl1, <- !app_assoc. reflexivity. }
        rewrite !filter_app, !app_length, Hcnt.
        destruct (snd (l_insert ck (elems (self w)) k v false)) as [[k' v']|];
          destruct old as [v0|]; rewrite ?nopull_drops; cbn [length filter is_pull N.eqb Pos.eqb app]; lia.
      * intros w4 (Hw4 & Hc4 & Hex). rewrite Hs3 in Hc4, Hex.
        split; [exact Hw4|]. split; [congruence|].
        rewrite l_extend_cons_ok.
        -- rewrite <- He2, <- Hc2. exact Hex.
        -- rewrite <- He2, (elems_length _ Hw2), <- Hc2. apply WF_len_le_cap. exact Hw2.
    + intros w2 (Hs2 & _ & Hf & Hfull) w3 Hs3. rewrite Hs1 in Hf, Hfull. rewrite Hs3, Hs2, Hs1.
      split; [exact Hw|]. split; [reflexivity|].
      apply l_extend_cons_full; [exact Hf|]. rewrite (elems_length _ Hw). lia.
Qed.

Lemma extend_loop_lawful nx items (w : world) :
  (forall s, fst (nx s) <> Boom) -> WF (self w) ->
  wp (extend_loop E debug nx items)
     (fun _ w' => WF (self w') /\ cap (self w') = cap (self w) /\
                  l_extend (cap (self w)) (elems (self w)) items = Some (elems (self w')))
     (fun w' => WF (self w') /\ cap (self w') = cap (self w) /\
                l_extend (cap (self w)) (elems (self w)) items = None) w.
Proof.
  intros Hnx Hw. eapply wp_mono; [apply (extend_loop_full nx items Hnx w Hw) | | auto]; cbn beta.
  intros _ w' (H1 & H2 & H3 & _). auto.
Qed.

(* every item is pulled once, then the final None: length items + 1 calls *)
Lemma source_pulled_once nx items (w : world) :
  (forall s, fst (nx s) <> Boom) -> WF (self w) ->
  wp (extend_loop E debug nx items)
     (fun _ w' => exists evs, log w' = log w ++ evs /\
                              length (filter is_pull evs) = S (length items))
     (fun _ => True) w.
Proof.
  intros Hnx Hw. eapply wp_mono; [apply (extend_loop_full nx items Hnx w Hw) | | auto]; cbn beta.
  intros _ w' (_ & _ & _ & H). exact H.
Qed.

(* ---------------------------------------------------------------------- *)
(* 4. FromIterator / From<[_; N]>                                          *)
(* ---------------------------------------------------------------------- *)
Lemma wp_finally_drop_prop {A} (c : M A) (Qn : A -> world -> Prop) (P : Prop) (w : world) :
  wp c Qn (fun w' => WF (self w') /\ P) w -> wp (finally_drop E c) Qn (fun _ => P) w.
Proof.
  unfold wp at 1 2. unfold finally_drop. destruct (c w) as [a w'|w'|]; auto.
  intros [H HP]. pose proof (unwind_map_safe E w' H) as Hd. unfold wp in Hd.
  destruct (unwind_map E w'); auto.
Qed.

Lemma from_iter_lawful nx items (w : world) :
  (forall s, fst (nx s) <> Boom) -> WF (self w) -> len (self w) = 0 ->
  wp (from_iter E debug nx items)
     (fun _ w' => WF (self w') /\ cap (self w') = cap (self w) /\
                  l_extend (cap (self w)) [] items = Some (elems (self w')))
     (fun _ => l_extend (cap (self w)) [] items = None) w.
Proof.
  intros Hnx Hw Hlen. unfold from_iter. apply wp_finally_drop_prop.
  assert (He : elems (self w) = []) by (unfold elems; rewrite Hlen; reflexivity).
  eapply wp_mono; [apply (extend_loop_lawful nx items w Hnx Hw) | |]; cbn beta; rewrite He.
  - intros _ w' H. exact H.
  - intros w' (H1 & _ & H3). split; assumption.
Qed.

(* the pulls of from_iter on normal return *)
Lemma from_iter_pulled_once nx items (w : world) :
  (forall s, fst (nx s) <> Boom) -> WF (self w) ->
  wp (from_iter E debug nx items)
     (fun _ w' => exists evs, log w' = log w ++ evs /\
                              length (filter is_pull evs) = S (length items))
     (fun _ => True) w.
Proof.
  intros Hnx Hw. unfold from_iter. apply wp_finally_drop.
  eapply wp_mono; [apply (extend_loop_full nx items Hnx w Hw) | |]; cbn beta.
  - intros _ w' (_ & _ & _ & H). exact H.
  - intros w' (H & _). exact H.
Qed.

End Bulk.

(* ------------------------------------------------------------------------ *)
(* 6. Sets: Set<T,N> = Map<T,(),N>                                           *)
(* ------------------------------------------------------------------------ *)
Section SetBulk.
Context {K Q T : Type} (E : env K unit Q T) (debug : bool).
Context (ck : K -> N) (cq : Q -> N) (HL : Lawful E ck cq).
Notation M := (M K unit T).
Notation world := (world K unit T).

Definition unit_items (items : list K) : list (K * unit) := List.map (fun k => (k, tt)) items.

Lemma s_extend_loop_is_inserts nx items :
  s_extend_loop E debug nx items =
  (fix go (its : list K) : M unit :=
     match its with
     | [] => call_next nx
     | k :: rest =>
         bind (on_unwind (unwind_pairs E (List.map (fun x => (x, tt)) its)) (call_next nx)) (fun _ =>
         bind (on_unwind (unwind_pairs E (List.map (fun x => (x, tt)) rest))
                 (bind (bind (insert E debug k tt) (fun r => ret (is_none r))) (fun _ => ret tt))) (fun _ =>
         go rest))
     end) items.
Proof.
  induction items as [|k rest IH]; [reflexivity|].
  cbn [s_extend_loop]. rewrite IH. reflexivity.
Qed.

Lemma s_extend_loop_full nx items :
  (forall s, fst (nx s) <> Boom) -> forall w : world, WF (self w) ->
  wp (s_extend_loop E debug nx items)
     (fun _ w' => WF (self w') /\ cap (self w') = cap (self w) /\
                  l_extend ck (cap (self w)) (elems (self w)) (unit_items items) = Some (elems (self w')) /\
                  exists evs, log w' = log w ++ evs /\
                              length (filter is_pull evs) = S (length items))
     (fun w' => WF (self w') /\ cap (self w') = cap (self w) /\
                l_extend ck (cap (self w)) (elems (self w)) (unit_items items) = None) w.
Proof.
  intros Hnx. induction items as [|k rest IH]; intros w Hw; cbn [s_extend_loop unit_items List.map].
  - eapply wp_mono; [apply call_next_lawful; exact Hnx | | intros ? []]; cbn beta.
    intros _ w1 [Hs1 Hl1]. rewrite Hs1. split; [exact Hw|]. split; [reflexivity|]. split; [reflexivity|].
    exists [EvCall 1]. split; [exact Hl1 | reflexivity].
  - fold (unit_items rest).
    apply wp_bind. apply wp_on_unwind_nopanic.
    eapply wp_mono; [apply call_next_lawful; exact Hnx | | intros ? []]; cbn beta.
    intros _ w1 [Hs1 Hl1].
    assert (Hw1 : WF (self w1)) by (rewrite Hs1; exact Hw).
    apply wp_bind. apply wp_on_unwind_frame; [apply frame_unwind_pairs|].
    apply wp_bind. unfold s_insert. apply wp_bind.
    eapply wp_mono; [apply (insert_lawful E debug ck cq HL k tt w1 Hw1) | |]; cbn beta.
    + intros old w2 (Hw2 & Hc2 & He2 & _ & Hlg2). rewrite Hs1 in Hc2, He2, Hlg2.
      apply wp_ret. apply wp_ret.
      eapply wp_mono; [apply (IH w2 Hw2) | |]; cbn beta.
      * intros _ w4 (Hw4 & Hc4 & Hex & evs & Hl4 & Hcnt).
        split; [exact Hw4|]. split; [congruence|]. split.
        { rewrite l_extend_cons_ok.
          - rewrite <- He2, <- Hc2. exact Hex.
          - rewrite <- He2, (elems_length _ Hw2), <- Hc2. apply WF_len_le_cap. exact Hw2. }
        unfold logged in Hlg2.
        eexists. split.
        { rewrite Hl4, Hlg2, Hl1, <- !app_assoc. reflexivity. }
        rewrite !filter_app, !app_length, Hcnt.
        destruct (snd (l_insert ck (elems (self w)) k tt false)) as [[k' v']|];
          rewrite ?nopull_drops; cbn [length filter is_pull N.eqb Pos.eqb app]; lia.
      * intros w4 (Hw4 & Hc4 & Hex).
        split; [exact Hw4|]. split; [congruence|].
        rewrite l_extend_cons_ok.
        -- rewrite <- He2, <- Hc2. exact Hex.
        -- rewrite <- He2, (elems_length _ Hw2), <- Hc2. apply WF_len_le_cap. exact Hw2.
    + intros w2 (Hs2 & _ & Hf & Hfull) w3 Hs3. rewrite Hs1 in Hf, Hfull. rewrite Hs3, Hs2, Hs1.
      split; [exact Hw|]. split; [reflexivity|].
      apply l_extend_cons_full; [exact Hf|]. rewrite (elems_length _ Hw). lia.
Qed.

Lemma s_extend_loop_lawful nx items (w : world) :
  (forall s, fst (nx s) <> Boom) -> WF (self w) ->
  wp (s_extend_loop E debug nx items)
     (fun _ w' => WF (self w') /\ cap (self w') = cap (self w) /\
                  l_extend ck (cap (self w)) (elems (self w)) (List.map (fun k => (k, tt)) items) = Some (elems (self w')))
     (fun w' => WF (self w') /\ cap (self w') = cap (self w) /\
                l_extend ck (cap (self w)) (elems (self w)) (List.map (fun k => (k, tt)) items) = None) w.
Proof.
  intros Hnx Hw. eapply wp_mono; [apply (s_extend_loop_full nx items Hnx w Hw) | | auto]; cbn beta.
  intros _ w' (H1 & H2 & H3 & _). auto.
Qed.

Lemma s_source_pulled_once nx items (w : world) :
  (forall s, fst (nx s) <> Boom) -> WF (self w) ->
  wp (s_extend_loop E debug nx items)
     (fun _ w' => exists evs, log w' = log w ++ evs /\
                              length (filter is_pull evs) = S (length items))
     (fun _ => True) w.
Proof.
  intros Hnx Hw. eapply wp_mono; [apply (s_extend_loop_full nx items Hnx w Hw) | | auto]; cbn beta.
  intros _ w' (_ & _ & _ & H). exact H.
Qed.

Lemma s_from_iter_lawful nx items (w : world) :
  (forall s, fst (nx s) <> Boom) -> WF (self w) -> len (self w) = 0 ->
  wp (s_from_iter E debug nx items)
     (fun _ w' => WF (self w') /\ cap (self w') = cap (self w) /\
                  l_extend ck (cap (self w)) [] (List.map (fun k => (k, tt)) items) = Some (elems (self w')))
     (fun _ => l_extend ck (cap (self w)) [] (List.map (fun k => (k, tt)) items) = None) w.
Proof.
  intros Hnx Hw Hlen. unfold s_from_iter. apply wp_finally_drop_prop.
  assert (He : elems (self w) = []) by (unfold elems; rewrite Hlen; reflexivity).
  eapply wp_mono; [apply (s_extend_loop_lawful nx items w Hnx Hw) | |]; cbn beta; rewrite He.
  - intros _ w' H. exact H.
  - intros w' (H1 & _ & H3). split; assumption.
Qed.

End SetBulk.
