(* MoreOwned.v — closing audit findings for C02 / C04 / C17:
   ownership ALONG A HISTORY (not only per call), for EVERY environment:
     - g_run_acct / run_NoDup / run2_NoDup / srun_NoDup : the per-call
       conservation triples of Owned.v / Owned2.v composed by induction over a
       history of the Dict / Dict2 / SetDict interpreters: no identity is ever
       at two places among stored / with the caller / destroyed — in particular
       nothing is destroyed twice anywhere in the history, and nothing that was
       destroyed is still stored;
     - mrun_any_env_safe / mrun2_any_env_safe / srun_any_env_safe : no UB for any
       environment along any history;
     - run_tidy / srun_tidy / run_exact / srun_exact : under a lawful environment
       Tidy is preserved by every step, so nothing is ever lost: exact accounting. *)
Require Import Model.Base Model.Slots Model.MapOps Model.EntryOps Model.SetOps Model.Fmt Model.Exec.
Require Import Proofs.Hoare Proofs.Inv Proofs.Safety Proofs.Safety2 Proofs.Safety3 Proofs.Spec
               Proofs.Lawful Proofs.Lawful2 Proofs.Lawful3 Proofs.IterSpec Proofs.EqClone Proofs.Disjoint
               Proofs.EntrySpec Proofs.Dict Proofs.Bulk Proofs.SetDict Proofs.Dict2 Proofs.Owned Proofs.Owned2
               Proofs.FmtSerde Proofs.ExecSafe Proofs.ExecUniq Proofs.Legacy Proofs.Gaps.
From Coq Require Import Permutation.

(* ====================================================================== *)
(* 0. list facts                                                          *)
(* ====================================================================== *)
Lemma NoDup_app_l {A} (a b : list A) : NoDup (a ++ b) -> NoDup a.
Proof. induction a as [|x a IH]; cbn [app]; intros H; [constructor|]. inversion H; subst.
  constructor; [intros Hin; apply H2; apply in_or_app; left; exact Hin | apply IH; assumption]. Qed.
Lemma NoDup_app_r {A} (a b : list A) : NoDup (a ++ b) -> NoDup b.
Proof. induction a as [|x a IH]; cbn [app]; intros H; [exact H|]. inversion H; subst. apply IH; assumption. Qed.
Lemma NoDup_app_disj {A} (a b : list A) : NoDup (a ++ b) -> forall x, In x a -> ~ In x b.
Proof.
  induction a as [|y a IH]; cbn [app]; intros H x Hx; [destruct Hx|]. inversion H; subst.
  destruct Hx as [->|Hx]; [intros Hb; apply H2; apply in_or_app; right; exact Hb | apply IH; assumption].
Qed.

(* ====================================================================== *)
(* 1. a history of conserving steps, for EVERY environment                *)
(* ====================================================================== *)
Section GenHistory.
Context {K V Q T : Type} (E : env K V Q T).
Notation M := (M K V T). Notation world := (world K V T).

(* the accounting half of [conserves] (what a history needs; no Tidy clause) *)
Definition conservesW {A} (c : M A) (ins : list N) (outs : A -> list N) : Prop :=
  forall w, WF (self w) ->
    wp c (fun a w' => WF (self w') /\ cap (self w') = cap (self w) /\ exists lost, acct E w w' ins (outs a) lost)
         (fun w' => WF (self w') /\ cap (self w') = cap (self w) /\ exists lost, acct E w w' ins [] lost) w.

Lemma conserves_W {A} (c : M A) ins outs : conserves E c ins outs -> conservesW c ins outs.
Proof.
  intros Hc w Hw. eapply wp_mono; [apply Hc; exact Hw | |]; cbn beta.
  - intros a w' (H1 & H2 & lost & H3 & _). eauto.
  - intros w' H. exact H.
Qed.

Context {O R : Type} (stp : O -> M R).

(* the world after the whole history: a panicking step continues on the world
   left by unwinding (as Dict.mrun does); None = UB happened *)
Fixpoint gfinal (ops : list O) (w : world) : option world :=
  match ops with
  | [] => Some w
  | o :: t => match stp o w with Ok _ w' => gfinal t w' | Panic w' => gfinal t w' | UB => None end
  end.

Context (g_ins : O -> list N) (g_outs : O -> R -> list N) (g_pouts : O -> list N).

(* what the history handed back to the caller: the [g_outs] of every step that
   returned, the [g_pouts] of every step that panicked *)
Fixpoint gouts (ops : list O) (w : world) : list N :=
  match ops with
  | [] => []
  | o :: t => match stp o w with
              | Ok r w' => g_outs o r ++ gouts t w'
              | Panic w' => g_pouts o ++ gouts t w'
              | UB => []
              end
  end.

(* ---- safety only ---- *)
Lemma g_run_safe (Hk : forall o, keeps (stp o)) ops : forall w,
  WF (self w) -> exists wf, gfinal ops w = Some wf /\ WF (self wf) /\ cap (self wf) = cap (self w).
Proof.
  induction ops as [|o t IH]; intros w Hw; cbn [gfinal].
  - exists w. auto.
  - pose proof (Hk o w Hw) as Hs. unfold wp in Hs.
    destruct (stp o w) as [r w'|w'|]; [| |destruct Hs].
    + destruct Hs as [Hw' Hc']. destruct (IH w' Hw') as (wf & H1 & H2 & H3).
      exists wf. split; [exact H1|]. split; [exact H2 | congruence].
    + destruct Hs as [Hw' Hc']. destruct (IH w' Hw') as (wf & H1 & H2 & H3).
      exists wf. split; [exact H1|]. split; [exact H2 | congruence].
Qed.

(* ---- accounting: every panicking step may lose (leak) something ---- *)
Context (g_ok : O -> Prop).

Lemma g_run_acct
      (Hc : forall o, g_ok o -> conservesW (stp o) (g_ins o) (g_outs o))
      (Hp0 : forall o, g_pouts o = []) ops : forall w,
  WF (self w) -> Forall g_ok ops ->
  exists wf lost, gfinal ops w = Some wf /\ WF (self wf) /\ cap (self wf) = cap (self w) /\
    Permutation (owned E (self wf) ++ gouts ops w ++ lost ++ dropped (log wf))
                (owned E (self w) ++ flat_map g_ins ops ++ dropped (log w)).
Proof.
  induction ops as [|o t IH]; intros w Hw Hok; cbn [gfinal gouts flat_map].
  - exists w, []. split; [reflexivity|]. split; [exact Hw|]. split; [reflexivity|]. perm_ids.
  - inversion Hok as [|o' t' Ho Ht]; subst.
    pose proof (Hc o Ho w Hw) as Hs. unfold wp in Hs.
    destruct (stp o w) as [r w'|w'|]; [| |destruct Hs].
    + destruct Hs as (Hw' & Hc' & lost1 & HP1). destruct (IH w' Hw' Ht) as (wf & lost2 & H1 & H2 & H3 & HP2).
      exists wf, (lost1 ++ lost2). split; [exact H1|]. split; [exact H2|]. split; [congruence|].
      unfold acct in HP1. perm_ids.
    + destruct Hs as (Hw' & Hc' & lost1 & HP1). destruct (IH w' Hw' Ht) as (wf & lost2 & H1 & H2 & H3 & HP2).
      exists wf, (lost1 ++ lost2). split; [exact H1|]. split; [exact H2|]. split; [congruence|].
      rewrite (Hp0 o). unfold acct in HP1. perm_ids.
Qed.

(* the headline: no identity occurs twice among stored ++ still with the
   caller ++ not yet handed in ([extra]) ++ destroyed, after ANY history *)
Lemma g_run_NoDup
      (Hc : forall o, g_ok o -> conservesW (stp o) (g_ins o) (g_outs o))
      (Hp0 : forall o, g_pouts o = []) ops w wf extra :
  WF (self w) -> Forall g_ok ops ->
  NoDup (owned E (self w) ++ flat_map g_ins ops ++ extra ++ dropped (log w)) ->
  gfinal ops w = Some wf ->
  NoDup (owned E (self wf) ++ gouts ops w ++ extra ++ dropped (log wf)).
Proof.
  intros Hw Hok Hn Hf. destruct (g_run_acct Hc Hp0 ops w Hw Hok) as (wf' & lost & H1 & _ & _ & HP).
  rewrite Hf in H1. injection H1 as <-. perm_ids.
Qed.

(* ---- exact accounting: every step keeps Tidy and loses nothing ---- *)
Definition xpost (w : world) (ins outs : list N) (w' : world) : Prop :=
  WF (self w') /\ cap (self w') = cap (self w) /\ Tidy (self w') /\ acct E w w' ins outs [].
Definition exactly {A} (c : M A) (ins : list N) (outs : A -> list N) (pouts : list N) : Prop :=
  forall w, WF (self w) -> Tidy (self w) -> wp c (fun a => xpost w ins (outs a)) (xpost w ins pouts) w.

Lemma g_run_exact
      (Hx : forall o, g_ok o -> exactly (stp o) (g_ins o) (g_outs o) (g_pouts o)) ops : forall w,
  WF (self w) -> Tidy (self w) -> Forall g_ok ops ->
  exists wf, gfinal ops w = Some wf /\ WF (self wf) /\ cap (self wf) = cap (self w) /\ Tidy (self wf) /\
    Permutation (owned E (self wf) ++ gouts ops w ++ dropped (log wf))
                (owned E (self w) ++ flat_map g_ins ops ++ dropped (log w)).
Proof.
  induction ops as [|o t IH]; intros w Hw Ht Hok; cbn [gfinal gouts flat_map].
  - exists w. split; [reflexivity|]. split; [exact Hw|]. split; [reflexivity|]. split; [exact Ht|]. perm_ids.
  - inversion Hok as [|o' t' Ho Htl]; subst.
    pose proof (Hx o Ho w Hw Ht) as Hs. unfold wp in Hs.
    destruct (stp o w) as [r w'|w'|]; [| |destruct Hs].
    + destruct Hs as (Hw' & Hc' & Ht' & HP1). destruct (IH w' Hw' Ht' Htl) as (wf & H1 & H2 & H3 & H4 & HP2).
      exists wf. split; [exact H1|]. split; [exact H2|]. split; [congruence|]. split; [exact H4|].
      unfold acct in HP1. perm_ids.
    + destruct Hs as (Hw' & Hc' & Ht' & HP1). destruct (IH w' Hw' Ht' Htl) as (wf & H1 & H2 & H3 & H4 & HP2).
      exists wf. split; [exact H1|]. split; [exact H2|]. split; [congruence|]. split; [exact H4|].
      unfold acct in HP1. perm_ids.
Qed.

End GenHistory.

(* ====================================================================== *)
(* 2. the 13 dictionary operations of Dict.v, EVERY environment           *)
(* ====================================================================== *)
Section DictHistory.
Context {K V Q T : Type} (E : env K V Q T) (debug : bool).
Notation M := (M K V T). Notation world := (world K V T). Notation kv := (K * V)%type.
Notation dop := (@Dict.dop K V Q). Notation dres := (@Dict.dres K V).
Notation mstep := (Dict.mstep E debug).

Lemma conserves_bind_ret {A B} (c : M A) (g : A -> B) ins (outs1 : A -> list N) (outs2 : B -> list N) :
  conserves E c ins outs1 -> (forall a, outs1 a = outs2 (g a)) ->
  conserves E (a <- c ;; ret (g a)) ins outs2.
Proof.
  intros Hc He. eapply conserves_bind0; [exact Hc|]. intros a. rewrite He. apply (conserves_ret E (g a) outs2).
Qed.

Lemma conserves_keeps {A} (c : M A) ins outs : conserves E c ins outs -> keeps c.
Proof.
  intros Hc w Hw. eapply wp_mono; [apply Hc; exact Hw | |]; cbn beta.
  - intros a w' (H1 & H2 & _). split; assumption.
  - intros w' (H1 & H2 & _). split; assumption.
Qed.

Lemma index_quiet q (w : world) :
  WF (self w) ->
  wp (index E q) (fun i w' => self w' = self w /\ log w' = log w /\ i < len (self w))
     (fun w' => self w' = self w /\ log w' = log w) w.
Proof.
  intros Hw. unfold index, get. apply wp_bind.
  eapply wp_mono; [apply scan_quiet; [intros; apply quiet_test_q | exact Hw] | |]; cbn beta.
  - intros [i|] w' (Hs & Hg & Hr); [apply wp_ret | apply wp_panic]; auto.
  - auto.
Qed.

Lemma index_mut_quiet q (w : world) :
  WF (self w) ->
  wp (index_mut E q) (fun i w' => self w' = self w /\ log w' = log w /\ i < len (self w))
     (fun w' => self w' = self w /\ log w' = log w) w.
Proof.
  intros Hw. unfold index_mut, get_mut. apply wp_bind.
  eapply wp_mono; [apply scan_quiet; [intros; apply quiet_test_q | exact Hw] | |]; cbn beta.
  - intros [i|] w' (Hs & Hg & Hr); [apply wp_ret | apply wp_panic]; auto.
  - auto.
Qed.

(* identities an operation takes from the caller *)
Definition op_ins (o : dop) : list N :=
  match o with
  | DInsert k v | DInsertKV k v | DCheckedInsert k v => ids_pair E (k, v)
  | DGetMut _ v' | DIndexMut _ v' => idV E v'      (* the value written through the reference *)
  | _ => []
  end.
(* identities it hands back with its result (a value read through a shared
   reference - DGet, DGetKV, DIndex - is not handed out) *)
Definition op_outs (o : dop) (r : dres) : list N :=
  match o, r with
  | DInsert _ _, RVal v0 | DCheckedInsert _ _, RVal v0 | DRemove _, RVal v0 => idV E v0
  | DGetMut _ _, RVal v0 | DIndexMut _ _, RVal v0 => idV E v0   (* the displaced old value *)
  | DGetMut _ v', RNone => idV E v'                             (* absent key: v' was never moved *)
  | DInsertKV _ _, RPair p | DRemoveEntry _, RPair p => ids_pair E p
  | _, _ => []
  end.
(* retain's closure may rewrite the value in place; it must not change which
   object it is (the replacing form is MoreOwned.retain_conserves_gen) *)
Definition op_ok (o : dop) : Prop :=
  match o with
  | DRetain g => forall k v, idV E (snd (g k v)) = idV E v
  | _ => True
  end.

Lemma mstep_conserves (o : dop) : op_ok o -> conserves E (mstep o) (op_ins o) (op_outs o).
Proof.
  destruct o as [k v|k v|k v|q|q v'|q|q|q|q v'|q|q|g|]; intros Hok; cbn [Dict.mstep op_ins].
  - (* insert *)
    apply (conserves_bind_ret _ _ _ (fun r => match r with Some v0 => idV E v0 | None => [] end));
      [apply conserves_insert | intros [v0|]; reflexivity].
  - apply (conserves_bind_ret _ _ _ (fun r => match r with Some p => ids_pair E p | None => [] end));
      [apply conserves_insert_key_value | intros [p|]; reflexivity].
  - apply (conserves_bind_ret _ _ _ (fun r => match r with Some (Some v0) => idV E v0 | _ => [] end));
      [apply conserves_checked_insert | intros [[v0|]|]; reflexivity].
  - (* get *)
    unfold get. apply conserves_scan_then; [intros; apply quiet_test_q|]. intros [i|] w Hw Hi.
    + destruct (WF_live _ _ Hw Hi) as [p Hp]. apply wp_bind. eapply wp_p_ref; [exact Hp|]. apply wp_ret.
      apply (cpostN_refl E w w []); auto.
    + apply wp_ret. apply (cpostN_refl E w w []); auto.
  - (* get_mut, then write v' through the reference *)
    unfold get_mut. apply conserves_scan_then; [intros; apply quiet_test_q|]. intros [i|] w Hw Hi.
    + destruct (WF_live _ _ Hw Hi) as [p Hp]. apply wp_bind. eapply wp_p_replace; [exact Hp|]. apply wp_ret.
      cbn [op_outs]. apply (cpostN_replace E w i p); auto. unfold ids_pair; cbn [fst snd]. perm_ids.
    + apply wp_ret. cbn [op_outs]. apply (cpostN_refl E w w); auto.
  - (* get_key_value *)
    unfold get_key_value. apply conserves_scan_then; [intros; apply quiet_test_q|]. intros [i|] w Hw Hi.
    + destruct (WF_live _ _ Hw Hi) as [p Hp]. apply wp_bind. eapply wp_p_ref; [exact Hp|]. apply wp_ret.
      apply (cpostN_refl E w w []); auto.
    + apply wp_ret. apply (cpostN_refl E w w []); auto.
  - apply (conserves_bind_ret _ _ _ (fun _ => [])); [apply conserves_contains_key | reflexivity].
  - (* index *)
    intros w Hw. apply wp_bind. eapply wp_mono; [apply index_quiet; exact Hw | |]; cbn beta.
    + intros i w1 (Hs & Hg & Hi). rewrite <- Hs in Hi.
      assert (Hw1 : WF (self w1)) by (rewrite Hs; exact Hw).
      destruct (WF_live _ _ Hw1 Hi) as [p Hp]. apply wp_bind. eapply wp_p_ref; [exact Hp|]. apply wp_ret.
      apply (cpostN_refl E w w1 []); [exact Hw | exact Hs | rewrite Hg; reflexivity].
    + intros w1 [Hs Hg]. apply (cpostP_refl E w w1 []); [exact Hw | exact Hs | rewrite Hg; reflexivity].
  - (* index_mut *)
    intros w Hw. apply wp_bind. eapply wp_mono; [apply index_mut_quiet; exact Hw | |]; cbn beta.
    + intros i w1 (Hs & Hg & Hi). rewrite <- Hs in Hi.
      assert (Hw1 : WF (self w1)) by (rewrite Hs; exact Hw).
      assert (Hd : dropped (log w1) = dropped (log w)) by (rewrite Hg; reflexivity).
      destruct (WF_live _ _ Hw1 Hi) as [p Hp]. apply wp_bind. eapply wp_p_replace; [exact Hp|]. apply wp_ret.
      cbn [op_outs]. apply (cpostN_base E w w1 _ _ _ Hs Hd).
      apply (cpostN_replace E w1 i p); auto. unfold ids_pair; cbn [fst snd]. perm_ids.
    + intros w1 [Hs Hg]. apply (cpostP_refl E w w1); [exact Hw | exact Hs | rewrite Hg; reflexivity].
  - apply (conserves_bind_ret _ _ _ (fun r => match r with Some v0 => idV E v0 | None => [] end));
      [apply conserves_remove | intros [v0|]; reflexivity].
  - apply (conserves_bind_ret _ _ _ (fun r => match r with Some p => ids_pair E p | None => [] end));
      [apply conserves_remove_entry | intros [p|]; reflexivity].
  - apply (conserves_bind_ret _ _ _ (fun _ => [])); [|reflexivity].
    apply conserves_retain. intros s k v. cbn [fst snd]. apply Hok.
  - apply (conserves_bind_ret _ _ _ (fun _ => [])); [apply conserves_clear | reflexivity].
Qed.

(* every operation keeps the invariant for EVERY environment and EVERY closure *)
Lemma mstep_keeps (o : dop) : keeps (mstep o).
Proof.
  assert (H : forall o', op_ok o' -> keeps (mstep o'))
    by (intros o' H'; exact (conserves_keeps _ _ _ (mstep_conserves o' H'))).
  destruct o as [k v|k v|k v|q|q v'|q|q|q|q v'|q|q|g|]; try (apply H; exact I).
  cbn [Dict.mstep]. apply Safety3.keeps_bind; [apply keeps_retain | intros; apply Safety3.keeps_ret].
Qed.

(* ---- histories ---- *)
(* identities still with the caller after the history: whatever each returning
   step handed out (a step that panics hands nothing back) *)
Definition mouts : list dop -> world -> list N := gouts mstep op_outs (fun _ => []).

Lemma mfinal_gfinal ops : forall w, Dict.mfinal E debug ops w = gfinal mstep ops w.
Proof.
  induction ops as [|o t IH]; intros w; cbn [Dict.mfinal gfinal]; [reflexivity|].
  destruct (mstep o w); auto.
Qed.

Lemma mstep_conservesW o : op_ok o -> conservesW E (mstep o) (op_ins o) (op_outs o).
Proof. intros H. apply conserves_W. apply mstep_conserves. exact H. Qed.

(* history-level accounting, EVERY environment, both outcomes of every step *)
Theorem run_acct ops w :
  WF (self w) -> Forall op_ok ops ->
  exists wf lost, Dict.mfinal E debug ops w = Some wf /\ WF (self wf) /\ cap (self wf) = cap (self w) /\
    Permutation (owned E (self wf) ++ mouts ops w ++ lost ++ dropped (log wf))
                (owned E (self w) ++ flat_map op_ins ops ++ dropped (log w)).
Proof.
  intros Hw Hok. rewrite mfinal_gfinal.
  exact (g_run_acct E mstep op_ins op_outs (fun _ => []) op_ok mstep_conservesW (fun _ => eq_refl) ops w Hw Hok).
Qed.

(* "destroyed exactly once overall, however used": if the identities stored at
   the start, those of all arguments of the history, those not involved
   ([extra]) and those already destroyed are pairwise distinct, then after the
   history no identity occurs twice among stored ++ handed back ++ extra ++
   destroyed.  No Lawful hypothesis: == may lie, change its mind, panic; Drop
   and Clone may panic. *)
Theorem run_NoDup ops w wf extra :
  WF (self w) -> Forall op_ok ops ->
  NoDup (owned E (self w) ++ flat_map op_ins ops ++ extra ++ dropped (log w)) ->
  Dict.mfinal E debug ops w = Some wf ->
  NoDup (owned E (self wf) ++ mouts ops w ++ extra ++ dropped (log wf)).
Proof.
  intros Hw Hok Hn Hf. rewrite mfinal_gfinal in Hf.
  exact (g_run_NoDup E mstep op_ins op_outs (fun _ => []) op_ok mstep_conservesW (fun _ => eq_refl)
           ops w wf extra Hw Hok Hn Hf).
Qed.

(* spelled out: nothing is destroyed twice anywhere in the history, nothing
   destroyed is still stored or with the caller, nothing stored is with the caller *)
Corollary run_no_double_drop ops w wf :
  WF (self w) -> Forall op_ok ops ->
  NoDup (owned E (self w) ++ flat_map op_ins ops ++ dropped (log w)) ->
  Dict.mfinal E debug ops w = Some wf ->
  NoDup (dropped (log wf)) /\ NoDup (owned E (self wf)) /\
  (forall x, In x (owned E (self wf)) -> ~ In x (dropped (log wf)) /\ ~ In x (mouts ops w)) /\
  (forall x, In x (mouts ops w) -> ~ In x (dropped (log wf))).
Proof.
  intros Hw Hok Hn Hf. pose proof (run_NoDup ops w wf [] Hw Hok Hn Hf) as H. cbn [app] in H.
  split; [apply NoDup_app_r in H; apply NoDup_app_r in H; exact H|].
  split; [apply NoDup_app_l in H; exact H|]. split.
  - intros x Hx. pose proof (NoDup_app_disj _ _ H x Hx) as Hd.
    split; intros Hy; apply Hd; apply in_or_app; [right | left]; exact Hy.
  - intros x Hx. apply NoDup_app_r in H. exact (NoDup_app_disj _ _ H x Hx).
Qed.

(* at every moment: after any prefix of the history, counting the arguments of
   the operations still to come *)
Lemma Forall_firstn_ok {A} (P : A -> Prop) n (l : list A) : Forall P l -> Forall P (firstn n l).
Proof. revert n; induction l as [|a l IH]; intros [|n] H; cbn [firstn]; try constructor; inversion H; subst; auto. Qed.

Corollary run_NoDup_prefix ops n w wn :
  WF (self w) -> Forall op_ok ops ->
  NoDup (owned E (self w) ++ flat_map op_ins ops ++ dropped (log w)) ->
  Dict.mfinal E debug (firstn n ops) w = Some wn ->
  NoDup (owned E (self wn) ++ mouts (firstn n ops) w ++ flat_map op_ins (skipn n ops) ++ dropped (log wn)).
Proof.
  intros Hw Hok Hn Hf. apply (run_NoDup (firstn n ops) w wn (flat_map op_ins (skipn n ops))); auto.
  - apply Forall_firstn_ok. exact Hok.
  - rewrite <- (firstn_skipn n ops) in Hn at 1. rewrite flat_map_app in Hn. rewrite <- app_assoc in Hn. exact Hn.
Qed.

(* never UB: every environment, every closure, every history *)
Theorem mrun_any_env_safe ops w :
  WF (self w) -> exists wf, Dict.mfinal E debug ops w = Some wf /\ WF (self wf) /\ cap (self wf) = cap (self w).
Proof. intros Hw. rewrite mfinal_gfinal. exact (g_run_safe mstep mstep_keeps ops w Hw). Qed.

(* ... and the result list has one entry per operation *)
Corollary mrun_any_env_length ops : forall w, WF (self w) -> length (Dict.mrun E debug ops w) = length ops.
Proof.
  induction ops as [|o t IH]; intros w Hw; cbn [Dict.mrun length]; [reflexivity|].
  pose proof (mstep_keeps o w Hw) as Hs. unfold wp in Hs.
  destruct (mstep o w) as [r w'|w'|]; [| |destruct Hs]; cbn [length]; f_equal; apply IH; apply Hs.
Qed.

End DictHistory.

(* ====================================================================== *)
(* 3. Dict2: the same histories interleaved with drain, whole-container    *)
(*    iteration, entry(k).or_insert(v) and extend — EVERY environment      *)
(* ====================================================================== *)
Section Dict2History.
Context {K V Q T : Type} (E : env K V Q T) (debug : bool).
Notation M := (M K V T). Notation world := (world K V T). Notation kv := (K * V)%type.
Notation dop := (@Dict.dop K V Q). Notation dop2 := (@Dict2.dop2 K V Q). Notation dres2 := (@Dict2.dres2 K V).
Notation mstep2 := (Dict2.mstep2 E debug).

Lemma conservesW_keeps {A} (c : M A) ins outs : conservesW E c ins outs -> keeps c.
Proof.
  intros Hc w Hw. eapply wp_mono; [apply Hc; exact Hw | |]; cbn beta.
  - intros a w' (H1 & H2 & _). split; assumption.
  - intros w' (H1 & H2 & _). split; assumption.
Qed.

(* n steps of a drain: what is yielded leaves the slots, nothing is destroyed *)
Lemma drain_run_acctW n : forall c (w : world),
  DrainInv c (self w) ->
  wp (drain_run n c)
     (fun r w' => DrainInv (snd r) (self w') /\ cap (self w') = cap (self w) /\
                  acct E w w' [] (flat_map (ids_pair E) (fst r)) [])
     (fun _ => False) w.
Proof.
  induction n as [|n IH]; intros c w HD; cbn [drain_run].
  - apply wp_ret. cbn [fst snd flat_map]. split; [exact HD|]. split; [reflexivity|]. unfold acct. perm_ids.
  - apply wp_bind. eapply wp_mono; [apply (drain_next_acct E c w HD) | | intros ? []]; cbn beta.
    intros [o c'] w1 (HD1 & Hc1 & HA1 & _ & _). cbn [fst snd] in HD1, HA1. destruct o as [p|].
    + apply wp_bind. eapply wp_mono; [apply (IH c' w1 HD1) | | intros ? []]; cbn beta.
      intros [r c''] w2 (HD2 & Hc2 & HA2). cbn [fst snd] in HD2, HA2. apply wp_ret. cbn [fst snd flat_map].
      split; [exact HD2|]. split; [congruence|]. unfold acct in *. perm_ids.
    + apply wp_ret. cbn [fst snd flat_map]. split; [exact HD1|]. split; [exact Hc1|]. exact HA1.
Qed.

Definition op2_ins (o : dop2) : list N :=
  match o with
  | DBase o => op_ins E o
  | DOrInsert k v => ids_pair E (k, v)
  | DExtend items => flat_map (ids_pair E) items
  | _ => []
  end.
Definition op2_outs (o : dop2) (r : dres2) : list N :=
  match o, r with
  | DBase o, RBase r => op_outs E o r
  | DDrain _, RItems l => flat_map (ids_pair E) l     (* the drained items are the caller's *)
  | _, _ => []
  end.
Definition op2_ok (o : dop2) : Prop := match o with DBase o => op_ok E o | _ => True end.

Lemma mstep2_conservesW (o : dop2) : op2_ok o -> conservesW E (mstep2 o) (op2_ins o) (op2_outs o).
Proof.
  destruct o as [o|take| |k v|items]; intros Hok; cbn [Dict2.mstep2 op2_ins].
  - apply conserves_W. apply (conserves_bind_ret E _ _ _ (op_outs E o)); [|reflexivity].
    apply mstep_conserves. exact Hok.
  - (* drain, take, drop the Drain *)
    intros w Hw. apply wp_bind. eapply wp_mono; [apply (drain_owned E w Hw) | |]; cbn beta.
    + intros c w1 (HD & Hc & _ & _ & _ & Ho & Hg).
      apply wp_bind. eapply wp_mono; [apply (drain_run_acctW take c w1 HD) | | intros ? []]; cbn beta.
      intros x w2 (HD2 & Hc2 & HA2). unfold acct in HA2. rewrite Ho, Hg in HA2.
      apply wp_bind. eapply wp_mono; [apply (drain_drop_acct E (snd x) w2 HD2) | |]; cbn beta.
      * intros _ w3 (Hw3 & _ & Hc3 & HA3 & _). apply wp_ret. cbn [op2_outs].
        split; [exact Hw3|]. split; [congruence|]. exists []. unfold acct in *. perm_ids.
      * intros w3 (Hw3 & _ & Hc3 & HA3 & _).
        split; [exact Hw3|]. split; [congruence|]. exists (flat_map (ids_pair E) (fst x)). unfold acct in *. perm_ids.
    + intros w1 [Hs Hg]. rewrite Hs. split; [exact Hw|]. split; [reflexivity|]. exists [].
      unfold acct. rewrite Hs, Hg. perm_ids.
  - (* iterate: nothing moves *)
    intros w Hw. apply wp_bind. apply wp_get_len.
    apply (wp_bind_assoc iter (fun c => iter_run (len (self w)) c)
             (fun x => ps <- Dict2.read_slots (fst x) ;; ret (RItems ps))).
    apply wp_bind. eapply wp_mono; [apply iter_run_exact; exact Hw | | intros ? []]; cbn beta.
    intros x w1 (-> & Hfst & _). rewrite Hfst, Nat.min_id. apply wp_bind.
    eapply wp_mono; [apply (Dict2.read_slots_spec (len (self w)) 0 w Hw); lia | | intros ? []]; cbn beta.
    intros ps w2 [-> _]. apply wp_ret. cbn [op2_outs]. split; [exact Hw|]. split; [reflexivity|]. exists []. unfold acct. perm_ids.
  - (* entry(k).or_insert(v) *)
    intros w Hw. apply wp_bind.
    eapply wp_mono; [apply wp_conj; [apply (conserves_entry_of E k w Hw) | apply (entry_of_spec E k w Hw)] | |]; cbn beta.
    + intros e w1 [H1 [Hs He]]. assert (Hw1 : WF (self w1)) by apply H1. rewrite <- Hs in He.
      apply wp_bind. eapply wp_mono; [apply (conserves_or_insert E debug e v w1 Hw1 He) | |]; cbn beta.
      * intros i w2 [H2 Hi]. pose proof (cpostN_trans E (idV E v) _ _ _ _ _ _ H1 H2) as H12.
        destruct H12 as (A & B & lost & C & _).
        destruct (WF_live _ _ A Hi) as [p Hp]. apply wp_bind. eapply wp_p_ref; [exact Hp|]. apply wp_ret.
        split; [exact A|]. split; [exact B|]. exists lost. exact C.
      * intros w2 H2. exact (cpostNP_trans E (idV E v) _ _ _ _ _ H1 H2).
    + intros w1 [H1 _]. apply (cpostP_weaken E _ _ _ (idV E v)) in H1. exact H1.
  - apply conserves_W. apply (conserves_bind_ret E _ _ _ (fun _ => [])); [|reflexivity].
    apply conserves_extend_loop.
Qed.

Lemma mstep2_keeps (o : dop2) : keeps (mstep2 o).
Proof.
  assert (H : forall o', op2_ok o' -> keeps (mstep2 o'))
    by (intros o' H'; exact (conservesW_keeps _ _ _ (mstep2_conservesW o' H'))).
  destruct o as [o|take| |k v|items]; try (apply H; exact I).
  cbn [Dict2.mstep2]. apply Safety3.keeps_bind; [apply mstep_keeps | intros; apply Safety3.keeps_ret].
Qed.

Definition mouts2 : list dop2 -> world -> list N := gouts mstep2 op2_outs (fun _ => []).

Lemma mfinal2_gfinal ops : forall w, Dict2.mfinal2 E debug ops w = gfinal mstep2 ops w.
Proof.
  induction ops as [|o t IH]; intros w; cbn [Dict2.mfinal2 gfinal]; [reflexivity|].
  destruct (mstep2 o w); auto.
Qed.

Theorem run2_acct ops w :
  WF (self w) -> Forall op2_ok ops ->
  exists wf lost, Dict2.mfinal2 E debug ops w = Some wf /\ WF (self wf) /\ cap (self wf) = cap (self w) /\
    Permutation (owned E (self wf) ++ mouts2 ops w ++ lost ++ dropped (log wf))
                (owned E (self w) ++ flat_map op2_ins ops ++ dropped (log w)).
Proof.
  intros Hw Hok. rewrite mfinal2_gfinal.
  exact (g_run_acct E mstep2 op2_ins op2_outs (fun _ => []) op2_ok mstep2_conservesW (fun _ => eq_refl) ops w Hw Hok).
Qed.

Theorem run2_NoDup ops w wf extra :
  WF (self w) -> Forall op2_ok ops ->
  NoDup (owned E (self w) ++ flat_map op2_ins ops ++ extra ++ dropped (log w)) ->
  Dict2.mfinal2 E debug ops w = Some wf ->
  NoDup (owned E (self wf) ++ mouts2 ops w ++ extra ++ dropped (log wf)).
Proof.
  intros Hw Hok Hn Hf. rewrite mfinal2_gfinal in Hf.
  exact (g_run_NoDup E mstep2 op2_ins op2_outs (fun _ => []) op2_ok mstep2_conservesW (fun _ => eq_refl)
           ops w wf extra Hw Hok Hn Hf).
Qed.

Theorem mrun2_any_env_safe ops w :
  WF (self w) -> exists wf, Dict2.mfinal2 E debug ops w = Some wf /\ WF (self wf) /\ cap (self wf) = cap (self w).
Proof. intros Hw. rewrite mfinal2_gfinal. exact (g_run_safe mstep2 mstep2_keeps ops w Hw). Qed.

End Dict2History.

(* ====================================================================== *)
(* 4. the Set interpreter of SetDict.v — EVERY environment                *)
(* ====================================================================== *)
Section SetHistory.
Context {K Q T : Type} (E : env K unit Q T) (debug : bool).
Notation M := (M K unit T). Notation world := (world K unit T).
Notation sop := (@SetDict.sop K Q). Notation sres := (@SetDict.sres K).
Notation sstep := (SetDict.sstep E debug).

Lemma sstep_get_conserves q : conserves E (sstep (SoGet q)) [] (fun _ => []).
Proof.
  cbn [SetDict.sstep]. unfold s_get, get_key_value.
  apply conserves_scan_then; [intros; apply quiet_test_q|]. intros [i|] w Hw Hi.
  - destruct (WF_live _ _ Hw Hi) as [p Hp]. apply wp_bind. eapply wp_p_ref; [exact Hp|]. apply wp_ret.
    apply (cpostN_refl E w w []); auto.
  - apply wp_ret. apply (cpostN_refl E w w []); auto.
Qed.

(* never UB, whatever == / Drop / the retain closure do *)
Lemma sstep_keeps (o : sop) : keeps (sstep o).
Proof.
  destruct o as [k|k|q|q|q|q|g| |items]; cbn [SetDict.sstep];
    try (apply Safety3.keeps_bind; [|intros; apply Safety3.keeps_ret]).
  - apply keeps_s_insert.
  - apply keeps_s_replace.
  - apply keeps_s_contains.
  - exact (conserves_keeps E _ _ _ (sstep_get_conserves q)).
  - apply keeps_s_remove.
  - apply keeps_s_take.
  - apply keeps_s_retain.
  - apply keeps_s_clear.
  - apply keeps_s_extend.
Qed.

Lemma smfinal_gfinal ops : forall w, SetDict.smfinal E debug ops w = gfinal sstep ops w.
Proof.
  induction ops as [|o t IH]; intros w; cbn [SetDict.smfinal gfinal]; [reflexivity|].
  destruct (sstep o w); auto.
Qed.

Theorem srun_any_env_safe ops w :
  WF (self w) -> exists wf, SetDict.smfinal E debug ops w = Some wf /\ WF (self wf) /\ cap (self wf) = cap (self w).
Proof. intros Hw. rewrite smfinal_gfinal. exact (g_run_safe sstep sstep_keeps ops w Hw). Qed.

(* ---- accounting: () carries no ledger identity (true of every real Set) ---- *)
Context (HU : idV E tt = []).

Definition sop_ins (o : sop) : list N :=
  match o with
  | SoInsert k | SoReplace k => ids_pair E (k, tt)
  | SoExtend items => flat_map (fun k => ids_pair E (k, tt)) items
  | _ => []
  end.
Definition sop_outs (o : sop) (r : sres) : list N :=
  match o, r with
  | SoReplace _, SElem k0 | SoTake _, SElem k0 => ids_pair E (k0, tt)
  | _, _ => []
  end.

Lemma sstep_conserves (o : sop) : conserves E (sstep o) (sop_ins o) (sop_outs o).
Proof.
  destruct o as [k|k|q|q|q|q|g| |items]; cbn [SetDict.sstep sop_ins].
  - apply (conserves_bind_ret E _ _ _ (fun _ => [])); [apply (conserves_s_insert_unit E debug HU) | reflexivity].
  - apply (conserves_bind_ret E _ _ _ (fun r => match r with Some k' => ids_pair E (k', tt) | None => [] end));
      [apply conserves_s_replace | intros [k'|]; reflexivity].
  - apply (conserves_bind_ret E _ _ _ (fun _ => [])); [apply conserves_s_contains | reflexivity].
  - exact (sstep_get_conserves q).
  - apply (conserves_bind_ret E _ _ _ (fun _ => [])); [apply (conserves_s_remove_unit E debug HU) | reflexivity].
  - apply (conserves_bind_ret E _ _ _ (fun r => match r with Some k' => ids_pair E (k', tt) | None => [] end));
      [apply conserves_s_take | intros [k'|]; reflexivity].
  - apply (conserves_bind_ret E _ _ _ (fun _ => [])); [apply conserves_s_retain | reflexivity].
  - apply (conserves_bind_ret E _ _ _ (fun _ => [])); [apply conserves_s_clear | reflexivity].
  - apply (conserves_bind_ret E _ _ _ (fun _ => [])); [apply (conserves_s_extend E debug HU) | reflexivity].
Qed.

Definition souts : list sop -> world -> list N := gouts sstep sop_outs (fun _ => []).

Lemma sstep_conservesW o : True -> conservesW E (sstep o) (sop_ins o) (sop_outs o).
Proof. intros _. apply conserves_W. apply sstep_conserves. Qed.

Theorem srun_acct ops w :
  WF (self w) ->
  exists wf lost, SetDict.smfinal E debug ops w = Some wf /\ WF (self wf) /\ cap (self wf) = cap (self w) /\
    Permutation (owned E (self wf) ++ souts ops w ++ lost ++ dropped (log wf))
                (owned E (self w) ++ flat_map sop_ins ops ++ dropped (log w)).
Proof.
  intros Hw. rewrite smfinal_gfinal.
  apply (g_run_acct E sstep sop_ins sop_outs (fun _ => []) (fun _ => True) sstep_conservesW (fun _ => eq_refl) ops w Hw).
  apply Forall_forall. intros; exact I.
Qed.

Theorem srun_NoDup ops w wf extra :
  WF (self w) ->
  NoDup (owned E (self w) ++ flat_map sop_ins ops ++ extra ++ dropped (log w)) ->
  SetDict.smfinal E debug ops w = Some wf ->
  NoDup (owned E (self wf) ++ souts ops w ++ extra ++ dropped (log wf)).
Proof.
  intros Hw Hn Hf. rewrite smfinal_gfinal in Hf.
  apply (g_run_NoDup E sstep sop_ins sop_outs (fun _ => []) (fun _ => True) sstep_conservesW (fun _ => eq_refl)
           ops w wf extra Hw); [|exact Hn | exact Hf].
  apply Forall_forall. intros; exact I.
Qed.

End SetHistory.

(* ====================================================================== *)
(* 5. lawful environments: Tidy is preserved along a history, so nothing   *)
(*    is ever lost - exact accounting at every moment                      *)
(* ====================================================================== *)
(* "panic-only" reading of a computation: what holds of the world left by
   unwinding (no obligation on the other outcomes) *)
Section PanicOnly.
Context {K V T : Type}.
Notation M := (M K V T). Notation world := (world K V T).

Definition pp {A} (c : M A) (Qp : world -> Prop) (w : world) : Prop :=
  match c w with Panic w' => Qp w' | _ => True end.

Lemma pp_ret {A} (a : A) Qp w : pp (ret a) Qp w.
Proof. exact I. Qed.

Lemma pp_bind {A B} (c : M A) (f : A -> M B) Qp w :
  wp c (fun a w' => pp (f a) Qp w') Qp w -> pp (bind c f) Qp w.
Proof. unfold wp, pp, bind. destruct (c w) as [a w'|w'|]; auto. Qed.

Lemma pp_ref_ret {B} i (g : K * V -> B) Qp w : pp (p <- p_ref i ;; ret (g p)) Qp w.
Proof. unfold pp, bind, p_ref, ret. destruct (nth_error (slots (self w)) i) as [[p|]|]; exact I. Qed.

Lemma pp_replace_ret {B} i (f : K * V -> K * V) (g : K * V -> B) Qp w :
  pp (old <- p_replace i f ;; ret (g old)) Qp w.
Proof.
  unfold pp, bind, p_replace, bind, p_ref, set_slot, ret.
  destruct (nth_error (slots (self w)) i) as [[p|]|]; exact I.
Qed.

Lemma wp_pp_conj {A} (c : M A) Qn Qp Qp' w :
  wp c Qn Qp w -> pp c Qp' w -> wp c Qn (fun w' => Qp w' /\ Qp' w') w.
Proof. unfold wp, pp. destruct (c w); auto. Qed.
End PanicOnly.

Section DictLawful.
Context {K V Q T : Type} (E : env K V Q T) (debug : bool).
Context (ck : K -> N) (cq : Q -> N) (HL : Lawful E ck cq).
Notation M := (M K V T). Notation world := (world K V T).
Notation dop := (@Dict.dop K V Q). Notation dres := (@Dict.dres K V).
Notation mstep := (Dict.mstep E debug).

(* what stays with the caller when the call panics: IndexMut on an absent key
   panics before the assignment, so the value to be written was never moved.
   (The by-value arguments of a rejected insert are destroyed by unwinding.) *)
Definition op_pouts (o : dop) : list N := match o with DIndexMut _ v' => idV E v' | _ => [] end.

(* under a lawful environment an operation panics only by rejecting (insert into
   a full map, Index of an absent key): the container is untouched and the
   arguments are either destroyed once or still with the caller *)
Lemma mstep_panic_fact (o : dop) (w : world) :
  WF (self w) ->
  pp (mstep o)
     (fun w' => self w' = self w /\
                Permutation (dropped (log w') ++ op_pouts o) (dropped (log w) ++ op_ins E o)) w.
Proof.
  intros Hw. destruct o as [k v|k v|k v|q|q v'|q|q|q|q v'|q|q|g|]; cbn [Dict.mstep op_pouts op_ins]; apply pp_bind.
  - eapply wp_mono; [apply (insert_lawful E debug ck cq HL k v w Hw) | |]; cbn beta.
    + intros r w' _. apply pp_ret.
    + intros w' (Hs & Hlg & _). split; [exact Hs|]. unfold logged in Hlg. rewrite Hlg, dropped_log_drops.
      unfold ids_pair; cbn [fst snd]. rewrite app_nil_r. perm_ids.
  - eapply wp_mono; [apply (insert_key_value_lawful E debug ck cq HL k v w Hw) | |]; cbn beta.
    + intros r w' _. apply pp_ret.
    + intros w' (Hs & Hlg & _). split; [exact Hs|]. unfold logged in Hlg. rewrite Hlg, dropped_log_drops.
      unfold ids_pair; cbn [fst snd]. rewrite app_nil_r. perm_ids.
  - eapply wp_mono; [apply (checked_insert_lawful E debug ck cq HL k v w Hw) | | intros ? []]; cbn beta.
    intros r w' _. apply pp_ret.
  - eapply wp_mono; [apply (get_lawful E ck cq HL q w Hw) | | intros ? []]; cbn beta.
    intros [i|] w' _; [apply pp_ref_ret | apply pp_ret].
  - eapply wp_mono; [apply (get_mut_lawful E ck cq HL q w Hw) | | intros ? []]; cbn beta.
    intros [i|] w' _; [apply pp_replace_ret | apply pp_ret].
  - eapply wp_mono; [apply (get_key_value_lawful E ck cq HL q w Hw) | | intros ? []]; cbn beta.
    intros [i|] w' _; [apply pp_ref_ret | apply pp_ret].
  - eapply wp_mono; [apply (contains_key_lawful E ck cq HL q w Hw) | | intros ? []]; cbn beta.
    intros b w' _. apply pp_ret.
  - eapply wp_mono; [apply (index_lawful E ck cq HL q w Hw) | |]; cbn beta.
    + intros i w' _. apply pp_ref_ret.
    + intros w' [[Hs Hg] _]. split; [exact Hs|]. rewrite Hg. reflexivity.
  - eapply wp_mono; [apply (index_mut_lawful E ck cq HL q w Hw) | |]; cbn beta.
    + intros i w' _. apply pp_replace_ret.
    + intros w' [[Hs Hg] _]. split; [exact Hs|]. rewrite Hg. reflexivity.
  - eapply wp_mono; [apply (remove_lawful E debug ck cq HL q w Hw) | | intros ? []]; cbn beta.
    intros r w' _. apply pp_ret.
  - eapply wp_mono; [apply (remove_entry_lawful E debug ck cq HL q w Hw) | | intros ? []]; cbn beta.
    intros r w' _. apply pp_ret.
  - eapply wp_mono; [apply (retain_lawful E debug ck cq HL _ g w); [intros s k v; reflexivity | exact Hw] | | intros ? []];
      cbn beta.
    intros r w' _. apply pp_ret.
  - eapply wp_mono; [apply (clear_lawful E ck cq HL w Hw) | | intros ? []]; cbn beta.
    intros r w' _. apply pp_ret.
Qed.

(* one step: from a tidy state, in BOTH outcomes, the state is tidy again and
   nothing is lost *)
Lemma mstep_exactly (o : dop) : op_ok E o -> exactly E (mstep o) (op_ins E o) (op_outs E o) (op_pouts o).
Proof.
  intros Hok w Hw Ht.
  eapply wp_mono; [apply wp_pp_conj; [apply (mstep_conserves E debug o Hok w Hw) | apply (mstep_panic_fact o w Hw)] | |];
    cbn beta.
  - intros a w' (H1 & H2 & lost & H3 & H4). destruct (H4 Ht) as [-> Ht'].
    split; [exact H1|]. split; [exact H2|]. split; [exact Ht' | exact H3].
  - intros w' [(H1 & H2 & lost & H3) [Hs HP]].
    split; [exact H1|]. split; [exact H2|]. split; [rewrite Hs; exact Ht|].
    unfold acct. rewrite Hs. perm_ids.
Qed.

(* identities with the caller after the history, counting what a panicking
   IndexMut left with it *)
Definition mouts_x : list dop -> world -> list N := gouts mstep (op_outs E) op_pouts.

(* Tidy is preserved by every step of mrun ... *)
Theorem step_tidy (o : dop) (w : world) :
  op_ok E o -> WF (self w) -> Tidy (self w) ->
  match mstep o w with Ok _ w' => Tidy (self w') | Panic w' => Tidy (self w') | UB => False end.
Proof.
  intros Hok Hw Ht. pose proof (mstep_exactly o Hok w Hw Ht) as H. unfold wp in H.
  destruct (mstep o w) as [r w'|w'|]; [apply H | apply H | exact H].
Qed.

(* ... hence along the whole history, and the accounting is exact: every
   identity stored at the start or handed in is, after the history, in exactly
   one place: stored, with the caller, or destroyed (no `lost`) *)
Theorem run_exact ops w :
  WF (self w) -> Tidy (self w) -> Forall (op_ok E) ops ->
  exists wf, Dict.mfinal E debug ops w = Some wf /\ WF (self wf) /\ cap (self wf) = cap (self w) /\
    Tidy (self wf) /\
    Permutation (owned E (self wf) ++ mouts_x ops w ++ dropped (log wf))
                (owned E (self w) ++ flat_map (op_ins E) ops ++ dropped (log w)).
Proof.
  intros Hw Ht Hok. rewrite mfinal_gfinal.
  exact (g_run_exact E mstep (op_ins E) (op_outs E) op_pouts (op_ok E) mstep_exactly ops w Hw Ht Hok).
Qed.

Theorem run_tidy ops w wf :
  WF (self w) -> Tidy (self w) -> Forall (op_ok E) ops ->
  Dict.mfinal E debug ops w = Some wf -> Tidy (self wf).
Proof.
  intros Hw Ht Hok Hf. destruct (run_exact ops w Hw Ht Hok) as (wf' & H1 & _ & _ & H4 & _).
  rewrite Hf in H1. injection H1 as <-. exact H4.
Qed.

(* from the empty container: everything ever handed in is stored, with the
   caller or destroyed - exactly once *)
Corollary run_exact_new n ops s :
  Forall (op_ok E) ops ->
  let w0 : world := {| cb := s; log := []; self := new_map n |} in
  exists wf, Dict.mfinal E debug ops w0 = Some wf /\ Tidy (self wf) /\
    Permutation (owned E (self wf) ++ mouts_x ops w0 ++ dropped (log wf)) (flat_map (op_ins E) ops).
Proof.
  intros Hok w0.
  assert (Hw : WF (self w0)) by apply WF_new.
  assert (Ht : Tidy (self w0)).
  { intros i _ Hne. cbn [w0 self new_map slots] in *.
    destruct (nth_error (repeat None n) i) as [o|] eqn:Hn; [|congruence].
    apply nth_error_In in Hn. apply repeat_spec in Hn. subst o. reflexivity. }
  destruct (run_exact ops w0 Hw Ht Hok) as (wf & H1 & _ & _ & H4 & HP).
  exists wf. split; [exact H1|]. split; [exact H4|].
  assert (Ho : owned E (self w0) = []).
  { apply ids_slots_all_none. intros i Hne. apply Ht; [cbn [w0 self new_map len]; lia | exact Hne]. }
  rewrite Ho in HP. cbn [w0 log dropped flat_map app] in HP. rewrite app_nil_r in HP. exact HP.
Qed.

End DictLawful.

Section SetLawful.
Context {K Q T : Type} (E : env K unit Q T) (debug : bool).
Context (ck : K -> N) (cq : Q -> N) (HL : Lawful E ck cq) (HU : idV E tt = []).
Notation M := (M K unit T). Notation world := (world K unit T).
Notation sop := (@SetDict.sop K Q). Notation sres := (@SetDict.sres K).
Notation sstep := (SetDict.sstep E debug).
Local Notation F := (flat_map (fun k : K => ids_pair E (k, tt))).

Lemma xpost_refl (w w' : world) :
  WF (self w) -> Tidy (self w) -> self w' = self w -> dropped (log w') = dropped (log w) -> xpost E w [] [] w'.
Proof.
  intros Hw Ht Hs Hd. unfold xpost, acct. rewrite Hs, Hd. split; [exact Hw|]. split; [reflexivity|].
  split; [exact Ht|]. perm_ids.
Qed.

(* extend under a lawful environment: an overflowing insertion rejects its item
   (destroyed once), the items not yet pulled are destroyed by unwinding, the
   items inserted so far stay stored: nothing is lost, the set stays tidy *)
Lemma s_extend_loop_exact (nx : T -> ans * T) items :
  (forall s, fst (nx s) <> Boom) -> forall w : world, WF (self w) -> Tidy (self w) ->
  wp (s_extend_loop E debug nx items) (fun _ => xpost E w (F items) []) (xpost E w (F items) []) w.
Proof.
  intros Hnx. induction items as [|k rest IH]; intros w Hw Ht; cbn [s_extend_loop].
  - eapply wp_mono; [apply call_next_lawful; exact Hnx | | intros ? []]; cbn beta.
    intros _ w1 [Hs1 Hl1]. cbn [flat_map]. apply xpost_refl; auto. rewrite Hl1. apply dropped_snoc_call.
  - apply wp_bind. apply wp_on_unwind_nopanic.
    eapply wp_mono; [apply call_next_lawful; exact Hnx | | intros ? []]; cbn beta.
    intros _ w1 [Hs1 Hl1].
    assert (Hd1 : dropped (log w1) = dropped (log w)) by (rewrite Hl1; apply dropped_snoc_call).
    assert (Hw1 : WF (self w1)) by (rewrite Hs1; exact Hw).
    assert (Ht1 : Tidy (self w1)) by (rewrite Hs1; exact Ht).
    apply wp_bind. apply wp_on_unwind. apply wp_bind.
    eapply wp_mono;
      [apply wp_conj; [apply (conserves_s_insert_unit E debug HU k w1 Hw1) | apply (s_insert_lawful E debug ck cq HL k w1 Hw1)]
      | |]; cbn beta.
    + intros b w2 [(Hw2 & Hc2 & lost & HA2 & Hl2) _]. destruct (Hl2 Ht1) as [-> Ht2]. apply wp_ret.
      eapply wp_mono; [apply (IH w2 Hw2 Ht2) | |]; cbn beta.
      * intros _ w3 (Hw3 & Hc3 & Ht3 & HA3). split; [exact Hw3|]. split; [congruence|]. split; [exact Ht3|].
        unfold acct in *. rewrite Hs1, Hd1 in HA2. cbn [flat_map]. perm_ids.
      * intros w3 (Hw3 & Hc3 & Ht3 & HA3). split; [exact Hw3|]. split; [congruence|]. split; [exact Ht3|].
        unfold acct in *. rewrite Hs1, Hd1 in HA2. cbn [flat_map]. perm_ids.
    + intros w2 [_ (Hs2 & Hlg2 & _)].
      apply (wp_cleans _ (flat_map (ids_pair E) (List.map (fun x => (x, tt)) rest))); [apply unwind_pairs_spec|].
      intros w3 Hs3 Hg3. unfold logged in Hlg2.
      assert (Hs : self w3 = self w) by congruence.
      assert (Hd : dropped (log w3) = dropped (log w) ++ (idV E tt ++ idK E k) ++ F rest).
      { rewrite Hg3, dropped_log_drops, Hlg2, dropped_log_drops, Hd1, ids_pairs_unit.
        rewrite <- app_assoc. reflexivity. }
      unfold xpost, acct. rewrite Hs, Hd. split; [exact Hw|]. split; [reflexivity|]. split; [exact Ht|].
      cbn [flat_map]. change (ids_pair E (k, tt)) with (idK E k ++ idV E tt). perm_ids.
Qed.

Lemma sstep_panic_fact (o : sop) (w : world) :
  WF (self w) -> (forall items, o <> SoExtend items) ->
  pp (sstep o) (fun w' => self w' = self w /\ Permutation (dropped (log w')) (dropped (log w) ++ sop_ins E o)) w.
Proof.
  intros Hw Hne. destruct o as [k|k|q|q|q|q|g| |items]; cbn [SetDict.sstep sop_ins];
    try (exfalso; eapply Hne; reflexivity); apply pp_bind.
  - eapply wp_mono; [apply (s_insert_lawful E debug ck cq HL k w Hw) | |]; cbn beta.
    + intros r w' _. apply pp_ret.
    + intros w' (Hs & Hlg & _). split; [exact Hs|]. unfold logged in Hlg. rewrite Hlg, dropped_log_drops.
      unfold ids_pair; cbn [fst snd]. perm_ids.
  - eapply wp_mono; [apply (s_replace_lawful E debug ck cq HL k w Hw) | |]; cbn beta.
    + intros r w' _. apply pp_ret.
    + intros w' (Hs & Hlg & _). split; [exact Hs|]. unfold logged in Hlg. rewrite Hlg, dropped_log_drops.
      unfold ids_pair; cbn [fst snd]. perm_ids.
  - eapply wp_mono; [apply (s_contains_lawful E ck cq HL q w Hw) | | intros ? []]; cbn beta.
    intros r w' _. apply pp_ret.
  - eapply wp_mono; [apply (s_get_lawful E ck cq HL q w Hw) | | intros ? []]; cbn beta.
    intros [i|] w' _; [apply pp_ref_ret | apply pp_ret].
  - eapply wp_mono; [apply (s_remove_lawful E debug ck cq HL q w Hw) | | intros ? []]; cbn beta.
    intros r w' _. apply pp_ret.
  - eapply wp_mono; [apply (s_take_lawful E debug ck cq HL q w Hw) | | intros ? []]; cbn beta.
    intros r w' _. apply pp_ret.
  - eapply wp_mono; [apply (s_retain_lawful E debug ck cq HL _ g w); [intros s k; reflexivity | exact Hw] | | intros ? []];
      cbn beta.
    intros r w' _. apply pp_ret.
  - eapply wp_mono; [apply (s_clear_lawful E ck cq HL w Hw) | | intros ? []]; cbn beta.
    intros r w' _. apply pp_ret.
Qed.

Lemma sstep_exactly (o : sop) : True -> exactly E (sstep o) (sop_ins E o) (sop_outs E o) [].
Proof.
  intros _ w Hw Ht.
  assert (Hcase : (exists items, o = SoExtend items) \/ (forall items, o <> SoExtend items))
    by (destruct o; try (right; intros; discriminate); left; eauto).
  destruct Hcase as [[items ->]|Hne].
  - cbn [SetDict.sstep sop_ins]. unfold s_extend. apply wp_bind.
    eapply wp_mono; [apply (s_extend_loop_exact SetDict.nx0 items); [intros s; discriminate | exact Hw | exact Ht] | |];
      cbn beta.
    + intros _ w' H. apply wp_ret. exact H.
    + intros w' H. exact H.
  - eapply wp_mono;
      [apply wp_pp_conj; [apply (sstep_conserves E debug HU o w Hw) | apply (sstep_panic_fact o w Hw Hne)] | |];
      cbn beta.
    + intros a w' (H1 & H2 & lost & H3 & H4). destruct (H4 Ht) as [-> Ht'].
      split; [exact H1|]. split; [exact H2|]. split; [exact Ht' | exact H3].
    + intros w' [(H1 & H2 & lost & H3) [Hs HP]].
      split; [exact H1|]. split; [exact H2|]. split; [rewrite Hs; exact Ht|].
      unfold acct. rewrite Hs. perm_ids.
Qed.

Theorem sstep_tidy (o : sop) (w : world) :
  WF (self w) -> Tidy (self w) ->
  match sstep o w with Ok _ w' => Tidy (self w') | Panic w' => Tidy (self w') | UB => False end.
Proof.
  intros Hw Ht. pose proof (sstep_exactly o I w Hw Ht) as H. unfold wp in H.
  destruct (sstep o w) as [r w'|w'|]; [apply H | apply H | exact H].
Qed.

Theorem srun_exact ops w :
  WF (self w) -> Tidy (self w) ->
  exists wf, SetDict.smfinal E debug ops w = Some wf /\ WF (self wf) /\ cap (self wf) = cap (self w) /\
    Tidy (self wf) /\
    Permutation (owned E (self wf) ++ souts E debug ops w ++ dropped (log wf))
                (owned E (self w) ++ flat_map (sop_ins E) ops ++ dropped (log w)).
Proof.
  intros Hw Ht. rewrite smfinal_gfinal.
  apply (g_run_exact E sstep (sop_ins E) (sop_outs E) (fun _ => []) (fun _ => True) sstep_exactly ops w Hw Ht).
  apply Forall_forall. intros; exact I.
Qed.

Theorem srun_tidy ops w wf :
  WF (self w) -> Tidy (self w) -> SetDict.smfinal E debug ops w = Some wf -> Tidy (self wf).
Proof.
  intros Hw Ht Hf. destruct (srun_exact ops w Hw Ht) as (wf' & H1 & _ & _ & H4 & _).
  rewrite Hf in H1. injection H1 as <-. exact H4.
Qed.

End SetLawful.

(* ====================================================================== *)
(* 6. iterator sessions abandoned midway; closures that replace the value (every environment) *)
(* ====================================================================== *)
Section SS.
Context {K V Q T : Type} (E : env K V Q T) (debug : bool).
Notation M := (M K V T). Notation world := (world K V T). Notation map := (map K V). Notation kv := (K * V)%type.

(* ====================================================================== *)
(* A. IntoIter sessions: n items taken, then the iterator is dropped       *)
(* ====================================================================== *)

Lemma ss_take_live_skipn0 (sl : list (option kv)) k : take_live (skipn 0 sl) k = take_live sl k.
Proof. reflexivity. Qed.

Lemma ss_rev_split {A} (l : list A) n :
  Permutation (firstn n (rev l) ++ firstn (length l - n) l) l.
Proof.
  rewrite firstn_rev.
  apply Permutation_trans with (l' := firstn (length l - n) l ++ rev (skipn (length l - n) l)).
  - apply Permutation_app_comm.
  - apply Permutation_trans with (l' := firstn (length l - n) l ++ skipn (length l - n) l).
    + apply Permutation_app_head. apply Permutation_sym. apply Permutation_rev.
    + rewrite firstn_skipn. apply Permutation_refl.
Qed.

Lemma ss_dropped_evp (l : list kv) : dropped (flat_map (evp E) l) = flat_map (ids_pair E) l.
Proof.
  induction l as [|p t IH]; cbn [flat_map]; [reflexivity|].
  rewrite dropped_app, IH. unfold evp. rewrite dropped_ev_drops. reflexivity.
Qed.

(* take n items from an IntoIter, then drop it *)
Lemma into_session_logs n (w : world) :
  WF (self w) ->
  wp (r <- into_run n ;; drop_map E ;; ret r)
     (fun r w' => r = firstn n (rev (elems (self w))) /\
                  log w' = log w ++ flat_map (evp E) (firstn (len (self w) - n) (elems (self w))) /\
                  Permutation (r ++ firstn (len (self w) - n) (elems (self w))) (elems (self w)))
     (fun w' => exists k, log w' = log w ++
                  flat_map (evp E) (firstn k (firstn (len (self w) - n) (elems (self w))))) w.
Proof.
  intros Hw. apply wp_bind.
  eapply wp_mono; [apply into_run_spec; exact Hw | | intros w' []]; cbn beta.
  intros r w1 (Hw1 & _ & Hlog & Hr & Hlen & He).
  replace (len (self w) - Nat.min n (len (self w))) with (len (self w) - n) in * by lia.
  apply wp_bind. unfold drop_map. apply wp_bind. apply wp_get_len.
  eapply wp_mono; [apply drop_range_logs | |]; cbn beta.
  - intros j Hj. apply (WF_live _ _ Hw1). lia.
  - intros _ w2 H2. apply wp_ret. rewrite ss_take_live_skipn0 in H2.
    fold (elems (self w1)) in H2. rewrite He, Hlog in H2.
    split; [exact Hr|]. split; [exact H2|]. rewrite Hr.
    rewrite <- (elems_length _ Hw). apply ss_rev_split.
  - intros w2 [k H2]. exists k. rewrite ss_take_live_skipn0 in H2.
    fold (elems (self w1)) in H2. rewrite He, Hlog in H2. exact H2.
Qed.

(* with distinct identities: what was yielded and what the destructor destroyed
   are disjoint, each identity occurs once, together they are the content *)
Lemma into_session_NoDup n (w : world) :
  WF (self w) -> NoDup (flat_map (ids_pair E) (elems (self w))) ->
  wp (r <- into_run n ;; drop_map E ;; ret r)
     (fun r w' => exists evs, log w' = log w ++ evs /\
                    NoDup (flat_map (ids_pair E) r ++ dropped evs) /\
                    Permutation (flat_map (ids_pair E) r ++ dropped evs)
                                (flat_map (ids_pair E) (elems (self w))))
     (fun w' => exists evs, log w' = log w ++ evs /\
                    NoDup (flat_map (ids_pair E) (firstn n (rev (elems (self w)))) ++ dropped evs)) w.
Proof.
  intros Hw Hnd.
  eapply wp_mono; [apply into_session_logs; exact Hw | |]; cbn beta.
  - intros r w' (Hr & Hlog & HP). eexists. split; [exact Hlog|].
    rewrite ss_dropped_evp, <- flat_map_app.
    assert (HP' : Permutation (flat_map (ids_pair E) (r ++ firstn (len (self w) - n) (elems (self w))))
                              (flat_map (ids_pair E) (elems (self w))))
      by (apply Permutation_flat_map; exact HP).
    split; [|exact HP'].
    eapply Permutation_NoDup; [apply Permutation_sym; exact HP' | exact Hnd].
  - intros w' [k Hlog]. eexists. split; [exact Hlog|].
    rewrite ss_dropped_evp.
    set (X := firstn (len (self w) - n) (elems (self w))).
    pose proof (ss_rev_split (elems (self w)) n) as HP. rewrite (elems_length _ Hw) in HP. fold X in HP.
    apply (Permutation_flat_map (ids_pair E)) in HP. rewrite flat_map_app in HP.
    assert (HX : flat_map (ids_pair E) X
                 = flat_map (ids_pair E) (firstn k X) ++ flat_map (ids_pair E) (skipn k X))
      by (rewrite <- flat_map_app, firstn_skipn; reflexivity).
    rewrite HX in HP. clear HX.
    perm_ids.
Qed.

(* ====================================================================== *)
(* C. a forgotten drain destroys nothing                                   *)
(* ====================================================================== *)

Lemma ss_drain_run_owned n : forall lo hi (w : world),
  DrainInv (lo, hi) (self w) ->
  wp (drain_run n (lo, hi))
     (fun r w' => Permutation (owned E (self w') ++ flat_map (ids_pair E) (fst r)) (owned E (self w)) /\
                  log w' = log w)
     (fun _ => False) w.
Proof.
  induction n as [|n IH]; intros lo hi w HD; cbn [drain_run].
  - apply wp_ret. cbn [fst flat_map]. rewrite app_nil_r. split; reflexivity.
  - apply wp_bind. unfold drain_next. destruct (Nat.ltb_spec lo hi) as [Hlt|Hge].
    + destruct HD as (HDl & HDc & HDs). cbn [fst snd] in HDc, HDs.
      destruct (HDs lo ltac:(lia)) as [p Hp].
      apply wp_bind. eapply wp_p_read; [exact Hp|]. apply wp_ret. cbv beta iota.
      apply wp_bind.
      eapply wp_mono; [apply (IH (S lo) hi) | | auto]; cbn beta.
      * simp_w. unfold DrainInv. cbn [fst snd]. rewrite cap_set_slot, len_set_slot.
        split; [exact HDl|]. split; [exact HDc|].
        intros j Hj. apply live_set_slot_neq; [lia | apply HDs; lia].
      * intros [r c''] w' [HP Hlog]. cbn [fst] in HP. cbv beta iota. apply wp_ret.
        cbn [fst flat_map]. simp_w.
        pose proof (owned_set_slot E (self w) lo (Some p) None Hp) as HO. cbv iota in HO.
        split; [perm_ids | exact Hlog].
    + apply wp_ret. cbv beta iota. apply wp_ret. cbn [fst flat_map]. rewrite app_nil_r.
      split; reflexivity.
Qed.

(* mem::forget(drain) after n items: the log is unchanged (nothing is destroyed,
   now or later: len = 0), the map is empty, the yielded items are with the
   caller, everything else is still sitting in (dead) slots *)
Lemma drain_forgotten_log n (w : world) :
  WF (self w) ->
  wp (c <- drain ;; drain_run n c)
     (fun r w' => WF (self w') /\ len (self w') = 0 /\ cap (self w') = cap (self w) /\
                  log w' = log w /\ fst r = firstn n (elems (self w)) /\
                  Permutation (owned E (self w') ++ flat_map (ids_pair E) (fst r)) (owned E (self w)))
     (fun _ => False) w.
Proof.
  intros Hw.
  assert (H2 : wp (c <- drain ;; drain_run n c)
                  (fun r w' => Permutation (owned E (self w') ++ flat_map (ids_pair E) (fst r)) (owned E (self w)))
                  (fun _ => True) w).
  { apply wp_bind. eapply wp_mono; [apply (drain_owned E w Hw) | | auto]; cbn beta.
    intros c w1 (HD & _ & _ & Hc & _ & Ho & _). subst c.
    eapply wp_mono; [apply ss_drain_run_owned; exact HD | | auto]; cbn beta.
    intros r w2 [HP _]. rewrite <- Ho. exact HP. }
  eapply wp_mono; [apply wp_conj; [apply (drain_run_strong n w Hw) | exact H2] | |]; cbn beta.
  - intros r w' [(Hr & _ & HD & _ & Hcap & Hlog & Hlen) HP].
    split; [eapply DrainInv_WF; exact HD|]. auto 10.
  - intros w' [[] _].
Qed.

(* ====================================================================== *)
(* B. accounting for whole consuming-iterator sessions                     *)
(* ====================================================================== *)

Fixpoint ss_into_keys_run (n : nat) : M (list K) :=
  match n with
  | 0 => ret []
  | S n' => o <- into_keys_next E ;;
            match o with None => ret [] | Some k => r <- ss_into_keys_run n' ;; ret (k :: r) end
  end.
Fixpoint ss_into_values_run (n : nat) : M (list V) :=
  match n with
  | 0 => ret []
  | S n' => o <- into_values_next E ;;
            match o with None => ret [] | Some v => r <- ss_into_values_run n' ;; ret (v :: r) end
  end.

(* a run of steps, then the iterator (= the map it wraps) is dropped *)
Lemma ss_session_acct {A} (c : M A) (outs : A -> list N) (w : world) :
  wp c (fun a => cpostN E w [] (outs a)) (cpostP E w []) w ->
  wp (r <- c ;; drop_map E ;; ret r)
     (fun r w' => exists lost, acct E w w' [] (outs r) lost /\
                               (Tidy (self w) -> lost = [] /\ owned E (self w') = []))
     (fun w' => exists lost, acct E w w' [] [] lost) w.
Proof.
  intros Hc. apply wp_bind. eapply wp_mono; [exact Hc | |]; cbn beta.
  - intros r w1 (Hw1 & _ & lost1 & HP1 & Ht1). apply wp_bind.
    eapply wp_mono; [apply (drop_map_acct E w1 Hw1) | |]; cbn beta.
    + intros _ w2 (lost2 & HP2 & Ht2). apply wp_ret. exists (lost1 ++ lost2). split.
      * unfold acct in *. perm_ids.
      * intros Ht. destruct (Ht1 Ht) as [-> Ht']. destruct (Ht2 Ht') as [-> Ho]. auto.
    + intros w2 (lost2 & HP2). exists (outs r ++ lost1 ++ lost2). unfold acct in *. perm_ids.
  - intros w1 (_ & _ & lost & HP). exists lost. exact HP.
Qed.

Lemma ss_into_run_conserves n : conserves E (into_run n) [] (fun r => flat_map (ids_pair E) r).
Proof.
  set (outs := fun r : list kv => flat_map (ids_pair E) r).
  induction n as [|n IH]; cbn [into_run].
  - apply (conserves_ret E [] outs).
  - eapply conserves_bind0; [apply conserves_into_iter_next|].
    intros [p|].
    + apply (conserves_perm E _ ([] ++ ids_pair E p) (ids_pair E p) outs outs);
        [apply Permutation_refl | intros; apply Permutation_refl |].
      apply (conserves_bind E (ids_pair E p) (into_run n) (fun r => ret (p :: r)) [] outs outs IH).
      intros a. apply (conserves_perm E _ (outs (p :: a)) (outs a ++ ids_pair E p) outs outs);
        [unfold outs; cbn [flat_map]; apply Permutation_app_comm | intros; apply Permutation_refl |].
      apply (conserves_ret E (p :: a) outs).
    + apply (conserves_ret E [] outs).
Qed.

Lemma ss_into_keys_run_conserves n : conserves E (ss_into_keys_run n) [] (fun r => flat_map (idK E) r).
Proof.
  set (outs := fun r : list K => flat_map (idK E) r).
  induction n as [|n IH]; cbn [ss_into_keys_run].
  - apply (conserves_ret E [] outs).
  - eapply conserves_bind0; [apply conserves_into_keys_next|].
    intros [k|].
    + apply (conserves_perm E _ ([] ++ idK E k) (idK E k) outs outs);
        [apply Permutation_refl | intros; apply Permutation_refl |].
      apply (conserves_bind E (idK E k) (ss_into_keys_run n) (fun r => ret (k :: r)) [] outs outs IH).
      intros a. apply (conserves_perm E _ (outs (k :: a)) (outs a ++ idK E k) outs outs);
        [unfold outs; cbn [flat_map]; apply Permutation_app_comm | intros; apply Permutation_refl |].
      apply (conserves_ret E (k :: a) outs).
    + apply (conserves_ret E [] outs).
Qed.

Lemma ss_into_values_run_conserves n : conserves E (ss_into_values_run n) [] (fun r => flat_map (idV E) r).
Proof.
  set (outs := fun r : list V => flat_map (idV E) r).
  induction n as [|n IH]; cbn [ss_into_values_run].
  - apply (conserves_ret E [] outs).
  - eapply conserves_bind0; [apply conserves_into_values_next|].
    intros [v|].
    + apply (conserves_perm E _ ([] ++ idV E v) (idV E v) outs outs);
        [apply Permutation_refl | intros; apply Permutation_refl |].
      apply (conserves_bind E (idV E v) (ss_into_values_run n) (fun r => ret (v :: r)) [] outs outs IH).
      intros a. apply (conserves_perm E _ (outs (v :: a)) (outs a ++ idV E v) outs outs);
        [unfold outs; cbn [flat_map]; apply Permutation_app_comm | intros; apply Permutation_refl |].
      apply (conserves_ret E (v :: a) outs).
    + apply (conserves_ret E [] outs).
Qed.

Lemma into_session_acct n (w : world) :
  WF (self w) ->
  wp (r <- into_run n ;; drop_map E ;; ret r)
     (fun r w' => exists lost, acct E w w' [] (flat_map (ids_pair E) r) lost /\
                               (Tidy (self w) -> lost = [] /\ owned E (self w') = []))
     (fun w' => exists lost, acct E w w' [] [] lost) w.
Proof.
  intros Hw. apply (ss_session_acct (into_run n) (fun r => flat_map (ids_pair E) r)).
  apply ss_into_run_conserves. exact Hw.
Qed.

Lemma into_keys_session_acct n (w : world) :
  WF (self w) ->
  wp (r <- ss_into_keys_run n ;; drop_map E ;; ret r)
     (fun r w' => exists lost, acct E w w' [] (flat_map (idK E) r) lost /\
                               (Tidy (self w) -> lost = [] /\ owned E (self w') = []))
     (fun w' => exists lost, acct E w w' [] [] lost) w.
Proof.
  intros Hw. apply (ss_session_acct (ss_into_keys_run n) (fun r => flat_map (idK E) r)).
  apply ss_into_keys_run_conserves. exact Hw.
Qed.

Lemma into_values_session_acct n (w : world) :
  WF (self w) ->
  wp (r <- ss_into_values_run n ;; drop_map E ;; ret r)
     (fun r w' => exists lost, acct E w w' [] (flat_map (idV E) r) lost /\
                               (Tidy (self w) -> lost = [] /\ owned E (self w') = []))
     (fun w' => exists lost, acct E w w' [] [] lost) w.
Proof.
  intros Hw. apply (ss_session_acct (ss_into_values_run n) (fun r => flat_map (idV E) r)).
  apply ss_into_values_run_conserves. exact Hw.
Qed.

(* ====================================================================== *)
(* D. closures that REPLACE the value (retain, and_modify)                 *)
(* ====================================================================== *)

(* composition of two accounted steps with their own ins / outs *)
Lemma ss_cpostN_seq (w w1 w2 : world) ins1 outs1 ins2 outs2 :
  cpostN E w ins1 outs1 w1 -> cpostN E w1 ins2 outs2 w2 ->
  cpostN E w (ins1 ++ ins2) (outs1 ++ outs2) w2.
Proof.
  intros (Hw1 & Hc1 & lost1 & HP1 & Ht1) (Hw2 & Hc2 & lost2 & HP2 & Ht2).
  split; [exact Hw2|]. split; [congruence|]. exists (lost1 ++ lost2). split.
  - unfold acct in *. perm_ids.
  - intros Ht. destruct (Ht1 Ht) as [-> Ht']. destruct (Ht2 Ht') as [-> Ht'']. auto.
Qed.

(* equal multisets handed in and out cancel *)
Lemma ss_cpostN_cancel (w w' : world) ins outs :
  Permutation ins outs -> cpostN E w ins outs w' -> cpostN E w [] [] w'.
Proof.
  intros HIO (Hw & Hc & lost & HP & Ht). split; [exact Hw|]. split; [exact Hc|].
  exists lost. split; [|exact Ht]. unfold acct in *. perm_ids.
Qed.

(* one call of the retain closure on slot i: the slot held (k,v) and now holds
   (k,v') where v' is what the closure returned; the identities of v went OUT
   (to the closure) and those of v' came IN *)
Definition ss_pred_post (f : pred_t) (i : nat) (w w' : world) : Prop :=
  exists k v v',
    nth_error (slots (self w)) i = Some (Some (k, v)) /\
    v' = snd (fst (f (cb w) k v)) /\
    nth_error (slots (self w')) i = Some (Some (k, v')) /\
    cpostN E w (idV E v') (idV E v) w' /\ len (self w') = len (self w).

Lemma call_pred_acct_gen (f : pred_t) i (w : world) :
  WF (self w) -> i < len (self w) ->
  wp (call_pred f i) (fun _ => ss_pred_post f i w) (ss_pred_post f i w) w.
Proof.
  intros Hw Hi. destruct (WF_live _ _ Hw Hi) as [[k v] Hp].
  assert (Hic : i < cap (self w)) by (apply live_lt_cap; exists (k, v); exact Hp).
  unfold call_pred. apply wp_bind. eapply wp_p_ref; [exact Hp|].
  unfold wp. cbn [fst snd].
  destruct (f (cb w) k v) as [[r v'] s] eqn:Hf.
  assert (Hpost : ss_pred_post f i w
            {| cb := s; log := log w ++ [EvCall 0];
               self := {| len := len (self w); slots := upd (slots (self w)) i (Some (k, v')) |} |}).
  { exists k, v, v'. simp_w. split; [exact Hp|]. split; [rewrite Hf; reflexivity|].
    split; [apply nth_error_upd_eq; exact Hic|]. split; [|reflexivity].
    apply (cpostN_frame E w (with_self w (set_slot_m (self w) i (Some (k, v'))))).
    - reflexivity.
    - simp_w. apply dropped_snoc_call.
    - apply (cpostN_replace E w i (k, v)); auto. unfold ids_pair; cbn [fst snd]. perm_ids. }
  destruct r; exact Hpost.
Qed.

(* the old lemma recovered: when the closure keeps the identities they cancel *)
Lemma ss_call_pred_acct_again (f : pred_t) i (w : world) :
  (forall s k v, idV E (snd (fst (f s k v))) = idV E v) ->
  WF (self w) -> i < len (self w) ->
  let post := fun w' : world => cpostN E w [] [] w' /\ len (self w') = len (self w) in
  wp (call_pred f i) (fun _ => post) post w.
Proof.
  intros Hid Hw Hi post.
  assert (H : forall w', ss_pred_post f i w w' -> post w').
  { intros w' (k & v & v' & _ & Hv & _ & HN & Hl). split; [|exact Hl].
    apply (ss_cpostN_cancel w w' (idV E v') (idV E v)); [|exact HN].
    rewrite Hv, Hid. apply Permutation_refl. }
  eapply wp_mono; [apply call_pred_acct_gen; assumption | |]; cbn beta; auto.
Qed.

(* the ledger of a whole run: [olds] are the values passed to the closure and
   replaced, [news] what it returned for them (pairwise related by R); the
   identities of the news came in, those of the olds went out *)
Definition ss_ledger (R : V -> V -> Prop) (w w' : world) : Prop :=
  exists olds news, Forall2 R olds news /\
    cpostN E w (flat_map (idV E) news) (flat_map (idV E) olds) w'.

Definition ss_pred_rel (f : @pred_t K V T) (v v' : V) : Prop :=
  exists (s : T) (k : K), snd (fst (f s k v)) = v'.

Lemma ss_ledger_trans (R : V -> V -> Prop) (w w1 w2 : world) : ss_ledger R w w1 -> ss_ledger R w1 w2 -> ss_ledger R w w2.
Proof.
  intros (o1 & n1 & HR1 & H1) (o2 & n2 & HR2 & H2). exists (o1 ++ o2), (n1 ++ n2).
  split; [apply Forall2_app; assumption|]. rewrite !flat_map_app.
  eapply ss_cpostN_seq; eassumption.
Qed.

Lemma ss_ledger_of_N (R : V -> V -> Prop) (w w' : world) : cpostN E w [] [] w' -> ss_ledger R w w'.
Proof. intros H. exists [], []. split; [constructor | exact H]. Qed.

Lemma ss_ledger_of_pred f i (w w' : world) : ss_pred_post f i w w' -> ss_ledger (ss_pred_rel f) w w'.
Proof.
  intros (k & v & v' & _ & Hv & _ & HN & _). exists [v], [v']. split.
  - constructor; [|constructor]. exists (cb w), k. symmetry. exact Hv.
  - cbn [flat_map]. rewrite !app_nil_r. exact HN.
Qed.

(* a ledger is in particular a conservation statement in the weak (panic) form *)
Lemma ss_ledger_cpostP (R : V -> V -> Prop) (w w' : world) : ss_ledger R w w' -> exists ins, cpostP E w ins w'.
Proof. intros (o & n & _ & H). eexists. eapply cpostP_of_N. exact H. Qed.

Lemma ss_ledger_cancel (R : V -> V -> Prop) (w w' : world) :
  (forall v v', R v v' -> idV E v' = idV E v) -> ss_ledger R w w' -> cpostN E w [] [] w'.
Proof.
  intros HR (o & n & HF & H).
  apply (ss_cpostN_cancel w w' (flat_map (idV E) n) (flat_map (idV E) o)); [|exact H].
  clear H. induction HF as [|v v' o' n' Hv HF IH]; cbn [flat_map]; [apply Permutation_refl|].
  rewrite (HR _ _ Hv). apply Permutation_app_head. exact IH.
Qed.

Lemma ss_retain_loop_gen (f : pred_t) :
  forall fuel i (w : world), WF (self w) -> len (self w) - i <= fuel ->
  wp (retain_loop E debug f fuel i)
     (fun _ => ss_ledger (ss_pred_rel f) w) (ss_ledger (ss_pred_rel f) w) w.
Proof.
  induction fuel as [|fuel IH]; intros i w Hw Hf; cbn [retain_loop].
  - apply wp_bind. apply wp_get_len.
    destruct (Nat.ltb_spec i (len (self w))) as [Hi|Hi]; [lia|].
    apply wp_ret. apply ss_ledger_of_N. apply cpostN_refl; auto.
  - apply wp_bind. apply wp_get_len.
    destruct (Nat.ltb_spec i (len (self w))) as [Hi|Hi].
    + apply wp_bind. eapply wp_mono; [apply call_pred_acct_gen; assumption | |]; cbn beta.
      * intros keep w1 H1.
        assert (Hw1 : WF (self w1)) by (destruct H1 as (? & ? & ? & _ & _ & _ & HN & _); apply HN).
        assert (Hl1 : len (self w1) = len (self w)) by (destruct H1 as (? & ? & ? & _ & _ & _ & _ & Hl); exact Hl).
        apply ss_ledger_of_pred in H1. destruct keep.
        -- eapply wp_mono; [apply (IH (S i) w1 Hw1); lia | |]; cbn beta.
           ++ intros _ w2 H2. exact (ss_ledger_trans _ _ _ _ H1 H2).
           ++ intros w2 H2. exact (ss_ledger_trans _ _ _ _ H1 H2).
        -- apply wp_bind.
           eapply wp_mono; [apply (remove_index_drop_acct E debug i w1 Hw1); lia | |]; cbn beta.
           ++ intros _ w2 (Ha & Hb & Hc & Hd & He).
              assert (H2 : cpostN E w1 [] [] w2)
                by (split; [exact Ha|]; split; [exact Hb|]; exists []; auto).
              pose proof (ss_ledger_trans _ _ _ _ H1 (ss_ledger_of_N _ _ _ H2)) as H12.
              eapply wp_mono; [apply (IH i w2 Ha); lia | |]; cbn beta.
              ** intros _ w3 H3. exact (ss_ledger_trans _ _ _ _ H12 H3).
              ** intros w3 H3. exact (ss_ledger_trans _ _ _ _ H12 H3).
           ++ intros w2 (Ha & Hb & Hc & Hd & He).
              assert (H2 : cpostN E w1 [] [] w2)
                by (split; [exact Ha|]; split; [exact Hb|]; exists []; auto).
              exact (ss_ledger_trans _ _ _ _ H1 (ss_ledger_of_N _ _ _ H2)).
      * intros w1 H1. apply ss_ledger_of_pred in H1. exact H1.
    + apply wp_ret. apply ss_ledger_of_N. apply cpostN_refl; auto.
Qed.

(* retain with ANY closure: on both outcomes the accounting closes with the
   ledger of replaced values (strong form: nothing lost from a tidy state even
   when the closure or a Drop panics) *)
Lemma retain_conserves_gen (f : pred_t) (w : world) :
  WF (self w) ->
  wp (retain E debug f)
     (fun _ w' => exists olds news, Forall2 (ss_pred_rel f) olds news /\
                    cpostN E w (flat_map (idV E) news) (flat_map (idV E) olds) w')
     (fun w' => exists olds news, Forall2 (ss_pred_rel f) olds news /\
                    cpostN E w (flat_map (idV E) news) (flat_map (idV E) olds) w') w.
Proof.
  intros Hw. unfold retain. apply wp_bind. apply wp_get_len.
  apply (ss_retain_loop_gen f (len (self w)) 0 w Hw). lia.
Qed.

(* the form with existentially quantified in / out lists *)
Lemma retain_conserves_gen_ex (f : pred_t) (w : world) :
  WF (self w) ->
  wp (retain E debug f)
     (fun _ w' => exists ins outs, cpostN E w ins outs w')
     (fun w' => exists ins, cpostP E w ins w') w.
Proof.
  intros Hw. eapply wp_mono; [apply retain_conserves_gen; exact Hw | |]; cbn beta.
  - intros _ w' (o & n & _ & H). eauto.
  - intros w' (o & n & _ & H). eexists. eapply cpostP_of_N. exact H.
Qed.

(* corollary: the old theorem, for identity-preserving closures *)
Lemma ss_conserves_retain_again (f : pred_t) :
  (forall s k v, idV E (snd (fst (f s k v))) = idV E v) -> conserves E (retain E debug f) [] (fun _ => []).
Proof.
  intros Hid w Hw.
  assert (HR : forall v v', ss_pred_rel f v v' -> idV E v' = idV E v).
  { intros v v' (s & k & <-). apply Hid. }
  eapply wp_mono; [apply retain_conserves_gen; exact Hw | |]; cbn beta.
  - intros _ w' H. exact (ss_ledger_cancel _ _ _ HR H).
  - intros w' H. eapply cpostP_of_N. exact (ss_ledger_cancel _ _ _ HR H).
Qed.

(* ---------- and_modify ---------- *)
Definition ss_modf_post (f : modf_t) (i : nat) (w w' : world) : Prop :=
  exists k v v',
    nth_error (slots (self w)) i = Some (Some (k, v)) /\
    v' = snd (fst (f (cb w) v)) /\
    nth_error (slots (self w')) i = Some (Some (k, v')) /\
    cpostN E w (idV E v') (idV E v) w' /\ len (self w') = len (self w).

Lemma call_modf_acct_gen (f : modf_t) i (w : world) :
  WF (self w) -> i < len (self w) ->
  wp (call_modf f i) (fun _ => ss_modf_post f i w) (ss_modf_post f i w) w.
Proof.
  intros Hw Hi. destruct (WF_live _ _ Hw Hi) as [[k v] Hp].
  assert (Hic : i < cap (self w)) by (apply live_lt_cap; exists (k, v); exact Hp).
  unfold call_modf. apply wp_bind. eapply wp_p_ref; [exact Hp|].
  unfold wp. cbn [fst snd].
  destruct (f (cb w) v) as [[boom v'] s] eqn:Hf.
  assert (Hpost : ss_modf_post f i w
            {| cb := s; log := log w ++ [EvCall 3];
               self := {| len := len (self w); slots := upd (slots (self w)) i (Some (k, v')) |} |}).
  { exists k, v, v'. simp_w. split; [exact Hp|]. split; [rewrite Hf; reflexivity|].
    split; [apply nth_error_upd_eq; exact Hic|]. split; [|reflexivity].
    apply (cpostN_frame E w (with_self w (set_slot_m (self w) i (Some (k, v'))))).
    - reflexivity.
    - simp_w. apply dropped_snoc_call.
    - apply (cpostN_replace E w i (k, v)); auto. unfold ids_pair; cbn [fst snd]. perm_ids. }
  destruct boom; exact Hpost.
Qed.

Lemma and_modify_acct_gen (e : @entry K) (f : modf_t) (w : world) :
  WF (self w) -> entry_ok e (self w) ->
  wp (and_modify e f)
     (fun e' w' => e' = e /\ entry_ok e' (self w') /\
                   match e with
                   | Occupied i => ss_modf_post f i w w'
                   | Vacant k => cpostN E w (idK E k) (idK E k) w'
                   end)
     (fun w' => match e with Occupied i => ss_modf_post f i w w' | Vacant _ => False end) w.
Proof.
  intros Hw He. destruct e as [i|k]; cbn [and_modify entry_ok] in *.
  - destruct (WF_live _ _ Hw He) as [p Hp]. unfold occ_get_mut.
    apply wp_bind. apply wp_bind. eapply wp_p_ref; [exact Hp|]. apply wp_ret.
    apply wp_bind.
    eapply wp_mono; [apply call_modf_acct_gen; assumption | |]; cbn beta.
    + intros _ w1 H1. apply wp_ret. split; [reflexivity|]. split; [|exact H1].
      destruct H1 as (? & ? & ? & _ & _ & _ & _ & Hl). cbn [entry_ok]. rewrite Hl. exact He.
    + intros w1 H1. exact H1.
  - apply wp_ret. split; [reflexivity|]. split; [exact I|]. apply cpostN_refl; auto.
Qed.

(* corollary: the old theorem for identity-preserving closures *)
Lemma ss_conserves_and_modify_again (e : @entry K) (f : modf_t) (w : world) :
  (forall s v, idV E (snd (fst (f s v))) = idV E v) ->
  WF (self w) -> entry_ok e (self w) ->
  wp (and_modify e f)
     (fun e' w' => cpostN E w (ids_entry E e) (ids_entry E e') w' /\ e' = e /\ entry_ok e' (self w'))
     (cpostP E w (ids_entry E e)) w.
Proof.
  intros Hid Hw He.
  assert (Hc : forall i w', ss_modf_post f i w w' -> cpostN E w [] [] w').
  { intros i w' (k & v & v' & _ & Hv & _ & HN & _).
    apply (ss_cpostN_cancel w w' (idV E v') (idV E v)); [|exact HN].
    rewrite Hv, Hid. apply Permutation_refl. }
  eapply wp_mono; [apply and_modify_acct_gen; assumption | |]; cbn beta.
  - intros e' w' (-> & Hok & H). split; [|split; [reflexivity | exact Hok]].
    destruct e as [i|k]; cbn [ids_entry]; [eapply Hc; exact H | exact H].
  - intros w' H. destruct e as [i|k]; cbn [ids_entry]; [|destruct H].
    eapply cpostP_of_N. eapply Hc. exact H.
Qed.

End SS.

(* ====================================================================== *)
(* 7. interpreter level: len() matches iteration, iter_mut never aliases, examples *)
(* ====================================================================== *)
(* ------------------------------------------------------------------ *)
(* 1. WFx along a history, for every script                            *)
(* ------------------------------------------------------------------ *)
Theorem run_final_WFx debug sc ops x :
  WFx x -> (forall o, In o ops -> forall x', contract_ok debug o x') ->
  WFx (run_final debug sc ops x).
Proof.
  revert x. induction ops as [|o t IH]; intros x Hx Hc; cbn [run_final]; [exact Hx|].
  apply IH.
  - apply (step_safe debug sc o x Hx). apply Hc. left. reflexivity.
  - intros o' Ho' x'. apply Hc. right. exact Ho'.
Qed.

Corollary run_final_WFx_safe debug sc ops x :
  WFx x -> Forall safe_op ops -> WFx (run_final debug sc ops x).
Proof.
  intros Hx Hs. apply run_final_WFx; [exact Hx|].
  intros o Ho x'. apply safe_op_contract. rewrite Forall_forall in Hs. apply Hs. exact Ho.
Qed.

(* ------------------------------------------------------------------ *)
(* 2. len() matches what iteration yields                              *)
(* ------------------------------------------------------------------ *)
(* pure core, arbitrary element types, no environment *)
Lemma xi_len_matches_iter_full {K V T : Type} (w : world K V T) :
  WF (self w) ->
  wp (c <- iter ;; iter_run (len (self w)) c)
     (fun res w' => w' = w /\ fst res = seq 0 (len (self w)) /\
                    length (fst res) = len (self w) /\
                    snd res = (len (self w), len (self w)))
     (fun _ => False) w.
Proof.
  intros Hw.
  eapply wp_mono; [apply (iter_run_exact (len (self w)) w Hw) | | auto]; cbn beta.
  intros res w'. rewrite Nat.min_id. intros (Hw' & Hf & Hs).
  split; [exact Hw'|]. split; [exact Hf|]. split; [|exact Hs].
  rewrite Hf. apply seq_length.
Qed.

Theorem len_matches_iter {K V T : Type} (w : world K V T) :
  WF (self w) ->
  wp (c <- iter ;; iter_run (len (self w)) c)
     (fun res w' => w' = w /\ fst res = seq 0 (len (self w)) /\
                    length (fst res) = len (self w))
     (fun _ => False) w.
Proof.
  intros Hw.
  eapply wp_mono; [apply (xi_len_matches_iter_full w Hw) | | auto]; cbn beta.
  intros res w' (H1 & H2 & H3 & _). auto.
Qed.

(* history level: every script, both debug values, Map registers *)
Theorem run_len_matches_iter_m debug sc ops x r cs lg :
  WFx x -> Forall safe_op ops ->
  let m := get_m r (run_final debug sc ops x) in
  let w : world key vobj cstate := {| cb := cs; log := lg; self := m |} in
  len m <= cap m /\
  wp (c <- iter ;; iter_run (len m) c)
     (fun res w' => w' = w /\ fst res = seq 0 (len m) /\
                    length (fst res) = len m /\ snd res = (len m, len m))
     (fun _ => False) w.
Proof.
  intros Hx Hs m w.
  assert (Hm : WF m) by (apply WFx_get_m; apply run_final_WFx_safe; assumption).
  split; [apply WF_len_le_cap; exact Hm|].
  exact (xi_len_matches_iter_full w Hm).
Qed.

(* history level: every script, both debug values, Set registers *)
Theorem run_len_matches_iter_s debug sc ops x r cs lg :
  WFx x -> Forall safe_op ops ->
  let m := get_s r (run_final debug sc ops x) in
  let w : world key unit cstate := {| cb := cs; log := lg; self := m |} in
  len m <= cap m /\
  wp (c <- iter ;; iter_run (len m) c)
     (fun res w' => w' = w /\ fst res = seq 0 (len m) /\
                    length (fst res) = len m /\ snd res = (len m, len m))
     (fun _ => False) w.
Proof.
  intros Hx Hs m w.
  assert (Hm : WF m) by (apply WFx_get_s; apply run_final_WFx_safe; assumption).
  split; [apply WF_len_le_cap; exact Hm|].
  exact (xi_len_matches_iter_full w Hm).
Qed.

(* the same under the weaker per-operation contract (covers debug = true with
   insert_unchecked in the history) *)
Theorem run_len_matches_iter_gen debug sc ops x (cs : cstate) (lg : list event) :
  WFx x -> (forall o, In o ops -> forall x', contract_ok debug o x') ->
  let xf := run_final debug sc ops x in
  (forall r, let m := get_m r xf in
     len m <= cap m /\
     wp (c <- iter ;; iter_run (len m) c)
        (fun res w' => w' = {| cb := cs; log := lg; self := m |} /\ fst res = seq 0 (len m) /\
                       length (fst res) = len m /\ snd res = (len m, len m))
        (fun _ => False) {| cb := cs; log := lg; self := m |}) /\
  (forall r, let m := get_s r xf in
     len m <= cap m /\
     wp (c <- iter ;; iter_run (len m) c)
        (fun res w' => w' = {| cb := cs; log := lg; self := m |} /\ fst res = seq 0 (len m) /\
                       length (fst res) = len m /\ snd res = (len m, len m))
        (fun _ => False) {| cb := cs; log := lg; self := m |}).
Proof.
  intros Hx Hc xf.
  assert (Hxf : WFx xf) by (apply run_final_WFx; assumption).
  split; intros r m.
  - assert (Hm : WF m) by (apply WFx_get_m; exact Hxf).
    split; [apply WF_len_le_cap; exact Hm|].
    exact (xi_len_matches_iter_full {| cb := cs; log := lg; self := m |} Hm).
  - assert (Hm : WF m) by (apply WFx_get_s; exact Hxf).
    split; [apply WF_len_le_cap; exact Hm|].
    exact (xi_len_matches_iter_full {| cb := cs; log := lg; self := m |} Hm).
Qed.

(* ------------------------------------------------------------------ *)
(* 3. the slots handed out by an iter_mut / values_mut session never   *)
(*    alias                                                            *)
(* ------------------------------------------------------------------ *)
Theorem iter_mut_distinct {K V T : Type} n (w : world K V T) :
  WF (self w) ->
  wp (c <- iter ;; iter_run n c)
     (fun res w' => w' = w /\ NoDup (fst res) /\
                    Forall (fun i => i < len (self w)) (fst res) /\
                    (forall i, In i (fst res) -> live (self w) i))
     (fun _ => False) w.
Proof.
  intros Hw.
  eapply wp_mono; [apply (iter_run_exact n w Hw) | | auto]; cbn beta.
  intros res w' (Hw' & Hf & _).
  assert (Hlt : forall i, In i (fst res) -> i < len (self w)).
  { intros i Hi. rewrite Hf in Hi. apply in_seq in Hi. lia. }
  split; [exact Hw'|]. split; [rewrite Hf; apply seq_NoDup|].
  split; [apply Forall_forall; exact Hlt|].
  intros i Hi. apply WF_live; [exact Hw | apply Hlt; exact Hi].
Qed.

(* ------------------------------------------------------------------ *)
(* 4. the interpreter's closures keep the identity of the value        *)
(* ------------------------------------------------------------------ *)
Lemma pred_m_keeps_id sc dflt tab s k v :
  idV (env_map sc) (snd (fst (pred_m sc dflt tab s k v))) = idV (env_map sc) v.
Proof.
  unfold pred_m. destruct (call_tick sc s) as [boom s'].
  destruct boom; [reflexivity|].
  destruct (N.eqb (lookup_act (kcls k) tab dflt) 0); [reflexivity|].
  destruct (N.eqb (lookup_act (kcls k) tab dflt) 1); reflexivity.
Qed.

Theorem conserves_retain_pred_m debug sc dflt tab :
  conserves (env_map sc) (retain (env_map sc) debug (pred_m sc dflt tab)) [] (fun _ => []).
Proof. apply conserves_retain. intros s k v. apply pred_m_keeps_id. Qed.

Lemma modf_add_keeps_id sc s v :
  idV (env_map sc) (snd (fst (modf_add sc s v))) = idV (env_map sc) v.
Proof.
  unfold modf_add. destruct (call_tick sc s) as [boom s'].
  destruct boom; reflexivity.
Qed.

Theorem conserves_and_modify_modf_add sc (e : @entry key) (w : world key vobj cstate) :
  WF (self w) -> entry_ok e (self w) ->
  wp (and_modify e (modf_add sc))
     (fun e' w' => cpostN (env_map sc) w (ids_entry (env_map sc) e) (ids_entry (env_map sc) e') w' /\
                   e' = e /\ entry_ok e' (self w'))
     (cpostP (env_map sc) w (ids_entry (env_map sc) e)) w.
Proof. apply conserves_and_modify. intros s v. apply modf_add_keeps_id. Qed.

(* ------------------------------------------------------------------ *)
(* 5. concrete lying == on the 3-entry map m3 (Proofs/Legacy.v)        *)
(* ------------------------------------------------------------------ *)
Definition xi_sc0 : script := {| sc_adv := false; sc_seed := 0; sc_fk := 0; sc_fa := 0 |}.

(* the Some-slots of a get_disjoint result *)
Definition xi_somes (r : list (option nat)) : list nat :=
  flat_map (fun o : option nat => match o with Some i => [i] | None => [] end) r.

(* q == q' and q == stored ALWAYS answer true *)
Definition env_liar_true : env key vobj query cstate := {|
  eqK := eqK (env_map xi_sc0); eqKQ := eqKQ (env_map xi_sc0);
  eqQQ := fun s _ _ => (Yes, s);
  eqQK := fun s _ _ => (Yes, s);
  eqV := eqV (env_map xi_sc0);
  cloneK := cloneK (env_map xi_sc0); cloneV := cloneV (env_map xi_sc0);
  dropK := dropK (env_map xi_sc0); dropV := dropV (env_map xi_sc0);
  idK := idK (env_map xi_sc0); idV := idV (env_map xi_sc0) |}.

(* a. checked: the overlap assertion fires at once (nothing changed).
      unchecked, 2 queries: every slot claims query 0, the third push on the
      2-element index stack is out of bounds: panic, nothing changed.
      unchecked, 3 queries: all three slots claim query 0; the back-to-front
      split leaves slot 0 for query 0 and nothing for the others: one &mut. *)
Example example_disjoint_lying_true :
  get_disjoint_mut env_liar_true [QCls 5; QCls 6] (w_of m3) = Panic (w_of m3) /\
  get_disjoint_unchecked_mut env_liar_true [QCls 5; QCls 6] (w_of m3) = Panic (w_of m3) /\
  get_disjoint_unchecked_mut env_liar_true [QCls 5; QCls 6; QCls 7] (w_of m3)
    = Ok [Some 0; None; None] (w_of m3) /\
  xi_somes [Some 0; None; None] = [0] /\ NoDup (xi_somes [Some 0; None; None]).
Proof.
  split; [vm_compute; reflexivity|]. split; [vm_compute; reflexivity|].
  split; [vm_compute; reflexivity|]. split; [reflexivity|].
  cbn [xi_somes flat_map app]. constructor; [intros []|constructor].
Qed.

(* q == q' always answers false (the overlap assertion never fires);
   q == stored alternates with the call counter: even -> true, odd -> false *)
Definition xi_tick (s : cstate) : cstate :=
  {| n_eq := n_eq s + 1; n_clone := n_clone s; n_call := n_call s; next_id := next_id s |}.
Definition env_liar_alt : env key vobj query cstate := {|
  eqK := eqK (env_map xi_sc0); eqKQ := eqKQ (env_map xi_sc0);
  eqQQ := fun s _ _ => (No, s);
  eqQK := fun s _ _ => ((if N.even (n_eq s) then Yes else No), xi_tick s);
  eqV := eqV (env_map xi_sc0);
  cloneK := cloneK (env_map xi_sc0); cloneV := cloneV (env_map xi_sc0);
  dropK := dropK (env_map xi_sc0); dropV := dropV (env_map xi_sc0);
  idK := idK (env_map xi_sc0); idV := idV (env_map xi_sc0) |}.

Definition xi_w5 : world key vobj cstate :=
  {| cb := {| n_eq := 5; n_clone := 0; n_call := 0; next_id := 100000 |}; log := []; self := m3 |}.

(* b. two queries (even the SAME query three times passes the assertion):
      slot 0 -> query 0, slots 1 and 2 -> query 1: the index stack overflows:
      panic, container unchanged.  Three queries: the same matches fit; the
      split hands slot 0 to query 0, slot 1 to query 1, nothing to query 2:
      pairwise different slots although two stored keys claimed query 1. *)
Example example_disjoint_lying_alternating :
  get_disjoint_mut env_liar_alt [QCls 5; QCls 6] (w_of m3) = Panic xi_w5 /\
  get_disjoint_mut env_liar_alt [QCls 5; QCls 6; QCls 7] (w_of m3)
    = Ok [Some 0; Some 1; None] xi_w5 /\
  get_disjoint_mut env_liar_alt [QCls 9; QCls 9; QCls 9] (w_of m3)
    = Ok [Some 0; Some 1; None] xi_w5 /\
  xi_somes [Some 0; Some 1; None] = [0; 1] /\ NoDup (xi_somes [Some 0; Some 1; None]).
Proof.
  split; [vm_compute; reflexivity|]. split; [vm_compute; reflexivity|].
  split; [vm_compute; reflexivity|]. split; [reflexivity|].
  cbn [xi_somes flat_map app]. constructor.
  - intros [H|[]]. discriminate H.
  - constructor; [intros []|constructor].
Qed.

(* ====================================================================== *)
(* 8. key uniqueness survives an injected panic (truthful ==, any fault position) *)
(* ====================================================================== *)
(* ================================================================== *)
(* Key uniqueness after an INJECTED panic: the script's == is truthful *)
(* whenever it answers (sc_adv = false) but any one callback (==,      *)
(* Clone, Drop, closure / next) may panic (any sc_fk / sc_fa).         *)
(* ================================================================== *)

(* ------------------------------------------------------------------ *)
(* 1. the weaker law: == answers truthfully or panics                  *)
(* ------------------------------------------------------------------ *)
Record uf_Truthful {K V Q T} (E : env K V Q T) (ck : K -> N) (cq : Q -> N) : Prop := {
  uf_eqK  : forall s a b, fst (eqK E s a b) = Boom \/
                          fst (eqK E s a b) = (if N.eqb (ck a) (ck b) then Yes else No);
  uf_eqKQ : forall s a q, fst (eqKQ E s a q) = Boom \/
                          fst (eqKQ E s a q) = (if N.eqb (ck a) (cq q) then Yes else No)
}.

Lemma uf_eq_answer sc s truth :
  sc_adv sc = false ->
  fst (eq_answer sc s truth) = Boom \/ fst (eq_answer sc s truth) = (if truth then Yes else No).
Proof.
  intros Ha. unfold eq_answer. rewrite Ha. cbn [andb].
  destruct (N.eqb (sc_fk sc) 1 && N.eqb (sc_fa sc) (n_eq s)); cbn [fst]; [left | right]; reflexivity.
Qed.

Lemma uf_cls_truth sc a b : sc_adv sc = false -> cls_truth sc a b = N.eqb a b.
Proof. intros Ha. unfold cls_truth, asym. rewrite Ha. reflexivity. Qed.
Lemma uf_env_map_truthful sc : sc_adv sc = false -> uf_Truthful (env_map sc) kcls qcls.
Proof.
  intros Ha. constructor; intros; cbn [env_map eqK eqKQ]; rewrite (uf_cls_truth sc _ _ Ha); apply uf_eq_answer; exact Ha.
Qed.
Lemma uf_env_set_truthful sc : sc_adv sc = false -> uf_Truthful (env_set sc) kcls qcls.
Proof.
  intros Ha. constructor; intros; cbn [env_set eqK eqKQ]; rewrite (uf_cls_truth sc _ _ Ha); apply uf_eq_answer; exact Ha.
Qed.

(* every lawful environment is truthful *)
Lemma uf_Lawful_Truthful {K V Q T} (E : env K V Q T) ck cq : Lawful E ck cq -> uf_Truthful E ck cq.
Proof.
  intros HL. constructor; intros; right; [apply (law_eqK E ck cq HL) | apply (law_eqKQ E ck cq HL)].
Qed.

(* ------------------------------------------------------------------ *)
(* 2. the truthful scan                                                *)
(* ------------------------------------------------------------------ *)
Section uf_Scan.
Context {K V Q T : Type} (E : env K V Q T) (ck : K -> N) (cq : Q -> N).
Context (HT : uf_Truthful E ck cq).
Notation M := (M K V T).
Notation world := (world K V T).
Notation kv := (K * V)%type.

(* a test that, when it answers, decides "the stored key has class c";
   it never touches the container *)
Definition uf_ttest (test : kv -> M bool) (c : N) : Prop :=
  forall p w, wp (test p) (fun b w' => b = N.eqb (ck (fst p)) c /\ self w' = self w)
                 (fun w' => self w' = self w) w.

Lemma uf_ttest_q q : uf_ttest (test_q E q) (cq q).
Proof.
  intros p w. unfold test_q. apply wp_cbk_eq.
  destruct (uf_eqKQ E ck cq HT (cb w) (fst p) q) as [H|H]; rewrite H.
  - reflexivity.
  - destruct (N.eqb (ck (fst p)) (cq q)); split; reflexivity.
Qed.
Lemma uf_ttest_k k : uf_ttest (test_k E k) (ck k).
Proof.
  intros p w. unfold test_k. apply wp_cbk_eq.
  destruct (uf_eqK E ck cq HT (cb w) (fst p) k) as [H|H]; rewrite H.
  - reflexivity.
  - destruct (N.eqb (ck (fst p)) (ck k)); split; reflexivity.
Qed.

Lemma uf_scan_loop test c :
  uf_ttest test c ->
  forall n i (w : world),
    (forall j, i <= j < i + n -> live (self w) j) ->
    wp (scan_loop test n i)
       (fun r w' =>
          self w' = self w /\
          match r with
          | Some x => i <= x < i + n /\
                      exists p, nth_error (slots (self w)) x = Some (Some p) /\ ck (fst p) = c
          | None => forall j p, i <= j < i + n -> nth_error (slots (self w)) j = Some (Some p) -> ck (fst p) <> c
          end)
       (fun w' => self w' = self w) w.
Proof.
  intros Ht. induction n as [|n IH]; intros i w Hl; cbn [scan_loop].
  - apply wp_ret. split; [reflexivity | intros j p Hj; lia].
  - destruct (Hl i ltac:(lia)) as [p Hp].
    apply wp_bind. eapply wp_p_ref; [exact Hp|].
    apply wp_bind. eapply wp_mono; [apply Ht | | auto]; cbn beta.
    intros b w1 [Hb Hs1]. destruct (N.eqb_spec (ck (fst p)) c) as [Heq|Hne]; subst b.
    + apply wp_ret. split; [exact Hs1|]. split; [lia|]. exists p; auto.
    + eapply wp_mono; [apply (IH (S i) w1) | |]; cbn beta.
      * intros j Hj. rewrite Hs1. apply Hl. lia.
      * intros r w2 [Hs2 Hr]. split; [congruence|].
        rewrite Hs1 in Hr. destruct r as [x|].
        -- destruct Hr as (Hx & Hex). split; [lia | exact Hex].
        -- intros j q Hj Hq. destruct (Nat.eq_dec j i) as [->|Hji].
           ++ rewrite Hp in Hq. injection Hq as <-. exact Hne.
           ++ apply (Hr j q); [lia | exact Hq].
      * intros w2 Hs2. congruence.
Qed.

(* self and len unchanged in all outcomes; Some i: slot i is live and holds the
   class; None: no stored key has the class; panic: nothing happened *)
Lemma uf_scan test c (w : world) :
  uf_ttest test c -> WF (self w) ->
  wp (scan test)
     (fun r w' =>
        self w' = self w /\
        match r with
        | Some x => x < len (self w) /\
                    exists p, nth_error (slots (self w)) x = Some (Some p) /\ ck (fst p) = c
        | None => find_idx ck c (Spec.elems (self w)) = None
        end)
     (fun w' => self w' = self w) w.
Proof.
  intros Ht Hw. pose proof Hw as [Hl Hs]. unfold scan.
  apply wp_bind. apply wp_p_prefix; [intros _ | lia].
  apply wp_bind. apply wp_get_len.
  eapply wp_mono; [apply (uf_scan_loop test c Ht (len (self w)) 0 w) | |]; cbn beta.
  - intros j Hj. apply Hs. lia.
  - intros r w' [Hs' Hr]. split; [exact Hs'|]. destruct r as [x|].
    + destruct Hr as (Hx & Hex). split; [lia | exact Hex].
    + apply find_idx_none. intros j p Hp.
      destruct (elems_nth_slot _ _ _ Hw Hp) as [Hj' Hp'].
      apply (Hr j p); [lia | exact Hp'].
  - auto.
Qed.

End uf_Scan.

(* ------------------------------------------------------------------ *)
(* 3. the core operations keep the keys unique, in BOTH outcomes       *)
(* ------------------------------------------------------------------ *)
Section uf_Core.
Context {V : Type} (E : env key V query cstate) (debug : bool).
Context (HT : uf_Truthful E kcls qcls).
Notation world := (world key V cstate).
Notation MV := (M key V cstate).

Lemma uf_insert_ii_U k v u (w : world) :
  WF (self w) -> Um (self w) ->
  wp (insert_ii E debug k v u) (fun r w' => invU w w' /\ fst r < len (self w')) (invU w) w.
Proof.
  intros Hw Hu. unfold insert_ii. apply wp_bind.
  apply wp_on_unwind_frame; [apply frame_unwind_args|].
  eapply wp_mono; [apply (uf_scan kcls (test_k E k) (kcls k) w (uf_ttest_k E kcls qcls HT k) Hw) | |];
    cbn beta.
  - intros [i|] w' [Hs Hr].
    + destruct Hr as (Hi & p & Hp & Hc).
      assert (Hw' : WF (self w')) by (rewrite Hs; exact Hw).
      assert (Hp' : nth_error (slots (self w')) i = Some (Some p)) by (rewrite Hs; exact Hp).
      destruct u.
      * apply wp_bind. eapply wp_p_replace; [exact Hp'|].
        apply wp_ret. cbn [fst]. split; [|simp_w; rewrite Hs; exact Hi].
        apply keepk_invU; [exact Hu|]. eapply keepk_base; [exact Hs|].
        apply (keepk_set_slot w' i p (k, v) Hw' Hp'). cbn [fst]. congruence.
      * apply wp_bind. eapply wp_p_replace; [exact Hp'|].
        apply wp_ret. cbn [fst]. split; [|simp_w; rewrite Hs; exact Hi].
        apply keepk_invU; [exact Hu|]. eapply keepk_base; [exact Hs|].
        apply (keepk_set_slot w' i p (fst p, v) Hw' Hp'). reflexivity.
    + apply wp_bind. apply wp_get_len. apply wp_bind. apply wp_get_cap.
      apply wp_bind. apply wp_on_unwind_frame; [apply frame_unwind_args|].
      apply wp_bind. apply wp_dbg_assert.
      * intros _. apply wp_check_index.
        -- intros Hc. apply wp_bind. apply wp_p_write_checked.
           ++ intros _. apply wp_bind. apply wp_set_len. apply wp_ret. cbn [fst].
              split; [|simp_w; lia].
              unfold invU. simp_w. rewrite Hs in *.
              split; [apply WF_append; auto|].
              split; [rewrite cap_set_len, cap_set_slot; reflexivity|].
              unfold Um. rewrite elems_append by assumption.
              apply FmtSerde.Uniq_snoc; [exact Hu | cbn [fst]; exact Hr].
           ++ intros _. apply invU_refl; auto.
        -- intros _ w'' Hs''. apply invU_refl; [exact Hw | exact Hu | congruence].
      * intros _ _ w'' Hs''. apply invU_refl; [exact Hw | exact Hu | congruence].
  - intros w' Hs w'' Hs''. apply invU_refl; [exact Hw | exact Hu | congruence].
Qed.

Lemma uf_keepsU_insert_ii k v u : keepsU (insert_ii E debug k v u).
Proof.
  intros w Hw Hu. eapply wp_mono; [apply uf_insert_ii_U; assumption | |]; cbn beta; [|auto]. tauto.
Qed.

Lemma uf_keepsU_insert_ii_for_full k v u : keepsU (insert_ii_for_full E k v u).
Proof.
  intros w Hw Hu. unfold insert_ii_for_full. apply wp_bind.
  apply wp_on_unwind_frame; [apply frame_unwind_args|].
  eapply wp_mono; [apply (uf_scan kcls (test_k E k) (kcls k) w (uf_ttest_k E kcls qcls HT k) Hw) | |];
    cbn beta.
  - intros [i|] w' [Hs Hr].
    + destruct Hr as (Hi & p & Hp & Hc).
      assert (Hw' : WF (self w')) by (rewrite Hs; exact Hw).
      assert (Hp' : nth_error (slots (self w')) i = Some (Some p)) by (rewrite Hs; exact Hp).
      destruct u.
      * apply wp_bind. eapply wp_p_replace; [exact Hp'|]. apply wp_ret.
        apply keepk_invU; [exact Hu|]. eapply keepk_base; [exact Hs|].
        apply (keepk_set_slot w' i p (k, v) Hw' Hp'). cbn [fst]. congruence.
      * apply wp_bind. eapply wp_p_replace; [exact Hp'|]. apply wp_ret.
        apply keepk_invU; [exact Hu|]. eapply keepk_base; [exact Hs|].
        apply (keepk_set_slot w' i p (fst p, v) Hw' Hp'). reflexivity.
    + apply wp_bind. apply wp_frame; [apply frame_drop_args | |].
      * intros _ w'' Hs''. apply wp_ret. apply invU_refl; [exact Hw | exact Hu | congruence].
      * intros w'' Hs''. apply invU_refl; [exact Hw | exact Hu | congruence].
  - intros w' Hs w'' Hs''. apply invU_refl; [exact Hw | exact Hu | congruence].
Qed.

Lemma uf_keepsU_insert k v : keepsU (insert E debug k v).
Proof.
  unfold insert. apply keepsU_bind; [apply uf_keepsU_insert_ii|]. intros [i e].
  apply frame_keepsU. apply Safety3.frame_keep_value.
Qed.

Lemma uf_keepsU_insert_key_value k v : keepsU (insert_key_value E debug k v).
Proof.
  unfold insert_key_value. apply keepsU_bind; [apply uf_keepsU_insert_ii|]. intros [i e]. apply keepsU_ret.
Qed.

Lemma uf_keepsU_checked_insert k v : keepsU (checked_insert E debug k v).
Proof.
  intros w Hw Hu. unfold checked_insert. apply wp_bind. apply wp_get_len. apply wp_bind. apply wp_get_cap.
  destruct (len (self w) <? cap (self w)).
  - revert w Hw Hu. change (keepsU ('(_, e) <- insert_ii E debug k v false ;; r <- keep_value E e ;; ret (Some r))).
    apply keepsU_bind; [apply uf_keepsU_insert_ii|]. intros [i e].
    apply keepsU_bind; [apply frame_keepsU; apply Safety3.frame_keep_value|]. intros r. apply keepsU_ret.
  - revert w Hw Hu.
    change (keepsU (r <- insert_ii_for_full E k v false ;;
                    match r with
                    | None => ret None
                    | Some (_, (k', v')) => drop_key E k' ;; ret (Some (Some v'))
                    end)).
    apply keepsU_bind; [apply uf_keepsU_insert_ii_for_full|]. intros [[i [k' v']]|]; [|apply keepsU_ret].
    apply keepsU_bind; [apply frame_keepsU; apply frame_drop_key|]. intros _. apply keepsU_ret.
Qed.

Lemma uf_keepsU_insert_unchecked k v (w : world) :
  WF (self w) -> Um (self w) -> (debug = true \/ len (self w) < cap (self w)) ->
  wp (insert_unchecked E debug k v) (fun _ => invU w) (invU w) w.
Proof.
  intros Hw Hu Hc.
  assert (Heq : insert_unchecked E debug k v w = insert E debug k v w).
  { unfold insert_unchecked, insert, bind.
    rewrite (insert_i_eq_core E debug k v false w Hw); [reflexivity|]. tauto. }
  unfold wp. rewrite Heq. apply uf_keepsU_insert; assumption.
Qed.

(* removal needs no law at all: any live slot may go *)
Lemma uf_keepsU_remove q : keepsU (remove E debug q).
Proof.
  intros w Hw Hu. unfold remove. apply wp_bind.
  eapply wp_mono; [apply scan_spec; [intros; apply frame_test_q | exact Hw] | |]; cbn beta.
  - intros [i|] w' [Hs Hi].
    + apply wp_bind.
      eapply wp_mono; [apply (remove_index_read_U debug i w'); rewrite Hs; assumption | |]; cbn beta; [|tauto].
      intros p w'' [H _]. apply (invU_base _ _ _ Hs) in H. apply wp_bind.
      apply wp_frame; [apply frame_drop_key | |].
      * intros _ w3 Hs3. apply wp_ret. eapply invU_frame; eauto.
      * intros w3 Hs3. eapply invU_frame; eauto.
    + apply wp_ret. apply invU_refl; auto.
  - intros w' Hs. apply invU_refl; auto.
Qed.

Lemma uf_keepsU_remove_entry q : keepsU (remove_entry E debug q).
Proof.
  intros w Hw Hu. unfold remove_entry. apply wp_bind.
  eapply wp_mono; [apply scan_spec; [intros; apply frame_test_q | exact Hw] | |]; cbn beta.
  - intros [i|] w' [Hs Hi].
    + apply wp_bind.
      eapply wp_mono; [apply (remove_index_read_U debug i w'); rewrite Hs; assumption | |]; cbn beta; [|tauto].
      intros p w'' [H _]. apply wp_ret. eapply invU_base; eauto.
    + apply wp_ret. apply invU_refl; auto.
  - intros w' Hs. apply invU_refl; auto.
Qed.

(* ---- the entry API ---- *)
Lemma uf_vac_insert_U k v (w : world) :
  WF (self w) -> Um (self w) ->
  wp (vac_insert E debug k v) (fun i w' => invU w w' /\ i < len (self w')) (invU w) w.
Proof.
  intros Hw Hu. unfold vac_insert. apply wp_bind.
  eapply wp_mono; [apply uf_insert_ii_U; assumption | |]; cbn beta.
  - intros [index e] w' [Hinv Hlt]. cbn [fst] in Hlt.
    apply wp_bind.
    assert (Hfr : frame (match e with Some p => drop_pair E p | None => ret tt end)).
    { destruct e; [apply frame_drop_pair | apply frame_ret]. }
    apply wp_frame; [exact Hfr | |].
    + intros _ w'' Hs.
      assert (Hinv' : invU w w'') by (eapply invU_frame; eauto).
      rewrite <- Hs in Hlt.
      destruct (WF_live _ _ (invU_WF _ _ Hinv') Hlt) as [p Hp].
      apply wp_bind. eapply wp_p_ref; [exact Hp|]. apply wp_ret.
      split; [exact Hinv' | exact Hlt].
    + intros w'' Hs. eapply invU_frame; eauto.
  - intros w' H. exact H.
Qed.

Lemma uf_or_insert_U (e : @entry key) v (w : world) :
  WF (self w) -> Um (self w) -> entry_ok e (self w) ->
  wp (or_insert E debug e v) (fun i w' => invU w w' /\ i < len (self w')) (invU w) w.
Proof.
  intros Hw Hu He. destruct e as [i|k]; cbn [or_insert entry_ok] in *.
  - apply wp_bind. eapply wp_mono; [apply occ_into_mut_spec; assumption | |]; cbn beta; [|tauto].
    intros j w' [-> Hs]. apply wp_bind. apply wp_frame; [apply frame_drop_val | |].
    + intros _ w'' Hs'. apply wp_ret.
      split; [apply invU_refl; [auto | auto | congruence] | rewrite Hs', Hs; exact He].
    + intros w'' Hs'. apply invU_refl; [auto | auto | congruence].
  - apply uf_vac_insert_U; assumption.
Qed.

Lemma uf_or_insert_with_U (e : @entry key) f (w : world) :
  WF (self w) -> Um (self w) -> entry_ok e (self w) ->
  wp (or_insert_with E debug e f) (fun i w' => invU w w' /\ i < len (self w')) (invU w) w.
Proof.
  intros Hw Hu He. destruct e as [i|k]; cbn [or_insert_with entry_ok] in *.
  - eapply wp_mono; [apply occ_into_mut_spec; assumption | |]; cbn beta; [|tauto].
    intros j w' [-> Hs]. split; [apply invU_refl; auto | rewrite Hs; exact He].
  - apply wp_bind. apply wp_frame; [apply frame_on_unwind; [apply frame_unwind_key | apply frame_call_mk] | |].
    + intros v w' Hs.
      eapply wp_mono; [apply uf_vac_insert_U; rewrite Hs; assumption | |]; cbn beta.
      * intros i w'' [Hinv Hlt]. split; [eapply invU_base; eauto | exact Hlt].
      * intros w'' Hinv. eapply invU_base; eauto.
    + intros w' Hs. apply invU_refl; auto.
Qed.

Lemma uf_or_insert_with_key_U (e : @entry key) f (w : world) :
  WF (self w) -> Um (self w) -> entry_ok e (self w) ->
  wp (or_insert_with_key E debug e f) (fun i w' => invU w w' /\ i < len (self w')) (invU w) w.
Proof.
  intros Hw Hu He. destruct e as [i|k]; cbn [or_insert_with_key entry_ok] in *.
  - eapply wp_mono; [apply occ_into_mut_spec; assumption | |]; cbn beta; [|tauto].
    intros j w' [-> Hs]. split; [apply invU_refl; auto | rewrite Hs; exact He].
  - apply wp_bind. apply wp_frame; [apply frame_on_unwind; [apply frame_unwind_key | apply frame_call_mk] | |].
    + intros v w' Hs.
      eapply wp_mono; [apply uf_vac_insert_U; rewrite Hs; assumption | |]; cbn beta.
      * intros i w'' [Hinv Hlt]. split; [eapply invU_base; eauto | exact Hlt].
      * intros w'' Hinv. eapply invU_base; eauto.
    + intros w' Hs. apply invU_refl; auto.
Qed.

(* ---- bulk construction ---- *)
Lemma uf_keepsU_extend_loop nx items : keepsU (extend_loop E debug nx items).
Proof.
  induction items as [|[k v] rest IH]; cbn [extend_loop].
  - apply frame_keepsU. apply Safety3.frame_call_next.
  - apply keepsU_bind.
    { apply keepsU_on_unwind; [apply frame_unwind_pairs|]. apply frame_keepsU; apply Safety3.frame_call_next. }
    intros _. apply keepsU_bind; [|intros _; exact IH].
    apply keepsU_on_unwind; [apply frame_unwind_pairs|].
    apply keepsU_bind; [apply uf_keepsU_insert|]. intros old.
    apply frame_keepsU; apply frame_drop_opt_val.
Qed.

Lemma uf_keepsU_op_from_iter nx items : keepsU (replace_with E (from_iter E debug nx items) []).
Proof. unfold from_iter. apply keepsU_op_finally. apply uf_keepsU_extend_loop. Qed.

End uf_Core.

(* ---- sets ---- *)
Section uf_SetBulk.
Context (E : env key unit query cstate) (debug : bool) (HT : uf_Truthful E kcls qcls).

Lemma uf_keepsU_s_insert k : keepsU (s_insert E debug k).
Proof. unfold s_insert. apply keepsU_then_ret. apply (uf_keepsU_insert E debug HT). Qed.
Lemma uf_keepsU_s_replace k : keepsU (s_replace E debug k).
Proof.
  unfold s_replace. apply keepsU_bind; [apply (uf_keepsU_insert_ii E debug HT)|].
  intros [i e]. apply keepsU_ret.
Qed.
Lemma uf_keepsU_s_remove q : keepsU (s_remove E debug q).
Proof. unfold s_remove. apply keepsU_then_ret. apply (uf_keepsU_remove E debug). Qed.
Lemma uf_keepsU_s_take q : keepsU (s_take E debug q).
Proof. unfold s_take. apply keepsU_then_ret. apply (uf_keepsU_remove_entry E debug). Qed.

Lemma uf_keepsU_s_extend_loop nx items : keepsU (s_extend_loop E debug nx items).
Proof.
  induction items as [|k rest IH]; cbn [s_extend_loop].
  - apply frame_keepsU. apply Safety3.frame_call_next.
  - apply keepsU_bind.
    { apply keepsU_on_unwind; [apply frame_unwind_pairs|]. apply frame_keepsU; apply Safety3.frame_call_next. }
    intros _. apply keepsU_bind; [|intros _; exact IH].
    apply keepsU_on_unwind; [apply frame_unwind_pairs|].
    apply keepsU_bind; [apply uf_keepsU_s_insert|]. intros _. apply keepsU_ret.
Qed.

Lemma uf_keepsU_op_s_from_iter nx items : keepsU (replace_with E (s_from_iter E debug nx items) []).
Proof. unfold s_from_iter. apply keepsU_op_finally. apply uf_keepsU_s_extend_loop. Qed.

End uf_SetBulk.

(* ---- serde visitors ---- *)
Lemma uf_keepsU_visit_map debug sc items : sc_adv sc = false -> keepsU (visit_map debug sc items).
Proof.
  intros Ha. induction items as [|[k v] rest IH]; cbn [visit_map].
  - apply keepsU_ret.
  - apply keepsU_bind; [apply frame_keepsU; apply frame_get_next_id|]. intros id.
    apply keepsU_bind; [apply frame_keepsU; apply frame_bump_id|]. intros _.
    apply keepsU_bind; [apply (uf_keepsU_insert _ debug (uf_env_map_truthful sc Ha))|]. intros old.
    apply keepsU_bind; [apply frame_keepsU; apply frame_drop_opt_val|]. intros _. exact IH.
Qed.
Lemma uf_keepsU_visit_seq debug sc items : sc_adv sc = false -> keepsU (visit_seq debug sc items).
Proof.
  intros Ha. induction items as [|k rest IH]; cbn [visit_seq].
  - apply keepsU_ret.
  - apply keepsU_bind; [apply frame_keepsU; apply frame_get_next_id|]. intros id.
    apply keepsU_bind; [apply frame_keepsU; apply frame_bump_id|]. intros _.
    apply keepsU_bind; [apply (uf_keepsU_s_insert _ debug (uf_env_set_truthful sc Ha))|]. intros _. exact IH.
Qed.

(* ---- entry chains ---- *)
Section uf_EntryChain.
Context (debug : bool) (sc : script) (Ha : sc_adv sc = false).
Notation Em := (env_map sc).
Let uf_HTm : uf_Truthful Em kcls qcls := uf_env_map_truthful sc Ha.

Lemma uf_chU_or_insert e v (w : mworld) : WF (self w) -> Um (self w) -> entry_ok e (self w) ->
  chain_goal_U (i <- or_insert Em debug e v ;; r_slotval 0 i) w.
Proof. intros Hw Hu He. apply wp_then_slotval_U. apply uf_or_insert_U; assumption. Qed.

Lemma uf_chU_or_insert_with e f (w : mworld) : WF (self w) -> Um (self w) -> entry_ok e (self w) ->
  chain_goal_U (i <- or_insert_with Em debug e f ;; r_slotval 0 i) w.
Proof. intros Hw Hu He. apply wp_then_slotval_U. apply uf_or_insert_with_U; assumption. Qed.

Lemma uf_chU_or_insert_with_key e f (w : mworld) : WF (self w) -> Um (self w) -> entry_ok e (self w) ->
  chain_goal_U (i <- or_insert_with_key Em debug e f ;; r_slotval 0 i) w.
Proof. intros Hw Hu He. apply wp_then_slotval_U. apply uf_or_insert_with_key_U; assumption. Qed.

Lemma uf_chU_and_modify e v (w : mworld) : WF (self w) -> Um (self w) -> entry_ok e (self w) ->
  chain_goal_U (e' <- and_modify e (modf_add sc) ;; i <- or_insert Em debug e' v ;; r_slotval 0 i) w.
Proof.
  intros Hw Hu He. apply wp_bind.
  eapply wp_mono; [apply and_modify_U; assumption | |]; cbn beta; [|auto].
  intros e' w1 (H1 & -> & Hl1).
  eapply wp_mono; [apply uf_chU_or_insert with (e := e); [eapply invU_WF; eauto | eapply invU_U; eauto | ] | |];
    cbn beta.
  - destruct e; cbn [entry_ok] in *; [lia | exact I].
  - intros _ w2 H2. eapply invU_trans; eauto.
  - intros w2 H2. eapply invU_trans; eauto.
Qed.

Lemma uf_chU_insert e v (w : mworld) : WF (self w) -> Um (self w) -> entry_ok e (self w) ->
  chain_goal_U (match e with
              | Occupied i => old <- occ_insert i v ;; ret (0%N :: r_val old)
              | Vacant k' => j <- vac_insert Em debug k' v ;; r_slotval 1 j
              end) w.
Proof.
  intros Hw Hu He. destruct e as [i|k']; cbn [entry_ok] in He.
  - apply wp_bind.
    eapply wp_mono; [apply occ_insert_K; assumption | |]; cbn beta; [|tauto].
    intros old w1 H1. apply wp_ret. apply keepk_invU; assumption.
  - apply wp_then_slotval_U. apply uf_vac_insert_U; assumption.
Qed.

Lemma uf_chU_into_mut e v (w : mworld) : WF (self w) -> Um (self w) -> entry_ok e (self w) ->
  chain_goal_U (match e with
              | Occupied i => j <- occ_into_mut i ;; r <- r_slotval 0 j ;; set_dat j (vdat v) ;; ret r
              | Vacant k' => j <- vac_insert Em debug k' v ;; r_slotval 1 j
              end) w.
Proof.
  intros Hw Hu He. destruct e as [i|k']; cbn [entry_ok] in He.
  - apply wp_bind.
    eapply wp_mono; [apply occ_into_mut_spec; assumption | |]; cbn beta; [|tauto].
    intros j w1 [-> Hs1].
    eapply wp_mono; [apply wp_slot_set_U with (j := i); rewrite Hs1; assumption | |]; cbn beta.
    + intros _ w2 H2. eapply invU_base; eauto.
    + intros w2 H2. eapply invU_base; eauto.
  - apply wp_then_slotval_U. apply uf_vac_insert_U; assumption.
Qed.

Lemma uf_keepsU_entry_chain k chain v : keepsU (entry_chain debug sc k chain v).
Proof.
  intros w Hw Hu. unfold entry_chain. apply wp_bind.
  eapply wp_mono; [apply entry_of_spec; exact Hw | |]; cbn beta.
  - intros e w1 [Hs1 He].
    assert (Hw1 : WF (self w1)) by (rewrite Hs1; exact Hw).
    assert (Hu1 : Um (self w1)) by (rewrite Hs1; exact Hu).
    assert (He1 : entry_ok e (self w1)) by (rewrite Hs1; exact He).
    assert (Hb : chain_goal_U
      (match chain with
       | 0%N => i <- or_insert Em debug e v ;; r_slotval 0 i
       | 1%N => i <- or_insert_with Em debug e (mk_val sc v) ;; r_slotval 0 i
       | 2%N => i <- or_insert_with_key Em debug e (fun _ => mk_val sc v) ;; r_slotval 0 i
       | 3%N => i <- or_insert_with Em debug e (mk_default sc) ;; r_slotval 0 i
       | 4%N => e' <- and_modify e (modf_add sc) ;; i <- or_insert Em debug e' v ;; r_slotval 0 i
       | 5%N =>
           x <- entry_key e ;;
           match x with
           | inl j => p <- p_ref j ;; ret ([0%N; nn j] ++ r_key (fst p))
           | inr k' => drop_key Em k' ;; ret (1%N :: r_key k')
           end
       | 6%N =>
           match e with
           | Occupied i => j <- occ_get i ;; r_slotval 0 j
           | Vacant k' => drop_key Em k' ;; ret (1%N :: r_key k')
           end
       | 7%N =>
           match e with
           | Occupied i => j <- occ_get_mut i ;; r <- r_slotval 0 j ;; set_dat j (vdat v) ;; ret r
           | Vacant k' => ret (1%N :: r_key k')
           end
       | 8%N =>
           match e with
           | Occupied i => old <- occ_insert i v ;; ret (0%N :: r_val old)
           | Vacant k' => j <- vac_insert Em debug k' v ;; r_slotval 1 j
           end
       | 9%N =>
           match e with
           | Occupied i => old <- occ_remove Em debug i ;; ret (0%N :: r_val old)
           | Vacant k' => drop_key Em k' ;; ret [1%N]
           end
       | 10%N =>
           match e with
           | Occupied i => p <- occ_remove_entry debug i ;; ret (0%N :: r_pair p)
           | Vacant k' => ret (1%N :: r_key k')
           end
       | _ =>
           match e with
           | Occupied i => j <- occ_into_mut i ;; r <- r_slotval 0 j ;; set_dat j (vdat v) ;; ret r
           | Vacant k' => j <- vac_insert Em debug k' v ;; r_slotval 1 j
           end
       end) w1).
    { destruct chain as [|p]; [apply uf_chU_or_insert; assumption|].
      repeat (match goal with
              | |- context [match ?q with xI _ => _ | xO _ => _ | xH => _ end] => is_var q; destruct q
              end);
      first [ apply uf_chU_or_insert; assumption
            | apply uf_chU_or_insert_with; assumption
            | apply uf_chU_or_insert_with_key; assumption
            | apply uf_chU_and_modify; assumption
            | apply chU_key; assumption
            | apply chU_get; assumption
            | apply chU_get_mut; assumption
            | apply uf_chU_insert; assumption
            | apply chU_remove; assumption
            | apply chU_remove_entry; assumption
            | apply uf_chU_into_mut; assumption ]. }
    unfold chain_goal_U in Hb.
    eapply wp_mono; [exact Hb | |]; cbn beta.
    + intros _ w2 H2. eapply invU_base; eauto.
    + intros w2 H2. eapply invU_base; eauto.
  - intros w1 Hs1. apply invU_refl; auto.
Qed.

End uf_EntryChain.

(* ---- clone: Clone may panic; when it answers the copy has the class ---- *)
Section uf_Clone.
Context {V : Type} (E : env key V query cstate).
Context (HCK : forall s k, match fst (cloneK E s k) with Some k' => kcls k' = kcls k | None => True end).
Notation world := (world key V cstate).

Lemma uf_clone_pair p (w : world) :
  wp (clone_pair E p)
     (fun p' w' => self w' = self w /\ kcls (fst p') = kcls (fst p))
     (fun w' => self w' = self w) w.
Proof.
  unfold clone_pair. apply wp_bind. apply wp_emit. apply wp_bind. apply wp_cbo_eq. simp_w.
  pose proof (HCK (cb w) (fst p)) as H.
  destruct (fst (cloneK E (cb w) (fst p))) as [k'|]; [|reflexivity].
  apply wp_bind. apply wp_emit. apply wp_bind. apply wp_on_unwind_frame; [apply frame_unwind_key|].
  apply wp_cbo; [|intros s w'' Hs; exact Hs].
  intros v' s. apply wp_ret. simp_w. split; [reflexivity | exact H].
Qed.

Lemma uf_clone_loop src : WF src -> forall n i (w : world),
  WF (self w) -> len (self w) = i -> i + n <= cap (self w) -> i + n = len src ->
  wp (clone_loop E src n i)
     (fun _ w' => WF (self w') /\ cap (self w') = cap (self w) /\
                  cls (self w') = cls (self w) ++ List.map (fun p => kcls (fst p)) (skipn i (Spec.elems src)))
     (fun w' => WF (self w')) w.
Proof.
  intros Hsrc. induction n as [|n IH]; intros i w Hw Hl Hc Hn; cbn [clone_loop].
  - apply wp_ret. rewrite EqClone.skipn_all_ge by (rewrite (elems_length src Hsrc); lia).
    split; [exact Hw|]. split; [reflexivity|]. cbn [List.map]. rewrite app_nil_r. reflexivity.
  - assert (Hi : i < len src) by lia.
    destruct (WF_live _ _ Hsrc Hi) as [p Hp]. rewrite Hp.
    assert (Hel : nth_error (Spec.elems src) i = Some p) by (apply (elems_nth src i p Hsrc Hi); exact Hp).
    rewrite (EqClone.skipn_nth_cons _ _ _ Hel).
    apply wp_bind. eapply wp_mono; [apply uf_clone_pair | |]; cbn beta.
    2:{ intros w1 Hs1. rewrite Hs1. exact Hw. }
    intros p' w1 (Hs1 & Hrel).
    apply wp_bind. apply wp_p_write; [rewrite Hs1; lia|].
    apply wp_bind. apply wp_set_len. simp_w. rewrite Hs1.
    set (w2 := with_self _ _).
    assert (Hself2 : self w2 = set_len_m (set_slot_m (self w) (len (self w)) (Some p')) (S (len (self w)))).
    { unfold w2. simp_w. rewrite Hl. reflexivity. }
    assert (Hcl : len (self w) < cap (self w)) by lia.
    assert (Hw2 : WF (self w2)) by (rewrite Hself2; apply WF_append; assumption).
    assert (Hc2 : cap (self w2) = cap (self w)) by (rewrite Hself2, cap_set_len, cap_set_slot; reflexivity).
    assert (Hl2 : len (self w2) = S i) by (unfold w2; reflexivity).
    assert (He2 : Spec.elems (self w2) = Spec.elems (self w) ++ [p']) by (rewrite Hself2; apply elems_append; assumption).
    eapply wp_mono; [apply (IH (S i) w2 Hw2 Hl2); [rewrite Hc2; lia | lia] | |]; cbn beta; [|auto].
    intros _ w3 (Hw3 & Hc3 & Hcls3).
    split; [exact Hw3|]. split; [congruence|].
    rewrite Hcls3. unfold cls. rewrite He2, map_app. cbn [List.map]. rewrite Hrel, <- app_assoc. reflexivity.
Qed.

Lemma uf_clone_from_src src (w : world) :
  WF src -> WF (self w) -> len (self w) = 0 -> cap (self w) = cap src ->
  wp (clone_from_src E src)
     (fun _ w' => WF (self w') /\ cap (self w') = cap src /\ cls (self w') = cls src)
     (fun _ => True) w.
Proof.
  intros Hsrc Hw Hl Hc. unfold clone_from_src. apply Safety3.wp_finally_drop.
  apply wp_bind. apply wp_get_cap.
  pose proof (WF_len_le_cap _ Hsrc) as Hle.
  destruct (Nat.leb_spec (len src) (cap src)) as [_|Hgt]; [|lia].
  replace (Nat.min (cap (self w)) (len src)) with (len src) by lia.
  eapply wp_mono; [apply (uf_clone_loop src Hsrc (len src) 0 w Hw Hl); lia | |]; cbn beta; [|auto].
  intros _ w' (Hw' & Hc' & Hcls). cbn [skipn] in Hcls.
  split; [exact Hw'|]. split; [congruence|].
  rewrite Hcls. unfold cls at 1. rewrite (elems_len0 _ Hl). reflexivity.
Qed.

Lemma uf_op_clone_U (src : map key V) (w : world) :
  WF src -> Um src -> WF (self w) -> Um (self w) -> cap src = cap (self w) ->
  wp (replace_with E (clone_from_src E src) []) (fun _ => invU w) (invU w) w.
Proof.
  intros Hsrc Husrc Hw Hu Hc. apply replace_with_U; [exact Hw | exact Hu|]. intros w0 Hs0.
  eapply wp_mono; [apply (uf_clone_from_src src w0 Hsrc) | |]; cbn beta.
  - rewrite Hs0. apply WF_new.
  - rewrite Hs0. reflexivity.
  - rewrite Hs0, cap_new. congruence.
  - intros _ w' (H1 & H2 & H3). split; [exact H1|]. split; [congruence|].
    eapply Um_cls_eq; eauto.
  - auto.
Qed.

End uf_Clone.

Lemma uf_clone_key_cb_cls sc s k :
  match fst (clone_key_cb sc s k) with Some k' => kcls k' = kcls k | None => True end.
Proof.
  unfold clone_key_cb. destruct (clone_tick sc s) as [[i|] s']; cbn [option_map fst kcls]; [reflexivity | exact I].
Qed.
Lemma uf_env_map_cloneK sc s k :
  match fst (cloneK (env_map sc) s k) with Some k' => kcls k' = kcls k | None => True end.
Proof. cbn [env_map cloneK]. apply uf_clone_key_cb_cls. Qed.
Lemma uf_env_set_cloneK sc s k :
  match fst (cloneK (env_set sc) s k) with Some k' => kcls k' = kcls k | None => True end.
Proof. cbn [env_set cloneK]. apply uf_clone_key_cb_cls. Qed.

(* ------------------------------------------------------------------ *)
(* 4. the history-level theorems under injected faults                 *)
(* ------------------------------------------------------------------ *)
Ltac uf_kbU H := apply keepsU_bind; [apply H | intros; apply keepsU_ret].

Theorem step_uniq_fault debug sc o x :
  sc_adv sc = false -> WFx x -> contract_ok debug o x -> UniqX x -> UniqX (snd (step debug sc o x)).
Proof.
  intros Ha Hx Hc Hu. assert (Hd : xdead x = false) by apply Hx.
  pose proof (uf_env_map_truthful sc Ha) as HTm. pose proof (uf_env_set_truthful sc Ha) as HTs.
  unfold step. cbv beta zeta. rewrite Hd.
  destruct o.
  - (* OInsert *) apply run_m_U; [exact Hx | exact Hu|]. uf_kbU (uf_keepsU_insert (env_map sc) debug HTm).
  - (* OInsertKV *) apply run_m_U; [exact Hx | exact Hu|]. uf_kbU (uf_keepsU_insert_key_value (env_map sc) debug HTm).
  - (* OCheckedInsert *) apply run_m_U; [exact Hx | exact Hu|]. uf_kbU (uf_keepsU_checked_insert (env_map sc) debug HTm).
  - (* OInsertUnchecked *) apply run_m_U_at; [exact Hu|]. cbn [contract_ok] in Hc.
    apply wp_keepsU_then_frame; [|intros; apply frame_ret].
    apply (uf_keepsU_insert_unchecked (env_map sc) debug HTm);
      [apply WFx_get_m; exact Hx | apply UniqX_get_m; exact Hu | exact Hc].
  - (* OGet *) apply run_m_U; [exact Hx | exact Hu|]. apply stays_keepsU. apply (stays_scan_opt_slot (env_map sc)).
  - (* OGetMut *) apply run_m_U; [exact Hx | exact Hu|]. apply keepsU_op_get_mut.
  - (* OGetKV *) apply run_m_U; [exact Hx | exact Hu|]. apply stays_keepsU. apply (stays_scan_opt_slot (env_map sc)).
  - (* OContains *) apply run_m_U; [exact Hx | exact Hu|]. apply stays_keepsU. unfold contains_key.
    apply stays_bind; [|intros; apply stays_ret].
    apply stays_bind; [|intros; apply stays_ret].
    apply (stays_scan (env_map sc)). intros; apply frame_test_q.
  - (* OIndex *) apply run_m_U; [exact Hx | exact Hu|]. apply stays_keepsU. apply stays_op_index.
  - (* OIndexMut *) apply run_m_U; [exact Hx | exact Hu|]. apply keepsU_op_index_mut.
  - (* ORemove *) apply run_m_U; [exact Hx | exact Hu|]. uf_kbU (uf_keepsU_remove (env_map sc) debug).
  - (* ORemoveEntry *) apply run_m_U; [exact Hx | exact Hu|]. uf_kbU (uf_keepsU_remove_entry (env_map sc) debug).
  - (* ORetain *) apply run_m_U; [exact Hx | exact Hu|]. uf_kbU (@keepsU_retain vobj (env_map sc) debug).
  - (* OClear *) apply run_m_U; [exact Hx | exact Hu|]. uf_kbU (@keepsU_clear vobj (env_map sc)).
  - (* ODrain *) apply run_m_U; [exact Hx | exact Hu|]. apply keepsU_drain_session.
  - (* OWithCapacity *) apply run_m_U; [exact Hx | exact Hu|]. apply keepsU_op_with_capacity.
  - (* OIter *) apply run_m_U; [exact Hx | exact Hu|]. apply keepsU_iter_session.
  - (* OIntoIter *) apply run_m_U; [exact Hx | exact Hu|]. apply keepsU_op_into_iter.
  - (* OEntry *) apply run_m_U; [exact Hx | exact Hu|]. apply uf_keepsU_entry_chain. exact Ha.
  - (* ODisjoint *) apply run_m_U; [exact Hx | exact Hu|]. apply keepsU_disjoint_session.
  - (* OClone *)
    destruct (Nat.eqb_spec (cap (get_m r x)) (cap (get_m r' x))) as [Heq|Hne].
    + apply run_m_U_at; [exact Hu|].
      apply (uf_op_clone_U (env_map sc) (uf_env_map_cloneK sc));
        [apply WFx_get_m; exact Hx | apply UniqX_get_m; exact Hu
         | apply WFx_get_m; exact Hx | apply UniqX_get_m; exact Hu | exact Heq].
    + cbn [fst snd]. exact Hu.
  - (* OEq *) apply run_m_U_at; [exact Hu|].
    apply stays_at_U; [apply WFx_get_m; exact Hx | apply UniqX_get_m; exact Hu|].
    apply op_eq_stays; apply WFx_get_m; exact Hx.
  - (* OFromIter *) apply run_m_U; [exact Hx | exact Hu|]. apply (uf_keepsU_op_from_iter (env_map sc) debug HTm).
  - (* OFormat *) apply run_m_U; [exact Hx | exact Hu|]. apply stays_keepsU. apply stays_format_m.
  - (* OSerde *) apply run_m_U; [exact Hx | exact Hu|]. apply keepsU_op_finally. apply uf_keepsU_visit_map. exact Ha.
  - (* SInsert *) apply run_s_U; [exact Hx | exact Hu|]. uf_kbU (uf_keepsU_s_insert (env_set sc) debug HTs).
  - (* SReplace *) apply run_s_U; [exact Hx | exact Hu|]. uf_kbU (uf_keepsU_s_replace (env_set sc) debug HTs).
  - (* SContains *) apply run_s_U; [exact Hx | exact Hu|]. apply stays_keepsU. unfold s_contains, contains_key.
    apply stays_bind; [|intros; apply stays_ret].
    apply stays_bind; [|intros; apply stays_ret].
    apply (stays_scan (env_set sc)). intros; apply frame_test_q.
  - (* SGet *) apply run_s_U; [exact Hx | exact Hu|]. apply stays_keepsU. apply (stays_scan_opt_slot (env_set sc)).
  - (* SRemove *) apply run_s_U; [exact Hx | exact Hu|]. uf_kbU (uf_keepsU_s_remove (env_set sc) debug).
  - (* STake *) apply run_s_U; [exact Hx | exact Hu|]. uf_kbU (uf_keepsU_s_take (env_set sc) debug).
  - (* SRetain *) apply run_s_U; [exact Hx | exact Hu|]. uf_kbU (keepsU_s_retain (env_set sc) debug).
  - (* SClear *) apply run_s_U; [exact Hx | exact Hu|]. uf_kbU (keepsU_s_clear (env_set sc)).
  - (* SDrain *) apply run_s_U; [exact Hx | exact Hu|]. apply keepsU_drain_session.
  - (* SExtend *) apply run_s_U; [exact Hx | exact Hu|]. unfold s_extend.
    uf_kbU (uf_keepsU_s_extend_loop (env_set sc) debug HTs).
  - (* SIter *) apply run_s_U; [exact Hx | exact Hu|]. apply stays_keepsU. apply stays_set_iter_session.
  - (* SIntoIter *) apply run_s_U; [exact Hx | exact Hu|]. apply keepsU_op_s_into_iter.
  - (* SClone *)
    destruct (Nat.eqb_spec (cap (get_s r x)) (cap (get_s r' x))) as [Heq|Hne].
    + apply run_s_U_at; [exact Hu|].
      apply (uf_op_clone_U (env_set sc) (uf_env_set_cloneK sc));
        [apply WFx_get_s; exact Hx | apply UniqX_get_s; exact Hu
         | apply WFx_get_s; exact Hx | apply UniqX_get_s; exact Hu | exact Heq].
    + cbn [fst snd]. exact Hu.
  - (* SEq *) apply run_s_U_at; [exact Hu|].
    apply stays_at_U; [apply WFx_get_s; exact Hx | apply UniqX_get_s; exact Hu|].
    apply op_eq_stays; apply WFx_get_s; exact Hx.
  - (* SFromIter *) apply run_s_U; [exact Hx | exact Hu|]. apply (uf_keepsU_op_s_from_iter (env_set sc) debug HTs).
  - (* SAlgebra *) apply run_s_U_at; [exact Hu|].
    apply stays_at_U; [apply WFx_get_s; exact Hx | apply UniqX_get_s; exact Hu|].
    apply alg_session_frame; apply WFx_get_s; exact Hx.
  - (* SPred *) apply run_s_U_at; [exact Hu|].
    apply stays_at_U; [apply WFx_get_s; exact Hx | apply UniqX_get_s; exact Hu|].
    apply op_pred_stays; apply WFx_get_s; exact Hx.
  - (* SSub *) apply run_s_U_at; [exact Hu|].
    apply stays_at_U; [apply WFx_get_s; exact Hx | apply UniqX_get_s; exact Hu|].
    apply op_sub_stays; apply WFx_get_s; exact Hx.
  - (* SFormat *) apply run_s_U; [exact Hx | exact Hu|]. apply stays_keepsU. apply stays_format_s.
  - (* SSerde *) apply run_s_U; [exact Hx | exact Hu|]. apply keepsU_op_finally. apply uf_keepsU_visit_seq. exact Ha.
  - (* OCloneFrom *)
    destruct (Nat.eqb_spec (cap (get_m r x)) (cap (get_m r' x))) as [Heq|Hne].
    + apply run_m_U_at; [exact Hu|].
      apply (uf_op_clone_U (env_map sc) (uf_env_map_cloneK sc));
        [apply WFx_get_m; exact Hx | apply UniqX_get_m; exact Hu
         | apply WFx_get_m; exact Hx | apply UniqX_get_m; exact Hu | exact Heq].
    + cbn [fst snd]. exact Hu.
  - (* SCloneFrom *)
    destruct (Nat.eqb_spec (cap (get_s r x)) (cap (get_s r' x))) as [Heq|Hne].
    + apply run_s_U_at; [exact Hu|].
      apply (uf_op_clone_U (env_set sc) (uf_env_set_cloneK sc));
        [apply WFx_get_s; exact Hx | apply UniqX_get_s; exact Hu
         | apply WFx_get_s; exact Hx | apply UniqX_get_s; exact Hu | exact Heq].
    + cbn [fst snd]. exact Hu.
  - (* ODefault *) apply run_m_U; [exact Hx | exact Hu|]. apply keepsU_op_default.
  - (* SDefault *) apply run_s_U; [exact Hx | exact Hu|]. apply keepsU_op_default.
  - (* OIterNth *) apply run_m_U; [exact Hx | exact Hu|]. apply stays_keepsU. apply stays_iter_nth_session.
  - (* ODrainNth *) apply run_m_U; [exact Hx | exact Hu|]. apply keepsU_drain_nth_session.
  - (* OIntoNth *) apply run_m_U; [exact Hx | exact Hu|].
    apply keepsU_op_into_nth; intros p; [apply frame_into_steps_item | apply frame_into_rest].
  - (* SIterNth *) apply run_s_U; [exact Hx | exact Hu|]. apply stays_keepsU. apply stays_iter_nth_session.
  - (* SDrainNth *) apply run_s_U; [exact Hx | exact Hu|]. apply keepsU_drain_nth_session.
  - (* SIntoNth *) apply run_s_U; [exact Hx | exact Hu|].
    apply keepsU_op_into_nth; intros p; [apply frame_ret | apply frame_drop_key].
  - (* OBad *) cbn [fst snd]. exact Hu.
Qed.

Theorem run_uniq_fault debug sc ops x :
  sc_adv sc = false -> WFx x -> UniqX x -> Forall safe_op ops ->
  WFx (run_final debug sc ops x) /\ UniqX (run_final debug sc ops x).
Proof.
  intros Ha. revert x. induction ops as [|o t IH]; intros x Hx Hu Hs; cbn [run_final].
  - split; assumption.
  - inversion Hs as [|o' t' Ho Ht]; subst.
    pose proof (safe_op_contract debug o x Ho) as Hc.
    apply IH; [apply (step_safe debug sc o x Hx Hc) | apply step_uniq_fault; assumption | exact Ht].
Qed.

(* from the initial world, for every fault kind and every fault position *)
Theorem run_uniq_fault_init debug sc ops c0 c1 c2 c3 :
  sc_adv sc = false -> Forall safe_op ops ->
  let x := run_final debug sc ops (init_world c0 c1 c2 c3) in WFx x /\ UniqX x.
Proof.
  intros Ha Hs x.
  exact (run_uniq_fault debug sc ops (init_world c0 c1 c2 c3) Ha (init_WFx c0 c1 c2 c3)
           (init_UniqX c0 c1 c2 c3) Hs).
Qed.

(* the honest theorem of ExecUniq.v is the special case sc_fk = 0 *)
Corollary uf_step_uniq_honest debug sc o x :
  honest sc -> WFx x -> contract_ok debug o x -> UniqX x -> UniqX (snd (step debug sc o x)).
Proof. intros [Ha _]. apply step_uniq_fault. exact Ha. Qed.

(* ====================================================================== *)
(* 9. replace_with / Clone / clone_from / FromIterator / From<[_;N]> / serde decode: accounting, every environment *)
(* ====================================================================== *)
(* ================================================================== *)
(* 0. generic helpers                                                  *)
(* ================================================================== *)
Section CfGen.
Context {K V Q T : Type} (E : env K V Q T).
Notation world := (world K V T).

Lemma cf_Tidy_new n : Tidy (@new_map K V n).
Proof.
  intros i _ Hne. unfold new_map in *; cbn [slots] in *.
  destruct (nth_error (repeat None n) i) as [o|] eqn:H; [|contradiction].
  apply nth_error_In in H. apply repeat_spec in H. subst o. reflexivity.
Qed.

Lemma cf_owned_new n : owned E (@new_map K V n) = [].
Proof. apply owned_empty_tidy; [reflexivity | apply cf_Tidy_new]. Qed.

(* Drop for Map, both outcomes: the log grows by [d]; [d] plus what is still in
   the slots afterwards is exactly what was in the slots before; from a tidy
   container and without a panicking Drop nothing stays behind *)
Lemma cf_drop_map_old (w : world) :
  WF (self w) ->
  wp (drop_map E)
     (fun _ w' => exists d, dropped (log w') = dropped (log w) ++ d /\
                            Permutation (d ++ owned E (self w')) (owned E (self w)) /\
                            (Tidy (self w) -> owned E (self w') = []))
     (fun w' => exists d, dropped (log w') = dropped (log w) ++ d /\
                          Permutation (d ++ owned E (self w')) (owned E (self w))) w.
Proof.
  intros Hw.
  eapply wp_mono; [apply wp_conj; [apply (drop_map_log E w Hw) | apply (drop_map_acct E w Hw)] | |]; cbn beta.
  - intros _ w' [(d & Hd & HP) (lost & _ & Ht)]. exists d. split; [first [exact Hd | reflexivity]|]. split; [perm_ids|].
    intros HT. apply Ht. exact HT.
  - intros w' [(d & Hd & HP) _]. exists d. split; [exact Hd | perm_ids].
Qed.

End CfGen.

(* ================================================================== *)
(* A. replace_with                                                     *)
(* ================================================================== *)
Section CfReplace.
Context {V : Type} (E : env key V query cstate).
Notation world := (world key V cstate).
Notation M := (M key V cstate).

(* the state the build computation starts from: a fresh empty local of the register's capacity *)
Definition cf_fresh (w : world) : world := with_self w (new_map (cap (self w))).

Lemma cf_fresh_WF w : WF (self (cf_fresh w)).
Proof. apply WF_new. Qed.
Lemma cf_fresh_cap w : cap (self (cf_fresh w)) = cap (self w).
Proof. apply cap_new. Qed.
Lemma cf_fresh_Tidy w : Tidy (self (cf_fresh w)).
Proof. apply cf_Tidy_new. Qed.
Lemma cf_fresh_owned w : owned E (self (cf_fresh w)) = [].
Proof. apply cf_owned_new. Qed.

(* what replace_with computes, as equations *)
Theorem replace_with_build_panic_keeps_self (build : M unit) body (w w1 : world) :
  build (with_self w (new_map (cap (self w)))) = Panic w1 ->
  replace_with E build body w = Panic (with_self w1 (self w)).
Proof.
  intros H. unfold replace_with, bind, get_cap, swap_self, with_self in *. rewrite H. reflexivity.
Qed.

Lemma cf_replace_with_build_ok (build : M unit) body (w w1 : world) :
  build (with_self w (new_map (cap (self w)))) = Ok tt w1 ->
  replace_with E build body w =
    match drop_map E (with_self w1 (self w)) with
    | Ok _ w2 => Ok body (with_self w2 (self w1))
    | Panic w2 => Panic (with_self w2 (self w1))
    | UB => UB
    end.
Proof.
  intros H. unfold replace_with, bind, get_cap, swap_self, get_self, put_self, with_self in *. rewrite H.
  cbn [cb log self].
  destruct (drop_map E _) as [[] w2|w2|]; reflexivity.
Qed.

Lemma cf_replace_with_build_ub (build : M unit) body (w : world) :
  build (with_self w (new_map (cap (self w)))) = UB -> replace_with E build body w = UB.
Proof.
  intros H. unfold replace_with, bind, get_cap, swap_self, with_self in *. rewrite H. reflexivity.
Qed.

(* wp form of the same fact: when the build panics the register keeps its old contents *)
Corollary cf_replace_with_build_panic_wp (build : M unit) body (w : world) :
  WF (self w) -> (exists w1, build (cf_fresh w) = Panic w1) ->
  wp (replace_with E build body) (fun _ _ => False)
     (fun w' => self w' = self w /\ WF (self w') /\
                exists w1, build (cf_fresh w) = Panic w1 /\ cb w' = cb w1 /\ log w' = log w1) w.
Proof.
  intros Hw [w1 H]. unfold wp. unfold cf_fresh in *.
  rewrite (replace_with_build_panic_keeps_self build body w w1 H). simp_w.
  split; [reflexivity|]. split; [exact Hw|]. exists w1. auto.
Qed.

(* the generic rule *)
Lemma cf_replace_with_gen (build : M unit) body (Bn Bp : world -> Prop) (w : world) :
  WF (self w) ->
  wp build (fun _ => Bn) Bp (cf_fresh w) ->
  wp (replace_with E build body)
     (fun r w' => r = body /\
        exists w1 d lost, Bn w1 /\ self w' = self w1 /\
          dropped (log w') = dropped (log w1) ++ d /\
          Permutation (d ++ lost) (owned E (self w)) /\ (Tidy (self w) -> lost = []))
     (fun w' =>
        (exists w1, Bp w1 /\ w' = with_self w1 (self w)) \/
        (exists w1 d lost, Bn w1 /\ self w' = self w1 /\
          dropped (log w') = dropped (log w1) ++ d /\
          Permutation (d ++ lost) (owned E (self w)))) w.
Proof.
  intros Hw Hb. unfold wp in Hb. unfold cf_fresh in Hb.
  destruct (build (with_self w (new_map (cap (self w))))) as [[] w1|w1|] eqn:Hbe; [| |contradiction].
  - unfold wp. rewrite (cf_replace_with_build_ok build body w w1 Hbe).
    assert (Hw' : WF (self (with_self w1 (self w)))) by (simp_w; exact Hw).
    pose proof (cf_drop_map_old E (with_self w1 (self w)) Hw') as Hd. unfold wp in Hd.
    destruct (drop_map E (with_self w1 (self w))) as [[] w2|w2|]; [| |contradiction]; simp_w.
    + destruct Hd as (d & Hd1 & Hd2 & Hd3). split; [reflexivity|].
      exists w1, d, (owned E (self w2)). split; [first [exact Hb | reflexivity]|]. split; [reflexivity|].
      split; [exact Hd1|]. split; [exact Hd2 | exact Hd3].
    + destruct Hd as (d & Hd1 & Hd2). right.
      exists w1, d, (owned E (self w2)). split; [first [exact Hb | reflexivity]|]. split; [reflexivity|].
      split; [exact Hd1 | exact Hd2].
  - unfold wp. rewrite (replace_with_build_panic_keeps_self build body w w1 Hbe).
    left. exists w1. split; [exact Hb | reflexivity].
Qed.

(* the accounting theorem.  [ins] = the identities the build computation creates or is handed. *)
Theorem replace_with_acct (build : M unit) body (ins : list N) (w : world) :
  WF (self w) ->
  wp build
     (fun _ w1 => WF (self w1) /\ cap (self w1) = cap (self w) /\ Tidy (self w1) /\
                  Permutation (owned E (self w1) ++ dropped (log w1)) (ins ++ dropped (log w)))
     (fun w1 => exists lost, Permutation (lost ++ dropped (log w1)) (ins ++ dropped (log w)))
     (with_self w (new_map (cap (self w)))) ->
  wp (replace_with E build body)
     (fun r w' => r = body /\ WF (self w') /\ cap (self w') = cap (self w) /\ Tidy (self w') /\
        exists d lost,
          Permutation (d ++ lost) (owned E (self w)) /\
          Permutation (owned E (self w') ++ dropped (log w')) (ins ++ dropped (log w) ++ d) /\
          (Tidy (self w) -> lost = []))
     (fun w' =>
        (self w' = self w /\ exists lost, Permutation (lost ++ dropped (log w')) (ins ++ dropped (log w))) \/
        (WF (self w') /\ cap (self w') = cap (self w) /\ Tidy (self w') /\
         exists d lost,
           Permutation (d ++ lost) (owned E (self w)) /\
           Permutation (owned E (self w') ++ dropped (log w')) (ins ++ dropped (log w) ++ d))) w.
Proof.
  intros Hw Hb.
  eapply wp_mono; [apply (cf_replace_with_gen build body _ _ w Hw Hb) | |]; cbn beta.
  - intros r w' (Hr & w1 & d & lost & (H1 & H2 & H3 & H4) & Hs & Hd & HP & Ht).
    split; [exact Hr|]. rewrite Hs. split; [exact H1|]. split; [exact H2|]. split; [exact H3|].
    exists d, lost. split; [exact HP|]. split; [rewrite Hd; perm_ids | exact Ht].
  - intros w' [(w1 & (lost & HP) & ->) | (w1 & d & lost & (H1 & H2 & H3 & H4) & Hs & Hd & HP)].
    + left. simp_w. split; [reflexivity|]. exists lost. exact HP.
    + right. rewrite Hs. split; [exact H1|]. split; [exact H2|]. split; [exact H3|].
      exists d, lost. split; [exact HP|]. rewrite Hd. perm_ids.
Qed.

(* the same in the vocabulary of Owned.v *)
Lemma cf_replace_with_cpost (build : M unit) body (ins : list N) (w : world) :
  WF (self w) ->
  wp build
     (fun _ w1 => WF (self w1) /\ cap (self w1) = cap (self w) /\ Tidy (self w1) /\
                  Permutation (owned E (self w1) ++ dropped (log w1)) (ins ++ dropped (log w)))
     (fun w1 => exists lost, Permutation (lost ++ dropped (log w1)) (ins ++ dropped (log w)))
     (with_self w (new_map (cap (self w)))) ->
  wp (replace_with E build body) (fun _ => cpostN E w ins []) (cpostP E w ins) w.
Proof.
  intros Hw Hb.
  eapply wp_mono; [apply (replace_with_acct build body ins w Hw Hb) | |]; cbn beta.
  - intros r w' (_ & H1 & H2 & H3 & d & lost & HP1 & HP2 & Ht).
    split; [exact H1|]. split; [exact H2|]. exists lost. split; [unfold acct; perm_ids|].
    intros HT. split; [apply Ht; exact HT | exact H3].
  - intros w' [(Hs & lost & HP) | (H1 & H2 & H3 & d & lost & HP1 & HP2)].
    + apply (cpostP_exact E w w' ins lost); rewrite ?Hs; auto. perm_ids.
    + apply (cpostP_exact E w w' ins lost); auto. perm_ids.
Qed.

Theorem replace_with_acct_NoDup (build : M unit) body (ins : list N) (w : world) :
  WF (self w) ->
  wp build
     (fun _ w1 => WF (self w1) /\ cap (self w1) = cap (self w) /\ Tidy (self w1) /\
                  Permutation (owned E (self w1) ++ dropped (log w1)) (ins ++ dropped (log w)))
     (fun w1 => exists lost, Permutation (lost ++ dropped (log w1)) (ins ++ dropped (log w)))
     (with_self w (new_map (cap (self w)))) ->
  NoDup (owned E (self w) ++ ins ++ dropped (log w)) ->
  wp (replace_with E build body)
     (fun _ w' => NoDup (owned E (self w') ++ dropped (log w')))
     (fun w' => NoDup (owned E (self w') ++ dropped (log w'))) w.
Proof.
  intros Hw Hb Hn.
  eapply wp_mono; [apply (cf_replace_with_cpost build body ins w Hw Hb) | |]; cbn beta.
  - intros _ w' (_ & _ & lost & HP & _). unfold acct in HP. perm_ids.
  - intros w' (_ & _ & lost & HP). unfold acct in HP. perm_ids.
Qed.

End CfReplace.

(* ================================================================== *)
(* B. Clone / clone_from at operation level                            *)
(* ================================================================== *)
Section CfClone.
Context {V : Type} (E : env key V query cstate).
Notation world := (world key V cstate).

(* [src] is a parameter of the computation (a shared borrow): it cannot change.
   Normal return: the register holds exactly the clones made (nothing of them
   destroyed), its old elements were destroyed once each ([d]); [lost] = old
   elements that sat beyond len (none when the register was tidy).
   Panic, first disjunct (a Clone panicked): THE REGISTER IS UNTOUCHED; each object
   made so far was destroyed ([d]) or leaked ([lost], only when a Drop panicked too).
   Panic, second disjunct (the clone was complete, a Drop of an OLD element
   panicked): the register holds the complete clone; the old elements are
   destroyed ([d]) or leaked ([lost]). *)
Theorem op_clone_acct (src : map key V) body (w : world) :
  WF src -> WF (self w) -> cap src = cap (self w) ->
  let made := flat_map (ids_pair E) (clone_made E src (len src) 0 (cb w)) in
  let orphan := clone_orphans E src (len src) 0 (cb w) in
  wp (replace_with E (clone_from_src E src) body)
     (fun r w' => r = body /\ WF (self w') /\ cap (self w') = cap (self w) /\ Tidy (self w') /\
                  len (self w') = len src /\ length (clone_made E src (len src) 0 (cb w)) = len src /\
                  Permutation (owned E (self w')) made /\
                  exists d lost, dropped (log w') = dropped (log w) ++ d /\
                                 Permutation (d ++ lost) (owned E (self w)) /\
                                 (Tidy (self w) -> lost = []))
     (fun w' =>
        (self w' = self w /\
         exists d, dropped (log w') = dropped (log w) ++ d /\ Permutation d (made ++ orphan)) \/
        (WF (self w') /\ cap (self w') = cap (self w) /\ Tidy (self w') /\ len (self w') = len src /\
         Permutation (owned E (self w')) made /\
         exists d lost, dropped (log w') = dropped (log w) ++ d /\
                        Permutation (d ++ lost) (owned E (self w)))) w.
Proof.
  intros Hsrc Hw Hc made orphan.
  pose proof (clone_acct_gen E src (cf_fresh w) Hsrc (cf_fresh_WF w) eq_refl) as Hb.
  rewrite cf_fresh_cap in Hb. specialize (Hb (eq_sym Hc)). cbv zeta in Hb.
  change (cb (cf_fresh w)) with (cb w) in Hb. change (log (cf_fresh w)) with (log w) in Hb.
  rewrite cf_fresh_owned in Hb. fold made in Hb. fold orphan in Hb. cbn [app] in Hb.
  eapply wp_mono; [apply (cf_replace_with_gen E _ body _ _ w Hw Hb) | |]; cbn beta.
  - intros r w' (Hr & w1 & d & lost & (H1 & H2 & H3 & H4 & H5 & lb & H6 & H7) & Hs & Hd & HP & Ht).
    destruct (H7 (cf_fresh_Tidy w)) as [-> HT1]. rewrite app_nil_r in H6.
    split; [exact Hr|]. rewrite Hs. split; [exact H1|]. split; [exact H2|]. split; [exact HT1|].
    split; [exact H3|]. split; [exact H4|]. split; [exact H6|].
    exists d, lost. split; [rewrite Hd, H5; reflexivity|]. split; [exact HP | exact Ht].
  - intros w' [(w1 & (d & lb & H1 & H2 & H3) & ->) |
               (w1 & d & lost & (H1 & H2 & H3 & H4 & H5 & lb & H6 & H7) & Hs & Hd & HP)].
    + left. simp_w. split; [reflexivity|]. destruct (H3 (cf_fresh_Tidy w)) as [-> Ho].
      rewrite Ho in H2. cbn [app] in H2. rewrite app_nil_r in H2.
      exists d. split; [exact H1 | exact H2].
    + right. destruct (H7 (cf_fresh_Tidy w)) as [-> HT1]. rewrite app_nil_r in H6.
      rewrite Hs. split; [exact H1|]. split; [exact H2|]. split; [exact HT1|].
      split; [exact H3|]. split; [exact H6|].
      exists d, lost. split; [rewrite Hd, H5; reflexivity | exact HP].
Qed.

(* the conservation triple and the no-duplication headline for clone / clone_from *)
Lemma cf_clone_orphans_nil (src : map key V) n : forall i s,
  length (clone_made E src n i s) = n -> clone_orphans E src n i s = [].
Proof.
  induction n as [|n IH]; intros i s H; cbn [clone_made clone_orphans] in *; [reflexivity|].
  destruct (nth_error (slots src) i) as [[p|]|]; try discriminate H.
  destruct (clone_pair_res E p s) as [[p'|] s']; [|discriminate H].
  cbn [length] in H. apply IH. lia.
Qed.

Corollary cf_op_clone_cpost (src : map key V) body (w : world) :
  WF src -> WF (self w) -> cap src = cap (self w) ->
  let made := flat_map (ids_pair E) (clone_made E src (len src) 0 (cb w)) in
  let orphan := clone_orphans E src (len src) 0 (cb w) in
  wp (replace_with E (clone_from_src E src) body)
     (fun _ => cpostN E w (made ++ orphan) []) (cpostP E w (made ++ orphan)) w.
Proof.
  intros Hsrc Hw Hc made orphan.
  eapply wp_mono; [apply (op_clone_acct src body w Hsrc Hw Hc) | |]; cbn beta; fold made; fold orphan.
  - intros r w' (_ & H1 & H2 & H3 & _ & Hlen & H4 & d & lost & Hd & HP & Ht).
    assert (Ho : orphan = []) by (apply cf_clone_orphans_nil; exact Hlen). rewrite Ho, app_nil_r.
    split; [exact H1|]. split; [exact H2|]. exists lost. split; [unfold acct; rewrite Hd; perm_ids|].
    intros HT. split; [apply Ht; exact HT | exact H3].
  - intros w' [(Hs & d & Hd & HP) | (H1 & H2 & H3 & _ & H4 & d & lost & Hd & HP)].
    + apply (cpostP_exact E w w' (made ++ orphan) []); rewrite ?Hs; auto. rewrite Hd. perm_ids.
    + apply (cpostP_exact E w w' (made ++ orphan) (lost ++ orphan)); auto. rewrite Hd. perm_ids.
Qed.

Corollary cf_op_clone_NoDup (src : map key V) body (w : world) :
  WF src -> WF (self w) -> cap src = cap (self w) ->
  NoDup (owned E (self w) ++ (flat_map (ids_pair E) (clone_made E src (len src) 0 (cb w)) ++
                              clone_orphans E src (len src) 0 (cb w)) ++ dropped (log w)) ->
  wp (replace_with E (clone_from_src E src) body)
     (fun _ w' => NoDup (owned E (self w') ++ dropped (log w')))
     (fun w' => NoDup (owned E (self w') ++ dropped (log w'))) w.
Proof.
  intros Hsrc Hw Hc Hn.
  eapply wp_mono; [apply (cf_op_clone_cpost src body w Hsrc Hw Hc) | |]; cbn beta.
  - intros _ w' (_ & _ & lost & HP & _). unfold acct in HP. perm_ids.
  - intros w' (_ & _ & lost & HP). unfold acct in HP. perm_ids.
Qed.

End CfClone.

(* ================================================================== *)
(* B'. the interpreter: which registers a clone / clone_from touches   *)
(* ================================================================== *)
Section CfNoPanic.
Context {K V Q T : Type} (E : env K V Q T)
        (HK : forall s k, fst (dropK E s k) = false) (HV : forall s v, fst (dropV E s v) = false).
Notation world := (world K V T).

Lemma cf_drop_pair_nopanic p (w : world) : match drop_pair E p w with Panic _ => False | _ => True end.
Proof.
  unfold drop_pair, bind, emit, cbd. cbn [cb log self].
  pose proof (HK (cb w) (fst p)) as H1. destruct (dropK E (cb w) (fst p)) as [bk s]. cbn [cb log self fst] in *.
  pose proof (HV s (snd p)) as H2. destruct (dropV E s (snd p)) as [bv s']. cbn [fst] in *. subst bk bv.
  cbn. exact I.
Qed.

Lemma cf_drop_range_nopanic n : forall i (w : world), match drop_range E n i w with Panic _ => False | _ => True end.
Proof.
  induction n as [|n IH]; intros i w; cbn [drop_range]; [exact I|].
  unfold bind at 1.
  assert (Hpd : match p_drop E i w with Panic _ => False | _ => True end).
  { unfold p_drop, p_read, p_ref, bind. destruct (nth_error (slots (self w)) i) as [[p|]|]; try exact I.
    unfold set_slot, ret. apply cf_drop_pair_nopanic. }
  destruct (p_drop E i w) as [u w1|w1|]; [apply IH | contradiction | exact I].
Qed.

Lemma cf_drop_map_nopanic (w : world) : match drop_map E w with Panic _ => False | _ => True end.
Proof. unfold drop_map, bind, get_len. apply cf_drop_range_nopanic. Qed.
End CfNoPanic.

Lemma cf_drop_boom_off sc id : sc_fk sc <> 3%N -> drop_boom sc id = false.
Proof. intros H. unfold drop_boom. apply N.eqb_neq in H. rewrite H. reflexivity. Qed.

Lemma cf_drop_map_nopanic_m sc (w : world key vobj cstate) :
  sc_fk sc <> 3%N -> match drop_map (env_map sc) w with Panic _ => False | _ => True end.
Proof.
  intros H. apply cf_drop_map_nopanic; intros s a; cbn [env_map dropK dropV fst]; apply cf_drop_boom_off; exact H.
Qed.
Lemma cf_drop_map_nopanic_s sc (w : world key unit cstate) :
  sc_fk sc <> 3%N -> match drop_map (env_set sc) w with Panic _ => False | _ => True end.
Proof.
  intros H. apply cf_drop_map_nopanic; intros s a; cbn [env_set dropK dropV fst]; [apply cf_drop_boom_off; exact H | reflexivity].
Qed.

Lemma cf_get_m_put_same r m cs x : get_m r (put_m r m cs x) = m.
Proof. unfold get_m, put_m. destruct (N.eqb r 0); reflexivity. Qed.
Lemma cf_get_m_put_other r r' m cs x : N.eqb r 0 <> N.eqb r' 0 -> get_m r (put_m r' m cs x) = get_m r x.
Proof. unfold get_m, put_m. destruct (N.eqb r 0), (N.eqb r' 0); intros H; try reflexivity; congruence. Qed.
Lemma cf_get_s_put_same r m cs x : get_s r (put_s r m cs x) = m.
Proof. unfold get_s, put_s. destruct (N.eqb r 2); reflexivity. Qed.
Lemma cf_get_s_put_other r r' m cs x : N.eqb r 2 <> N.eqb r' 2 -> get_s r (put_s r' m cs x) = get_s r x.
Proof. unfold get_s, put_s. destruct (N.eqb r 2), (N.eqb r' 2); intros H; try reflexivity; congruence. Qed.
Lemma cf_get_m_put_s r r' m cs x : get_m r (put_s r' m cs x) = get_m r x.
Proof. unfold get_m, put_s. destruct (N.eqb r 0), (N.eqb r' 2); reflexivity. Qed.
Lemma cf_get_s_put_m r r' m cs x : get_s r (put_m r' m cs x) = get_s r x.
Proof. unfold get_s, put_m. destruct (N.eqb r 2), (N.eqb r' 0); reflexivity. Qed.

Lemma cf_regs_m r r' : (r < 2)%N -> (r' < 2)%N -> r <> r' -> N.eqb r 0 <> N.eqb r' 0.
Proof.
  intros H1 H2 Hn. assert (Hr : (r = 0 \/ r = 1)%N) by lia. assert (Hr' : (r' = 0 \/ r' = 1)%N) by lia.
  destruct Hr as [-> | ->], Hr' as [-> | ->]; cbn; congruence.
Qed.
Lemma cf_regs_s r r' : s_ok r = true -> s_ok r' = true -> r <> r' -> N.eqb r 2 <> N.eqb r' 2.
Proof.
  unfold s_ok. intros H1 H2 Hn. apply andb_prop in H1, H2. destruct H1 as [H1a H1b], H2 as [H2a H2b].
  apply N.leb_le in H1a, H2a. apply N.ltb_lt in H1b, H2b.
  assert (Hr : (r = 2 \/ r = 3)%N) by lia. assert (Hr' : (r' = 2 \/ r' = 3)%N) by lia.
  destruct Hr as [-> | ->], Hr' as [-> | ->]; cbn; congruence.
Qed.

(* whatever runs on register r' leaves every other register alone *)
Lemma cf_run_m_other r r' c x : N.eqb r 0 <> N.eqb r' 0 -> get_m r (snd (run_m r' c x)) = get_m r x.
Proof.
  intros H. unfold run_m, finish. destruct (c _) as [b w|w|]; cbn [snd];
    [apply cf_get_m_put_other; exact H | apply cf_get_m_put_other; exact H | reflexivity].
Qed.
Lemma cf_run_s_other r r' c x : N.eqb r 2 <> N.eqb r' 2 -> get_s r (snd (run_s r' c x)) = get_s r x.
Proof.
  intros H. unfold run_s, finish. destruct (c _) as [b w|w|]; cbn [snd];
    [apply cf_get_s_put_other; exact H | apply cf_get_s_put_other; exact H | reflexivity].
Qed.
Lemma cf_run_m_sets r r' c x : get_s r (snd (run_m r' c x)) = get_s r x.
Proof. unfold run_m, finish. destruct (c _) as [b w|w|]; cbn [snd]; try apply cf_get_s_put_m; reflexivity. Qed.
Lemma cf_run_s_maps r r' c x : get_m r (snd (run_s r' c x)) = get_m r x.
Proof. unfold run_s, finish. destruct (c _) as [b w|w|]; cbn [snd]; try apply cf_get_m_put_s; reflexivity. Qed.

(* a replace_with operation whose observation is a panic: either the build
   panicked and the register is untouched, or the build completed, the register
   holds the new container, and a Drop of an old element panicked *)
Lemma cf_run_m_replace_panic (E : env key vobj query cstate) r' build body x :
  hd 0%N (fst (run_m r' (replace_with E build body) x)) = 2%N ->
  let w := w_init (xcb x) (get_m r' x) in
  (exists w1, build (with_self w (new_map (cap (get_m r' x)))) = Panic w1 /\
              get_m r' (snd (run_m r' (replace_with E build body) x)) = get_m r' x) \/
  (exists w1 w2, build (with_self w (new_map (cap (get_m r' x)))) = Ok tt w1 /\
                 drop_map E (with_self w1 (get_m r' x)) = Panic w2 /\
                 get_m r' (snd (run_m r' (replace_with E build body) x)) = self w1).
Proof.
  intros H w. unfold run_m in *. fold (w_init (xcb x) (get_m r' x)) in *. fold w in H |- *.
  change (get_m r' x) with (self w) at 1 4.
  destruct (build (with_self w (new_map (cap (self w))))) as [[] w1|w1|] eqn:Hb.
  - rewrite (cf_replace_with_build_ok E build body w w1 Hb) in *.
    change (self w) with (get_m r' x) in *.
    destruct (drop_map E (with_self w1 (get_m r' x))) as [u w2|w2|] eqn:Hd; cbn [finish fst snd] in *.
    + cbn in H. discriminate.
    + right. exists w1, w2. split; [first [exact Hb | reflexivity]|]. split; [first [exact Hd | reflexivity]|]. simp_w. apply cf_get_m_put_same.
    + cbn in H. discriminate.
  - rewrite (replace_with_build_panic_keeps_self E build body w w1 Hb) in *. cbn [finish fst snd] in *.
    left. exists w1. split; [first [exact Hb | reflexivity]|]. simp_w. apply cf_get_m_put_same.
  - rewrite (cf_replace_with_build_ub E build body w Hb) in *. cbn in H. discriminate.
Qed.

Lemma cf_run_s_replace_panic (E : env key unit query cstate) r' build body x :
  hd 0%N (fst (run_s r' (replace_with E build body) x)) = 2%N ->
  let w := w_init (xcb x) (get_s r' x) in
  (exists w1, build (with_self w (new_map (cap (get_s r' x)))) = Panic w1 /\
              get_s r' (snd (run_s r' (replace_with E build body) x)) = get_s r' x) \/
  (exists w1 w2, build (with_self w (new_map (cap (get_s r' x)))) = Ok tt w1 /\
                 drop_map E (with_self w1 (get_s r' x)) = Panic w2 /\
                 get_s r' (snd (run_s r' (replace_with E build body) x)) = self w1).
Proof.
  intros H w. unfold run_s in *. fold (w_init (xcb x) (get_s r' x)) in *. fold w in H |- *.
  change (get_s r' x) with (self w) at 1 4.
  destruct (build (with_self w (new_map (cap (self w))))) as [[] w1|w1|] eqn:Hb.
  - rewrite (cf_replace_with_build_ok E build body w w1 Hb) in *.
    change (self w) with (get_s r' x) in *.
    destruct (drop_map E (with_self w1 (get_s r' x))) as [u w2|w2|] eqn:Hd; cbn [finish fst snd] in *.
    + cbn in H. discriminate.
    + right. exists w1, w2. split; [first [exact Hb | reflexivity]|]. split; [first [exact Hd | reflexivity]|]. simp_w. apply cf_get_s_put_same.
    + cbn in H. discriminate.
  - rewrite (replace_with_build_panic_keeps_self E build body w w1 Hb) in *. cbn [finish fst snd] in *.
    left. exists w1. split; [first [exact Hb | reflexivity]|]. simp_w. apply cf_get_s_put_same.
  - rewrite (cf_replace_with_build_ub E build body w Hb) in *. cbn in H. discriminate.
Qed.

(* when no Drop fault is scripted, a panicking replace_with operation leaves its register untouched *)
Lemma cf_run_m_replace_panic_untouched sc r' build body x :
  sc_fk sc <> 3%N ->
  hd 0%N (fst (run_m r' (replace_with (env_map sc) build body) x)) = 2%N ->
  get_m r' (snd (run_m r' (replace_with (env_map sc) build body) x)) = get_m r' x.
Proof.
  intros Hf H. destruct (cf_run_m_replace_panic (env_map sc) r' build body x H) as [(w1 & _ & Hg) | (w1 & w2 & _ & Hd & _)].
  - exact Hg.
  - pose proof (cf_drop_map_nopanic_m sc (with_self w1 (get_m r' x)) Hf) as Hn. rewrite Hd in Hn. contradiction.
Qed.
Lemma cf_run_s_replace_panic_untouched sc r' build body x :
  sc_fk sc <> 3%N ->
  hd 0%N (fst (run_s r' (replace_with (env_set sc) build body) x)) = 2%N ->
  get_s r' (snd (run_s r' (replace_with (env_set sc) build body) x)) = get_s r' x.
Proof.
  intros Hf H. destruct (cf_run_s_replace_panic (env_set sc) r' build body x H) as [(w1 & _ & Hg) | (w1 & w2 & _ & Hd & _)].
  - exact Hg.
  - pose proof (cf_drop_map_nopanic_s sc (with_self w1 (get_s r' x)) Hf) as Hn. rewrite Hd in Hn. contradiction.
Qed.

(* OClone r r' / OCloneFrom r r' (source r, destination r'): the source register is untouched *)
Theorem cf_step_clone_src_untouched debug sc r r' x :
  (r < 2)%N -> (r' < 2)%N -> r <> r' ->
  get_m r (snd (step debug sc (OClone r r') x)) = get_m r x /\
  get_m r (snd (step debug sc (OCloneFrom r r') x)) = get_m r x.
Proof.
  intros H1 H2 Hn. pose proof (cf_regs_m r r' H1 H2 Hn) as Hd. unfold step.
  destruct (xdead x); [split; reflexivity|].
  destruct (Nat.eqb (cap (get_m r x)) (cap (get_m r' x))); [|split; reflexivity].
  split; apply cf_run_m_other; exact Hd.
Qed.

Theorem cf_step_sclone_src_untouched debug sc r r' x :
  s_ok r = true -> s_ok r' = true -> r <> r' ->
  get_s r (snd (step debug sc (SClone r r') x)) = get_s r x /\
  get_s r (snd (step debug sc (SCloneFrom r r') x)) = get_s r x.
Proof.
  intros H1 H2 Hn. pose proof (cf_regs_s r r' H1 H2 Hn) as Hd. unfold step.
  destruct (xdead x); [split; reflexivity|].
  destruct (Nat.eqb (cap (get_s r x)) (cap (get_s r' x))); [|split; reflexivity].
  split; apply cf_run_s_other; exact Hd.
Qed.

(* a panicking clone / clone_from: the destination is untouched, or (only when a
   Drop of one of its OLD elements panicked) it holds the complete clone *)
Theorem cf_step_clone_panic_dst_cases debug sc r r' x o :
  o = OClone r r' \/ o = OCloneFrom r r' ->
  hd 0%N (fst (step debug sc o x)) = 2%N ->
  get_m r' (snd (step debug sc o x)) = get_m r' x \/
  exists w1 w2,
    clone_from_src (env_map sc) (get_m r x)
       (with_self (w_init (xcb x) (get_m r' x)) (new_map (cap (get_m r' x)))) = Ok tt w1 /\
    drop_map (env_map sc) (with_self w1 (get_m r' x)) = Panic w2 /\
    get_m r' (snd (step debug sc o x)) = self w1.
Proof.
  intros Ho H.
  assert (Hst : step debug sc o x =
            if xdead x then ([3%N], x) else
            if Nat.eqb (cap (get_m r x)) (cap (get_m r' x)) then
              run_m r' (replace_with (env_map sc) (clone_from_src (env_map sc) (get_m r x)) []) x
            else ([9%N], x)) by (destruct Ho as [-> | ->]; reflexivity).
  rewrite Hst in *. clear Hst.
  destruct (xdead x); [cbn in H; discriminate|].
  destruct (Nat.eqb (cap (get_m r x)) (cap (get_m r' x))); [|cbn in H; discriminate].
  destruct (cf_run_m_replace_panic (env_map sc) r' _ [] x H) as [(w1 & _ & Hg) | (w1 & w2 & Hb & Hd & Hg)].
  - left. exact Hg.
  - right. exists w1, w2. auto.
Qed.

Theorem cf_step_clone_panic_dst_untouched debug sc r r' x o :
  o = OClone r r' \/ o = OCloneFrom r r' ->
  sc_fk sc <> 3%N ->
  hd 0%N (fst (step debug sc o x)) = 2%N ->
  get_m r' (snd (step debug sc o x)) = get_m r' x.
Proof.
  intros Ho Hf H.
  destruct (cf_step_clone_panic_dst_cases debug sc r r' x o Ho H) as [Hg | (w1 & w2 & _ & Hd & _)]; [exact Hg|].
  pose proof (cf_drop_map_nopanic_m sc (with_self w1 (get_m r' x)) Hf) as Hn. rewrite Hd in Hn. contradiction.
Qed.

Theorem cf_step_sclone_panic_dst_cases debug sc r r' x o :
  o = SClone r r' \/ o = SCloneFrom r r' ->
  hd 0%N (fst (step debug sc o x)) = 2%N ->
  get_s r' (snd (step debug sc o x)) = get_s r' x \/
  exists w1 w2,
    clone_from_src (env_set sc) (get_s r x)
       (with_self (w_init (xcb x) (get_s r' x)) (new_map (cap (get_s r' x)))) = Ok tt w1 /\
    drop_map (env_set sc) (with_self w1 (get_s r' x)) = Panic w2 /\
    get_s r' (snd (step debug sc o x)) = self w1.
Proof.
  intros Ho H.
  assert (Hst : step debug sc o x =
            if xdead x then ([3%N], x) else
            if Nat.eqb (cap (get_s r x)) (cap (get_s r' x)) then
              run_s r' (replace_with (env_set sc) (clone_from_src (env_set sc) (get_s r x)) []) x
            else ([9%N], x)) by (destruct Ho as [-> | ->]; reflexivity).
  rewrite Hst in *. clear Hst.
  destruct (xdead x); [cbn in H; discriminate|].
  destruct (Nat.eqb (cap (get_s r x)) (cap (get_s r' x))); [|cbn in H; discriminate].
  destruct (cf_run_s_replace_panic (env_set sc) r' _ [] x H) as [(w1 & _ & Hg) | (w1 & w2 & Hb & Hd & Hg)].
  - left. exact Hg.
  - right. exists w1, w2. auto.
Qed.

Theorem cf_step_sclone_panic_dst_untouched debug sc r r' x o :
  o = SClone r r' \/ o = SCloneFrom r r' ->
  sc_fk sc <> 3%N ->
  hd 0%N (fst (step debug sc o x)) = 2%N ->
  get_s r' (snd (step debug sc o x)) = get_s r' x.
Proof.
  intros Ho Hf H.
  destruct (cf_step_sclone_panic_dst_cases debug sc r r' x o Ho H) as [Hg | (w1 & w2 & _ & Hd & _)]; [exact Hg|].
  pose proof (cf_drop_map_nopanic_s sc (with_self w1 (get_s r' x)) Hf) as Hn. rewrite Hd in Hn. contradiction.
Qed.

(* ================================================================== *)
(* C. From<[_;N]> / FromIterator at operation level                    *)
(* ================================================================== *)
Section CfBuild.
Context {V : Type} (E : env key V query cstate).
Notation world := (world key V cstate).
Notation M := (M key V cstate).

(* a build computation with an Owned.v-style accounting triple satisfies the premise of replace_with_acct *)
Lemma cf_build_of_acct (build : M unit) ins (w : world) :
  wp build
     (fun _ w1 => WF (self w1) /\ cap (self w1) = cap (self (cf_fresh w)) /\
                  exists lost, acct E (cf_fresh w) w1 ins [] lost /\
                               (Tidy (self (cf_fresh w)) -> lost = [] /\ Tidy (self w1)))
     (fun w1 => exists lost, acct E (cf_fresh w) w1 ins [] lost) (cf_fresh w) ->
  wp build
     (fun _ w1 => WF (self w1) /\ cap (self w1) = cap (self w) /\ Tidy (self w1) /\
                  Permutation (owned E (self w1) ++ dropped (log w1)) (ins ++ dropped (log w)))
     (fun w1 => exists lost, Permutation (lost ++ dropped (log w1)) (ins ++ dropped (log w)))
     (with_self w (new_map (cap (self w)))).
Proof.
  intros Hb. fold (cf_fresh w). eapply wp_mono; [exact Hb | |]; cbn beta.
  - intros _ w1 (H1 & H2 & lost & HP & Ht). destruct (Ht (cf_fresh_Tidy w)) as [-> HT].
    unfold acct in HP. rewrite (cf_fresh_owned E) in HP. change (log (cf_fresh w)) with (log w) in HP.
    split; [exact H1|]. split; [rewrite H2; apply cf_fresh_cap|]. split; [exact HT | perm_ids].
  - intros w1 (lost & HP).
    unfold acct in HP. rewrite (cf_fresh_owned E) in HP. change (log (cf_fresh w)) with (log w) in HP.
    exists (owned E (self w1) ++ lost). perm_ids.
Qed.

Lemma cf_op_build_acct (build : M unit) ins body (w : world) :
  WF (self w) ->
  wp build
     (fun _ w1 => WF (self w1) /\ cap (self w1) = cap (self (cf_fresh w)) /\
                  exists lost, acct E (cf_fresh w) w1 ins [] lost /\
                               (Tidy (self (cf_fresh w)) -> lost = [] /\ Tidy (self w1)))
     (fun w1 => exists lost, acct E (cf_fresh w) w1 ins [] lost) (cf_fresh w) ->
  wp (replace_with E build body)
     (fun r w' => r = body /\ WF (self w') /\ cap (self w') = cap (self w) /\ Tidy (self w') /\
        exists d lost,
          Permutation (d ++ lost) (owned E (self w)) /\
          Permutation (owned E (self w') ++ dropped (log w')) (ins ++ dropped (log w) ++ d) /\
          (Tidy (self w) -> lost = []))
     (fun w' =>
        (self w' = self w /\ exists lost, Permutation (lost ++ dropped (log w')) (ins ++ dropped (log w))) \/
        (WF (self w') /\ cap (self w') = cap (self w) /\ Tidy (self w') /\
         exists d lost,
           Permutation (d ++ lost) (owned E (self w)) /\
           Permutation (owned E (self w') ++ dropped (log w')) (ins ++ dropped (log w) ++ d))) w.
Proof. intros Hw Hb. apply replace_with_acct; [exact Hw|]. apply cf_build_of_acct. exact Hb. Qed.

Lemma cf_op_build_cpost (build : M unit) ins body (w : world) :
  WF (self w) ->
  wp build
     (fun _ w1 => WF (self w1) /\ cap (self w1) = cap (self (cf_fresh w)) /\
                  exists lost, acct E (cf_fresh w) w1 ins [] lost /\
                               (Tidy (self (cf_fresh w)) -> lost = [] /\ Tidy (self w1)))
     (fun w1 => exists lost, acct E (cf_fresh w) w1 ins [] lost) (cf_fresh w) ->
  wp (replace_with E build body) (fun _ => cpostN E w ins []) (cpostP E w ins) w.
Proof. intros Hw Hb. apply cf_replace_with_cpost; [exact Hw|]. apply cf_build_of_acct. exact Hb. Qed.

Context (debug : bool).

(* FromIterator (any source iterator [nx], panicking or not) and From<[(K,V);N]> ([nx] never panics).
   Normal return: every item is stored in the register or was destroyed (displaced
   duplicates), the register's old elements were destroyed once each ([d]) or,
   beyond len, leaked ([lost]).  Panic, first disjunct (source iterator / == / a
   Drop during the build panicked): the register is untouched and every item was
   destroyed or leaked.  Second disjunct: the build completed and a Drop of an
   old element panicked. *)
Theorem op_from_iter_acct nx items body (w : world) :
  WF (self w) ->
  let ins := flat_map (ids_pair E) items in
  wp (replace_with E (from_iter E debug nx items) body)
     (fun r w' => r = body /\ WF (self w') /\ cap (self w') = cap (self w) /\ Tidy (self w') /\
        exists d lost,
          Permutation (d ++ lost) (owned E (self w)) /\
          Permutation (owned E (self w') ++ dropped (log w')) (ins ++ dropped (log w) ++ d) /\
          (Tidy (self w) -> lost = []))
     (fun w' =>
        (self w' = self w /\ exists lost, Permutation (lost ++ dropped (log w')) (ins ++ dropped (log w))) \/
        (WF (self w') /\ cap (self w') = cap (self w) /\ Tidy (self w') /\
         exists d lost,
           Permutation (d ++ lost) (owned E (self w)) /\
           Permutation (owned E (self w') ++ dropped (log w')) (ins ++ dropped (log w) ++ d))) w.
Proof.
  intros Hw ins. apply cf_op_build_acct; [exact Hw|].
  apply (from_iter_acct E debug nx items (cf_fresh w) (cf_fresh_WF w)).
Qed.

Corollary cf_op_from_iter_cpost nx items body (w : world) :
  WF (self w) ->
  wp (replace_with E (from_iter E debug nx items) body)
     (fun _ => cpostN E w (flat_map (ids_pair E) items) []) (cpostP E w (flat_map (ids_pair E) items)) w.
Proof.
  intros Hw. apply cf_op_build_cpost; [exact Hw|].
  apply (from_iter_acct E debug nx items (cf_fresh w) (cf_fresh_WF w)).
Qed.

Corollary cf_op_from_iter_NoDup nx items body (w : world) :
  WF (self w) -> NoDup (owned E (self w) ++ flat_map (ids_pair E) items ++ dropped (log w)) ->
  wp (replace_with E (from_iter E debug nx items) body)
     (fun _ w' => NoDup (owned E (self w') ++ dropped (log w')))
     (fun w' => NoDup (owned E (self w') ++ dropped (log w'))) w.
Proof.
  intros Hw Hn. eapply wp_mono; [apply (cf_op_from_iter_cpost nx items body w Hw) | |]; cbn beta.
  - intros _ w' (_ & _ & lost & HP & _). unfold acct in HP. perm_ids.
  - intros w' (_ & _ & lost & HP). unfold acct in HP. perm_ids.
Qed.

End CfBuild.

Section CfFromIterGen.
Context {K V Q T : Type} (E : env K V Q T) (debug : bool).
Notation world := (world K V T).

(* the array source: next() never panics (Exec.nx_none, for any callback-state type) *)
Theorem from_iter_arr_acct items (w : world) :
  WF (self w) ->
  wp (from_iter E debug (fun s => (No, s)) items)
     (fun _ w' => WF (self w') /\ cap (self w') = cap (self w) /\
                  exists lost, acct E w w' (flat_map (ids_pair E) items) [] lost /\
                               (Tidy (self w) -> lost = [] /\ Tidy (self w')))
     (fun w' => exists lost, acct E w w' (flat_map (ids_pair E) items) [] lost) w.
Proof. intros Hw. exact (from_iter_acct E debug (fun s => (No, s)) items w Hw). Qed.

(* every item is stored or destroyed at most once, in both outcomes, for every source iterator *)
Theorem from_iter_NoDup nx items (w : world) :
  WF (self w) -> NoDup (owned E (self w) ++ flat_map (ids_pair E) items ++ dropped (log w)) ->
  wp (from_iter E debug nx items)
     (fun _ w' => NoDup (owned E (self w') ++ dropped (log w')))
     (fun w' => NoDup (owned E (self w') ++ dropped (log w'))) w.
Proof.
  intros Hw Hn. eapply wp_mono; [apply (from_iter_acct E debug nx items w Hw) | |]; cbn beta.
  - intros _ w' (_ & _ & lost & HP & _). unfold acct in HP. perm_ids.
  - intros w' (lost & HP). unfold acct in HP. perm_ids.
Qed.

(* and exactly once when the destination was tidy and the call returns *)
Corollary cf_from_iter_exact nx items (w : world) :
  WF (self w) -> Tidy (self w) ->
  wp (from_iter E debug nx items)
     (fun _ w' => Permutation (owned E (self w') ++ dropped (log w'))
                              (owned E (self w) ++ flat_map (ids_pair E) items ++ dropped (log w)))
     (fun _ => True) w.
Proof.
  intros Hw Ht. eapply wp_mono; [apply (from_iter_acct E debug nx items w Hw) | |]; cbn beta; [|auto].
  intros _ w' (_ & _ & lost & HP & Hl). destruct (Hl Ht) as [-> _]. unfold acct in HP. perm_ids.
Qed.
End CfFromIterGen.

Section CfSFromIterGen.
Context {K Q T : Type} (E : env K unit Q T) (debug : bool) (HU : idV E tt = []).
Notation world := (world K unit T).

Theorem cf_s_from_iter_arr_acct items (w : world) :
  WF (self w) ->
  wp (s_from_iter E debug (fun s => (No, s)) items)
     (fun _ w' => WF (self w') /\ cap (self w') = cap (self w) /\
                  exists lost, acct E w w' (flat_map (fun k => ids_pair E (k, tt)) items) [] lost /\
                               (Tidy (self w) -> lost = [] /\ Tidy (self w')))
     (fun w' => exists lost, acct E w w' (flat_map (fun k => ids_pair E (k, tt)) items) [] lost) w.
Proof. intros Hw. exact (s_from_iter_acct E debug HU (fun s => (No, s)) items w Hw). Qed.

Theorem cf_s_from_iter_NoDup nx items (w : world) :
  WF (self w) -> NoDup (owned E (self w) ++ flat_map (fun k => ids_pair E (k, tt)) items ++ dropped (log w)) ->
  wp (s_from_iter E debug nx items)
     (fun _ w' => NoDup (owned E (self w') ++ dropped (log w')))
     (fun w' => NoDup (owned E (self w') ++ dropped (log w'))) w.
Proof.
  intros Hw Hn. eapply wp_mono; [apply (s_from_iter_acct E debug HU nx items w Hw) | |]; cbn beta.
  - intros _ w' (_ & _ & lost & HP & _). unfold acct in HP. perm_ids.
  - intros w' (lost & HP). unfold acct in HP. perm_ids.
Qed.
End CfSFromIterGen.

Section CfSFromIterOp.
Context (E : env key unit query cstate) (debug : bool) (HU : idV E tt = []).
Notation world := (world key unit cstate).

Theorem cf_op_s_from_iter_acct nx items body (w : world) :
  WF (self w) ->
  let ins := flat_map (fun k => ids_pair E (k, tt)) items in
  wp (replace_with E (s_from_iter E debug nx items) body)
     (fun r w' => r = body /\ WF (self w') /\ cap (self w') = cap (self w) /\ Tidy (self w') /\
        exists d lost,
          Permutation (d ++ lost) (owned E (self w)) /\
          Permutation (owned E (self w') ++ dropped (log w')) (ins ++ dropped (log w) ++ d) /\
          (Tidy (self w) -> lost = []))
     (fun w' =>
        (self w' = self w /\ exists lost, Permutation (lost ++ dropped (log w')) (ins ++ dropped (log w))) \/
        (WF (self w') /\ cap (self w') = cap (self w) /\ Tidy (self w') /\
         exists d lost,
           Permutation (d ++ lost) (owned E (self w)) /\
           Permutation (owned E (self w') ++ dropped (log w')) (ins ++ dropped (log w) ++ d))) w.
Proof.
  intros Hw ins. apply cf_op_build_acct; [exact Hw|].
  apply (s_from_iter_acct E debug HU nx items (cf_fresh w) (cf_fresh_WF w)).
Qed.

Corollary cf_op_s_from_iter_cpost nx items body (w : world) :
  WF (self w) ->
  wp (replace_with E (s_from_iter E debug nx items) body)
     (fun _ => cpostN E w (flat_map (fun k => ids_pair E (k, tt)) items) [])
     (cpostP E w (flat_map (fun k => ids_pair E (k, tt)) items)) w.
Proof.
  intros Hw. apply cf_op_build_cpost; [exact Hw|].
  apply (s_from_iter_acct E debug HU nx items (cf_fresh w) (cf_fresh_WF w)).
Qed.
End CfSFromIterOp.

(* ================================================================== *)
(* E. safety + accounting in one statement (panic postcondition no longer True) *)
(* ================================================================== *)
Section CfSafeAcct.
Context {K V Q T : Type} (E : env K V Q T) (debug : bool).
Notation world := (world K V T).

Theorem clone_safe_acct (src : map K V) (w : world) :
  WF src -> WF (self w) -> len (self w) = 0 -> cap (self w) = cap src ->
  let made := flat_map (ids_pair E) (clone_made E src (len src) 0 (cb w)) in
  let orphan := clone_orphans E src (len src) 0 (cb w) in
  wp (clone_from_src E src)
     (fun _ w' => (inv_post w w' /\ len (self w') = len src) /\
                  length (clone_made E src (len src) 0 (cb w)) = len src /\
                  dropped (log w') = dropped (log w) /\
                  exists lost, Permutation (owned E (self w') ++ lost) (owned E (self w) ++ made) /\
                               (Tidy (self w) -> lost = [] /\ Tidy (self w')))
     (fun w' => exists d lost, dropped (log w') = dropped (log w) ++ d /\
                               Permutation (owned E (self w') ++ d ++ lost) (owned E (self w) ++ made ++ orphan) /\
                               (Tidy (self w) -> lost = [] /\ owned E (self w') = [])) w.
Proof.
  intros Hsrc Hw Hl Hc made orphan.
  eapply wp_mono;
    [apply wp_conj; [apply (clone_safe E src w Hsrc Hw Hl Hc) | apply (clone_acct_gen E src w Hsrc Hw Hl Hc)] | |];
    cbn beta.
  - intros _ w' [Hs (_ & _ & _ & H4 & H5 & H6)]. split; [exact Hs|]. split; [exact H4|]. split; [exact H5 | exact H6].
  - intros w' [_ H]. exact H.
Qed.

Theorem from_iter_safe_acct nx items (w : world) :
  WF (self w) ->
  wp (from_iter E debug nx items)
     (fun _ w' => inv_post w w' /\
                  exists lost, acct E w w' (flat_map (ids_pair E) items) [] lost /\
                               (Tidy (self w) -> lost = [] /\ Tidy (self w')))
     (fun w' => exists lost, acct E w w' (flat_map (ids_pair E) items) [] lost) w.
Proof.
  intros Hw. eapply wp_mono; [apply (from_iter_acct E debug nx items w Hw) | |]; cbn beta.
  - intros _ w' (H1 & H2 & H3). split; [split; assumption | exact H3].
  - intros w' H. exact H.
Qed.
End CfSafeAcct.

Section CfSafeAcctSet.
Context {K Q T : Type} (E : env K unit Q T) (debug : bool) (HU : idV E tt = []).
Notation world := (world K unit T).

Theorem s_from_iter_safe_acct nx items (w : world) :
  WF (self w) ->
  wp (s_from_iter E debug nx items)
     (fun _ w' => inv_post w w' /\
                  exists lost, acct E w w' (flat_map (fun k => ids_pair E (k, tt)) items) [] lost /\
                               (Tidy (self w) -> lost = [] /\ Tidy (self w')))
     (fun w' => exists lost, acct E w w' (flat_map (fun k => ids_pair E (k, tt)) items) [] lost) w.
Proof.
  intros Hw. eapply wp_mono; [apply (s_from_iter_acct E debug HU nx items w Hw) | |]; cbn beta.
  - intros _ w' (H1 & H2 & H3). split; [split; assumption | exact H3].
  - intros w' H. exact H.
Qed.

Theorem set_sub_safe_acct (a b : map K unit) (w : world) :
  WF a -> WF b -> WF (self w) ->
  wp (set_sub E debug a b)
     (fun _ w' => inv_post w w' /\
                  exists made, Forall (cloned_from E a) made /\
                  exists lost, acct E w w' (flat_map (fun k => ids_pair E (k, tt)) made) [] lost /\
                               (Tidy (self w) -> lost = [] /\ Tidy (self w')))
     (fun w' => exists made, Forall (cloned_from E a) made /\
                exists lost, acct E w w' (flat_map (fun k => ids_pair E (k, tt)) made) [] lost) w.
Proof.
  intros Ha Hb Hw. eapply wp_mono; [apply (set_sub_acct E debug HU a b w Ha Hb Hw) | |]; cbn beta.
  - intros _ w' (H1 & H2 & H3). split; [split; assumption | exact H3].
  - intros w' H. exact H.
Qed.
End CfSafeAcctSet.

(* ================================================================== *)
(* D. serde decoders                                                   *)
(* ================================================================== *)
(* D0. computations whose callbacks never change the object counter next_id *)
Section CfNid.
Context {V : Type}.
Notation M := (M key V cstate).
Notation world := (world key V cstate).

Definition cf_nid {A} (c : M A) : Prop :=
  forall w, match c w with
            | Ok _ w' => next_id (cb w') = next_id (cb w)
            | Panic w' => next_id (cb w') = next_id (cb w)
            | UB => True
            end.

Lemma cf_nid_ret {A} (a : A) : cf_nid (@ret key V cstate A a).
Proof. intros w. reflexivity. Qed.
Lemma cf_nid_panic {A} : cf_nid (@panic key V cstate A).
Proof. intros w. reflexivity. Qed.
Lemma cf_nid_ub {A} : cf_nid (@ub key V cstate A).
Proof. intros w. exact I. Qed.
Lemma cf_nid_bind {A B} (c : M A) (f : A -> M B) : cf_nid c -> (forall a, cf_nid (f a)) -> cf_nid (bind c f).
Proof.
  intros Hc Hf w. unfold bind. specialize (Hc w). destruct (c w) as [a w1|w1|]; [|exact Hc|exact I].
  specialize (Hf a w1). destruct (f a w1) as [b w2|w2|]; [congruence | congruence | exact I].
Qed.
Lemma cf_nid_if {A} (b : bool) (c1 c2 : M A) : cf_nid c1 -> cf_nid c2 -> cf_nid (if b then c1 else c2).
Proof. destruct b; auto. Qed.
Lemma cf_nid_get_len : cf_nid (@get_len key V cstate).
Proof. intros w. reflexivity. Qed.
Lemma cf_nid_get_cap : cf_nid (@get_cap key V cstate).
Proof. intros w. reflexivity. Qed.
Lemma cf_nid_set_len n : cf_nid (@set_len key V cstate n).
Proof. intros w. reflexivity. Qed.
Lemma cf_nid_set_slot i x : cf_nid (@set_slot key V cstate i x).
Proof. intros w. reflexivity. Qed.
Lemma cf_nid_emit e : cf_nid (@emit key V cstate e).
Proof. intros w. reflexivity. Qed.
Lemma cf_nid_p_ref i : cf_nid (@p_ref key V cstate i).
Proof. intros w. unfold p_ref. destruct (nth_error (slots (self w)) i) as [[p|]|]; try exact I. reflexivity. Qed.
Lemma cf_nid_cbk f : (forall s, next_id (snd (f s)) = next_id s) -> cf_nid (@cbk key V cstate f).
Proof. intros H w. unfold cbk. specialize (H (cb w)). destruct (f (cb w)) as [a s]. destruct a; exact H. Qed.
Lemma cf_nid_cbd f : (forall s, next_id (snd (f s)) = next_id s) -> cf_nid (@cbd key V cstate f).
Proof. intros H w. unfold cbd. specialize (H (cb w)). destruct (f (cb w)) as [a s]. exact H. Qed.
Lemma cf_nid_on_unwind {A} (cl : M unit) (c : M A) : cf_nid cl -> cf_nid c -> cf_nid (on_unwind cl c).
Proof.
  intros Hl Hc w. unfold on_unwind. specialize (Hc w). destruct (c w) as [a w1|w1|]; [exact Hc| |exact I].
  specialize (Hl w1). destruct (cl w1) as [u w2|w2|]; [congruence | congruence | exact I].
Qed.

Ltac cf_nid_step :=
  first [ apply cf_nid_ret | apply cf_nid_panic | apply cf_nid_ub | apply cf_nid_get_len | apply cf_nid_get_cap
        | apply cf_nid_set_len | apply cf_nid_set_slot | apply cf_nid_emit | apply cf_nid_p_ref
        | apply cf_nid_bind; [|intros ?] | apply cf_nid_if ].

Lemma cf_nid_p_read i : cf_nid (@p_read key V cstate i).
Proof. unfold p_read. repeat cf_nid_step. Qed.
Lemma cf_nid_p_replace i f : cf_nid (@p_replace key V cstate i f).
Proof. unfold p_replace. repeat cf_nid_step. Qed.
Lemma cf_nid_p_write_checked i x : cf_nid (@p_write_checked key V cstate i x).
Proof. unfold p_write_checked. repeat cf_nid_step. Qed.
Lemma cf_nid_p_prefix : cf_nid (@p_prefix key V cstate).
Proof. unfold p_prefix. repeat cf_nid_step. Qed.
Lemma cf_nid_dbg_assert debug c : cf_nid (@dbg_assert key V cstate debug c).
Proof. unfold dbg_assert. repeat cf_nid_step. Qed.
Lemma cf_nid_check_index i : cf_nid (@check_index key V cstate i).
Proof. unfold check_index. repeat cf_nid_step. Qed.

Lemma cf_nid_scan_loop (test : key * V -> M bool) : (forall p, cf_nid (test p)) -> forall n i, cf_nid (scan_loop test n i).
Proof.
  intros Ht. induction n as [|n IH]; intros i; cbn [scan_loop]; [apply cf_nid_ret|].
  apply cf_nid_bind; [apply cf_nid_p_ref|]. intros p. apply cf_nid_bind; [apply Ht|]. intros b.
  apply cf_nid_if; [apply cf_nid_ret | apply IH].
Qed.
Lemma cf_nid_scan (test : key * V -> M bool) : (forall p, cf_nid (test p)) -> cf_nid (scan test).
Proof.
  intros Ht. unfold scan. apply cf_nid_bind; [apply cf_nid_p_prefix|]. intros _.
  apply cf_nid_bind; [apply cf_nid_get_len|]. intros n. apply cf_nid_scan_loop. exact Ht.
Qed.

Context (E : env key V query cstate) (debug : bool)
        (HeqK : forall s a b, next_id (snd (eqK E s a b)) = next_id s)
        (HdK : forall s a, next_id (snd (dropK E s a)) = next_id s)
        (HdV : forall s a, next_id (snd (dropV E s a)) = next_id s).

Lemma cf_nid_unwind_pair p : cf_nid (unwind_pair E p).
Proof.
  unfold unwind_pair. apply cf_nid_bind; [apply cf_nid_emit|]. intros _.
  apply cf_nid_bind; [apply cf_nid_cbd; intros; apply HdK|]. intros _.
  apply cf_nid_bind; [apply cf_nid_cbd; intros; apply HdV|]. intros _. apply cf_nid_ret.
Qed.
Lemma cf_nid_unwind_args k v : cf_nid (unwind_args E k v).
Proof.
  unfold unwind_args. apply cf_nid_bind; [apply cf_nid_emit|]. intros _.
  apply cf_nid_bind; [apply cf_nid_cbd; intros; apply HdV|]. intros _.
  apply cf_nid_bind; [apply cf_nid_cbd; intros; apply HdK|]. intros _. apply cf_nid_ret.
Qed.
Lemma cf_nid_drop_key k : cf_nid (drop_key E k).
Proof.
  unfold drop_key. apply cf_nid_bind; [apply cf_nid_emit|]. intros _.
  apply cf_nid_bind; [apply cf_nid_cbd; intros; apply HdK|]. intros b.
  apply cf_nid_if; [apply cf_nid_panic | apply cf_nid_ret].
Qed.
Lemma cf_nid_drop_val v : cf_nid (drop_val E v).
Proof.
  unfold drop_val. apply cf_nid_bind; [apply cf_nid_emit|]. intros _.
  apply cf_nid_bind; [apply cf_nid_cbd; intros; apply HdV|]. intros b.
  apply cf_nid_if; [apply cf_nid_panic | apply cf_nid_ret].
Qed.
Lemma cf_nid_drop_opt_val o : cf_nid (drop_opt_val E o).
Proof. destruct o; cbn [drop_opt_val]; [apply cf_nid_drop_val | apply cf_nid_ret]. Qed.

Lemma cf_nid_insert_ii k v u : cf_nid (insert_ii E debug k v u).
Proof.
  unfold insert_ii. apply cf_nid_bind.
  - apply cf_nid_on_unwind; [apply cf_nid_unwind_args|]. apply cf_nid_scan. intros p.
    unfold test_k. apply cf_nid_cbk. intros; apply HeqK.
  - intros [i|].
    + destruct u; (apply cf_nid_bind; [apply cf_nid_p_replace|]; intros old; apply cf_nid_ret).
    + apply cf_nid_bind; [apply cf_nid_get_len|]. intros i.
      apply cf_nid_bind; [apply cf_nid_get_cap|]. intros c.
      apply cf_nid_bind.
      * apply cf_nid_on_unwind; [apply cf_nid_unwind_args|].
        apply cf_nid_bind; [apply cf_nid_dbg_assert|]. intros _. apply cf_nid_check_index.
      * intros _. apply cf_nid_bind; [apply cf_nid_p_write_checked|]. intros _.
        apply cf_nid_bind; [apply cf_nid_set_len|]. intros _. apply cf_nid_ret.
Qed.
Lemma cf_nid_keep_value e : cf_nid (keep_value E e).
Proof.
  destruct e as [[k' v']|]; cbn [keep_value]; [|apply cf_nid_ret].
  apply cf_nid_bind; [apply cf_nid_drop_key|]. intros _. apply cf_nid_ret.
Qed.
Lemma cf_nid_insert k v : cf_nid (insert E debug k v).
Proof.
  unfold insert. apply cf_nid_bind; [apply cf_nid_insert_ii|]. intros [t e]. apply cf_nid_keep_value.
Qed.

(* combine with a wp fact *)
Lemma cf_wp_nid {A} (c : M A) (Qn : A -> world -> Prop) (Qp : world -> Prop) (w : world) :
  cf_nid c -> wp c Qn Qp w ->
  wp c (fun a w' => Qn a w' /\ next_id (cb w') = next_id (cb w))
       (fun w' => Qp w' /\ next_id (cb w') = next_id (cb w)) w.
Proof. intros Hn. specialize (Hn w). unfold wp. destruct (c w); auto. Qed.
End CfNid.

Lemma cf_wp_bind_assoc {K V T A B C} (c : M K V T A) (f : A -> M K V T B) (g : B -> M K V T C) Qn Qp w :
  wp (bind (bind c f) g) Qn Qp w -> wp (bind c (fun a => bind (f a) g)) Qn Qp w.
Proof. unfold wp, bind. destruct (c w); auto. Qed.

Lemma cf_wp_get_next_id {V} (Qn : N -> world key V cstate -> Prop) Qp w :
  Qn (next_id (cb w)) w -> wp (@get_next_id V) Qn Qp w.
Proof. exact (fun H => H). Qed.
Lemma cf_wp_bump_id {V} n (Qn : unit -> world key V cstate -> Prop) Qp w :
  Qn tt (with_cb w {| n_eq := n_eq (cb w); n_clone := n_clone (cb w); n_call := n_call (cb w); next_id := n |}) ->
  wp (@bump_id V n) Qn Qp w.
Proof. exact (fun H => H). Qed.

Lemma cf_eq_answer_nid sc s t : next_id (snd (eq_answer sc s t)) = next_id s.
Proof. unfold eq_answer. destruct (_ && _); reflexivity. Qed.

(* the identities a decoder creates: a, a+1, ..., a+n-1 *)
Fixpoint cf_fresh_ids (a : N) (n : nat) : list N :=
  match n with 0 => [] | S n' => a :: cf_fresh_ids (a + 1) n' end.

Lemma cf_fresh_ids_2S a n : cf_fresh_ids a (2 * S n) = a :: (a + 1)%N :: cf_fresh_ids (a + 2) (2 * n).
Proof.
  replace (2 * S n) with (S (S (2 * n))) by lia. cbn [cf_fresh_ids].
  replace (a + 1 + 1)%N with (a + 2)%N by lia. reflexivity.
Qed.
Lemma cf_fresh_ids_length a n : length (cf_fresh_ids a n) = n.
Proof. revert a; induction n as [|n IH]; intros a; cbn [cf_fresh_ids length]; [reflexivity | rewrite IH; reflexivity]. Qed.
Lemma cf_fresh_ids_In a n x : In x (cf_fresh_ids a n) <-> (a <= x < a + N.of_nat n)%N.
Proof.
  revert a; induction n as [|n IH]; intros a; cbn [cf_fresh_ids In].
  - split; [intros [] | lia].
  - rewrite IH. lia.
Qed.
Lemma cf_fresh_ids_NoDup a n : NoDup (cf_fresh_ids a n).
Proof.
  revert a; induction n as [|n IH]; intros a; cbn [cf_fresh_ids]; constructor; [|apply IH].
  rewrite cf_fresh_ids_In. lia.
Qed.

(* D1. the visitors *)
Section CfSerde.
Context (debug : bool) (sc : script).
Notation Em := (env_map sc).
Notation Es := (env_set sc).
Notation mworld := (world key vobj cstate).
Notation sworld := (world key unit cstate).

Lemma cf_nid_insert_m k v : cf_nid (insert Em debug k v).
Proof.
  apply cf_nid_insert; intros; cbn [env_map eqK dropK dropV snd]; try reflexivity; apply cf_eq_answer_nid.
Qed.
Lemma cf_nid_insert_s k v : cf_nid (insert Es debug k v).
Proof.
  apply cf_nid_insert; intros; cbn [env_set eqK dropK dropV snd]; try reflexivity; apply cf_eq_answer_nid.
Qed.

Lemma cf_visit_map_step k v (w1 : mworld) :
  WF (self w1) ->
  wp (bind (insert Em debug k v) (fun old => drop_opt_val Em old))
     (fun _ w3 => cpostN Em w1 (ids_pair Em (k, v)) [] w3 /\ next_id (cb w3) = next_id (cb w1))
     (fun w3 => cpostP Em w1 (ids_pair Em (k, v)) w3 /\ next_id (cb w3) = next_id (cb w1)) w1.
Proof.
  intros Hw. apply cf_wp_nid.
  - apply cf_nid_bind; [apply cf_nid_insert_m|]. intros o. apply cf_nid_drop_opt_val; intros; reflexivity.
  - refine (conserves_bind0 Em _ _ _ _ (fun _ => []) _ _ w1 Hw).
    + apply conserves_insert.
    + intros old. apply conserves_drop_opt_val.
Qed.

Lemma cf_visit_seq_step k (w1 : sworld) :
  WF (self w1) ->
  wp (s_insert Es debug k)
     (fun _ w3 => cpostN Es w1 (ids_pair Es (k, tt)) [] w3 /\ next_id (cb w3) = next_id (cb w1))
     (fun w3 => cpostP Es w1 (ids_pair Es (k, tt)) w3 /\ next_id (cb w3) = next_id (cb w1)) w1.
Proof.
  intros Hw. apply cf_wp_nid.
  - unfold s_insert. apply cf_nid_bind; [apply cf_nid_insert_s|]. intros o. apply cf_nid_ret.
  - exact (conserves_s_insert_unit Es debug eq_refl k w1 Hw).
Qed.

(* serde map visitor: entry j (0-based) is decoded into the fresh objects
   a+2j (key) and a+2j+1 (value), a = next_id before; all of them are stored or
   destroyed; on a panic the objects made so far (n entries) are accounted for *)
Theorem conserves_visit_map items : forall (w : mworld),
  WF (self w) ->
  wp (visit_map debug sc items)
     (fun _ w' => cpostN Em w (cf_fresh_ids (next_id (cb w)) (2 * length items)) [] w' /\
                  next_id (cb w') = (next_id (cb w) + N.of_nat (2 * length items))%N)
     (fun w' => exists n, n <= length items /\
                  cpostP Em w (cf_fresh_ids (next_id (cb w)) (2 * n)) w' /\
                  next_id (cb w') = (next_id (cb w) + N.of_nat (2 * n))%N) w.
Proof.
  induction items as [|[k v] rest IH]; intros w Hw.
  - cbn [visit_map length]. apply wp_ret. split; [|lia]. cbn. apply cpostN_refl; auto.
  - cbn [visit_map]. apply wp_bind. apply cf_wp_get_next_id. apply wp_bind. apply cf_wp_bump_id.
    set (id := next_id (cb w)). set (w1 := with_cb w _).
    assert (Hs1 : self w1 = self w) by reflexivity.
    assert (Hd1 : dropped (log w1) = dropped (log w)) by reflexivity.
    assert (Hn1 : next_id (cb w1) = (id + 2)%N) by reflexivity.
    assert (Hw1 : WF (self w1)) by exact Hw.
    set (k' := {| kid := id; kcls := kcls k |}). set (v' := {| vid := (id + 1)%N; vdat := vdat v |}).
    apply cf_wp_bind_assoc. apply wp_bind.
    eapply wp_mono; [apply (cf_visit_map_step k' v' w1 Hw1) | |]; cbn beta.
    + intros _ w3 [H3 Hn3]. assert (Hw3 : WF (self w3)) by apply H3.
      eapply wp_mono; [apply (IH w3 Hw3) | |]; cbn beta.
      * intros _ w4 [H4 Hn4]. rewrite Hn3, Hn1 in H4, Hn4. cbn [length]. split; [|lia].
        apply (cpostN_base Em w w1 w4 _ _ Hs1 Hd1). rewrite cf_fresh_ids_2S.
        exact (cpostN_trans Em _ w1 w3 w4 _ [] [] H3 H4).
      * intros w4 (n & Hn & H4 & Hn4). rewrite Hn3, Hn1 in H4, Hn4. exists (S n).
        split; [cbn [length]; lia|]. split; [|lia].
        apply (cpostP_base Em w w1 w4 _ Hs1 Hd1). rewrite cf_fresh_ids_2S.
        exact (cpostNP_trans Em _ w1 w3 w4 _ [] H3 H4).
    + intros w3 [H3 Hn3]. exists 1. split; [cbn [length]; lia|]. split; [|rewrite Hn3, Hn1; lia].
      apply (cpostP_base Em w w1 w3 _ Hs1 Hd1). exact H3.
Qed.

(* serde set visitor: one fresh object per element *)
Theorem conserves_visit_seq items : forall (w : sworld),
  WF (self w) ->
  wp (visit_seq debug sc items)
     (fun _ w' => cpostN Es w (cf_fresh_ids (next_id (cb w)) (length items)) [] w' /\
                  next_id (cb w') = (next_id (cb w) + N.of_nat (length items))%N)
     (fun w' => exists n, n <= length items /\
                  cpostP Es w (cf_fresh_ids (next_id (cb w)) n) w' /\
                  next_id (cb w') = (next_id (cb w) + N.of_nat n)%N) w.
Proof.
  induction items as [|k rest IH]; intros w Hw.
  - cbn [visit_seq length]. apply wp_ret. split; [|lia]. cbn. apply cpostN_refl; auto.
  - cbn [visit_seq]. apply wp_bind. apply cf_wp_get_next_id. apply wp_bind. apply cf_wp_bump_id.
    set (id := next_id (cb w)). set (w1 := with_cb w _).
    assert (Hs1 : self w1 = self w) by reflexivity.
    assert (Hd1 : dropped (log w1) = dropped (log w)) by reflexivity.
    assert (Hn1 : next_id (cb w1) = (id + 1)%N) by reflexivity.
    assert (Hw1 : WF (self w1)) by exact Hw.
    set (k' := {| kid := id; kcls := kcls k |}).
    apply wp_bind.
    eapply wp_mono; [apply (cf_visit_seq_step k' w1 Hw1) | |]; cbn beta.
    + intros _ w3 [H3 Hn3]. assert (Hw3 : WF (self w3)) by apply H3.
      eapply wp_mono; [apply (IH w3 Hw3) | |]; cbn beta.
      * intros _ w4 [H4 Hn4]. rewrite Hn3, Hn1 in H4, Hn4. cbn [length]. split; [|lia].
        apply (cpostN_base Es w w1 w4 _ _ Hs1 Hd1). cbn [cf_fresh_ids].
        exact (cpostN_trans Es _ w1 w3 w4 _ [] [] H3 H4).
      * intros w4 (n & Hn & H4 & Hn4). rewrite Hn3, Hn1 in H4, Hn4. exists (S n).
        split; [cbn [length]; lia|]. split; [|lia].
        apply (cpostP_base Es w w1 w4 _ Hs1 Hd1). cbn [cf_fresh_ids].
        exact (cpostNP_trans Es _ w1 w3 w4 _ [] H3 H4).
    + intros w3 [H3 Hn3]. exists 1. split; [cbn [length]; lia|]. split; [|rewrite Hn3, Hn1; lia].
      apply (cpostP_base Es w w1 w3 _ Hs1 Hd1). exact H3.
Qed.

End CfSerde.

(* D2. the decode operation: build a local with a visitor, install it *)
Section CfDecodeOp.
Context {V : Type} (E : env key V query cstate).
Notation world := (world key V cstate).
Notation M := (M key V cstate).

(* replace_with, fully explicit: which world the final one is *)
Lemma cf_replace_with_gen2 (build : M unit) body (Bn Bp : world -> Prop) (w : world) :
  WF (self w) ->
  wp build (fun _ => Bn) Bp (cf_fresh w) ->
  wp (replace_with E build body)
     (fun r w' => r = body /\
        exists w1 w2, Bn w1 /\ drop_map E (with_self w1 (self w)) = Ok tt w2 /\ w' = with_self w2 (self w1))
     (fun w' =>
        (exists w1, Bp w1 /\ w' = with_self w1 (self w)) \/
        (exists w1 w2, Bn w1 /\ drop_map E (with_self w1 (self w)) = Panic w2 /\ w' = with_self w2 (self w1))) w.
Proof.
  intros Hw Hb. unfold wp in Hb. unfold cf_fresh in Hb.
  destruct (build (with_self w (new_map (cap (self w))))) as [[] w1|w1|] eqn:Hbe; [| |contradiction].
  - unfold wp. rewrite (cf_replace_with_build_ok E build body w w1 Hbe).
    assert (Hw' : WF (self (with_self w1 (self w)))) by (simp_w; exact Hw).
    pose proof (drop_map_safe E (with_self w1 (self w)) Hw') as Hd. unfold wp in Hd.
    destruct (drop_map E (with_self w1 (self w))) as [[] w2|w2|] eqn:Hdm; [| |contradiction].
    + split; [reflexivity|]. exists w1, w2. split; [exact Hb|]. split; [first [exact Hdm | reflexivity] | reflexivity].
    + right. exists w1, w2. split; [exact Hb|]. split; [first [exact Hdm | reflexivity] | reflexivity].
  - unfold wp. rewrite (replace_with_build_panic_keeps_self E build body w w1 Hbe).
    left. exists w1. split; [exact Hb | reflexivity].
Qed.

Context (HdK : forall s a, next_id (snd (dropK E s a)) = next_id s)
        (HdV : forall s a, next_id (snd (dropV E s a)) = next_id s).

Lemma cf_nid_drop_pair p : cf_nid (drop_pair E p).
Proof.
  unfold drop_pair. apply cf_nid_bind; [apply cf_nid_emit|]. intros _.
  apply cf_nid_bind; [apply cf_nid_cbd; intros; apply HdK|]. intros bk.
  apply cf_nid_bind; [apply cf_nid_cbd; intros; apply HdV|]. intros bv.
  apply cf_nid_if; [apply cf_nid_panic | apply cf_nid_ret].
Qed.
Lemma cf_nid_drop_range n : forall i, cf_nid (drop_range E n i).
Proof.
  induction n as [|n IH]; intros i; cbn [drop_range]; [apply cf_nid_ret|].
  apply cf_nid_bind; [|intros _; apply IH].
  unfold p_drop. apply cf_nid_bind; [apply cf_nid_p_read | intros p; apply cf_nid_drop_pair].
Qed.
Lemma cf_nid_drop_map : cf_nid (drop_map E).
Proof. unfold drop_map. apply cf_nid_bind; [apply cf_nid_get_len | intros n; apply cf_nid_drop_range]. Qed.

Lemma cf_nid_unwind_pair2 p : cf_nid (unwind_pair E p).
Proof.
  unfold unwind_pair. apply cf_nid_bind; [apply cf_nid_emit|]. intros _.
  apply cf_nid_bind; [apply cf_nid_cbd; intros; apply HdK|]. intros _.
  apply cf_nid_bind; [apply cf_nid_cbd; intros; apply HdV|]. intros _. apply cf_nid_ret.
Qed.
Lemma cf_nid_unwind_range n : forall i, cf_nid (unwind_range E n i).
Proof.
  induction n as [|n IH]; intros i; cbn [unwind_range]; [apply cf_nid_ret|].
  apply cf_nid_bind; [apply cf_nid_p_read|]. intros p.
  apply cf_nid_bind; [apply cf_nid_unwind_pair2 | intros _; apply IH].
Qed.
Lemma cf_nid_unwind_map : cf_nid (unwind_map E).
Proof. unfold unwind_map. apply cf_nid_bind; [apply cf_nid_get_len | intros n; apply cf_nid_unwind_range]. Qed.

Lemma cf_op_decode_acct (c : M unit) (g : nat -> nat) (L : nat) body (w : world) :
  WF (self w) ->
  (forall w0 : world, WF (self w0) ->
     wp c (fun _ w' => cpostN E w0 (cf_fresh_ids (next_id (cb w0)) (g L)) [] w' /\
                       next_id (cb w') = (next_id (cb w0) + N.of_nat (g L))%N)
          (fun w' => exists n, n <= L /\ cpostP E w0 (cf_fresh_ids (next_id (cb w0)) (g n)) w' /\
                               next_id (cb w') = (next_id (cb w0) + N.of_nat (g n))%N) w0) ->
  let a := next_id (cb w) in
  wp (replace_with E (finally_drop E c) body)
     (fun r w' => r = body /\ WF (self w') /\ cap (self w') = cap (self w) /\ Tidy (self w') /\
        next_id (cb w') = (a + N.of_nat (g L))%N /\
        exists d lost,
          Permutation (d ++ lost) (owned E (self w)) /\
          Permutation (owned E (self w') ++ dropped (log w')) (cf_fresh_ids a (g L) ++ dropped (log w) ++ d) /\
          (Tidy (self w) -> lost = []))
     (fun w' =>
        (self w' = self w /\
         exists n lost, n <= L /\ next_id (cb w') = (a + N.of_nat (g n))%N /\
                        Permutation (lost ++ dropped (log w')) (cf_fresh_ids a (g n) ++ dropped (log w))) \/
        (WF (self w') /\ cap (self w') = cap (self w) /\ Tidy (self w') /\
         next_id (cb w') = (a + N.of_nat (g L))%N /\
         exists d lost,
           Permutation (d ++ lost) (owned E (self w)) /\
           Permutation (owned E (self w') ++ dropped (log w')) (cf_fresh_ids a (g L) ++ dropped (log w) ++ d))) w.
Proof.
  intros Hw Hc a.
  set (Bn := fun w1 : world => cpostN E (cf_fresh w) (cf_fresh_ids a (g L)) [] w1 /\
                               next_id (cb w1) = (a + N.of_nat (g L))%N).
  set (Bp := fun w1 : world => exists n lost, n <= L /\ next_id (cb w1) = (a + N.of_nat (g n))%N /\
                               Permutation (lost ++ dropped (log w1)) (cf_fresh_ids a (g n) ++ dropped (log w))).
  assert (Hbuild : wp (finally_drop E c) (fun _ => Bn) Bp (cf_fresh w)).
  { apply (wp_finally_drop_gen E c _
             (fun w' => exists n, n <= L /\ cpostP E (cf_fresh w) (cf_fresh_ids a (g n)) w' /\
                                  next_id (cb w') = (a + N.of_nat (g n))%N)).
    - exact (Hc (cf_fresh w) (cf_fresh_WF w)).
    - intros w1 (n & Hn & (Hw1 & Hc1 & lost & HP) & Hid).
      pose proof (cf_wp_nid (unwind_map E) _ _ w1 cf_nid_unwind_map (unwind_map_acct_nolost E w1 Hw1)) as Hd.
      unfold acct in HP. rewrite (cf_fresh_owned E) in HP. change (log (cf_fresh w)) with (log w) in HP.
      eapply wp_mono; [exact Hd | |]; cbn beta.
      + intros _ w2 [HA Hid2]. exists n, (owned E (self w2) ++ lost). split; [exact Hn|]. split; [congruence|].
        unfold acct in HA. perm_ids.
      + intros w2 [HA Hid2]. exists n, (owned E (self w2) ++ lost). split; [exact Hn|]. split; [congruence|].
        unfold acct in HA. perm_ids. }
  eapply wp_mono; [apply (cf_replace_with_gen2 _ body Bn Bp w Hw Hbuild) | |]; cbn beta.
  - intros r w' (Hr & w1 & w2 & [H1 Hn1] & Hd & ->).
    destruct H1 as (Hw1 & Hc1 & lost1 & HP1 & Ht1). destruct (Ht1 (cf_fresh_Tidy w)) as [-> HT1].
    assert (Hw' : WF (self (with_self w1 (self w)))) by exact Hw.
    pose proof (cf_drop_map_old E _ Hw') as Hdo. unfold wp in Hdo. rewrite Hd in Hdo.
    destruct Hdo as (d & Hd1 & Hd2 & Hd3).
    pose proof (cf_nid_drop_map (with_self w1 (self w))) as Hnn. rewrite Hd in Hnn.
    unfold acct in HP1. rewrite (cf_fresh_owned E) in HP1. change (log (cf_fresh w)) with (log w) in HP1.
    simp_w. split; [exact Hr|]. split; [exact Hw1|]. split; [rewrite Hc1; apply cf_fresh_cap|].
    split; [exact HT1|]. split; [congruence|].
    exists d, (owned E (self w2)). split; [exact Hd2|]. split; [rewrite Hd1; perm_ids | exact Hd3].
  - intros w' [(w1 & (n & lost & Hn & Hid & HP) & ->) | (w1 & w2 & [H1 Hn1] & Hd & ->)].
    + left. simp_w. split; [reflexivity|]. exists n, lost. auto.
    + right.
      destruct H1 as (Hw1 & Hc1 & lost1 & HP1 & Ht1). destruct (Ht1 (cf_fresh_Tidy w)) as [-> HT1].
      assert (Hw' : WF (self (with_self w1 (self w)))) by exact Hw.
      pose proof (cf_drop_map_old E _ Hw') as Hdo. unfold wp in Hdo. rewrite Hd in Hdo.
      destruct Hdo as (d & Hd1 & Hd2).
      pose proof (cf_nid_drop_map (with_self w1 (self w))) as Hnn. rewrite Hd in Hnn.
      unfold acct in HP1. rewrite (cf_fresh_owned E) in HP1. change (log (cf_fresh w)) with (log w) in HP1.
      simp_w. split; [exact Hw1|]. split; [rewrite Hc1; apply cf_fresh_cap|].
      split; [exact HT1|]. split; [congruence|].
      exists d, (owned E (self w2)). split; [exact Hd2|]. rewrite Hd1; perm_ids.
Qed.
End CfDecodeOp.

Section CfSerdeOp.
Context (debug : bool) (sc : script).
Notation Em := (env_map sc).
Notation Es := (env_set sc).

(* OSerde: serialise [src], decode into the register.  [src] is a parameter.
   Entry j is decoded into the fresh objects a+2j, a+2j+1 (a = next_id before).
   Normal return: every decoded object is stored in the register or was destroyed
   (displaced duplicates), the register's old elements were destroyed once ([d])
   or, beyond len, leaked.  Panic, first disjunct (a panic while decoding /
   inserting): the register is untouched, exactly n entries had been decoded and
   their objects were destroyed or leaked.  Second disjunct: decoding completed, a
   Drop of an old element panicked. *)
Theorem op_serde_acct (src : map key vobj) body (w : world key vobj cstate) :
  WF (self w) ->
  let L := length (Exec.elems src) in
  let a := next_id (cb w) in
  wp (replace_with Em (finally_drop Em (visit_map debug sc (Exec.elems src))) body)
     (fun r w' => r = body /\ WF (self w') /\ cap (self w') = cap (self w) /\ Tidy (self w') /\
        next_id (cb w') = (a + N.of_nat (2 * L))%N /\
        exists d lost,
          Permutation (d ++ lost) (owned Em (self w)) /\
          Permutation (owned Em (self w') ++ dropped (log w')) (cf_fresh_ids a (2 * L) ++ dropped (log w) ++ d) /\
          (Tidy (self w) -> lost = []))
     (fun w' =>
        (self w' = self w /\
         exists n lost, n <= L /\ next_id (cb w') = (a + N.of_nat (2 * n))%N /\
                        Permutation (lost ++ dropped (log w')) (cf_fresh_ids a (2 * n) ++ dropped (log w))) \/
        (WF (self w') /\ cap (self w') = cap (self w) /\ Tidy (self w') /\
         next_id (cb w') = (a + N.of_nat (2 * L))%N /\
         exists d lost,
           Permutation (d ++ lost) (owned Em (self w)) /\
           Permutation (owned Em (self w') ++ dropped (log w')) (cf_fresh_ids a (2 * L) ++ dropped (log w) ++ d))) w.
Proof.
  intros Hw L a.
  apply (cf_op_decode_acct Em (fun _ _ => eq_refl) (fun _ _ => eq_refl) _ (fun n => 2 * n) L body w Hw).
  intros w0 Hw0. apply conserves_visit_map. exact Hw0.
Qed.

Theorem cf_op_serde_set_acct (src : map key unit) body (w : world key unit cstate) :
  WF (self w) ->
  let L := length (List.map fst (Exec.elems src)) in
  let a := next_id (cb w) in
  wp (replace_with Es (finally_drop Es (visit_seq debug sc (List.map fst (Exec.elems src)))) body)
     (fun r w' => r = body /\ WF (self w') /\ cap (self w') = cap (self w) /\ Tidy (self w') /\
        next_id (cb w') = (a + N.of_nat L)%N /\
        exists d lost,
          Permutation (d ++ lost) (owned Es (self w)) /\
          Permutation (owned Es (self w') ++ dropped (log w')) (cf_fresh_ids a L ++ dropped (log w) ++ d) /\
          (Tidy (self w) -> lost = []))
     (fun w' =>
        (self w' = self w /\
         exists n lost, n <= L /\ next_id (cb w') = (a + N.of_nat n)%N /\
                        Permutation (lost ++ dropped (log w')) (cf_fresh_ids a n ++ dropped (log w))) \/
        (WF (self w') /\ cap (self w') = cap (self w) /\ Tidy (self w') /\
         next_id (cb w') = (a + N.of_nat L)%N /\
         exists d lost,
           Permutation (d ++ lost) (owned Es (self w)) /\
           Permutation (owned Es (self w') ++ dropped (log w')) (cf_fresh_ids a L ++ dropped (log w) ++ d))) w.
Proof.
  intros Hw L a.
  apply (cf_op_decode_acct Es (fun _ _ => eq_refl) (fun _ _ => eq_refl) _ (fun n => n) L body w Hw).
  intros w0 Hw0. apply conserves_visit_seq. exact Hw0.
Qed.

(* headline: provided the fresh identities are new (not stored, not destroyed
   before), no identity is ever in two places / destroyed twice *)
Corollary cf_op_serde_NoDup (src : map key vobj) body (w : world key vobj cstate) :
  WF (self w) ->
  NoDup (owned Em (self w) ++ cf_fresh_ids (next_id (cb w)) (2 * length (Exec.elems src)) ++ dropped (log w)) ->
  wp (replace_with Em (finally_drop Em (visit_map debug sc (Exec.elems src))) body)
     (fun _ w' => NoDup (owned Em (self w') ++ dropped (log w')))
     (fun w' => NoDup (owned Em (self w') ++ dropped (log w'))) w.
Proof.
  intros Hw Hn. eapply wp_mono; [apply (op_serde_acct src body w Hw) | |]; cbn beta.
  - intros r w' (_ & _ & _ & _ & _ & d & lost & HP1 & HP2 & _). perm_ids.
  - intros w' [(Hs & n & lost & Hle & _ & HP) | (_ & _ & _ & _ & d & lost & HP1 & HP2)].
    + rewrite Hs.
      (* the ids made so far are a prefix of all the fresh ids *)
      assert (Hsub : forall x, count_occ N.eq_dec (cf_fresh_ids (next_id (cb w)) (2 * n)) x <=
                               count_occ N.eq_dec (cf_fresh_ids (next_id (cb w)) (2 * length (Exec.elems src))) x).
      { intros x.
        pose proof (cf_fresh_ids_NoDup (next_id (cb w)) (2 * n)) as Hnd.
        apply (nodup_cnt1 _ x) in Hnd.
        destruct (count_occ_In N.eq_dec (cf_fresh_ids (next_id (cb w)) (2 * length (Exec.elems src))) x) as [Hin _].
        destruct (in_dec N.eq_dec x (cf_fresh_ids (next_id (cb w)) (2 * n))) as [Hi|Hi].
        - assert (Hi' : In x (cf_fresh_ids (next_id (cb w)) (2 * length (Exec.elems src))))
            by (apply cf_fresh_ids_In; apply cf_fresh_ids_In in Hi; lia).
          apply Hin in Hi'. lia.
        - apply (count_occ_not_In N.eq_dec) in Hi. lia. }
      apply nodup_cnt. intros x. specialize (Hsub x). cnt_hyps x. cnt_norm. lia.
    + perm_ids.
Qed.
End CfSerdeOp.

(* the same register facts for the other build-and-install operations *)
Theorem cf_step_from_iter_panic_untouched debug sc r arr items x :
  sc_fk sc <> 3%N ->
  hd 0%N (fst (step debug sc (OFromIter r arr items) x)) = 2%N ->
  get_m r (snd (step debug sc (OFromIter r arr items) x)) = get_m r x.
Proof.
  intros Hf H. unfold step in *. destruct (xdead x); [cbn in H; discriminate|].
  apply cf_run_m_replace_panic_untouched; assumption.
Qed.

Theorem cf_step_serde_panic_untouched debug sc r r' x :
  sc_fk sc <> 3%N ->
  hd 0%N (fst (step debug sc (OSerde r r') x)) = 2%N ->
  get_m r' (snd (step debug sc (OSerde r r') x)) = get_m r' x.
Proof.
  intros Hf H. unfold step in *. destruct (xdead x); [cbn in H; discriminate|]. cbv zeta in *.
  apply cf_run_m_replace_panic_untouched; assumption.
Qed.

Theorem cf_step_serde_src_untouched debug sc r r' x :
  (r < 2)%N -> (r' < 2)%N -> r <> r' ->
  get_m r (snd (step debug sc (OSerde r r') x)) = get_m r x.
Proof.
  intros H1 H2 Hn. pose proof (cf_regs_m r r' H1 H2 Hn) as Hd. unfold step.
  destruct (xdead x); [reflexivity|]. cbv zeta. apply cf_run_m_other. exact Hd.
Qed.

Theorem cf_step_s_from_iter_panic_untouched debug sc r arr items x :
  sc_fk sc <> 3%N ->
  hd 0%N (fst (step debug sc (SFromIter r arr items) x)) = 2%N ->
  get_s r (snd (step debug sc (SFromIter r arr items) x)) = get_s r x.
Proof.
  intros Hf H. unfold step in *. destruct (xdead x); [cbn in H; discriminate|].
  apply cf_run_s_replace_panic_untouched; assumption.
Qed.

Theorem cf_step_s_serde_panic_untouched debug sc r r' x :
  sc_fk sc <> 3%N ->
  hd 0%N (fst (step debug sc (SSerde r r') x)) = 2%N ->
  get_s r' (snd (step debug sc (SSerde r r') x)) = get_s r' x.
Proof.
  intros Hf H. unfold step in *. destruct (xdead x); [cbn in H; discriminate|]. cbv zeta in *.
  apply cf_run_s_replace_panic_untouched; assumption.
Qed.
