#!/bin/bash
# Build the Coq development (full .vo build), extract the model, build the OCaml runner.
set -e
cd /verif/coq
[ -f Makefile ] || coq_makefile -f _CoqProject -o Makefile >/dev/null 2>&1
timeout 3000 make -j16 2>&1 | grep -v -E "^(Warning|COQDEP|COQC|\*\*\* Warning)" || true
test -f Model/Exec.vo
mkdir -p /verif/.cache/ocaml
if [ ! -f /verif/.cache/ocaml/modelrun ] || [ Model/Exec.vo -nt /verif/.cache/ocaml/modelrun ] || [ ../ocaml/driver.ml -nt /verif/.cache/ocaml/modelrun ]; then
  (cd /verif/.cache/ocaml && coqc -Q /verif/coq/Model Model /verif/coq/Extract.v >/dev/null 2>&1 && rm -f /verif/coq/Extract.vo /verif/coq/Extract.glob /verif/coq/.Extract.aux
   cp /verif/ocaml/driver.ml . && ocamlfind ocamlopt -w -a model.mli model.ml driver.ml -o modelrun)
fi
