(* MoreBulk.v — closing audit findings for C03 and C16.

   Part 1 (C03): "a full container PANICS on a new key", stated positively (an
     equation  op w = Panic w'  for both values of [debug]) for every single-item
     entry point: insert_ii, insert, insert_key_value, vac_insert, or_insert,
     or_insert_with, or_insert_with_key, or_default, Set::insert, Set::replace;
     checked_insert returns Ok None.  For the closure-taking entry points the
     value destroyed is tied to the ACTUAL call of the closure: f (cb w1) where
     w1 is the world entry_of leaves.
   Part 2 (C03/C16): the bulk paths (extend / collect / From, Map and Set) with
     their EXACT event log, on return and on overflow: at the overflow the
     container holds exactly what the items before the overflowing one built,
     the overflowing item and all items not yet yielded are destroyed once (in
     this order), and collect additionally destroys the partial container.
   Part 3: pull counts on both exits; Set twin of from_iter_pulled_once;
     capacity(). *)
Require Import Model.Base Model.Slots Model.MapOps Model.EntryOps Model.SetOps.
Require Import Proofs.Hoare Proofs.Inv Proofs.Safety Proofs.Safety2 Proofs.Safety3 Proofs.Spec
               Proofs.Lawful Proofs.Lawful2 Proofs.Lawful3 Proofs.EntrySpec Proofs.Bulk Proofs.SetDict.

(* ------------------------------------------------------------------------ *)
(* 0. from a wp triple to the outcome of the run                             *)
(* ------------------------------------------------------------------------ *)
Section Outcome.
Context {K V T : Type}.
Notation M := (M K V T).
Notation world := (world K V T).

(* the normal-return clause is contradictory: the run panics *)
Lemma wp_must_panic {A} (c : M A) (Qn : A -> world -> Prop) (Qp : world -> Prop) w :
  wp c Qn Qp w -> (forall a w', Qn a w' -> False) -> exists w', c w = Panic w' /\ Qp w'.
Proof.
  unfold wp. destruct (c w) as [a w'|w'|]; intros H Hn.
  - destruct (Hn a w' H).
  - exists w'. split; [reflexivity | exact H].
  - destruct H.
Qed.

(* the panic clause is False: the run returns *)
Lemma wp_must_return {A} (c : M A) (Qn : A -> world -> Prop) w :
  wp c Qn (fun _ => False) w -> exists a w', c w = Ok a w' /\ Qn a w'.
Proof.
  unfold wp. destruct (c w) as [a w'|w'|]; intros H; [|destruct H | destruct H].
  exists a, w'. split; [reflexivity | exact H].
Qed.

Lemma bind_ok {A B} (c : M A) (f : A -> M B) w a w1 : c w = Ok a w1 -> bind c f w = f a w1.
Proof. intros H. unfold bind. rewrite H. reflexivity. Qed.

Lemma bind_panic {A B} (c : M A) (f : A -> M B) w w1 : c w = Panic w1 -> bind c f w = Panic w1.
Proof. intros H. unfold bind. rewrite H. reflexivity. Qed.

(* a user closure producing a value: what the call does, exactly *)
Lemma call_mk_run (f : T -> option V * T) (w : world) :
  call_mk f w =
  match fst (f (cb w)) with
  | Some v => Ok v {| cb := snd (f (cb w)); log := log w ++ [EvCall 2]; self := self w |}
  | None => Panic {| cb := snd (f (cb w)); log := log w ++ [EvCall 2]; self := self w |}
  end.
Proof.
  unfold call_mk, bind, emit, cbo. cbn [cb log self].
  destruct (f (cb w)) as [[v|] s]; reflexivity.
Qed.

(* capacity() is the (type-level) size of the slot array; it reads nothing else
   and changes nothing; len() likewise *)
Lemma capacity_spec (w : world) : @capacity K V T w = Ok (cap (self w)) w.
Proof. reflexivity. Qed.

Lemma length_spec (w : world) : @length_ K V T w = Ok (len (self w)) w.
Proof. reflexivity. Qed.

Lemma is_empty_spec (w : world) : @is_empty K V T w = Ok (len (self w) =? 0) w.
Proof. reflexivity. Qed.

Lemma capacity_ge_len (w : world) :
  WF (self w) ->
  exists n c, @length_ K V T w = Ok n w /\ @capacity K V T w = Ok c w /\ n <= c /\ c = cap (self w).
Proof.
  intros Hw. exists (len (self w)), (cap (self w)).
  split; [reflexivity|]. split; [reflexivity|]. split; [apply WF_len_le_cap; exact Hw | reflexivity].
Qed.

End Outcome.

(* ------------------------------------------------------------------------ *)
(* 1. single-item entry points on a FULL container, absent key               *)
(* ------------------------------------------------------------------------ *)
Section Full.
Context {K V Q T : Type} (E : env K V Q T) (debug : bool).
Context (ck : K -> N) (cq : Q -> N) (HL : Lawful E ck cq).
Notation M := (M K V T).
Notation world := (world K V T).
Notation kv := (K * V)%type.

Lemma insert_ii_full_panics k v u (w : world) :
  WF (self w) -> find_idx ck (ck k) (elems (self w)) = None -> len (self w) = cap (self w) ->
  exists w', insert_ii E debug k v u w = Panic w' /\ self w' = self w /\
             logged w w' (ev_drops (idV E v ++ idK E k)).
Proof.
  intros Hw Hf Hfull.
  destruct (wp_must_panic _ _ _ _ (insert_ii_lawful E debug ck cq HL k v u w Hw)) as (w' & He & Hs & Hl & _).
  - intros r w' (_ & _ & _ & _ & Hlt). specialize (Hlt Hf). lia.
  - exists w'. split; [exact He|]. split; assumption.
Qed.

Lemma insert_full_panics k v (w : world) :
  WF (self w) -> find_idx ck (ck k) (elems (self w)) = None -> len (self w) = cap (self w) ->
  exists w', insert E debug k v w = Panic w' /\ self w' = self w /\
             logged w w' (ev_drops (idV E v ++ idK E k)).
Proof.
  intros Hw Hf Hfull. destruct (insert_ii_full_panics k v false w Hw Hf Hfull) as (w' & He & Hs & Hl).
  exists w'. split; [|split; assumption]. unfold insert. apply bind_panic. exact He.
Qed.

Lemma insert_key_value_full_panics k v (w : world) :
  WF (self w) -> find_idx ck (ck k) (elems (self w)) = None -> len (self w) = cap (self w) ->
  exists w', insert_key_value E debug k v w = Panic w' /\ self w' = self w /\
             logged w w' (ev_drops (idV E v ++ idK E k)).
Proof.
  intros Hw Hf Hfull. destruct (insert_ii_full_panics k v true w Hw Hf Hfull) as (w' & He & Hs & Hl).
  exists w'. split; [|split; assumption]. unfold insert_key_value. apply bind_panic. exact He.
Qed.

Lemma vac_insert_full_panics k v (w : world) :
  WF (self w) -> find_idx ck (ck k) (elems (self w)) = None -> len (self w) = cap (self w) ->
  exists w', vac_insert E debug k v w = Panic w' /\ self w' = self w /\
             logged w w' (ev_drops (idV E v ++ idK E k)).
Proof.
  intros Hw Hf Hfull. destruct (insert_ii_full_panics k v false w Hw Hf Hfull) as (w' & He & Hs & Hl).
  exists w'. split; [|split; assumption]. unfold vac_insert. apply bind_panic. exact He.
Qed.

(* checked_insert: returns None, never panics, arguments destroyed, state unchanged *)
Lemma checked_insert_full_none k v (w : world) :
  WF (self w) -> find_idx ck (ck k) (elems (self w)) = None -> len (self w) = cap (self w) ->
  exists w', checked_insert E debug k v w = Ok None w' /\ self w' = self w /\
             logged w w' (ev_drops (idV E v ++ idK E k)).
Proof.
  intros Hw Hf Hfull.
  destruct (wp_must_return _ _ _ (checked_insert_lawful E debug ck cq HL k v w Hw)) as (r & w' & He & _ & _ & H).
  rewrite Hf, Hfull, Nat.ltb_irrefl in H. destruct H as (_ & Hs & -> & Hl).
  exists w'. split; [exact He|]. split; assumption.
Qed.

(* entry(k) for an absent key: a vacant entry holding k; nothing logged *)
Lemma entry_of_vacant k (w : world) :
  WF (self w) -> find_idx ck (ck k) (elems (self w)) = None ->
  exists w1, entry_of E k w = Ok (Vacant k) w1 /\ self w1 = self w /\ log w1 = log w.
Proof.
  intros Hw Hf.
  destruct (wp_must_return _ _ _ (entry_of_lawful E ck cq HL k w Hw)) as (e & w1 & He & Hs & H).
  rewrite Hf in H. destruct H as [-> Hl]. exists w1. split; [exact He|]. split; assumption.
Qed.

Lemma or_insert_full_panics k v (w : world) :
  WF (self w) -> find_idx ck (ck k) (elems (self w)) = None -> len (self w) = cap (self w) ->
  exists w', (e <- entry_of E k ;; or_insert E debug e v) w = Panic w' /\ self w' = self w /\
             logged w w' (ev_drops (idV E v ++ idK E k)).
Proof.
  intros Hw Hf Hfull. destruct (entry_of_vacant k w Hw Hf) as (w1 & He & Hs1 & Hl1).
  destruct (vac_insert_full_panics k v w1) as (w' & Hv & Hs & Hl); try (rewrite Hs1; assumption).
  exists w'. split; [|split].
  - rewrite (bind_ok _ _ _ _ _ He). cbn [or_insert]. exact Hv.
  - congruence.
  - unfold logged in *. congruence.
Qed.

(* what entry(k).or_insert_with(f) does on a vacant entry: exactly one call of
   f, in the callback state entry_of left, then VacantEntry::insert of its value;
   when the closure panics, the VacantEntry's key is destroyed by the unwinding
   (its Drop events follow EvCall 2; the answer of its Drop callback is ignored) *)
Lemma or_insert_with_run k (f : T -> option V * T) (w w1 : world) :
  entry_of E k w = Ok (Vacant k) w1 ->
  (e <- entry_of E k ;; or_insert_with E debug e f) w =
  match fst (f (cb w1)) with
  | Some v => vac_insert E debug k v
                {| cb := snd (f (cb w1)); log := log w1 ++ [EvCall 2]; self := self w1 |}
  | None => Panic {| cb := snd (dropK E (snd (f (cb w1))) k);
                     log := (log w1 ++ [EvCall 2]) ++ ev_drops (idK E k); self := self w1 |}
  end.
Proof.
  intros He. rewrite (bind_ok _ _ _ _ _ He). cbn [or_insert_with].
  unfold bind, on_unwind. rewrite call_mk_run. destruct (f (cb w1)) as [[v|] s]; cbn [fst snd]; [reflexivity|].
  unfold unwind_key, bind, emit, cbd, ret. cbn [cb log self]. destruct (dropK E s k); reflexivity.
Qed.

Lemma or_insert_with_key_run k (f : K -> T -> option V * T) (w w1 : world) :
  entry_of E k w = Ok (Vacant k) w1 ->
  (e <- entry_of E k ;; or_insert_with_key E debug e f) w =
  match fst (f k (cb w1)) with
  | Some v => vac_insert E debug k v
                {| cb := snd (f k (cb w1)); log := log w1 ++ [EvCall 2]; self := self w1 |}
  | None => Panic {| cb := snd (dropK E (snd (f k (cb w1))) k);
                     log := (log w1 ++ [EvCall 2]) ++ ev_drops (idK E k); self := self w1 |}
  end.
Proof.
  intros He. rewrite (bind_ok _ _ _ _ _ He). cbn [or_insert_with_key].
  unfold bind, on_unwind. rewrite call_mk_run. destruct (f k (cb w1)) as [[v|] s]; cbn [fst snd]; [reflexivity|].
  unfold unwind_key, bind, emit, cbd, ret. cbn [cb log self]. destruct (dropK E s k); reflexivity.
Qed.

(* the closure is called once, at the state w1 entry_of left; the value it
   produced there is the one destroyed together with the key *)
Lemma or_insert_with_full_panics k (f : T -> option V * T) (w : world) :
  WF (self w) -> find_idx ck (ck k) (elems (self w)) = None -> len (self w) = cap (self w) ->
  (forall s, exists v s', f s = (Some v, s')) ->
  exists w1 v s' w',
    entry_of E k w = Ok (Vacant k) w1 /\ self w1 = self w /\ log w1 = log w /\
    f (cb w1) = (Some v, s') /\
    (e <- entry_of E k ;; or_insert_with E debug e f) w = Panic w' /\ self w' = self w /\
    logged w w' ([EvCall 2] ++ ev_drops (idV E v ++ idK E k)).
Proof.
  intros Hw Hf Hfull Hfn. destruct (entry_of_vacant k w Hw Hf) as (w1 & He & Hs1 & Hl1).
  destruct (Hfn (cb w1)) as (v & s' & Hfv).
  set (w2 := {| cb := s'; log := log w1 ++ [EvCall 2]; self := self w1 |}).
  destruct (vac_insert_full_panics k v w2) as (w' & Hv & Hs & Hl);
    try (unfold w2; cbn [self]; rewrite Hs1; assumption).
  exists w1, v, s', w'. split; [exact He|]. split; [exact Hs1|]. split; [exact Hl1|]. split; [exact Hfv|].
  split; [|split].
  - rewrite (or_insert_with_run k f w w1 He). rewrite Hfv. cbn [fst snd]. exact Hv.
  - rewrite Hs. unfold w2. cbn [self]. exact Hs1.
  - unfold logged in *. rewrite Hl. unfold w2. cbn [log]. rewrite Hl1, <- app_assoc. reflexivity.
Qed.

Lemma or_insert_with_key_full_panics k (f : K -> T -> option V * T) (w : world) :
  WF (self w) -> find_idx ck (ck k) (elems (self w)) = None -> len (self w) = cap (self w) ->
  (forall s, exists v s', f k s = (Some v, s')) ->
  exists w1 v s' w',
    entry_of E k w = Ok (Vacant k) w1 /\ self w1 = self w /\ log w1 = log w /\
    f k (cb w1) = (Some v, s') /\
    (e <- entry_of E k ;; or_insert_with_key E debug e f) w = Panic w' /\ self w' = self w /\
    logged w w' ([EvCall 2] ++ ev_drops (idV E v ++ idK E k)).
Proof.
  intros Hw Hf Hfull Hfn. destruct (entry_of_vacant k w Hw Hf) as (w1 & He & Hs1 & Hl1).
  destruct (Hfn (cb w1)) as (v & s' & Hfv).
  set (w2 := {| cb := s'; log := log w1 ++ [EvCall 2]; self := self w1 |}).
  destruct (vac_insert_full_panics k v w2) as (w' & Hv & Hs & Hl);
    try (unfold w2; cbn [self]; rewrite Hs1; assumption).
  exists w1, v, s', w'. split; [exact He|]. split; [exact Hs1|]. split; [exact Hl1|]. split; [exact Hfv|].
  split; [|split].
  - rewrite (or_insert_with_key_run k f w w1 He). rewrite Hfv. cbn [fst snd]. exact Hv.
  - rewrite Hs. unfold w2. cbn [self]. exact Hs1.
  - unfold logged in *. rewrite Hl. unfold w2. cbn [log]. rewrite Hl1, <- app_assoc. reflexivity.
Qed.

(* Entry::or_default is or_insert_with(Default::default): [d] builds the
   default value (it cannot decline).  On a full map with an absent key the
   default IS built (one closure call) and is then destroyed with the key. *)
Definition mk_of (d : T -> V * T) : T -> option V * T := fun s => (Some (fst (d s)), snd (d s)).

Lemma or_default_full_panics k (d : T -> V * T) (w : world) :
  WF (self w) -> find_idx ck (ck k) (elems (self w)) = None -> len (self w) = cap (self w) ->
  exists w1 w',
    entry_of E k w = Ok (Vacant k) w1 /\ self w1 = self w /\ log w1 = log w /\
    (e <- entry_of E k ;; or_insert_with E debug e (mk_of d)) w = Panic w' /\ self w' = self w /\
    logged w w' ([EvCall 2] ++ ev_drops (idV E (fst (d (cb w1))) ++ idK E k)).
Proof.
  intros Hw Hf Hfull.
  destruct (or_insert_with_full_panics k (mk_of d) w Hw Hf Hfull) as (w1 & v & s' & w' & He & Hs1 & Hl1 & Hfv & Hr & Hs & Hl).
  { intros s. exists (fst (d s)), (snd (d s)). reflexivity. }
  unfold mk_of in Hfv. injection Hfv as <- <-.
  exists w1, w'. repeat (split; [assumption|]). exact Hl.
Qed.

(* the wp form of EntrySpec.or_insert_with_lawful with the closure call tied to
   the state it is made in (the audit's finding: there [s] was unconstrained);
   the normal-return clause is tied as well: the value stored is the closure's *)
Lemma or_insert_with_tied k (f : T -> option V * T) (w : world) :
  WF (self w) ->
  (forall s, exists v s', f s = (Some v, s')) ->
  wp (e <- entry_of E k ;; or_insert_with E debug e f)
     (fun i w' => WF (self w') /\ cap (self w') = cap (self w) /\
                  match find_idx ck (ck k) (elems (self w)) with
                  | Some j => i = j /\ self w' = self w /\ logged w w' (ev_drops (idK E k))
                  | None => i = length (elems (self w)) /\
                            (exists w1 v s', entry_of E k w = Ok (Vacant k) w1 /\
                                             f (cb w1) = (Some v, s') /\
                                             elems (self w') = elems (self w) ++ [(k, v)]) /\
                            logged w w' [EvCall 2]
                  end)
     (fun w' => self w' = self w /\
                (exists w1 v s', entry_of E k w = Ok (Vacant k) w1 /\
                                 f (cb w1) = (Some v, s') /\
                                 logged w w' ([EvCall 2] ++ ev_drops (idV E v ++ idK E k))) /\
                find_idx ck (ck k) (elems (self w)) = None /\
                len (self w) = cap (self w)) w.
Proof.
  intros Hw Hfn.
  destruct (find_idx ck (ck k) (elems (self w))) as [j|] eqn:Hf.
  - eapply wp_mono; [apply (or_insert_with_lawful E debug ck cq HL k f w Hw Hfn) | |]; cbn beta; rewrite Hf.
    + intros i w' H. exact H.
    + intros w' (_ & _ & Hn & _). discriminate.
  - destruct (entry_of_vacant k w Hw Hf) as (w1 & He & Hs1 & Hl1).
    destruct (Hfn (cb w1)) as (v & s' & Hfv).
    unfold wp. rewrite (or_insert_with_run k f w w1 He). rewrite Hfv. cbn [fst snd].
    set (w2 := {| cb := s'; log := log w1 ++ [EvCall 2]; self := self w1 |}).
    assert (Hw2 : WF (self w2)) by (unfold w2; cbn [self]; rewrite Hs1; exact Hw).
    assert (Hf2 : find_idx ck (ck k) (elems (self w2)) = None) by (unfold w2; cbn [self]; rewrite Hs1; exact Hf).
    pose proof (vac_insert_lawful E debug ck cq HL k v w2 Hw2 Hf2) as Hv. unfold wp in Hv.
    destruct (vac_insert E debug k v w2) as [i w'|w'|]; [| |exact Hv].
    + destruct Hv as (Hw' & Hc' & Hl' & He' & Hi & _). unfold w2 in *. cbn [self log] in *. rewrite Hs1 in *.
      split; [exact Hw'|]. split; [exact Hc'|]. split; [exact Hi|]. split.
      * exists w1, v, s'. split; [exact He|]. split; [exact Hfv | exact He'].
      * unfold logged. rewrite Hl', Hl1. reflexivity.
    + destruct Hv as (Hs' & Hl' & Hc'). unfold w2 in *. cbn [self log] in *. rewrite Hs1 in *.
      split; [exact Hs'|]. split; [|split; [reflexivity | exact Hc']].
      exists w1, v, s'. split; [exact He|]. split; [exact Hfv|].
      unfold logged in *. cbn [log] in Hl'. rewrite Hl', Hl1, <- app_assoc. reflexivity.
Qed.

Lemma or_insert_with_key_tied k (f : K -> T -> option V * T) (w : world) :
  WF (self w) ->
  (forall s, exists v s', f k s = (Some v, s')) ->
  wp (e <- entry_of E k ;; or_insert_with_key E debug e f)
     (fun i w' => WF (self w') /\ cap (self w') = cap (self w) /\
                  match find_idx ck (ck k) (elems (self w)) with
                  | Some j => i = j /\ self w' = self w /\ logged w w' (ev_drops (idK E k))
                  | None => i = length (elems (self w)) /\
                            (exists w1 v s', entry_of E k w = Ok (Vacant k) w1 /\
                                             f k (cb w1) = (Some v, s') /\
                                             elems (self w') = elems (self w) ++ [(k, v)]) /\
                            logged w w' [EvCall 2]
                  end)
     (fun w' => self w' = self w /\
                (exists w1 v s', entry_of E k w = Ok (Vacant k) w1 /\
                                 f k (cb w1) = (Some v, s') /\
                                 logged w w' ([EvCall 2] ++ ev_drops (idV E v ++ idK E k))) /\
                find_idx ck (ck k) (elems (self w)) = None /\
                len (self w) = cap (self w)) w.
Proof.
  intros Hw Hfn.
  destruct (find_idx ck (ck k) (elems (self w))) as [j|] eqn:Hf.
  - eapply wp_mono; [apply (or_insert_with_key_lawful E debug ck cq HL k f w Hw Hfn) | |]; cbn beta; rewrite Hf.
    + intros i w' H. exact H.
    + intros w' (_ & _ & Hn & _). discriminate.
  - destruct (entry_of_vacant k w Hw Hf) as (w1 & He & Hs1 & Hl1).
    destruct (Hfn (cb w1)) as (v & s' & Hfv).
    unfold wp. rewrite (or_insert_with_key_run k f w w1 He). rewrite Hfv. cbn [fst snd].
    set (w2 := {| cb := s'; log := log w1 ++ [EvCall 2]; self := self w1 |}).
    assert (Hw2 : WF (self w2)) by (unfold w2; cbn [self]; rewrite Hs1; exact Hw).
    assert (Hf2 : find_idx ck (ck k) (elems (self w2)) = None) by (unfold w2; cbn [self]; rewrite Hs1; exact Hf).
    pose proof (vac_insert_lawful E debug ck cq HL k v w2 Hw2 Hf2) as Hv. unfold wp in Hv.
    destruct (vac_insert E debug k v w2) as [i w'|w'|]; [| |exact Hv].
    + destruct Hv as (Hw' & Hc' & Hl' & He' & Hi & _). unfold w2 in *. cbn [self log] in *. rewrite Hs1 in *.
      split; [exact Hw'|]. split; [exact Hc'|]. split; [exact Hi|]. split.
      * exists w1, v, s'. split; [exact He|]. split; [exact Hfv | exact He'].
      * unfold logged. rewrite Hl', Hl1. reflexivity.
    + destruct Hv as (Hs' & Hl' & Hc'). unfold w2 in *. cbn [self log] in *. rewrite Hs1 in *.
      split; [exact Hs'|]. split; [|split; [reflexivity | exact Hc']].
      exists w1, v, s'. split; [exact He|]. split; [exact Hfv|].
      unfold logged in *. cbn [log] in Hl'. rewrite Hl', Hl1, <- app_assoc. reflexivity.
Qed.

End Full.

(* Set::insert / Set::replace on a full set, absent element *)
Section SetFull.
Context {K Q T : Type} (E : env K unit Q T) (debug : bool).
Context (ck : K -> N) (cq : Q -> N) (HL : Lawful E ck cq).
Notation world := (world K unit T).

Lemma s_insert_full_panics k (w : world) :
  WF (self w) -> find_idx ck (ck k) (elems (self w)) = None -> len (self w) = cap (self w) ->
  exists w', s_insert E debug k w = Panic w' /\ self w' = self w /\
             logged w w' (ev_drops (idV E tt ++ idK E k)).
Proof.
  intros Hw Hf Hfull. destruct (insert_full_panics E debug ck cq HL k tt w Hw Hf Hfull) as (w' & He & Hs & Hl).
  exists w'. split; [|split; assumption]. unfold s_insert. apply bind_panic. exact He.
Qed.

Lemma s_replace_full_panics k (w : world) :
  WF (self w) -> find_idx ck (ck k) (elems (self w)) = None -> len (self w) = cap (self w) ->
  exists w', s_replace E debug k w = Panic w' /\ self w' = self w /\
             logged w w' (ev_drops (idV E tt ++ idK E k)).
Proof.
  intros Hw Hf Hfull. destruct (insert_ii_full_panics E debug ck cq HL k tt true w Hw Hf Hfull) as (w' & He & Hs & Hl).
  exists w'. split; [|split; assumption]. unfold s_replace. apply bind_panic. exact He.
Qed.

End SetFull.

(* ------------------------------------------------------------------------ *)
(* 2. the bulk paths with their exact event log                              *)
(* ------------------------------------------------------------------------ *)
Section BulkExact.
Context {K V Q T : Type} (E : env K V Q T) (debug : bool).
Context (ck : K -> N) (cq : Q -> N) (HL : Lawful E ck cq).
Notation M := (M K V T).
Notation world := (world K V T).
Notation kv := (K * V)%type.
Notation ins l k v := (fst (fst (l_insert ck l k v false))).

(* the Drop events of one owned pair: key identities, then value identities *)
Definition pair_drops (p : kv) : list event := ev_drops (idK E (fst p) ++ idV E (snd p)).

(* what inserting [items] one by one into the list [l] logs: per item one call
   of the source's next(), then - when the key was already present - the Drop
   of the SUPPLIED key object (the stored one is kept) and of the DISPLACED
   value.  Items that add a new entry log nothing but the pull. *)
Fixpoint ext_evs (l : list kv) (items : list kv) : list event :=
  match items with
  | [] => []
  | (k, v) :: rest =>
      [EvCall 1] ++
      (match snd (l_insert ck l k v false) with
       | Some (k', v0) => ev_drops (idK E k') ++ ev_drops (idV E v0)
       | None => []
       end) ++
      ext_evs (ins l k v) rest
  end.

(* the Drop events of a rejected ARGUMENT pair (two parameters k, v of insert:
   destroyed in reverse declaration order, value first, then key) *)
Definition arg_drops (p : kv) : list event := ev_drops (idV E (snd p) ++ idK E (fst p)).

Lemma nopull_arg_drops p : filter is_pull (arg_drops p) = [].
Proof. apply nopull_drops. Qed.

Lemma nopull_pair_drops p : filter is_pull (pair_drops p) = [].
Proof. apply nopull_drops. Qed.

Lemma nopull_flat_drops (l : list kv) : filter is_pull (flat_map pair_drops l) = [].
Proof.
  induction l as [|p t IH]; [reflexivity|]. cbn [flat_map]. rewrite filter_app, nopull_pair_drops, IH. reflexivity.
Qed.

Lemma pulls_ext_evs items : forall l, length (filter is_pull (ext_evs l items)) = length items.
Proof.
  induction items as [|[k v] rest IH]; intros l; [reflexivity|].
  cbn [ext_evs]. rewrite !filter_app, !app_length, IH.
  destruct (snd (l_insert ck l k v false)) as [[k' v0]|];
    rewrite ?filter_app, ?nopull_drops; cbn [length filter is_pull N.eqb Pos.eqb app]; lia.
Qed.

(* unwinding over the items the source still owns: each destroyed once, in order *)
Lemma unwind_pairs_lawful (l : list kv) (w : world) :
  wp (unwind_pairs E l)
     (fun _ w' => self w' = self w /\ logged w w' (flat_map pair_drops l)) (fun _ => False) w.
Proof.
  revert w; induction l as [|p t IH]; intros w; cbn [unwind_pairs flat_map].
  - apply wp_ret. split; [reflexivity | apply logged_nil].
  - apply wp_bind. eapply wp_mono; [apply (unwind_pair_lawful E p w) | | intros ? []]; cbn beta.
    intros _ w1 [Hs1 Hl1]. eapply wp_mono; [apply IH | | intros ? []]; cbn beta.
    intros _ w2 [Hs2 Hl2]. split; [congruence|]. eapply logged_app; [exact Hl1 | exact Hl2].
Qed.

(* Extend / the loop of FromIterator: exact contents and exact log on both exits.
   On overflow: items = pre ++ x :: post, the container holds exactly what [pre]
   built, x does not fit (new class, container full), the log is
     what building [pre] logged, the pull that yielded x, the Drop of x
     (arg_drops: x was passed to insert as two arguments, value dies first),
     the Drop of every item of [post] (never yielded; tuples: key then value),
     and nothing else. *)
Lemma extend_loop_overflow nx items :
  (forall s, fst (nx s) <> Boom) -> forall w : world, WF (self w) ->
  wp (extend_loop E debug nx items)
     (fun _ w' => WF (self w') /\ cap (self w') = cap (self w) /\
                  l_extend ck (cap (self w)) (elems (self w)) items = Some (elems (self w')) /\
                  log w' = log w ++ ext_evs (elems (self w)) items ++ [EvCall 1])
     (fun w' => WF (self w') /\ cap (self w') = cap (self w) /\
                l_extend ck (cap (self w)) (elems (self w)) items = None /\
                exists pre x post,
                  items = pre ++ x :: post /\
                  l_extend ck (cap (self w)) (elems (self w)) pre = Some (elems (self w')) /\
                  find_idx ck (ck (fst x)) (elems (self w')) = None /\
                  length (elems (self w')) = cap (self w) /\
                  log w' = log w ++ ext_evs (elems (self w)) pre ++ [EvCall 1] ++
                                    arg_drops x ++ flat_map pair_drops post) w.
Proof.
  intros Hnx. induction items as [|[k v] rest IH]; intros w Hw; cbn [extend_loop].
  - eapply wp_mono; [apply call_next_lawful; exact Hnx | | intros ? []]; cbn beta.
    intros _ w1 [Hs1 Hl1]. rewrite Hs1. split; [exact Hw|]. split; [reflexivity|]. split; [reflexivity|].
    cbn [ext_evs app]. exact Hl1.
  - apply wp_bind. apply wp_on_unwind_nopanic.
    eapply wp_mono; [apply call_next_lawful; exact Hnx | | intros ? []]; cbn beta.
    intros _ w1 [Hs1 Hl1].
    assert (Hw1 : WF (self w1)) by (rewrite Hs1; exact Hw).
    apply wp_bind. apply wp_on_unwind.
    apply wp_bind. eapply wp_mono; [apply (insert_lawful E debug ck cq HL k v w1 Hw1) | |]; cbn beta.
    + intros old w2 (Hw2 & Hc2 & He2 & Hold & Hlg2). rewrite Hs1 in Hc2, He2, Hold, Hlg2.
      eapply wp_mono; [apply (drop_opt_val_lawful E ck cq HL) | | intros ? []]; cbn beta.
      intros _ w3 [Hs3 Hlg3].
      assert (Hw3 : WF (self w3)) by (rewrite Hs3; exact Hw2).
      assert (Hlen : length (ins (elems (self w)) k v) <= cap (self w)).
      { rewrite <- He2, (elems_length _ Hw2), <- Hc2. apply WF_len_le_cap. exact Hw2. }
      assert (Hlog3 : log w3 = log w ++ [EvCall 1] ++
                match snd (l_insert ck (elems (self w)) k v false) with
                | Some (k', v0) => ev_drops (idK E k') ++ ev_drops (idV E v0)
                | None => []
                end).
      { unfold logged in Hlg2, Hlg3. rewrite Hlg3, Hlg2, Hl1. subst old.
        destruct (snd (l_insert ck (elems (self w)) k v false)) as [[k' v0]|]; cbn [option_map snd];
          rewrite <- ?app_assoc; reflexivity. }
      eapply wp_mono; [apply (IH w3 Hw3) | |]; cbn beta; rewrite Hs3, He2, Hc2.
      * intros _ w4 (Hw4 & Hc4 & Hex & Hl4).
        split; [exact Hw4|]. split; [exact Hc4|]. split.
        { rewrite l_extend_cons_ok; [exact Hex | exact Hlen]. }
        cbn [ext_evs]. rewrite Hl4, Hlog3, <- !app_assoc. reflexivity.
      * intros w4 (Hw4 & Hc4 & Hex & pre & x & post & Hit & Hpre & Hfx & Hfull & Hl4).
        split; [exact Hw4|]. split; [exact Hc4|]. split.
        { rewrite l_extend_cons_ok; [exact Hex | exact Hlen]. }
        exists ((k, v) :: pre), x, post. split; [rewrite Hit; reflexivity|]. split.
        { rewrite l_extend_cons_ok; [exact Hpre | exact Hlen]. }
        split; [exact Hfx|]. split; [exact Hfull|].
        cbn [ext_evs]. rewrite Hl4, Hlog3, <- !app_assoc. reflexivity.
    + intros w2 (Hs2 & Hlg2 & Hf & Hfull). rewrite Hs1 in Hf, Hfull.
      eapply wp_mono; [apply unwind_pairs_lawful | | intros ? []]; cbn beta.
      intros _ w3 [Hs3 Hlg3]. rewrite Hs3, Hs2, Hs1.
      split; [exact Hw|]. split; [reflexivity|]. split.
      { apply l_extend_cons_full; [exact Hf|]. rewrite (elems_length _ Hw). lia. }
      exists [], (k, v), rest. split; [reflexivity|]. split; [reflexivity|]. split; [exact Hf|].
      split; [rewrite (elems_length _ Hw); exact Hfull|].
      unfold logged in Hlg2, Hlg3. rewrite Hlg3, Hlg2, Hl1. cbn [ext_evs app fst snd]. unfold arg_drops. cbn [fst snd].
      rewrite <- !app_assoc. reflexivity.
Qed.

(* positively: when the list machine overflows, the loop panics (both builds) *)
Lemma extend_loop_overflow_panics nx items (w : world) :
  (forall s, fst (nx s) <> Boom) -> WF (self w) ->
  l_extend ck (cap (self w)) (elems (self w)) items = None ->
  exists w' pre x post,
    extend_loop E debug nx items w = Panic w' /\
    WF (self w') /\ cap (self w') = cap (self w) /\
    items = pre ++ x :: post /\
    l_extend ck (cap (self w)) (elems (self w)) pre = Some (elems (self w')) /\
    find_idx ck (ck (fst x)) (elems (self w')) = None /\
    length (elems (self w')) = cap (self w) /\
    log w' = log w ++ ext_evs (elems (self w)) pre ++ [EvCall 1] ++ arg_drops x ++ flat_map pair_drops post.
Proof.
  intros Hnx Hw Hov.
  destruct (wp_must_panic _ _ _ _ (extend_loop_overflow nx items Hnx w Hw))
    as (w' & He & Hw' & Hc' & _ & pre & x & post & H).
  - intros _ w' (_ & _ & Hex & _). congruence.
  - exists w', pre, x, post. split; [exact He|]. split; [exact Hw'|]. split; [exact Hc'|]. exact H.
Qed.

(* the destructor that runs WHILE UNWINDING over the partly built container
   (any environment: Drop answers are ignored): it never panics and destroys
   exactly the entries, in slot order *)
Lemma unwind_range_exact n : forall i (w : world),
  (forall j, i <= j < i + n -> live (self w) j) ->
  wp (unwind_range E n i)
     (fun _ w' => log w' = log w ++ flat_map pair_drops (take_live (skipn i (slots (self w))) n))
     (fun _ => False) w.
Proof.
  induction n as [|n IH]; intros i w Hl; cbn [unwind_range].
  - apply wp_ret. cbn [take_live flat_map]. rewrite app_nil_r. reflexivity.
  - destruct (Hl i ltac:(lia)) as [p Hp].
    apply wp_bind. eapply wp_p_read; [exact Hp|].
    apply wp_bind. eapply wp_mono; [apply (unwind_pair_lawful E p) | | intros ? []]; cbn beta.
    intros _ w2 [Hs2 Hlg2]. simp_w.
    eapply wp_mono; [apply (IH (S i) w2) | | intros ? []]; cbn beta.
    + intros j Hj. rewrite Hs2. apply live_set_slot_neq; [lia | apply Hl; lia].
    + intros _ w3 Hl3. rewrite Hs2 in Hl3. simp_w. rewrite skipn_upd_lt in Hl3 by lia.
      rewrite (take_live_skipn_S _ i n p Hp). cbn [flat_map].
      unfold logged in Hlg2. simp_w. rewrite Hl3, Hlg2, <- app_assoc. reflexivity.
Qed.

Lemma unwind_map_exact (w : world) :
  WF (self w) ->
  wp (unwind_map E) (fun _ w' => log w' = log w ++ flat_map pair_drops (elems (self w))) (fun _ => False) w.
Proof.
  intros [Hle Hlv]. unfold unwind_map. apply wp_bind. apply wp_get_len.
  eapply wp_mono; [apply unwind_range_exact | | intros ? []]; cbn beta.
  - intros j Hj. apply Hlv. lia.
  - intros _ w' H. exact H.
Qed.

Lemma wp_finally_drop_log {A} (c : M A) (Qn : A -> world -> Prop) (Qp : world -> Prop) (w : world) :
  wp c Qn (fun w' => WF (self w') /\
                     forall w'', log w'' = log w' ++ flat_map pair_drops (elems (self w')) -> Qp w'') w ->
  wp (finally_drop E c) Qn Qp w.
Proof.
  unfold wp at 1 2. unfold finally_drop. destruct (c w) as [a w'|w'|]; auto.
  intros [Hw' HQ]. pose proof (unwind_map_exact w' Hw') as Hd. unfold wp in Hd.
  destruct (unwind_map E w') as [u w''|w''|]; [|destruct Hd | destruct Hd].
  apply HQ. exact Hd.
Qed.

(* FromIterator / From<[(K,V); N]>: on overflow the partial container [res]
   (what [pre] built) is destroyed after the rejected item and the rest *)
Lemma from_iter_overflow nx items (w : world) :
  (forall s, fst (nx s) <> Boom) -> WF (self w) -> len (self w) = 0 ->
  wp (from_iter E debug nx items)
     (fun _ w' => WF (self w') /\ cap (self w') = cap (self w) /\
                  l_extend ck (cap (self w)) [] items = Some (elems (self w')) /\
                  log w' = log w ++ ext_evs [] items ++ [EvCall 1])
     (fun w' => l_extend ck (cap (self w)) [] items = None /\
                exists pre x post res,
                  items = pre ++ x :: post /\
                  l_extend ck (cap (self w)) [] pre = Some res /\
                  find_idx ck (ck (fst x)) res = None /\
                  length res = cap (self w) /\
                  log w' = log w ++ ext_evs [] pre ++ [EvCall 1] ++
                                    arg_drops x ++ flat_map pair_drops post ++ flat_map pair_drops res) w.
Proof.
  intros Hnx Hw Hlen. unfold from_iter. apply wp_finally_drop_log.
  assert (He : elems (self w) = []) by (unfold elems; rewrite Hlen; reflexivity).
  eapply wp_mono; [apply (extend_loop_overflow nx items Hnx w Hw) | |]; cbn beta; rewrite He.
  - intros _ w' H. exact H.
  - intros w' (Hw' & _ & Hov & pre & x & post & Hit & Hpre & Hfx & Hfull & Hl).
    split; [exact Hw'|]. intros w'' Hl''. split; [exact Hov|].
    exists pre, x, post, (elems (self w')). split; [exact Hit|]. split; [exact Hpre|].
    split; [exact Hfx|]. split; [exact Hfull|].
    rewrite Hl'', Hl, <- !app_assoc. reflexivity.
Qed.

(* pull counts on BOTH exits of the loop: S (length items) on return,
   S (length pre) on overflow: one per stored item plus the one that yielded
   the overflowing item, and the source is not called again *)
Lemma extend_loop_full_pulls nx items :
  (forall s, fst (nx s) <> Boom) -> forall w : world, WF (self w) ->
  wp (extend_loop E debug nx items)
     (fun _ w' => WF (self w') /\ cap (self w') = cap (self w) /\
                  l_extend ck (cap (self w)) (elems (self w)) items = Some (elems (self w')) /\
                  exists evs, log w' = log w ++ evs /\
                              length (filter is_pull evs) = S (length items))
     (fun w' => WF (self w') /\ cap (self w') = cap (self w) /\
                l_extend ck (cap (self w)) (elems (self w)) items = None /\
                exists pre x post evs,
                  items = pre ++ x :: post /\
                  l_extend ck (cap (self w)) (elems (self w)) pre = Some (elems (self w')) /\
                  log w' = log w ++ evs /\
                  length (filter is_pull evs) = S (length pre)) w.
Proof.
  intros Hnx w Hw. eapply wp_mono; [apply (extend_loop_overflow nx items Hnx w Hw) | |]; cbn beta.
  - intros _ w' (Hw' & Hc' & Hex & Hl). split; [exact Hw'|]. split; [exact Hc'|]. split; [exact Hex|].
    eexists. split; [exact Hl|]. rewrite filter_app, app_length, pulls_ext_evs. cbn. lia.
  - intros w' (Hw' & Hc' & Hov & pre & x & post & Hit & Hpre & _ & _ & Hl).
    split; [exact Hw'|]. split; [exact Hc'|]. split; [exact Hov|].
    exists pre, x, post. eexists. split; [exact Hit|]. split; [exact Hpre|]. split; [exact Hl|].
    rewrite !filter_app, !app_length, pulls_ext_evs, nopull_arg_drops, nopull_flat_drops. cbn. lia.
Qed.

Lemma from_iter_full_pulls nx items (w : world) :
  (forall s, fst (nx s) <> Boom) -> WF (self w) -> len (self w) = 0 ->
  wp (from_iter E debug nx items)
     (fun _ w' => exists evs, log w' = log w ++ evs /\ length (filter is_pull evs) = S (length items))
     (fun w' => exists pre x post res evs,
                  items = pre ++ x :: post /\
                  l_extend ck (cap (self w)) [] pre = Some res /\
                  log w' = log w ++ evs /\
                  length (filter is_pull evs) = S (length pre)) w.
Proof.
  intros Hnx Hw Hlen. eapply wp_mono; [apply (from_iter_overflow nx items w Hnx Hw Hlen) | |]; cbn beta.
  - intros _ w' (_ & _ & _ & Hl). eexists. split; [exact Hl|].
    rewrite filter_app, app_length, pulls_ext_evs. cbn. lia.
  - intros w' (_ & pre & x & post & res & Hit & Hpre & _ & _ & Hl).
    exists pre, x, post, res. eexists. split; [exact Hit|]. split; [exact Hpre|]. split; [exact Hl|].
    rewrite !filter_app, !app_length, pulls_ext_evs, nopull_arg_drops, !nopull_flat_drops. cbn. lia.
Qed.

End BulkExact.

(* ------------------------------------------------------------------------ *)
(* 3. the same for Set (Set::extend keeps what was inserted; collect /       *)
(*    From<[T; N]> destroy the partial set)                                  *)
(* ------------------------------------------------------------------------ *)
Section SetBulkExact.
Context {K Q T : Type} (E : env K unit Q T) (debug : bool).
Context (ck : K -> N) (cq : Q -> N) (HL : Lawful E ck cq).
Notation M := (M K unit T).
Notation world := (world K unit T).
Notation ku := (K * unit)%type.
Notation ins l k := (fst (fst (l_insert ck l k tt false))).

(* per element one pull; a repeated element logs the Drop of the SUPPLIED
   object (the stored one is kept); () has no destructor *)
Fixpoint s_ext_evs (l : list ku) (items : list K) : list event :=
  match items with
  | [] => []
  | k :: rest =>
      [EvCall 1] ++
      (match snd (l_insert ck l k tt false) with
       | Some (k', _) => ev_drops (idK E k')
       | None => []
       end) ++
      s_ext_evs (ins l k) rest
  end.

Lemma pulls_s_ext_evs items : forall l, length (filter is_pull (s_ext_evs l items)) = length items.
Proof.
  induction items as [|k rest IH]; intros l; [reflexivity|].
  cbn [s_ext_evs]. rewrite !filter_app, !app_length, IH.
  destruct (snd (l_insert ck l k tt false)) as [[k' v0]|];
    rewrite ?nopull_drops; cbn [length filter is_pull N.eqb Pos.eqb app]; lia.
Qed.

Lemma s_extend_loop_overflow nx items :
  (forall s, fst (nx s) <> Boom) -> forall w : world, WF (self w) ->
  wp (s_extend_loop E debug nx items)
     (fun _ w' => WF (self w') /\ cap (self w') = cap (self w) /\
                  l_extend ck (cap (self w)) (elems (self w)) (unit_items items) = Some (elems (self w')) /\
                  log w' = log w ++ s_ext_evs (elems (self w)) items ++ [EvCall 1])
     (fun w' => WF (self w') /\ cap (self w') = cap (self w) /\
                l_extend ck (cap (self w)) (elems (self w)) (unit_items items) = None /\
                exists pre x post,
                  items = pre ++ x :: post /\
                  l_extend ck (cap (self w)) (elems (self w)) (unit_items pre) = Some (elems (self w')) /\
                  find_idx ck (ck x) (elems (self w')) = None /\
                  length (elems (self w')) = cap (self w) /\
                  log w' = log w ++ s_ext_evs (elems (self w)) pre ++ [EvCall 1] ++
                                    arg_drops E (x, tt) ++ flat_map (pair_drops E) (unit_items post)) w.
Proof.
  intros Hnx. induction items as [|k rest IH]; intros w Hw; cbn [s_extend_loop unit_items List.map].
  - eapply wp_mono; [apply call_next_lawful; exact Hnx | | intros ? []]; cbn beta.
    intros _ w1 [Hs1 Hl1]. rewrite Hs1. split; [exact Hw|]. split; [reflexivity|]. split; [reflexivity|].
    cbn [s_ext_evs app]. exact Hl1.
  - fold (unit_items rest).
    apply wp_bind. apply wp_on_unwind_nopanic.
    eapply wp_mono; [apply call_next_lawful; exact Hnx | | intros ? []]; cbn beta.
    intros _ w1 [Hs1 Hl1].
    assert (Hw1 : WF (self w1)) by (rewrite Hs1; exact Hw).
    apply wp_bind. apply wp_on_unwind.
    apply wp_bind. unfold s_insert. apply wp_bind.
    eapply wp_mono; [apply (insert_lawful E debug ck cq HL k tt w1 Hw1) | |]; cbn beta.
    + intros old w2 (Hw2 & Hc2 & He2 & _ & Hlg2). rewrite Hs1 in Hc2, He2, Hlg2.
      apply wp_ret. apply wp_ret.
      assert (Hlen : length (ins (elems (self w)) k) <= cap (self w)).
      { rewrite <- He2, (elems_length _ Hw2), <- Hc2. apply WF_len_le_cap. exact Hw2. }
      assert (Hlog2 : log w2 = log w ++ [EvCall 1] ++
                match snd (l_insert ck (elems (self w)) k tt false) with
                | Some (k', _) => ev_drops (idK E k')
                | None => []
                end).
      { unfold logged in Hlg2. rewrite Hlg2, Hl1, <- app_assoc. reflexivity. }
      eapply wp_mono; [apply (IH w2 Hw2) | |]; cbn beta; rewrite He2, Hc2.
      * intros _ w4 (Hw4 & Hc4 & Hex & Hl4).
        split; [exact Hw4|]. split; [exact Hc4|]. split.
        { rewrite l_extend_cons_ok; [exact Hex | exact Hlen]. }
        cbn [s_ext_evs]. rewrite Hl4, Hlog2, <- !app_assoc. reflexivity.
      * intros w4 (Hw4 & Hc4 & Hex & pre & x & post & Hit & Hpre & Hfx & Hfull & Hl4).
        split; [exact Hw4|]. split; [exact Hc4|]. split.
        { rewrite l_extend_cons_ok; [exact Hex | exact Hlen]. }
        exists (k :: pre), x, post. split; [rewrite Hit; reflexivity|]. split.
        { cbn [unit_items List.map]. fold (unit_items pre). rewrite l_extend_cons_ok; [exact Hpre | exact Hlen]. }
        split; [exact Hfx|]. split; [exact Hfull|].
        cbn [s_ext_evs]. rewrite Hl4, Hlog2, <- !app_assoc. reflexivity.
    + intros w2 (Hs2 & Hlg2 & Hf & Hfull). rewrite Hs1 in Hf, Hfull.
      eapply wp_mono; [apply (unwind_pairs_lawful E) | | intros ? []]; cbn beta.
      intros _ w3 [Hs3 Hlg3]. rewrite Hs3, Hs2, Hs1.
      split; [exact Hw|]. split; [reflexivity|]. split.
      { apply l_extend_cons_full; [exact Hf|]. rewrite (elems_length _ Hw). lia. }
      exists [], k, rest. split; [reflexivity|]. split; [reflexivity|]. split; [exact Hf|].
      split; [rewrite (elems_length _ Hw); exact Hfull|].
      unfold logged in Hlg2, Hlg3. rewrite Hlg3, Hlg2, Hl1. cbn [s_ext_evs app]. unfold arg_drops. cbn [fst snd].
      rewrite <- !app_assoc. reflexivity.
Qed.

Lemma s_extend_loop_overflow_panics nx items (w : world) :
  (forall s, fst (nx s) <> Boom) -> WF (self w) ->
  l_extend ck (cap (self w)) (elems (self w)) (unit_items items) = None ->
  exists w' pre x post,
    s_extend_loop E debug nx items w = Panic w' /\
    WF (self w') /\ cap (self w') = cap (self w) /\
    items = pre ++ x :: post /\
    l_extend ck (cap (self w)) (elems (self w)) (unit_items pre) = Some (elems (self w')) /\
    find_idx ck (ck x) (elems (self w')) = None /\
    length (elems (self w')) = cap (self w) /\
    log w' = log w ++ s_ext_evs (elems (self w)) pre ++ [EvCall 1] ++
                      arg_drops E (x, tt) ++ flat_map (pair_drops E) (unit_items post).
Proof.
  intros Hnx Hw Hov.
  destruct (wp_must_panic _ _ _ _ (s_extend_loop_overflow nx items Hnx w Hw))
    as (w' & He & Hw' & Hc' & _ & pre & x & post & H).
  - intros _ w' (_ & _ & Hex & _). congruence.
  - exists w', pre, x, post. split; [exact He|]. split; [exact Hw'|]. split; [exact Hc'|]. exact H.
Qed.

Lemma s_from_iter_overflow nx items (w : world) :
  (forall s, fst (nx s) <> Boom) -> WF (self w) -> len (self w) = 0 ->
  wp (s_from_iter E debug nx items)
     (fun _ w' => WF (self w') /\ cap (self w') = cap (self w) /\
                  l_extend ck (cap (self w)) [] (unit_items items) = Some (elems (self w')) /\
                  log w' = log w ++ s_ext_evs [] items ++ [EvCall 1])
     (fun w' => l_extend ck (cap (self w)) [] (unit_items items) = None /\
                exists pre x post res,
                  items = pre ++ x :: post /\
                  l_extend ck (cap (self w)) [] (unit_items pre) = Some res /\
                  find_idx ck (ck x) res = None /\
                  length res = cap (self w) /\
                  log w' = log w ++ s_ext_evs [] pre ++ [EvCall 1] ++
                                    arg_drops E (x, tt) ++ flat_map (pair_drops E) (unit_items post) ++
                                    flat_map (pair_drops E) res) w.
Proof.
  intros Hnx Hw Hlen. unfold s_from_iter. apply (wp_finally_drop_log E).
  assert (He : elems (self w) = []) by (unfold elems; rewrite Hlen; reflexivity).
  eapply wp_mono; [apply (s_extend_loop_overflow nx items Hnx w Hw) | |]; cbn beta; rewrite He.
  - intros _ w' H. exact H.
  - intros w' (Hw' & _ & Hov & pre & x & post & Hit & Hpre & Hfx & Hfull & Hl).
    split; [exact Hw'|]. intros w'' Hl''. split; [exact Hov|].
    exists pre, x, post, (elems (self w')). split; [exact Hit|]. split; [exact Hpre|].
    split; [exact Hfx|]. split; [exact Hfull|].
    rewrite Hl'', Hl, <- !app_assoc. reflexivity.
Qed.

Lemma s_extend_loop_full_pulls nx items :
  (forall s, fst (nx s) <> Boom) -> forall w : world, WF (self w) ->
  wp (s_extend_loop E debug nx items)
     (fun _ w' => WF (self w') /\ cap (self w') = cap (self w) /\
                  l_extend ck (cap (self w)) (elems (self w)) (unit_items items) = Some (elems (self w')) /\
                  exists evs, log w' = log w ++ evs /\
                              length (filter is_pull evs) = S (length items))
     (fun w' => WF (self w') /\ cap (self w') = cap (self w) /\
                l_extend ck (cap (self w)) (elems (self w)) (unit_items items) = None /\
                exists pre x post evs,
                  items = pre ++ x :: post /\
                  l_extend ck (cap (self w)) (elems (self w)) (unit_items pre) = Some (elems (self w')) /\
                  log w' = log w ++ evs /\
                  length (filter is_pull evs) = S (length pre)) w.
Proof.
  intros Hnx w Hw. eapply wp_mono; [apply (s_extend_loop_overflow nx items Hnx w Hw) | |]; cbn beta.
  - intros _ w' (Hw' & Hc' & Hex & Hl). split; [exact Hw'|]. split; [exact Hc'|]. split; [exact Hex|].
    eexists. split; [exact Hl|]. rewrite filter_app, app_length, pulls_s_ext_evs. cbn. lia.
  - intros w' (Hw' & Hc' & Hov & pre & x & post & Hit & Hpre & _ & _ & Hl).
    split; [exact Hw'|]. split; [exact Hc'|]. split; [exact Hov|].
    exists pre, x, post. eexists. split; [exact Hit|]. split; [exact Hpre|]. split; [exact Hl|].
    rewrite !filter_app, !app_length, pulls_s_ext_evs, nopull_arg_drops, nopull_flat_drops. cbn. lia.
Qed.

(* the Set twin of Bulk.from_iter_pulled_once (no [len = 0] premise needed) *)
Lemma s_from_iter_pulled_once nx items (w : world) :
  (forall s, fst (nx s) <> Boom) -> WF (self w) ->
  wp (s_from_iter E debug nx items)
     (fun _ w' => exists evs, log w' = log w ++ evs /\
                              length (filter is_pull evs) = S (length items))
     (fun _ => True) w.
Proof.
  intros Hnx Hw. unfold s_from_iter. apply wp_finally_drop.
  eapply wp_mono; [apply (s_extend_loop_full E debug ck cq HL nx items Hnx w Hw) | |]; cbn beta.
  - intros _ w' (_ & _ & _ & H). exact H.
  - intros w' (H & _). exact H.
Qed.

(* and with the count on the overflow exit as well *)
Lemma s_from_iter_full_pulls nx items (w : world) :
  (forall s, fst (nx s) <> Boom) -> WF (self w) -> len (self w) = 0 ->
  wp (s_from_iter E debug nx items)
     (fun _ w' => exists evs, log w' = log w ++ evs /\ length (filter is_pull evs) = S (length items))
     (fun w' => exists pre x post res evs,
                  items = pre ++ x :: post /\
                  l_extend ck (cap (self w)) [] (unit_items pre) = Some res /\
                  log w' = log w ++ evs /\
                  length (filter is_pull evs) = S (length pre)) w.
Proof.
  intros Hnx Hw Hlen. eapply wp_mono; [apply (s_from_iter_overflow nx items w Hnx Hw Hlen) | |]; cbn beta.
  - intros _ w' (_ & _ & _ & Hl). eexists. split; [exact Hl|].
    rewrite filter_app, app_length, pulls_s_ext_evs. cbn. lia.
  - intros w' (_ & pre & x & post & res & Hit & Hpre & _ & _ & Hl).
    exists pre, x, post, res. eexists. split; [exact Hit|]. split; [exact Hpre|]. split; [exact Hl|].
    rewrite !filter_app, !app_length, pulls_s_ext_evs, nopull_arg_drops, !nopull_flat_drops. cbn. lia.
Qed.

End SetBulkExact.

(* ======================================================================== *)
(* ROUND 2                                                                   *)
(* ======================================================================== *)

(* ------------------------------------------------------------------------ *)
(* 4. collect / From: the panic stated positively; arrays cannot overflow    *)
(* ------------------------------------------------------------------------ *)
Lemma nodup_length_le {A} (dec : forall x y : A, {x = y} + {x <> y}) (l : list A) :
  length (nodup dec l) <= length l.
Proof.
  induction l as [|a t IH]; [reflexivity|]. cbn [nodup length].
  destruct (in_dec dec a t); cbn [length]; lia.
Qed.

Section CollectPanics.
Context {K V Q T : Type} (E : env K V Q T) (debug : bool).
Context (ck : K -> N) (cq : Q -> N) (HL : Lawful E ck cq).
Notation world := (world K V T).
Notation kv := (K * V)%type.

(* FromIterator / From<[(K,V); N]>: when the list machine overflows the run IS
   a panic (both builds), with the exact log of from_iter_overflow *)
Lemma from_iter_overflow_panics nx items (w : world) :
  (forall s, fst (nx s) <> Boom) -> WF (self w) -> len (self w) = 0 ->
  l_extend ck (cap (self w)) [] items = None ->
  exists w' pre x post res,
    from_iter E debug nx items w = Panic w' /\
    items = pre ++ x :: post /\
    l_extend ck (cap (self w)) [] pre = Some res /\
    find_idx ck (ck (fst x)) res = None /\
    length res = cap (self w) /\
    log w' = log w ++ ext_evs E ck [] pre ++ [EvCall 1] ++
                      arg_drops E x ++ flat_map (pair_drops E) post ++ flat_map (pair_drops E) res.
Proof.
  intros Hnx Hw Hlen Hov.
  destruct (wp_must_panic _ _ _ _ (from_iter_overflow E debug ck cq HL nx items w Hnx Hw Hlen))
    as (w' & He & _ & pre & x & post & res & H).
  - intros _ w' (_ & _ & Hex & _). congruence.
  - exists w', pre, x, post, res. split; [exact He | exact H].
Qed.

(* a source of at most N items cannot overflow a container of capacity N: an
   array [(K,V); N] collected into Map<K,V,N> never panics (lawful ==/Drop) *)
Lemma l_extend_fits (n : nat) (items : list kv) :
  length items <= n -> l_extend ck n [] items <> None.
Proof.
  intros Hn Hov. apply (bulk_overflow ck n items) in Hov.
  pose proof (nodup_length_le N.eq_dec (List.map (fun p : kv => ck (fst p)) items)) as Hle.
  rewrite map_length in Hle. lia.
Qed.

Lemma from_iter_no_overflow nx items (w : world) :
  WF (self w) -> len (self w) = 0 -> length items <= cap (self w) ->
  (forall s, fst (nx s) <> Boom) ->
  wp (from_iter E debug nx items)
     (fun _ w' => WF (self w') /\ cap (self w') = cap (self w) /\
                  l_extend ck (cap (self w)) [] items = Some (elems (self w')) /\
                  log w' = log w ++ ext_evs E ck [] items ++ [EvCall 1])
     (fun _ => False) w.
Proof.
  intros Hw Hlen Hfit Hnx.
  eapply wp_mono; [apply (from_iter_overflow E debug ck cq HL nx items w Hnx Hw Hlen) | |]; cbn beta.
  - intros _ w' H. exact H.
  - intros w' (Hov & _). exact (l_extend_fits _ _ Hfit Hov).
Qed.

Lemma from_iter_no_overflow_returns nx items (w : world) :
  WF (self w) -> len (self w) = 0 -> length items <= cap (self w) ->
  (forall s, fst (nx s) <> Boom) ->
  exists w', from_iter E debug nx items w = Ok tt w' /\
             WF (self w') /\ cap (self w') = cap (self w) /\
             l_extend ck (cap (self w)) [] items = Some (elems (self w')).
Proof.
  intros Hw Hlen Hfit Hnx.
  destruct (wp_must_return _ _ _ (from_iter_no_overflow nx items w Hw Hlen Hfit Hnx)) as ([] & w' & He & H1 & H2 & H3 & _).
  exists w'. auto.
Qed.

End CollectPanics.

Section SetCollectPanics.
Context {K Q T : Type} (E : env K unit Q T) (debug : bool).
Context (ck : K -> N) (cq : Q -> N) (HL : Lawful E ck cq).
Notation world := (world K unit T).

Lemma s_from_iter_overflow_panics nx items (w : world) :
  (forall s, fst (nx s) <> Boom) -> WF (self w) -> len (self w) = 0 ->
  l_extend ck (cap (self w)) [] (unit_items items) = None ->
  exists w' pre x post res,
    s_from_iter E debug nx items w = Panic w' /\
    items = pre ++ x :: post /\
    l_extend ck (cap (self w)) [] (unit_items pre) = Some res /\
    find_idx ck (ck x) res = None /\
    length res = cap (self w) /\
    log w' = log w ++ s_ext_evs E ck [] pre ++ [EvCall 1] ++
                      arg_drops E (x, tt) ++ flat_map (pair_drops E) (unit_items post) ++
                      flat_map (pair_drops E) res.
Proof.
  intros Hnx Hw Hlen Hov.
  destruct (wp_must_panic _ _ _ _ (s_from_iter_overflow E debug ck cq HL nx items w Hnx Hw Hlen))
    as (w' & He & _ & pre & x & post & res & H).
  - intros _ w' (_ & _ & Hex & _). congruence.
  - exists w', pre, x, post, res. split; [exact He | exact H].
Qed.

Lemma s_from_iter_no_overflow nx items (w : world) :
  WF (self w) -> len (self w) = 0 -> length items <= cap (self w) ->
  (forall s, fst (nx s) <> Boom) ->
  wp (s_from_iter E debug nx items)
     (fun _ w' => WF (self w') /\ cap (self w') = cap (self w) /\
                  l_extend ck (cap (self w)) [] (unit_items items) = Some (elems (self w')) /\
                  log w' = log w ++ s_ext_evs E ck [] items ++ [EvCall 1])
     (fun _ => False) w.
Proof.
  intros Hw Hlen Hfit Hnx.
  eapply wp_mono; [apply (s_from_iter_overflow E debug ck cq HL nx items w Hnx Hw Hlen) | |]; cbn beta.
  - intros _ w' H. exact H.
  - intros w' (Hov & _). apply (l_extend_fits ck (cap (self w)) (unit_items items)); [|exact Hov].
    unfold unit_items. rewrite map_length. exact Hfit.
Qed.

End SetCollectPanics.

(* ------------------------------------------------------------------------ *)
(* 5. or_default as the interpreter runs it                                   *)
(* ------------------------------------------------------------------------ *)
(* The model has no separate [or_default]: Entry::or_default() is
   or_insert_with(Default::default), and the interpreter (Model/Exec.v,
   entry_chain, chain 3) runs  or_insert_with Em debug e (mk_default sc).
   [d_default] is the default-maker inside mk_default: it ticks the closure
   counter and builds a fresh object (id next_id, payload 0).  Unless the script
   makes this very call panic (fault kind 4), mk_default sc is mk_of (d_default sc). *)
Require Import Model.Exec.

Definition d_default (sc : script) (s : cstate) : vobj * cstate :=
  let s' := snd (call_tick sc s) in
  ({| vid := next_id s'; vdat := 0 |},
   {| n_eq := n_eq s'; n_clone := n_clone s'; n_call := n_call s'; next_id := next_id s' + 1 |}).

Lemma mk_default_is_mk_of sc :
  sc_fk sc <> 4%N -> forall s, mk_default sc s = mk_of (d_default sc) s.
Proof.
  intros Hk s. unfold mk_default, mk_of, d_default, call_tick. cbn [fst snd].
  destruct (N.eqb_spec (sc_fk sc) 4) as [Heq|_]; [contradiction|]. reflexivity.
Qed.

Lemma or_default_exec_full_panics (E : env key vobj query cstate) (debug : bool)
      (ck : key -> N) (cq : query -> N) (HL : Lawful E ck cq) (sc : script) k (w : world key vobj cstate) :
  sc_fk sc <> 4%N ->
  WF (self w) -> find_idx ck (ck k) (Spec.elems (self w)) = None -> len (self w) = cap (self w) ->
  exists w1 w',
    entry_of E k w = Ok (Vacant k) w1 /\ self w1 = self w /\ log w1 = log w /\
    (e <- entry_of E k ;; or_insert_with E debug e (mk_default sc)) w = Panic w' /\ self w' = self w /\
    logged w w' ([EvCall 2] ++ ev_drops (idV E (fst (d_default sc (cb w1))) ++ idK E k)).
Proof.
  intros Hk Hw Hf Hfull.
  destruct (or_insert_with_full_panics E debug ck cq HL k (mk_default sc) w Hw Hf Hfull)
    as (w1 & v & s' & w' & He & Hs1 & Hl1 & Hfv & Hr & Hs & Hl).
  { intros s. rewrite (mk_default_is_mk_of sc Hk). eexists. eexists. reflexivity. }
  rewrite (mk_default_is_mk_of sc Hk) in Hfv. unfold mk_of in Hfv. injection Hfv as <- <-.
  exists w1, w'. repeat (split; [assumption|]). exact Hl.
Qed.
