#!/bin/bash
# regress_seeded.sh [ids...]: apply every seeded change in turn to /repo, run the quick check of its property,
# record whether it is reported, undo it.  Results: out/seeded_regression.tsv.  (Overwrites evidence/: rerun the
# quick checks on the unchanged tree afterwards.)
cd "$(dirname "$0")/.."
mkdir -p out
ids=${@:-$(ls seeded)}
git -C /repo status --short | grep -v '^??' | grep -q . && { echo "/repo is dirty"; exit 2; }
: > out/seeded_regression.tsv
for id in $ids; do
  prop=${id:0:3}
  git -C /repo apply "$PWD/seeded/$id/patch.diff" || { echo -e "$id\t$prop\tPATCH-DOES-NOT-APPLY" >> out/seeded_regression.tsv; continue; }
  res=$(./check quick $prop 2>&1 | grep -E "quick:|VIOLATION" | tr '\n' ' ' | cut -c1-400)
  git -C /repo checkout -- . ; git -C /repo clean -fdq src 2>/dev/null
  if echo "$res" | grep -q VIOLATION; then v=CAUGHT; else v=MISSED; fi
  if echo "$res" | grep -q "no-failing-input-found" && ! echo "$res" | grep -q "\.case "; then v="$v(no-input)"; fi
  echo -e "$id\t$prop\t$v\t$(echo "$res" | sed 's/.*\(C[0-9][0-9] quick:.*\)/\1/' | cut -c1-160)" >> out/seeded_regression.tsv
done
echo done >> out/seeded_regression.tsv
