(* driver.ml — reads cases (one per line: integer tokens, segments separated by
   ';'), runs the extracted model, prints one line per observation:
   "<case-index> <op-index> tok tok ..." *)
open Model

let rec pos_of_int (n : int) : positive =
  if n = 1 then XH
  else if n land 1 = 0 then XO (pos_of_int (n lsr 1))
  else XI (pos_of_int (n lsr 1))
let n_of_int (n : int) : n = if n = 0 then N0 else Npos (pos_of_int n)
let rec int_of_pos = function
  | XH -> 1
  | XO p -> 2 * int_of_pos p
  | XI p -> 2 * int_of_pos p + 1
let int_of_n = function N0 -> 0 | Npos p -> int_of_pos p

let parse_line (s : string) : n list list =
  String.split_on_char ';' s
  |> List.map (fun seg ->
         String.split_on_char ' ' seg
         |> List.filter (fun t -> t <> "")
         |> List.map (fun t -> n_of_int (int_of_string t)))

let () =
  let debug = Sys.argv.(1) = "1" in
  let ic = if Array.length Sys.argv > 2 then open_in Sys.argv.(2) else stdin in
  let buf = Buffer.create 65536 in
  let idx = ref 0 in
  (try
     while true do
       let line = input_line ic in
       if String.length line > 0 && line.[0] <> '#' then begin
         let segs = parse_line line in
         let obs = run_case debug segs in
         List.iteri
           (fun j o ->
             Buffer.add_string buf (string_of_int !idx);
             Buffer.add_char buf ' ';
             Buffer.add_string buf (string_of_int j);
             List.iter
               (fun t ->
                 Buffer.add_char buf ' ';
                 Buffer.add_string buf (string_of_int (int_of_n t)))
               o;
             Buffer.add_char buf '\n')
           obs;
         incr idx;
         if Buffer.length buf > 60000 then begin
           print_string (Buffer.contents buf);
           Buffer.clear buf
         end
       end
     done
   with End_of_file -> ());
  print_string (Buffer.contents buf)
