#!/bin/bash
# confirm_mut.sh <ID> [tag]: confirm a seeded change in its scratch worktree /tmp/mut/<ID> and store it under /verif/seeded/<tag or ID>/
id=$1; tag=${2:-$1}; wt=/tmp/mut/$id; out=/tmp/mut/$id-out
export CARGO_TARGET_DIR=/tmp/mut/target-confirm CARGO_NET_OFFLINE=true
rel=""; grep -q '"release_only": *true' $out/meta.json && rel="--release"
cd $wt || exit 2
git checkout -q -- . ; rm -f tests/demo_$id.rs
git apply $out/patch.diff || { echo "PATCH DOES NOT APPLY"; exit 1; }
t1=$(cargo test --offline 2>&1 | grep -E "^test result" | head -3 | tr '\n' ' ')
cp $out/demo.rs tests/demo_$id.rs
d1=$(cargo test --offline $rel --test demo_$id 2>&1 | grep -E "^test result|error\[" | head -2 | tr '\n' ' ')
git apply -R $out/patch.diff
d0=$(cargo test --offline $rel --test demo_$id 2>&1 | grep -E "^test result|error\[" | head -2 | tr '\n' ' ')
rm -f tests/demo_$id.rs
echo "existing tests with change: $t1"
echo "demo with change   : $d1"
echo "demo without change: $d0"
mkdir -p /verif/seeded/$tag && cp $out/patch.diff /verif/seeded/$tag/patch.diff && cp $out/demo.rs /verif/seeded/$tag/demo.rs && cp $out/meta.json /verif/seeded/$tag/meta.agent.json
