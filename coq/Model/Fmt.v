(* Fmt.v — src/debug.rs, src/display.rs, src/set/debug.rs, src/set/display.rs and
   the Debug impls of the iterators.  Strings are lists of character codes.
   [dbg_list]/[dbg_set]/[dbg_map]/[dbg_tuple] model core::fmt's
   DebugList/DebugSet/DebugMap/DebugTuple builders in plain and {:#?} form:
   that part is a model of std (validated by the correspondence check), not of
   micromap.  DEFINITIONS ONLY. *)
Require Import Model.Base.

Definition str := list N.

Definition ch_lbrace : N := 123.  Definition ch_rbrace : N := 125.
Definition ch_lbrack : N := 91.   Definition ch_rbrack : N := 93.
Definition ch_lpar : N := 40.     Definition ch_rpar : N := 41.
Definition ch_comma : N := 44.    Definition ch_space : N := 32.
Definition ch_colon : N := 58.    Definition ch_nl : N := 10.

Definition s_comma_sp : str := [ch_comma; ch_space].
Definition s_colon_sp : str := [ch_colon; ch_space].
Definition s_comma_nl : str := [ch_comma; ch_nl].
Definition s_indent : str := [ch_space; ch_space; ch_space; ch_space].

(* PadAdapter: four spaces at the start of every line written through it *)
Fixpoint pad_from (at_line_start : bool) (s : str) : str :=
  match s with
  | [] => []
  | c :: s' =>
      (if at_line_start then s_indent else []) ++
      c :: pad_from (N.eqb c ch_nl) s'
  end.
Definition pad (s : str) : str := pad_from true s.

Fixpoint join (sep : str) (l : list str) : str :=
  match l with
  | [] => []
  | [x] => x
  | x :: l' => x ++ sep ++ join sep l'
  end.

(* DebugList / DebugSet / DebugTuple share DebugInner *)
Definition dbg_seq (open close : N) (alt : bool) (items : list str) : str :=
  match items with
  | [] => [open; close]
  | _ =>
      if alt then
        [open; ch_nl] ++ concat (List.map (fun s => pad (s ++ s_comma_nl)) items) ++ [close]
      else
        [open] ++ join s_comma_sp items ++ [close]
  end.
Definition dbg_list := dbg_seq ch_lbrack ch_rbrack.
Definition dbg_set := dbg_seq ch_lbrace ch_rbrace.
(* a 2-tuple's Debug (never empty) *)
Definition dbg_tuple (alt : bool) (a b : str) : str := dbg_seq ch_lpar ch_rpar alt [a; b].

Definition dbg_map (alt : bool) (items : list (str * str)) : str :=
  match items with
  | [] => [ch_lbrace; ch_rbrace]
  | _ =>
      if alt then
        [ch_lbrace; ch_nl] ++
        concat (List.map (fun kv => pad (fst kv ++ s_colon_sp ++ snd kv ++ s_comma_nl)) items) ++
        [ch_rbrace]
      else
        [ch_lbrace] ++
        join s_comma_sp (List.map (fun kv => fst kv ++ s_colon_sp ++ snd kv) items) ++
        [ch_rbrace]
  end.

Section Display.
Context {K V : Type} (dispK : K -> str) (dispV : V -> str).

(* src/display.rs:9-24: '{', first entry, then ", "-prefixed rest, '}' *)
Definition display_map (l : list (K * V)) : str :=
  [ch_lbrace] ++
  match l with
  | [] => []
  | (k, v) :: rest =>
      (dispK k ++ s_colon_sp ++ dispV v) ++
      concat (List.map (fun p => s_comma_sp ++ dispK (fst p) ++ s_colon_sp ++ dispV (snd p)) rest)
  end ++ [ch_rbrace].

(* src/set/display.rs:7-22: a [first] flag *)
Fixpoint display_set_loop (first : bool) (l : list K) : str :=
  match l with
  | [] => []
  | k :: rest => (if first then [] else s_comma_sp) ++ dispK k ++ display_set_loop false rest
  end.
Definition display_set (l : list K) : str :=
  [ch_lbrace] ++ display_set_loop true l ++ [ch_rbrace].

End Display.

Section Debug.
Context {K V : Type} (dbgK : K -> str) (dbgV : V -> str).

(* src/debug.rs: f.debug_map().entries(self.iter()).finish() *)
Definition debug_map (alt : bool) (l : list (K * V)) : str :=
  dbg_map alt (List.map (fun p => (dbgK (fst p), dbgV (snd p))) l).
(* src/set/debug.rs: f.debug_set().entries(self.iter()).finish() *)
Definition debug_set (alt : bool) (l : list K) : str :=
  dbg_set alt (List.map dbgK l).
(* Iter / IterMut / Drain / IntoIter: debug_list of (&K,&V) tuples *)
Definition debug_pairs (alt : bool) (l : list (K * V)) : str :=
  dbg_list alt (List.map (fun p => dbg_tuple alt (dbgK (fst p)) (dbgV (snd p))) l).
(* Keys / IntoKeys / SetIter-based adaptors: debug_list of keys *)
Definition debug_keys (alt : bool) (l : list K) : str := dbg_list alt (List.map dbgK l).
Definition debug_values (alt : bool) (l : list V) : str := dbg_list alt (List.map dbgV l).

End Debug.

(* decimal rendering of a number *)
Fixpoint dec_fuel (fuel : nat) (n : N) (acc : str) : str :=
  match fuel with
  | 0 => acc
  | S f =>
      let d := (48 + N.modulo n 10)%N in
      let q := N.div n 10 in
      if N.eqb q 0 then d :: acc else dec_fuel f q (d :: acc)
  end.
Definition dec (n : N) : str := dec_fuel 25 n [].
