(* ========================================================================
   C11  Entry API is equivalent to the corresponding direct map operations

   STATEMENT (properties.jsonl):
     "entry(k) is Occupied exactly when k is present; or_insert,
      or_insert_with, or_insert_with_key and or_default insert only when vacant
      (running their closure exactly once and only then) and return a reference
      to the entry's current value, while and_modify runs its closure only when
      occupied. OccupiedEntry key/get/get_mut/insert/remove/remove_entry/
      into_mut and VacantEntry key/into_key/insert have the same results and
      effects as the direct map operations on that key and touch no other
      entry."
   QUANTIFIER:
     "every reachable map state x every key (present or absent) x every entry
      method chain"

   VOCABULARY
     Spec.elems m          the stored pairs of m in slot order.
     find_idx ck c l       index of the first pair of l whose key has class c
                           (= the slot the linear scan finds), None when absent.
     l_insert / l_remove / swap_remove   the list machine of Proofs/Spec.v: what
                           Map::insert / Map::remove do to the content (proved for
                           the direct operations in Lawful2/Lawful3, C01/C03).
     entry                 Occupied i (index of the slot found) | Vacant k (owns
                           the supplied key).
     A "reference" returned by the API is modelled by the SLOT INDEX it points
     into (or_insert... return nat; entry_key returns inl slot | inr key).
     logged w w' evs       log w' = log w ++ evs.  ev_drops ids = one EvDrop per
                           identity; EvCall 2 = a value-producing closure was
                           called, EvCall 3 = an and_modify closure was called.
     stable w w'           self and log unchanged.
     All theorems assume `Lawful E ck cq` (== is class equality and never
     panics; Drop never panics) unless they have no E at all.

   READING GUIDE (clause -> theorem)
   * "entry(k) is Occupied exactly when k is present":
       C11_entry_of_lawful   Occupied i iff find_idx = Some i (the supplied key is
                             then destroyed: the entry does not keep it), Vacant k
                             iff absent; container untouched either way.
   * "or_insert / or_insert_with / or_insert_with_key / or_default insert only
     when vacant, run their closure exactly once and only then, return a
     reference to the entry's current value":
       C11_or_insert_lawful            present -> returns the slot found, container
                                       unchanged, the unused key and default destroyed;
                                       absent -> (k,v) appended, returns the new slot
       C11_or_insert_with_lawful       present -> NO EvCall (closure not run);
       C11_or_insert_with_key_lawful   absent -> exactly one EvCall 2, (k, its result)
                                       appended, new slot returned
       (or_default is or_insert_with(Default::default) in the crate and the model.)
       C11_or_insert_keeps_key         on an occupied entry the stored pair (hence the
                                       stored key object) is exactly what it was
       panic clauses: only "map full and key absent" panics; the container is
                                       unchanged and the rejected key and value (for
                                       or_insert_with*: the value the closure just made,
                                       after its one EvCall 2) are destroyed exactly once
                                       by unwinding: logged w w' (ev_drops (idK E k ++ idV E v)).
   * "and_modify runs its closure only when occupied":
       C11_and_modify_lawful  present -> exactly one EvCall 3, value of that slot
                              becomes g v0, key kept, all other entries untouched;
                              absent -> nothing happens (no EvCall), still Vacant k.
   * "OccupiedEntry insert / remove / remove_entry ... same results and effects as
     the direct map operations, touch no other entry":
       C11_occ_insert_lawful + C11_occ_insert_is_insert
                              occ_insert returns the old value and replaces only
                              the value of slot i = the content l_insert (i.e.
                              Map::insert) computes for a present key
       C11_occ_remove_entry_lawful, C11_occ_remove_lawful + C11_occ_remove_is_remove
                              swap-remove of slot i, returning its pair / its value
                              (key destroyed) = the content and result l_remove
                              (i.e. Map::remove_entry / remove) computes
   * "OccupiedEntry key / VacantEntry key, into_key":
       C11_entry_key_lawful   Occupied -> the slot of the STORED key; Vacant -> the
                              supplied key itself.
   * "OccupiedEntry key / get / get_mut / into_mut":
       C11_occ_get_lawful, C11_occ_get_mut_lawful, C11_occ_key_lawful,
       C11_occ_into_mut_lawful   return slot i, the whole world unchanged
       C11_entry_get_lawful, C11_entry_get_mut_lawful
                              entry(k) then get / get_mut = the slot find_idx
                              finds (= what Map::get / get_mut return), None when
                              vacant; container unchanged
   * "VacantEntry insert":
       C11_vac_insert_lawful  appends (k,v) at index len, returns that slot; panics
                              iff the map is full: container unchanged, the rejected
                              k and v destroyed once by unwinding (EvDrop events).

   PARTLY / NOT COVERED BY A THEOREM (left to the correspondence check)
   * OccupiedEntry::get / get_mut / key / into_mut: CLOSED by C11_occ_get_lawful
     ... C11_entry_get_mut_lawful.  In the model the four are the same text
     `_ <- p_ref i ;; ret i`; that get returns &V, get_mut / into_mut &mut V and
     key &K of that slot (which projection, which lifetime) is not visible in the
     model and is left to the harness (Exec.entry_chain).
   * The closure hypotheses: C11_or_insert_with*_lawful assume the closure does
     not panic, C11_and_modify_lawful that it does not panic and computes a pure
     function g of the old value.  Panicking closures are covered for safety only
     (Safety3.or_insert_with_spec, and_modify_spec: C04).
   * "every entry method chain": the theorems cover entry(k) followed by ONE
     method (and and_modify returns the entry so that a chain can continue from
     the stated e'); arbitrary chains are exercised by the harness
     (Exec.entry_chain).
   * the equivalence with the direct operation is stated through the list
     machine (l_insert, l_remove); that Map::insert/remove compute l_insert /
     l_remove is Lawful3.insert_lawful / remove_lawful (C01, C03).
   ======================================================================== *)
Require Import Model.Base Model.Slots Model.MapOps Model.EntryOps Model.Exec.
Require Import Proofs.Hoare Proofs.Inv Proofs.Spec Proofs.Lawful Proofs.EntrySpec
               Proofs.FmtSerde Proofs.Legacy Proofs.Gaps.

Theorem C11_entry_of_lawful :
  forall (K V Q T : Type) (E : env K V Q T) (ck : K -> N) (cq : Q -> N) (HL : Lawful E ck cq)
         (k : K) (w : world K V T),
    WF (self w) ->
    wp (entry_of E k)
       (fun (e : @entry K) (w' : world K V T) =>
          self w' = self w /\
          match find_idx ck (ck k) (Spec.elems (self w)) with
          | Some i => e = Occupied i /\ logged w w' (ev_drops (idK E k))
          | None => e = Vacant k /\ log w' = log w
          end)
       (fun _ : world K V T => False) w.
Proof. exact (fun K V Q T E ck cq HL => entry_of_lawful E ck cq HL). Qed.
Print Assumptions C11_entry_of_lawful.

Theorem C11_occ_insert_lawful :
  forall (K V T : Type) (i : nat) (v : V) (w : world K V T),
    WF (self w) ->
    forall (k0 : K) (v0 : V),
      nth_error (Spec.elems (self w)) i = Some (k0, v0) ->
      wp (occ_insert i v)
         (fun (r : V) (w' : world K V T) =>
            WF (self w') /\ cap (self w') = cap (self w) /\ log w' = log w /\ r = v0 /\
            Spec.elems (self w') = upd (Spec.elems (self w)) i (k0, v))
         (fun _ : world K V T => False) w.
Proof. exact (fun K V T => @occ_insert_lawful K V T). Qed.
Print Assumptions C11_occ_insert_lawful.

Theorem C11_occ_insert_is_insert :
  forall (K V : Type) (ck : K -> N) (l : list (K * V)) (k : K) (v : V) (i : nat) (k0 : K) (v0 : V),
    find_idx ck (ck k) l = Some i ->
    nth_error l i = Some (k0, v0) ->
    fst (fst (l_insert ck l k v false)) = upd l i (k0, v) /\
    snd (l_insert ck l k v false) = Some (k, v0).
Proof. exact (fun K V => @occ_insert_is_insert K V). Qed.
Print Assumptions C11_occ_insert_is_insert.

Theorem C11_occ_remove_entry_lawful :
  forall (K V T : Type) (debug : bool) (i : nat) (w : world K V T),
    WF (self w) -> i < len (self w) ->
    wp (occ_remove_entry debug i)
       (fun (p : K * V) (w' : world K V T) =>
          WF (self w') /\ cap (self w') = cap (self w) /\ log w' = log w /\
          nth_error (Spec.elems (self w)) i = Some p /\
          Spec.elems (self w') = swap_remove (Spec.elems (self w)) i)
       (fun _ : world K V T => False) w.
Proof. exact (fun K V T => @occ_remove_entry_lawful K V T). Qed.
Print Assumptions C11_occ_remove_entry_lawful.

Theorem C11_occ_remove_lawful :
  forall (K V Q T : Type) (E : env K V Q T) (debug : bool) (ck : K -> N) (cq : Q -> N)
         (HL : Lawful E ck cq) (i : nat) (w : world K V T),
    WF (self w) -> i < len (self w) ->
    wp (occ_remove E debug i)
       (fun (v : V) (w' : world K V T) =>
          WF (self w') /\ cap (self w') = cap (self w) /\
          exists k0 : K,
            nth_error (Spec.elems (self w)) i = Some (k0, v) /\
            Spec.elems (self w') = swap_remove (Spec.elems (self w)) i /\
            logged w w' (ev_drops (idK E k0)))
       (fun _ : world K V T => False) w.
Proof. exact (fun K V Q T E debug ck cq HL => occ_remove_lawful E debug ck cq HL). Qed.
Print Assumptions C11_occ_remove_lawful.

Theorem C11_occ_remove_is_remove :
  forall (K V : Type) (ck : K -> N) (l : list (K * V)) (c : N) (i : nat),
    find_idx ck c l = Some i -> l_remove ck l c = (swap_remove l i, nth_error l i).
Proof. exact (fun K V => @occ_remove_is_remove K V). Qed.
Print Assumptions C11_occ_remove_is_remove.

Theorem C11_vac_insert_lawful :
  forall (K V Q T : Type) (E : env K V Q T) (debug : bool) (ck : K -> N) (cq : Q -> N)
         (HL : Lawful E ck cq) (k : K) (v : V) (w : world K V T),
    WF (self w) ->
    find_idx ck (ck k) (Spec.elems (self w)) = None ->
    wp (vac_insert E debug k v)
       (fun (i : nat) (w' : world K V T) =>
          WF (self w') /\ cap (self w') = cap (self w) /\ log w' = log w /\
          Spec.elems (self w') = Spec.elems (self w) ++ [(k, v)] /\
          i = length (Spec.elems (self w)) /\ len (self w) < cap (self w))
       (fun w' : world K V T =>
          self w' = self w /\ logged w w' (ev_drops (idK E k ++ idV E v)) /\
          len (self w) = cap (self w)) w.
Proof. exact (fun K V Q T E debug ck cq HL => vac_insert_lawful E debug ck cq HL). Qed.
Print Assumptions C11_vac_insert_lawful.

Theorem C11_or_insert_lawful :
  forall (K V Q T : Type) (E : env K V Q T) (debug : bool) (ck : K -> N) (cq : Q -> N)
         (HL : Lawful E ck cq) (k : K) (v : V) (w : world K V T),
    WF (self w) ->
    wp (e <- entry_of E k ;; or_insert E debug e v)
       (fun (i : nat) (w' : world K V T) =>
          WF (self w') /\ cap (self w') = cap (self w) /\
          match find_idx ck (ck k) (Spec.elems (self w)) with
          | Some j => i = j /\ self w' = self w /\
                      logged w w' (ev_drops (idK E k) ++ ev_drops (idV E v))
          | None => i = length (Spec.elems (self w)) /\
                    Spec.elems (self w') = Spec.elems (self w) ++ [(k, v)] /\ log w' = log w
          end)
       (fun w' : world K V T =>
          self w' = self w /\
          logged w w' (ev_drops (idK E k ++ idV E v)) /\
          find_idx ck (ck k) (Spec.elems (self w)) = None /\ len (self w) = cap (self w)) w.
Proof. exact (fun K V Q T E debug ck cq HL => or_insert_lawful E debug ck cq HL). Qed.
Print Assumptions C11_or_insert_lawful.

Theorem C11_or_insert_with_lawful :
  forall (K V Q T : Type) (E : env K V Q T) (debug : bool) (ck : K -> N) (cq : Q -> N)
         (HL : Lawful E ck cq) (k : K) (f : T -> option V * T) (w : world K V T),
    WF (self w) ->
    (forall s : T, exists (v : V) (s' : T), f s = (Some v, s')) ->
    wp (e <- entry_of E k ;; or_insert_with E debug e f)
       (fun (i : nat) (w' : world K V T) =>
          WF (self w') /\ cap (self w') = cap (self w) /\
          match find_idx ck (ck k) (Spec.elems (self w)) with
          | Some j => i = j /\ self w' = self w /\ logged w w' (ev_drops (idK E k))
          | None => i = length (Spec.elems (self w)) /\
                    (exists v : V, Spec.elems (self w') = Spec.elems (self w) ++ [(k, v)]) /\
                    logged w w' [EvCall 2]
          end)
       (fun w' : world K V T =>
          self w' = self w /\
          (exists (v : V) (s s' : T),
              f s = (Some v, s') /\
              logged w w' ([EvCall 2] ++ ev_drops (idK E k ++ idV E v))) /\
          find_idx ck (ck k) (Spec.elems (self w)) = None /\ len (self w) = cap (self w)) w.
Proof. exact (fun K V Q T E debug ck cq HL => or_insert_with_lawful E debug ck cq HL). Qed.
Print Assumptions C11_or_insert_with_lawful.

Theorem C11_or_insert_with_key_lawful :
  forall (K V Q T : Type) (E : env K V Q T) (debug : bool) (ck : K -> N) (cq : Q -> N)
         (HL : Lawful E ck cq) (k : K) (f : K -> T -> option V * T) (w : world K V T),
    WF (self w) ->
    (forall s : T, exists (v : V) (s' : T), f k s = (Some v, s')) ->
    wp (e <- entry_of E k ;; or_insert_with_key E debug e f)
       (fun (i : nat) (w' : world K V T) =>
          WF (self w') /\ cap (self w') = cap (self w) /\
          match find_idx ck (ck k) (Spec.elems (self w)) with
          | Some j => i = j /\ self w' = self w /\ logged w w' (ev_drops (idK E k))
          | None => i = length (Spec.elems (self w)) /\
                    (exists v : V, Spec.elems (self w') = Spec.elems (self w) ++ [(k, v)]) /\
                    logged w w' [EvCall 2]
          end)
       (fun w' : world K V T =>
          self w' = self w /\
          (exists (v : V) (s s' : T),
              f k s = (Some v, s') /\
              logged w w' ([EvCall 2] ++ ev_drops (idK E k ++ idV E v))) /\
          find_idx ck (ck k) (Spec.elems (self w)) = None /\ len (self w) = cap (self w)) w.
Proof. exact (fun K V Q T E debug ck cq HL => or_insert_with_key_lawful E debug ck cq HL). Qed.
Print Assumptions C11_or_insert_with_key_lawful.

Theorem C11_and_modify_lawful :
  forall (K V Q T : Type) (E : env K V Q T) (ck : K -> N) (cq : Q -> N) (HL : Lawful E ck cq)
         (k : K) (f : @modf_t V T) (g : V -> V) (w : world K V T),
    WF (self w) ->
    (forall (s : T) (v : V), fst (f s v) = (false, g v)) ->
    wp (e <- entry_of E k ;; and_modify e f)
       (fun (e' : @entry K) (w' : world K V T) =>
          WF (self w') /\ cap (self w') = cap (self w) /\
          match find_idx ck (ck k) (Spec.elems (self w)) with
          | Some j =>
              e' = Occupied j /\
              (exists (k0 : K) (v0 : V),
                  nth_error (Spec.elems (self w)) j = Some (k0, v0) /\
                  Spec.elems (self w') = upd (Spec.elems (self w)) j (k0, g v0)) /\
              logged w w' (ev_drops (idK E k) ++ [EvCall 3])
          | None => e' = Vacant k /\ self w' = self w /\ log w' = log w
          end)
       (fun _ : world K V T => False) w.
Proof. exact (fun K V Q T E ck cq HL => and_modify_lawful E ck cq HL). Qed.
Print Assumptions C11_and_modify_lawful.

Theorem C11_entry_key_lawful :
  forall (K V Q T : Type) (E : env K V Q T) (ck : K -> N) (cq : Q -> N) (HL : Lawful E ck cq)
         (k : K) (w : world K V T),
    WF (self w) ->
    wp (e <- entry_of E k ;; entry_key e)
       (fun (r : nat + K) (w' : world K V T) =>
          self w' = self w /\
          match find_idx ck (ck k) (Spec.elems (self w)) with
          | Some j => r = inl j
          | None => r = inr k
          end)
       (fun _ : world K V T => False) w.
Proof. exact (fun K V Q T E ck cq HL => entry_key_lawful E ck cq HL). Qed.
Print Assumptions C11_entry_key_lawful.

Theorem C11_or_insert_keeps_key :
  forall (K V Q T : Type) (E : env K V Q T) (debug : bool) (ck : K -> N) (cq : Q -> N)
         (HL : Lawful E ck cq) (k : K) (v : V) (j : nat) (w : world K V T),
    WF (self w) ->
    find_idx ck (ck k) (Spec.elems (self w)) = Some j ->
    wp (e <- entry_of E k ;; or_insert E debug e v)
       (fun (i : nat) (w' : world K V T) =>
          i = j /\
          Spec.elems (self w') = Spec.elems (self w) /\
          nth_error (Spec.elems (self w')) j = nth_error (Spec.elems (self w)) j /\
          exists (k0 : K) (v0 : V),
            nth_error (Spec.elems (self w')) j = Some (k0, v0) /\ ck k0 = ck k)
       (fun _ : world K V T => False) w.
Proof. exact (fun K V Q T E debug ck cq HL => or_insert_keeps_key E debug ck cq HL). Qed.
Print Assumptions C11_or_insert_keeps_key.

(* ---------------------------------------------------------------------- *)
(* OccupiedEntry::get / get_mut / key / into_mut (Proofs/Gaps.v): each returns *)
(* (a reference into) slot i and changes NOTHING - the whole world is equal;  *)
(* no environment is involved (no user code runs)                             *)
(* ---------------------------------------------------------------------- *)

Theorem C11_occ_get_lawful :
  forall (K V T : Type) (i : nat) (w : world K V T),
    WF (self w) -> i < len (self w) ->
    wp (occ_get i)
       (fun (j : nat) (w' : world K V T) => j = i /\ w' = w)
       (fun _ : world K V T => False) w.
Proof. exact (fun K V T => @occ_get_lawful K V T). Qed.
Print Assumptions C11_occ_get_lawful.

Theorem C11_occ_get_mut_lawful :
  forall (K V T : Type) (i : nat) (w : world K V T),
    WF (self w) -> i < len (self w) ->
    wp (occ_get_mut i)
       (fun (j : nat) (w' : world K V T) => j = i /\ w' = w)
       (fun _ : world K V T => False) w.
Proof. exact (fun K V T => @occ_get_mut_lawful K V T). Qed.
Print Assumptions C11_occ_get_mut_lawful.

Theorem C11_occ_key_lawful :
  forall (K V T : Type) (i : nat) (w : world K V T),
    WF (self w) -> i < len (self w) ->
    wp (occ_key i)
       (fun (j : nat) (w' : world K V T) => j = i /\ w' = w)
       (fun _ : world K V T => False) w.
Proof. exact (fun K V T => @occ_key_lawful K V T). Qed.
Print Assumptions C11_occ_key_lawful.

Theorem C11_occ_into_mut_lawful :
  forall (K V T : Type) (i : nat) (w : world K V T),
    WF (self w) -> i < len (self w) ->
    wp (occ_into_mut i)
       (fun (j : nat) (w' : world K V T) => j = i /\ w' = w)
       (fun _ : world K V T => False) w.
Proof. exact (fun K V T => @occ_into_mut_lawful K V T). Qed.
Print Assumptions C11_occ_into_mut_lawful.

(* "same results as the direct map operations on that key": the chain
   entry(k) -> OccupiedEntry::get (None when Vacant) returns exactly the slot
   find_idx finds, i.e. what Map::get(k) returns (Lawful.get_lawful, C01), and
   leaves the container unchanged; the same through get_mut *)
Theorem C11_entry_get_lawful :
  forall (K V Q T : Type) (E : env K V Q T) (ck : K -> N) (cq : Q -> N) (HL : Lawful E ck cq)
         (k : K) (w : world K V T),
    WF (self w) ->
    wp (e <- entry_of E k ;;
        match e with
        | Occupied i => j <- occ_get i ;; ret (Some j)
        | Vacant _ => ret None
        end)
       (fun (r : option nat) (w' : world K V T) =>
          self w' = self w /\ r = find_idx ck (ck k) (Spec.elems (self w)))
       (fun _ : world K V T => False) w.
Proof. exact (fun K V Q T E ck cq HL => entry_get_lawful E ck cq HL). Qed.
Print Assumptions C11_entry_get_lawful.

Theorem C11_entry_get_mut_lawful :
  forall (K V Q T : Type) (E : env K V Q T) (ck : K -> N) (cq : Q -> N) (HL : Lawful E ck cq)
         (k : K) (w : world K V T),
    WF (self w) ->
    wp (e <- entry_of E k ;;
        match e with
        | Occupied i => j <- occ_get_mut i ;; ret (Some j)
        | Vacant _ => ret None
        end)
       (fun (r : option nat) (w' : world K V T) =>
          self w' = self w /\ r = find_idx ck (ck k) (Spec.elems (self w)))
       (fun _ : world K V T => False) w.
Proof. exact (fun K V Q T E ck cq HL => entry_get_mut_lawful E ck cq HL). Qed.
Print Assumptions C11_entry_get_mut_lawful.

(* ---------------------------------------------------------------------- *)
(* non-vacuity                                                              *)
(* ---------------------------------------------------------------------- *)

(* hypotheses: the 3-entry map m3 (classes 5,6,7), an honest script, a closure
   that never panics, a pure modifier *)
Example C11_example_hyps :
  let sc0 := {| sc_adv := false; sc_seed := 0; sc_fk := 0; sc_fa := 0 |} in
  WF (self (w_of m3)) /\ Lawful (env_map sc0) kcls qcls /\
  find_idx kcls 6 (Spec.elems m3) = Some 1 /\ find_idx kcls 9 (Spec.elems m3) = None /\
  (forall s : cstate, exists (v : vobj) (s' : cstate),
      (fun s0 : cstate => (Some (v_ 50 1), s0)) s = (Some v, s')) /\
  (forall (s : cstate) (v : vobj),
      fst ((fun (s0 : cstate) (v0 : vobj) => ((false, v_ (vid v0) 0), s0)) s v)
      = (false, (fun v0 : vobj => v_ (vid v0) 0) v)).
Proof.
  intros sc0. split; [exact m3_WF|].
  split; [apply env_map_lawful; split; reflexivity|].
  split; [reflexivity|]. split; [reflexivity|].
  split; [intros s; eexists; eexists; reflexivity | intros s v; reflexivity].
Qed.

(* entry(key of class 6) on m3 (with one spare slot) is Occupied 1 and the
   supplied key object (id 90) is destroyed; or_insert returns slot 1, leaves
   the content alone and destroys the unused default (id 91);
   entry(key of class 9).or_insert appends at slot 3 *)
Example C11_example_runs :
  let E := env_map {| sc_adv := false; sc_seed := 0; sc_fk := 0; sc_fa := 0 |} in
  let m : map key vobj := {| len := 3; slots := slots m3 ++ [None] |} in
  match entry_of E (k_ 90 6) (w_of m) with
  | Ok e w' => e = Occupied 1 /\ log w' = [EvDrop 90] /\ self w' = m
  | _ => False
  end /\
  match (e <- entry_of E (k_ 90 6) ;; or_insert E true e (v_ 91 0)) (w_of m) with
  | Ok i w' => i = 1 /\ self w' = m /\ log w' = [EvDrop 90; EvDrop 91]
  | _ => False
  end /\
  match (e <- entry_of E (k_ 90 9) ;; or_insert E true e (v_ 91 0)) (w_of m) with
  | Ok i w' => i = 3 /\ Spec.elems (self w') = Spec.elems m ++ [(k_ 90 9, v_ 91 0)] /\ log w' = []
  | _ => False
  end /\
  (* full map, absent key: panics, container unchanged, the rejected key (id 90)
     and value (id 91) destroyed once by unwinding *)
  match (e <- entry_of E (k_ 90 9) ;; or_insert E true e (v_ 91 0)) (w_of m3) with
  | Panic w' => self w' = m3 /\ log w' = [EvDrop 90; EvDrop 91]
  | _ => False
  end.
Proof. vm_compute. repeat split; reflexivity. Qed.

(* entry(key of class 6).get() on m3 returns slot 1 (what find_idx finds) and
   only the supplied key object is destroyed; OccupiedEntry::get_mut on slot 2
   leaves the world as it is; entry(absent key).get() is None *)
Example C11_example_get :
  let E := env_map {| sc_adv := false; sc_seed := 0; sc_fk := 0; sc_fa := 0 |} in
  match (e <- entry_of E (k_ 90 6) ;;
         match e with Occupied i => j <- occ_get i ;; ret (Some j) | Vacant _ => ret None end)
          (w_of m3) with
  | Ok r w' => r = Some 1 /\ self w' = m3 /\ log w' = [EvDrop 90]
  | _ => False
  end /\
  occ_get_mut 2 (w_of m3) = Ok 2 (w_of m3) /\
  match (e <- entry_of E (k_ 90 9) ;;
         match e with Occupied i => j <- occ_get i ;; ret (Some j) | Vacant _ => ret None end)
          (w_of m3) with
  | Ok r w' => r = None /\ self w' = m3
  | _ => False
  end.
Proof. vm_compute. repeat split; reflexivity. Qed.
