(* PureEqMore.v — get_disjoint_mut under an arbitrary OPERAND-DETERMINED ==.
   PureEq.v / PureEqSet.v treat the callbacks eqK / eqKQ (stored key on the left).
   get_disjoint_mut uses two more: eqQQ (needle vs needle, the overlap assertion,
   EARLIER needle on the left) and eqQK (needle on the LEFT, stored key on the
   right).  [Related2] says both answer the same relation R on the classes.

   Findings (all proved below):
   * the overlap assertion panics exactly when [overlaps_rel ks] = true, i.e. some
     pair i < j of needles has R (cq k_i) (cq k_j);
   * BUT that is not the only panic: with two or more needles the index stack of
     the first loop has [length ks] places, and one entry is pushed for every
     STORED key that is related to some needle.  Under a lawful == and distinct
     needles there are at most [length ks] such keys; under an arbitrary R there
     can be more, and then `stack[stack_top] = ..` panics (container untouched).
     [overflow_rel] is that condition; [disjoint_overlap_rel] gives the exact
     panic condition  overlaps_rel || overflow_rel ;
   * on normal exit the result is the pure function [disjoint_out] of the live
     prefix; with two or more needles result[j] is the first slot whose FIRST
     related needle (needle on the left) is j; with exactly one needle the crate
     goes through get_mut, which has the STORED key on the left. *)
Require Import Model.Base Model.Slots Model.MapOps Model.EntryOps Model.Exec.
Require Import Proofs.Hoare Proofs.Inv Proofs.Safety Proofs.Safety2 Proofs.Safety3
               Proofs.Spec Proofs.Lawful Proofs.Lawful2 Proofs.Lawful3 Proofs.PureEq Proofs.Disjoint.

Section PureEqMore.
Context {K V Q T : Type} (E : env K V Q T) (ck : K -> N) (cq : Q -> N) (R : N -> N -> bool).
Notation M := (M K V T).
Notation world := (world K V T).
Notation map := (map K V).
Notation kv := (K * V)%type.

Record Related2 : Prop := {
  rel2_base : Related E ck cq R;
  rel2_eqQQ : forall s q q', fst (eqQQ E s q q') = if R (cq q) (cq q') then Yes else No;
  rel2_eqQK : forall s q a, fst (eqQK E s q a) = if R (cq q) (ck a) then Yes else No
}.

(* ======================================================================== *)
(* pure side                                                                 *)

(* assert_ne_all k rest: k (the EARLIER needle) on the left of every later one *)
Fixpoint ne_all_rel (c : N) (rest : list Q) : bool :=
  match rest with
  | [] => false
  | k' :: rest' => R c (cq k') || ne_all_rel c rest'
  end.
Fixpoint overlaps_rel (ks : list Q) : bool :=
  match ks with
  | [] => false
  | k :: rest => ne_all_rel (cq k) rest || overlaps_rel rest
  end.

Lemma ne_all_rel_true c rest :
  ne_all_rel c rest = true <-> exists j q, nth_error rest j = Some q /\ R c (cq q) = true.
Proof.
  induction rest as [|k' rest IH]; cbn [ne_all_rel].
  - split; [discriminate | intros (j & q & Hj & _); destruct j; discriminate].
  - rewrite orb_true_iff, IH. split.
    + intros [H|(j & q & Hj & Hq)]; [exists 0, k'; auto | exists (S j), q; auto].
    + intros ([|j] & q & Hj & Hq); cbn [nth_error] in Hj.
      * injection Hj as <-. left. exact Hq.
      * right. exists j, q. auto.
Qed.

(* the reading asked for: some pair i < j with R (class of needle i) (class of needle j) *)
Lemma overlaps_rel_true ks :
  overlaps_rel ks = true <->
  exists i j qi qj, i < j /\ nth_error ks i = Some qi /\ nth_error ks j = Some qj /\ R (cq qi) (cq qj) = true.
Proof.
  induction ks as [|k rest IH]; cbn [overlaps_rel].
  - split; [discriminate | intros (i & j & qi & qj & _ & Hi & _); destruct i; discriminate].
  - rewrite orb_true_iff, ne_all_rel_true, IH. split.
    + intros [(j & q & Hj & Hq)|(i & j & qi & qj & Hij & Hi & Hj & Hq)].
      * exists 0, (S j), k, q. repeat split; auto. lia.
      * exists (S i), (S j), qi, qj. repeat split; auto. lia.
    + intros (i & j & qi & qj & Hij & Hi & Hj & Hq).
      destruct j as [|j]; [lia|]. cbn [nth_error] in Hj. destruct i as [|i]; cbn [nth_error] in Hi.
      * injection Hi as <-. left. exists j, qj. auto.
      * right. exists i, j, qi, qj. repeat split; auto. lia.
Qed.

(* position: index of the first needle q with R (cq q) c — needle on the LEFT *)
Fixpoint qfind_rel (c : N) (ks : list Q) : option nat :=
  match ks with
  | [] => None
  | q :: t => if R (cq q) c then Some 0 else option_map S (qfind_rel c t)
  end.

Lemma qfind_rel_inv c ks : forall x,
  qfind_rel c ks = Some x ->
  (exists q, nth_error ks x = Some q /\ R (cq q) c = true) /\
  (forall j q, j < x -> nth_error ks j = Some q -> R (cq q) c = false).
Proof.
  induction ks as [|q0 t IH]; intros x H; cbn [qfind_rel] in H; [discriminate|].
  destruct (R (cq q0) c) eqn:Hq0.
  - injection H as <-. split; [exists q0; auto | intros j q Hj; lia].
  - destruct (qfind_rel c t) as [y|]; cbn [option_map] in H; [|discriminate].
    injection H as <-. destruct (IH y eq_refl) as [(q & Hq & Hc) Hb]. split; [exists q; auto|].
    intros [|j] q' Hj Hq'; cbn [nth_error] in Hq'.
    + injection Hq' as <-. exact Hq0.
    + apply (Hb j q'); [lia | exact Hq'].
Qed.

Lemma qfind_rel_none_inv c ks : qfind_rel c ks = None -> forall q, In q ks -> R (cq q) c = false.
Proof.
  induction ks as [|q0 t IH]; intros H q Hin; [destruct Hin|].
  cbn [qfind_rel] in H. destruct (R (cq q0) c) eqn:Hq0; [discriminate|].
  destruct (qfind_rel c t) eqn:Ht; [discriminate|].
  destruct Hin as [<-|Hin]; [exact Hq0 | apply IH; auto].
Qed.

Lemma qfind_rel_lt c ks x : qfind_rel c ks = Some x -> x < length ks.
Proof.
  intros H. destruct (qfind_rel_inv c ks x H) as [(q & Hq & _) _].
  apply nth_error_Some. rewrite Hq. discriminate.
Qed.

(* if needle x is related to c and no earlier needle is, position answers x *)
Lemma qfind_rel_some c ks : forall x q,
  nth_error ks x = Some q -> R (cq q) c = true ->
  (forall j q', j < x -> nth_error ks j = Some q' -> R (cq q') c = false) -> qfind_rel c ks = Some x.
Proof.
  induction ks as [|q0 t IH]; intros x q Hx Hc Hb; [destruct x; discriminate|].
  cbn [qfind_rel]. destruct x as [|x]; cbn [nth_error] in Hx.
  - injection Hx as ->. rewrite Hc. reflexivity.
  - rewrite (Hb 0 q0 ltac:(lia) eq_refl).
    rewrite (IH x q Hx Hc); [reflexivity|].
    intros j q' Hj Hq'. apply (Hb (S j) q'); [lia | exact Hq'].
Qed.

(* the index stack: (slot, needle index) for every stored key that some needle
   is related to, in slot order *)
Fixpoint stack_rel (l : list kv) (ks : list Q) (i0 : nat) : list (nat * nat) :=
  match l with
  | [] => []
  | p :: t => match qfind_rel (ck (fst p)) ks with
              | Some x => (i0, x) :: stack_rel t ks (S i0)
              | None => stack_rel t ks (S i0)
              end
  end.

Lemma stack_rel_in l ks : forall i0 a x,
  In (a, x) (stack_rel l ks i0) <->
  exists p, i0 <= a /\ nth_error l (a - i0) = Some p /\ qfind_rel (ck (fst p)) ks = Some x.
Proof.
  induction l as [|p t IH]; intros i0 a x; cbn [stack_rel].
  - split; [intros [] | intros (p & _ & Hp & _); destruct (a - i0); discriminate].
  - assert (Htail : In (a, x) (stack_rel t ks (S i0)) <->
                    (exists p', i0 < a /\ nth_error (p :: t) (a - i0) = Some p' /\
                                qfind_rel (ck (fst p')) ks = Some x)).
    { rewrite IH. split; intros (p' & Ha & Hp' & Hq); exists p'.
      - split; [lia|]. split; [|exact Hq]. replace (a - i0) with (S (a - S i0)) by lia. exact Hp'.
      - split; [lia|]. split; [|exact Hq]. replace (a - i0) with (S (a - S i0)) in Hp' by lia. exact Hp'. }
    destruct (qfind_rel (ck (fst p)) ks) as [y|] eqn:Hy.
    + cbn [In]. rewrite Htail. split.
      * intros [Heq|(p' & Ha & Hp' & Hq)].
        -- injection Heq as <- <-. exists p. rewrite Nat.sub_diag. auto.
        -- exists p'. split; [lia | auto].
      * intros (p' & Ha & Hp' & Hq). destruct (Nat.eq_dec a i0) as [->|Hne].
        -- left. rewrite Nat.sub_diag in Hp'. cbn [nth_error] in Hp'. injection Hp' as <-. congruence.
        -- right. exists p'. split; [lia | auto].
    + rewrite Htail. split.
      * intros (p' & Ha & Hp' & Hq). exists p'. split; [lia | auto].
      * intros (p' & Ha & Hp' & Hq). destruct (Nat.eq_dec a i0) as [->|Hne].
        -- rewrite Nat.sub_diag in Hp'. cbn [nth_error] in Hp'. injection Hp' as <-. congruence.
        -- exists p'. split; [lia | auto].
Qed.

Lemma stack_rel_fst_lt l ks i0 a x : In (a, x) (stack_rel l ks i0) -> i0 <= a < i0 + length l.
Proof.
  intros H. apply stack_rel_in in H as (p & Ha & Hp & _).
  assert (a - i0 < length l) by (apply nth_error_Some; rewrite Hp; discriminate). lia.
Qed.

Lemma stack_rel_snd_lt l ks i0 a x : In (a, x) (stack_rel l ks i0) -> x < length ks.
Proof. intros H. apply stack_rel_in in H as (p & _ & _ & Hq). eapply qfind_rel_lt; eauto. Qed.

Lemma stack_rel_inc l ks : forall i0, inc_from i0 (stack_rel l ks i0).
Proof.
  induction l as [|p t IH]; intros i0; cbn [stack_rel]; [exact I|].
  destruct (qfind_rel (ck (fst p)) ks) as [x|].
  - cbn [inc_from fst]. split; [lia | apply IH].
  - apply (inc_from_le (S i0)); [lia | apply IH].
Qed.

(* number of stored keys some needle is related to (needle on the left) *)
Definition hit (ks : list Q) (p : kv) : bool := existsb (fun q => R (cq q) (ck (fst p))) ks.
Definition hits (l : list kv) (ks : list Q) : nat := length (filter (hit ks) l).

Lemma qfind_rel_hit c ks :
  existsb (fun q => R (cq q) c) ks = match qfind_rel c ks with Some _ => true | None => false end.
Proof.
  induction ks as [|q t IH]; cbn [existsb qfind_rel]; [reflexivity|].
  destruct (R (cq q) c); cbn [orb]; [reflexivity|]. rewrite IH.
  destruct (qfind_rel c t); reflexivity.
Qed.

Lemma stack_rel_length l ks : forall i0, length (stack_rel l ks i0) = hits l ks.
Proof.
  unfold hits. induction l as [|p t IH]; intros i0; cbn [stack_rel filter]; [reflexivity|].
  unfold hit at 1. rewrite qfind_rel_hit.
  destruct (qfind_rel (ck (fst p)) ks); cbn [length]; rewrite IH; reflexivity.
Qed.

(* the stack of the first loop has [length ks] places *)
Definition overflow_rel (l : list kv) (ks : list Q) : bool :=
  (2 <=? length ks) && (length ks <? hits l ks).

(* what get_disjoint_mut returns *)
Definition disjoint_out (l : list kv) (ks : list Q) : list (option nat) :=
  match ks with
  | [] => []
  | [k] => [find_rel ck R (cq k) l]
  | _ => apply_stack (rev (stack_rel l ks 0)) (repeat None (length ks))
  end.

(* ---- apply_stack on a reversed stack: the FIRST entry for a needle wins ---- *)
Lemma apply_stack_app st1 st2 : forall out, apply_stack (st1 ++ st2) out = apply_stack st2 (apply_stack st1 out).
Proof. induction st1 as [|ab t IH]; intros out; cbn [app apply_stack]; [reflexivity | apply IH]. Qed.

Lemma apply_stack_rev_nth st b : forall out,
  b < length out ->
  nth_error (apply_stack (rev st) out) b =
  match find (fun ab => snd ab =? b) st with
  | Some ab => Some (Some (fst ab))
  | None => nth_error out b
  end.
Proof.
  induction st as [|[a' b'] t IH]; intros out Hb; cbn [rev find]; [reflexivity|].
  rewrite apply_stack_app. cbn [apply_stack fst snd].
  destruct (Nat.eqb_spec b' b) as [->|Hne].
  - apply nth_error_upd_eq. rewrite apply_stack_length. exact Hb.
  - rewrite nth_error_upd_neq by exact Hne. apply IH. exact Hb.
Qed.

(* first slot whose first related needle is needle j *)
Fixpoint slot_for (j : nat) (l : list kv) (ks : list Q) : option nat :=
  match l with
  | [] => None
  | p :: t => if match qfind_rel (ck (fst p)) ks with Some x => x =? j | None => false end
              then Some 0 else option_map S (slot_for j t ks)
  end.

Lemma find_stack_rel j l ks : forall i0,
  find (fun ab => snd ab =? j) (stack_rel l ks i0) = option_map (fun i => (i0 + i, j)) (slot_for j l ks).
Proof.
  induction l as [|p t IH]; intros i0; cbn [stack_rel slot_for]; [reflexivity|].
  destruct (qfind_rel (ck (fst p)) ks) as [x|].
  - cbn [find snd]. destruct (Nat.eqb_spec x j) as [->|Hne].
    + cbn [option_map]. f_equal. f_equal. lia.
    + rewrite IH. destruct (slot_for j t ks); cbn [option_map]; [|reflexivity]. f_equal. f_equal. lia.
  - rewrite IH. destruct (slot_for j t ks); cbn [option_map]; [|reflexivity]. f_equal. f_equal. lia.
Qed.

Lemma slot_for_inv j l ks : forall i,
  slot_for j l ks = Some i ->
  (exists p, nth_error l i = Some p /\ qfind_rel (ck (fst p)) ks = Some j) /\
  (forall i' p', i' < i -> nth_error l i' = Some p' -> qfind_rel (ck (fst p')) ks <> Some j).
Proof.
  induction l as [|p t IH]; intros i H; cbn [slot_for] in H; [discriminate|].
  destruct (qfind_rel (ck (fst p)) ks) as [x|] eqn:Hx.
  - destruct (Nat.eqb_spec x j) as [->|Hne].
    + injection H as <-. split; [exists p; auto | intros i' p' Hi; lia].
    + destruct (slot_for j t ks) as [y|]; cbn [option_map] in H; [|discriminate].
      injection H as <-. destruct (IH y eq_refl) as [(p0 & Hp0 & Hq0) Hb]. split; [exists p0; auto|].
      intros [|i'] p' Hi Hp'; cbn [nth_error] in Hp'.
      * injection Hp' as <-. rewrite Hx. congruence.
      * apply (Hb i' p'); [lia | exact Hp'].
  - destruct (slot_for j t ks) as [y|]; cbn [option_map] in H; [|discriminate].
    injection H as <-. destruct (IH y eq_refl) as [(p0 & Hp0 & Hq0) Hb]. split; [exists p0; auto|].
    intros [|i'] p' Hi Hp'; cbn [nth_error] in Hp'.
    + injection Hp' as <-. rewrite Hx. discriminate.
    + apply (Hb i' p'); [lia | exact Hp'].
Qed.

(* with two or more needles: position by position *)
Lemma disjoint_out_nth l ks j :
  2 <= length ks -> j < length ks ->
  nth_error (disjoint_out l ks) j = Some (slot_for j l ks).
Proof.
  intros H2 Hj. destruct ks as [|k [|k2 ks']]; cbn [length] in H2; try lia.
  cbv beta iota delta [disjoint_out].
  rewrite apply_stack_rev_nth by (rewrite repeat_length; exact Hj).
  rewrite find_stack_rel. destruct (slot_for j l (k :: k2 :: ks')) as [i|]; cbn [option_map fst Nat.add].
  - reflexivity.
  - apply nth_error_repeat_lt. exact Hj.
Qed.

Lemma disjoint_out_length l ks : length (disjoint_out l ks) = length ks.
Proof.
  destruct ks as [|k [|k2 ks']]; [reflexivity | reflexivity |].
  cbv beta iota delta [disjoint_out]. rewrite apply_stack_length, repeat_length. reflexivity.
Qed.

(* A3, pure form: needle on the LEFT, and no earlier needle is related to that key *)
Lemma disjoint_out_related l ks j i :
  2 <= length ks ->
  nth_error (disjoint_out l ks) j = Some (Some i) ->
  exists q p, nth_error ks j = Some q /\ nth_error l i = Some p /\
              R (cq q) (ck (fst p)) = true /\
              (forall j' q', j' < j -> nth_error ks j' = Some q' -> R (cq q') (ck (fst p)) = false) /\
              (forall i' p', i' < i -> nth_error l i' = Some p' -> qfind_rel (ck (fst p')) ks <> Some j).
Proof.
  intros H2 Hn.
  assert (Hj : j < length ks).
  { rewrite <- (disjoint_out_length l ks). apply nth_error_Some. rewrite Hn. discriminate. }
  rewrite (disjoint_out_nth l ks j H2 Hj) in Hn. injection Hn as Hs.
  destruct (slot_for_inv j l ks i Hs) as [(p & Hp & Hq) Hb].
  destruct (qfind_rel_inv _ _ _ Hq) as [(q & Hkq & Hr) Hbq].
  exists q, p. auto 10.
Qed.

(* the single-needle path goes through get_mut: STORED key on the left *)
Lemma disjoint_out_single l k i :
  nth_error (disjoint_out l [k]) 0 = Some (Some i) ->
  exists p, nth_error l i = Some p /\ R (ck (fst p)) (cq k) = true.
Proof.
  cbn [disjoint_out nth_error]. intros H. injection H as H.
  destruct (find_rel_inv ck R _ _ _ H) as [(p & Hp & Hr) _]. exists p. auto.
Qed.

(* when no stored key is related to two different needles, result[j] is find_rel
   with the FLIPPED relation (needle on the left) *)
Lemma slot_for_flip j q l ks :
  nth_error ks j = Some q ->
  (forall p j' q', In p l -> j' < j -> nth_error ks j' = Some q' ->
                   R (cq q) (ck (fst p)) = true -> R (cq q') (ck (fst p)) = false) ->
  slot_for j l ks = find_rel ck (fun a b => R b a) (cq q) l.
Proof.
  intros Hq. induction l as [|p t IH]; intros Hun; cbn [slot_for find_rel]; [reflexivity|].
  assert (IH' : slot_for j t ks = find_rel ck (fun a b => R b a) (cq q) t).
  { apply IH. intros p0 j' q' Hin. apply Hun. right. exact Hin. }
  destruct (R (cq q) (ck (fst p))) eqn:Hr.
  - rewrite (qfind_rel_some (ck (fst p)) ks j q Hq Hr).
    + rewrite Nat.eqb_refl. reflexivity.
    + intros j' q' Hj' Hq'. apply (Hun p j' q'); auto. left. reflexivity.
  - rewrite IH'. destruct (qfind_rel (ck (fst p)) ks) as [x|] eqn:Hx; [|reflexivity].
    destruct (Nat.eqb_spec x j) as [->|Hne]; [|reflexivity].
    destruct (qfind_rel_inv _ _ _ Hx) as [(q0 & Hq0 & Hr0) _]. congruence.
Qed.

(* ======================================================================== *)
(* the operations                                                            *)
Context (HR2 : Related2).

(* ---- 1. the overlap assertion ---- *)
Lemma assert_ne_all_rel k rest (w : world) :
  wp (assert_ne_all E k rest)
     (fun _ w' => stable w w' /\ ne_all_rel (cq k) rest = false)
     (fun w' => stable w w' /\ ne_all_rel (cq k) rest = true) w.
Proof.
  revert w. induction rest as [|k' rest IH]; intros w; cbn [assert_ne_all ne_all_rel].
  - apply wp_ret. split; [apply stable_refl | reflexivity].
  - apply wp_bind. apply wp_cbk_eq. rewrite (rel2_eqQQ HR2).
    destruct (R (cq k) (cq k')); cbv beta iota; cbn [orb].
    + apply wp_panic. split; [apply stable_cb | reflexivity].
    + eapply wp_mono; [apply IH | |]; cbn beta.
      * intros _ w' [Hst Hn]. split; [eapply stable_trans; [apply stable_cb | exact Hst] | exact Hn].
      * intros w' [Hst Hn]. split; [eapply stable_trans; [apply stable_cb | exact Hst] | exact Hn].
Qed.

Lemma assert_distinct_rel ks (w : world) :
  wp (assert_distinct E ks)
     (fun _ w' => stable w w' /\ overlaps_rel ks = false)
     (fun w' => stable w w' /\ overlaps_rel ks = true) w.
Proof.
  revert w. induction ks as [|k rest IH]; intros w; cbn [assert_distinct overlaps_rel].
  - apply wp_ret. split; [apply stable_refl | reflexivity].
  - apply wp_bind. eapply wp_mono; [apply assert_ne_all_rel | |]; cbn beta.
    + intros _ w1 [Hst1 ->]. cbn [orb]. eapply wp_mono; [apply IH | |]; cbn beta.
      * intros _ w2 [Hst2 Hn]. split; [eapply stable_trans; eauto | exact Hn].
      * intros w2 [Hst2 Hn]. split; [eapply stable_trans; eauto | exact Hn].
    + intros w1 [Hst1 ->]. split; [exact Hst1 | reflexivity].
Qed.

(* ---- 2. position: needle on the left ---- *)
Lemma position_rel ks p : forall j (w : world),
  wp (position E ks p j)
     (fun r w' => stable w w' /\ r = option_map (fun x => j + x) (qfind_rel (ck (fst p)) ks))
     (fun _ => False) w.
Proof.
  induction ks as [|q ks IH]; intros j w; cbn [position qfind_rel].
  - apply wp_ret. split; [apply stable_refl | reflexivity].
  - apply wp_bind. apply wp_cbk_eq. rewrite (rel2_eqQK HR2).
    destruct (R (cq q) (ck (fst p))); cbv beta iota.
    + apply wp_ret. split; [apply stable_cb|]. cbn [option_map]. f_equal. lia.
    + eapply wp_mono; [apply IH | | auto]; cbn beta.
      intros r w' [Hst ->]. split; [eapply stable_trans; [apply stable_cb | exact Hst]|].
      destruct (qfind_rel (ck (fst p)) ks); cbn [option_map]; [f_equal; lia | reflexivity].
Qed.

(* ---- 3. the first loop: fills the stack, or overflows it ---- *)
Lemma fill_stack_rel ks J : forall n i stack (w : world),
  WF (self w) -> i + n = len (self w) -> length stack <= J ->
  wp (fill_stack E ks J n i stack)
     (fun r w' => stable w w' /\ r = stack ++ stack_rel (skipn i (elems (self w))) ks i /\ length r <= J)
     (fun w' => stable w w' /\ J < length stack + length (stack_rel (skipn i (elems (self w))) ks i)) w.
Proof.
  induction n as [|n IH]; intros i stack w Hw Hn Hlen; cbn [fill_stack].
  - apply wp_ret. split; [apply stable_refl|].
    rewrite skipn_all2 by (rewrite (elems_length _ Hw); lia). cbn [stack_rel]. rewrite app_nil_r.
    split; [reflexivity | exact Hlen].
  - assert (Hi : i < len (self w)) by lia.
    destruct (WF_live _ _ Hw Hi) as [p Hp].
    assert (Hpe : nth_error (elems (self w)) i = Some p) by (apply (elems_nth (self w) i p Hw Hi); exact Hp).
    rewrite (skipn_nth_cons _ _ _ Hpe). cbn [stack_rel].
    apply wp_bind. eapply wp_p_ref; [exact Hp|].
    apply wp_bind. eapply wp_mono; [apply position_rel | | intros ? []]; cbn beta.
    intros r w1 [Hst1 ->]. pose proof Hst1 as [Hs1 Hl1].
    destruct (qfind_rel (ck (fst p)) ks) as [x|] eqn:Hq; cbn [option_map Nat.add].
    + destruct (Nat.ltb_spec (length stack) J) as [Hlt|Hge].
      * eapply wp_mono; [apply (IH (S i) (stack ++ [(i, x)]) w1) | |]; cbn beta.
        -- rewrite Hs1; exact Hw.
        -- rewrite Hs1; lia.
        -- rewrite app_length. cbn [length]. lia.
        -- intros r w2 (Hst2 & Hr & Hrl). rewrite Hs1 in Hr. rewrite <- app_assoc in Hr. cbn [app] in Hr.
           split; [eapply stable_trans; eauto|]. split; [exact Hr | exact Hrl].
        -- intros w2 [Hst2 Hov]. rewrite Hs1 in Hov. rewrite app_length in Hov. cbn [length] in Hov |- *.
           split; [eapply stable_trans; eauto | lia].
      * apply wp_panic. split; [exact Hst1|]. cbn [length]. lia.
    + eapply wp_mono; [apply (IH (S i) stack w1) | |]; cbn beta.
      * rewrite Hs1; exact Hw.
      * rewrite Hs1; lia.
      * exact Hlen.
      * intros r w2 (Hst2 & Hr & Hrl). rewrite Hs1 in Hr.
        split; [eapply stable_trans; eauto|]. split; [exact Hr | exact Hrl].
      * intros w2 [Hst2 Hov]. rewrite Hs1 in Hov. split; [eapply stable_trans; eauto | exact Hov].
Qed.

(* ---- 4. get_disjoint_unchecked_mut ---- *)
Lemma disjoint_unchecked_rel ks (w : world) :
  WF (self w) ->
  wp (get_disjoint_unchecked_mut E ks)
     (fun r w' => stable w w' /\ overflow_rel (elems (self w)) ks = false /\ r = disjoint_out (elems (self w)) ks)
     (fun w' => stable w w' /\ overflow_rel (elems (self w)) ks = true) w.
Proof.
  intros Hw. unfold get_disjoint_unchecked_mut. destruct ks as [|k [|k2 ks']]; cbv beta iota zeta.
  - apply wp_ret. split; [apply stable_refl|]. split; reflexivity.
  - apply wp_bind. eapply wp_mono; [apply (get_mut_rel E ck cq R (rel2_base HR2) k w Hw) | | intros ? []]; cbn beta.
    intros r w' [Hst ->]. apply wp_ret. split; [exact Hst|]. split; reflexivity.
  - unfold overflow_rel. cbv beta iota delta [disjoint_out].
    assert (HJ : (2 <=? length (k :: k2 :: ks')) = true) by reflexivity.
    remember (k :: k2 :: ks') as ks eqn:Hks in *. clear Hks. rewrite HJ. cbn [andb].
    rewrite <- (stack_rel_length (elems (self w)) ks 0).
    apply wp_bind. apply wp_get_len. apply wp_bind.
    eapply wp_mono; [apply (fill_stack_rel ks (length ks) (len (self w)) 0 [] w Hw) | |]; cbn beta.
    + lia.
    + cbn [length]. lia.
    + cbn [skipn app]. intros st w1 (Hst1 & -> & Hlen). pose proof Hst1 as [Hs1 Hl1].
      rewrite (sort_stack_inc _ 0 (stack_rel_inc _ _ 0)).
      apply wp_bind. apply wp_p_prefix;
        [intros _ | intros Hc; rewrite Hs1 in Hc; pose proof (WF_len_le_cap _ Hw); lia].
      eapply wp_mono;
        [apply (split_back_lawful (length ks) (rev (stack_rel (elems (self w)) ks 0)) (len (self w))
                  (repeat None (length ks)) w1) | | intros ? []]; cbn beta.
      * rewrite Hs1. exact Hw.
      * rewrite Hs1. lia.
      * rewrite rev_alt. apply (rev_append_dec _ [] 0 (len (self w))); [apply stack_rel_inc | exact I | | lia].
        intros [a b] Hin. cbn [fst]. apply stack_rel_fst_lt in Hin. rewrite (elems_length _ Hw) in Hin. lia.
      * intros [a b] Hin. rewrite <- in_rev in Hin. cbn [snd]. eapply stack_rel_snd_lt; eauto.
      * intros r w2 [-> ->]. split; [exact Hst1|]. split; [apply Nat.ltb_ge; exact Hlen | reflexivity].
    + cbn [skipn length Nat.add]. intros w1 [Hst1 Hov]. split; [exact Hst1 | apply Nat.ltb_lt; exact Hov].
Qed.

(* ---- 5. get_disjoint_mut ---- *)
(* A1 (as corrected): the exact outcome.  Normal exit: no overlap, no overflow,
   and the result is [disjoint_out].  Panic: self and log untouched, and either
   the overlap assertion fired, or it passed and the index stack overflowed. *)
Lemma disjoint_overlap_rel ks (w : world) :
  WF (self w) ->
  wp (get_disjoint_mut E ks)
     (fun r w' => stable w w' /\ overlaps_rel ks = false /\
                  overflow_rel (elems (self w)) ks = false /\ r = disjoint_out (elems (self w)) ks)
     (fun w' => self w' = self w /\ log w' = log w /\
                (overlaps_rel ks = true \/
                 (overlaps_rel ks = false /\ overflow_rel (elems (self w)) ks = true))) w.
Proof.
  intros Hw. unfold get_disjoint_mut. destruct ks as [|k ks']; cbv beta iota.
  - apply wp_ret. split; [apply stable_refl|]. repeat split; reflexivity.
  - remember (k :: ks') as ks eqn:Hks in *. clear Hks.
    apply wp_bind. eapply wp_mono; [apply assert_distinct_rel | |]; cbn beta.
    + intros _ w1 [Hst1 Hno]. pose proof Hst1 as [Hs1 Hl1].
      eapply wp_mono; [apply (disjoint_unchecked_rel ks w1); rewrite Hs1; exact Hw | |]; cbn beta.
      * intros r w2 (Hst2 & Hov & ->). rewrite Hs1 in *.
        split; [eapply stable_trans; eauto|]. auto.
      * intros w2 [Hst2 Hov]. rewrite Hs1 in Hov.
        destruct (stable_trans _ _ _ Hst1 Hst2) as [Hs Hl]. auto.
    + intros w1 [[Hs Hl] Hov]. auto.
Qed.

(* A1 in the shape asked for, under the one extra hypothesis that makes it true:
   at most [length ks] stored keys are related to a needle *)
Lemma disjoint_overlap_rel_nooverflow ks (w : world) :
  WF (self w) -> overflow_rel (elems (self w)) ks = false ->
  wp (get_disjoint_mut E ks)
     (fun r w' => overlaps_rel ks = false)
     (fun w' => overlaps_rel ks = true /\ self w' = self w) w.
Proof.
  intros Hw Hno. eapply wp_mono; [apply (disjoint_overlap_rel ks w Hw) | |]; cbn beta.
  - intros r w' (_ & H & _). exact H.
  - intros w' (Hs & _ & [H|[_ H]]); [auto | congruence].
Qed.

Lemma filter_length_le' {A} (f : A -> bool) (l : list A) : length (filter f l) <= length l.
Proof. induction l as [|h t IH]; cbn [filter length]; [lia|]. destruct (f h); cbn [length]; lia. Qed.

(* with fewer than two needles, or at most [length ks] live entries, there is no overflow *)
Lemma overflow_rel_short l ks : length ks < 2 \/ length l <= length ks -> overflow_rel l ks = false.
Proof.
  intros [H|H]; unfold overflow_rel.
  - destruct (Nat.leb_spec 2 (length ks)); [lia | reflexivity].
  - apply andb_false_iff. right. apply Nat.ltb_ge. unfold hits.
    etransitivity; [apply filter_length_le' | exact H].
Qed.

(* A2: no aliasing, for every R — the any-environment lemma, together with A1 *)
Lemma disjoint_result_rel ks (w : world) :
  WF (self w) ->
  wp (get_disjoint_mut E ks)
     (fun r w' => (self w' = self w /\ length r = length ks /\
                   (forall j i, nth_error r j = Some (Some i) -> i < len (self w)) /\
                   (forall j1 j2 i, nth_error r j1 = Some (Some i) -> nth_error r j2 = Some (Some i) -> j1 = j2)) /\
                  (stable w w' /\ overlaps_rel ks = false /\
                   overflow_rel (elems (self w)) ks = false /\ r = disjoint_out (elems (self w)) ks))
     (fun w' => self w' = self w /\
                (self w' = self w /\ log w' = log w /\
                 (overlaps_rel ks = true \/
                  (overlaps_rel ks = false /\ overflow_rel (elems (self w)) ks = true)))) w.
Proof.
  intros Hw. apply wp_conj; [apply (disjoint_safe E ks w Hw) | apply (disjoint_overlap_rel ks w Hw)].
Qed.

(* A3: the operand order of each answer.  Two or more needles: NEEDLE on the left
   (position / eqQK), and the slot goes to the FIRST needle related to its key.
   One needle: get_mut, STORED key on the left. *)
Lemma disjoint_position_rel ks (w : world) :
  WF (self w) -> 2 <= length ks ->
  wp (get_disjoint_mut E ks)
     (fun r w' => forall j i, nth_error r j = Some (Some i) ->
        exists q p, nth_error ks j = Some q /\ nth_error (elems (self w)) i = Some p /\
                    R (cq q) (ck (fst p)) = true /\
                    (forall j' q', j' < j -> nth_error ks j' = Some q' -> R (cq q') (ck (fst p)) = false))
     (fun _ => True) w.
Proof.
  intros Hw H2. eapply wp_mono; [apply (disjoint_overlap_rel ks w Hw) | | auto]; cbn beta.
  intros r w' (_ & _ & _ & ->) j i Hn.
  destruct (disjoint_out_related _ _ _ _ H2 Hn) as (q & p & Hq & Hp & Hr & Hb & _).
  exists q, p. auto.
Qed.

Lemma disjoint_position_rel_single k (w : world) :
  WF (self w) ->
  wp (get_disjoint_mut E [k])
     (fun r w' => r = [find_rel ck R (cq k) (elems (self w))] /\
                  forall i, r = [Some i] ->
                    exists p, nth_error (elems (self w)) i = Some p /\ R (ck (fst p)) (cq k) = true)
     (fun _ => False) w.
Proof.
  intros Hw. eapply wp_mono; [apply (disjoint_overlap_rel [k] w Hw) | |]; cbn beta.
  - intros r w' (_ & _ & _ & ->). cbn [disjoint_out]. split; [reflexivity|].
    intros i Hi. injection Hi as Hi.
    destruct (find_rel_inv ck R _ _ _ Hi) as [(p & Hp & Hr) _]. exists p. auto.
  - intros w' (_ & _ & [H|[_ H]]); cbn in H; discriminate.
Qed.

(* the whole answer, position by position, for two or more needles: result[j] is
   the first slot whose first related needle is j; and it is find_rel with the
   FLIPPED relation whenever no stored key is related to needle j and to an
   earlier needle as well *)
Lemma disjoint_slots_rel ks (w : world) :
  WF (self w) -> 2 <= length ks ->
  wp (get_disjoint_mut E ks)
     (fun r w' => length r = length ks /\
        (forall j, j < length ks -> nth_error r j = Some (slot_for j (elems (self w)) ks)) /\
        (forall j q, nth_error ks j = Some q ->
           (forall p j' q', In p (elems (self w)) -> j' < j -> nth_error ks j' = Some q' ->
                            R (cq q) (ck (fst p)) = true -> R (cq q') (ck (fst p)) = false) ->
           nth_error r j = Some (find_rel ck (fun a b => R b a) (cq q) (elems (self w)))))
     (fun _ => True) w.
Proof.
  intros Hw H2. eapply wp_mono; [apply (disjoint_overlap_rel ks w Hw) | | auto]; cbn beta.
  intros r w' (_ & _ & _ & ->). split; [apply disjoint_out_length|]. split.
  - intros j Hj. apply disjoint_out_nth; assumption.
  - intros j q Hq Hun.
    assert (Hj : j < length ks) by (apply nth_error_Some; rewrite Hq; discriminate).
    rewrite (disjoint_out_nth _ _ _ H2 Hj). f_equal. apply (slot_for_flip j q); assumption.
Qed.

End PureEqMore.

(* ======================================================================== *)
(* A lawful environment is the instance R = N.eqb. *)
Lemma lawful_related2 {K V Q T : Type} (E : env K V Q T) ck cq :
  Lawful E ck cq -> Related2 E ck cq N.eqb.
Proof.
  intros HL. constructor.
  - apply lawful_related. exact HL.
  - apply (law_eqQQ E ck cq HL).
  - apply (law_eqQK E ck cq HL).
Qed.

(* ======================================================================== *)
(* PART B — NON-VACUITY: the interpreter's asymmetric == *)
Section Instance.

Lemma env_map_related2 sc :
  asym sc = true -> sc_fk sc = 0%N -> Related2 (env_map sc) kcls qcls N.leb.
Proof.
  intros Has Hf. constructor.
  - apply env_map_related; assumption.
  - intros s q q'. cbn [env_map eqQQ]. rewrite (cls_truth_asym sc _ _ Has). apply eq_answer_asym; assumption.
  - intros s q a. cbn [env_map eqQK]. rewrite (cls_truth_asym sc _ _ Has). apply eq_answer_asym; assumption.
Qed.

Lemma env_set_related2 sc :
  asym sc = true -> sc_fk sc = 0%N -> Related2 (env_set sc) kcls qcls N.leb.
Proof.
  intros Has Hf. constructor.
  - apply env_set_related; assumption.
  - intros s q q'. cbn [env_set eqQQ]. rewrite (cls_truth_asym sc _ _ Has). apply eq_answer_asym; assumption.
  - intros s q a. cbn [env_set eqQK]. rewrite (cls_truth_asym sc _ _ Has). apply eq_answer_asym; assumption.
Qed.

(* the overlap assertion has the EARLIER needle on the left: under <= the needles
   [5;3] do not overlap (5 <= 3 is false), the same needles in the order [3;5] do *)
Example overlaps_leb_5_3 : overlaps_rel qcls N.leb [QCls 5; QCls 3] = false.
Proof. vm_compute. reflexivity. Qed.
Example overlaps_leb_3_5 : overlaps_rel qcls N.leb [QCls 3; QCls 5] = true.
Proof. vm_compute. reflexivity. Qed.
(* ... and a needle always overlaps an equal one *)
Example overlaps_leb_4_4 : overlaps_rel qcls N.leb [QCls 4; QCls 4] = true.
Proof. vm_compute. reflexivity. Qed.

Definition asym_sc : script := {| sc_adv := true; sc_seed := 3; sc_fk := 0; sc_fa := 0 |}.
Definition v0 : vobj := {| vid := 0; vdat := 0 |}.
Definition w_of (l : list (key * vobj)) : world key vobj cstate :=
  {| cb := {| n_eq := 0; n_clone := 0; n_call := 0; next_id := 100 |}; log := [];
     self := {| len := length l; slots := List.map Some l |} |}.

(* COUNTEREXAMPLE to "get_disjoint_mut panics only when two needles overlap": the
   needles [5;3] do not overlap, but three stored keys (classes 10, 11, 12) are
   all >= 5, the two-place index stack overflows and the call panics. *)
Example disjoint_overflow_panics :
  let w := w_of [(mk 1 10, v0); (mk 2 11, v0); (mk 3 12, v0)] in
  asym asym_sc = true /\ sc_fk asym_sc = 0%N /\
  overlaps_rel qcls N.leb [QCls 5; QCls 3] = false /\
  overflow_rel kcls qcls N.leb (elems (self w)) [QCls 5; QCls 3] = true /\
  match get_disjoint_mut (env_map asym_sc) [QCls 5; QCls 3] w with
  | Panic w' => self w' = self w
  | _ => False
  end.
Proof. vm_compute. repeat split. Qed.

(* two stored keys related to the same needle: no panic, the FIRST slot is handed out *)
Example disjoint_two_hits_one_needle :
  let w := w_of [(mk 1 10, v0); (mk 2 11, v0)] in
  match get_disjoint_mut (env_map asym_sc) [QCls 5; QCls 3] w with
  | Ok r _ => r = [Some 0; None] /\ r = disjoint_out kcls qcls N.leb (elems (self w)) [QCls 5; QCls 3]
  | _ => False
  end.
Proof. vm_compute. split; reflexivity. Qed.

(* a stored key related to two needles goes to the FIRST of them, so result[j] is
   not find_rel with the flipped relation in general: needles [2;1], stored [5] *)
Example disjoint_first_needle_wins :
  let w := w_of [(mk 1 5, v0)] in
  match get_disjoint_mut (env_map asym_sc) [QCls 2; QCls 1] w with
  | Ok r _ => r = [Some 0; None]
  | _ => False
  end /\
  find_rel kcls (fun a b => N.leb b a) 1%N [(mk 1 5, v0)] = Some 0.
Proof. vm_compute. split; reflexivity. Qed.

(* the operand order differs between one needle (get_mut: stored <= needle) and
   two or more (position: needle <= stored): stored classes [5;2], needle 3 *)
Example disjoint_single_vs_many :
  let w := w_of [(mk 1 5, v0); (mk 2 2, v0)] in
  match get_disjoint_mut (env_map asym_sc) [QCls 3] w,
        get_disjoint_mut (env_map asym_sc) [QCls 9; QCls 3] w with
  | Ok r1 _, Ok r2 _ => r1 = [Some 1] /\ r2 = [None; Some 0]
  | _, _ => False
  end.
Proof. vm_compute. split; reflexivity. Qed.

(* the theorems, instantiated at the interpreter's asymmetric == *)
Lemma disjoint_overlap_asym sc ks (w : world key vobj cstate) :
  asym sc = true -> sc_fk sc = 0%N -> WF (self w) ->
  wp (get_disjoint_mut (env_map sc) ks)
     (fun r w' => stable w w' /\ overlaps_rel qcls N.leb ks = false /\
                  overflow_rel kcls qcls N.leb (elems (self w)) ks = false /\
                  r = disjoint_out kcls qcls N.leb (elems (self w)) ks)
     (fun w' => self w' = self w /\ log w' = log w /\
                (overlaps_rel qcls N.leb ks = true \/
                 (overlaps_rel qcls N.leb ks = false /\
                  overflow_rel kcls qcls N.leb (elems (self w)) ks = true))) w.
Proof.
  intros Has Hf Hw.
  exact (disjoint_overlap_rel (env_map sc) kcls qcls N.leb (env_map_related2 sc Has Hf) ks w Hw).
Qed.

End Instance.
