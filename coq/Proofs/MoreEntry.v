(* MoreEntry.v — audit findings for C11 (entry API) and C12 (stored-key
   identity): the value an or_insert_with* closure produced is the value stored
   (tied to the callback state at the time of the call), "touches no other
   entry" as a statement about lookups, stateful / panicking and_modify
   closures and chains of them, the stored key object under every entry
   method, iteration and bulk paths, result-level specifications of all the
   chains of Exec.entry_chain. *)
Require Import Model.Base Model.Slots Model.MapOps Model.EntryOps Model.SetOps Model.Fmt Model.Exec.
Require Import Proofs.Hoare Proofs.Inv Proofs.Safety Proofs.Safety3 Proofs.Spec Proofs.Lawful Proofs.Lawful2
               Proofs.Lawful3 Proofs.IterSpec Proofs.EntrySpec Proofs.Dict Proofs.Dict2 Proofs.Bulk
               Proofs.SetDict Proofs.FmtSerde Proofs.Legacy Proofs.Gaps.
From Coq Require Import Permutation.

(* ======================================================================== *)
(* 0. list facts                                                             *)
(* ======================================================================== *)
Section ListFacts.
Context {A : Type}.

Lemma me_upd_upd (l : list A) i x y : upd (upd l i x) i y = upd l i y.
Proof.
  revert i; induction l as [|h t IH]; intros [|i]; cbn [upd]; try reflexivity.
  f_equal. apply IH.
Qed.

Lemma me_firstn_snoc (l : list A) m x :
  nth_error l m = Some x -> firstn (S m) l = firstn m l ++ [x].
Proof.
  revert m; induction l as [|h t IH]; intros [|m] H; cbn [nth_error] in H; try discriminate.
  - injection H as ->. reflexivity.
  - cbn [firstn app]. f_equal. apply IH. exact H.
Qed.

End ListFacts.

(* ======================================================================== *)
(* 1. the dictionary view: what an operation does to OTHER classes           *)
(* ======================================================================== *)
Section Others.
Context {K V : Type} (ck : K -> N).
Notation kv := (K * V)%type.

(* swap_remove of entry i leaves every other class exactly where the
   dictionary view had it (same key object, same value) ... *)
Lemma lookup_swap_remove_other (l : list kv) i p c :
  Uniq ck l -> nth_error l i = Some p -> c <> ck (fst p) ->
  lookup ck (swap_remove l i) c = lookup ck l c.
Proof.
  intros Hu Hp Hc.
  pose proof (d_swap_remove_perm l i p Hp) as Hperm.
  rewrite <- !(d_find_lookup ck).
  rewrite (d_find_perm ck l (p :: swap_remove l i) c Hu Hperm).
  unfold d_find. cbn [find]. destruct (N.eqb_spec (ck (fst p)) c) as [He|_]; [congruence | reflexivity].
Qed.

(* ... and the removed class is gone *)
Lemma lookup_swap_remove_self (l : list kv) i p :
  Uniq ck l -> nth_error l i = Some p -> lookup ck (swap_remove l i) (ck (fst p)) = None.
Proof.
  intros Hu Hp.
  pose proof (d_swap_remove_perm l i p Hp) as Hperm.
  pose proof (d_Uniq_perm ck _ _ Hperm Hu) as Hu2. apply d_Uniq_cons in Hu2. destruct Hu2 as [Hn _].
  rewrite <- (d_find_lookup ck).
  destruct (d_find ck (swap_remove l i) (ck (fst p))) as [q|] eqn:Hq; [|reflexivity].
  exfalso. apply d_find_some in Hq. destruct Hq as [Hin Hcq]. apply Hn. rewrite <- Hcq.
  apply (d_In_class ck). exact Hin.
Qed.

Lemma swap_remove_uniq (l : list kv) i p :
  Uniq ck l -> nth_error l i = Some p -> Uniq ck (swap_remove l i).
Proof.
  intros Hu Hp. pose proof (d_Uniq_perm ck _ _ (d_swap_remove_perm l i p Hp) Hu) as Hu2.
  apply d_Uniq_cons in Hu2. apply Hu2.
Qed.

(* overwriting the VALUE of entry i (same key object) *)
Lemma lookup_upd_value (l : list kv) i k0 v0 v c :
  nth_error l i = Some (k0, v0) ->
  lookup ck (upd l i (k0, v)) c =
  match lookup ck l c with
  | Some q => if Nat.eqb (match find_idx ck c l with Some j => j | None => 0 end) i then Some (k0, v) else Some q
  | None => None
  end.
Proof.
  intros Hp. unfold lookup.
  rewrite (find_idx_upd_same ck c l i (k0, v) (k0, v0) Hp eq_refl).
  destruct (find_idx ck c l) as [j|] eqn:Hj; [|reflexivity].
  destruct (find_idx_inv ck _ _ _ Hj) as [[q [Hq _]] _]. rewrite Hq.
  destruct (Nat.eqb_spec j i) as [->|Hne].
  - apply nth_error_upd_eq. apply nth_error_Some. rewrite Hp. discriminate.
  - rewrite nth_error_upd_neq by auto. exact Hq.
Qed.

Lemma lookup_upd_other (l : list kv) i k0 v0 v c :
  nth_error l i = Some (k0, v0) -> c <> ck k0 ->
  lookup ck (upd l i (k0, v)) c = lookup ck l c.
Proof.
  intros Hp Hc. unfold lookup.
  rewrite (find_idx_upd_same ck c l i (k0, v) (k0, v0) Hp eq_refl).
  destruct (find_idx ck c l) as [j|] eqn:Hj; [|reflexivity].
  destruct (find_idx_inv ck _ _ _ Hj) as [[q [Hq Hcq]] _].
  rewrite nth_error_upd_neq; [reflexivity|]. intros <-.
  rewrite Hp in Hq. injection Hq as <-. cbn [fst] in Hcq. congruence.
Qed.

Lemma lookup_app_other (l : list kv) k v c :
  c <> ck k -> lookup ck (l ++ [(k, v)]) c = lookup ck l c.
Proof.
  intros Hc. unfold lookup. rewrite (find_idx_app ck).
  destruct (find_idx ck c l) as [j|] eqn:Hj.
  - rewrite nth_error_app1; [reflexivity | eapply find_idx_lt; exact Hj].
  - cbn [find_idx fst]. destruct (N.eqb_spec (ck k) c); [congruence | reflexivity].
Qed.

Lemma lookup_app_self (l : list kv) k v :
  find_idx ck (ck k) l = None -> lookup ck (l ++ [(k, v)]) (ck k) = Some (k, v).
Proof.
  intros Hf. unfold lookup. rewrite (find_idx_app ck), Hf. cbn [find_idx fst]. rewrite N.eqb_refl.
  cbn [option_map]. rewrite Nat.add_0_r, nth_error_app2 by lia. rewrite Nat.sub_diag. reflexivity.
Qed.

(* the key OBJECTS of a list whose entry i got a new value are the same objects *)
Lemma map_fst_upd_value (l : list kv) i k0 v0 v :
  nth_error l i = Some (k0, v0) -> List.map fst (upd l i (k0, v)) = List.map fst l.
Proof.
  intros Hp. rewrite d_map_upd. cbn [fst]. apply d_upd_same.
  rewrite nth_error_map, Hp. reflexivity.
Qed.

End Others.

(* ======================================================================== *)
(* 2. the callback state while entry(k) runs                                 *)
(* ======================================================================== *)
Section EntryCb.
Context {K V Q T : Type} (E : env K V Q T) (debug : bool).
Context (ck : K -> N) (cq : Q -> N) (HL : Lawful E ck cq).
Notation M := (M K V T). Notation world := (world K V T). Notation map := (map K V). Notation kv := (K * V)%type.

(* the stored pairs the scan for k actually compares: up to and including the
   first one of k's class, all of them when there is none *)
Definition scan_pref (k : K) (l : list kv) : list kv :=
  match find_idx ck (ck k) l with Some j => firstn (S j) l | None => l end.

(* the callback state after comparing k with the pairs of l, in order *)
Definition scan_cb (k : K) (l : list kv) (s : T) : T :=
  fold_left (fun s p => snd (eqK E s (fst p) k)) l s.

(* the callback state when entry(k) returns: after the scan and, for a present
   key, after the Drop of the supplied key object *)
Definition entry_cb (k : K) (l : list kv) (s : T) : T :=
  match find_idx ck (ck k) l with
  | Some _ => snd (dropK E (scan_cb k (scan_pref k l) s) k)
  | None => scan_cb k l s
  end.

Lemma scan_pref_cons_hit k p t : ck (fst p) = ck k -> scan_pref k (p :: t) = [p].
Proof. intros H. unfold scan_pref. cbn [find_idx]. rewrite H, N.eqb_refl. reflexivity. Qed.

Lemma scan_pref_cons_miss k p t : ck (fst p) <> ck k -> scan_pref k (p :: t) = p :: scan_pref k t.
Proof.
  intros H. unfold scan_pref. cbn [find_idx]. destruct (N.eqb_spec (ck (fst p)) (ck k)); [contradiction|].
  destruct (find_idx ck (ck k) t); reflexivity.
Qed.

Lemma scan_loop_cb k : forall n i (w : world),
  (forall j, i <= j < i + n -> live (self w) j) ->
  wp (scan_loop (test_k E k) n i)
     (fun r w' =>
        self w' = self w /\ log w' = log w /\
        r = option_map (Nat.add i) (find_idx ck (ck k) (take_live (skipn i (slots (self w))) n)) /\
        cb w' = scan_cb k (scan_pref k (take_live (skipn i (slots (self w))) n)) (cb w))
     (fun _ => False) w.
Proof.
  induction n as [|n IH]; intros i w Hl; cbn [scan_loop].
  - apply wp_ret. cbn [take_live]. destruct (skipn i (slots (self w))); cbn [find_idx option_map]; auto.
  - destruct (Hl i ltac:(lia)) as [p Hp].
    rewrite (take_live_skipn_S _ i n p Hp).
    apply wp_bind. eapply wp_p_ref; [exact Hp|].
    apply wp_bind. unfold test_k. apply wp_cbk_eq. rewrite (law_eqK E ck cq HL).
    cbn [find_idx]. destruct (N.eqb_spec (ck (fst p)) (ck k)) as [Heq|Hne].
    + apply wp_ret. simp_w. rewrite (scan_pref_cons_hit k p _ Heq). cbn [option_map].
      split; [reflexivity|]. split; [reflexivity|]. split; [f_equal; lia | reflexivity].
    + eapply wp_mono; [apply (IH (S i)) | | auto]; cbn beta.
      * intros j Hj. simp_w. apply Hl. lia.
      * intros r w' (Hs & Hlg & Hr & Hc). simp_w.
        split; [exact Hs|]. split; [exact Hlg|]. split.
        -- rewrite Hr. destruct (find_idx ck (ck k) (take_live (skipn (S i) (slots (self w))) n)); cbn [option_map];
             [f_equal; lia | reflexivity].
        -- rewrite Hc, (scan_pref_cons_miss k p _ Hne). reflexivity.
Qed.

Lemma take_live_skipn0 (m : map) : take_live (skipn 0 (slots m)) (len m) = elems m.
Proof. reflexivity. Qed.

(* the scan of an insert path / of entry(k): result, and the exact callback state *)
Lemma scan_k_cb k (w : world) :
  WF (self w) ->
  wp (scan (test_k E k))
     (fun r w' => self w' = self w /\ log w' = log w /\
                  r = find_idx ck (ck k) (elems (self w)) /\
                  cb w' = scan_cb k (scan_pref k (elems (self w))) (cb w))
     (fun _ => False) w.
Proof.
  intros Hw. pose proof Hw as [Hl Hs]. unfold scan.
  apply wp_bind. apply wp_p_prefix; [intros _ | lia].
  apply wp_bind. apply wp_get_len.
  eapply wp_mono; [apply (scan_loop_cb k (len (self w)) 0 w) | | auto]; cbn beta.
  - intros j Hj. apply Hs. lia.
  - intros r w' (H1 & H2 & H3 & H4). rewrite take_live_skipn0 in H3, H4.
    split; [exact H1|]. split; [exact H2|]. split; [|exact H4].
    rewrite H3. destruct (find_idx ck (ck k) (elems (self w))); reflexivity.
Qed.

Lemma drop_key_cb k (w : world) :
  wp (drop_key E k)
     (fun _ w' => self w' = self w /\ logged w w' (ev_drops (idK E k)) /\ cb w' = snd (dropK E (cb w) k))
     (fun _ => False) w.
Proof.
  unfold drop_key. apply wp_bind. apply wp_emit. apply wp_bind. apply wp_cbd_eq.
  rewrite (law_dropK E ck cq HL). apply wp_ret. simp_w. split; [reflexivity|]. split; reflexivity.
Qed.

(* the destructor run by unwinding (its answer is ignored: any environment) *)
Lemma unwind_key_cb k (w : world) :
  wp (unwind_key E k)
     (fun _ w' => self w' = self w /\ logged w w' (ev_drops (idK E k)) /\ cb w' = snd (dropK E (cb w) k))
     (fun _ => False) w.
Proof.
  unfold unwind_key. apply wp_bind. apply wp_emit. apply wp_bind. apply wp_cbd_eq.
  apply wp_ret. simp_w. split; [reflexivity|]. split; reflexivity.
Qed.

(* entry(k), with the callback state it leaves (the state the next closure sees) *)
Lemma entry_of_cb k (w : world) :
  WF (self w) ->
  wp (entry_of E k)
     (fun e w' => self w' = self w /\ cb w' = entry_cb k (elems (self w)) (cb w) /\
                  match find_idx ck (ck k) (elems (self w)) with
                  | Some i => e = Occupied i /\ logged w w' (ev_drops (idK E k))
                  | None => e = Vacant k /\ log w' = log w
                  end)
     (fun _ => False) w.
Proof.
  intros Hw. unfold entry_of. apply wp_bind. apply wp_on_unwind_nopanic.
  eapply wp_mono; [apply scan_k_cb; exact Hw | | intros w' []]; cbn beta.
  intros r w1 (Hs1 & Hl1 & -> & Hc1). unfold entry_cb.
  destruct (find_idx ck (ck k) (elems (self w))) as [i|] eqn:Hf.
  - apply wp_bind. eapply wp_mono; [apply drop_key_cb | | intros w' []]; cbn beta.
    intros _ w2 (Hs2 & Hl2 & Hc2). apply wp_ret.
    split; [congruence|]. split; [rewrite Hc2, Hc1; reflexivity|]. split; [reflexivity|].
    unfold logged in *. congruence.
  - apply wp_ret. split; [exact Hs1|]. split; [|auto].
    rewrite Hc1. unfold scan_pref. rewrite Hf. reflexivity.
Qed.

(* ---- finding C11/1: the stored value IS the closure's result ---- *)
Lemma call_mk_exact (f : T -> option V * T) v s' (w : world) :
  f (cb w) = (Some v, s') ->
  wp (call_mk f) (fun r w' => r = v /\ self w' = self w /\ logged w w' [EvCall 2] /\ cb w' = s')
     (fun _ => False) w.
Proof.
  intros Hf. unfold call_mk. apply wp_bind. apply wp_emit. apply wp_cbo_eq. simp_w.
  rewrite Hf. cbn [fst snd]. simp_w. split; [reflexivity|]. split; [reflexivity|]. split; reflexivity.
Qed.

Lemma call_mk_panics (f : T -> option V * T) s' (w : world) :
  f (cb w) = (None, s') ->
  wp (call_mk f) (fun _ _ => False)
     (fun w' => self w' = self w /\ logged w w' [EvCall 2] /\ cb w' = s') w.
Proof.
  intros Hf. unfold call_mk. apply wp_bind. apply wp_emit. apply wp_cbo_eq. simp_w.
  rewrite Hf. cbn [fst snd]. simp_w. split; [reflexivity|]. split; reflexivity.
Qed.

(* absent key: the closure is called exactly once, in the callback state left
   by the scan; its result v is the value stored (or, in a full map, the value
   destroyed together with k by the unwinding) *)
Lemma or_insert_with_vacant_exact k (f : T -> option V * T) v s' (w : world) :
  WF (self w) -> find_idx ck (ck k) (elems (self w)) = None ->
  f (scan_cb k (elems (self w)) (cb w)) = (Some v, s') ->
  wp (e <- entry_of E k ;; or_insert_with E debug e f)
     (fun i w' => WF (self w') /\ cap (self w') = cap (self w) /\
                  elems (self w') = elems (self w) ++ [(k, v)] /\ i = length (elems (self w)) /\
                  logged w w' [EvCall 2] /\ len (self w) < cap (self w))
     (fun w' => self w' = self w /\ logged w w' ([EvCall 2] ++ ev_drops (idV E v ++ idK E k)) /\
                len (self w) = cap (self w)) w.
Proof.
  intros Hw Hf Hfv. apply wp_bind.
  eapply wp_mono; [apply entry_of_cb; exact Hw | | intros w' []]; cbn beta.
  intros e w1 (Hs1 & Hc1 & He). unfold entry_cb in Hc1. rewrite Hf in He, Hc1. destruct He as [-> Hl1].
  cbn [or_insert_with]. apply wp_bind.
  apply wp_on_unwind_nopanic.
  eapply wp_mono; [apply (call_mk_exact f v s' w1); rewrite Hc1; exact Hfv | | intros w' []]; cbn beta.
  intros r w2 (-> & Hs2 & Hl2 & _).
  assert (Hs : self w2 = self w) by congruence.
  eapply wp_mono; [apply (vac_insert_lawful E debug ck cq HL k v w2); rewrite Hs; assumption | |]; cbn beta; rewrite Hs.
  - intros i w3 (Hw3 & Hc3 & Hl3 & He3 & Hi3 & Hlt).
    split; [exact Hw3|]. split; [exact Hc3|]. split; [exact He3|]. split; [exact Hi3|].
    split; [|exact Hlt]. unfold logged in *. congruence.
  - intros w3 (Hs3 & Hlg3 & Hc). split; [congruence|]. split; [|exact Hc].
    eapply logged_trans; [eapply logged_from; [exact Hl1 | exact Hl2] | exact Hlg3].
Qed.

(* the closure panics: it was called once, nothing is inserted, and the key the
   VacantEntry owns is destroyed exactly once by the unwinding *)
Lemma or_insert_with_vacant_closure_panics k (f : T -> option V * T) s' (w : world) :
  WF (self w) -> find_idx ck (ck k) (elems (self w)) = None ->
  f (scan_cb k (elems (self w)) (cb w)) = (None, s') ->
  wp (e <- entry_of E k ;; or_insert_with E debug e f)
     (fun _ _ => False)
     (fun w' => self w' = self w /\ logged w w' ([EvCall 2] ++ ev_drops (idK E k)) /\
                cb w' = snd (dropK E s' k)) w.
Proof.
  intros Hw Hf Hfv. apply wp_bind.
  eapply wp_mono; [apply entry_of_cb; exact Hw | | intros w' []]; cbn beta.
  intros e w1 (Hs1 & Hc1 & He). unfold entry_cb in Hc1. rewrite Hf in He, Hc1. destruct He as [-> Hl1].
  cbn [or_insert_with]. apply wp_bind. apply wp_on_unwind.
  eapply wp_mono; [apply (call_mk_panics f s' w1); rewrite Hc1; exact Hfv | intros ? ? [] |]; cbn beta.
  intros w2 (Hs2 & Hl2 & Hc2).
  eapply wp_mono; [apply unwind_key_cb | | intros ? []]; cbn beta.
  intros _ w3 (Hs3 & Hl3 & Hc3). split; [congruence|]. split; [|congruence].
  eapply logged_from; [exact Hl1|]. eapply logged_trans; eassumption.
Qed.

Lemma or_insert_with_key_vacant_closure_panics k (f : K -> T -> option V * T) s' (w : world) :
  WF (self w) -> find_idx ck (ck k) (elems (self w)) = None ->
  f k (scan_cb k (elems (self w)) (cb w)) = (None, s') ->
  wp (e <- entry_of E k ;; or_insert_with_key E debug e f)
     (fun _ _ => False)
     (fun w' => self w' = self w /\ logged w w' ([EvCall 2] ++ ev_drops (idK E k)) /\
                cb w' = snd (dropK E s' k)) w.
Proof.
  intros Hw Hf Hfv. apply wp_bind.
  eapply wp_mono; [apply entry_of_cb; exact Hw | | intros w' []]; cbn beta.
  intros e w1 (Hs1 & Hc1 & He). unfold entry_cb in Hc1. rewrite Hf in He, Hc1. destruct He as [-> Hl1].
  cbn [or_insert_with_key]. apply wp_bind. apply wp_on_unwind.
  eapply wp_mono; [apply (call_mk_panics (f k) s' w1); rewrite Hc1; exact Hfv | intros ? ? [] |]; cbn beta.
  intros w2 (Hs2 & Hl2 & Hc2).
  eapply wp_mono; [apply unwind_key_cb | | intros ? []]; cbn beta.
  intros _ w3 (Hs3 & Hl3 & Hc3). split; [congruence|]. split; [|congruence].
  eapply logged_from; [exact Hl1|]. eapply logged_trans; eassumption.
Qed.

(* the form proposed by the audit (hypotheses of or_insert_with_lawful plus
   "absent" and "not full") *)
Lemma or_insert_with_vacant_tied k (f : T -> option V * T) (w : world) :
  WF (self w) ->
  (forall s, exists v s', f s = (Some v, s')) ->
  find_idx ck (ck k) (elems (self w)) = None -> len (self w) < cap (self w) ->
  wp (e <- entry_of E k ;; or_insert_with E debug e f)
     (fun i w' => exists v s', f (scan_cb k (elems (self w)) (cb w)) = (Some v, s') /\
                  elems (self w') = elems (self w) ++ [(k, v)] /\ i = length (elems (self w)) /\
                  WF (self w') /\ cap (self w') = cap (self w) /\ logged w w' [EvCall 2])
     (fun _ => False) w.
Proof.
  intros Hw Hfn Hf Hlt. destruct (Hfn (scan_cb k (elems (self w)) (cb w))) as (v & s' & Hfv).
  eapply wp_mono; [apply (or_insert_with_vacant_exact k f v s' w Hw Hf Hfv) | |]; cbn beta.
  - intros i w' (H1 & H2 & H3 & H4 & H5 & _). exists v, s'. auto 10.
  - intros w' (_ & _ & Hc). lia.
Qed.

Lemma or_insert_with_key_vacant_exact k (f : K -> T -> option V * T) v s' (w : world) :
  WF (self w) -> find_idx ck (ck k) (elems (self w)) = None ->
  f k (scan_cb k (elems (self w)) (cb w)) = (Some v, s') ->
  wp (e <- entry_of E k ;; or_insert_with_key E debug e f)
     (fun i w' => WF (self w') /\ cap (self w') = cap (self w) /\
                  elems (self w') = elems (self w) ++ [(k, v)] /\ i = length (elems (self w)) /\
                  logged w w' [EvCall 2] /\ len (self w) < cap (self w))
     (fun w' => self w' = self w /\ logged w w' ([EvCall 2] ++ ev_drops (idV E v ++ idK E k)) /\
                len (self w) = cap (self w)) w.
Proof.
  intros Hw Hf Hfv. apply wp_bind.
  eapply wp_mono; [apply entry_of_cb; exact Hw | | intros w' []]; cbn beta.
  intros e w1 (Hs1 & Hc1 & He). unfold entry_cb in Hc1. rewrite Hf in He, Hc1. destruct He as [-> Hl1].
  cbn [or_insert_with_key]. apply wp_bind.
  apply wp_on_unwind_nopanic.
  eapply wp_mono; [apply (call_mk_exact (f k) v s' w1); rewrite Hc1; exact Hfv | | intros w' []]; cbn beta.
  intros r w2 (-> & Hs2 & Hl2 & _).
  assert (Hs : self w2 = self w) by congruence.
  eapply wp_mono; [apply (vac_insert_lawful E debug ck cq HL k v w2); rewrite Hs; assumption | |]; cbn beta; rewrite Hs.
  - intros i w3 (Hw3 & Hc3 & Hl3 & He3 & Hi3 & Hlt).
    split; [exact Hw3|]. split; [exact Hc3|]. split; [exact He3|]. split; [exact Hi3|].
    split; [|exact Hlt]. unfold logged in *. congruence.
  - intros w3 (Hs3 & Hlg3 & Hc). split; [congruence|]. split; [|exact Hc].
    eapply logged_trans; [eapply logged_from; [exact Hl1 | exact Hl2] | exact Hlg3].
Qed.

Lemma or_insert_with_key_vacant_tied k (f : K -> T -> option V * T) (w : world) :
  WF (self w) ->
  (forall s, exists v s', f k s = (Some v, s')) ->
  find_idx ck (ck k) (elems (self w)) = None -> len (self w) < cap (self w) ->
  wp (e <- entry_of E k ;; or_insert_with_key E debug e f)
     (fun i w' => exists v s', f k (scan_cb k (elems (self w)) (cb w)) = (Some v, s') /\
                  elems (self w') = elems (self w) ++ [(k, v)] /\ i = length (elems (self w)) /\
                  WF (self w') /\ cap (self w') = cap (self w) /\ logged w w' [EvCall 2])
     (fun _ => False) w.
Proof.
  intros Hw Hfn Hf Hlt. destruct (Hfn (scan_cb k (elems (self w)) (cb w))) as (v & s' & Hfv).
  eapply wp_mono; [apply (or_insert_with_key_vacant_exact k f v s' w Hw Hf Hfv) | |]; cbn beta.
  - intros i w' (H1 & H2 & H3 & H4 & H5 & _). exists v, s'. auto 10.
  - intros w' (_ & _ & Hc). lia.
Qed.

(* present key: no closure hypothesis at all is needed — it is never called;
   the container is untouched (in particular the stored key object stays), the
   supplied key object is destroyed *)
Lemma or_insert_with_occupied k (f : T -> option V * T) j (w : world) :
  WF (self w) -> find_idx ck (ck k) (elems (self w)) = Some j ->
  wp (e <- entry_of E k ;; or_insert_with E debug e f)
     (fun i w' => i = j /\ self w' = self w /\ logged w w' (ev_drops (idK E k)) /\
                  exists k0 v0, nth_error (elems (self w')) j = Some (k0, v0) /\ ck k0 = ck k)
     (fun _ => False) w.
Proof.
  intros Hw Hf. apply wp_bind.
  eapply wp_mono; [apply (entry_of_lawful E ck cq HL k w Hw) | | intros w' []]; cbn beta.
  intros e w1 [Hs1 He]. rewrite Hf in He. destruct He as [-> Hl1]. cbn [or_insert_with].
  destruct (find_idx_slot ck _ _ _ Hw Hf) as [Hj [[k0 v0] (Hp & _ & Hc)]].
  eapply wp_mono; [apply occ_ref_lawful; rewrite Hs1; assumption | | intros w' []]; cbn beta.
  intros i w2 [-> ->]. rewrite Hs1. split; [reflexivity|]. split; [reflexivity|]. split; [exact Hl1|].
  exists k0, v0. auto.
Qed.

Lemma or_insert_with_key_occupied k (f : K -> T -> option V * T) j (w : world) :
  WF (self w) -> find_idx ck (ck k) (elems (self w)) = Some j ->
  wp (e <- entry_of E k ;; or_insert_with_key E debug e f)
     (fun i w' => i = j /\ self w' = self w /\ logged w w' (ev_drops (idK E k)) /\
                  exists k0 v0, nth_error (elems (self w')) j = Some (k0, v0) /\ ck k0 = ck k)
     (fun _ => False) w.
Proof.
  intros Hw Hf. apply wp_bind.
  eapply wp_mono; [apply (entry_of_lawful E ck cq HL k w Hw) | | intros w' []]; cbn beta.
  intros e w1 [Hs1 He]. rewrite Hf in He. destruct He as [-> Hl1]. cbn [or_insert_with_key].
  destruct (find_idx_slot ck _ _ _ Hw Hf) as [Hj [[k0 v0] (Hp & _ & Hc)]].
  eapply wp_mono; [apply occ_ref_lawful; rewrite Hs1; assumption | | intros w' []]; cbn beta.
  intros i w2 [-> ->]. rewrite Hs1. split; [reflexivity|]. split; [reflexivity|]. split; [exact Hl1|].
  exists k0, v0. auto.
Qed.

(* the discard of the supplied key by entry(k) on an occupied entry *)
Lemma entry_of_discards_key k i (w : world) :
  WF (self w) -> find_idx ck (ck k) (elems (self w)) = Some i ->
  wp (entry_of E k)
     (fun e w' => e = Occupied i /\ self w' = self w /\ logged w w' (ev_drops (idK E k)))
     (fun _ => False) w.
Proof.
  intros Hw Hf.
  eapply wp_mono; [apply (entry_of_lawful E ck cq HL k w Hw) | | intros w' []]; cbn beta.
  intros e w' [Hs He]. rewrite Hf in He. destruct He. auto.
Qed.

End EntryCb.

(* ======================================================================== *)
(* 3. "touch no other entry"; stateful and_modify; the stored key object     *)
(* ======================================================================== *)
Section Touch.
Context {K V Q T : Type} (E : env K V Q T) (debug : bool).
Context (ck : K -> N) (cq : Q -> N) (HL : Lawful E ck cq).
Notation M := (M K V T). Notation world := (world K V T). Notation map := (map K V). Notation kv := (K * V)%type.

(* "every other key's pair survives" for the two removing methods: afterwards
   every class other than the removed one maps to the SAME (key object, value)
   as before, the removed class maps to nothing, the keys are still unique *)
Lemma occ_remove_entry_others i (w : world) :
  WF (self w) -> Uniq ck (elems (self w)) -> i < len (self w) ->
  wp (occ_remove_entry debug i)
     (fun p w' => nth_error (elems (self w)) i = Some p /\ log w' = log w /\
                  WF (self w') /\ Uniq ck (elems (self w')) /\
                  Permutation (elems (self w)) (p :: elems (self w')) /\
                  lookup ck (elems (self w')) (ck (fst p)) = None /\
                  forall c, c <> ck (fst p) -> lookup ck (elems (self w')) c = lookup ck (elems (self w)) c)
     (fun _ => False) w.
Proof.
  intros Hw Hu Hi.
  eapply wp_mono; [apply (occ_remove_entry_lawful debug i w Hw Hi) | | intros w' []]; cbn beta.
  intros p w' (Hw' & _ & Hl & Hp & He). rewrite He.
  split; [exact Hp|]. split; [exact Hl|]. split; [exact Hw'|].
  split; [eapply swap_remove_uniq; eassumption|].
  split; [apply d_swap_remove_perm; exact Hp|].
  split; [apply lookup_swap_remove_self; assumption|].
  intros c Hc. apply (lookup_swap_remove_other ck _ i p); assumption.
Qed.

Lemma occ_remove_others i (w : world) :
  WF (self w) -> Uniq ck (elems (self w)) -> i < len (self w) ->
  wp (occ_remove E debug i)
     (fun v w' => exists k0, nth_error (elems (self w)) i = Some (k0, v) /\
                  logged w w' (ev_drops (idK E k0)) /\
                  WF (self w') /\ Uniq ck (elems (self w')) /\
                  Permutation (elems (self w)) ((k0, v) :: elems (self w')) /\
                  lookup ck (elems (self w')) (ck k0) = None /\
                  forall c, c <> ck k0 -> lookup ck (elems (self w')) c = lookup ck (elems (self w)) c)
     (fun _ => False) w.
Proof.
  intros Hw Hu Hi.
  eapply wp_mono; [apply (occ_remove_lawful E debug ck cq HL i w Hw Hi) | | intros w' []]; cbn beta.
  intros v w' (Hw' & _ & k0 & Hp & He & Hl). exists k0. rewrite He.
  split; [exact Hp|]. split; [exact Hl|]. split; [exact Hw'|].
  split; [eapply swap_remove_uniq; eassumption|].
  split; [apply d_swap_remove_perm; exact Hp|].
  split; [apply (lookup_swap_remove_self ck _ i (k0, v)); assumption|].
  intros c Hc. apply (lookup_swap_remove_other ck _ i (k0, v)); assumption.
Qed.

(* the same through entry(k): entry(k).remove() / remove_entry() on a present key *)
Lemma entry_remove_others k j (w : world) :
  WF (self w) -> Uniq ck (elems (self w)) -> find_idx ck (ck k) (elems (self w)) = Some j ->
  wp (e <- entry_of E k ;; match e with Occupied i => occ_remove E debug i | Vacant _ => panic end)
     (fun v w' => exists k0, nth_error (elems (self w)) j = Some (k0, v) /\ ck k0 = ck k /\
                  logged w w' (ev_drops (idK E k) ++ ev_drops (idK E k0)) /\
                  lookup ck (elems (self w')) (ck k) = None /\
                  forall c, c <> ck k -> lookup ck (elems (self w')) c = lookup ck (elems (self w)) c)
     (fun _ => False) w.
Proof.
  intros Hw Hu Hf. apply wp_bind.
  eapply wp_mono; [apply (entry_of_discards_key E ck cq HL k j w Hw Hf) | | intros w' []]; cbn beta.
  intros e w1 (-> & Hs1 & Hl1).
  destruct (find_idx_slot ck _ _ _ Hw Hf) as [Hj [p (Hp & _ & Hc)]].
  eapply wp_mono; [apply (occ_remove_others j w1); rewrite Hs1; assumption | | intros w' []]; cbn beta.
  rewrite Hs1. intros v w2 (k0 & Hp2 & Hl2 & _ & _ & _ & Hself & Hoth).
  rewrite Hp in Hp2. injection Hp2 as ->. cbn [fst] in Hc. exists k0.
  split; [exact Hp|]. split; [exact Hc|]. split; [eapply logged_trans; eassumption|].
  rewrite <- Hc. split; [exact Hself | exact Hoth].
Qed.

(* OccupiedEntry::insert: the key object of slot i stays, only its value changes;
   every other class is untouched *)
Lemma occ_insert_others i v (w : world) :
  WF (self w) -> forall k0 v0, nth_error (elems (self w)) i = Some (k0, v0) ->
  wp (occ_insert i v)
     (fun r w' => r = v0 /\ log w' = log w /\ WF (self w') /\
                  nth_error (elems (self w')) i = Some (k0, v) /\
                  List.map fst (elems (self w')) = List.map fst (elems (self w)) /\
                  forall c, c <> ck k0 -> lookup ck (elems (self w')) c = lookup ck (elems (self w)) c)
     (fun _ => False) w.
Proof.
  intros Hw k0 v0 Hp.
  eapply wp_mono; [apply (occ_insert_lawful i v w Hw k0 v0 Hp) | | intros w' []]; cbn beta.
  intros r w' (Hw' & _ & Hl & Hr & He). rewrite He.
  split; [exact Hr|]. split; [exact Hl|]. split; [exact Hw'|].
  split; [apply nth_error_upd_eq; apply nth_error_Some; rewrite Hp; discriminate|].
  split; [eapply map_fst_upd_value; exact Hp|].
  intros c Hc. eapply lookup_upd_other; eassumption.
Qed.

(* VacantEntry::insert: appends; every other class untouched *)
Lemma vac_insert_others k v (w : world) :
  WF (self w) -> find_idx ck (ck k) (elems (self w)) = None -> len (self w) < cap (self w) ->
  wp (vac_insert E debug k v)
     (fun i w' => i = length (elems (self w)) /\ log w' = log w /\ WF (self w') /\
                  lookup ck (elems (self w')) (ck k) = Some (k, v) /\
                  forall c, c <> ck k -> lookup ck (elems (self w')) c = lookup ck (elems (self w)) c)
     (fun _ => False) w.
Proof.
  intros Hw Hf Hlt.
  eapply wp_mono; [apply (vac_insert_lawful E debug ck cq HL k v w Hw Hf) | |]; cbn beta.
  - intros i w' (Hw' & _ & Hl & He & Hi & _). rewrite He.
    split; [exact Hi|]. split; [exact Hl|]. split; [exact Hw'|].
    split; [apply lookup_app_self; exact Hf|]. intros c Hc. apply lookup_app_other; exact Hc.
  - intros w' (_ & _ & Hc). lia.
Qed.

(* or_insert (any outcome, including the overflow panic): no other class changes *)
Lemma or_insert_others k v (w : world) :
  WF (self w) ->
  wp (e <- entry_of E k ;; or_insert E debug e v)
     (fun _ w' => forall c, c <> ck k -> lookup ck (elems (self w')) c = lookup ck (elems (self w)) c)
     (fun w' => self w' = self w) w.
Proof.
  intros Hw.
  eapply wp_mono; [apply (or_insert_lawful E debug ck cq HL k v w Hw) | |]; cbn beta.
  - intros i w' (_ & _ & H) c Hc.
    destruct (find_idx ck (ck k) (elems (self w))).
    + destruct H as (_ & -> & _). reflexivity.
    + destruct H as (_ & -> & _). apply lookup_app_other; exact Hc.
  - intros w' (Hs & _). exact Hs.
Qed.

(* or_insert_with / or_insert_with_key, ANY closure (it may panic): no other
   class changes, on any outcome *)
Lemma or_insert_with_others k (f : T -> option V * T) (w : world) :
  WF (self w) ->
  wp (e <- entry_of E k ;; or_insert_with E debug e f)
     (fun _ w' => forall c, c <> ck k -> lookup ck (elems (self w')) c = lookup ck (elems (self w)) c)
     (fun w' => self w' = self w) w.
Proof.
  intros Hw. apply wp_bind.
  eapply wp_mono; [apply (entry_of_lawful E ck cq HL k w Hw) | | intros w' []]; cbn beta.
  intros e w1 [Hs1 He].
  destruct (find_idx ck (ck k) (elems (self w))) as [j|] eqn:Hf.
  - destruct He as [-> _]. cbn [or_insert_with].
    destruct (find_idx_slot ck _ _ _ Hw Hf) as [Hj _].
    eapply wp_mono; [apply occ_ref_lawful; rewrite Hs1; assumption | | intros w' []]; cbn beta.
    intros i w2 [_ ->] c _. rewrite Hs1. reflexivity.
  - destruct He as [-> _]. cbn [or_insert_with]. apply wp_bind. apply wp_on_unwind. unfold call_mk.
    apply wp_bind. apply wp_emit. apply wp_cbo.
    2:{ intros s. eapply wp_mono; [apply (unwind_key_cb E) | | intros ? []]; cbn beta.
        intros _ w3 (Hs3 & _). simp_w. congruence. }
    intros v s. simp_w.
    eapply wp_mono; [apply (vac_insert_lawful E debug ck cq HL k v); simp_w; rewrite Hs1; assumption | |];
      cbn beta; simp_w; rewrite Hs1.
    + intros i w3 (_ & _ & _ & He3 & _) c Hc. rewrite He3. apply lookup_app_other; exact Hc.
    + intros w3 (Hs3 & _). exact Hs3.
Qed.

Lemma or_insert_with_key_others k (f : K -> T -> option V * T) (w : world) :
  WF (self w) ->
  wp (e <- entry_of E k ;; or_insert_with_key E debug e f)
     (fun _ w' => forall c, c <> ck k -> lookup ck (elems (self w')) c = lookup ck (elems (self w)) c)
     (fun w' => self w' = self w) w.
Proof.
  intros Hw. apply wp_bind.
  eapply wp_mono; [apply (entry_of_lawful E ck cq HL k w Hw) | | intros w' []]; cbn beta.
  intros e w1 [Hs1 He].
  destruct (find_idx ck (ck k) (elems (self w))) as [j|] eqn:Hf.
  - destruct He as [-> _]. cbn [or_insert_with_key].
    destruct (find_idx_slot ck _ _ _ Hw Hf) as [Hj _].
    eapply wp_mono; [apply occ_ref_lawful; rewrite Hs1; assumption | | intros w' []]; cbn beta.
    intros i w2 [_ ->] c _. rewrite Hs1. reflexivity.
  - destruct He as [-> _]. cbn [or_insert_with_key]. apply wp_bind. apply wp_on_unwind. unfold call_mk.
    apply wp_bind. apply wp_emit. apply wp_cbo.
    2:{ intros s. eapply wp_mono; [apply (unwind_key_cb E) | | intros ? []]; cbn beta.
        intros _ w3 (Hs3 & _). simp_w. congruence. }
    intros v s. simp_w.
    eapply wp_mono; [apply (vac_insert_lawful E debug ck cq HL k v); simp_w; rewrite Hs1; assumption | |];
      cbn beta; simp_w; rewrite Hs1.
    + intros i w3 (_ & _ & _ & He3 & _) c Hc. rewrite He3. apply lookup_app_other; exact Hc.
    + intros w3 (Hs3 & _). exact Hs3.
Qed.

(* ---- finding C11/5: and_modify with an arbitrary (stateful, possibly
   panicking) closure ---- *)
Definition modf_post (f : modf_t) (i : nat) (k0 : K) (v0 : V) (w w' : world) : Prop :=
  WF (self w') /\ cap (self w') = cap (self w) /\
  elems (self w') = upd (elems (self w)) i (k0, snd (fst (f (cb w) v0))) /\
  logged w w' [EvCall 3] /\ cb w' = snd (f (cb w) v0).

Lemma call_modf_stateful (f : modf_t) i (w : world) :
  WF (self w) -> forall k0 v0, nth_error (elems (self w)) i = Some (k0, v0) ->
  wp (call_modf f i)
     (fun _ w' => fst (fst (f (cb w) v0)) = false /\ modf_post f i k0 v0 w w')
     (fun w' => fst (fst (f (cb w) v0)) = true /\ modf_post f i k0 v0 w w') w.
Proof.
  intros Hw k0 v0 Hp. destruct (elems_nth_slot _ _ _ Hw Hp) as [Hi Hsl].
  assert (Hic : i < cap (self w)) by (apply live_lt_cap; eexists; exact Hsl).
  unfold call_modf. apply wp_bind. eapply wp_p_ref; [exact Hsl|].
  unfold wp, modf_post. cbn [fst snd].
  destruct (f (cb w) v0) as [[boom v'] s]. cbn [fst snd].
  assert (HP : WF (set_slot_m (self w) i (Some (k0, v'))) /\
               cap (set_slot_m (self w) i (Some (k0, v'))) = cap (self w) /\
               elems (set_slot_m (self w) i (Some (k0, v'))) = upd (elems (self w)) i (k0, v')).
  { split; [apply WF_set_slot_some; auto|]. split; [apply cap_set_slot | apply elems_set_slot; auto]. }
  destruct HP as (H1 & H2 & H3).
  destruct boom; cbn [self log cb];
    (split; [reflexivity|]; split; [exact H1|]; split; [exact H2|]; split; [exact H3|]; split; reflexivity).
Qed.

(* entry(k).and_modify(f) for ANY f: it runs only when occupied, exactly once,
   on the stored value, in the callback state entry(k) left; whatever value it
   leaves (also when it then panics) is the value now stored under the SAME key
   object; no other entry changes *)
Lemma and_modify_stateful k (f : modf_t) (w : world) :
  WF (self w) ->
  wp (e <- entry_of E k ;; and_modify e f)
     (fun e' w' =>
        match find_idx ck (ck k) (elems (self w)) with
        | Some j => e' = Occupied j /\
                    exists k0 v0, nth_error (elems (self w)) j = Some (k0, v0) /\
                      let r := f (entry_cb E ck k (elems (self w)) (cb w)) v0 in
                      fst (fst r) = false /\
                      WF (self w') /\ cap (self w') = cap (self w) /\
                      elems (self w') = upd (elems (self w)) j (k0, snd (fst r)) /\
                      cb w' = snd r /\
                      logged w w' (ev_drops (idK E k) ++ [EvCall 3])
        | None => e' = Vacant k /\ self w' = self w /\ log w' = log w
        end)
     (fun w' =>
        exists j k0 v0, find_idx ck (ck k) (elems (self w)) = Some j /\
          nth_error (elems (self w)) j = Some (k0, v0) /\
          let r := f (entry_cb E ck k (elems (self w)) (cb w)) v0 in
          fst (fst r) = true /\
          WF (self w') /\ cap (self w') = cap (self w) /\
          elems (self w') = upd (elems (self w)) j (k0, snd (fst r)) /\
          cb w' = snd r /\
          logged w w' (ev_drops (idK E k) ++ [EvCall 3])) w.
Proof.
  intros Hw. apply wp_bind.
  eapply wp_mono; [apply (entry_of_cb E ck cq HL k w Hw) | | intros w' []]; cbn beta.
  intros e w1 (Hs1 & Hc1 & He).
  destruct (find_idx ck (ck k) (elems (self w))) as [j|] eqn:Hf.
  - destruct He as [-> Hl1]. cbn [and_modify].
    destruct (find_idx_slot ck _ _ _ Hw Hf) as [Hj [[k0 v0] [Hp _]]].
    apply wp_bind.
    eapply wp_mono; [apply (occ_ref_lawful j w1); rewrite Hs1; assumption | | intros w' []]; cbn beta.
    intros i w2 [-> ->]. apply wp_bind.
    eapply wp_mono; [apply (call_modf_stateful f j w1); [rewrite Hs1; exact Hw | rewrite Hs1; exact Hp] | |];
      cbn beta; unfold modf_post; rewrite Hs1, Hc1.
    + intros _ w3 (Hb & Hw3 & Hc3 & He3 & Hl3 & Hcb3). apply wp_ret.
      split; [reflexivity|]. exists k0, v0. split; [exact Hp|]. cbv zeta.
      split; [exact Hb|]. split; [exact Hw3|]. split; [exact Hc3|]. split; [exact He3|].
      split; [exact Hcb3|]. eapply logged_trans; eassumption.
    + intros w3 (Hb & Hw3 & Hc3 & He3 & Hl3 & Hcb3).
      exists j, k0, v0. split; [reflexivity|]. split; [exact Hp|]. cbv zeta.
      split; [exact Hb|]. split; [exact Hw3|]. split; [exact Hc3|]. split; [exact He3|].
      split; [exact Hcb3|]. eapply logged_trans; eassumption.
  - destruct He as [-> Hl1]. cbn [and_modify]. apply wp_ret. auto.
Qed.

(* consequences that need no knowledge of f: on EVERY outcome the key objects
   are the same objects in the same slots, and every class other than k's maps
   to what it mapped to *)
Lemma and_modify_others k (f : modf_t) (w : world) :
  WF (self w) ->
  let post := fun w' : world =>
    List.map fst (elems (self w')) = List.map fst (elems (self w)) /\
    forall c, c <> ck k -> lookup ck (elems (self w')) c = lookup ck (elems (self w)) c in
  wp (e <- entry_of E k ;; and_modify e f) (fun _ => post) post w.
Proof.
  intros Hw post.
  eapply wp_mono; [apply (and_modify_stateful k f w Hw) | |]; cbn beta; unfold post.
  - intros e' w' H. destruct (find_idx ck (ck k) (elems (self w))) as [j|] eqn:Hf.
    + destruct H as (_ & k0 & v0 & Hp & _ & _ & _ & He & _). rewrite He.
      destruct (find_idx_inv ck _ _ _ Hf) as [[p [Hp' Hc]] _]. rewrite Hp in Hp'. injection Hp' as <-.
      cbn [fst] in Hc. split; [eapply map_fst_upd_value; exact Hp|].
      intros c Hcc. eapply lookup_upd_other; [exact Hp | congruence].
    + destruct H as (_ & -> & _). split; [reflexivity | intros; reflexivity].
  - intros w' (j & k0 & v0 & Hf & Hp & _ & _ & _ & He & _). rewrite He.
    destruct (find_idx_inv ck _ _ _ Hf) as [[p [Hp' Hc]] _]. rewrite Hp in Hp'. injection Hp' as <-.
    cbn [fst] in Hc. split; [eapply map_fst_upd_value; exact Hp|].
    intros c Hcc. eapply lookup_upd_other; [exact Hp | congruence].
Qed.

(* ---- chains of and_modify ---- *)
Fixpoint and_modify_all (e : @entry K) (fs : list modf_t) : M (@entry K) :=
  match fs with
  | [] => ret e
  | f :: t => e' <- and_modify e f ;; and_modify_all e' t
  end.

Definition pure_modf (f : modf_t) (g : V -> V) : Prop := forall (s : T) v, fst (f s v) = (false, g v).

Lemma and_modify_occ_pure (f : modf_t) g j (w : world) :
  WF (self w) -> pure_modf f g ->
  forall k0 v0, nth_error (elems (self w)) j = Some (k0, v0) ->
  wp (and_modify (Occupied j) f)
     (fun e' w' => e' = Occupied j /\ WF (self w') /\ cap (self w') = cap (self w) /\
                   elems (self w') = upd (elems (self w)) j (k0, g v0) /\ logged w w' [EvCall 3])
     (fun _ => False) w.
Proof.
  intros Hw Hfg k0 v0 Hp. destruct (elems_nth_slot _ _ _ Hw Hp) as [Hj _].
  cbn [and_modify]. apply wp_bind.
  eapply wp_mono; [apply (occ_ref_lawful j w Hw Hj) | | intros w' []]; cbn beta.
  intros i w1 [-> ->]. apply wp_bind.
  eapply wp_mono; [apply (call_modf_lawful f g j w Hw Hfg k0 v0 Hp) | | intros w' []]; cbn beta.
  intros _ w2 (H1 & H2 & H3 & H4). apply wp_ret. auto.
Qed.

Lemma and_modify_all_occ fs gs : Forall2 pure_modf fs gs ->
  forall j (w : world), WF (self w) ->
  forall k0 v0, nth_error (elems (self w)) j = Some (k0, v0) ->
  wp (and_modify_all (Occupied j) fs)
     (fun e' w' => e' = Occupied j /\ WF (self w') /\ cap (self w') = cap (self w) /\
                   elems (self w') = upd (elems (self w)) j (k0, fold_left (fun a g => g a) gs v0) /\
                   logged w w' (repeat (EvCall 3) (length fs)))
     (fun _ => False) w.
Proof.
  induction 1 as [|f g fs gs Hfg _ IH]; intros j w Hw k0 v0 Hp; cbn [and_modify_all fold_left length repeat].
  - apply wp_ret. split; [reflexivity|]. split; [exact Hw|]. split; [reflexivity|].
    split; [symmetry; apply d_upd_same; exact Hp | apply logged_nil].
  - apply wp_bind.
    eapply wp_mono; [apply (and_modify_occ_pure f g j w Hw Hfg k0 v0 Hp) | | intros w' []]; cbn beta.
    intros e1 w1 (-> & Hw1 & Hc1 & He1 & Hl1).
    assert (Hp1 : nth_error (elems (self w1)) j = Some (k0, g v0)).
    { rewrite He1. apply nth_error_upd_eq. apply nth_error_Some. rewrite Hp. discriminate. }
    eapply wp_mono; [apply (IH j w1 Hw1 k0 (g v0) Hp1) | | intros w' []]; cbn beta.
    intros e2 w2 (-> & Hw2 & Hc2 & He2 & Hl2).
    split; [reflexivity|]. split; [exact Hw2|]. split; [congruence|].
    split; [rewrite He2, He1; apply me_upd_upd|].
    change (EvCall 3 :: repeat (EvCall 3) (length fs)) with ([EvCall 3] ++ repeat (EvCall 3) (length fs)).
    eapply logged_trans; eassumption.
Qed.

Lemma and_modify_all_vac k fs (w : world) :
  wp (and_modify_all (Vacant k) fs) (fun e' w' => e' = Vacant k /\ w' = w) (fun _ => False) w.
Proof.
  induction fs as [|f t IH]; cbn [and_modify_all]; [apply wp_ret; auto|].
  cbn [and_modify]. apply wp_bind. apply wp_ret. exact IH.
Qed.

(* entry(k).and_modify(f1)...and_modify(fn).or_insert(v): present -> the value
   becomes gn(...(g1 v0)), every fi runs once, v is discarded; absent -> no fi
   runs and (k, v) is appended *)
Lemma and_modify_chain_or_insert k fs gs v (w : world) :
  WF (self w) -> Forall2 pure_modf fs gs ->
  wp (e <- entry_of E k ;; e' <- and_modify_all e fs ;; or_insert E debug e' v)
     (fun i w' => WF (self w') /\ cap (self w') = cap (self w) /\
        match find_idx ck (ck k) (elems (self w)) with
        | Some j => i = j /\
                    exists k0 v0, nth_error (elems (self w)) j = Some (k0, v0) /\
                      elems (self w') = upd (elems (self w)) j (k0, fold_left (fun a g => g a) gs v0) /\
                      logged w w' (ev_drops (idK E k) ++ repeat (EvCall 3) (length fs) ++ ev_drops (idV E v))
        | None => i = length (elems (self w)) /\
                  elems (self w') = elems (self w) ++ [(k, v)] /\ log w' = log w
        end)
     (fun w' => self w' = self w /\ logged w w' (ev_drops (idV E v ++ idK E k)) /\
                find_idx ck (ck k) (elems (self w)) = None /\ len (self w) = cap (self w)) w.
Proof.
  intros Hw HF. apply wp_bind.
  eapply wp_mono; [apply (entry_of_lawful E ck cq HL k w Hw) | | intros w' []]; cbn beta.
  intros e w1 [Hs1 He].
  destruct (find_idx ck (ck k) (elems (self w))) as [j|] eqn:Hf.
  - destruct He as [-> Hl1].
    destruct (find_idx_slot ck _ _ _ Hw Hf) as [Hj [[k0 v0] [Hp _]]].
    apply wp_bind.
    eapply wp_mono; [apply (and_modify_all_occ fs gs HF j w1); [rewrite Hs1; exact Hw | rewrite Hs1; exact Hp] | | intros w' []];
      cbn beta; rewrite Hs1.
    intros e2 w2 (-> & Hw2 & Hc2 & He2 & Hl2). cbn [or_insert].
    assert (Hj2 : j < len (self w2)).
    { rewrite <- (elems_length _ Hw2), He2, upd_length, (elems_length _ Hw). exact Hj. }
    apply wp_bind.
    eapply wp_mono; [apply (occ_ref_lawful j w2 Hw2 Hj2) | | intros w' []]; cbn beta.
    intros i w3 [-> ->]. apply wp_bind.
    eapply wp_mono; [apply (drop_val_lawful E ck cq HL) | | intros w' []]; cbn beta.
    intros _ w4 [Hs4 Hl4]. apply wp_ret. rewrite Hs4.
    split; [exact Hw2|]. split; [exact Hc2|]. split; [reflexivity|].
    exists k0, v0. split; [exact Hp|]. split; [exact He2|].
    eapply logged_trans; [exact Hl1|]. eapply logged_trans; eassumption.
  - destruct He as [-> Hl1]. apply wp_bind.
    eapply wp_mono; [apply and_modify_all_vac | | intros w' []]; cbn beta.
    intros e2 w2 [-> ->]. cbn [or_insert].
    eapply wp_mono; [apply (vac_insert_lawful E debug ck cq HL k v w1); rewrite Hs1; assumption | |]; cbn beta; rewrite Hs1.
    + intros i w3 (Hw3 & Hc3 & Hl3 & He3 & Hi3 & _).
      split; [exact Hw3|]. split; [exact Hc3|]. split; [exact Hi3|]. split; [exact He3 | congruence].
    + intros w3 (Hs3 & Hlg3 & Hc). split; [congruence|].
      split; [eapply logged_from; eassumption | auto].
Qed.

(* ---- finding C12/8: the stored key object under and_modify ---- *)
Lemma and_modify_keeps_key k (f : modf_t) j (w : world) :
  WF (self w) -> find_idx ck (ck k) (elems (self w)) = Some j ->
  let post := fun w' : world =>
    List.map fst (elems (self w')) = List.map fst (elems (self w)) /\
    (exists k0 v0 v', nth_error (elems (self w)) j = Some (k0, v0) /\
                      nth_error (elems (self w')) j = Some (k0, v') /\ ck k0 = ck k) /\
    logged w w' (ev_drops (idK E k) ++ [EvCall 3]) in
  wp (e <- entry_of E k ;; and_modify e f) (fun _ => post) post w.
Proof.
  intros Hw Hf post.
  destruct (find_idx_inv ck _ _ _ Hf) as [[p0 [Hp0 Hc0]] _].
  eapply wp_mono; [apply (and_modify_stateful k f w Hw) | |]; cbn beta; unfold post; rewrite ?Hf.
  - intros e' w' (_ & k0 & v0 & Hp & _ & _ & _ & He & _ & Hl). rewrite He.
    rewrite Hp in Hp0. injection Hp0 as <-. cbn [fst] in Hc0.
    split; [eapply map_fst_upd_value; exact Hp|]. split; [|exact Hl].
    eexists k0, v0, _. split; [exact Hp|]. split; [|exact Hc0].
    apply nth_error_upd_eq. apply nth_error_Some. rewrite Hp. discriminate.
  - intros w' (j' & k0 & v0 & Hf' & Hp & _ & _ & _ & He & _ & Hl). rewrite He.
    injection Hf' as <-.
    rewrite Hp in Hp0. injection Hp0 as <-. cbn [fst] in Hc0.
    split; [eapply map_fst_upd_value; exact Hp|]. split; [|exact Hl].
    eexists k0, v0, _. split; [exact Hp|]. split; [|exact Hc0].
    apply nth_error_upd_eq. apply nth_error_Some. rewrite Hp. discriminate.
Qed.

End Touch.

(* ======================================================================== *)
(* 4. Set::insert discards the supplied element; iteration exposes the       *)
(*    stored key objects                                                     *)
(* ======================================================================== *)
Section SetInsertLog.
Context {K Q T : Type} (E : env K unit Q T) (debug : bool).
Context (ck : K -> N) (cq : Q -> N) (HL : Lawful E ck cq).
Notation world := (world K unit T).

(* finding C12/7 *)
Lemma s_insert_present_discards k i (w : world) :
  WF (self w) -> find_idx ck (ck k) (elems (self w)) = Some i ->
  wp (s_insert E debug k)
     (fun r w' => r = false /\ elems (self w') = elems (self w) /\
                  logged w w' (ev_drops (idK E k)) /\
                  WF (self w') /\ cap (self w') = cap (self w))
     (fun _ => False) w.
Proof.
  intros Hw Hf. unfold s_insert. apply wp_bind.
  eapply wp_mono; [apply (insert_lawful E debug ck cq HL k tt w Hw) | |]; cbn beta.
  - intros r w' (Hw' & Hc' & He & Hr & Hl). apply wp_ret.
    destruct (find_idx_slot ck _ _ _ Hw Hf) as [_ [[k0 []] (Hp & _ & _)]].
    unfold l_insert in He, Hr, Hl. rewrite Hf, Hp in He, Hr, Hl. cbn [fst snd option_map] in He, Hr, Hl.
    subst r. split; [reflexivity|]. split; [rewrite He; apply d_upd_same; exact Hp|].
    split; [exact Hl|]. split; assumption.
  - intros w' (_ & _ & Hn & _). congruence.
Qed.

(* Set::get is Map::get_key_value, by definition *)
Lemma s_get_is_get_key_value (q : Q) : s_get E q = get_key_value E q.
Proof. reflexivity. Qed.

End SetInsertLog.

Section IterKeys.
Context {K V T : Type}.
Notation world := (world K V T). Notation kv := (K * V)%type.

(* finding C12/9.  A borrowing iterator yields slot indices (references);
   dereferencing them ([read_slots]) gives exactly the stored pairs — the
   objects themselves, not merely pairs of the same class — in slot order *)
Lemma iter_exposes_stored n (w : world) :
  WF (self w) ->
  wp (c <- iter ;; x <- iter_run n c ;; read_slots (fst x))
     (fun ps w' => w' = w /\ ps = firstn n (elems (self w)) /\
                   List.map fst ps = firstn n (List.map fst (elems (self w))))
     (fun _ => False) w.
Proof.
  intros Hw.
  apply (wp_bind_assoc iter (fun c => iter_run n c) (fun x => read_slots (fst x))).
  apply wp_bind.
  eapply wp_mono; [apply iter_run_exact; exact Hw | | intros ? []]; cbn beta.
  intros x w1 (-> & Hfst & _). rewrite Hfst.
  eapply wp_mono; [apply (read_slots_spec (Nat.min n (len (self w))) 0 w Hw); lia | | intros ? []]; cbn beta.
  intros ps w2 [-> ->]. cbn [skipn].
  assert (H : firstn (Nat.min n (len (self w))) (elems (self w)) = firstn n (elems (self w))).
  { rewrite <- (elems_length _ Hw). apply firstn_min_length. }
  rewrite H. split; [reflexivity|]. split; [reflexivity|]. symmetry. apply firstn_map.
Qed.

(* the consuming iterator hands out the stored pairs themselves (last first) *)
Lemma into_exposes_stored n (w : world) :
  WF (self w) ->
  wp (into_run n)
     (fun r w' => r = firstn n (rev (elems (self w))) /\
                  List.map fst r = firstn n (rev (List.map fst (elems (self w)))) /\ log w' = log w)
     (fun _ => False) w.
Proof.
  intros Hw. eapply wp_mono; [apply into_run_spec; exact Hw | | auto]; cbn beta.
  intros r w' (_ & _ & Hl & -> & _). split; [reflexivity|]. split; [|exact Hl].
  rewrite <- firstn_map, map_rev. reflexivity.
Qed.

(* so does Drain (in slot order) *)
Lemma drain_exposes_stored n (w : world) :
  WF (self w) ->
  wp (c <- drain ;; drain_run n c)
     (fun r w' => fst r = firstn n (elems (self w)) /\
                  List.map fst (fst r) = firstn n (List.map fst (elems (self w))) /\ log w' = log w)
     (fun _ => False) w.
Proof.
  intros Hw. eapply wp_mono; [apply drain_run_strong; exact Hw | | auto]; cbn beta.
  intros r w' (Hr & _ & _ & _ & _ & Hl & _). split; [exact Hr|]. split; [|exact Hl].
  rewrite Hr. symmetry. apply firstn_map.
Qed.

End IterKeys.

(* ======================================================================== *)
(* 5. result-level specification of the chains of Exec.entry_chain           *)
(*    (honest script: lawful environment, closures that do not panic)        *)
(* ======================================================================== *)
Section Chains.
Context (debug : bool) (sc : script) (Hh : honest sc).
Notation Em := (env_map sc).
Notation mworld := (world key vobj cstate).
Let HLm : Lawful Em kcls qcls := env_map_lawful sc Hh.

(* --- the scripted closures under an honest script --- *)
Lemma me_call_tick_honest s : fst (call_tick sc s) = false.
Proof. pose proof Hh as [_ Hf]. unfold call_tick. rewrite Hf. reflexivity. Qed.

Lemma me_call_tick_next_id s : next_id (snd (call_tick sc s)) = next_id s.
Proof. reflexivity. Qed.

Lemma mk_val_exact v s : mk_val sc v s = (Some v, snd (call_tick sc s)).
Proof.
  unfold mk_val. pose proof (me_call_tick_honest s) as Hb.
  destruct (call_tick sc s) as [boom s']. cbn [fst snd] in *. subst boom. reflexivity.
Qed.

Lemma mk_default_exact s :
  exists s', mk_default sc s = (Some {| vid := next_id s; vdat := 0 |}, s').
Proof.
  unfold mk_default. pose proof (me_call_tick_honest s) as Hb. pose proof (me_call_tick_next_id s) as Hn.
  destruct (call_tick sc s) as [boom s']. cbn [fst snd] in *. subst boom. rewrite Hn. eexists. reflexivity.
Qed.

Lemma modf_add_pure : pure_modf (modf_add sc) (fun v => {| vid := vid v; vdat := vdat v + 100 |}).
Proof.
  intros s v. unfold modf_add. pose proof (me_call_tick_honest s) as Hb.
  destruct (call_tick sc s) as [boom s']. cbn [fst] in Hb. subst boom. reflexivity.
Qed.

(* comparisons and Drop do not allocate identities *)
Lemma eq_answer_next_id s t : next_id (snd (eq_answer sc s t)) = next_id s.
Proof. unfold eq_answer. destruct (_ && _); reflexivity. Qed.

Lemma scan_cb_next_id k l s : next_id (scan_cb Em k l s) = next_id s.
Proof.
  unfold scan_cb. revert s. induction l as [|p t IH]; intros s; cbn [fold_left]; [reflexivity|].
  rewrite IH. cbn [env_map eqK]. apply eq_answer_next_id.
Qed.

(* --- rendering helpers --- *)
Lemma r_slotval_exact tag i k0 v0 (w : mworld) :
  WF (self w) -> nth_error (Spec.elems (self w)) i = Some (k0, v0) ->
  wp (r_slotval tag i) (fun r w' => r = [tag; nn i] ++ r_val v0 /\ w' = w) (fun _ => False) w.
Proof.
  intros Hw Hp. destruct (elems_nth_slot _ _ _ Hw Hp) as [_ Hsl].
  unfold r_slotval. apply wp_bind. eapply wp_p_ref; [exact Hsl|]. apply wp_ret. split; reflexivity.
Qed.

Lemma set_dat_exact i d k0 v0 (w : mworld) :
  WF (self w) -> nth_error (Spec.elems (self w)) i = Some (k0, v0) ->
  wp (set_dat i d)
     (fun _ w' => WF (self w') /\ cap (self w') = cap (self w) /\ log w' = log w /\
                  Spec.elems (self w') = upd (Spec.elems (self w)) i (k0, {| vid := vid v0; vdat := d |}))
     (fun _ => False) w.
Proof.
  intros Hw Hp. destruct (elems_nth_slot _ _ _ Hw Hp) as [Hi Hsl].
  assert (Hic : i < cap (self w)) by (apply live_lt_cap; eexists; exact Hsl).
  unfold set_dat. apply wp_bind. eapply wp_p_replace; [exact Hsl|]. apply wp_ret. simp_w. cbn [fst snd].
  split; [apply WF_set_slot_some; auto|]. split; [apply cap_set_slot|]. split; [reflexivity|].
  apply elems_set_slot; auto.
Qed.

(* an index-producing computation, then r_slotval *)
Lemma wp_then_slotval (c : Mm nat) tag (Qn : list N -> mworld -> Prop) (Qp : mworld -> Prop) (w : mworld) :
  wp c (fun i w1 => exists k0 v0, WF (self w1) /\ nth_error (Spec.elems (self w1)) i = Some (k0, v0) /\
                                  Qn ([tag; nn i] ++ r_val v0) w1) Qp w ->
  wp (i <- c ;; r_slotval tag i) Qn Qp w.
Proof.
  intros H. apply wp_bind. eapply wp_mono; [exact H | | auto]; cbn beta.
  intros i w1 (k0 & v0 & Hw1 & Hp & HQ).
  eapply wp_mono; [apply (r_slotval_exact tag i k0 v0 w1 Hw1 Hp) | | intros ? []]; cbn beta.
  intros r w2 [-> ->]. exact HQ.
Qed.

Lemma nth_error_snoc_len {A} (l : list A) x : nth_error (l ++ [x]) (length l) = Some x.
Proof. rewrite nth_error_app2 by lia. rewrite Nat.sub_diag. reflexivity. Qed.

(* slot i, re-borrowed, rendered, its payload overwritten (chains 7 and 11) *)
Lemma slot_render_write j d k0 v0 (w : mworld) :
  WF (self w) -> nth_error (Spec.elems (self w)) j = Some (k0, v0) ->
  wp (i <- occ_into_mut j ;; r <- r_slotval 0 i ;; set_dat i d ;; ret r)
     (fun r w' => r = [0%N; nn j] ++ r_val v0 /\ WF (self w') /\ cap (self w') = cap (self w) /\
                  log w' = log w /\
                  Spec.elems (self w') = upd (Spec.elems (self w)) j (k0, {| vid := vid v0; vdat := d |}))
     (fun _ => False) w.
Proof.
  intros Hw Hp. destruct (elems_nth_slot _ _ _ Hw Hp) as [Hj _].
  apply wp_bind. eapply wp_mono; [apply (occ_ref_lawful j w Hw Hj) | | intros ? []]; cbn beta.
  intros i w1 [-> ->]. apply wp_bind.
  eapply wp_mono; [apply (r_slotval_exact 0 j k0 v0 w Hw Hp) | | intros ? []]; cbn beta.
  intros r w2 [-> ->]. apply wp_bind.
  eapply wp_mono; [apply (set_dat_exact j d k0 v0 w Hw Hp) | | intros ? []]; cbn beta.
  intros _ w3 (H1 & H2 & H3 & H4). apply wp_ret. auto.
Qed.

(* ---------------------------------------------------------------------- *)
(* chain 0: entry(k).or_insert(v)                                          *)
(* ---------------------------------------------------------------------- *)
Lemma chain0_spec k v (w : mworld) :
  WF (self w) ->
  wp (entry_chain debug sc k 0 v)
     (fun r w' => WF (self w') /\ cap (self w') = cap (self w) /\
        match find_idx kcls (kcls k) (Spec.elems (self w)) with
        | Some j => exists k0 v0, nth_error (Spec.elems (self w)) j = Some (k0, v0) /\
                      r = [0%N; nn j] ++ r_val v0 /\ self w' = self w /\
                      logged w w' [EvDrop (kid k); EvDrop (vid v)]
        | None => r = [0%N; nn (len (self w))] ++ r_val v /\
                  Spec.elems (self w') = Spec.elems (self w) ++ [(k, v)] /\ log w' = log w /\
                  len (self w) < cap (self w)
        end)
     (fun w' => self w' = self w /\ logged w w' [EvDrop (vid v); EvDrop (kid k)] /\
                find_idx kcls (kcls k) (Spec.elems (self w)) = None /\ len (self w) = cap (self w)) w.
Proof.
  intros Hw.
  change (entry_chain debug sc k 0 v) with (e <- entry_of Em k ;; i <- or_insert Em debug e v ;; r_slotval 0 i).
  apply (wp_bind_assoc (entry_of Em k) (fun e => or_insert Em debug e v) (fun i => r_slotval 0 i)).
  apply wp_then_slotval.
  eapply wp_mono; [apply (or_insert_lawful Em debug kcls qcls HLm k v w Hw) | |]; cbn beta.
  - intros i w' (Hw' & Hc' & H).
    destruct (find_idx kcls (kcls k) (Spec.elems (self w))) as [j|] eqn:Hf.
    + destruct H as (-> & Hs & Hl). destruct (find_idx_slot kcls _ _ _ Hw Hf) as [_ [[k0 v0] (Hp & _ & _)]].
      exists k0, v0. split; [exact Hw'|]. split; [rewrite Hs; exact Hp|].
      split; [exact Hw'|]. split; [exact Hc'|]. exists k0, v0. auto.
    + destruct H as (-> & He & Hl). exists k, v. split; [exact Hw'|].
      split; [rewrite He; apply nth_error_snoc_len|].
      split; [exact Hw'|]. split; [exact Hc'|]. rewrite (elems_length _ Hw).
      split; [reflexivity|]. split; [exact He|]. split; [exact Hl|].
      pose proof (elems_length _ Hw') as HL'. rewrite He, app_length, (elems_length _ Hw) in HL'. cbn [length] in HL'.
      pose proof (WF_len_le_cap _ Hw'). lia.
  - intros w' H. exact H.
Qed.

(* ---------------------------------------------------------------------- *)
(* chains 1, 2: or_insert_with(|| v) / or_insert_with_key(|_| v)            *)
(* ---------------------------------------------------------------------- *)
Definition chain_with_post k v (w : mworld) (r : list N) (w' : mworld) : Prop :=
  WF (self w') /\ cap (self w') = cap (self w) /\
  match find_idx kcls (kcls k) (Spec.elems (self w)) with
  | Some j => exists k0 v0, nth_error (Spec.elems (self w)) j = Some (k0, v0) /\
                r = [0%N; nn j] ++ r_val v0 /\ self w' = self w /\ logged w w' [EvDrop (kid k)]
  | None => r = [0%N; nn (len (self w))] ++ r_val v /\
            Spec.elems (self w') = Spec.elems (self w) ++ [(k, v)] /\ logged w w' [EvCall 2] /\
            len (self w) < cap (self w)
  end.
Definition chain_with_panic k v (w w' : mworld) : Prop :=
  self w' = self w /\ logged w w' [EvCall 2; EvDrop (vid v); EvDrop (kid k)] /\
  find_idx kcls (kcls k) (Spec.elems (self w)) = None /\ len (self w) = cap (self w).

Lemma chain1_spec k v (w : mworld) :
  WF (self w) ->
  wp (entry_chain debug sc k 1 v) (chain_with_post k v w) (chain_with_panic k v w) w.
Proof.
  intros Hw.
  change (entry_chain debug sc k 1 v)
    with (e <- entry_of Em k ;; i <- or_insert_with Em debug e (mk_val sc v) ;; r_slotval 0 i).
  apply (wp_bind_assoc (entry_of Em k) (fun e => or_insert_with Em debug e (mk_val sc v)) (fun i => r_slotval 0 i)).
  apply wp_then_slotval. unfold chain_with_post, chain_with_panic.
  destruct (find_idx kcls (kcls k) (Spec.elems (self w))) as [j|] eqn:Hf.
  - eapply wp_mono; [apply (or_insert_with_occupied Em debug kcls qcls HLm k (mk_val sc v) j w Hw Hf) | | intros ? []];
      cbn beta.
    intros i w' (-> & Hs & Hl & _). destruct (find_idx_slot kcls _ _ _ Hw Hf) as [_ [[k0 v0] (Hp & _ & _)]].
    exists k0, v0. rewrite Hs. split; [exact Hw|]. split; [exact Hp|]. split; [exact Hw|]. split; [reflexivity|].
    exists k0, v0. auto.
  - eapply wp_mono;
      [apply (or_insert_with_vacant_exact Em debug kcls qcls HLm k (mk_val sc v) v _ w Hw Hf (mk_val_exact v _)) | |];
      cbn beta.
    + intros i w' (Hw' & Hc' & He & -> & Hl & Hlt). exists k, v. split; [exact Hw'|].
      split; [rewrite He; apply nth_error_snoc_len|]. split; [exact Hw'|]. split; [exact Hc'|].
      rewrite (elems_length _ Hw). auto.
    + intros w' (Hs & Hl & Hc). auto.
Qed.

Lemma chain2_spec k v (w : mworld) :
  WF (self w) ->
  wp (entry_chain debug sc k 2 v) (chain_with_post k v w) (chain_with_panic k v w) w.
Proof.
  intros Hw.
  change (entry_chain debug sc k 2 v)
    with (e <- entry_of Em k ;; i <- or_insert_with_key Em debug e (fun _ => mk_val sc v) ;; r_slotval 0 i).
  apply (wp_bind_assoc (entry_of Em k) (fun e => or_insert_with_key Em debug e (fun _ => mk_val sc v))
           (fun i => r_slotval 0 i)).
  apply wp_then_slotval. unfold chain_with_post, chain_with_panic.
  destruct (find_idx kcls (kcls k) (Spec.elems (self w))) as [j|] eqn:Hf.
  - eapply wp_mono;
      [apply (or_insert_with_key_occupied Em debug kcls qcls HLm k (fun _ => mk_val sc v) j w Hw Hf) | | intros ? []];
      cbn beta.
    intros i w' (-> & Hs & Hl & _). destruct (find_idx_slot kcls _ _ _ Hw Hf) as [_ [[k0 v0] (Hp & _ & _)]].
    exists k0, v0. rewrite Hs. split; [exact Hw|]. split; [exact Hp|]. split; [exact Hw|]. split; [reflexivity|].
    exists k0, v0. auto.
  - eapply wp_mono;
      [apply (or_insert_with_key_vacant_exact Em debug kcls qcls HLm k (fun _ => mk_val sc v) v _ w Hw Hf (mk_val_exact v _)) | |];
      cbn beta.
    + intros i w' (Hw' & Hc' & He & -> & Hl & Hlt). exists k, v. split; [exact Hw'|].
      split; [rewrite He; apply nth_error_snoc_len|]. split; [exact Hw'|]. split; [exact Hc'|].
      rewrite (elems_length _ Hw). auto.
    + intros w' (Hs & Hl & Hc). auto.
Qed.

(* ---------------------------------------------------------------------- *)
(* chain 3: or_default(): the value made is a fresh object (the next free   *)
(* identity) with payload 0                                                 *)
(* ---------------------------------------------------------------------- *)
Lemma chain3_spec k v (w : mworld) :
  WF (self w) ->
  let dv := {| vid := next_id (cb w); vdat := 0 |} in
  wp (entry_chain debug sc k 3 v) (chain_with_post k dv w) (chain_with_panic k dv w) w.
Proof.
  intros Hw dv.
  change (entry_chain debug sc k 3 v)
    with (e <- entry_of Em k ;; i <- or_insert_with Em debug e (mk_default sc) ;; r_slotval 0 i).
  apply (wp_bind_assoc (entry_of Em k) (fun e => or_insert_with Em debug e (mk_default sc)) (fun i => r_slotval 0 i)).
  apply wp_then_slotval. unfold chain_with_post, chain_with_panic.
  destruct (find_idx kcls (kcls k) (Spec.elems (self w))) as [j|] eqn:Hf.
  - eapply wp_mono; [apply (or_insert_with_occupied Em debug kcls qcls HLm k (mk_default sc) j w Hw Hf) | | intros ? []];
      cbn beta.
    intros i w' (-> & Hs & Hl & _). destruct (find_idx_slot kcls _ _ _ Hw Hf) as [_ [[k0 v0] (Hp & _ & _)]].
    exists k0, v0. rewrite Hs. split; [exact Hw|]. split; [exact Hp|]. split; [exact Hw|]. split; [reflexivity|].
    exists k0, v0. auto.
  - destruct (mk_default_exact (scan_cb Em k (Spec.elems (self w)) (cb w))) as [s' Hmk].
    rewrite scan_cb_next_id in Hmk. fold dv in Hmk.
    eapply wp_mono;
      [apply (or_insert_with_vacant_exact Em debug kcls qcls HLm k (mk_default sc) dv s' w Hw Hf Hmk) | |];
      cbn beta.
    + intros i w' (Hw' & Hc' & He & -> & Hl & Hlt). exists k, dv. split; [exact Hw'|].
      split; [rewrite He; apply nth_error_snoc_len|]. split; [exact Hw'|]. split; [exact Hc'|].
      rewrite (elems_length _ Hw). auto.
    + intros w' (Hs & Hl & Hc). auto.
Qed.

(* ---------------------------------------------------------------------- *)
(* chain 4: entry(k).and_modify(|x| *x += 100).or_insert(v)                 *)
(* ---------------------------------------------------------------------- *)
Lemma chain4_spec k v (w : mworld) :
  WF (self w) ->
  wp (entry_chain debug sc k 4 v)
     (fun r w' => WF (self w') /\ cap (self w') = cap (self w) /\
        match find_idx kcls (kcls k) (Spec.elems (self w)) with
        | Some j => exists k0 v0, nth_error (Spec.elems (self w)) j = Some (k0, v0) /\
                      let v1 := {| vid := vid v0; vdat := vdat v0 + 100 |} in
                      r = [0%N; nn j] ++ r_val v1 /\
                      Spec.elems (self w') = upd (Spec.elems (self w)) j (k0, v1) /\
                      logged w w' [EvDrop (kid k); EvCall 3; EvDrop (vid v)]
        | None => r = [0%N; nn (len (self w))] ++ r_val v /\
                  Spec.elems (self w') = Spec.elems (self w) ++ [(k, v)] /\ log w' = log w /\
                  len (self w) < cap (self w)
        end)
     (fun w' => self w' = self w /\ logged w w' [EvDrop (vid v); EvDrop (kid k)] /\
                find_idx kcls (kcls k) (Spec.elems (self w)) = None /\ len (self w) = cap (self w)) w.
Proof.
  intros Hw.
  assert (Hch : wp (e <- entry_of Em k ;; e' <- and_modify_all e [modf_add sc] ;; or_insert Em debug e' v)
     (fun i w' => WF (self w') /\ cap (self w') = cap (self w) /\
        match find_idx kcls (kcls k) (Spec.elems (self w)) with
        | Some j => i = j /\
                    exists k0 v0, nth_error (Spec.elems (self w)) j = Some (k0, v0) /\
                      Spec.elems (self w') = upd (Spec.elems (self w)) j (k0, {| vid := vid v0; vdat := vdat v0 + 100 |}) /\
                      logged w w' [EvDrop (kid k); EvCall 3; EvDrop (vid v)]
        | None => i = length (Spec.elems (self w)) /\
                  Spec.elems (self w') = Spec.elems (self w) ++ [(k, v)] /\ log w' = log w
        end)
     (fun w' => self w' = self w /\ logged w w' [EvDrop (vid v); EvDrop (kid k)] /\
                find_idx kcls (kcls k) (Spec.elems (self w)) = None /\ len (self w) = cap (self w)) w).
  { exact (and_modify_chain_or_insert Em debug kcls qcls HLm k [modf_add sc] _ v w Hw
             (Forall2_cons _ _ modf_add_pure (Forall2_nil _))). }
  change (entry_chain debug sc k 4 v)
    with (e <- entry_of Em k ;; e' <- and_modify e (modf_add sc) ;; i <- or_insert Em debug e' v ;; r_slotval 0 i).
  (* the two programs differ only by a [ret] after and_modify *)
  assert (Heq : forall w0 : mworld,
     (e <- entry_of Em k ;; e' <- and_modify e (modf_add sc) ;; or_insert Em debug e' v) w0 =
     (e <- entry_of Em k ;; e' <- and_modify_all e [modf_add sc] ;; or_insert Em debug e' v) w0).
  { intros w0. unfold bind. destruct (entry_of Em k w0) as [e w1|w1|]; [|reflexivity|reflexivity].
    cbn [and_modify_all]. unfold bind. destruct (and_modify e (modf_add sc) w1) as [e' w2|w2|]; reflexivity. }
  assert (Hch' : wp (e <- entry_of Em k ;; e' <- and_modify e (modf_add sc) ;; or_insert Em debug e' v)
                    (fun i w' => WF (self w') /\ cap (self w') = cap (self w) /\
        match find_idx kcls (kcls k) (Spec.elems (self w)) with
        | Some j => i = j /\
                    exists k0 v0, nth_error (Spec.elems (self w)) j = Some (k0, v0) /\
                      Spec.elems (self w') = upd (Spec.elems (self w)) j (k0, {| vid := vid v0; vdat := vdat v0 + 100 |}) /\
                      logged w w' [EvDrop (kid k); EvCall 3; EvDrop (vid v)]
        | None => i = length (Spec.elems (self w)) /\
                  Spec.elems (self w') = Spec.elems (self w) ++ [(k, v)] /\ log w' = log w
        end)
     (fun w' => self w' = self w /\ logged w w' [EvDrop (vid v); EvDrop (kid k)] /\
                find_idx kcls (kcls k) (Spec.elems (self w)) = None /\ len (self w) = cap (self w)) w).
  { unfold wp. rewrite Heq. exact Hch. }
  clear Hch Heq.
  assert (Hassoc : forall Qn Qp,
     wp (i <- (e <- entry_of Em k ;; e' <- and_modify e (modf_add sc) ;; or_insert Em debug e' v) ;; r_slotval 0 i) Qn Qp w ->
     wp (e <- entry_of Em k ;; e' <- and_modify e (modf_add sc) ;; i <- or_insert Em debug e' v ;; r_slotval 0 i) Qn Qp w).
  { intros Qn Qp. unfold wp, bind. destruct (entry_of Em k w) as [e w1|w1|]; auto.
    destruct (and_modify e (modf_add sc) w1) as [e' w2|w2|]; auto. }
  apply Hassoc. apply wp_then_slotval.
  eapply wp_mono; [exact Hch' | |]; cbn beta.
  - intros i w' (Hw' & Hc' & H).
    destruct (find_idx kcls (kcls k) (Spec.elems (self w))) as [j|] eqn:Hf.
    + destruct H as (-> & k0 & v0 & Hp & He & Hl).
      exists k0, {| vid := vid v0; vdat := vdat v0 + 100 |}. split; [exact Hw'|].
      split; [rewrite He; apply nth_error_upd_eq; apply nth_error_Some; rewrite Hp; discriminate|].
      split; [exact Hw'|]. split; [exact Hc'|]. exists k0, v0. cbv zeta. auto.
    + destruct H as (-> & He & Hl). exists k, v. split; [exact Hw'|].
      split; [rewrite He; apply nth_error_snoc_len|].
      split; [exact Hw'|]. split; [exact Hc'|]. rewrite (elems_length _ Hw).
      split; [reflexivity|]. split; [exact He|]. split; [exact Hl|].
      pose proof (elems_length _ Hw') as HL'. rewrite He, app_length, (elems_length _ Hw) in HL'. cbn [length] in HL'.
      pose proof (WF_len_le_cap _ Hw'). lia.
  - intros w' H. exact H.
Qed.

(* ---------------------------------------------------------------------- *)
(* chains 5, 6, 7, 10: Entry::key, OccupiedEntry::get / VacantEntry::key,   *)
(* get_mut / VacantEntry::into_key, remove_entry / into_key                 *)
(* ---------------------------------------------------------------------- *)

(* chain 5 = Entry::key().  Present: a reference to the STORED key (slot j,
   rendered: the stored object k0), the supplied object destroyed by entry().
   Absent: the supplied key object itself; the entry (owning it) is then
   dropped: destroyed exactly once, container untouched. *)
Lemma chain5_spec k v (w : mworld) :
  WF (self w) ->
  wp (entry_chain debug sc k 5 v)
     (fun r w' => self w' = self w /\ logged w w' [EvDrop (kid k)] /\
        match find_idx kcls (kcls k) (Spec.elems (self w)) with
        | Some j => exists k0 v0, nth_error (Spec.elems (self w)) j = Some (k0, v0) /\
                                  r = [0%N; nn j] ++ r_key k0
        | None => r = 1%N :: r_key k
        end)
     (fun _ => False) w.
Proof.
  intros Hw.
  change (entry_chain debug sc k 5 v)
    with (e <- entry_of Em k ;; x <- entry_key e ;;
          match x with
          | inl j => p <- p_ref j ;; ret ([0%N; nn j] ++ r_key (fst p))
          | inr k' => drop_key Em k' ;; ret (1%N :: r_key k')
          end).
  apply (wp_bind_assoc (entry_of Em k) (fun e => entry_key e)
           (fun x => match x with
                     | inl j => p <- p_ref j ;; ret ([0%N; nn j] ++ r_key (fst p))
                     | inr k' => drop_key Em k' ;; ret (1%N :: r_key k')
                     end)).
  apply wp_bind.
  assert (Hek : wp (e <- entry_of Em k ;; entry_key e)
     (fun x w' => self w' = self w /\
        match find_idx kcls (kcls k) (Spec.elems (self w)) with
        | Some j => x = inl j /\ logged w w' [EvDrop (kid k)]
        | None => x = inr k /\ log w' = log w
        end) (fun _ => False) w).
  { apply wp_bind.
    eapply wp_mono; [apply (entry_of_lawful Em kcls qcls HLm k w Hw) | | intros ? []]; cbn beta.
    intros e w1 [Hs1 He].
    destruct (find_idx kcls (kcls k) (Spec.elems (self w))) as [j|] eqn:Hf.
    - destruct He as [-> Hl1]. cbn [entry_key]. destruct (find_idx_slot kcls _ _ _ Hw Hf) as [Hj _].
      apply wp_bind.
      eapply wp_mono; [apply (occ_ref_lawful j w1); rewrite Hs1; assumption | | intros ? []]; cbn beta.
      intros i w2 [-> ->]. apply wp_ret. auto.
    - destruct He as [-> Hl1]. cbn [entry_key]. apply wp_ret. auto. }
  eapply wp_mono; [exact Hek | | intros ? []]; cbn beta.
  intros x w1 [Hs1 Hx].
  destruct (find_idx kcls (kcls k) (Spec.elems (self w))) as [j|] eqn:Hf.
  - destruct Hx as [-> Hl1]. destruct (find_idx_slot kcls _ _ _ Hw Hf) as [_ [[k0 v0] (Hp & Hsl & _)]].
    apply wp_bind. eapply wp_p_ref; [rewrite Hs1; exact Hsl|]. apply wp_ret. cbn [fst].
    split; [exact Hs1|]. split; [exact Hl1|]. exists k0, v0. auto.
  - destruct Hx as [-> Hl1]. apply wp_bind.
    eapply wp_mono; [apply (drop_key_lawful Em kcls qcls HLm) | | intros ? []]; cbn beta.
    intros _ w2 [Hs2 Hl2]. apply wp_ret.
    split; [congruence|]. split; [eapply logged_from; eassumption | reflexivity].
Qed.

(* chain 6 = OccupiedEntry::get() / VacantEntry::key() (a borrow: the entry,
   and with it the supplied key, is dropped afterwards) *)
Lemma chain6_spec k v (w : mworld) :
  WF (self w) ->
  wp (entry_chain debug sc k 6 v)
     (fun r w' => self w' = self w /\ logged w w' [EvDrop (kid k)] /\
        match find_idx kcls (kcls k) (Spec.elems (self w)) with
        | Some j => exists k0 v0, nth_error (Spec.elems (self w)) j = Some (k0, v0) /\
                                  r = [0%N; nn j] ++ r_val v0
        | None => r = 1%N :: r_key k
        end)
     (fun _ => False) w.
Proof.
  intros Hw.
  change (entry_chain debug sc k 6 v)
    with (e <- entry_of Em k ;;
          match e with
          | Occupied i => j <- occ_get i ;; r_slotval 0 j
          | Vacant k' => drop_key Em k' ;; ret (1%N :: r_key k')
          end).
  apply wp_bind.
  eapply wp_mono; [apply (entry_of_lawful Em kcls qcls HLm k w Hw) | | intros ? []]; cbn beta.
  intros e w1 [Hs1 He].
  destruct (find_idx kcls (kcls k) (Spec.elems (self w))) as [j|] eqn:Hf.
  - destruct He as [-> Hl1]. destruct (find_idx_slot kcls _ _ _ Hw Hf) as [Hj [[k0 v0] (Hp & _ & _)]].
    apply wp_then_slotval.
    eapply wp_mono; [apply (occ_ref_lawful j w1); rewrite Hs1; assumption | | intros ? []]; cbn beta.
    intros i w2 [-> ->]. exists k0, v0. rewrite Hs1. split; [exact Hw|]. split; [exact Hp|].
    split; [reflexivity|]. split; [exact Hl1|]. exists k0, v0. auto.
  - destruct He as [-> Hl1]. apply wp_bind.
    eapply wp_mono; [apply (drop_key_lawful Em kcls qcls HLm) | | intros ? []]; cbn beta.
    intros _ w2 [Hs2 Hl2]. apply wp_ret.
    split; [congruence|]. split; [eapply logged_from; eassumption | reflexivity].
Qed.

(* chain 7 = OccupiedEntry::get_mut() then a write through it /
   VacantEntry::into_key(): the caller KEEPS the supplied key object — it is
   returned and not destroyed (log unchanged) *)
Lemma chain7_spec k v (w : mworld) :
  WF (self w) ->
  wp (entry_chain debug sc k 7 v)
     (fun r w' => WF (self w') /\ cap (self w') = cap (self w) /\
        match find_idx kcls (kcls k) (Spec.elems (self w)) with
        | Some j => exists k0 v0, nth_error (Spec.elems (self w)) j = Some (k0, v0) /\
                      r = [0%N; nn j] ++ r_val v0 /\
                      Spec.elems (self w') = upd (Spec.elems (self w)) j (k0, {| vid := vid v0; vdat := vdat v |}) /\
                      logged w w' [EvDrop (kid k)]
        | None => r = 1%N :: r_key k /\ self w' = self w /\ log w' = log w
        end)
     (fun _ => False) w.
Proof.
  intros Hw.
  change (entry_chain debug sc k 7 v)
    with (e <- entry_of Em k ;;
          match e with
          | Occupied i => j <- occ_get_mut i ;; r <- r_slotval 0 j ;; set_dat j (vdat v) ;; ret r
          | Vacant k' => ret (1%N :: r_key k')
          end).
  apply wp_bind.
  eapply wp_mono; [apply (entry_of_lawful Em kcls qcls HLm k w Hw) | | intros ? []]; cbn beta.
  intros e w1 [Hs1 He].
  destruct (find_idx kcls (kcls k) (Spec.elems (self w))) as [j|] eqn:Hf.
  - destruct He as [-> Hl1]. destruct (find_idx_slot kcls _ _ _ Hw Hf) as [Hj [[k0 v0] (Hp & _ & _)]].
    eapply wp_mono; [apply (slot_render_write j (vdat v) k0 v0 w1); rewrite Hs1; assumption | | intros ? []];
      cbn beta; rewrite Hs1.
    intros r w2 (-> & Hw2 & Hc2 & Hl2 & He2). split; [exact Hw2|]. split; [exact Hc2|].
    exists k0, v0. split; [exact Hp|]. split; [reflexivity|]. split; [exact He2|].
    eapply logged_same; eassumption.
  - destruct He as [-> Hl1]. apply wp_ret. rewrite Hs1. auto.
Qed.

(* chain 10 = OccupiedEntry::remove_entry() / VacantEntry::into_key() *)
Lemma chain10_spec k v (w : mworld) :
  WF (self w) ->
  wp (entry_chain debug sc k 10 v)
     (fun r w' => WF (self w') /\ cap (self w') = cap (self w) /\
        match find_idx kcls (kcls k) (Spec.elems (self w)) with
        | Some j => exists k0 v0, nth_error (Spec.elems (self w)) j = Some (k0, v0) /\
                      r = 0%N :: r_pair (k0, v0) /\
                      Spec.elems (self w') = swap_remove (Spec.elems (self w)) j /\
                      logged w w' [EvDrop (kid k)]
        | None => r = 1%N :: r_key k /\ self w' = self w /\ log w' = log w
        end)
     (fun _ => False) w.
Proof.
  intros Hw.
  change (entry_chain debug sc k 10 v)
    with (e <- entry_of Em k ;;
          match e with
          | Occupied i => p <- occ_remove_entry debug i ;; ret (0%N :: r_pair p)
          | Vacant k' => ret (1%N :: r_key k')
          end).
  apply wp_bind.
  eapply wp_mono; [apply (entry_of_lawful Em kcls qcls HLm k w Hw) | | intros ? []]; cbn beta.
  intros e w1 [Hs1 He].
  destruct (find_idx kcls (kcls k) (Spec.elems (self w))) as [j|] eqn:Hf.
  - destruct He as [-> Hl1]. destruct (find_idx_slot kcls _ _ _ Hw Hf) as [Hj [[k0 v0] (Hp & _ & _)]].
    apply wp_bind.
    eapply wp_mono; [apply (occ_remove_entry_lawful debug j w1); rewrite Hs1; assumption | | intros ? []];
      cbn beta; rewrite Hs1.
    intros p w2 (Hw2 & Hc2 & Hl2 & Hp2 & He2). apply wp_ret.
    rewrite Hp in Hp2. injection Hp2 as <-.
    split; [exact Hw2|]. split; [exact Hc2|]. exists k0, v0. split; [exact Hp|]. split; [reflexivity|].
    split; [exact He2|]. eapply logged_same; eassumption.
  - destruct He as [-> Hl1]. apply wp_ret. rewrite Hs1. auto.
Qed.

(* ---------------------------------------------------------------------- *)
(* chain 8: OccupiedEntry::insert(v) / VacantEntry::insert(v)               *)
(* ---------------------------------------------------------------------- *)
Lemma chain8_spec k v (w : mworld) :
  WF (self w) ->
  wp (entry_chain debug sc k 8 v)
     (fun r w' => WF (self w') /\ cap (self w') = cap (self w) /\
        match find_idx kcls (kcls k) (Spec.elems (self w)) with
        | Some j => exists k0 v0, nth_error (Spec.elems (self w)) j = Some (k0, v0) /\
                      r = 0%N :: r_val v0 /\
                      Spec.elems (self w') = upd (Spec.elems (self w)) j (k0, v) /\
                      logged w w' [EvDrop (kid k)]
        | None => r = [1%N; nn (len (self w))] ++ r_val v /\
                  Spec.elems (self w') = Spec.elems (self w) ++ [(k, v)] /\ log w' = log w /\
                  len (self w) < cap (self w)
        end)
     (fun w' => self w' = self w /\ logged w w' [EvDrop (vid v); EvDrop (kid k)] /\
                find_idx kcls (kcls k) (Spec.elems (self w)) = None /\ len (self w) = cap (self w)) w.
Proof.
  intros Hw.
  change (entry_chain debug sc k 8 v)
    with (e <- entry_of Em k ;;
          match e with
          | Occupied i => old <- occ_insert i v ;; ret (0%N :: r_val old)
          | Vacant k' => j <- vac_insert Em debug k' v ;; r_slotval 1 j
          end).
  apply wp_bind.
  eapply wp_mono; [apply (entry_of_lawful Em kcls qcls HLm k w Hw) | | intros ? []]; cbn beta.
  intros e w1 [Hs1 He].
  destruct (find_idx kcls (kcls k) (Spec.elems (self w))) as [j|] eqn:Hf.
  - destruct He as [-> Hl1]. destruct (find_idx_slot kcls _ _ _ Hw Hf) as [Hj [[k0 v0] (Hp & _ & _)]].
    apply wp_bind.
    eapply wp_mono; [apply (occ_insert_lawful j v w1); [rewrite Hs1; exact Hw | rewrite Hs1; exact Hp] | | intros ? []];
      cbn beta; rewrite Hs1.
    intros old w2 (Hw2 & Hc2 & Hl2 & -> & He2). apply wp_ret.
    split; [exact Hw2|]. split; [exact Hc2|]. exists k0, v0. split; [exact Hp|]. split; [reflexivity|].
    split; [exact He2|]. eapply logged_same; eassumption.
  - destruct He as [-> Hl1]. apply wp_then_slotval.
    eapply wp_mono; [apply (vac_insert_lawful Em debug kcls qcls HLm k v w1); rewrite Hs1; assumption | |];
      cbn beta; rewrite Hs1.
    + intros i w2 (Hw2 & Hc2 & Hl2 & He2 & -> & Hlt). exists k, v. split; [exact Hw2|].
      split; [rewrite He2; apply nth_error_snoc_len|]. split; [exact Hw2|]. split; [exact Hc2|].
      rewrite (elems_length _ Hw). split; [reflexivity|]. split; [exact He2|]. split; [congruence | exact Hlt].
    + intros w2 (Hs2 & Hl2 & Hc). split; [congruence|].
      split; [eapply logged_from; eassumption | auto].
Qed.

(* ---------------------------------------------------------------------- *)
(* chain 9: OccupiedEntry::remove() / (vacant: the entry is dropped)        *)
(* ---------------------------------------------------------------------- *)
Lemma chain9_spec k v (w : mworld) :
  WF (self w) ->
  wp (entry_chain debug sc k 9 v)
     (fun r w' => WF (self w') /\ cap (self w') = cap (self w) /\
        match find_idx kcls (kcls k) (Spec.elems (self w)) with
        | Some j => exists k0 v0, nth_error (Spec.elems (self w)) j = Some (k0, v0) /\
                      r = 0%N :: r_val v0 /\
                      Spec.elems (self w') = swap_remove (Spec.elems (self w)) j /\
                      logged w w' [EvDrop (kid k); EvDrop (kid k0)]
        | None => r = [1%N] /\ self w' = self w /\ logged w w' [EvDrop (kid k)]
        end)
     (fun _ => False) w.
Proof.
  intros Hw.
  change (entry_chain debug sc k 9 v)
    with (e <- entry_of Em k ;;
          match e with
          | Occupied i => old <- occ_remove Em debug i ;; ret (0%N :: r_val old)
          | Vacant k' => drop_key Em k' ;; ret [1%N]
          end).
  apply wp_bind.
  eapply wp_mono; [apply (entry_of_lawful Em kcls qcls HLm k w Hw) | | intros ? []]; cbn beta.
  intros e w1 [Hs1 He].
  destruct (find_idx kcls (kcls k) (Spec.elems (self w))) as [j|] eqn:Hf.
  - destruct He as [-> Hl1]. destruct (find_idx_slot kcls _ _ _ Hw Hf) as [Hj [[k0 v0] (Hp & _ & _)]].
    apply wp_bind.
    eapply wp_mono; [apply (occ_remove_lawful Em debug kcls qcls HLm j w1); rewrite Hs1; assumption | | intros ? []];
      cbn beta; rewrite Hs1.
    intros old w2 (Hw2 & Hc2 & k1 & Hp2 & He2 & Hl2). apply wp_ret.
    rewrite Hp in Hp2. injection Hp2 as <- <-.
    split; [exact Hw2|]. split; [exact Hc2|]. exists k0, v0. split; [exact Hp|]. split; [reflexivity|].
    split; [exact He2|]. exact (logged_trans _ _ _ _ _ Hl1 Hl2).
  - destruct He as [-> Hl1]. apply wp_bind.
    eapply wp_mono; [apply (drop_key_lawful Em kcls qcls HLm) | | intros ? []]; cbn beta.
    intros _ w2 [Hs2 Hl2]. apply wp_ret. rewrite Hs2, Hs1.
    split; [exact Hw|]. split; [reflexivity|]. split; [reflexivity|]. split; [reflexivity|].
    eapply logged_from; eassumption.
Qed.

(* ---------------------------------------------------------------------- *)
(* chain 11 (and every larger number): OccupiedEntry::into_mut() then a     *)
(* write through it / VacantEntry::insert(v)                                *)
(* ---------------------------------------------------------------------- *)
Lemma chain11_spec k v (w : mworld) :
  WF (self w) ->
  wp (entry_chain debug sc k 11 v)
     (fun r w' => WF (self w') /\ cap (self w') = cap (self w) /\
        match find_idx kcls (kcls k) (Spec.elems (self w)) with
        | Some j => exists k0 v0, nth_error (Spec.elems (self w)) j = Some (k0, v0) /\
                      r = [0%N; nn j] ++ r_val v0 /\
                      Spec.elems (self w') = upd (Spec.elems (self w)) j (k0, {| vid := vid v0; vdat := vdat v |}) /\
                      logged w w' [EvDrop (kid k)]
        | None => r = [1%N; nn (len (self w))] ++ r_val v /\
                  Spec.elems (self w') = Spec.elems (self w) ++ [(k, v)] /\ log w' = log w /\
                  len (self w) < cap (self w)
        end)
     (fun w' => self w' = self w /\ logged w w' [EvDrop (vid v); EvDrop (kid k)] /\
                find_idx kcls (kcls k) (Spec.elems (self w)) = None /\ len (self w) = cap (self w)) w.
Proof.
  intros Hw.
  change (entry_chain debug sc k 11 v)
    with (e <- entry_of Em k ;;
          match e with
          | Occupied i => j <- occ_into_mut i ;; r <- r_slotval 0 j ;; set_dat j (vdat v) ;; ret r
          | Vacant k' => j <- vac_insert Em debug k' v ;; r_slotval 1 j
          end).
  apply wp_bind.
  eapply wp_mono; [apply (entry_of_lawful Em kcls qcls HLm k w Hw) | | intros ? []]; cbn beta.
  intros e w1 [Hs1 He].
  destruct (find_idx kcls (kcls k) (Spec.elems (self w))) as [j|] eqn:Hf.
  - destruct He as [-> Hl1]. destruct (find_idx_slot kcls _ _ _ Hw Hf) as [Hj [[k0 v0] (Hp & _ & _)]].
    eapply wp_mono; [apply (slot_render_write j (vdat v) k0 v0 w1); rewrite Hs1; assumption | | intros ? []];
      cbn beta; rewrite Hs1.
    intros r w2 (-> & Hw2 & Hc2 & Hl2 & He2). split; [exact Hw2|]. split; [exact Hc2|].
    exists k0, v0. split; [exact Hp|]. split; [reflexivity|]. split; [exact He2|].
    eapply logged_same; eassumption.
  - destruct He as [-> Hl1]. apply wp_then_slotval.
    eapply wp_mono; [apply (vac_insert_lawful Em debug kcls qcls HLm k v w1); rewrite Hs1; assumption | |];
      cbn beta; rewrite Hs1.
    + intros i w2 (Hw2 & Hc2 & Hl2 & He2 & -> & Hlt). exists k, v. split; [exact Hw2|].
      split; [rewrite He2; apply nth_error_snoc_len|]. split; [exact Hw2|]. split; [exact Hc2|].
      rewrite (elems_length _ Hw). split; [reflexivity|]. split; [exact He2|]. split; [congruence | exact Hlt].
    + intros w2 (Hs2 & Hl2 & Hc). split; [congruence|].
      split; [eapply logged_from; eassumption | auto].
Qed.

(* every chain number from 11 on is the same program *)
Lemma entry_chain_ge11 k chain v : (11 <= chain)%N -> entry_chain debug sc k chain v = entry_chain debug sc k 11 v.
Proof.
  intros H. unfold entry_chain. destruct chain as [|p]; [lia|].
  do 4 (try (destruct p as [p|p|])); try reflexivity; exfalso; lia.
Qed.

End Chains.

(* ======================================================================== *)
(* 6. "every insertion path": Extend / FromIterator / From<[_;N]> / serde     *)
(* ======================================================================== *)
Section BulkKeys.
Context {K V Q T : Type} (E : env K V Q T) (debug : bool).
Context (ck : K -> N) (cq : Q -> N) (HL : Lawful E ck cq).
Notation world := (world K V T). Notation kv := (K * V)%type.

(* a class that is already stored keeps its key OBJECT through any number of
   bulk insertions ... *)
Lemma bulk_view_stored c k0 v0 (items : list kv) :
  exists v', bulk_view ck c (Some (k0, v0)) items = Some (k0, v').
Proof.
  unfold bulk_view. cbn [option_map snd]. destruct (last_val ck c items) as [v'|]; eauto.
Qed.

Lemma first_key_last_val c (items : list kv) k1 :
  first_key ck c items = Some k1 -> exists v', last_val ck c items = Some v'.
Proof.
  induction items as [|[k v] rest IH]; cbn [first_key last_val]; [discriminate|].
  destruct (N.eqb (ck k) c).
  - intros _. destruct (last_val ck c rest); eauto.
  - intros H. destruct (IH H) as [v' ->]. eauto.
Qed.

(* ... and a new class gets the key object of the FIRST item of that class *)
Lemma bulk_view_first c (items : list kv) k1 :
  first_key ck c items = Some k1 -> exists v', bulk_view ck c None items = Some (k1, v').
Proof.
  intros H. unfold bulk_view. rewrite H. destruct (first_key_last_val c items k1 H) as [v' ->]. eauto.
Qed.

(* Extend (also the loop inside FromIterator / From<[_;N]>): on normal return,
   class by class, the stored key object is the one stored before, else the
   first supplied one *)
Lemma extend_keeps_first_key nx items (w : world) :
  (forall s, fst (nx s) <> Boom) -> WF (self w) ->
  wp (extend_loop E debug nx items)
     (fun _ w' =>
        (forall c, lookup ck (elems (self w')) c = bulk_view ck c (lookup ck (elems (self w)) c) items) /\
        (forall c k0 v0, lookup ck (elems (self w)) c = Some (k0, v0) ->
                         exists v', lookup ck (elems (self w')) c = Some (k0, v')) /\
        (forall c k1, lookup ck (elems (self w)) c = None -> first_key ck c items = Some k1 ->
                      exists v', lookup ck (elems (self w')) c = Some (k1, v')))
     (fun _ => True) w.
Proof.
  intros Hnx Hw.
  eapply wp_mono; [apply (extend_loop_lawful E debug ck cq HL nx items w Hnx Hw) | | auto]; cbn beta.
  intros _ w' (_ & _ & Hx).
  assert (Hv : forall c, lookup ck (elems (self w')) c = bulk_view ck c (lookup ck (elems (self w)) c) items)
    by (intros c; apply (bulk_lookup_gen ck _ _ _ _ c Hx)).
  split; [exact Hv|]. split.
  - intros c k0 v0 Hl. rewrite Hv, Hl. apply bulk_view_stored.
  - intros c k1 Hl Hfk. rewrite Hv, Hl. apply bulk_view_first. exact Hfk.
Qed.

End BulkKeys.

(* serde: each decoded entry (fresh key object [id], fresh value object
   [id+1]) goes through Map::insert; when its class is already present the
   stored key object stays, the decoded key object and the old value are
   destroyed *)
Lemma visit_map_step_present debug sc k v j k0 v0 (w : world key vobj cstate) :
  honest sc -> WF (self w) ->
  find_idx kcls (kcls k) (Spec.elems (self w)) = Some j ->
  nth_error (Spec.elems (self w)) j = Some (k0, v0) ->
  wp (visit_map debug sc [(k, v)])
     (fun _ w' => WF (self w') /\ cap (self w') = cap (self w) /\
                  Spec.elems (self w') =
                    upd (Spec.elems (self w)) j (k0, {| vid := next_id (cb w) + 1; vdat := vdat v |}) /\
                  logged w w' [EvDrop (next_id (cb w)); EvDrop (vid v0)])
     (fun _ => False) w.
Proof.
  intros Hh Hw Hf Hp. pose proof (env_map_lawful sc Hh) as HL.
  rewrite visit_map_cons. apply wp_bind. apply wp_get_next_id. apply wp_bind. apply wp_bump_id.
  set (w1 := with_cb w _).
  set (k' := {| kid := next_id (cb w); kcls := kcls k |}).
  set (v' := {| vid := next_id (cb w) + 1; vdat := vdat v |}).
  assert (Hs1 : self w1 = self w) by reflexivity.
  assert (Hl1 : log w1 = log w) by reflexivity.
  apply wp_bind.
  eapply wp_mono; [apply (insert_lawful (env_map sc) debug kcls qcls HL k' v' w1 Hw) | |]; cbn beta.
  - intros r w2 (Hw2 & Hc2 & He2 & Hr & Hlg). rewrite Hs1 in *.
    unfold l_insert in He2, Hr, Hlg. change (kcls k') with (kcls k) in He2, Hr, Hlg.
    rewrite Hf, Hp in He2, Hr, Hlg. cbn [fst snd option_map] in He2, Hr, Hlg. subst r.
    cbn [drop_opt_val]. apply wp_bind.
    eapply wp_mono; [apply (drop_val_lawful (env_map sc) kcls qcls HL) | | intros ? []]; cbn beta.
    intros _ w3 [Hs3 Hl3]. cbn [visit_map]. apply wp_ret. rewrite Hs3.
    split; [exact Hw2|]. split; [exact Hc2|]. split; [exact He2|].
    eapply logged_from; [exact Hl1|]. exact (logged_trans _ _ _ _ _ Hlg Hl3).
  - intros w2 (_ & _ & Hn & _). rewrite Hs1 in Hn. change (kcls k') with (kcls k) in Hn. congruence.
Qed.


(* ######################################################################## *)
(* ROUND 2                                                                   *)
(* ######################################################################## *)

(* ======================================================================== *)
(* 7. the entry programs and the direct map operations, side by side         *)
(* ======================================================================== *)
Section Observables.
Context {K V Q T : Type} (E : env K V Q T) (debug : bool).
Context (ck : K -> N) (cq : Q -> N) (HL : Lawful E ck cq).
Notation M := (M K V T). Notation world := (world K V T). Notation map := (map K V). Notation kv := (K * V)%type.

(* what a caller can observe of an outcome: the result (None = it panicked),
   the whole container (every slot, not only the live prefix) and the event
   log.  The callback state is NOT part of it. *)
Definition obs {A} (r : res K V T A) : option (option A * map * list event) :=
  match r with
  | Ok a w => Some (Some a, self w, log w)
  | Panic w => Some (None, self w, log w)
  | UB => None
  end.

Lemma obs_ok_of_wp {A} (c : M A) (a : A) (m : map) (l : list event) (w : world) :
  wp c (fun a' w' => a' = a /\ self w' = m /\ log w' = l) (fun _ => False) w ->
  obs (c w) = Some (Some a, m, l).
Proof. unfold wp, obs. destruct (c w) as [a' w'|w'|]; [|intros []|intros []]. intros (-> & -> & ->). reflexivity. Qed.

Lemma obs_panic_of_wp {A} (c : M A) (m : map) (l : list event) (w : world) :
  wp c (fun _ _ => False) (fun w' => self w' = m /\ log w' = l) w ->
  obs (c w) = Some (None, m, l).
Proof. unfold wp, obs. destruct (c w) as [a' w'|w'|]; [intros []| |intros []]. intros (-> & ->). reflexivity. Qed.

(* the container after insert_ii *)
Definition ins_self (m : map) (k : K) (v : V) (u : bool) : map :=
  match find_idx ck (ck k) (elems m) with
  | Some i => match nth_error (elems m) i with
              | Some (k0, v0) => set_slot_m m i (Some (if u then (k, v) else (k0, v)))
              | None => m
              end
  | None => set_len_m (set_slot_m m (len m) (Some (k, v))) (S (len m))
  end.

(* insert_ii: the exact container and the exact callback state on normal return *)
Lemma insert_ii_selfcb k v u (w : world) :
  WF (self w) ->
  wp (insert_ii E debug k v u)
     (fun _ w' => self w' = ins_self (self w) k v u /\
                  cb w' = scan_cb E k (scan_pref ck k (elems (self w))) (cb w))
     (fun _ => True) w.
Proof.
  intros Hw. unfold insert_ii. apply wp_bind. apply wp_on_unwind_nopanic.
  eapply wp_mono; [apply (scan_k_cb E ck cq HL k w Hw) | | intros w' []]; cbn beta.
  intros r w1 (Hs1 & Hl1 & -> & Hc1). unfold ins_self.
  destruct (find_idx ck (ck k) (elems (self w))) as [i|] eqn:Hf.
  - destruct (find_idx_inv ck (ck k) _ _ Hf) as [[p [Hp Hc]] _].
    destruct (elems_nth_slot _ _ _ Hw Hp) as [Hi Hsl]. rewrite Hp. destruct p as [k0 v0].
    destruct u.
    + apply wp_bind. eapply wp_p_replace; [rewrite Hs1; exact Hsl|]. apply wp_ret. simp_w. rewrite Hs1. auto.
    + apply wp_bind. eapply wp_p_replace; [rewrite Hs1; exact Hsl|]. apply wp_ret. simp_w. rewrite Hs1. auto.
  - apply wp_bind. apply wp_get_len. apply wp_bind. apply wp_get_cap. rewrite Hs1.
    apply wp_bind. apply wp_on_unwind. apply wp_bind. apply wp_dbg_assert.
    + intros _. apply wp_check_index; rewrite Hs1.
      * intros Hc. apply wp_bind. apply wp_p_write_checked; rewrite Hs1.
        -- intros _. apply wp_bind. apply wp_set_len. apply wp_ret. simp_w. rewrite ?Hs1. auto.
        -- intros _. exact I.
      * intros _. eapply wp_mono; [apply (unwind_args_lawful E k v) | auto | intros ? []].
    + intros _ _. eapply wp_mono; [apply (unwind_args_lawful E k v) | auto | intros ? []].
Qed.

Lemma insert_ii_exact k v u (w : world) :
  WF (self w) ->
  wp (insert_ii E debug k v u)
     (fun r w' =>
        self w' = ins_self (self w) k v u /\
        cb w' = scan_cb E k (scan_pref ck k (elems (self w))) (cb w) /\
        WF (self w') /\ cap (self w') = cap (self w) /\ log w' = log w /\
        (elems (self w'), fst r, snd r) = l_insert ck (elems (self w)) k v u /\
        (find_idx ck (ck k) (elems (self w)) = None -> len (self w) < cap (self w)))
     (fun w' =>
        self w' = self w /\ logged w w' (ev_drops (idV E v ++ idK E k)) /\
        find_idx ck (ck k) (elems (self w)) = None /\ len (self w) = cap (self w)) w.
Proof.
  intros Hw.
  eapply wp_mono; [apply (wp_conj _ _ _ _ _ _ (insert_ii_selfcb k v u w Hw)
                            (insert_ii_lawful E debug ck cq HL k v u w Hw)) | |]; cbn beta.
  - intros r w' [[H1 H2] H3]. auto.
  - intros w' [_ H]. exact H.
Qed.

(* Map::insert with the exact container; the callback state it leaves is the
   one entry(k) leaves (entry_cb) *)
Lemma insert_exact k v (w : world) :
  WF (self w) ->
  wp (insert E debug k v)
     (fun r w' =>
        self w' = ins_self (self w) k v false /\
        cb w' = entry_cb E ck k (elems (self w)) (cb w) /\
        r = option_map snd (snd (l_insert ck (elems (self w)) k v false)) /\
        logged w w' (match snd (l_insert ck (elems (self w)) k v false) with
                     | Some (k', _) => ev_drops (idK E k') | None => [] end) /\
        (find_idx ck (ck k) (elems (self w)) = None -> len (self w) < cap (self w)) /\
        WF (self w') /\ elems (self w') = fst (fst (l_insert ck (elems (self w)) k v false)))
     (fun w' => self w' = self w /\ logged w w' (ev_drops (idV E v ++ idK E k)) /\
                find_idx ck (ck k) (elems (self w)) = None /\ len (self w) = cap (self w)) w.
Proof.
  intros Hw. unfold insert. apply wp_bind.
  eapply wp_mono; [apply (insert_ii_exact k v false w Hw) | | intros w' H; exact H]; cbn beta.
  intros [i e] w1 (Hs1 & Hc1 & Hw1 & _ & Hl1 & Hins & Hroom). cbn [fst snd] in Hins.
  rewrite <- Hins. cbn [fst snd]. unfold entry_cb, l_insert in *.
  destruct (find_idx ck (ck k) (elems (self w))) as [j|] eqn:Hf.
  - destruct (find_idx_inv ck _ _ _ Hf) as [[[k0 v0] [Hp _]] _]. rewrite Hp in Hins.
    injection Hins as He1 _ ->. cbn [keep_value]. apply wp_bind.
    eapply wp_mono; [apply (drop_key_cb E ck cq HL) | | intros ? []]; cbn beta.
    intros _ w2 (Hs2 & Hl2 & Hc2). apply wp_ret. cbn [option_map snd].
    split; [congruence|]. split; [rewrite Hc2, Hc1; reflexivity|]. split; [reflexivity|].
    split; [eapply logged_from; eassumption|]. split; [discriminate|]. rewrite Hs2. split; [exact Hw1 | reflexivity].
  - injection Hins as He1 _ ->. cbn [keep_value]. apply wp_ret. cbn [option_map].
    split; [exact Hs1|]. split; [|split; [reflexivity|split; [|split; [exact Hroom | split; [exact Hw1 | reflexivity]]]]].
    + rewrite Hc1. unfold scan_pref. rewrite Hf. reflexivity.
    + unfold logged. rewrite app_nil_r. exact Hl1.
Qed.

Lemma vac_insert_exact k v (w : world) :
  WF (self w) -> find_idx ck (ck k) (elems (self w)) = None ->
  wp (vac_insert E debug k v)
     (fun i w' => i = len (self w) /\ self w' = ins_self (self w) k v false /\ log w' = log w /\
                  len (self w) < cap (self w))
     (fun w' => self w' = self w /\ logged w w' (ev_drops (idV E v ++ idK E k)) /\
                len (self w) = cap (self w)) w.
Proof.
  intros Hw Hf. unfold vac_insert. apply wp_bind.
  eapply wp_mono; [apply (insert_ii_exact k v false w Hw) | |]; cbn beta.
  - intros [index e] w1 (Hs1 & _ & Hw1 & _ & Hl1 & Hins & Hroom). cbn [fst snd] in Hins.
    unfold l_insert in Hins. rewrite Hf in Hins. injection Hins as He Hidx Hel. subst index e.
    apply wp_bind. apply wp_ret.
    assert (Hi : length (elems (self w)) < len (self w1)).
    { rewrite <- (elems_length _ Hw1), He, app_length. cbn [length]. lia. }
    destruct (WF_live _ _ Hw1 Hi) as [p Hp].
    apply wp_bind. eapply wp_p_ref; [exact Hp|]. apply wp_ret.
    split; [apply elems_length; exact Hw|]. auto.
  - intros w' (Hs & Hlg & _ & Hc). auto.
Qed.

Lemma occ_insert_exact i v (w : world) :
  WF (self w) -> forall k0 v0, nth_error (elems (self w)) i = Some (k0, v0) ->
  wp (occ_insert i v)
     (fun r w' => r = v0 /\ self w' = set_slot_m (self w) i (Some (k0, v)) /\ log w' = log w)
     (fun _ => False) w.
Proof.
  intros Hw k0 v0 Hp. destruct (elems_nth_slot _ _ _ Hw Hp) as [Hi Hsl].
  unfold occ_insert. apply wp_bind. eapply wp_p_replace; [exact Hsl|]. apply wp_ret. simp_w. auto.
Qed.

(* two programs with the same functional specification are observably equal *)
Lemma obs_eq_of_wp {A} (c1 c2 : M A) (a : A) (m mp : map) (l lp : list event) (Pn Pp : Prop) (w : world) :
  wp c1 (fun a' w' => a' = a /\ self w' = m /\ log w' = l /\ Pn) (fun w' => self w' = mp /\ log w' = lp /\ Pp) w ->
  wp c2 (fun a' w' => a' = a /\ self w' = m /\ log w' = l /\ Pn) (fun w' => self w' = mp /\ log w' = lp /\ Pp) w ->
  ~ (Pn /\ Pp) ->
  obs (c1 w) = obs (c2 w).
Proof.
  unfold wp, obs. intros H1 H2 Hx.
  destruct (c1 w) as [a1 w1|w1|]; destruct (c2 w) as [a2 w2|w2|]; try contradiction.
  - destruct H1 as (-> & -> & -> & _). destruct H2 as (-> & -> & -> & _). reflexivity.
  - exfalso. apply Hx. split; [apply H1 | apply H2].
  - exfalso. apply Hx. split; [apply H2 | apply H1].
  - destruct H1 as (-> & -> & _). destruct H2 as (-> & -> & _). reflexivity.
Qed.

(* ---- (a) entry(k).insert(v) [Occupied or Vacant] is Map::insert(k, v) ---- *)
Definition entry_insert (k : K) (v : V) : M (option V) :=
  e <- entry_of E k ;;
  match e with
  | Occupied i => o <- occ_insert i v ;; ret (Some o)
  | Vacant k' => _ <- vac_insert E debug k' v ;; ret None
  end.

Theorem entry_insert_is_insert k v (w : world) :
  WF (self w) -> obs (entry_insert k v w) = obs (insert E debug k v w).
Proof.
  intros Hw.
  set (li := l_insert ck (elems (self w)) k v false).
  apply (obs_eq_of_wp _ _ (option_map snd (snd li)) (ins_self (self w) k v false) (self w)
           (log w ++ match snd li with Some (k', _) => ev_drops (idK E k') | None => [] end)
           (log w ++ ev_drops (idV E v ++ idK E k))
           (find_idx ck (ck k) (elems (self w)) = None -> len (self w) < cap (self w))
           (find_idx ck (ck k) (elems (self w)) = None /\ len (self w) = cap (self w))).
  - unfold entry_insert. apply wp_bind.
    eapply wp_mono; [apply (entry_of_lawful E ck cq HL k w Hw) | | intros ? []]; cbn beta.
    intros e w1 [Hs1 He]. unfold li, ins_self, l_insert.
    destruct (find_idx ck (ck k) (elems (self w))) as [j|] eqn:Hf.
    + destruct He as [-> Hl1]. destruct (find_idx_inv ck _ _ _ Hf) as [[[k0 v0] [Hp _]] _]. rewrite Hp.
      apply wp_bind.
      eapply wp_mono; [apply (occ_insert_exact j v w1); [rewrite Hs1; exact Hw | rewrite Hs1; exact Hp] | | intros ? []];
        cbn beta.
      intros o w2 (-> & Hs2 & Hl2). apply wp_ret. cbn [option_map snd]. rewrite Hs2, Hs1, Hl2.
      split; [reflexivity|]. split; [reflexivity|]. split; [exact Hl1 | discriminate].
    + destruct He as [-> Hl1]. apply wp_bind.
      eapply wp_mono; [apply (vac_insert_exact k v w1); rewrite Hs1; assumption | |]; cbn beta; rewrite Hs1.
      * intros i w2 (_ & Hs2 & Hl2 & Hlt). apply wp_ret. rewrite Hs2. unfold ins_self. rewrite Hf.
        cbn [option_map snd]. split; [reflexivity|]. split; [reflexivity|].
        split; [rewrite app_nil_r; congruence | intros _; exact Hlt].
      * intros w2 (Hs2 & Hl2 & Hc). split; [congruence|].
        split; [unfold logged in Hl2; rewrite Hl2, Hl1; reflexivity | auto].
  - eapply wp_mono; [apply (insert_exact k v w Hw) | |]; cbn beta.
    + intros r w' (H1 & _ & H2 & H3 & H4 & _). auto.
    + intros w' (H1 & H2 & H3). auto.
  - intros [H1 [H2 H3]]. specialize (H1 H2). lia.
Qed.

(* remove_index_read runs no user code: the container it leaves is a function
   of the container it starts from *)
Definition rir_self (m : map) (i : nat) : map :=
  let n := len m - 1 in
  if i =? n then {| len := n; slots := upd (slots m) i None |}
  else match nth_error (slots m) n with
       | Some (Some q) => {| len := n; slots := upd (upd (upd (slots m) i None) n None) i (Some q) |}
       | _ => m
       end.

Lemma remove_index_read_exact i (w : world) :
  WF (self w) -> i < len (self w) ->
  wp (remove_index_read debug i)
     (fun p w' => nth_error (elems (self w)) i = Some p /\ self w' = rir_self (self w) i /\
                  log w' = log w /\ cb w' = cb w)
     (fun _ => False) w.
Proof.
  intros Hw Hi. pose proof Hw as [Hl Hs]. unfold remove_index_read.
  destruct (Hs i Hi) as [p Hp].
  assert (Hpe : nth_error (elems (self w)) i = Some p) by (apply (elems_nth (self w) i p Hw); [lia | exact Hp]).
  apply wp_bind. eapply wp_p_read; [exact Hp|].
  destruct (len (self w)) as [|n] eqn:Hn; [lia|].
  apply wp_bind. eapply wp_dec_len; [simp_w; exact Hn|].
  apply wp_bind. apply wp_get_len. simp_w.
  unfold rir_self. rewrite Hn. replace (S n - 1) with n by lia.
  destruct (Nat.eqb_spec i n) as [->|Hne].
  - apply wp_bind. apply wp_ret. apply wp_ret. simp_w.
    split; [exact Hpe|]. split; [reflexivity|]. split; reflexivity.
  - destruct (Hs n ltac:(lia)) as [q Hq]. rewrite Hq.
    apply wp_bind. apply wp_bind.
    eapply wp_p_read with (p := q).
    { simp_w. rewrite nth_error_upd_neq by auto. exact Hq. }
    simp_w.
    apply wp_p_write.
    { unfold cap; simp_w. rewrite !upd_length. fold (cap (self w)). lia. }
    apply wp_ret. simp_w.
    split; [exact Hpe|]. split; [reflexivity|]. split; reflexivity.
Qed.

(* ---- (b), (c) OccupiedEntry::remove / remove_entry and Map::remove / remove_entry ---- *)
Definition rm_self (m : map) (c : N) : map :=
  match find_idx ck c (elems m) with Some j => rir_self m j | None => m end.

Lemma remove_exact q (w : world) :
  WF (self w) ->
  wp (remove E debug q)
     (fun r w' => r = option_map snd (snd (l_remove ck (elems (self w)) (cq q))) /\
                  self w' = rm_self (self w) (cq q) /\
                  log w' = log w ++ match snd (l_remove ck (elems (self w)) (cq q)) with
                                    | Some (k', _) => ev_drops (idK E k') | None => [] end)
     (fun _ => False) w.
Proof.
  intros Hw. unfold remove. apply wp_bind.
  eapply wp_mono; [apply (scan_lawful ck (test_q E q) (cq q)); [apply (cls_test_q E ck cq HL) | exact Hw] | | intros w' []]; cbn beta.
  intros r w1 [[Hs1 Hl1] ->]. unfold l_remove, rm_self.
  destruct (find_idx ck (cq q) (elems (self w))) as [i|] eqn:Hf; cbn [fst snd].
  - pose proof (find_idx_lt ck _ _ _ Hf) as Hi. rewrite (elems_length _ Hw) in Hi.
    apply wp_bind.
    eapply wp_mono; [apply (remove_index_read_exact i w1); rewrite Hs1; assumption | | intros ? []]; cbn beta.
    rewrite Hs1. intros p w2 (Hp & Hs2 & Hl2 & _).
    apply wp_bind. eapply wp_mono; [apply (drop_key_lawful E ck cq HL) | | intros ? []]; cbn beta.
    intros _ w3 [Hs3 Hlg]. apply wp_ret. rewrite Hp. destruct p as [k0 v0]. cbn [fst snd option_map] in *.
    split; [reflexivity|]. split; [congruence|]. unfold logged in Hlg. congruence.
  - apply wp_ret. cbn [option_map]. split; [reflexivity|]. split; [exact Hs1|]. rewrite app_nil_r. exact Hl1.
Qed.

Lemma remove_entry_exact q (w : world) :
  WF (self w) ->
  wp (remove_entry E debug q)
     (fun r w' => r = snd (l_remove ck (elems (self w)) (cq q)) /\
                  self w' = rm_self (self w) (cq q) /\ log w' = log w)
     (fun _ => False) w.
Proof.
  intros Hw. unfold remove_entry. apply wp_bind.
  eapply wp_mono; [apply (scan_lawful ck (test_q E q) (cq q)); [apply (cls_test_q E ck cq HL) | exact Hw] | | intros w' []]; cbn beta.
  intros r w1 [[Hs1 Hl1] ->]. unfold l_remove, rm_self.
  destruct (find_idx ck (cq q) (elems (self w))) as [i|] eqn:Hf; cbn [fst snd].
  - pose proof (find_idx_lt ck _ _ _ Hf) as Hi. rewrite (elems_length _ Hw) in Hi.
    apply wp_bind.
    eapply wp_mono; [apply (remove_index_read_exact i w1); rewrite Hs1; assumption | | intros ? []]; cbn beta.
    rewrite Hs1. intros p w2 (Hp & Hs2 & Hl2 & _). apply wp_ret. rewrite Hp.
    split; [reflexivity|]. split; [exact Hs2 | congruence].
  - apply wp_ret. auto.
Qed.

(* the entry side: entry(k), then remove() on Occupied; a Vacant entry is dropped *)
Definition entry_remove (k : K) : M (option V) :=
  e <- entry_of E k ;;
  match e with
  | Occupied i => v <- occ_remove E debug i ;; ret (Some v)
  | Vacant k' => drop_key E k' ;; ret None
  end.
Definition entry_remove_entry (k : K) : M (option kv) :=
  e <- entry_of E k ;;
  match e with
  | Occupied i => p <- occ_remove_entry debug i ;; ret (Some p)
  | Vacant k' => drop_key E k' ;; ret None
  end.

(* same result, same container; the entry side's log has the Drop of the
   supplied key object k (entry(k) consumed it) in front of what remove logs *)
Theorem entry_remove_vs_remove k q (w : world) :
  WF (self w) -> cq q = ck k ->
  let r := option_map snd (snd (l_remove ck (elems (self w)) (ck k))) in
  let evs := match snd (l_remove ck (elems (self w)) (ck k)) with
             | Some (k0, _) => ev_drops (idK E k0) | None => [] end in
  obs (entry_remove k w) = Some (Some r, rm_self (self w) (ck k), log w ++ ev_drops (idK E k) ++ evs) /\
  obs (remove E debug q w) = Some (Some r, rm_self (self w) (ck k), log w ++ evs).
Proof.
  intros Hw Hq r evs. split.
  - apply obs_ok_of_wp. unfold entry_remove. apply wp_bind.
    eapply wp_mono; [apply (entry_of_lawful E ck cq HL k w Hw) | | intros ? []]; cbn beta.
    intros e w1 [Hs1 He]. unfold r, evs, l_remove, rm_self.
    destruct (find_idx ck (ck k) (elems (self w))) as [j|] eqn:Hf; cbn [fst snd].
    + destruct He as [-> Hl1]. pose proof (find_idx_lt ck _ _ _ Hf) as Hj. rewrite (elems_length _ Hw) in Hj.
      apply wp_bind. unfold occ_remove. apply wp_bind.
      eapply wp_mono; [apply (remove_index_read_exact j w1); rewrite Hs1; assumption | | intros ? []]; cbn beta.
      rewrite Hs1. intros p w2 (Hp & Hs2 & Hl2 & _).
      apply wp_bind. eapply wp_mono; [apply (drop_key_lawful E ck cq HL) | | intros ? []]; cbn beta.
      intros _ w3 [Hs3 Hlg]. apply wp_ret. apply wp_ret. rewrite Hp. destruct p as [k0 v0]. cbn [fst snd option_map] in *.
      split; [reflexivity|]. split; [congruence|]. unfold logged in *. rewrite Hlg, Hl2, Hl1, app_assoc. reflexivity.
    + destruct He as [-> Hl1]. apply wp_bind.
      eapply wp_mono; [apply (drop_key_lawful E ck cq HL) | | intros ? []]; cbn beta.
      intros _ w2 [Hs2 Hlg]. apply wp_ret. cbn [option_map]. split; [reflexivity|]. split; [congruence|].
      unfold logged in Hlg. rewrite Hlg, Hl1, app_nil_r. reflexivity.
  - apply obs_ok_of_wp.
    eapply wp_mono; [apply (remove_exact q w Hw) | | intros ? []]; cbn beta. rewrite Hq.
    intros r' w' (H1 & H2 & H3). auto.
Qed.

Theorem entry_remove_entry_vs_remove_entry k q (w : world) :
  WF (self w) -> cq q = ck k ->
  let r := snd (l_remove ck (elems (self w)) (ck k)) in
  obs (entry_remove_entry k w) = Some (Some r, rm_self (self w) (ck k), log w ++ ev_drops (idK E k)) /\
  obs (remove_entry E debug q w) = Some (Some r, rm_self (self w) (ck k), log w).
Proof.
  intros Hw Hq r. split.
  - apply obs_ok_of_wp. unfold entry_remove_entry. apply wp_bind.
    eapply wp_mono; [apply (entry_of_lawful E ck cq HL k w Hw) | | intros ? []]; cbn beta.
    intros e w1 [Hs1 He]. unfold r, l_remove, rm_self.
    destruct (find_idx ck (ck k) (elems (self w))) as [j|] eqn:Hf; cbn [fst snd].
    + destruct He as [-> Hl1]. pose proof (find_idx_lt ck _ _ _ Hf) as Hj. rewrite (elems_length _ Hw) in Hj.
      apply wp_bind. unfold occ_remove_entry.
      eapply wp_mono; [apply (remove_index_read_exact j w1); rewrite Hs1; assumption | | intros ? []]; cbn beta.
      rewrite Hs1. intros p w2 (Hp & Hs2 & Hl2 & _). apply wp_ret. rewrite Hp.
      split; [reflexivity|]. split; [exact Hs2|]. unfold logged in Hl1. congruence.
    + destruct He as [-> Hl1]. apply wp_bind.
      eapply wp_mono; [apply (drop_key_lawful E ck cq HL) | | intros ? []]; cbn beta.
      intros _ w2 [Hs2 Hlg]. apply wp_ret. split; [reflexivity|]. split; [congruence|].
      unfold logged in Hlg. congruence.
  - apply obs_ok_of_wp.
    eapply wp_mono; [apply (remove_entry_exact q w Hw) | | intros ? []]; cbn beta. rewrite Hq.
    intros r' w' (H1 & H2 & H3). auto.
Qed.

(* ---- (d) OccupiedEntry::get and Map::get ---- *)
Definition entry_get (k : K) : M (option nat) :=
  e <- entry_of E k ;;
  match e with
  | Occupied i => j <- occ_get i ;; ret (Some j)
  | Vacant k' => drop_key E k' ;; ret None
  end.

Theorem entry_get_vs_get k q (w : world) :
  WF (self w) -> cq q = ck k ->
  let r := find_idx ck (ck k) (elems (self w)) in
  obs (entry_get k w) = Some (Some r, self w, log w ++ ev_drops (idK E k)) /\
  obs (get E q w) = Some (Some r, self w, log w).
Proof.
  intros Hw Hq r. split.
  - apply obs_ok_of_wp. unfold entry_get. apply wp_bind.
    eapply wp_mono; [apply (entry_of_lawful E ck cq HL k w Hw) | | intros ? []]; cbn beta.
    intros e w1 [Hs1 He]. unfold r.
    destruct (find_idx ck (ck k) (elems (self w))) as [j|] eqn:Hf.
    + destruct He as [-> Hl1]. destruct (find_idx_slot ck _ _ _ Hw Hf) as [Hj _]. apply wp_bind.
      eapply wp_mono; [apply (occ_ref_lawful j w1); rewrite Hs1; assumption | | intros ? []]; cbn beta.
      intros i w2 [-> ->]. apply wp_ret. auto.
    + destruct He as [-> Hl1]. apply wp_bind.
      eapply wp_mono; [apply (drop_key_lawful E ck cq HL) | | intros ? []]; cbn beta.
      intros _ w2 [Hs2 Hlg]. apply wp_ret. split; [reflexivity|]. split; [congruence|].
      unfold logged in Hlg. congruence.
  - apply obs_ok_of_wp.
    eapply wp_mono; [apply (get_lawful E ck cq HL q w Hw) | | intros ? []]; cbn beta. rewrite Hq.
    intros r' w' [[H1 H2] H3]. auto.
Qed.

(* ---- (e) entry(k).or_insert(v) and "if !contains_key(q) { insert(k, v) }; &mut self[q]" ---- *)
Definition direct_or_insert (q : Q) (k : K) (v : V) : M nat :=
  b <- contains_key E q ;;
  (if b then drop_key E k ;; drop_val E v else (_ <- insert E debug k v ;; ret tt)) ;;
  index_mut E q.

Theorem or_insert_is_direct k q v (w : world) :
  WF (self w) -> cq q = ck k ->
  obs ((e <- entry_of E k ;; or_insert E debug e v) w) = obs (direct_or_insert q k v w).
Proof.
  intros Hw Hq.
  set (fi := find_idx ck (ck k) (elems (self w))).
  apply (obs_eq_of_wp _ _ (match fi with Some j => j | None => len (self w) end)
           (match fi with Some _ => self w | None => ins_self (self w) k v false end) (self w)
           (log w ++ match fi with Some _ => ev_drops (idK E k) ++ ev_drops (idV E v) | None => [] end)
           (log w ++ ev_drops (idV E v ++ idK E k))
           (fi = None -> len (self w) < cap (self w))
           (fi = None /\ len (self w) = cap (self w))).
  - apply wp_bind.
    eapply wp_mono; [apply (entry_of_lawful E ck cq HL k w Hw) | | intros ? []]; cbn beta.
    intros e w1 [Hs1 He]. unfold fi.
    destruct (find_idx ck (ck k) (elems (self w))) as [j|] eqn:Hf.
    + destruct He as [-> Hl1]. cbn [or_insert]. destruct (find_idx_slot ck _ _ _ Hw Hf) as [Hj _].
      apply wp_bind.
      eapply wp_mono; [apply (occ_ref_lawful j w1); rewrite Hs1; assumption | | intros ? []]; cbn beta.
      intros i w2 [-> ->]. apply wp_bind.
      eapply wp_mono; [apply (drop_val_lawful E ck cq HL) | | intros ? []]; cbn beta.
      intros _ w3 [Hs3 Hl3]. apply wp_ret. split; [reflexivity|]. split; [congruence|].
      split; [|discriminate]. unfold logged in *. rewrite Hl3, Hl1, app_assoc. reflexivity.
    + destruct He as [-> Hl1]. cbn [or_insert].
      eapply wp_mono; [apply (vac_insert_exact k v w1); rewrite Hs1; assumption | |]; cbn beta; rewrite Hs1.
      * intros i w2 (-> & Hs2 & Hl2 & Hlt). split; [reflexivity|]. split; [exact Hs2|].
        split; [rewrite app_nil_r; congruence | intros _; exact Hlt].
      * intros w2 (Hs2 & Hl2 & Hc). split; [congruence|].
        split; [unfold logged in Hl2; rewrite Hl2, Hl1; reflexivity | auto].
  - unfold direct_or_insert. apply wp_bind.
    eapply wp_mono; [apply (contains_key_lawful E ck cq HL q w Hw) | | intros ? []]; cbn beta.
    intros b w1 [[Hs1 Hl1] ->]. rewrite Hq. fold fi.
    destruct fi as [j|] eqn:Hf; unfold fi in Hf.
    + apply wp_bind. apply wp_bind.
      eapply wp_mono; [apply (drop_key_lawful E ck cq HL) | | intros ? []]; cbn beta.
      intros _ w2 [Hs2 Hl2].
      eapply wp_mono; [apply (drop_val_lawful E ck cq HL) | | intros ? []]; cbn beta.
      intros _ w3 [Hs3 Hl3].
      assert (Hs : self w3 = self w) by congruence.
      eapply wp_mono; [apply (index_mut_lawful E ck cq HL q w3); rewrite Hs; exact Hw | |]; cbn beta; rewrite Hs, Hq.
      * intros i w4 [[Hs4 Hl4] Hi]. rewrite Hf in Hi. injection Hi as <-.
        split; [reflexivity|]. split; [congruence|]. split; [|discriminate].
        unfold logged in *. rewrite Hl4, Hl3, Hl2, Hl1, app_assoc. reflexivity.
      * intros w4 [_ Hn]. congruence.
    + apply wp_bind. apply wp_bind.
      eapply wp_mono; [apply (insert_exact k v w1); rewrite Hs1; exact Hw | |]; cbn beta; rewrite Hs1.
      * intros r w2 (Hs2 & _ & _ & Hl2 & Hroom & Hw2 & He2). apply wp_ret.
        unfold l_insert in Hl2, He2. rewrite Hf in Hl2, He2. cbn [fst snd] in Hl2, He2.
        eapply wp_mono; [apply (index_mut_lawful E ck cq HL q w2 Hw2) | |]; cbn beta; rewrite He2, Hq.
        -- intros i w3 [[Hs3 Hl3] Hi].
           rewrite (find_idx_app ck), Hf in Hi. cbn [find_idx fst] in Hi. rewrite N.eqb_refl in Hi.
           cbn [option_map] in Hi. injection Hi as <-. rewrite Nat.add_0_r, (elems_length _ Hw).
           split; [reflexivity|]. split; [congruence|]. split; [|intros _; exact (Hroom Hf)].
           unfold logged in Hl2. rewrite app_nil_r in *. congruence.
        -- intros w3 [_ Hn]. rewrite (find_idx_app ck), Hf in Hn. cbn [find_idx fst] in Hn.
           rewrite N.eqb_refl in Hn. discriminate.
      * intros w2 (Hs2 & Hl2 & _ & Hc). split; [exact Hs2|].
        split; [unfold logged in Hl2; congruence | auto].
  - intros [H1 [H2 H3]]. specialize (H1 H2). lia.
Qed.

End Observables.

(* ======================================================================== *)
(* 8. chains: any list of and_modify (arbitrary closures), then any terminal *)
(* ======================================================================== *)
Lemma nth_error_ext_eq {A} (l l' : list A) : (forall j, nth_error l j = nth_error l' j) -> l = l'.
Proof.
  revert l'; induction l as [|h t IH]; intros [|h' t'] H.
  - reflexivity.
  - specialize (H 0). discriminate.
  - specialize (H 0). discriminate.
  - pose proof (H 0) as H0. cbn [nth_error] in H0. injection H0 as ->. f_equal.
    apply IH. intros j. exact (H (S j)).
Qed.

Lemma nth_error_ext_upd {A} (l' l : list A) i x :
  length l' = length l -> nth_error l' i = Some x ->
  (forall j, j <> i -> nth_error l' j = nth_error l j) -> l' = upd l i x.
Proof.
  revert l i; induction l' as [|h' t' IH]; intros [|h t] i Hlen Hx Hoth; cbn [length] in Hlen; try discriminate.
  - destruct i; discriminate.
  - destruct i as [|i]; cbn [nth_error] in Hx; cbn [upd].
    + injection Hx as ->. f_equal. apply nth_error_ext_eq. intros j. exact (Hoth (S j) ltac:(discriminate)).
    + pose proof (Hoth 0 ltac:(discriminate)) as H0. cbn [nth_error] in H0. injection H0 as ->. f_equal.
      apply IH; [lia | exact Hx|]. intros j Hj. apply (Hoth (S j)). lia.
Qed.

Section Chains2.
Context {K V Q T : Type} (E : env K V Q T) (debug : bool).
Context (ck : K -> N) (cq : Q -> N) (HL : Lawful E ck cq).
Notation M := (M K V T). Notation world := (world K V T). Notation map := (map K V). Notation kv := (K * V)%type.

(* ---- the methods on a bare entry (definitional) ---- *)
Lemma or_insert_with_occ_eq j (f : T -> option V * T) : or_insert_with E debug (Occupied j) f = occ_into_mut j.
Proof. reflexivity. Qed.
Lemma or_insert_with_key_occ_eq j (f : K -> T -> option V * T) :
  or_insert_with_key E debug (Occupied j) f = occ_into_mut j.
Proof. reflexivity. Qed.
Lemma or_insert_occ_eq j v : or_insert E debug (Occupied j) v = (i <- occ_into_mut j ;; drop_val E v ;; ret i).
Proof. reflexivity. Qed.
Lemma or_insert_vac_eq k v : or_insert E debug (Vacant k) v = vac_insert E debug k v.
Proof. reflexivity. Qed.
Lemma or_insert_with_vac_eq k (f : T -> option V * T) :
  or_insert_with E debug (Vacant k) f = (v <- on_unwind (unwind_key E k) (call_mk f) ;; vac_insert E debug k v).
Proof. reflexivity. Qed.
Lemma or_insert_with_key_vac_eq k (f : K -> T -> option V * T) :
  or_insert_with_key E debug (Vacant k) f =
  (v <- on_unwind (unwind_key E k) (call_mk (f k)) ;; vac_insert E debug k v).
Proof. reflexivity. Qed.
Lemma entry_key_occ_eq j : @entry_key K V T (Occupied j) = (i <- occ_key j ;; ret (inl i)).
Proof. reflexivity. Qed.
Lemma entry_key_vac_eq k : @entry_key K V T (Vacant k) = ret (inr k).
Proof. reflexivity. Qed.
Lemma and_modify_vac_eq k (f : modf_t) : @and_modify K V T (Vacant k) f = ret (Vacant k).
Proof. reflexivity. Qed.
Lemma and_modify_occ_eq j (f : modf_t) :
  @and_modify K V T (Occupied j) f = (_ <- occ_get_mut j ;; call_modf f j ;; ret (Occupied j)).
Proof. reflexivity. Qed.

(* a vacant entry passes through any chain of and_modify untouched: no closure
   runs, the world is the same *)
Lemma and_modify_all_vacant_run k (fs : list modf_t) (w : world) :
  and_modify_all (Vacant k) fs w = Ok (Vacant k) w.
Proof. induction fs as [|f t IH]; [reflexivity|]. cbn [and_modify_all and_modify]. exact IH. Qed.

(* what a chain of and_modify on slot i can do to a container: same capacity,
   same length, the same key OBJECTS in the same slots, every slot other than i
   exactly as it was *)
Definition am_frame (i : nat) (m m' : map) : Prop :=
  WF m' /\ cap m' = cap m /\ len m' = len m /\
  List.map fst (elems m') = List.map fst (elems m) /\
  forall j, j <> i -> nth_error (elems m') j = nth_error (elems m) j.

Lemma am_frame_refl i m : WF m -> am_frame i m m.
Proof. intros H. split; [exact H|]. auto. Qed.

Lemma am_frame_trans i m1 m2 m3 : am_frame i m1 m2 -> am_frame i m2 m3 -> am_frame i m1 m3.
Proof.
  intros (_ & A2 & A3 & A4 & A5) (B1 & B2 & B3 & B4 & B5).
  split; [exact B1|]. split; [congruence|]. split; [congruence|]. split; [congruence|].
  intros j Hj. rewrite B5, A5 by exact Hj. reflexivity.
Qed.

Lemma am_frame_upd i (m m' : map) k0 v0 v' :
  WF m -> WF m' -> cap m' = cap m -> nth_error (elems m) i = Some (k0, v0) ->
  elems m' = upd (elems m) i (k0, v') -> am_frame i m m'.
Proof.
  intros Hw Hw' Hc Hp He. split; [exact Hw'|]. split; [exact Hc|]. split; [|split].
  - rewrite <- (elems_length _ Hw'), He, upd_length. apply elems_length. exact Hw.
  - rewrite He. eapply map_fst_upd_value. exact Hp.
  - intros j Hj. rewrite He. apply nth_error_upd_neq. auto.
Qed.

(* the slot the chain works on still holds the same key object *)
Lemma am_frame_slot i (m m' : map) k0 v0 :
  am_frame i m m' -> nth_error (elems m) i = Some (k0, v0) ->
  exists v', nth_error (elems m') i = Some (k0, v').
Proof.
  intros (_ & _ & _ & Hm & _) Hp.
  assert (H : nth_error (List.map fst (elems m')) i = Some k0).
  { rewrite Hm, nth_error_map, Hp. reflexivity. }
  rewrite nth_error_map in H. destruct (nth_error (elems m') i) as [[k1 v1]|]; [|discriminate].
  cbn [option_map fst] in H. injection H as ->. eauto.
Qed.

Lemma am_frame_lookup i (m m' : map) k0 v0 c :
  am_frame i m m' -> nth_error (elems m) i = Some (k0, v0) -> c <> ck k0 ->
  lookup ck (elems m') c = lookup ck (elems m) c.
Proof.
  intros HF Hp Hc. destruct (am_frame_slot i m m' k0 v0 HF Hp) as [v' Hp'].
  destruct HF as (_ & _ & _ & Hm & Hoth).
  assert (Hfi : forall l l' : list kv, List.map fst l' = List.map fst l -> find_idx ck c l' = find_idx ck c l).
  { induction l as [|p t IH]; intros [|p' t'] H; cbn [List.map] in H; try discriminate; [reflexivity|].
    injection H as Hpp Ht. cbn [find_idx]. rewrite Hpp, (IH t' Ht). reflexivity. }
  unfold lookup. rewrite (Hfi _ _ Hm).
  destruct (find_idx ck c (elems m)) as [j|] eqn:Hj; [|reflexivity].
  apply Hoth. intros ->. destruct (find_idx_inv ck _ _ _ Hj) as [[p [Hq Hcq]] _].
  rewrite Hp in Hq. injection Hq as <-. cbn [fst] in Hcq. congruence.
Qed.

(* one and_modify on an occupied entry, ANY closure *)
Lemma and_modify_occ_any (f : modf_t) i (w : world) :
  WF (self w) -> i < len (self w) ->
  wp (and_modify (Occupied i) f)
     (fun e' w' => e' = Occupied i /\ am_frame i (self w) (self w') /\ logged w w' [EvCall 3])
     (fun w' => am_frame i (self w) (self w') /\ logged w w' [EvCall 3]) w.
Proof.
  intros Hw Hi. destruct (iter_yield_is_elem i w Hw Hi) as [[k0 v0] [Hp _]].
  cbn [and_modify]. apply wp_bind.
  eapply wp_mono; [apply (occ_ref_lawful i w Hw Hi) | | intros ? []]; cbn beta.
  intros j w1 [-> ->]. apply wp_bind.
  eapply wp_mono; [apply (call_modf_stateful f i w Hw k0 v0 Hp) | |]; cbn beta; unfold modf_post.
  - intros _ w2 (_ & Hw2 & Hc2 & He2 & Hl2 & _). apply wp_ret. split; [reflexivity|].
    split; [eapply am_frame_upd; eassumption | exact Hl2].
  - intros w2 (_ & Hw2 & Hc2 & He2 & Hl2 & _). split; [eapply am_frame_upd; eassumption | exact Hl2].
Qed.

(* the frame of a whole chain, ARBITRARY (stateful, panicking) modifiers.
   The premise entry_ok: an Occupied entry designates a live slot (what entry(k)
   returns); without it the unchecked accessors are undefined. *)
Lemma and_modify_all_frame (fs : list modf_t) : forall (e : @entry K) (w : world),
  WF (self w) -> entry_ok e (self w) ->
  wp (and_modify_all e fs)
     (fun e' w' => e' = e /\
        match e with
        | Vacant _ => w' = w
        | Occupied i => am_frame i (self w) (self w') /\ logged w w' (repeat (EvCall 3) (length fs))
        end)
     (fun w' =>
        match e with
        | Vacant _ => False
        | Occupied i => am_frame i (self w) (self w') /\
                        exists n, 1 <= n <= length fs /\ logged w w' (repeat (EvCall 3) n)
        end) w.
Proof.
  induction fs as [|f t IH]; intros e w Hw He; cbn [and_modify_all length repeat].
  - apply wp_ret. split; [reflexivity|]. destruct e as [i|k]; [|reflexivity].
    split; [apply am_frame_refl; exact Hw | apply logged_nil].
  - destruct e as [i|k].
    + cbn [entry_ok] in He. apply wp_bind.
      eapply wp_mono; [apply (and_modify_occ_any f i w Hw He) | |]; cbn beta.
      * intros e1 w1 (-> & HF1 & Hl1).
        assert (Hw1 : WF (self w1)) by apply HF1.
        assert (Hi1 : i < len (self w1)) by (destruct HF1 as (_ & _ & Hlen & _); rewrite Hlen; exact He).
        eapply wp_mono; [apply (IH (Occupied i) w1 Hw1 Hi1) | |]; cbn beta.
        -- intros e2 w2 (-> & HF2 & Hl2). split; [reflexivity|].
           split; [eapply am_frame_trans; eassumption|].
           change (EvCall 3 :: repeat (EvCall 3) (length t)) with ([EvCall 3] ++ repeat (EvCall 3) (length t)).
           eapply logged_trans; eassumption.
        -- intros w2 (HF2 & n & Hn & Hl2). split; [eapply am_frame_trans; eassumption|].
           exists (S n). split; [lia|].
           change (repeat (EvCall 3) (S n)) with ([EvCall 3] ++ repeat (EvCall 3) n).
           eapply logged_trans; eassumption.
      * intros w1 (HF1 & Hl1). split; [exact HF1|]. exists 1. split; [lia | exact Hl1].
    + cbn [and_modify]. apply wp_bind. apply wp_ret.
      eapply wp_mono; [apply (IH (Vacant k) w Hw I) | |]; cbn beta; auto.
Qed.

(* the weaker reading asked for by the audit: the entry is unchanged, the
   container is well formed and holds the same key objects, on both exits *)
Lemma and_modify_all_frame_keys (fs : list modf_t) (e : @entry K) (w : world) :
  WF (self w) -> entry_ok e (self w) ->
  wp (and_modify_all e fs)
     (fun e' w' => e' = e /\ WF (self w') /\
                   List.map fst (elems (self w')) = List.map fst (elems (self w)))
     (fun w' => WF (self w') /\ List.map fst (elems (self w')) = List.map fst (elems (self w))) w.
Proof.
  intros Hw He.
  eapply wp_mono; [apply (and_modify_all_frame fs e w Hw He) | |]; cbn beta.
  - intros e' w' [-> H]. split; [reflexivity|]. destruct e as [i|k].
    + destruct H as [(H1 & _ & _ & H2 & _) _]. auto.
    + subst w'. auto.
  - intros w' H. destruct e as [i|k]; [|destruct H]. destruct H as [(H1 & _ & _ & H2 & _) _]. auto.
Qed.

(* ---- composition ---- *)
(* ABSENT key: the chain of and_modify disappears, for EVERY terminal T: the
   program is literally entry(k) followed by T (so every theorem about
   `e <- entry_of E k ;; T e` on an absent key applies) *)
Theorem chain_vacant_skip {A} k (fs : list modf_t) (Tm : @entry K -> M A) (w : world) :
  WF (self w) -> find_idx ck (ck k) (elems (self w)) = None ->
  (e <- entry_of E k ;; e' <- and_modify_all e fs ;; Tm e') w = (e <- entry_of E k ;; Tm e) w.
Proof.
  intros Hw Hf. pose proof (entry_of_lawful E ck cq HL k w Hw) as H. unfold wp in H. unfold bind.
  destruct (entry_of E k w) as [e w1|w1|]; [|reflexivity|reflexivity].
  destruct H as [_ He]. rewrite Hf in He. destruct He as [-> _].
  rewrite and_modify_all_vacant_run. reflexivity.
Qed.

(* PRESENT key: the terminal runs on Occupied j in a world that differs from
   the start by the frame above; if a modifier panics the terminal does not run *)
Theorem chain_occupied {A} k (fs : list modf_t) (Tm : @entry K -> M A) j
        (Qn : A -> world -> Prop) (Qp : world -> Prop) (w : world) :
  WF (self w) -> find_idx ck (ck k) (elems (self w)) = Some j ->
  (forall w1, am_frame j (self w) (self w1) ->
              logged w w1 (ev_drops (idK E k) ++ repeat (EvCall 3) (length fs)) ->
              wp (Tm (Occupied j)) Qn Qp w1) ->
  (forall w1 n, am_frame j (self w) (self w1) -> 1 <= n <= length fs ->
                logged w w1 (ev_drops (idK E k) ++ repeat (EvCall 3) n) -> Qp w1) ->
  wp (e <- entry_of E k ;; e' <- and_modify_all e fs ;; Tm e') Qn Qp w.
Proof.
  intros Hw Hf HT HP. apply wp_bind.
  eapply wp_mono; [apply (entry_of_discards_key E ck cq HL k j w Hw Hf) | | intros ? []]; cbn beta.
  intros e w1 (-> & Hs1 & Hl1).
  destruct (find_idx_slot ck _ _ _ Hw Hf) as [Hj _]. apply wp_bind.
  eapply wp_mono; [apply (and_modify_all_frame fs (Occupied j) w1); [rewrite Hs1; exact Hw | cbn [entry_ok]; rewrite Hs1; exact Hj] | |];
    cbn beta; rewrite Hs1.
  - intros e' w2 (-> & HF & Hl2). apply HT; [exact HF | eapply logged_trans; eassumption].
  - intros w2 (HF & n & Hn & Hl2). apply (HP w2 n HF Hn). eapply logged_trans; eassumption.
Qed.

(* ---- the terminals, as functions of the entry ---- *)
Definition t_insert (v : V) (e : @entry K) : M (option V) :=
  match e with
  | Occupied i => o <- occ_insert i v ;; ret (Some o)
  | Vacant k' => _ <- vac_insert E debug k' v ;; ret None
  end.
Definition t_remove (e : @entry K) : M (option V) :=
  match e with
  | Occupied i => v <- occ_remove E debug i ;; ret (Some v)
  | Vacant k' => drop_key E k' ;; ret None
  end.
Definition t_remove_entry (e : @entry K) : M (option kv) :=
  match e with
  | Occupied i => p <- occ_remove_entry debug i ;; ret (Some p)
  | Vacant k' => drop_key E k' ;; ret None
  end.
Definition t_get (e : @entry K) : M (option nat) :=
  match e with
  | Occupied i => j <- occ_get i ;; ret (Some j)
  | Vacant k' => drop_key E k' ;; ret None
  end.

(* the panic exit shared by all the corollaries: a modifier panicked *)
Definition chain_panic (k : K) (fs : list (@modf_t V T)) (j : nat) (w w' : world) : Prop :=
  am_frame j (self w) (self w') /\
  exists n, 1 <= n <= length fs /\ logged w w' (ev_drops (idK E k) ++ repeat (EvCall 3) n).

Lemma chain_panic_intro k fs j (w w1 : world) n :
  am_frame j (self w) (self w1) -> 1 <= n <= length fs ->
  logged w w1 (ev_drops (idK E k) ++ repeat (EvCall 3) n) -> chain_panic k fs j w w1.
Proof. intros H1 H2 H3. split; [exact H1|]. exists n. auto. Qed.

(* terminals that only re-borrow slot j: or_insert_with, or_insert_with_key
   (ANY closure: it is not called — no EvCall 2 in the log), OccupiedEntry::get /
   get_mut / into_mut / key *)
Theorem chain_or_insert_with k (fs : list modf_t) (f : T -> option V * T) j (w : world) :
  WF (self w) -> find_idx ck (ck k) (elems (self w)) = Some j ->
  wp (e <- entry_of E k ;; e' <- and_modify_all e fs ;; or_insert_with E debug e' f)
     (fun i w' => i = j /\ am_frame j (self w) (self w') /\
                  logged w w' (ev_drops (idK E k) ++ repeat (EvCall 3) (length fs)))
     (chain_panic k fs j w) w.
Proof.
  intros Hw Hf. apply (chain_occupied k fs (fun e' => or_insert_with E debug e' f) j); [exact Hw | exact Hf | |].
  - intros w1 HF Hl. cbn [or_insert_with].
    assert (Hj : j < len (self w1)).
    { destruct HF as (_ & _ & Hlen & _). rewrite Hlen. apply (find_idx_slot ck _ _ _ Hw Hf). }
    eapply wp_mono; [apply (occ_ref_lawful j w1); [apply HF | exact Hj] | | intros ? []]; cbn beta.
    intros i w2 [-> ->]. auto.
  - intros w1 n. apply chain_panic_intro.
Qed.

Theorem chain_or_insert_with_key k (fs : list modf_t) (f : K -> T -> option V * T) j (w : world) :
  WF (self w) -> find_idx ck (ck k) (elems (self w)) = Some j ->
  wp (e <- entry_of E k ;; e' <- and_modify_all e fs ;; or_insert_with_key E debug e' f)
     (fun i w' => i = j /\ am_frame j (self w) (self w') /\
                  logged w w' (ev_drops (idK E k) ++ repeat (EvCall 3) (length fs)))
     (chain_panic k fs j w) w.
Proof.
  intros Hw Hf. apply (chain_occupied k fs (fun e' => or_insert_with_key E debug e' f) j); [exact Hw | exact Hf | |].
  - intros w1 HF Hl. cbn [or_insert_with_key].
    assert (Hj : j < len (self w1)).
    { destruct HF as (_ & _ & Hlen & _). rewrite Hlen. apply (find_idx_slot ck _ _ _ Hw Hf). }
    eapply wp_mono; [apply (occ_ref_lawful j w1); [apply HF | exact Hj] | | intros ? []]; cbn beta.
    intros i w2 [-> ->]. auto.
  - intros w1 n. apply chain_panic_intro.
Qed.

Theorem chain_key k (fs : list modf_t) j (w : world) :
  WF (self w) -> find_idx ck (ck k) (elems (self w)) = Some j ->
  wp (e <- entry_of E k ;; e' <- and_modify_all e fs ;; entry_key e')
     (fun r w' => r = inl j /\ am_frame j (self w) (self w') /\
                  logged w w' (ev_drops (idK E k) ++ repeat (EvCall 3) (length fs)))
     (chain_panic k fs j w) w.
Proof.
  intros Hw Hf. apply (chain_occupied k fs (fun e' => entry_key e') j); [exact Hw | exact Hf | |].
  - intros w1 HF Hl. cbn [entry_key].
    assert (Hj : j < len (self w1)).
    { destruct HF as (_ & _ & Hlen & _). rewrite Hlen. apply (find_idx_slot ck _ _ _ Hw Hf). }
    apply wp_bind.
    eapply wp_mono; [apply (occ_ref_lawful j w1); [apply HF | exact Hj] | | intros ? []]; cbn beta.
    intros i w2 [-> ->]. apply wp_ret. auto.
  - intros w1 n. apply chain_panic_intro.
Qed.

Theorem chain_get k (fs : list modf_t) j (w : world) :
  WF (self w) -> find_idx ck (ck k) (elems (self w)) = Some j ->
  wp (e <- entry_of E k ;; e' <- and_modify_all e fs ;; t_get e')
     (fun r w' => r = Some j /\ am_frame j (self w) (self w') /\
                  logged w w' (ev_drops (idK E k) ++ repeat (EvCall 3) (length fs)))
     (chain_panic k fs j w) w.
Proof.
  intros Hw Hf. apply (chain_occupied k fs t_get j); [exact Hw | exact Hf | |].
  - intros w1 HF Hl. cbn [t_get].
    assert (Hj : j < len (self w1)).
    { destruct HF as (_ & _ & Hlen & _). rewrite Hlen. apply (find_idx_slot ck _ _ _ Hw Hf). }
    apply wp_bind.
    eapply wp_mono; [apply (occ_ref_lawful j w1); [apply HF | exact Hj] | | intros ? []]; cbn beta.
    intros i w2 [-> ->]. apply wp_ret. auto.
  - intros w1 n. apply chain_panic_intro.
Qed.

(* or_insert after any modifiers: the unused default is destroyed *)
Theorem chain_or_insert k (fs : list modf_t) v j (w : world) :
  WF (self w) -> find_idx ck (ck k) (elems (self w)) = Some j ->
  wp (e <- entry_of E k ;; e' <- and_modify_all e fs ;; or_insert E debug e' v)
     (fun i w' => i = j /\ am_frame j (self w) (self w') /\
                  logged w w' (ev_drops (idK E k) ++ repeat (EvCall 3) (length fs) ++ ev_drops (idV E v)))
     (chain_panic k fs j w) w.
Proof.
  intros Hw Hf. apply (chain_occupied k fs (fun e' => or_insert E debug e' v) j); [exact Hw | exact Hf | |].
  - intros w1 HF Hl. cbn [or_insert].
    assert (Hj : j < len (self w1)).
    { destruct HF as (_ & _ & Hlen & _). rewrite Hlen. apply (find_idx_slot ck _ _ _ Hw Hf). }
    apply wp_bind.
    eapply wp_mono; [apply (occ_ref_lawful j w1); [apply HF | exact Hj] | | intros ? []]; cbn beta.
    intros i w2 [-> ->]. apply wp_bind.
    eapply wp_mono; [apply (drop_val_lawful E ck cq HL) | | intros ? []]; cbn beta.
    intros _ w3 [Hs3 Hl3]. apply wp_ret. rewrite Hs3. split; [reflexivity|]. split; [exact HF|].
    pose proof (logged_trans _ _ _ _ _ Hl Hl3) as H. rewrite <- app_assoc in H. exact H.
  - intros w1 n. apply chain_panic_intro.
Qed.

(* OccupiedEntry::insert after any modifiers: returns the value the modifiers
   left, stores v under the SAME key object k0 *)
Theorem chain_insert k (fs : list modf_t) v j k0 v0 (w : world) :
  WF (self w) -> find_idx ck (ck k) (elems (self w)) = Some j ->
  nth_error (elems (self w)) j = Some (k0, v0) ->
  wp (e <- entry_of E k ;; e' <- and_modify_all e fs ;; t_insert v e')
     (fun r w' => (exists v', r = Some v') /\ am_frame j (self w) (self w') /\
                  nth_error (elems (self w')) j = Some (k0, v) /\
                  logged w w' (ev_drops (idK E k) ++ repeat (EvCall 3) (length fs)))
     (chain_panic k fs j w) w.
Proof.
  intros Hw Hf Hp. apply (chain_occupied k fs (t_insert v) j); [exact Hw | exact Hf | |].
  - intros w1 HF Hl. cbn [t_insert]. destruct (am_frame_slot j _ _ k0 v0 HF Hp) as [v' Hp1].
    assert (Hw1 : WF (self w1)) by apply HF. apply wp_bind.
    eapply wp_mono; [apply (occ_insert_lawful j v w1 Hw1 k0 v' Hp1) | | intros ? []]; cbn beta.
    intros o w2 (Hw2 & Hc2 & Hl2 & -> & He2). apply wp_ret.
    split; [eauto|]. split; [|split].
    + eapply am_frame_trans; [exact HF|]. eapply am_frame_upd; eassumption.
    + rewrite He2. apply nth_error_upd_eq. apply nth_error_Some. rewrite Hp1. discriminate.
    + eapply logged_same; eassumption.
  - intros w1 n. apply chain_panic_intro.
Qed.

(* remove_entry / remove after any modifiers: the pair handed out carries the
   STORED key object k0 and the value the modifiers left; the rest is a
   swap_remove of a content l1 that differs from the original in slot j's value only *)
Theorem chain_remove_entry k (fs : list modf_t) j k0 v0 (w : world) :
  WF (self w) -> find_idx ck (ck k) (elems (self w)) = Some j ->
  nth_error (elems (self w)) j = Some (k0, v0) ->
  wp (e <- entry_of E k ;; e' <- and_modify_all e fs ;; t_remove_entry e')
     (fun r w' => exists v' l1,
        r = Some (k0, v') /\ WF (self w') /\ cap (self w') = cap (self w) /\
        l1 = upd (elems (self w)) j (k0, v') /\
        elems (self w') = swap_remove l1 j /\
        logged w w' (ev_drops (idK E k) ++ repeat (EvCall 3) (length fs)))
     (chain_panic k fs j w) w.
Proof.
  intros Hw Hf Hp. apply (chain_occupied k fs t_remove_entry j); [exact Hw | exact Hf | |].
  - intros w1 HF Hl. cbn [t_remove_entry]. destruct (am_frame_slot j _ _ k0 v0 HF Hp) as [v' Hp1].
    assert (Hw1 : WF (self w1)) by apply HF.
    assert (Hj : j < len (self w1)) by (apply (elems_nth_slot _ _ _ Hw1 Hp1)).
    assert (He1 : elems (self w1) = upd (elems (self w)) j (k0, v')).
    { destruct HF as (_ & _ & Hlen & _ & Hoth). apply nth_error_ext_upd; [|exact Hp1|exact Hoth].
      rewrite (elems_length _ Hw1), (elems_length _ Hw). exact Hlen. }
    apply wp_bind.
    eapply wp_mono; [apply (occ_remove_entry_lawful debug j w1 Hw1 Hj) | | intros ? []]; cbn beta.
    intros p w2 (Hw2 & Hc2 & Hl2 & Hp2 & He2). apply wp_ret. rewrite Hp1 in Hp2. injection Hp2 as <-.
    exists v', (upd (elems (self w)) j (k0, v')). split; [reflexivity|]. split; [exact Hw2|].
    split; [destruct HF as (_ & Hc & _); congruence|]. split; [reflexivity|].
    split; [rewrite He2, He1; reflexivity | eapply logged_same; eassumption].
  - intros w1 n. apply chain_panic_intro.
Qed.

Theorem chain_remove k (fs : list modf_t) j k0 v0 (w : world) :
  WF (self w) -> find_idx ck (ck k) (elems (self w)) = Some j ->
  nth_error (elems (self w)) j = Some (k0, v0) ->
  wp (e <- entry_of E k ;; e' <- and_modify_all e fs ;; t_remove e')
     (fun r w' => exists v' l1,
        r = Some v' /\ WF (self w') /\ cap (self w') = cap (self w) /\
        l1 = upd (elems (self w)) j (k0, v') /\
        elems (self w') = swap_remove l1 j /\
        logged w w' (ev_drops (idK E k) ++ repeat (EvCall 3) (length fs) ++ ev_drops (idK E k0)))
     (chain_panic k fs j w) w.
Proof.
  intros Hw Hf Hp. apply (chain_occupied k fs t_remove j); [exact Hw | exact Hf | |].
  - intros w1 HF Hl. cbn [t_remove]. destruct (am_frame_slot j _ _ k0 v0 HF Hp) as [v' Hp1].
    assert (Hw1 : WF (self w1)) by apply HF.
    assert (Hj : j < len (self w1)) by (apply (elems_nth_slot _ _ _ Hw1 Hp1)).
    assert (He1 : elems (self w1) = upd (elems (self w)) j (k0, v')).
    { destruct HF as (_ & _ & Hlen & _ & Hoth). apply nth_error_ext_upd; [|exact Hp1|exact Hoth].
      rewrite (elems_length _ Hw1), (elems_length _ Hw). exact Hlen. }
    apply wp_bind.
    eapply wp_mono; [apply (occ_remove_lawful E debug ck cq HL j w1 Hw1 Hj) | | intros ? []]; cbn beta.
    intros r w2 (Hw2 & Hc2 & k1 & Hp2 & He2 & Hl2). apply wp_ret. rewrite Hp1 in Hp2. injection Hp2 as <- <-.
    exists v', (upd (elems (self w)) j (k0, v')). split; [reflexivity|]. split; [exact Hw2|].
    split; [destruct HF as (_ & Hc & _); congruence|]. split; [reflexivity|].
    split; [rewrite He2, He1; reflexivity|].
    pose proof (logged_trans _ _ _ _ _ Hl Hl2) as H. rewrite <- app_assoc in H. exact H.
  - intros w1 n. apply chain_panic_intro.
Qed.

End Chains2.

(* ======================================================================== *)
(* 9. "every reachable map state": WF and Uniq discharged from reachability  *)
(* ======================================================================== *)
Section Reachable.
Context {K V Q T : Type} (E : env K V Q T) (debug : bool).
Context (ck : K -> N) (cq : Q -> N) (HL : Lawful E ck cq).
Notation world := (world K V T).

(* the state after ANY history (Dict2: the 13 map operations, drain, iteration,
   entry(k).or_insert(v), extend — container-raised panics included) from
   Map::new() of ANY capacity is well formed with pairwise different keys *)
Theorem reachable2_inv n (ops : list (@dop2 K V Q)) s lg :
  exists wf, mfinal2 E debug ops {| cb := s; log := lg; self := new_map n |} = Some wf /\
             WF (self wf) /\ Uniq ck (elems (self wf)) /\ cap (self wf) = n.
Proof.
  destruct (run2_refines_new E debug ck cq HL n ops s lg) as (wf & df & Hm & _ & (Hw & Hu & _) & Hc).
  exists wf. auto.
Qed.

(* transfer principle: whatever holds of every well-formed, unique-keyed state
   holds of every reachable state *)
Theorem reachable2_elim (P : world -> Prop) :
  (forall w, WF (self w) -> Uniq ck (elems (self w)) -> P w) ->
  forall n (ops : list (@dop2 K V Q)) s lg,
    exists wf, mfinal2 E debug ops {| cb := s; log := lg; self := new_map n |} = Some wf /\ P wf.
Proof.
  intros HP n ops s lg. destruct (reachable2_inv n ops s lg) as (wf & Hm & Hw & Hu & _).
  exists wf. split; [exact Hm | apply HP; assumption].
Qed.

Theorem entry_of_reachable n (ops : list (@dop2 K V Q)) s lg :
  exists wf, mfinal2 E debug ops {| cb := s; log := lg; self := new_map n |} = Some wf /\
    forall k,
    wp (entry_of E k)
       (fun e w' => self w' = self wf /\ cb w' = entry_cb E ck k (elems (self wf)) (cb wf) /\
                    match find_idx ck (ck k) (elems (self wf)) with
                    | Some i => e = Occupied i /\ logged wf w' (ev_drops (idK E k))
                    | None => e = Vacant k /\ log w' = log wf
                    end)
       (fun _ => False) wf.
Proof.
  destruct (reachable2_inv n ops s lg) as (w & Hm & Hw & Hu & _). exists w. split; [exact Hm|].
  intros k. exact (entry_of_cb E ck cq HL k w Hw).
Qed.

Theorem or_insert_reachable n (ops : list (@dop2 K V Q)) s lg :
  exists wf, mfinal2 E debug ops {| cb := s; log := lg; self := new_map n |} = Some wf /\
    forall k v,
    wp (e <- entry_of E k ;; or_insert E debug e v)
       (fun i w' => WF (self w') /\ cap (self w') = cap (self wf) /\
                    match find_idx ck (ck k) (elems (self wf)) with
                    | Some j => i = j /\ self w' = self wf /\
                                logged wf w' (ev_drops (idK E k) ++ ev_drops (idV E v))
                    | None => i = length (elems (self wf)) /\
                              elems (self w') = elems (self wf) ++ [(k, v)] /\ log w' = log wf
                    end)
       (fun w' => self w' = self wf /\ logged wf w' (ev_drops (idV E v ++ idK E k)) /\
                  find_idx ck (ck k) (elems (self wf)) = None /\
                  len (self wf) = cap (self wf)) wf.
Proof.
  destruct (reachable2_inv n ops s lg) as (w & Hm & Hw & Hu & _). exists w. split; [exact Hm|].
  intros k v. exact (or_insert_lawful E debug ck cq HL k v w Hw).
Qed.

(* or_insert_with: present -> not called; absent -> the stored value is the
   closure's result in the state at the call *)
Theorem or_insert_with_reachable n (ops : list (@dop2 K V Q)) s lg :
  exists wf, mfinal2 E debug ops {| cb := s; log := lg; self := new_map n |} = Some wf /\
    forall k (f : T -> option V * T),
    match find_idx ck (ck k) (elems (self wf)) with
    | Some j =>
        wp (e <- entry_of E k ;; or_insert_with E debug e f)
           (fun i w' => i = j /\ self w' = self wf /\ logged wf w' (ev_drops (idK E k)) /\
                        exists k0 v0, nth_error (elems (self w')) j = Some (k0, v0) /\ ck k0 = ck k)
           (fun _ => False) wf
    | None =>
        forall v s', f (scan_cb E k (elems (self wf)) (cb wf)) = (Some v, s') ->
        wp (e <- entry_of E k ;; or_insert_with E debug e f)
           (fun i w' => WF (self w') /\ cap (self w') = cap (self wf) /\
                        elems (self w') = elems (self wf) ++ [(k, v)] /\ i = length (elems (self wf)) /\
                        logged wf w' [EvCall 2] /\ len (self wf) < cap (self wf))
           (fun w' => self w' = self wf /\ logged wf w' ([EvCall 2] ++ ev_drops (idV E v ++ idK E k)) /\
                      len (self wf) = cap (self wf)) wf
    end.
Proof.
  destruct (reachable2_inv n ops s lg) as (w & Hm & Hw & Hu & _). exists w. split; [exact Hm|].
  intros k f. destruct (find_idx ck (ck k) (elems (self w))) as [j|] eqn:Hf.
  - exact (or_insert_with_occupied E debug ck cq HL k f j w Hw Hf).
  - intros v s' Hfv. exact (or_insert_with_vacant_exact E debug ck cq HL k f v s' w Hw Hf Hfv).
Qed.

(* and_modify, any closure, and "touch no other entry" *)
Theorem and_modify_others_reachable n (ops : list (@dop2 K V Q)) s lg :
  exists wf, mfinal2 E debug ops {| cb := s; log := lg; self := new_map n |} = Some wf /\
    forall k (f : @modf_t V T),
    wp (e <- entry_of E k ;; and_modify e f)
       (fun _ w' => List.map fst (elems (self w')) = List.map fst (elems (self wf)) /\
                    forall c, c <> ck k -> lookup ck (elems (self w')) c = lookup ck (elems (self wf)) c)
       (fun w' => List.map fst (elems (self w')) = List.map fst (elems (self wf)) /\
                  forall c, c <> ck k -> lookup ck (elems (self w')) c = lookup ck (elems (self wf)) c) wf.
Proof.
  destruct (reachable2_inv n ops s lg) as (w & Hm & Hw & Hu & _). exists w. split; [exact Hm|].
  intros k f. exact (and_modify_others E ck cq HL k f w Hw).
Qed.

(* remove through the entry: here Uniq is needed, and reachability provides it *)
Theorem entry_remove_others_reachable n (ops : list (@dop2 K V Q)) s lg :
  exists wf, mfinal2 E debug ops {| cb := s; log := lg; self := new_map n |} = Some wf /\
    forall k j, find_idx ck (ck k) (elems (self wf)) = Some j ->
    wp (e <- entry_of E k ;; match e with Occupied i => occ_remove E debug i | Vacant _ => panic end)
       (fun v w' => exists k0, nth_error (elems (self wf)) j = Some (k0, v) /\ ck k0 = ck k /\
                    logged wf w' (ev_drops (idK E k) ++ ev_drops (idK E k0)) /\
                    lookup ck (elems (self w')) (ck k) = None /\
                    forall c, c <> ck k -> lookup ck (elems (self w')) c = lookup ck (elems (self wf)) c)
       (fun _ => False) wf.
Proof.
  destruct (reachable2_inv n ops s lg) as (w & Hm & Hw & Hu & _). exists w. split; [exact Hm|].
  intros k j Hf. exact (entry_remove_others E debug ck cq HL k j w Hw Hu Hf).
Qed.

(* the equations with the direct operations, on every reachable state *)
Theorem entry_vs_direct_reachable n (ops : list (@dop2 K V Q)) s lg :
  exists wf, mfinal2 E debug ops {| cb := s; log := lg; self := new_map n |} = Some wf /\
    (forall k v, obs (entry_insert E debug k v wf) = obs (insert E debug k v wf)) /\
    (forall k q v, cq q = ck k ->
       obs ((e <- entry_of E k ;; or_insert E debug e v) wf) = obs (direct_or_insert E debug q k v wf)).
Proof.
  destruct (reachable2_inv n ops s lg) as (w & Hm & Hw & Hu & _). exists w. split; [exact Hm|].
  split.
  - intros k v. exact (entry_insert_is_insert E debug ck cq HL k v w Hw).
  - intros k q v Hq. exact (or_insert_is_direct E debug ck cq HL k q v w Hw Hq).
Qed.

End Reachable.

(* ======================================================================== *)
(* 10. chain-level panic exits: a closure of the chain panics                 *)
(* ======================================================================== *)
Section ChainPanics.
Context (debug : bool) (sc : script).
(* the script makes every == truthful and no Drop / Clone panic, and makes the
   closure call number sc_fa panic *)
Definition closure_fault : Prop := sc_adv sc = false /\ sc_fk sc = 4%N.
Context (Hcf : closure_fault).
Notation Em := (env_map sc).
Notation mworld := (world key vobj cstate).

Lemma env_map_lawful_cf : Lawful Em kcls qcls.
Proof.
  pose proof Hcf as [Ha Hf].
  assert (Heq : forall s t, fst (eq_answer sc s t) = if t then Yes else No).
  { intros s t. unfold eq_answer. rewrite Ha, Hf. cbn [N.eqb Pos.eqb andb fst]. reflexivity. }
  assert (Hdb : forall id, drop_boom sc id = false).
  { intros id. unfold drop_boom. rewrite Hf. reflexivity. }
  assert (Hct : forall a b, cls_truth sc a b = N.eqb a b).
  { intros a b. unfold cls_truth, asym. rewrite Ha. reflexivity. }
  constructor; intros; cbn [env_map eqK eqKQ eqQQ eqQK dropK dropV fst]; rewrite ?Hct; first [apply Heq | apply Hdb].
Qed.
Let HLc := env_map_lawful_cf.

Lemma eq_answer_n_call s t : n_call (snd (eq_answer sc s t)) = n_call s.
Proof. unfold eq_answer. destruct (_ && _); reflexivity. Qed.

Lemma scan_cb_n_call k l s : n_call (scan_cb Em k l s) = n_call s.
Proof.
  unfold scan_cb. revert s. induction l as [|p t IH]; intros s; cbn [fold_left]; [reflexivity|].
  rewrite IH. cbn [env_map eqK]. apply eq_answer_n_call.
Qed.

Lemma entry_cb_n_call k l s : n_call (entry_cb Em kcls k l s) = n_call s.
Proof.
  unfold entry_cb. destruct (find_idx kcls (kcls k) l); [|apply scan_cb_n_call].
  cbn [env_map dropK snd]. apply scan_cb_n_call.
Qed.

Lemma call_tick_boom s : n_call s = sc_fa sc -> fst (call_tick sc s) = true.
Proof.
  intros Hn. pose proof Hcf as [_ Hf]. unfold call_tick. cbn [fst]. rewrite Hf, Hn, !N.eqb_refl. reflexivity.
Qed.

Lemma mk_val_boom v s : n_call s = sc_fa sc -> mk_val sc v s = (None, snd (call_tick sc s)).
Proof.
  intros Hn. unfold mk_val. pose proof (call_tick_boom s Hn) as Hb.
  destruct (call_tick sc s) as [boom s']. cbn [fst snd] in *. subst boom. reflexivity.
Qed.
Lemma mk_default_boom s : n_call s = sc_fa sc -> mk_default sc s = (None, snd (call_tick sc s)).
Proof.
  intros Hn. unfold mk_default. pose proof (call_tick_boom s Hn) as Hb.
  destruct (call_tick sc s) as [boom s']. cbn [fst snd] in *. subst boom. reflexivity.
Qed.
Lemma modf_add_boom v s : n_call s = sc_fa sc -> modf_add sc s v = ((true, v), snd (call_tick sc s)).
Proof.
  intros Hn. unfold modf_add. pose proof (call_tick_boom s Hn) as Hb.
  destruct (call_tick sc s) as [boom s']. cbn [fst snd] in *. subst boom. reflexivity.
Qed.

(* chains 1, 2, 3 on an ABSENT key when the closure panics: it was called once
   (one EvCall 2), nothing is inserted — the container is untouched — and the
   supplied key object, owned by the VacantEntry, is destroyed exactly once *)
Lemma chain1_closure_panics k v (w : mworld) :
  WF (self w) -> find_idx kcls (kcls k) (Spec.elems (self w)) = None -> n_call (cb w) = sc_fa sc ->
  wp (entry_chain debug sc k 1 v) (fun _ _ => False)
     (fun w' => self w' = self w /\ logged w w' [EvCall 2; EvDrop (kid k)]) w.
Proof.
  intros Hw Hf Hn.
  change (entry_chain debug sc k 1 v)
    with (e <- entry_of Em k ;; i <- or_insert_with Em debug e (mk_val sc v) ;; r_slotval 0 i).
  apply (wp_bind_assoc (entry_of Em k) (fun e => or_insert_with Em debug e (mk_val sc v)) (fun i => r_slotval 0 i)).
  apply wp_bind.
  eapply wp_mono;
    [eapply (or_insert_with_vacant_closure_panics Em debug kcls qcls HLc k (mk_val sc v) _ w Hw Hf);
     apply mk_val_boom; rewrite scan_cb_n_call; exact Hn | intros ? ? [] |]; cbn beta.
  intros w' (Hs & Hl & _). auto.
Qed.

Lemma chain2_closure_panics k v (w : mworld) :
  WF (self w) -> find_idx kcls (kcls k) (Spec.elems (self w)) = None -> n_call (cb w) = sc_fa sc ->
  wp (entry_chain debug sc k 2 v) (fun _ _ => False)
     (fun w' => self w' = self w /\ logged w w' [EvCall 2; EvDrop (kid k)]) w.
Proof.
  intros Hw Hf Hn.
  change (entry_chain debug sc k 2 v)
    with (e <- entry_of Em k ;; i <- or_insert_with_key Em debug e (fun _ => mk_val sc v) ;; r_slotval 0 i).
  apply (wp_bind_assoc (entry_of Em k) (fun e => or_insert_with_key Em debug e (fun _ => mk_val sc v))
           (fun i => r_slotval 0 i)).
  apply wp_bind.
  eapply wp_mono;
    [eapply (or_insert_with_key_vacant_closure_panics Em debug kcls qcls HLc k (fun _ => mk_val sc v) _ w Hw Hf);
     apply mk_val_boom; rewrite scan_cb_n_call; exact Hn | intros ? ? [] |]; cbn beta.
  intros w' (Hs & Hl & _). auto.
Qed.

Lemma chain3_closure_panics k v (w : mworld) :
  WF (self w) -> find_idx kcls (kcls k) (Spec.elems (self w)) = None -> n_call (cb w) = sc_fa sc ->
  wp (entry_chain debug sc k 3 v) (fun _ _ => False)
     (fun w' => self w' = self w /\ logged w w' [EvCall 2; EvDrop (kid k)]) w.
Proof.
  intros Hw Hf Hn.
  change (entry_chain debug sc k 3 v)
    with (e <- entry_of Em k ;; i <- or_insert_with Em debug e (mk_default sc) ;; r_slotval 0 i).
  apply (wp_bind_assoc (entry_of Em k) (fun e => or_insert_with Em debug e (mk_default sc)) (fun i => r_slotval 0 i)).
  apply wp_bind.
  eapply wp_mono;
    [eapply (or_insert_with_vacant_closure_panics Em debug kcls qcls HLc k (mk_default sc) _ w Hw Hf);
     apply mk_default_boom; rewrite scan_cb_n_call; exact Hn | intros ? ? [] |]; cbn beta.
  intros w' (Hs & Hl & _). auto.
Qed.

(* chain 4 on a PRESENT key when the and_modify closure panics: it ran once (one
   EvCall 3) on the stored value; what it left in the slot stays (the scripted
   closure panics before writing: the content is what it was); the supplied
   key was destroyed by entry(k); or_insert does not run (v is not destroyed) *)
Lemma chain4_closure_panics k v j (w : mworld) :
  WF (self w) -> find_idx kcls (kcls k) (Spec.elems (self w)) = Some j -> n_call (cb w) = sc_fa sc ->
  wp (entry_chain debug sc k 4 v) (fun _ _ => False)
     (fun w' => WF (self w') /\ cap (self w') = cap (self w) /\
                Spec.elems (self w') = Spec.elems (self w) /\
                logged w w' [EvDrop (kid k); EvCall 3]) w.
Proof.
  intros Hw Hf Hn.
  change (entry_chain debug sc k 4 v)
    with (e <- entry_of Em k ;; e' <- and_modify e (modf_add sc) ;; i <- or_insert Em debug e' v ;; r_slotval 0 i).
  apply (wp_bind_assoc (entry_of Em k) (fun e => and_modify e (modf_add sc))
           (fun e' => i <- or_insert Em debug e' v ;; r_slotval 0 i)).
  apply wp_bind.
  eapply wp_mono; [apply (and_modify_stateful Em kcls qcls HLc k (modf_add sc) w Hw) | |]; cbn beta; rewrite ?Hf.
  - intros e' w' (_ & k0 & v0 & _ & Hb & _). exfalso. cbv zeta in Hb.
    rewrite modf_add_boom in Hb by (rewrite entry_cb_n_call; exact Hn). discriminate.
  - intros w' (j' & k0 & v0 & Hj & Hp & _ & Hw' & Hc' & He' & _ & Hl'). cbv zeta in He'.
    rewrite modf_add_boom in He' by (rewrite entry_cb_n_call; exact Hn). cbn [fst snd] in He'.
    injection Hj as <-.
    split; [exact Hw'|]. split; [exact Hc'|]. split; [rewrite He'; apply d_upd_same; exact Hp | exact Hl'].
Qed.

End ChainPanics.

(* ======================================================================== *)
(* 11. Extend with its overflow exit; the serde visitor as a whole            *)
(* ======================================================================== *)
Require Import Proofs.MoreBulk.

Section BulkKeys2.
Context {K V Q T : Type} (E : env K V Q T) (debug : bool).
Context (ck : K -> N) (cq : Q -> N) (HL : Lawful E ck cq).
Notation world := (world K V T). Notation kv := (K * V)%type.

(* which key objects a container built by bulk insertion holds *)
Definition bulk_keys (l l' : list kv) (items : list kv) : Prop :=
  (forall c, lookup ck l' c = bulk_view ck c (lookup ck l c) items) /\
  (forall c k0 v0, lookup ck l c = Some (k0, v0) -> exists v', lookup ck l' c = Some (k0, v')) /\
  (forall c k1, lookup ck l c = None -> first_key ck c items = Some k1 ->
                exists v', lookup ck l' c = Some (k1, v')).

Lemma bulk_keys_of_extend N0 (l l' items : list kv) :
  l_extend ck N0 l items = Some l' -> bulk_keys l l' items.
Proof.
  intros Hx.
  assert (Hv : forall c, lookup ck l' c = bulk_view ck c (lookup ck l c) items)
    by (intros c; apply (bulk_lookup_gen ck _ _ _ _ c Hx)).
  split; [exact Hv|]. split.
  - intros c k0 v0 Hl. rewrite Hv, Hl. apply bulk_view_stored.
  - intros c k1 Hl Hfk. rewrite Hv, Hl. apply bulk_view_first. exact Hfk.
Qed.

(* Extend, BOTH exits.  Normal return: as extend_keeps_first_key.  Overflow
   panic: items = pre ++ x :: post, x is of a new class and the container is
   full; the container holds exactly what inserting `pre` built — so every
   class stored before still has its key object, every new class the first
   supplied key object of `pre` *)
Lemma extend_keeps_first_key_both nx items (w : world) :
  (forall s, fst (nx s) <> Boom) -> WF (self w) ->
  wp (extend_loop E debug nx items)
     (fun _ w' => WF (self w') /\ cap (self w') = cap (self w) /\
                  bulk_keys (elems (self w)) (elems (self w')) items)
     (fun w' => WF (self w') /\ cap (self w') = cap (self w) /\
                exists pre x post,
                  items = pre ++ x :: post /\
                  bulk_keys (elems (self w)) (elems (self w')) pre /\
                  find_idx ck (ck (fst x)) (elems (self w')) = None /\
                  length (elems (self w')) = cap (self w)) w.
Proof.
  intros Hnx Hw.
  eapply wp_mono; [apply (extend_loop_overflow E debug ck cq HL nx items Hnx w Hw) | |]; cbn beta.
  - intros _ w' (H1 & H2 & H3 & _). split; [exact H1|]. split; [exact H2|].
    eapply bulk_keys_of_extend; exact H3.
  - intros w' (H1 & H2 & _ & pre & x & post & Hit & Hpre & Hfx & Hfull & _).
    split; [exact H1|]. split; [exact H2|]. exists pre, x, post. split; [exact Hit|].
    split; [eapply bulk_keys_of_extend; exact Hpre | auto].
Qed.

Lemma drop_val_cb v (w : world) :
  wp (drop_val E v)
     (fun _ w' => self w' = self w /\ logged w w' (ev_drops (idV E v)) /\ cb w' = snd (dropV E (cb w) v))
     (fun _ => False) w.
Proof.
  unfold drop_val. apply wp_bind. apply wp_emit. apply wp_bind. apply wp_cbd_eq.
  rewrite (law_dropV E ck cq HL). apply wp_ret. simp_w. split; [reflexivity|]. split; reflexivity.
Qed.

End BulkKeys2.

(* the entries the deserializer decodes: fresh objects, identities id, id+1, ... *)
Fixpoint decode (id : N) (items : list (key * vobj)) : list (key * vobj) :=
  match items with
  | [] => []
  | (k, v) :: rest =>
      ({| kid := id; kcls := kcls k |}, {| vid := id + 1; vdat := vdat v |}) :: decode (id + 2) rest
  end.

Lemma entry_cb_next_id sc k l s : next_id (entry_cb (env_map sc) kcls k l s) = next_id s.
Proof.
  unfold entry_cb. destruct (find_idx kcls (kcls k) l); [|apply scan_cb_next_id].
  cbn [env_map dropK snd]. apply scan_cb_next_id.
Qed.

(* the WHOLE visitor, any item list (repeated classes, classes already stored):
   it is the item-by-item insertion (l_extend) of the decoded entries; it panics
   exactly when that overflows *)
Lemma visit_map_is_extend debug sc items : honest sc -> forall w : world key vobj cstate,
  WF (self w) ->
  wp (visit_map debug sc items)
     (fun _ w' => WF (self w') /\ cap (self w') = cap (self w) /\
                  l_extend kcls (cap (self w)) (Spec.elems (self w)) (decode (next_id (cb w)) items)
                    = Some (Spec.elems (self w')) /\
                  next_id (cb w') = (next_id (cb w) + 2 * N.of_nat (length items))%N)
     (fun _ => l_extend kcls (cap (self w)) (Spec.elems (self w)) (decode (next_id (cb w)) items) = None) w.
Proof.
  intros Hh. pose proof (env_map_lawful sc Hh) as HL.
  induction items as [|[k v] rest IH]; intros w Hw.
  - cbn [visit_map decode l_extend length]. apply wp_ret.
    split; [exact Hw|]. split; [reflexivity|]. split; [reflexivity|]. cbn. lia.
  - rewrite visit_map_cons. apply wp_bind. apply wp_get_next_id. apply wp_bind. apply wp_bump_id.
    set (id := next_id (cb w)). set (w1 := with_cb w _).
    set (k' := {| kid := id; kcls := kcls k |}). set (v' := {| vid := id + 1; vdat := vdat v |}).
    assert (Hs1 : self w1 = self w) by reflexivity.
    assert (Hn1 : next_id (cb w1) = (id + 2)%N) by reflexivity.
    cbn [decode]. fold id k' v'.
    assert (Hcont : forall w2 w3 : world key vobj cstate,
      WF (self w2) -> cap (self w2) = cap (self w) ->
      Spec.elems (self w2) = fst (fst (l_insert kcls (Spec.elems (self w)) k' v' false)) ->
      self w3 = self w2 -> next_id (cb w3) = (id + 2)%N ->
      wp (visit_map debug sc rest)
         (fun _ w' => WF (self w') /\ cap (self w') = cap (self w) /\
                      l_extend kcls (cap (self w)) (Spec.elems (self w)) ((k', v') :: decode (id + 2) rest)
                        = Some (Spec.elems (self w')) /\
                      next_id (cb w') = (id + 2 * N.of_nat (length ((k, v) :: rest)))%N)
         (fun _ => l_extend kcls (cap (self w)) (Spec.elems (self w)) ((k', v') :: decode (id + 2) rest) = None) w3).
    { intros w2 w3 Hw2 Hcap2 He2 Hs3 Hn3.
      assert (Hlen : length (fst (fst (l_insert kcls (Spec.elems (self w)) k' v' false))) <= cap (self w)).
      { rewrite <- He2, (elems_length _ Hw2), <- Hcap2. apply WF_len_le_cap. exact Hw2. }
      assert (Hw3 : WF (self w3)) by (rewrite Hs3; exact Hw2).
      eapply wp_mono; [apply (IH w3 Hw3) | |]; cbn beta; rewrite Hs3, Hn3, Hcap2, He2.
      - intros _ w' (H1 & H2 & H3 & H4). split; [exact H1|]. split; [exact H2|].
        split; [rewrite (l_extend_cons_ok kcls _ _ k' v' _ Hlen); exact H3|].
        rewrite H4. cbn [length]. rewrite Nat2N.inj_succ. lia.
      - intros _ H. rewrite (l_extend_cons_ok kcls _ _ k' v' _ Hlen). exact H. }
    apply wp_bind.
    eapply wp_mono; [apply (wp_conj _ _ _ _ _ _ (insert_exact (env_map sc) debug kcls qcls HL k' v' w1 Hw)
                              (insert_lawful (env_map sc) debug kcls qcls HL k' v' w1 Hw)) | |]; cbn beta; rewrite Hs1.
    + intros r w2 [(_ & Hc2 & _ & _ & _ & Hw2 & He2) (_ & Hcap2 & _)].
      assert (Hn2 : next_id (cb w2) = (id + 2)%N) by (rewrite Hc2, entry_cb_next_id; exact Hn1).
      destruct r as [v0|]; cbn [drop_opt_val].
      * apply wp_bind.
        eapply wp_mono; [apply (drop_val_cb (env_map sc) kcls qcls HL) | | intros ? []]; cbn beta.
        intros _ w3 (Hs3 & _ & Hc3). apply (Hcont w2 w3 Hw2 Hcap2 He2 Hs3).
        rewrite Hc3. cbn [env_map dropV snd]. exact Hn2.
      * apply wp_bind. apply wp_ret. apply (Hcont w2 w2 Hw2 Hcap2 He2 eq_refl Hn2).
    + intros w2 [(_ & _ & Hn & Hfull) _].
      apply l_extend_cons_full; [exact Hn|]. rewrite (elems_length _ Hw). lia.
Qed.

(* hence, class by class: a class already stored keeps its key object, a new
   class gets the FIRST decoded key object of that class; the value is the last
   decoded one *)
Lemma visit_map_keys debug sc items (w : world key vobj cstate) :
  honest sc -> WF (self w) ->
  wp (visit_map debug sc items)
     (fun _ w' => bulk_keys kcls (Spec.elems (self w)) (Spec.elems (self w')) (decode (next_id (cb w)) items))
     (fun _ => True) w.
Proof.
  intros Hh Hw.
  eapply wp_mono; [apply (visit_map_is_extend debug sc items Hh w Hw) | | auto]; cbn beta.
  intros _ w' (_ & _ & Hx & _). eapply bulk_keys_of_extend; exact Hx.
Qed.

(* ======================================================================== *)
(* 12. the definitions used in the round-2 statements, unfolded               *)
(* ======================================================================== *)
Lemma obs_def {K V T A : Type} (r : res K V T A) :
  obs r = match r with
          | Ok a w => Some (Some a, self w, log w)
          | Panic w => Some (None, self w, log w)
          | UB => None
          end.
Proof. reflexivity. Qed.

Lemma am_frame_def {K V : Type} (i : nat) (m m' : map K V) :
  am_frame i m m' <->
  (WF m' /\ cap m' = cap m /\ len m' = len m /\
   List.map fst (Spec.elems m') = List.map fst (Spec.elems m) /\
   forall j, j <> i -> nth_error (Spec.elems m') j = nth_error (Spec.elems m) j).
Proof. reflexivity. Qed.

Lemma rir_self_def {K V : Type} (m : map K V) (i : nat) :
  rir_self m i =
  if i =? len m - 1 then {| len := len m - 1; slots := upd (slots m) i None |}
  else match nth_error (slots m) (len m - 1) with
       | Some (Some q) => {| len := len m - 1;
                             slots := upd (upd (upd (slots m) i None) (len m - 1) None) i (Some q) |}
       | _ => m
       end.
Proof. reflexivity. Qed.

Lemma rm_self_def {K V : Type} (ck : K -> N) (m : map K V) (c : N) :
  rm_self ck m c = match find_idx ck c (Spec.elems m) with Some j => rir_self m j | None => m end.
Proof. reflexivity. Qed.

Lemma ins_self_def {K V : Type} (ck : K -> N) (m : map K V) (k : K) (v : V) (u : bool) :
  ins_self ck m k v u =
  match find_idx ck (ck k) (Spec.elems m) with
  | Some i => match nth_error (Spec.elems m) i with
              | Some (k0, v0) => set_slot_m m i (Some (if u then (k, v) else (k0, v)))
              | None => m
              end
  | None => set_len_m (set_slot_m m (len m) (Some (k, v))) (S (len m))
  end.
Proof. reflexivity. Qed.

(* the removed class is gone and every other class is where it was, stated for
   rm_self (so that the equations with remove / remove_entry can be read without
   unfolding it) *)
Lemma rm_self_elems {K V : Type} (ck : K -> N) (m : map K V) (c : N) :
  WF m -> Spec.elems (rm_self ck m c) = fst (l_remove ck (Spec.elems m) c).
Proof.
  intros Hw. unfold rm_self, l_remove.
  destruct (find_idx ck c (Spec.elems m)) as [j|] eqn:Hf; [|reflexivity]. cbn [fst].
  pose proof (find_idx_lt ck _ _ _ Hf) as Hj. rewrite (elems_length _ Hw) in Hj.
  pose (w := {| cb := tt; log := []; self := m |} : world K V unit).
  pose proof (remove_index_read_exact false j w Hw Hj) as H1.
  pose proof (remove_index_read_elems false j w Hw Hj) as H2.
  unfold wp in H1, H2. destruct (remove_index_read false j w) as [p w'|w'|]; try contradiction.
  destruct H1 as (_ & Hs & _). destruct H2 as (_ & _ & _ & _ & _ & He). cbn [self w] in *.
  rewrite <- Hs. exact He.
Qed.

Lemma bulk_keys_def {K V : Type} (ck : K -> N) (l l' items : list (K * V)) :
  bulk_keys ck l l' items <->
  ((forall c, lookup ck l' c = bulk_view ck c (lookup ck l c) items) /\
   (forall c k0 v0, lookup ck l c = Some (k0, v0) -> exists v', lookup ck l' c = Some (k0, v')) /\
   (forall c k1, lookup ck l c = None -> first_key ck c items = Some k1 ->
                 exists v', lookup ck l' c = Some (k1, v'))).
Proof. reflexivity. Qed.

Lemma decode_def (id : N) (items : list (key * vobj)) :
  decode id items =
  match items with
  | [] => []
  | (k, v) :: rest =>
      ({| kid := id; kcls := kcls k |}, {| vid := id + 1; vdat := vdat v |}) :: decode (id + 2) rest
  end.
Proof. destruct items as [|[k v] rest]; reflexivity. Qed.
