(* Stream.v — the Deserialize side of src/serialization.rs and src/set/serialization.rs against a STREAMING format:

     fn visit_map<A: MapAccess<'de>>(self, mut access: A) -> Result<Map<K, V, N>, A::Error> {
         let mut m = Map::new();
         while let Some((key, value)) = access.next_entry()? { m.insert(key, value); }
         Ok(m)
     }

   (visit_seq for Set is the same loop over next_element / Set::insert, i.e. the same definition at V = unit).
   The access object belongs to the data format (user code): it answers each poll with an entry, with the end of the
   stream, or with an error.  serde does not promise that an access object may be polled again once it has reported
   the end (a streaming format consumes its end marker when it answers None), so the model COUNTS such late polls.
   Exec.visit_map / visit_seq (used by the interpreter's OSerde / SSerde steps) describe the same loop for a
   source that is a complete list; this file adds the error answer and the poll accounting.
   DEFINITIONS ONLY. *)
Require Import List Arith.
Import ListNotations.
Require Import Model.Base Model.Slots Model.MapOps.

Section Stream.
Context {K V Q T : Type} (E : env K V Q T) (debug : bool).
Notation M := (M K V T).

(* what the access object answers to one poll *)
Inductive sans := SItem (k : K) (v : V) | SEnd | SFail.

(* the access object: the answers it still has (when they run out the stream has ended), whether it has already
   reported the end or an error, how many times it was polled, and how many of those polls came after that report *)
Record stream := { todo : list sans; finished : bool; polls : nat; late : nat }.

Definition pull (s : stream) : sans * stream :=
  if finished s then
    (SEnd, {| todo := todo s; finished := true; polls := S (polls s); late := S (late s) |})
  else
    match todo s with
    | SItem k v :: rest => (SItem k v, {| todo := rest; finished := false; polls := S (polls s); late := late s |})
    | SEnd :: rest => (SEnd, {| todo := rest; finished := true; polls := S (polls s); late := late s |})
    | SFail :: rest => (SFail, {| todo := rest; finished := true; polls := S (polls s); late := late s |})
    | [] => (SEnd, {| todo := []; finished := true; polls := S (polls s); late := late s |})
    end.

Inductive sres := ROk | RErr.

(* the visitor's loop on the local container (= `self` of the world).  `fuel` bounds the number of polls; the
   caller passes more than the stream has answers, and the theorems show that the bound is never reached *)
Fixpoint visit_stream (fuel : nat) (s : stream) : M (sres * stream) :=
  match fuel with
  | 0 => ret (RErr, s)
  | S f =>
      let '(a, s') := pull s in
      match a with
      | SItem k v => old <- insert E debug k v ;; drop_opt_val E old ;; visit_stream f s'
      | SEnd => ret (ROk, s')
      | SFail => ret (RErr, s')
      end
  end.

(* Deserialize::deserialize for a fresh local container (= `self` of the world): Ok hands it to the caller.  A panic
   of insert (more entries than slots) or of a user callback unwinds through the local container (finally_drop).
   On Err the `?` leaves the visitor and the local container is dropped: an ordinary drop AFTER the loop (if one of
   its destructors panics the rest of it is leaked, it is not dropped a second time); afterwards the local container
   no longer exists -- what `self` holds then is the dropped husk (every slot of the live prefix emptied). *)
Definition decode (s : stream) : M (sres * stream) :=
  r <- finally_drop E (visit_stream (S (length (todo s))) s) ;;
  match fst r with
  | ROk => ret r
  | RErr => drop_map E ;; ret r
  end.

(* the entries before the first answer that is not an entry, and how the stream stops *)
Fixpoint lead (l : list sans) : list (K * V) :=
  match l with
  | SItem k v :: rest => (k, v) :: lead rest
  | _ => []
  end.
Fixpoint stop (l : list sans) : sres :=
  match l with
  | SItem _ _ :: rest => stop rest
  | SFail :: _ => RErr
  | _ => ROk
  end.

(* inserting a list of entries one by one (what the loop does between two polls) *)
Fixpoint inserts (items : list (K * V)) : M unit :=
  match items with
  | [] => ret tt
  | (k, v) :: rest => old <- insert E debug k v ;; drop_opt_val E old ;; inserts rest
  end.

End Stream.
