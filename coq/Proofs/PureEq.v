(* PureEq.v — the lookup / entry / insert / remove paths under an arbitrary
   OPERAND-DETERMINED ==.  [Lawful E ck cq] (Spec.v) says "== is EQUALITY of the
   classes"; here == answers an arbitrary relation R on the classes of its two
   operands (stored key on the left, supplied key / query on the right), which
   need be neither reflexive nor symmetric nor transitive.  Every operation then
   still computes a pure function of the live prefix: the first stored key k
   with R (class k) (class of the needle).  In particular [entry] and the direct
   lookups agree about every key, whatever R is. *)
Require Import Model.Base Model.Slots Model.MapOps Model.EntryOps Model.Exec.
Require Import Proofs.Hoare Proofs.Inv Proofs.Safety Proofs.Safety2 Proofs.Safety3
               Proofs.Spec Proofs.Lawful Proofs.Lawful2 Proofs.Lawful3.

Section PureEq.
Context {K V Q T : Type} (E : env K V Q T) (debug : bool) (ck : K -> N) (cq : Q -> N) (R : N -> N -> bool).
Notation M := (M K V T).
Notation world := (world K V T).
Notation map := (map K V).
Notation kv := (K * V)%type.

(* == is determined by the classes of its operands: stored R needle *)
Record Related : Prop := {
  rel_eqK  : forall s a b, fst (eqK E s a b) = if R (ck a) (ck b) then Yes else No;
  rel_eqKQ : forall s a q, fst (eqKQ E s a q) = if R (ck a) (cq q) then Yes else No;
  rel_dropK : forall s k, fst (dropK E s k) = false;
  rel_dropV : forall s v, fst (dropV E s v) = false
}.

(* index of the first entry whose stored key k has R (ck k) c *)
Fixpoint find_rel (c : N) (l : list kv) : option nat :=
  match l with
  | [] => None
  | p :: t => if R (ck (fst p)) c then Some 0 else option_map S (find_rel c t)
  end.

Lemma find_rel_eqb c (l : list kv) :
  (forall a b, R a b = N.eqb a b) -> find_rel c l = find_idx ck c l.
Proof.
  intros HRe. induction l as [|p t IH]; cbn [find_rel find_idx]; [reflexivity|].
  rewrite HRe, IH. reflexivity.
Qed.

(* ---- pure characterisation of find_rel ---- *)
Lemma find_rel_none c (l : list kv) :
  (forall j p, nth_error l j = Some p -> R (ck (fst p)) c = false) -> find_rel c l = None.
Proof.
  induction l as [|p t IH]; intros H; cbn [find_rel]; [reflexivity|].
  rewrite (H 0 p eq_refl). rewrite IH; [reflexivity|].
  intros j q Hj. apply (H (S j) q). exact Hj.
Qed.

Lemma find_rel_some c (l : list kv) x p :
  nth_error l x = Some p -> R (ck (fst p)) c = true ->
  (forall j q, j < x -> nth_error l j = Some q -> R (ck (fst q)) c = false) -> find_rel c l = Some x.
Proof.
  revert x; induction l as [|h t IH]; intros x Hx Hc Hb; [destruct x; discriminate|].
  cbn [find_rel]. destruct x as [|x].
  - cbn [nth_error] in Hx. injection Hx as ->. rewrite Hc. reflexivity.
  - rewrite (Hb 0 h ltac:(lia) eq_refl).
    rewrite (IH x); [reflexivity | exact Hx | exact Hc |].
    intros j q Hj Hq. apply (Hb (S j) q); [lia | exact Hq].
Qed.

Lemma find_rel_inv c (l : list kv) x :
  find_rel c l = Some x ->
  (exists p, nth_error l x = Some p /\ R (ck (fst p)) c = true) /\
  (forall j q, j < x -> nth_error l j = Some q -> R (ck (fst q)) c = false).
Proof.
  revert x; induction l as [|h t IH]; intros x H; cbn [find_rel] in H; [discriminate|].
  destruct (R (ck (fst h)) c) eqn:Hh.
  - injection H as <-. split; [exists h; auto | intros j q Hj; lia].
  - destruct (find_rel c t) as [y|] eqn:Hy; cbn [option_map] in H; [|discriminate].
    injection H as <-. destruct (IH y eq_refl) as [[p [Hp Hc]] Hb].
    split; [exists p; auto|]. intros [|j] q Hj Hq.
    + cbn [nth_error] in Hq. injection Hq as <-. exact Hh.
    + apply (Hb j q); [lia | exact Hq].
Qed.

Lemma find_rel_none_inv c (l : list kv) :
  find_rel c l = None -> forall j p, nth_error l j = Some p -> R (ck (fst p)) c = false.
Proof.
  induction l as [|h t IH]; intros H j p Hj; [destruct j; discriminate|].
  cbn [find_rel] in H. destruct (R (ck (fst h)) c) eqn:Hh; [discriminate|].
  destruct (find_rel c t) eqn:Ht; [discriminate|].
  destruct j as [|j]; cbn [nth_error] in Hj; [injection Hj as <-; exact Hh | eapply IH; eauto].
Qed.

Lemma find_rel_lt c (l : list kv) x : find_rel c l = Some x -> x < length l.
Proof.
  intros H. destruct (find_rel_inv c l x H) as [[p [Hp _]] _].
  apply nth_error_Some. rewrite Hp. discriminate.
Qed.

(* a test that answers "stored key R c" and does nothing else *)
Definition rel_test (test : kv -> M bool) (c : N) : Prop :=
  forall p w, wp (test p) (fun b w' => b = R (ck (fst p)) c /\ stable w w') (fun _ => False) w.

(* ---- 1. the scan is find_rel on the live prefix ---- *)
Lemma scan_loop_rel test c :
  rel_test test c ->
  forall n i w,
    (forall j, i <= j < i + n -> live (self w) j) ->
    wp (scan_loop test n i)
       (fun r w' =>
          stable w w' /\
          match r with
          | Some x => i <= x < i + n /\
                      (exists p, nth_error (slots (self w)) x = Some (Some p) /\ R (ck (fst p)) c = true) /\
                      (forall j p, i <= j < x -> nth_error (slots (self w)) j = Some (Some p) -> R (ck (fst p)) c = false)
          | None => forall j p, i <= j < i + n -> nth_error (slots (self w)) j = Some (Some p) -> R (ck (fst p)) c = false
          end)
       (fun _ => False) w.
Proof.
  intros Ht. induction n as [|n IH]; intros i w Hl; cbn [scan_loop].
  - apply wp_ret. split; [apply stable_refl | intros j p Hj; lia].
  - destruct (Hl i ltac:(lia)) as [p Hp].
    apply wp_bind. eapply wp_p_ref; [exact Hp|].
    apply wp_bind. eapply wp_mono; [apply Ht | | auto]; cbn beta.
    intros b w1 [Hb Hst]. destruct (R (ck (fst p)) c) eqn:Hrc; subst b.
    + apply wp_ret. split; [exact Hst|]. split; [lia|]. split; [exists p; auto | intros j q Hj; lia].
    + destruct Hst as [Hs1 Hl1].
      eapply wp_mono; [apply (IH (S i) w1) | | auto]; cbn beta.
      * intros j Hj. rewrite Hs1. apply Hl. lia.
      * intros r w2 [Hst2 Hr]. split; [eapply stable_trans; [split; eassumption | exact Hst2]|].
        rewrite Hs1 in Hr. destruct r as [x|].
        -- destruct Hr as (Hx & Hex & Hbf). split; [lia|]. split; [exact Hex|].
           intros j q Hj Hq. destruct (Nat.eq_dec j i) as [->|Hji].
           ++ rewrite Hp in Hq. injection Hq as <-. exact Hrc.
           ++ apply (Hbf j q); [lia | exact Hq].
        -- intros j q Hj Hq. destruct (Nat.eq_dec j i) as [->|Hji].
           ++ rewrite Hp in Hq. injection Hq as <-. exact Hrc.
           ++ apply (Hr j q); [lia | exact Hq].
Qed.

Lemma scan_rel test c w :
  rel_test test c -> WF (self w) ->
  wp (scan test) (fun r w' => stable w w' /\ r = find_rel c (elems (self w))) (fun _ => False) w.
Proof.
  intros Ht Hw. pose proof Hw as [Hl Hs]. unfold scan.
  apply wp_bind. apply wp_p_prefix; [intros _ | lia].
  apply wp_bind. apply wp_get_len.
  eapply wp_mono; [apply (scan_loop_rel test c Ht (len (self w)) 0 w) | | auto]; cbn beta.
  - intros j Hj. apply Hs. lia.
  - intros r w' [Hst Hr]. split; [exact Hst|]. symmetry. destruct r as [x|].
    + destruct Hr as (Hx & [p [Hp Hc]] & Hb).
      apply (find_rel_some c (elems (self w)) x p).
      * apply (elems_nth (self w) x p Hw); [lia | exact Hp].
      * exact Hc.
      * intros j q Hj Hq. destruct (elems_nth_slot _ _ _ Hw Hq) as [Hj' Hq'].
        apply (Hb j q); [lia | exact Hq'].
    + apply find_rel_none. intros j p Hp.
      destruct (elems_nth_slot _ _ _ Hw Hp) as [Hj' Hp'].
      apply (Hr j p); [lia | exact Hp'].
Qed.

(* the list machine with find_rel in place of find_idx *)
Definition l_insert_rel (l : list kv) (k : K) (v : V) (update_key : bool) : list kv * nat * option kv :=
  match find_rel (ck k) l with
  | Some i =>
      match nth_error l i with
      | Some (k0, v0) =>
          if update_key then (upd l i (k, v), i, Some (k0, v0))
          else (upd l i (k0, v), i, Some (k, v0))
      | None => (l, i, None)
      end
  | None => (l ++ [(k, v)], length l, None)
  end.

Definition l_remove_rel (l : list kv) (c : N) : list kv * option kv :=
  match find_rel c l with
  | Some i => (swap_remove l i, nth_error l i)
  | None => (l, None)
  end.

Lemma l_insert_rel_eqb l k v u :
  (forall a b, R a b = N.eqb a b) -> l_insert_rel l k v u = l_insert ck l k v u.
Proof. intros H. unfold l_insert_rel, l_insert. rewrite (find_rel_eqb _ _ H). reflexivity. Qed.

Lemma l_remove_rel_eqb l c :
  (forall a b, R a b = N.eqb a b) -> l_remove_rel l c = l_remove ck l c.
Proof. intros H. unfold l_remove_rel, l_remove. rewrite (find_rel_eqb _ _ H). reflexivity. Qed.

(* ======================================================================== *)
Context (HR : Related).

Lemma rel_test_q q : rel_test (test_q E q) (cq q).
Proof.
  intros p w. unfold test_q. apply wp_cbk_eq. rewrite (rel_eqKQ HR).
  destruct (R (ck (fst p)) (cq q)); split; auto using stable_cb.
Qed.
Lemma rel_test_k k : rel_test (test_k E k) (ck k).
Proof.
  intros p w. unfold test_k. apply wp_cbk_eq. rewrite (rel_eqK HR).
  destruct (R (ck (fst p)) (ck k)); split; auto using stable_cb.
Qed.

(* ---- Drop never panics ---- *)
Lemma drop_key_rel k w :
  wp (drop_key E k)
     (fun _ w' => self w' = self w /\ logged w w' (ev_drops (idK E k))) (fun _ => False) w.
Proof.
  unfold drop_key. apply wp_bind. apply wp_emit. apply wp_bind. apply wp_cbd_eq.
  rewrite (rel_dropK HR). apply wp_ret. simp_w. split; reflexivity.
Qed.
Lemma drop_args_rel k v w :
  wp (drop_args E k v)
     (fun _ w' => self w' = self w /\ logged w w' (ev_drops (idV E v ++ idK E k)))
     (fun _ => False) w.
Proof.
  unfold drop_args. apply wp_bind. apply wp_emit. apply wp_bind. apply wp_cbd_eq.
  rewrite (rel_dropV HR). apply wp_bind. apply wp_cbd_eq.
  rewrite (rel_dropK HR). cbn [orb]. apply wp_ret. simp_w. split; reflexivity.
Qed.

(* ---- 2. lookups ---- *)
Lemma get_rel q w :
  WF (self w) ->
  wp (get E q) (fun r w' => stable w w' /\ r = find_rel (cq q) (elems (self w))) (fun _ => False) w.
Proof. intros Hw. apply scan_rel; [apply rel_test_q | exact Hw]. Qed.
Lemma get_mut_rel q w :
  WF (self w) ->
  wp (get_mut E q) (fun r w' => stable w w' /\ r = find_rel (cq q) (elems (self w))) (fun _ => False) w.
Proof. intros Hw. apply scan_rel; [apply rel_test_q | exact Hw]. Qed.
Lemma get_key_value_rel q w :
  WF (self w) ->
  wp (get_key_value E q) (fun r w' => stable w w' /\ r = find_rel (cq q) (elems (self w))) (fun _ => False) w.
Proof. intros Hw. apply scan_rel; [apply rel_test_q | exact Hw]. Qed.
Lemma contains_key_rel q w :
  WF (self w) ->
  wp (contains_key E q)
     (fun r w' => stable w w' /\ r = match find_rel (cq q) (elems (self w)) with Some _ => true | None => false end)
     (fun _ => False) w.
Proof.
  intros Hw. unfold contains_key. apply wp_bind.
  eapply wp_mono; [apply scan_rel; [apply rel_test_q | exact Hw] | | auto]; cbn beta.
  intros r w' [Hst ->]. apply wp_ret. split; [exact Hst | reflexivity].
Qed.

(* the "iff" reading of contains_key_rel *)
Lemma contains_key_rel_iff q w :
  WF (self w) ->
  wp (contains_key E q)
     (fun r w' => stable w w' /\ (r = true <-> exists i, find_rel (cq q) (elems (self w)) = Some i))
     (fun _ => False) w.
Proof.
  intros Hw. eapply wp_mono; [apply (contains_key_rel q w Hw) | | auto]; cbn beta.
  intros r w' [Hst ->]. split; [exact Hst|].
  destruct (find_rel (cq q) (elems (self w))) as [i|].
  - split; [intros _; exists i; reflexivity | reflexivity].
  - split; [discriminate | intros [i Hi]; discriminate].
Qed.

(* Index / IndexMut: panic exactly when no stored key is related to the query *)
Lemma index_rel q w :
  WF (self w) ->
  wp (index E q)
     (fun i w' => stable w w' /\ find_rel (cq q) (elems (self w)) = Some i)
     (fun w' => stable w w' /\ find_rel (cq q) (elems (self w)) = None) w.
Proof.
  intros Hw. unfold index. apply wp_bind.
  eapply wp_mono; [apply get_rel; exact Hw | | intros w' []]; cbn beta.
  intros r w' [Hst ->]. destruct (find_rel (cq q) (elems (self w))); [apply wp_ret | apply wp_panic]; auto.
Qed.

(* ---- 3. entry ---- *)
Lemma entry_of_rel k (w : world) :
  WF (self w) ->
  wp (entry_of E k)
     (fun r w' => self w' = self w /\
                  match find_rel (ck k) (elems (self w)) with
                  | Some i => r = Occupied i /\ logged w w' (ev_drops (idK E k))
                  | None => r = Vacant k /\ log w' = log w
                  end)
     (fun _ => False) w.
Proof.
  intros Hw. unfold entry_of. apply wp_bind. apply wp_on_unwind_nopanic.
  eapply wp_mono; [apply (scan_rel (test_k E k) (ck k)); [apply rel_test_k | exact Hw] | | intros w' []]; cbn beta.
  intros r w1 [[Hs1 Hl1] ->].
  destruct (find_rel (ck k) (elems (self w))) as [i|].
  - apply wp_bind. eapply wp_mono; [apply drop_key_rel | | intros w' []]; cbn beta.
    intros _ w2 [Hs2 Hl2]. apply wp_ret.
    split; [congruence|]. split; [reflexivity|]. unfold logged in *. congruence.
  - apply wp_ret. auto.
Qed.

(* ---- 4. THE AGREEMENT THEOREM: whatever R is, entry and the direct lookups
   agree about every key (both run in the same world w) ---- *)
Lemma entry_get_agree_rel k q (w : world) :
  ck k = cq q -> WF (self w) ->
  wp (entry_of E k)
     (fun r w' => wp (get E q)
                     (fun g _ => match r with Occupied i => g = Some i | Vacant _ => g = None end)
                     (fun _ => False) w)
     (fun _ => False) w.
Proof.
  intros Hc Hw.
  eapply wp_mono; [apply (entry_of_rel k w Hw) | | intros w' []]; cbn beta.
  intros r w' [_ Hr].
  eapply wp_mono; [apply (get_rel q w Hw) | | intros w'' []]; cbn beta.
  intros g w'' [_ ->]. rewrite Hc in Hr.
  destruct (find_rel (cq q) (elems (self w))) as [i|]; destruct Hr as [-> _]; reflexivity.
Qed.

(* the same for the other lookups *)
Lemma entry_contains_agree_rel k q (w : world) :
  ck k = cq q -> WF (self w) ->
  wp (entry_of E k)
     (fun r w' => wp (contains_key E q)
                     (fun g _ => match r with Occupied _ => g = true | Vacant _ => g = false end)
                     (fun _ => False) w)
     (fun _ => False) w.
Proof.
  intros Hc Hw.
  eapply wp_mono; [apply (entry_of_rel k w Hw) | | intros w' []]; cbn beta.
  intros r w' [_ Hr].
  eapply wp_mono; [apply (contains_key_rel q w Hw) | | intros w'' []]; cbn beta.
  intros g w'' [_ ->]. rewrite Hc in Hr.
  destruct (find_rel (cq q) (elems (self w))) as [i|]; destruct Hr as [-> _]; reflexivity.
Qed.

(* ... and sequentially: the lookup made AFTER entry_of (in the world it left) *)
Lemma entry_then_get_agree_rel k q (w : world) :
  ck k = cq q -> WF (self w) ->
  wp (e <- entry_of E k ;; g <- get E q ;; ret (e, g))
     (fun r _ => match fst r with Occupied i => snd r = Some i | Vacant _ => snd r = None end)
     (fun _ => False) w.
Proof.
  intros Hc Hw. apply wp_bind.
  eapply wp_mono; [apply (entry_of_rel k w Hw) | | intros w' []]; cbn beta.
  intros r w1 [Hs1 Hr]. apply wp_bind.
  assert (Hw1 : WF (self w1)) by (rewrite Hs1; exact Hw).
  eapply wp_mono; [apply (get_rel q w1 Hw1) | | intros w'' []]; cbn beta.
  intros g w2 [_ ->]. apply wp_ret. cbn [fst snd]. rewrite Hs1. rewrite Hc in Hr.
  destruct (find_rel (cq q) (elems (self w))) as [i|]; destruct Hr as [-> _]; reflexivity.
Qed.

(* ---- 5. remove ---- *)
Lemma remove_rel q w :
  WF (self w) ->
  wp (remove E debug q)
     (fun r w' => WF (self w') /\ cap (self w') = cap (self w) /\
                  elems (self w') = fst (l_remove_rel (elems (self w)) (cq q)) /\
                  r = option_map snd (snd (l_remove_rel (elems (self w)) (cq q))) /\
                  logged w w' (match snd (l_remove_rel (elems (self w)) (cq q)) with
                               | Some (k', _) => ev_drops (idK E k') | None => [] end) /\
                  (find_rel (cq q) (elems (self w)) = None -> stable w w'))
     (fun _ => False) w.
Proof.
  intros Hw. unfold remove. apply wp_bind.
  eapply wp_mono; [apply (scan_rel (test_q E q) (cq q)); [apply rel_test_q | exact Hw] | | intros w' []]; cbn beta.
  intros r w1 [[Hs1 Hl1] ->]. unfold l_remove_rel.
  destruct (find_rel (cq q) (elems (self w))) as [i|] eqn:Hf; cbn [fst snd].
  - pose proof (find_rel_lt _ _ _ Hf) as Hi. rewrite (elems_length _ Hw) in Hi.
    apply wp_bind.
    eapply wp_mono; [apply (remove_index_read_elems debug i w1); rewrite Hs1; assumption | | intros ? []]; cbn beta.
    intros p w2 (Hw2 & Hc2 & Hl2 & _ & Hp & He). rewrite Hs1 in *.
    apply wp_bind. eapply wp_mono; [apply drop_key_rel | | intros ? []]; cbn beta.
    intros _ w3 [Hs3 Hlg]. apply wp_ret. rewrite Hs3, Hp. destruct p as [k0 v0]. cbn [fst snd option_map] in *.
    split; [exact Hw2|]. split; [exact Hc2|]. split; [exact He|]. split; [reflexivity|].
    split; [|discriminate].
    eapply logged_eq_l; [|exact Hlg]. congruence.
  - apply wp_ret. rewrite Hs1. cbn [option_map].
    split; [exact Hw|]. split; [reflexivity|]. split; [reflexivity|]. split; [reflexivity|].
    split; [eapply logged_eq_r; [exact Hl1 | apply logged_nil]|].
    intros _. split; assumption.
Qed.

(* the explicit reading of remove_rel *)
Lemma remove_rel_cases q w :
  WF (self w) ->
  wp (remove E debug q)
     (fun r w' =>
        match find_rel (cq q) (elems (self w)) with
        | Some i => exists k0 v0, nth_error (elems (self w)) i = Some (k0, v0) /\ r = Some v0 /\
                      WF (self w') /\ cap (self w') = cap (self w) /\
                      elems (self w') = swap_remove (elems (self w)) i /\
                      logged w w' (ev_drops (idK E k0))
        | None => r = None /\ stable w w'
        end)
     (fun _ => False) w.
Proof.
  intros Hw. eapply wp_mono; [apply (remove_rel q w Hw) | | intros ? []]; cbn beta.
  intros r w' (Hw' & Hc' & He & Hr & Hlg & Hst). unfold l_remove_rel in *.
  destruct (find_rel (cq q) (elems (self w))) as [i|] eqn:Hf; cbn [fst snd] in *.
  - destruct (find_rel_inv _ _ _ Hf) as [[[k0 v0] [Hp _]] _]. rewrite Hp in *. cbn [option_map snd] in Hr.
    exists k0, v0. auto 10.
  - cbn [option_map] in Hr. auto.
Qed.

Lemma remove_entry_rel q w :
  WF (self w) ->
  wp (remove_entry E debug q)
     (fun r w' => WF (self w') /\ cap (self w') = cap (self w) /\ log w' = log w /\
                  elems (self w') = fst (l_remove_rel (elems (self w)) (cq q)) /\
                  r = snd (l_remove_rel (elems (self w)) (cq q)))
     (fun _ => False) w.
Proof.
  intros Hw. unfold remove_entry. apply wp_bind.
  eapply wp_mono; [apply (scan_rel (test_q E q) (cq q)); [apply rel_test_q | exact Hw] | | intros w' []]; cbn beta.
  intros r w1 [[Hs1 Hl1] ->]. unfold l_remove_rel.
  destruct (find_rel (cq q) (elems (self w))) as [i|] eqn:Hf; cbn [fst snd].
  - pose proof (find_rel_lt _ _ _ Hf) as Hi. rewrite (elems_length _ Hw) in Hi.
    apply wp_bind.
    eapply wp_mono; [apply (remove_index_read_elems debug i w1); rewrite Hs1; assumption | | intros ? []]; cbn beta.
    intros p w2 (Hw2 & Hc2 & Hl2 & _ & Hp & He). rewrite Hs1 in *.
    apply wp_ret. rewrite Hp.
    split; [exact Hw2|]. split; [exact Hc2|]. split; [congruence|]. split; [exact He | reflexivity].
  - apply wp_ret. rewrite Hs1.
    split; [exact Hw|]. split; [reflexivity|]. split; [exact Hl1|]. split; reflexivity.
Qed.

(* ---- 6. insert ---- *)
Lemma keep_value_rel e w :
  wp (keep_value E e)
     (fun r w' => self w' = self w /\ r = option_map snd e /\
                  logged w w' (match e with Some (k', _) => ev_drops (idK E k') | None => [] end))
     (fun _ => False) w.
Proof.
  destruct e as [[k' v']|]; unfold keep_value; cbn [option_map snd].
  - apply wp_bind. eapply wp_mono; [apply drop_key_rel | | intros ? []]; cbn beta.
    intros _ w1 [Hs Hlg]. apply wp_ret. split; [exact Hs|]. split; [reflexivity | exact Hlg].
  - apply wp_ret. split; [reflexivity|]. split; [reflexivity | apply logged_nil].
Qed.

Lemma insert_ii_rel k v u w :
  WF (self w) ->
  wp (insert_ii E debug k v u)
     (fun r w' =>
        WF (self w') /\ cap (self w') = cap (self w) /\ log w' = log w /\
        (elems (self w'), fst r, snd r) = l_insert_rel (elems (self w)) k v u /\
        (find_rel (ck k) (elems (self w)) = None -> len (self w) < cap (self w)))
     (fun w' =>
        self w' = self w /\ logged w w' (ev_drops (idV E v ++ idK E k)) /\
        find_rel (ck k) (elems (self w)) = None /\ len (self w) = cap (self w)) w.
Proof.
  intros Hw. unfold insert_ii. apply wp_bind. apply wp_on_unwind_nopanic.
  eapply wp_mono; [apply (scan_rel (test_k E k) (ck k)); [apply rel_test_k | exact Hw] | | intros w' []]; cbn beta.
  intros r w1 [[Hs1 Hl1] ->]. unfold l_insert_rel.
  destruct (find_rel (ck k) (elems (self w))) as [i|] eqn:Hf.
  - destruct (find_rel_inv (ck k) _ _ Hf) as [[p [Hp Hc]] _].
    destruct (elems_nth_slot _ _ _ Hw Hp) as [Hi Hsl]. rewrite Hp. destruct p as [k0 v0].
    assert (Hic : i < cap (self w)) by (apply live_lt_cap; eexists; exact Hsl).
    destruct u.
    + apply wp_bind. eapply wp_p_replace; [rewrite Hs1; exact Hsl|]. apply wp_ret. simp_w. rewrite Hs1.
      split; [apply WF_set_slot_some; auto|]. split; [apply cap_set_slot|]. split; [exact Hl1|].
      split; [|discriminate]. rewrite elems_set_slot by auto. reflexivity.
    + apply wp_bind. eapply wp_p_replace; [rewrite Hs1; exact Hsl|]. apply wp_ret. simp_w. rewrite Hs1.
      split; [apply WF_set_slot_some; auto|]. split; [apply cap_set_slot|]. split; [exact Hl1|].
      split; [|discriminate]. rewrite elems_set_slot by auto. reflexivity.
  - apply wp_bind. apply wp_get_len. apply wp_bind. apply wp_get_cap. rewrite Hs1.
    assert (Hover : forall w2, self w2 = self w1 -> log w2 = log w1 -> cap (self w) <= len (self w) ->
              wp (unwind_args E k v)
                 (fun _ w' => self w' = self w /\ logged w w' (ev_drops (idV E v ++ idK E k)) /\
                              @None nat = None /\ len (self w) = cap (self w))
                 (fun w' => self w' = self w /\ logged w w' (ev_drops (idV E v ++ idK E k)) /\
                              @None nat = None /\ len (self w) = cap (self w)) w2).
    { intros w2 Hs2 Hl2 Hc.
      eapply wp_mono; [apply (unwind_args_lawful E k v w2) | | intros w' []]; cbn beta.
      intros _ w' [Hs3 Hl3].
      split; [congruence|]. split; [unfold logged in *; congruence|]. split; [reflexivity|].
      pose proof (WF_len_le_cap _ Hw). lia. }
    apply wp_bind. apply wp_on_unwind. apply wp_bind. apply wp_dbg_assert.
    + intros _. apply wp_check_index; rewrite Hs1.
      * intros Hc. apply wp_bind. apply wp_p_write_checked; rewrite Hs1.
        -- intros _. apply wp_bind. apply wp_set_len. apply wp_ret. simp_w.
           split; [apply WF_append; auto|]. split; [rewrite cap_set_len, cap_set_slot; reflexivity|].
           split; [exact Hl1|]. split; [|intros _; exact Hc].
           rewrite elems_append by auto. rewrite (elems_length _ Hw). reflexivity.
        -- intros Hc'. lia.
      * intros Hc. apply Hover; auto.
    + intros _ Hc. apply Nat.ltb_ge in Hc. apply Hover; auto.
Qed.

Lemma insert_rel k v w :
  WF (self w) ->
  wp (insert E debug k v)
     (fun r w' => WF (self w') /\ cap (self w') = cap (self w) /\
                  elems (self w') = fst (fst (l_insert_rel (elems (self w)) k v false)) /\
                  r = option_map snd (snd (l_insert_rel (elems (self w)) k v false)) /\
                  logged w w' (match snd (l_insert_rel (elems (self w)) k v false) with
                               | Some (k', _) => ev_drops (idK E k') | None => [] end))
     (fun w' => self w' = self w /\ logged w w' (ev_drops (idV E v ++ idK E k)) /\
                find_rel (ck k) (elems (self w)) = None /\ len (self w) = cap (self w)) w.
Proof.
  intros Hw. unfold insert. apply wp_bind.
  eapply wp_mono; [apply (insert_ii_rel k v false w Hw) | | intros w' H; exact H]; cbn beta.
  intros [i e] w1 (Hw1 & Hc1 & Hl1 & Hins & _). cbn [fst snd] in Hins.
  eapply wp_mono; [apply keep_value_rel | | intros ? []]; cbn beta.
  intros r w2 (Hs2 & Hr & Hlg). rewrite <- Hins. cbn [fst snd]. rewrite Hs2.
  split; [exact Hw1|]. split; [exact Hc1|]. split; [reflexivity|]. split; [exact Hr|].
  eapply logged_eq_l; [exact Hl1 | exact Hlg].
Qed.

(* the explicit reading of insert_rel *)
Lemma insert_rel_cases k v w :
  WF (self w) ->
  wp (insert E debug k v)
     (fun r w' =>
        WF (self w') /\ cap (self w') = cap (self w) /\
        match find_rel (ck k) (elems (self w)) with
        | Some i => exists k0 v0, nth_error (elems (self w)) i = Some (k0, v0) /\ R (ck k0) (ck k) = true /\
                      r = Some v0 /\ elems (self w') = upd (elems (self w)) i (k0, v) /\
                      logged w w' (ev_drops (idK E k))
        | None => len (self w) < cap (self w) /\ r = None /\
                  elems (self w') = elems (self w) ++ [(k, v)] /\ log w' = log w
        end)
     (fun w' => self w' = self w /\ logged w w' (ev_drops (idV E v ++ idK E k)) /\
                find_rel (ck k) (elems (self w)) = None /\ len (self w) = cap (self w)) w.
Proof.
  intros Hw. unfold insert. apply wp_bind.
  eapply wp_mono; [apply (insert_ii_rel k v false w Hw) | | intros w' H; exact H]; cbn beta.
  intros [i e] w1 (Hw1 & Hc1 & Hl1 & Hins & Hroom). cbn [fst snd] in Hins.
  eapply wp_mono; [apply keep_value_rel | | intros ? []]; cbn beta.
  intros r w2 (Hs2 & Hr & Hlg). rewrite Hs2.
  split; [exact Hw1|]. split; [exact Hc1|]. unfold l_insert_rel in Hins.
  destruct (find_rel (ck k) (elems (self w))) as [x|] eqn:Hf.
  - destruct (find_rel_inv _ _ _ Hf) as [[[k0 v0] [Hp Hrel]] _]. rewrite Hp in Hins. cbn [fst] in Hrel.
    injection Hins as He Hi Hee. subst e. cbn [option_map snd] in Hr.
    exists k0, v0. split; [exact Hp|]. split; [exact Hrel|]. split; [exact Hr|]. split; [exact He|].
    eapply logged_eq_l; [exact Hl1 | exact Hlg].
  - injection Hins as He Hi Hee. subst e. cbn [option_map] in Hr.
    split; [apply Hroom; reflexivity|]. split; [exact Hr|]. split; [exact He|].
    unfold logged in Hlg. rewrite Hlg, app_nil_r. exact Hl1.
Qed.

Lemma insert_key_value_rel k v w :
  WF (self w) ->
  wp (insert_key_value E debug k v)
     (fun r w' => WF (self w') /\ cap (self w') = cap (self w) /\ log w' = log w /\
                  elems (self w') = fst (fst (l_insert_rel (elems (self w)) k v true)) /\
                  r = snd (l_insert_rel (elems (self w)) k v true))
     (fun w' => self w' = self w /\ logged w w' (ev_drops (idV E v ++ idK E k)) /\
                find_rel (ck k) (elems (self w)) = None /\ len (self w) = cap (self w)) w.
Proof.
  intros Hw. unfold insert_key_value. apply wp_bind.
  eapply wp_mono; [apply (insert_ii_rel k v true w Hw) | | intros w' H; exact H]; cbn beta.
  intros [i e] w1 (Hw1 & Hc1 & Hl1 & Hins & _). cbn [fst snd] in Hins.
  apply wp_ret. rewrite <- Hins. cbn [fst snd].
  split; [exact Hw1|]. split; [exact Hc1|]. split; [exact Hl1|]. split; reflexivity.
Qed.

End PureEq.

(* ======================================================================== *)
(* A lawful environment is the instance R = N.eqb. *)
Lemma lawful_related {K V Q T : Type} (E : env K V Q T) ck cq :
  Lawful E ck cq -> Related E ck cq N.eqb.
Proof.
  intros HL. constructor.
  - apply (law_eqK E ck cq HL).
  - apply (law_eqKQ E ck cq HL).
  - apply (law_dropK E ck cq HL).
  - apply (law_dropV E ck cq HL).
Qed.

(* ======================================================================== *)
(* 7. NON-VACUITY: the interpreter's fifth kind of misbehaving == (seed mod 5 = 3:
   "a == b iff class a <= class b") is such an environment, with R = N.leb. *)
Section Instance.

Lemma asym_inv sc : asym sc = true -> sc_adv sc = true /\ N.modulo (sc_seed sc) 5 = 3%N.
Proof.
  unfold asym. intros H. apply andb_true_iff in H. destruct H as [Ha Hm].
  apply N.eqb_eq in Hm. auto.
Qed.

Lemma eq_answer_asym sc s t :
  asym sc = true -> sc_fk sc = 0%N -> fst (eq_answer sc s t) = if t then Yes else No.
Proof.
  intros Has Hf. destruct (asym_inv sc Has) as [Ha Hm].
  unfold eq_answer. rewrite Hf, Ha. cbn [N.eqb andb].
  unfold adv_answer. rewrite Hm. reflexivity.
Qed.

Lemma cls_truth_asym sc a b : asym sc = true -> cls_truth sc a b = N.leb a b.
Proof. intros Has. unfold cls_truth. rewrite Has. reflexivity. Qed.

Lemma drop_boom_nofault sc id : sc_fk sc = 0%N -> drop_boom sc id = false.
Proof. intros Hf. unfold drop_boom. rewrite Hf. reflexivity. Qed.

Lemma env_map_related sc :
  asym sc = true -> sc_fk sc = 0%N -> Related (env_map sc) kcls qcls N.leb.
Proof.
  intros Has Hf. constructor; intros; cbn [env_map eqK eqKQ dropK dropV fst];
    rewrite ?(cls_truth_asym sc _ _ Has);
    first [apply eq_answer_asym; assumption | apply drop_boom_nofault; exact Hf].
Qed.

Lemma env_set_related sc :
  asym sc = true -> sc_fk sc = 0%N -> Related (env_set sc) kcls qcls N.leb.
Proof.
  intros Has Hf. constructor; intros; cbn [env_set eqK eqKQ dropK dropV fst];
    rewrite ?(cls_truth_asym sc _ _ Has);
    first [apply eq_answer_asym; assumption | apply drop_boom_nofault; exact Hf | reflexivity].
Qed.

(* such scripts exist *)
Example asym_script_exists :
  let sc := {| sc_adv := true; sc_seed := 3; sc_fk := 0; sc_fa := 0 |} in
  asym sc = true /\ sc_fk sc = 0%N.
Proof. split; reflexivity. Qed.

(* the order of the operands matters: stored classes [5;2], needle class 3 *)
Example find_rel_leb_stored_left :
  find_rel (fun n : N => n) N.leb 3%N [(5%N, tt); (2%N, tt)] = Some 1.
Proof. reflexivity. Qed.
Example find_rel_leb_stored_right :
  find_rel (fun n : N => n) (fun a b => N.leb b a) 3%N [(5%N, tt); (2%N, tt)] = Some 0.
Proof. reflexivity. Qed.
Example find_rel_asym_differs :
  find_rel (fun n : N => n) N.leb 3%N [(5%N, tt); (2%N, tt)] <>
  find_rel (fun n : N => n) (fun a b => N.leb b a) 3%N [(5%N, tt); (2%N, tt)].
Proof. vm_compute. discriminate. Qed.
(* ... and equality finds nothing at all *)
Example find_idx_there_none :
  find_idx (fun n : N => n) 3%N [(5%N, tt); (2%N, tt)] = None.
Proof. reflexivity. Qed.

(* the agreement theorem, instantiated at the interpreter's asymmetric == *)
Lemma entry_get_agree_asym sc k q (w : world key vobj cstate) :
  asym sc = true -> sc_fk sc = 0%N -> kcls k = qcls q -> WF (self w) ->
  wp (entry_of (env_map sc) k)
     (fun r w' => wp (get (env_map sc) q)
                     (fun g _ => match r with Occupied i => g = Some i | Vacant _ => g = None end)
                     (fun _ => False) w)
     (fun _ => False) w.
Proof.
  intros Has Hf Hc Hw.
  exact (entry_get_agree_rel (env_map sc) kcls qcls N.leb (env_map_related sc Has Hf) k q w Hc Hw).
Qed.

End Instance.
