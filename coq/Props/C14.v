(* ========================================================================
   C14  Equality is extensional, regardless of capacity, slot order or history

   STATEMENT (properties.jsonl):
     "Two maps (or two sets) compare equal exactly when they hold the same keys
      with equal values, regardless of their capacities, of the order in which
      entries were inserted or removed, and of the history that produced them.
      The comparison is reflexive and symmetric and modifies neither operand."
   QUANTIFIER:
     "all pairs of containers over a small universe in all internal orders and
      capacity pairs, including pairs differing only in one value, only in one
      key, or only in length"

   VOCABULARY
     map_eq E a b          the model of `a == b` (src/eq.rs): a and b are
                           PARAMETERS (shared borrows) of possibly different
                           capacities cap a, cap b; nothing relates the two.
     Spec.elems m          the stored pairs of m in slot order.
     lookup ck l c         the dictionary view of a content l: the stored pair
                           whose key has class c, if any.
     Uniq ck l             stored keys pairwise different.
     veq                   the boolean function the user's V == V computes
                           (hypothesis HV: eqV answers veq and never panics).
     entry_ok_in ck veq lb p   "lb holds a pair with p's key whose value == p's value".
     stable w w'           self and log unchanged.

   READING GUIDE (clause -> theorem)
   * "compare equal exactly when they hold the same keys with equal values":
       C14_map_eq_lawful       map_eq returns the boolean
                                 (len a =? len b) && forallb (entry_ok_in (elems b)) (elems a),
                               never panics, changes nothing
       C14_map_eq_extensional  that boolean is true iff the two dictionaries agree
                               at EVERY class c: both absent, or both present with
                               equal values (so a pair differing in one value, in one
                               key or in length compares unequal)
   * "regardless of their capacities": a and b in C14_map_eq_lawful are any two
     well-formed containers; cap a, cap b do not occur in the result.
   * "regardless of the order in which entries were inserted or removed, and of
     the history": the result is a function of the two contents only, and
       C14_map_eq_perm, C14_map_eq_perm_r   it is invariant under any permutation
                               of the content of the left / right operand.
   * "reflexive and symmetric":
       C14_map_eq_refl (needs V's == reflexive), C14_map_eq_sym (needs it symmetric).
   * "modifies neither operand": the operands are parameters of map_eq and are
     not returned; moreover
       C14_map_eq_frame        for ANY environment (== may lie or panic) the
                               surrounding container [self] (NOT the operands, see
                               the corrected comment above the theorem) is untouched,
                               in every outcome;
       C14_step_OEq_regs, C14_step_SEq_regs (appended section)  the interpreter's
                               == leaves all four registers - both operands
                               included - literally unchanged, for EVERY script
       `stable w w'` in C14_map_eq_lawful: no event (drop/clone) is logged either.
   * sets: Set<T,N> = Map<T,(),N>; its == is map_eq with V = unit, whose eqV is
     constantly Yes (FmtSerde.env_set_eqV: veq = fun _ _ => true), so all theorems
     apply with "equal values" trivially true.

   PARTLY / NOT COVERED BY A THEOREM (left to the correspondence check)
   [UPDATE, audit: the APPENDED SECTION at the end of this file now states the
    iff about map_eq itself (C14_map_eq_iff), reflexivity / symmetry of the RUN
    (C14_map_eq_refl_run, C14_map_eq_sym_run), the Set instance (C14_set_eq_iff),
    operand immutability at the interpreter (C14_step_OEq_regs) and the
    composition with arbitrary histories (C14_map_eq_histories).]
   * Reflexivity/symmetry are stated for the boolean map_eq returns, under the
     corresponding law of the user's V == V (veq v v = true; veq x y = veq y x):
     without it the crate's == is not reflexive/symmetric either.
   * Uniq of both contents is assumed (true of reachable containers under a
     lawful ==, C01/C05).
   * `!=` (ne) is not modelled separately.
   ======================================================================== *)
Require Import Model.Base Model.Slots Model.MapOps Model.Exec.
Require Import Proofs.Hoare Proofs.Inv Proofs.Safety2 Proofs.Spec Proofs.Lawful Proofs.EqClone
               Proofs.FmtSerde Proofs.Legacy.
From Coq Require Import Permutation.

Theorem C14_map_eq_lawful :
  forall (K V Q T : Type) (E : env K V Q T) (ck : K -> N) (cq : Q -> N) (HL : Lawful E ck cq)
         (veq : V -> V -> bool)
         (HV : forall (s : T) (a b : V), fst (eqV E s a b) = (if veq a b then Yes else No))
         (a b : map K V) (w : world K V T),
    WF a -> WF b ->
    wp (map_eq E a b)
       (fun (r : bool) (w' : world K V T) =>
          stable w w' /\
          r = (len a =? len b) && forallb (entry_ok_in ck veq (Spec.elems b)) (Spec.elems a))
       (fun _ : world K V T => False) w.
Proof. exact (fun K V Q T E ck cq HL veq HV => map_eq_lawful E ck cq HL veq HV). Qed.
Print Assumptions C14_map_eq_lawful.

Theorem C14_map_eq_extensional :
  forall (K V : Type) (ck : K -> N) (veq : V -> V -> bool) (la lb : list (K * V)),
    Uniq ck la -> Uniq ck lb ->
    ((length la =? length lb) && forallb (entry_ok_in ck veq lb) la = true <->
     (forall c : N,
         match lookup ck la c, lookup ck lb c with
         | Some (_, v), Some (_, v') => veq v' v = true
         | None, None => True
         | _, _ => False
         end)).
Proof. exact (fun K V => @map_eq_extensional K V). Qed.
Print Assumptions C14_map_eq_extensional.

Theorem C14_map_eq_refl :
  forall (K V : Type) (ck : K -> N) (veq : V -> V -> bool) (la : list (K * V)),
    Uniq ck la ->
    (forall v : V, veq v v = true) ->
    (length la =? length la) && forallb (entry_ok_in ck veq la) la = true.
Proof. exact (fun K V => @map_eq_refl K V). Qed.
Print Assumptions C14_map_eq_refl.

Theorem C14_map_eq_sym :
  forall (K V : Type) (ck : K -> N) (veq : V -> V -> bool) (la lb : list (K * V)),
    Uniq ck la -> Uniq ck lb ->
    (forall x y : V, veq x y = veq y x) ->
    (length la =? length lb) && forallb (entry_ok_in ck veq lb) la =
    (length lb =? length la) && forallb (entry_ok_in ck veq la) lb.
Proof. exact (fun K V => @map_eq_sym K V). Qed.
Print Assumptions C14_map_eq_sym.

Theorem C14_map_eq_perm :
  forall (K V : Type) (ck : K -> N) (veq : V -> V -> bool) (la la' lb : list (K * V)),
    Uniq ck la -> Uniq ck lb ->
    Permutation la la' ->
    (length la =? length lb) && forallb (entry_ok_in ck veq lb) la =
    (length la' =? length lb) && forallb (entry_ok_in ck veq lb) la'.
Proof. exact (fun K V => @map_eq_perm K V). Qed.
Print Assumptions C14_map_eq_perm.

Theorem C14_map_eq_perm_r :
  forall (K V : Type) (ck : K -> N) (veq : V -> V -> bool) (la lb lb' : list (K * V)),
    Uniq ck la -> Uniq ck lb ->
    Permutation lb lb' ->
    (length la =? length lb) && forallb (entry_ok_in ck veq lb) la =
    (length la =? length lb') && forallb (entry_ok_in ck veq lb') la.
Proof. exact (fun K V => @map_eq_perm_r K V). Qed.
Print Assumptions C14_map_eq_perm_r.

(* CORRECTED COMMENT (audit): this theorem does NOT speak about the operands.
   a and b are parameters of map_eq, unrelated to [self w]; the conclusion
   [self w' = self w] says that the container the comparison is RUN ON (the
   interpreter's current register) is the same afterwards, in every outcome
   and for ANY environment.  That the operands a and b themselves are not
   modified is structural: in the model containers are values and map_eq
   returns only a bool.  The contentful statements about the operands are in
   the appended section: C14_step_OEq_regs / C14_step_SEq_regs (the interpreter
   writes back into all four registers literally what they held, for EVERY
   script) and `stable w w'` in C14_map_eq_iff. *)
Theorem C14_map_eq_frame :
  forall (K V Q T : Type) (E : env K V Q T) (a b : map K V) (w : world K V T),
    WF a -> WF b ->
    wp (map_eq E a b)
       (fun (_ : bool) (w' : world K V T) => self w' = self w)
       (fun w' : world K V T => self w' = self w) w.
Proof. exact (fun K V Q T => @map_eq_frame K V Q T). Qed.
Print Assumptions C14_map_eq_frame.

(* ---------------------------------------------------------------------- *)
(* non-vacuity                                                              *)
(* ---------------------------------------------------------------------- *)

(* hypotheses: honest script; veq = equality of the value payloads (reflexive,
   symmetric); m3 and a container b holding the same dictionary in another slot
   order, with other object identities and capacity 5 *)
Example C14_example_hyps :
  let sc0 := {| sc_adv := false; sc_seed := 0; sc_fk := 0; sc_fa := 0 |} in
  let veq := fun a b : vobj => N.eqb (vdat a) (vdat b) in
  let b : map key vobj :=
    {| len := 3; slots := [Some (k_ 15 7, v_ 16 9); Some (k_ 11 5, v_ 12 7); Some (k_ 13 6, v_ 14 8);
                           None; None] |} in
  Lawful (env_map sc0) kcls qcls /\
  (forall (s : cstate) (x y : vobj),
      fst (eqV (env_map sc0) s x y) = (if veq x y then Yes else No)) /\
  (forall v : vobj, veq v v = true) /\ (forall x y : vobj, veq x y = veq y x) /\
  WF m3 /\ WF b /\ Uniq kcls (Spec.elems m3) /\ Uniq kcls (Spec.elems b) /\
  cap m3 = 3 /\ cap b = 5.
Proof.
  intros sc0 veq b.
  assert (Hh : honest sc0) by (split; reflexivity).
  split; [exact (env_map_lawful sc0 Hh)|].
  split; [exact (env_map_eqV sc0 Hh)|].
  split; [intros v; apply N.eqb_refl|].
  split; [intros x y; apply N.eqb_sym|].
  split; [exact m3_WF|].
  split.
  { split; [cbn; lia|]. intros i Hi. cbn [len b] in Hi.
    destruct i as [|[|[|i]]]; try lia; eexists; reflexivity. }
  split; [vm_compute; repeat constructor; cbn; intuition discriminate|].
  split; [vm_compute; repeat constructor; cbn; intuition discriminate|].
  split; reflexivity.
Qed.

(* concrete comparisons: equal in both directions despite order/capacity/ids;
   unequal when one value, one key, or the length differs; nothing logged *)
Example C14_example_runs :
  let E := env_map {| sc_adv := false; sc_seed := 0; sc_fk := 0; sc_fa := 0 |} in
  let b : map key vobj :=
    {| len := 3; slots := [Some (k_ 15 7, v_ 16 9); Some (k_ 11 5, v_ 12 7); Some (k_ 13 6, v_ 14 8);
                           None; None] |} in
  let b_val : map key vobj :=
    {| len := 3; slots := [Some (k_ 15 7, v_ 16 9); Some (k_ 11 5, v_ 12 0); Some (k_ 13 6, v_ 14 8);
                           None; None] |} in
  let b_key : map key vobj :=
    {| len := 3; slots := [Some (k_ 15 7, v_ 16 9); Some (k_ 11 4, v_ 12 7); Some (k_ 13 6, v_ 14 8);
                           None; None] |} in
  let b_len : map key vobj :=
    {| len := 2; slots := [Some (k_ 15 7, v_ 16 9); Some (k_ 11 5, v_ 12 7); None; None; None] |} in
  let out (r : res key vobj cstate bool) : option (bool * list event * map key vobj) :=
    match r with Ok x w' => Some (x, log w', self w') | _ => None end in
  out (map_eq E m3 b (w_of (new_map 0))) = Some (true, [], new_map 0) /\
  out (map_eq E b m3 (w_of (new_map 0))) = Some (true, [], new_map 0) /\
  out (map_eq E m3 m3 (w_of (new_map 0))) = Some (true, [], new_map 0) /\
  out (map_eq E m3 b_val (w_of (new_map 0))) = Some (false, [], new_map 0) /\
  out (map_eq E m3 b_key (w_of (new_map 0))) = Some (false, [], new_map 0) /\
  out (map_eq E m3 b_len (w_of (new_map 0))) = Some (false, [], new_map 0) /\
  out (map_eq E b_len m3 (w_of (new_map 0))) = Some (false, [], new_map 0).
Proof. vm_compute. repeat split; reflexivity. Qed.

(* ======================================================================== *)
(* APPENDED SECTION — audit findings closed (Proofs/MoreEq.v)                 *)
(*                                                                          *)
(*  1. "compare equal EXACTLY WHEN they hold the same keys with equal values" *)
(*     as ONE theorem about map_eq itself:            C14_map_eq_iff          *)
(*  2. "reflexive and symmetric" of the RUN map_eq E a a / map_eq E b a:      *)
(*                              C14_map_eq_refl_run, C14_map_eq_sym_run       *)
(*  3. "(or two sets)":         C14_set_eq_iff, C14_set_eq_iff_env_set        *)
(*  4. "modifies neither operand" with content:                               *)
(*                              C14_step_OEq_regs, C14_step_SEq_regs,         *)
(*                              C14_step_OEq_view (+ corrected comment above  *)
(*                              C14_map_eq_frame)                             *)
(*  5. "regardless of ... the history that produced them":                    *)
(*                              C14_map_eq_histories, C14_map_eq_same_dict    *)
(* ======================================================================== *)
Require Import Proofs.Dict Proofs.ExecSafe Proofs.ExecUniq Proofs.ExecView Proofs.MoreEq.

(* ---------------------------------------------------------------------- *)
(* 1. Hypotheses: HL the user's == on keys is equality of the classes ck / cq
   and never panics; HV the user's V == V computes the boolean function veq and
   never panics; both operands well formed with pairwise different keys (true of
   every reachable container, C01/C05).  Conclusion: map_eq returns (never
   panics, never UB), leaves container and log as they were (stable), and its
   answer is true IF AND ONLY IF at every class c either neither operand stores
   a key of class c, or both do and the two values are == .  Capacities and slot
   order do not occur. *)
Theorem C14_map_eq_iff :
  forall (K V Q T : Type) (E : env K V Q T) (ck : K -> N) (cq : Q -> N),
    Lawful E ck cq ->
    forall veq : V -> V -> bool,
    (forall (s : T) (a b : V), fst (eqV E s a b) = (if veq a b then Yes else No)) ->
    forall (a b : map K V) (w : world K V T),
      WF a -> WF b -> Uniq ck (Spec.elems a) -> Uniq ck (Spec.elems b) ->
      wp (map_eq E a b)
         (fun (r : bool) (w' : world K V T) =>
            stable w w' /\
            (r = true <->
             (forall c : N,
                 match lookup ck (Spec.elems a) c, lookup ck (Spec.elems b) c with
                 | Some (_, v), Some (_, v') => veq v' v = true
                 | None, None => True
                 | _, _ => False
                 end)))
         (fun _ : world K V T => False) w.
Proof. exact (@map_eq_iff). Qed.
Print Assumptions C14_map_eq_iff.

(* ---------------------------------------------------------------------- *)
(* 2. The laws of V's == are stated ON THE ENVIRONMENT: x == y and y == x answer
   alike (in any two callback states) / x == x answers Yes.  Then b == a returns
   the SAME boolean as a == b, and a == a returns true - as runs of map_eq from
   the same world, both leaving container and log untouched. *)
Theorem C14_map_eq_sym_run :
  forall (K V Q T : Type) (E : env K V Q T) (ck : K -> N) (cq : Q -> N),
    Lawful E ck cq ->
    forall veq : V -> V -> bool,
    (forall (s : T) (a b : V), fst (eqV E s a b) = (if veq a b then Yes else No)) ->
    forall (a b : map K V) (w : world K V T),
      (forall (s s' : T) (x y : V), fst (eqV E s x y) = fst (eqV E s' y x)) ->
      WF a -> WF b -> Uniq ck (Spec.elems a) -> Uniq ck (Spec.elems b) ->
      exists (r : bool) (w1 w2 : world K V T),
        map_eq E a b w = Ok r w1 /\ map_eq E b a w = Ok r w2 /\ stable w w1 /\ stable w w2.
Proof. exact (@map_eq_sym_run). Qed.
Print Assumptions C14_map_eq_sym_run.

Theorem C14_map_eq_refl_run :
  forall (K V Q T : Type) (E : env K V Q T) (ck : K -> N) (cq : Q -> N),
    Lawful E ck cq ->
    forall veq : V -> V -> bool,
    (forall (s : T) (a b : V), fst (eqV E s a b) = (if veq a b then Yes else No)) ->
    forall (a : map K V) (w : world K V T),
      (forall (s : T) (x : V), fst (eqV E s x x) = Yes) ->
      WF a -> Uniq ck (Spec.elems a) ->
      exists w' : world K V T, map_eq E a a w = Ok true w' /\ stable w w'.
Proof. exact (@map_eq_refl_run). Qed.
Print Assumptions C14_map_eq_refl_run.

(* the two environment-level laws hold of the interpreter's environment under an
   honest script *)
Example C14_example_env_laws :
  let E := env_map {| sc_adv := false; sc_seed := 0; sc_fk := 0; sc_fa := 0 |} in
  (forall (s s' : cstate) (x y : vobj), fst (eqV E s x y) = fst (eqV E s' y x)) /\
  (forall (s : cstate) (x : vobj), fst (eqV E s x x) = Yes).
Proof.
  assert (Hh : honest {| sc_adv := false; sc_seed := 0; sc_fk := 0; sc_fa := 0 |}) by (split; reflexivity).
  split.
  - intros s s' x y. rewrite !(env_map_eqV _ Hh), (N.eqb_sym (vdat x) (vdat y)). reflexivity.
  - intros s x. rewrite (env_map_eqV _ Hh), N.eqb_refl. reflexivity.
Qed.

(* ---------------------------------------------------------------------- *)
(* 3. Sets.  Set<T,N> = Map<T,(),N>; its == is map_eq at V = unit.  Whenever
   () == () answers Yes (hypothesis on eqV; true of env_set by computation,
   FmtSerde.env_set_eqV) two sets compare equal IF AND ONLY IF they hold the
   same element classes.  The second theorem is the instance for the Set
   environment of the correspondence check under an honest script. *)
Theorem C14_set_eq_iff :
  forall (K Q T : Type) (E : env K unit Q T) (ck : K -> N) (cq : Q -> N),
    Lawful E ck cq ->
    (forall (s : T) (a b : unit), fst (eqV E s a b) = Yes) ->
    forall (a b : map K unit) (w : world K unit T),
      WF a -> WF b -> Uniq ck (Spec.elems a) -> Uniq ck (Spec.elems b) ->
      wp (map_eq E a b)
         (fun (r : bool) (w' : world K unit T) =>
            stable w w' /\
            (r = true <->
             (forall c : N,
                 In c (List.map (fun p : K * unit => ck (fst p)) (Spec.elems a)) <->
                 In c (List.map (fun p : K * unit => ck (fst p)) (Spec.elems b)))))
         (fun _ : world K unit T => False) w.
Proof. exact (@set_eq_iff). Qed.
Print Assumptions C14_set_eq_iff.

Theorem C14_set_eq_iff_env_set :
  forall (sc : script) (a b : map key unit) (w : world key unit cstate),
    honest sc ->
    WF a -> WF b -> Uniq kcls (Spec.elems a) -> Uniq kcls (Spec.elems b) ->
    wp (map_eq (env_set sc) a b)
       (fun (r : bool) (w' : world key unit cstate) =>
          stable w w' /\
          (r = true <->
           (forall c : N,
               In c (List.map (fun p : key * unit => kcls (fst p)) (Spec.elems a)) <->
               In c (List.map (fun p : key * unit => kcls (fst p)) (Spec.elems b)))))
       (fun _ : world key unit cstate => False) w.
Proof. exact set_eq_iff_env_set. Qed.
Print Assumptions C14_set_eq_iff_env_set.

(* two sets {5,6} in different slot orders, capacities 2 and 4, other object
   identities: equal both ways; {5,6} vs {5,7} and vs {5}: unequal *)
Example C14_example_sets :
  let E := env_set {| sc_adv := false; sc_seed := 0; sc_fk := 0; sc_fa := 0 |} in
  let w0 : world key unit cstate := {| cb := cs0; log := []; self := new_map 0 |} in
  let s1 : map key unit := {| len := 2; slots := [Some (k_ 1 5, tt); Some (k_ 2 6, tt)] |} in
  let s2 : map key unit := {| len := 2; slots := [Some (k_ 8 6, tt); Some (k_ 9 5, tt); None; None] |} in
  let s3 : map key unit := {| len := 2; slots := [Some (k_ 8 7, tt); Some (k_ 9 5, tt); None; None] |} in
  let s4 : map key unit := {| len := 1; slots := [Some (k_ 9 5, tt); None; None; None] |} in
  let out (r : res key unit cstate bool) : option (bool * list event * map key unit) :=
    match r with Ok x w' => Some (x, log w', self w') | _ => None end in
  out (map_eq E s1 s2 w0) = Some (true, [], new_map 0) /\
  out (map_eq E s2 s1 w0) = Some (true, [], new_map 0) /\
  out (map_eq E s1 s3 w0) = Some (false, [], new_map 0) /\
  out (map_eq E s1 s4 w0) = Some (false, [], new_map 0) /\
  Uniq kcls (Spec.elems s1) /\ Uniq kcls (Spec.elems s2).
Proof.
  vm_compute. repeat split; try reflexivity;
    repeat (constructor; [cbn [In]; intuition discriminate|]); constructor.
Qed.

(* ---------------------------------------------------------------------- *)
(* 4. "modifies neither operand".  In the model containers are values, so the
   operands a, b of map_eq CANNOT be modified by it (structural).  What has
   content is the interpreter: `OEq r r'` (Map) / `SEq r r'` (Set) runs the
   comparison on the containers held by registers r and r' and writes register r
   back.  regs x = (xm0 x, xm1 x, xs0 x, xs1 x), the four containers of an
   interpreter state.  For EVERY script (lying ==, injected panics), EVERY state
   (well formed or not), both values of debug, and whether the comparison
   returns, panics or is undefined: all four registers hold afterwards
   literally the containers they held before. *)
Theorem C14_step_OEq_regs :
  forall (debug : bool) (sc : script) (r r' : N) (x : xworld),
    regs (snd (step debug sc (OEq r r') x)) = regs x.
Proof. exact step_OEq_regs. Qed.
Print Assumptions C14_step_OEq_regs.

Theorem C14_step_SEq_regs :
  forall (debug : bool) (sc : script) (r r' : N) (x : xworld),
    regs (snd (step debug sc (SEq r r') x)) = regs x.
Proof. exact step_SEq_regs. Qed.
Print Assumptions C14_step_SEq_regs.

(* the instance of the history-level functional theorem (ExecView.step_view):
   the specification's step for == is the identity on the contents, and the
   interpreter follows it - here without any hypothesis on script or state *)
Theorem C14_vstep_OEq :
  forall (r r' : N) (vw : vworld), vstep (OEq r r') vw = vw /\ vstep (SEq r r') vw = vw.
Proof. exact (fun r r' vw => conj (vstep_OEq r r' vw) (vstep_SEq r r' vw)). Qed.
Print Assumptions C14_vstep_OEq.

Theorem C14_step_OEq_view :
  forall (debug : bool) (sc : script) (r r' : N) (x : xworld),
    view_x (snd (step debug sc (OEq r r') x)) = vstep (OEq r r') (view_x x).
Proof. exact step_OEq_view. Qed.
Print Assumptions C14_step_OEq_view.

Theorem C14_step_SEq_view :
  forall (debug : bool) (sc : script) (r r' : N) (x : xworld),
    view_x (snd (step debug sc (SEq r r') x)) = vstep (SEq r r') (view_x x).
Proof. exact step_SEq_view. Qed.
Print Assumptions C14_step_SEq_view.

(* an adversarial script (== lies on a quarter of the calls) with a panic
   injected into the first comparison: the registers are as before *)
Example C14_example_OEq_adversarial :
  let sc := {| sc_adv := true; sc_seed := 7; sc_fk := 1; sc_fa := 0 |} in
  let x := {| xcb := cs0; xm0 := m3; xm1 := m3; xs0 := new_map 0; xs1 := new_map 0; xdead := false |} in
  fst (step false sc (OEq 0 1) x) = [2; 7777; 3; 3; 1; 5; 2; 7; 3; 6; 4; 8; 5; 7; 6; 9; 8888; 8889]%N /\
  regs (snd (step false sc (OEq 0 1) x)) = regs x.
Proof. split; vm_compute; reflexivity. Qed.

(* ---------------------------------------------------------------------- *)
(* 5. "regardless of ... the history that produced them".  ops_a, ops_b are ANY
   two histories of the 13 dictionary operations (Dict.dop: insert,
   insert_key_value, checked_insert, get, get_mut, get_key_value, contains_key,
   index, index_mut, remove, remove_entry, retain, clear), run by the model
   (Dict.mfinal) from empty containers of ANY capacities na, nb, from any
   callback states / logs.  Dict.dfinal is the IDEAL finite dictionary after the
   same history; d_find its lookup by class.  Both runs exist (no UB), and ==
   on the two resulting containers answers true IF AND ONLY IF the two ideal
   dictionaries agree at every class.  Second theorem (C14_map_eq_same_dict),
   CORRECTED COMMENT (second audit): its hypothesis `d_find .. = d_find ..`
   equates the stored (key OBJECT, value) pairs themselves, so it only applies
   when both histories ended up storing the identical objects; it is NOT "the
   same finite map up to ==".  That statement is C14_map_eq_agree_dict in the
   ROUND 2 section at the end of this file (with an Example on different
   objects). *)
Theorem C14_map_eq_histories :
  forall (K V Q T : Type) (E : env K V Q T) (ck : K -> N) (cq : Q -> N),
    Lawful E ck cq ->
    forall veq : V -> V -> bool,
    (forall (s : T) (a b : V), fst (eqV E s a b) = (if veq a b then Yes else No)) ->
    forall (debug : bool) (na nb : nat) (ops_a ops_b : list (@dop K V Q)) (sa sb : T) (la lb : list event),
    exists wa wb : world K V T,
      mfinal E debug ops_a {| cb := sa; log := la; self := new_map na |} = Some wa /\
      mfinal E debug ops_b {| cb := sb; log := lb; self := new_map nb |} = Some wb /\
      cap (self wa) = na /\
      cap (self wb) = nb /\
      (forall w : world K V T,
          wp (map_eq E (self wa) (self wb))
             (fun (r : bool) (w' : world K V T) =>
                stable w w' /\
                (r = true <->
                 (forall c : N,
                     match d_find ck (dfinal ck cq na ops_a []) c, d_find ck (dfinal ck cq nb ops_b []) c with
                     | Some (_, v), Some (_, v') => veq v' v = true
                     | None, None => True
                     | _, _ => False
                     end)))
             (fun _ : world K V T => False) w).
Proof. exact (@map_eq_histories). Qed.
Print Assumptions C14_map_eq_histories.

Theorem C14_map_eq_same_dict :
  forall (K V Q T : Type) (E : env K V Q T) (ck : K -> N) (cq : Q -> N),
    Lawful E ck cq ->
    forall veq : V -> V -> bool,
    (forall (s : T) (a b : V), fst (eqV E s a b) = (if veq a b then Yes else No)) ->
    forall (debug : bool) (na nb : nat) (ops_a ops_b : list (@dop K V Q)) (sa sb : T) (la lb : list event),
      (forall (s : T) (x : V), fst (eqV E s x x) = Yes) ->
      (forall c : N, d_find ck (dfinal ck cq na ops_a []) c = d_find ck (dfinal ck cq nb ops_b []) c) ->
      exists wa wb : world K V T,
        mfinal E debug ops_a {| cb := sa; log := la; self := new_map na |} = Some wa /\
        mfinal E debug ops_b {| cb := sb; log := lb; self := new_map nb |} = Some wb /\
        (forall w : world K V T,
            exists w' : world K V T, map_eq E (self wa) (self wb) w = Ok true w' /\ stable w w').
Proof. exact (@map_eq_same_dict). Qed.
Print Assumptions C14_map_eq_same_dict.

(* two different histories (other order, a removal, an overwritten value, other
   object identities, capacities 2 and 5) whose ideal dictionaries agree at every
   class; the model's two final containers differ in slot order and capacity and
   compare equal *)
Example C14_example_histories :
  let E := env_map {| sc_adv := false; sc_seed := 0; sc_fk := 0; sc_fa := 0 |} in
  let veq := fun a b : vobj => N.eqb (vdat a) (vdat b) in
  let ops_a : list (@dop key vobj query) := [DInsert (k_ 1 5) (v_ 2 7); DInsert (k_ 3 6) (v_ 4 8)] in
  let ops_b : list (@dop key vobj query) :=
    [DInsert (k_ 11 9) (v_ 12 1); DInsert (k_ 13 6) (v_ 14 0); DInsert (k_ 15 5) (v_ 16 7);
     DRemove (QCls 9); DInsert (k_ 17 6) (v_ 18 8)] in
  dfinal kcls qcls 2 ops_a [] = [(k_ 1 5, v_ 2 7); (k_ 3 6, v_ 4 8)] /\
  dfinal kcls qcls 5 ops_b [] = [(k_ 13 6, v_ 18 8); (k_ 15 5, v_ 16 7)] /\
  (forall c : N,
      match d_find kcls (dfinal kcls qcls 2 ops_a []) c, d_find kcls (dfinal kcls qcls 5 ops_b []) c with
      | Some (_, v), Some (_, v') => veq v' v = true
      | None, None => True
      | _, _ => False
      end) /\
  match mfinal E false ops_a (w_of (new_map 2)), mfinal E false ops_b (w_of (new_map 5)) with
  | Some wa, Some wb =>
      self wa = {| len := 2; slots := [Some (k_ 1 5, v_ 2 7); Some (k_ 3 6, v_ 4 8)] |} /\
      self wb = {| len := 2; slots := [Some (k_ 15 5, v_ 16 7); Some (k_ 13 6, v_ 18 8); None; None; None] |} /\
      match map_eq E (self wa) (self wb) (w_of (new_map 0)) with
      | Ok r w' => r = true /\ log w' = [] /\ self w' = new_map 0
      | _ => False
      end
  | _, _ => False
  end.
Proof.
  cbv zeta. split; [vm_compute; reflexivity|]. split; [vm_compute; reflexivity|]. split.
  - intros c.
    replace (dfinal kcls qcls 2 [DInsert (k_ 1 5) (v_ 2 7); DInsert (k_ 3 6) (v_ 4 8)] [])
      with [(k_ 1 5, v_ 2 7); (k_ 3 6, v_ 4 8)] by (vm_compute; reflexivity).
    replace (dfinal kcls qcls 5 _ []) with [(k_ 13 6, v_ 18 8); (k_ 15 5, v_ 16 7)] by (vm_compute; reflexivity).
    unfold d_find. cbn [find fst kcls k_].
    destruct (N.eqb_spec 5 c) as [<-|H5]; [reflexivity|].
    destruct (N.eqb_spec 6 c) as [<-|H6]; [reflexivity | exact I].
  - vm_compute. repeat split; reflexivity.
Qed.

(* ======================================================================== *)
(* ROUND 2 — second audit (Proofs/MoreEq.v, Parts E)                          *)
(*  4. C14_map_eq_same_dict only covers identical stored objects:            *)
(*       C14_map_eq_agree_dict + C14_example_agree_dict (different objects)  *)
(*  5. no Set twin of C14_map_eq_histories:   C14_set_eq_histories,          *)
(*       C14_set_eq_sym_run, C14_set_eq_refl_run, C14_example_set_histories  *)
(*  6. the environment-level hypotheses of C14_map_eq_sym_run / _refl_run are *)
(*     nothing more than "veq symmetric / reflexive":                         *)
(*       C14_eqV_sym_of_veq, C14_eqV_refl_of_veq,                             *)
(*       C14_map_eq_sym_run_veq, C14_map_eq_refl_run_veq                      *)
(* ======================================================================== *)
Require Import Proofs.SetDict.

(* ---------------------------------------------------------------------- *)
(* 6. Given HV (V's == computes the boolean function veq and never panics), the
   hypotheses `forall s s' x y, fst (eqV E s x y) = fst (eqV E s' y x)` and
   `forall s x, fst (eqV E s x x) = Yes` of C14_map_eq_sym_run / _refl_run FOLLOW
   from veq being symmetric / reflexive (first two theorems); so symmetry and
   reflexivity of the run hold under exactly "V's == is symmetric / reflexive"
   (last two). *)
Theorem C14_eqV_sym_of_veq :
  forall (K V Q T : Type) (E : env K V Q T) (veq : V -> V -> bool),
    (forall (s : T) (a b : V), fst (eqV E s a b) = (if veq a b then Yes else No)) ->
    (forall x y : V, veq x y = veq y x) ->
    forall (s s' : T) (x y : V), fst (eqV E s x y) = fst (eqV E s' y x).
Proof. exact (@eqV_sym_of_veq). Qed.
Print Assumptions C14_eqV_sym_of_veq.

Theorem C14_eqV_refl_of_veq :
  forall (K V Q T : Type) (E : env K V Q T) (veq : V -> V -> bool),
    (forall (s : T) (a b : V), fst (eqV E s a b) = (if veq a b then Yes else No)) ->
    (forall x : V, veq x x = true) ->
    forall (s : T) (x : V), fst (eqV E s x x) = Yes.
Proof. exact (@eqV_refl_of_veq). Qed.
Print Assumptions C14_eqV_refl_of_veq.

Theorem C14_map_eq_sym_run_veq :
  forall (K V Q T : Type) (E : env K V Q T) (ck : K -> N) (cq : Q -> N),
    Lawful E ck cq ->
    forall veq : V -> V -> bool,
    (forall (s : T) (a b : V), fst (eqV E s a b) = (if veq a b then Yes else No)) ->
    forall (a b : map K V) (w : world K V T),
      (forall x y : V, veq x y = veq y x) ->
      WF a -> WF b -> Uniq ck (Spec.elems a) -> Uniq ck (Spec.elems b) ->
      exists (r : bool) (w1 w2 : world K V T),
        map_eq E a b w = Ok r w1 /\ map_eq E b a w = Ok r w2 /\ stable w w1 /\ stable w w2.
Proof. exact (@map_eq_sym_run_veq). Qed.
Print Assumptions C14_map_eq_sym_run_veq.

Theorem C14_map_eq_refl_run_veq :
  forall (K V Q T : Type) (E : env K V Q T) (ck : K -> N) (cq : Q -> N),
    Lawful E ck cq ->
    forall veq : V -> V -> bool,
    (forall (s : T) (a b : V), fst (eqV E s a b) = (if veq a b then Yes else No)) ->
    forall (a : map K V) (w : world K V T),
      (forall x : V, veq x x = true) ->
      WF a -> Uniq ck (Spec.elems a) ->
      exists w' : world K V T, map_eq E a a w = Ok true w' /\ stable w w'.
Proof. exact (@map_eq_refl_run_veq). Qed.
Print Assumptions C14_map_eq_refl_run_veq.

(* ---------------------------------------------------------------------- *)
(* 4. Two histories whose IDEAL dictionaries hold the same classes with
   ==-related values - the key and value OBJECTS may all be different - produce
   containers that compare equal (run from any world; container and log of that
   world untouched).  No reflexivity of == is needed. *)
Theorem C14_map_eq_agree_dict :
  forall (K V Q T : Type) (E : env K V Q T) (ck : K -> N) (cq : Q -> N),
    Lawful E ck cq ->
    forall veq : V -> V -> bool,
    (forall (s : T) (a b : V), fst (eqV E s a b) = (if veq a b then Yes else No)) ->
    forall (debug : bool) (na nb : nat) (ops_a ops_b : list (@dop K V Q)) (sa sb : T) (la lb : list event),
      (forall c : N,
          match d_find ck (dfinal ck cq na ops_a []) c, d_find ck (dfinal ck cq nb ops_b []) c with
          | Some (_, v), Some (_, v') => veq v' v = true
          | None, None => True
          | _, _ => False
          end) ->
      exists wa wb : world K V T,
        mfinal E debug ops_a {| cb := sa; log := la; self := new_map na |} = Some wa /\
        mfinal E debug ops_b {| cb := sb; log := lb; self := new_map nb |} = Some wb /\
        (forall w : world K V T,
            exists w' : world K V T, map_eq E (self wa) (self wb) w = Ok true w' /\ stable w w').
Proof. exact (@map_eq_agree_dict). Qed.
Print Assumptions C14_map_eq_agree_dict.

(* non-vacuity on DIFFERENT objects: the two histories of C14_example_histories
   store keys K1,K3 / K15,K13 and values V2,V4 / V16,V18 - no object in common -
   and satisfy the hypothesis (proved there); here: no stored pair of one
   dictionary is a stored pair of the other, so C14_map_eq_same_dict would NOT
   apply, while the hypothesis of C14_map_eq_agree_dict holds *)
Example C14_example_agree_dict :
  let veq := fun a b : vobj => N.eqb (vdat a) (vdat b) in
  let ops_a : list (@dop key vobj query) := [DInsert (k_ 1 5) (v_ 2 7); DInsert (k_ 3 6) (v_ 4 8)] in
  let ops_b : list (@dop key vobj query) :=
    [DInsert (k_ 11 9) (v_ 12 1); DInsert (k_ 13 6) (v_ 14 0); DInsert (k_ 15 5) (v_ 16 7);
     DRemove (QCls 9); DInsert (k_ 17 6) (v_ 18 8)] in
  d_find kcls (dfinal kcls qcls 2 ops_a []) 5 = Some (k_ 1 5, v_ 2 7) /\
  d_find kcls (dfinal kcls qcls 5 ops_b []) 5 = Some (k_ 15 5, v_ 16 7) /\
  d_find kcls (dfinal kcls qcls 2 ops_a []) 5 <> d_find kcls (dfinal kcls qcls 5 ops_b []) 5 /\
  (forall c : N,
      match d_find kcls (dfinal kcls qcls 2 ops_a []) c, d_find kcls (dfinal kcls qcls 5 ops_b []) c with
      | Some (_, v), Some (_, v') => veq v' v = true
      | None, None => True
      | _, _ => False
      end).
Proof.
  cbv zeta. split; [vm_compute; reflexivity|]. split; [vm_compute; reflexivity|].
  split; [vm_compute; discriminate|].
  intros c.
  replace (dfinal kcls qcls 2 [DInsert (k_ 1 5) (v_ 2 7); DInsert (k_ 3 6) (v_ 4 8)] [])
    with [(k_ 1 5, v_ 2 7); (k_ 3 6, v_ 4 8)] by (vm_compute; reflexivity).
  replace (dfinal kcls qcls 5 _ []) with [(k_ 13 6, v_ 18 8); (k_ 15 5, v_ 16 7)] by (vm_compute; reflexivity).
  unfold d_find. cbn [find fst kcls k_].
  destruct (N.eqb_spec 5 c) as [<-|H5]; [reflexivity|].
  destruct (N.eqb_spec 6 c) as [<-|H6]; [reflexivity | exact I].
Qed.

(* ---------------------------------------------------------------------- *)
(* 5. Sets.  ops_a, ops_b: ANY two histories of the nine set operations
   (SetDict.sop: insert, replace, contains, get, remove, take, retain, clear,
   extend) run by the model (SetDict.smfinal) from empty sets of any capacities;
   SetDict.fsfinal is the IDEAL finite set after the same history.  Both runs
   exist, and == on the two resulting sets answers true IF AND ONLY IF the two
   ideal sets hold the same element classes.  Hypothesis on eqV: () == () answers
   Yes (true of env_set by computation).
   Reflexivity / symmetry of == on sets are the instances of
   C14_map_eq_refl_run_veq / C14_map_eq_sym_run_veq at veq := fun _ _ => true,
   which is trivially reflexive and symmetric: no hypothesis about == on
   values is left (C14_set_eq_refl_run, C14_set_eq_sym_run). *)
Theorem C14_set_eq_histories :
  forall (K Q T : Type) (E : env K unit Q T) (ck : K -> N) (cq : Q -> N),
    Lawful E ck cq ->
    (forall (s : T) (a b : unit), fst (eqV E s a b) = Yes) ->
    forall (debug : bool) (na nb : nat) (ops_a ops_b : list (@sop K Q)) (sa sb : T) (la lb : list event),
    exists wa wb : world K unit T,
      smfinal E debug ops_a {| cb := sa; log := la; self := new_map na |} = Some wa /\
      smfinal E debug ops_b {| cb := sb; log := lb; self := new_map nb |} = Some wb /\
      cap (self wa) = na /\
      cap (self wb) = nb /\
      (forall w : world K unit T,
          wp (map_eq E (self wa) (self wb))
             (fun (r : bool) (w' : world K unit T) =>
                stable w w' /\
                (r = true <->
                 (forall c : N,
                     In c (List.map ck (fsfinal ck cq na ops_a [])) <->
                     In c (List.map ck (fsfinal ck cq nb ops_b [])))))
             (fun _ : world K unit T => False) w).
Proof. exact (@set_eq_histories). Qed.
Print Assumptions C14_set_eq_histories.

Theorem C14_set_eq_sym_run :
  forall (K Q T : Type) (E : env K unit Q T) (ck : K -> N) (cq : Q -> N),
    Lawful E ck cq ->
    (forall (s : T) (a b : unit), fst (eqV E s a b) = Yes) ->
    forall (a b : map K unit) (w : world K unit T),
      WF a -> WF b -> Uniq ck (Spec.elems a) -> Uniq ck (Spec.elems b) ->
      exists (r : bool) (w1 w2 : world K unit T),
        map_eq E a b w = Ok r w1 /\ map_eq E b a w = Ok r w2 /\ stable w w1 /\ stable w w2.
Proof. exact (@set_eq_sym_run). Qed.
Print Assumptions C14_set_eq_sym_run.

Theorem C14_set_eq_refl_run :
  forall (K Q T : Type) (E : env K unit Q T) (ck : K -> N) (cq : Q -> N),
    Lawful E ck cq ->
    (forall (s : T) (a b : unit), fst (eqV E s a b) = Yes) ->
    forall (a : map K unit) (w : world K unit T),
      WF a -> Uniq ck (Spec.elems a) ->
      exists w' : world K unit T, map_eq E a a w = Ok true w' /\ stable w w'.
Proof. exact (@set_eq_refl_run). Qed.
Print Assumptions C14_set_eq_refl_run.

(* two different set histories (other order, a removal, a duplicate insert, other
   objects, capacities 2 and 4) with the same ideal element classes {5, 6}: the
   model's results differ in slot order and capacity and compare equal *)
Example C14_example_set_histories :
  let E := env_set {| sc_adv := false; sc_seed := 0; sc_fk := 0; sc_fa := 0 |} in
  let w0 (n : nat) : world key unit cstate := {| cb := cs0; log := []; self := new_map n |} in
  let ops_a : list (@sop key query) := [SoInsert (k_ 1 5); SoInsert (k_ 2 6)] in
  let ops_b : list (@sop key query) :=
    [SoInsert (k_ 7 9); SoInsert (k_ 8 6); SoInsert (k_ 9 5); SoRemove (QCls 9); SoInsert (k_ 10 6)] in
  List.map kcls (fsfinal kcls qcls 2 ops_a []) = [5; 6]%N /\
  List.map kcls (fsfinal kcls qcls 4 ops_b []) = [6; 5]%N /\
  match smfinal E false ops_a (w0 2), smfinal E false ops_b (w0 4) with
  | Some wa, Some wb =>
      self wa = {| len := 2; slots := [Some (k_ 1 5, tt); Some (k_ 2 6, tt)] |} /\
      self wb = {| len := 2; slots := [Some (k_ 9 5, tt); Some (k_ 8 6, tt); None; None] |} /\
      match map_eq E (self wa) (self wb) (w0 0) with
      | Ok r w' => r = true /\ log w' = [] /\ self w' = new_map 0
      | _ => False
      end
  | _, _ => False
  end.
Proof. cbv zeta. split; [vm_compute; reflexivity|]. split; [vm_compute; reflexivity|]. vm_compute. repeat split; reflexivity. Qed.
