(* MoreDict.v — statements that close audit findings for C01, C05 and C13:
   - a lookup through a borrowed form q of a key k (cq q = ck k) answers, at EVERY
     lookup entry point (get, get_mut, get_key_value, contains_key, index,
     index_mut, remove, remove_entry), what the class of k determines;
   - the observers len / is_empty / get as OPERATIONS (not only on the abstraction),
     also after any history;
   - retain with a STATEFUL FnMut predicate (answers may depend on the visit
     order, the predicate may even panic): a list machine that threads the callback
     state, its relation to the pure l_retain and to the dictionary view;
   - every yielded key looks up (get / get_key_value as operations) the slot it was
     yielded from;
   - get_disjoint_mut on every REACHABLE state (Uniq discharged from reachability). *)
Require Import Model.Base Model.Slots Model.MapOps.
Require Import Proofs.Hoare Proofs.Inv Proofs.Spec Proofs.Lawful Proofs.Lawful2 Proofs.Lawful3
               Proofs.IterSpec Proofs.Dict Proofs.Dict2 Proofs.Disjoint.
From Coq Require Import Permutation.

(* ======================================================================== *)
(* 0. Observers that involve no callback: every environment, every state.   *)
Section Observers.
Context {K V T : Type}.
Notation world := (world K V T).

Lemma len_spec (w : world) : @length_ K V T w = Ok (len (self w)) w.
Proof. reflexivity. Qed.

Lemma is_empty_spec (w : world) : @is_empty K V T w = Ok (Nat.eqb (len (self w)) 0) w.
Proof. reflexivity. Qed.

Lemma capacity_spec (w : world) : @capacity K V T w = Ok (cap (self w)) w.
Proof. reflexivity. Qed.

(* is_empty() <-> len() == 0, as one statement about the two operations *)
Lemma is_empty_iff_len_zero (w : world) :
  exists b n, @is_empty K V T w = Ok b w /\ @length_ K V T w = Ok n w /\ (b = true <-> n = 0).
Proof.
  exists (Nat.eqb (len (self w)) 0), (len (self w)).
  split; [reflexivity|]. split; [reflexivity|]. apply Nat.eqb_eq.
Qed.

(* iterating to the end (any number of steps >= len) yields exactly len() items:
   the slots 0 .. len-1, each once; nothing is touched.  No environment, any V
   (V := unit is Set iteration; keys / values / iter_mut / values_mut are
   projections of the item at the yielded slot and share this cursor). *)
Lemma iter_run_all_count (n : nat) (w : world) :
  WF (self w) -> len (self w) <= n ->
  wp (c <- iter ;; iter_run n c)
     (fun r w' => length (fst r) = len (self w) /\ fst r = seq 0 (len (self w)) /\
                  cursor_len (snd r) = 0 /\ self w' = self w /\ log w' = log w)
     (fun _ => False) w.
Proof.
  intros Hw Hn. eapply wp_mono; [apply (iter_run_spec n w Hw) | | intros ? []]; cbn beta.
  intros r w' (Hs & Hl & Hr & Hc). rewrite Nat.min_r in Hr, Hc by exact Hn.
  split; [rewrite Hr; apply seq_length|]. split; [exact Hr|].
  split; [rewrite Hc; unfold cursor_len; cbn [fst snd]; lia|]. split; assumption.
Qed.

End Observers.

(* ======================================================================== *)
Section MoreDict.
Context {K V Q T : Type} (E : env K V Q T) (debug : bool).
Context (ck : K -> N) (cq : Q -> N) (HL : Lawful E ck cq).
Notation M := (M K V T). Notation world := (world K V T). Notation map := (map K V).
Notation kv := (K * V)%type.

(* ------------------------------------------------------------------------ *)
(* 1. Borrowed forms at every lookup entry point.                            *)

(* index / index_mut through two borrowed forms of the same class: same slot or
   both panic (the conjuncts missing from Dict.borrowed_same) *)
Lemma borrowed_same_index q1 q2 w :
  WF (self w) -> cq q1 = cq q2 ->
  (exists w1 w2, stable w w1 /\ stable w w2 /\
     match find_idx ck (cq q1) (elems (self w)) with
     | Some i => index E q1 w = Ok i w1 /\ index E q2 w = Ok i w2
     | None => index E q1 w = Panic w1 /\ index E q2 w = Panic w2
     end) /\
  (exists w1 w2, stable w w1 /\ stable w w2 /\
     match find_idx ck (cq q1) (elems (self w)) with
     | Some i => index_mut E q1 w = Ok i w1 /\ index_mut E q2 w = Ok i w2
     | None => index_mut E q1 w = Panic w1 /\ index_mut E q2 w = Panic w2
     end).
Proof.
  intros Hw Hq. split.
  - pose proof (index_lawful E ck cq HL q1 w Hw) as H1.
    pose proof (index_lawful E ck cq HL q2 w Hw) as H2. unfold wp in H1, H2.
    rewrite <- Hq in H2.
    destruct (index E q1 w) as [i1 w1|w1|]; [| |destruct H1];
      (destruct (index E q2 w) as [i2 w2|w2|]; [| |destruct H2]);
      destruct H1 as [Hs1 Hf1]; destruct H2 as [Hs2 Hf2]; rewrite Hf1 in *;
      try discriminate; exists w1, w2; (split; [exact Hs1|]); (split; [exact Hs2|]).
    + injection Hf2 as <-. split; reflexivity.
    + split; reflexivity.
  - pose proof (index_mut_lawful E ck cq HL q1 w Hw) as H1.
    pose proof (index_mut_lawful E ck cq HL q2 w Hw) as H2. unfold wp in H1, H2.
    rewrite <- Hq in H2.
    destruct (index_mut E q1 w) as [i1 w1|w1|]; [| |destruct H1];
      (destruct (index_mut E q2 w) as [i2 w2|w2|]; [| |destruct H2]);
      destruct H1 as [Hs1 Hf1]; destruct H2 as [Hs2 Hf2]; rewrite Hf1 in *;
      try discriminate; exists w1, w2; (split; [exact Hs1|]); (split; [exact Hs2|]).
    + injection Hf2 as <-. split; reflexivity.
    + split; reflexivity.
Qed.

(* THE "AS KEY" FORM.  q is a borrowed form of the key k (cq q = ck k).  Every
   lookup entry point called with q returns what the class of k determines:
   [find_idx ck (ck k) (elems (self w))] is the slot whose stored key equals k -
   the very slot insert k / insert_key_value k / entry(k) would hit (l_insert
   scans for the same class) - and [l_remove ck _ (ck k)] is the removal of k. *)
Theorem borrowed_as_key_all q k w :
  WF (self w) -> cq q = ck k ->
  let r := find_idx ck (ck k) (elems (self w)) in
  (exists w1, get E q w = Ok r w1 /\ stable w w1) /\
  (exists w1, get_mut E q w = Ok r w1 /\ stable w w1) /\
  (exists w1, get_key_value E q w = Ok r w1 /\ stable w w1) /\
  (exists w1, contains_key E q w = Ok (match r with Some _ => true | None => false end) w1 /\ stable w w1) /\
  (exists w1, stable w w1 /\
     index E q w = match r with Some i => Ok i w1 | None => Panic w1 end) /\
  (exists w1, stable w w1 /\
     index_mut E q w = match r with Some i => Ok i w1 | None => Panic w1 end) /\
  (exists w1, remove E debug q w = Ok (option_map snd (snd (l_remove ck (elems (self w)) (ck k)))) w1 /\
     WF (self w1) /\ cap (self w1) = cap (self w) /\
     elems (self w1) = fst (l_remove ck (elems (self w)) (ck k))) /\
  (exists w1, remove_entry E debug q w = Ok (snd (l_remove ck (elems (self w)) (ck k))) w1 /\
     WF (self w1) /\ cap (self w1) = cap (self w) /\
     elems (self w1) = fst (l_remove ck (elems (self w)) (ck k)) /\ log w1 = log w).
Proof.
  intros Hw Hq r. unfold r. rewrite <- Hq. repeat split.
  - destruct (d_wp_ok _ _ _ (get_lawful E ck cq HL q w Hw)) as (r1 & w1 & H1 & Hs1 & ->). eauto.
  - destruct (d_wp_ok _ _ _ (get_mut_lawful E ck cq HL q w Hw)) as (r1 & w1 & H1 & Hs1 & ->). eauto.
  - destruct (d_wp_ok _ _ _ (get_key_value_lawful E ck cq HL q w Hw)) as (r1 & w1 & H1 & Hs1 & ->). eauto.
  - destruct (d_wp_ok _ _ _ (contains_key_lawful E ck cq HL q w Hw)) as (r1 & w1 & H1 & Hs1 & ->). eauto.
  - pose proof (index_lawful E ck cq HL q w Hw) as H. unfold wp in H.
    destruct (index E q w) as [i w1|w1|]; [| |destruct H]; destruct H as [Hs Hf]; rewrite Hf; eauto.
  - pose proof (index_mut_lawful E ck cq HL q w Hw) as H. unfold wp in H.
    destruct (index_mut E q w) as [i w1|w1|]; [| |destruct H]; destruct H as [Hs Hf]; rewrite Hf; eauto.
  - destruct (d_wp_ok _ _ _ (remove_lawful E debug ck cq HL q w Hw)) as (r1 & w1 & H1 & Hw1 & Hc1 & He1 & -> & _).
    eauto 6.
  - destruct (d_wp_ok _ _ _ (remove_entry_lawful E debug ck cq HL q w Hw)) as (r1 & w1 & H1 & Hw1 & Hc1 & Hl1 & He1 & ->).
    eauto 8.
Qed.

(* ------------------------------------------------------------------------ *)
(* 2. get as an operation, composed with Abs; observers after any history.   *)

(* get(q), then dereference the returned reference: Option<(&K, &V)> as a value *)
Definition get_deref (q : Q) : M (option kv) :=
  r <- get E q ;; match r with None => ret None | Some i => p <- p_ref i ;; ret (Some p) end.

Lemma get_deref_abs q w d :
  Abs ck (self w) d ->
  wp (get_deref q) (fun r w' => stable w w' /\ r = d_find ck d (cq q)) (fun _ => False) w.
Proof.
  intros (Hw & Hu & Hp). unfold get_deref. apply wp_bind.
  eapply wp_mono; [apply (get_lawful E ck cq HL q w Hw) | | intros ? []]; cbn beta.
  intros r w1 [Hst ->]. pose proof Hst as [Hs1 _].
  destruct (find_idx ck (cq q) (elems (self w))) as [i|] eqn:Hf.
  - destruct (d_abs_some ck _ _ _ _ Hu Hp Hf) as (p & Hpi & _ & Hd). rewrite Hd.
    apply wp_bind. eapply d_wp_ref_at; [exact Hw | exact Hs1 | exact Hpi|]. apply wp_ret.
    split; [exact Hst | reflexivity].
  - destruct (d_abs_none ck _ _ _ Hu Hp Hf) as [Hd _]. rewrite Hd. apply wp_ret.
    split; [exact Hst | reflexivity].
Qed.

(* the slot get returns holds exactly the association the ideal dictionary finds *)
Lemma get_abs q w d :
  Abs ck (self w) d ->
  wp (get E q)
     (fun r w' => stable w w' /\
        match r with
        | Some i => exists p, nth_error (elems (self w)) i = Some p /\ d_find ck d (cq q) = Some p
        | None => d_find ck d (cq q) = None
        end) (fun _ => False) w.
Proof.
  intros (Hw & Hu & Hp).
  eapply wp_mono; [apply (get_lawful E ck cq HL q w Hw) | | intros ? []]; cbn beta.
  intros r w1 [Hst ->]. split; [exact Hst|].
  destruct (find_idx ck (cq q) (elems (self w))) as [i|] eqn:Hf.
  - destruct (d_abs_some ck _ _ _ _ Hu Hp Hf) as (p & Hpi & _ & Hd). eauto.
  - destruct (d_abs_none ck _ _ _ Hu Hp Hf) as [Hd _]. exact Hd.
Qed.

(* after ANY history from Map::new() of any capacity: len(), is_empty() and
   get(q) - the operations, run on the final world - answer exactly what the ideal
   dictionary after the same history answers *)
Theorem observers_after_history n ops s lg :
  exists wf, mfinal E debug ops {| cb := s; log := lg; self := new_map n |} = Some wf /\
    let d := dfinal ck cq n ops [] in
    @length_ K V T wf = Ok (length d) wf /\
    @is_empty K V T wf = Ok (match d with [] => true | _ => false end) wf /\
    @capacity K V T wf = Ok n wf /\
    length d <= n /\
    forall q, wp (get_deref q) (fun r w' => stable wf w' /\ r = d_find ck d (cq q)) (fun _ => False) wf.
Proof.
  destruct (run_refines_state_new E debug ck cq HL n ops s lg) as (wf & Hm & Ha & Hc).
  exists wf. split; [exact Hm|]. cbv zeta.
  split; [apply (abs_len_op ck wf _ Ha)|]. split; [apply (abs_is_empty_op ck wf _ Ha)|].
  split; [rewrite <- Hc; reflexivity|].
  split; [rewrite <- (abs_len ck wf _ Ha), <- Hc; apply (len_le_cap ck wf _ Ha)|].
  intros q. apply get_deref_abs. exact Ha.
Qed.

(* ------------------------------------------------------------------------ *)
(* 3. retain with a STATEFUL FnMut predicate.
      [f : pred_t] reads and updates the callback state, so its answers may
      depend on the order of the visits; it may rewrite the value; it may panic
      (answer None).  The list machine below threads the callback state through
      the predicate AND through the Drop of every rejected entry, exactly as the
      code does, and records every call.                                      *)

(* one call of the predicate: key and value passed, answer (None = it panicked),
   value it left in the slot *)
Definition rcall := (K * V * option bool * V)%type.
Definition rc_arg (c : rcall) : kv := (fst (fst (fst c)), snd (fst (fst c))).
Definition rc_ans (c : rcall) : option bool := snd (fst c).
(* what the call leaves in the container *)
Definition rc_kept (c : rcall) : list kv :=
  match rc_ans c with Some true => [(fst (fst (fst c)), snd c)] | _ => [] end.
(* what the call logs: the call itself, then the destruction of a rejected entry *)
Definition rc_events (c : rcall) : list event :=
  EvCall 0 :: match rc_ans c with
              | Some false => ev_drops (idK E (fst (fst (fst c))) ++ idV E (snd c))
              | _ => []
              end.

Record rt_out := { rt_list : list kv; rt_cb : T; rt_log : list event; rt_calls : list rcall; rt_ok : bool }.
Definition rt_end (ok : bool) (l : list kv) (s : T) : rt_out :=
  {| rt_list := l; rt_cb := s; rt_log := []; rt_calls := []; rt_ok := ok |}.
Definition rt_cons (c : rcall) (o : rt_out) : rt_out :=
  {| rt_list := rt_list o; rt_cb := rt_cb o; rt_log := rc_events c ++ rt_log o;
     rt_calls := c :: rt_calls o; rt_ok := rt_ok o |}.

(* THE SPECIFICATION of the traversal: position i is visited; a kept entry moves
   the position on; a rejected entry is swap-removed (the last entry takes its
   place and is visited next) and destroyed; a panicking call stops everything,
   leaving the value the predicate wrote. *)
Fixpoint l_retain_st (f : pred_t) (fuel i : nat) (s : T) (l : list kv) : rt_out :=
  match fuel with
  | 0 => rt_end true l s
  | S fu =>
      match nth_error l i with
      | None => rt_end true l s
      | Some (k, v) =>
          match f s k v with
          | ((r, v'), s1) =>
              let l1 := upd l i (k, v') in
              match r with
              | None => rt_cons (k, v, None, v') (rt_end false l1 s1)
              | Some true => rt_cons (k, v, Some true, v') (l_retain_st f fu (S i) s1 l1)
              | Some false =>
                  rt_cons (k, v, Some false, v')
                    (l_retain_st f fu i (snd (dropV E (snd (dropK E s1 k)) v')) (swap_remove l1 i))
              end
          end
      end
  end.

Definition rt_post (o : rt_out) (w : world) (ok : bool) (w' : world) : Prop :=
  rt_ok o = ok /\ WF (self w') /\ cap (self w') = cap (self w) /\
  elems (self w') = rt_list o /\ cb w' = rt_cb o /\ log w' = log w ++ rt_log o.

Lemma rt_post_cons c o w w1 ok w' :
  cap (self w1) = cap (self w) -> log w1 = log w ++ rc_events c ->
  rt_post o w1 ok w' -> rt_post (rt_cons c o) w ok w'.
Proof.
  intros Hc Hl (Hok & Hw' & Hc' & He' & Hcb' & Hl'). unfold rt_post, rt_cons.
  cbn [rt_ok rt_list rt_cb rt_log].
  split; [exact Hok|]. split; [exact Hw'|]. split; [congruence|]. split; [exact He'|].
  split; [exact Hcb'|]. rewrite Hl', Hl, app_assoc. reflexivity.
Qed.

Lemma wp_call_pred_gen (f : pred_t) i k v (Qn : bool -> world -> Prop) (Qp : world -> Prop) w :
  nth_error (slots (self w)) i = Some (Some (k, v)) ->
  (forall r v' s1, f (cb w) k v = ((r, v'), s1) ->
     let w1 := {| cb := s1; log := log w ++ [EvCall 0]; self := set_slot_m (self w) i (Some (k, v')) |} in
     match r with Some b => Qn b w1 | None => Qp w1 end) ->
  wp (call_pred f i) Qn Qp w.
Proof.
  intros Hp HQ. unfold call_pred. apply wp_bind. eapply wp_p_ref; [exact Hp|].
  unfold wp. cbn [fst snd]. destruct (f (cb w) k v) as [[r v'] s1] eqn:Hf.
  specialize (HQ r v' s1 eq_refl). cbv zeta in HQ. destruct r; exact HQ.
Qed.

Lemma drop_pair_lawful_cb p w :
  wp (drop_pair E p)
     (fun _ w' => self w' = self w /\ log w' = log w ++ ev_drops (idK E (fst p) ++ idV E (snd p)) /\
                  cb w' = snd (dropV E (snd (dropK E (cb w) (fst p))) (snd p)))
     (fun _ => False) w.
Proof.
  unfold drop_pair. apply wp_bind. apply wp_emit. apply wp_bind. apply wp_cbd_eq.
  rewrite (law_dropK E ck cq HL). apply wp_bind. apply wp_cbd_eq.
  rewrite (law_dropV E ck cq HL). cbn [orb]. apply wp_ret. simp_w.
  split; [reflexivity|]. split; reflexivity.
Qed.

Lemma retain_loop_stateful (f : pred_t) : forall fuel i w,
  WF (self w) -> len (self w) - i <= fuel ->
  wp (retain_loop E debug f fuel i)
     (fun _ w' => rt_post (l_retain_st f fuel i (cb w) (elems (self w))) w true w')
     (fun w' => rt_post (l_retain_st f fuel i (cb w) (elems (self w))) w false w') w.
Proof.
  induction fuel as [|fuel IH]; intros i w Hw Hfu.
  - cbn [retain_loop]. apply wp_bind. apply wp_get_len.
    destruct (Nat.ltb_spec i (len (self w))) as [Hi|Hi]; [lia|].
    apply wp_ret. cbn [l_retain_st]. unfold rt_post, rt_end. cbn [rt_ok rt_list rt_cb rt_log].
    rewrite app_nil_r. repeat split; try reflexivity; apply Hw.
  - cbn [retain_loop]. apply wp_bind. apply wp_get_len.
    destruct (Nat.ltb_spec i (len (self w))) as [Hi|Hi].
    + destruct (WF_live _ _ Hw Hi) as [[k v] Hp].
      assert (Hpe : nth_error (elems (self w)) i = Some (k, v)) by (apply elems_nth; auto).
      assert (Hic : i < cap (self w)) by (apply live_lt_cap; eexists; exact Hp).
      cbn [l_retain_st]. rewrite Hpe.
      apply wp_bind. eapply wp_call_pred_gen; [exact Hp|]. intros r v' s1 Hfk. rewrite Hfk.
      intros w1.
      assert (Hw1 : WF (self w1)) by (unfold w1; simp_w; apply WF_set_slot_some; auto).
      assert (He1 : elems (self w1) = upd (elems (self w)) i (k, v'))
        by (unfold w1; simp_w; apply elems_set_slot; auto).
      assert (Hc1 : cap (self w1) = cap (self w)) by (unfold w1; simp_w; apply cap_set_slot).
      assert (Hn1 : len (self w1) = len (self w)) by reflexivity.
      assert (Hcb1 : cb w1 = s1) by reflexivity.
      assert (Hl1 : log w1 = log w ++ [EvCall 0]) by reflexivity.
      clearbody w1.
      destruct r as [[|]|].
      * pose proof (IH (S i) w1 Hw1 ltac:(lia)) as HI. rewrite Hcb1, He1 in HI.
        eapply wp_mono; [exact HI | |]; cbn beta.
        -- intros _ w' Hpost. eapply rt_post_cons; [exact Hc1 | exact Hl1 | exact Hpost].
        -- intros w' Hpost. eapply rt_post_cons; [exact Hc1 | exact Hl1 | exact Hpost].
      * apply wp_bind. unfold remove_index_drop. apply wp_bind.
        eapply wp_mono; [apply (remove_index_read_elems debug i w1 Hw1); lia | | intros ? []]; cbn beta.
        intros p w2 (Hw2 & Hc2 & Hl2 & Hcb2 & Hp2 & He2).
        assert (Hpp : p = (k, v')).
        { rewrite He1, nth_error_upd_eq in Hp2; [congruence|].
          rewrite (elems_length _ Hw). exact Hi. }
        subst p.
        eapply wp_mono; [apply drop_pair_lawful_cb | | intros ? []]; cbn beta.
        intros _ w3 (Hs3 & Hl3 & Hcb3). cbn [fst snd] in Hl3, Hcb3.
        assert (Hn3 : len (self w3) = len (self w) - 1).
        { rewrite Hs3. rewrite <- (elems_length _ Hw2), He2, swap_remove_length.
          - rewrite (elems_length _ Hw1). lia.
          - intros Hnil. pose proof (elems_length _ Hw1) as Hx. rewrite Hnil in Hx. cbn [length] in Hx. lia. }
        assert (Hw3 : WF (self w3)) by (rewrite Hs3; exact Hw2).
        pose proof (IH i w3 Hw3 ltac:(lia)) as HI.
        rewrite Hcb3, Hcb2, Hcb1, Hs3, He2, He1 in HI.
        assert (Hc3 : cap (self w3) = cap (self w)) by congruence.
        assert (Hlg3 : log w3 = log w ++ rc_events (k, v, Some false, v')).
        { rewrite Hl3, Hl2, Hl1, <- app_assoc. reflexivity. }
        eapply wp_mono; [exact HI | |]; cbn beta.
        -- intros _ w' Hpost. eapply rt_post_cons; [exact Hc3 | exact Hlg3 | exact Hpost].
        -- intros w' Hpost. eapply rt_post_cons; [exact Hc3 | exact Hlg3 | exact Hpost].
      * eapply rt_post_cons; [exact Hc1 | exact Hl1 |].
        unfold rt_post, rt_end. cbn [rt_ok rt_list rt_cb rt_log]. rewrite app_nil_r.
        split; [reflexivity|]. split; [exact Hw1|]. split; [reflexivity|]. split; [exact He1|].
        split; [exact Hcb1 | reflexivity].
    + apply wp_ret. cbn [l_retain_st].
      assert (Hnone : nth_error (elems (self w)) i = None).
      { apply nth_error_None. rewrite (elems_length _ Hw). exact Hi. }
      rewrite Hnone. unfold rt_post, rt_end. cbn [rt_ok rt_list rt_cb rt_log].
      rewrite app_nil_r. repeat split; try reflexivity; apply Hw.
Qed.

(* retain(f) for ANY predicate f: the container, the callback state and the log
   afterwards are those of the traversal specification; it returns iff no call
   panicked, and on a panic the state is the one reached at the panicking call *)
Theorem retain_stateful (f : pred_t) w :
  WF (self w) ->
  wp (retain E debug f)
     (fun _ w' => rt_post (l_retain_st f (length (elems (self w))) 0 (cb w) (elems (self w))) w true w')
     (fun w' => rt_post (l_retain_st f (length (elems (self w))) 0 (cb w) (elems (self w))) w false w') w.
Proof.
  intros Hw. unfold retain. apply wp_bind. apply wp_get_len.
  rewrite (elems_length _ Hw). apply (retain_loop_stateful f); [exact Hw | lia].
Qed.

(* ---- pure facts about the traversal specification ---- *)

(* the log is: per call, in call order, EvCall 0 and - for a rejected entry - its
   destruction: the predicate is called exactly once per recorded call *)
Lemma l_retain_st_log (f : pred_t) : forall fuel i s l,
  rt_log (l_retain_st f fuel i s l) = flat_map rc_events (rt_calls (l_retain_st f fuel i s l)).
Proof.
  induction fuel as [|fuel IH]; intros i s l; cbn [l_retain_st]; [reflexivity|].
  destruct (nth_error l i) as [[k v]|]; [|reflexivity].
  destruct (f s k v) as [[r v'] s1]. destruct r as [[|]|]; cbn [rt_cons rt_log rt_calls flat_map].
  - rewrite IH. reflexivity.
  - rewrite IH. reflexivity.
  - reflexivity.
Qed.

(* a state-independent, non-panicking predicate: the stateful specification is
   Lawful3.l_retain (the specification used by Dict.dstep's DRetain) *)
Lemma l_retain_st_pure (f : pred_t) (g : K -> V -> bool * V) :
  (forall s k v, fst (f s k v) = (Some (fst (g k v)), snd (g k v))) ->
  forall fuel i s l,
    rt_list (l_retain_st f fuel i s l) = l_retain g fuel i l /\ rt_ok (l_retain_st f fuel i s l) = true.
Proof.
  intros Hf. induction fuel as [|fuel IH]; intros i s l; cbn [l_retain_st l_retain]; [split; reflexivity|].
  destruct (nth_error l i) as [[k v]|]; [|split; reflexivity].
  pose proof (Hf s k v) as Hfk. destruct (f s k v) as [[r v'] s1]. cbn [fst] in Hfk.
  destruct (g k v) as [keep v'']. cbn [fst snd] in Hfk. injection Hfk as -> ->.
  destruct keep; cbn [rt_cons rt_list rt_ok]; apply IH.
Qed.

(* when no call panicked: every entry was passed to the predicate exactly once
   (with the key and the value it had), and what is left is exactly the entries
   whose answer - the answer ACTUALLY given at that point of the traversal - was
   true, each with the value the predicate left *)
Lemma l_retain_st_perm (f : pred_t) : forall fuel (l1 l2 : list kv) s,
  length l2 <= fuel ->
  rt_ok (l_retain_st f fuel (length l1) s (l1 ++ l2)) = true ->
  Permutation (List.map rc_arg (rt_calls (l_retain_st f fuel (length l1) s (l1 ++ l2)))) l2 /\
  Permutation (rt_list (l_retain_st f fuel (length l1) s (l1 ++ l2)))
              (l1 ++ flat_map rc_kept (rt_calls (l_retain_st f fuel (length l1) s (l1 ++ l2)))).
Proof.
  induction fuel as [|fuel IH]; intros l1 l2 s Hf Hok.
  - destruct l2 as [|a t]; [|cbn [length] in Hf; lia]. cbn [l_retain_st rt_end rt_calls rt_list List.map flat_map].
    split; [apply perm_nil | apply Permutation_refl].
  - cbn [l_retain_st] in *. destruct l2 as [|[k v] t].
    + rewrite app_nil_r in *.
      assert (Hn : nth_error l1 (length l1) = None) by (apply nth_error_None; lia).
      rewrite Hn. cbn [rt_end rt_calls rt_list List.map flat_map]. rewrite app_nil_r.
      split; [apply perm_nil | apply Permutation_refl].
    + cbn [length] in Hf. rewrite d_nth_app in *.
      destruct (f s k v) as [[r v'] s1]. rewrite d_upd_app in *.
      destruct r as [[|]|]; cbn [rt_cons rt_ok rt_calls rt_list List.map flat_map] in *.
      * replace (l1 ++ (k, v') :: t) with ((l1 ++ [(k, v')]) ++ t) in * by (rewrite <- app_assoc; reflexivity).
        replace (S (length l1)) with (length (l1 ++ [(k, v')])) in * by (rewrite app_length; cbn [length]; lia).
        destruct (IH (l1 ++ [(k, v')]) t s1 ltac:(lia) Hok) as [IH1 IH2].
        split.
        -- unfold rc_arg at 1. cbn [fst snd]. apply perm_skip. exact IH1.
        -- eapply perm_trans; [exact IH2|]. rewrite <- app_assoc. apply Permutation_refl.
      * destruct (d_rev_case t) as [->|[t' [z ->]]].
        -- rewrite (d_swap_remove_snoc l1 (k, v') (length l1)), Nat.eqb_refl in *.
           pose proof (IH l1 [] (snd (dropV E (snd (dropK E s1 k)) v')) ltac:(cbn [length]; lia)) as IH0.
           rewrite app_nil_r in IH0. destruct (IH0 Hok) as [IH1 IH2].
           split.
           ++ unfold rc_arg at 1. cbn [fst snd]. apply perm_skip. exact IH1.
           ++ exact IH2.
        -- rewrite app_length in Hf. cbn [length] in Hf.
           replace (l1 ++ (k, v') :: t' ++ [z]) with ((l1 ++ (k, v') :: t') ++ [z]) in *
             by (rewrite <- app_assoc; reflexivity).
           rewrite d_swap_remove_snoc in *.
           destruct (Nat.eqb_spec (length l1) (length (l1 ++ (k, v') :: t'))) as [He|_];
             [rewrite app_length in He; cbn [length] in He; lia|].
           rewrite d_upd_app in *.
           destruct (IH l1 (z :: t') (snd (dropV E (snd (dropK E s1 k)) v')) ltac:(cbn [length]; lia) Hok) as [IH1 IH2].
           split.
           ++ unfold rc_arg at 1. cbn [fst snd]. apply perm_skip.
              eapply perm_trans; [exact IH1|]. apply Permutation_cons_append.
           ++ exact IH2.
      * discriminate Hok.
Qed.

Lemma rc_kept_classes (cs : list rcall) c :
  In c (List.map (fun p : kv => ck (fst p)) (flat_map rc_kept cs)) ->
  In c (List.map (fun p : kv => ck (fst p)) (List.map rc_arg cs)).
Proof.
  induction cs as [|[[[k v] a] v'] t IH]; cbn [flat_map List.map]; [auto|].
  rewrite map_app, in_app_iff. unfold rc_kept at 1, rc_arg at 1, rc_ans. cbn [fst snd]. intros [H|H].
  - destruct a as [[|]|]; cbn [List.map In fst] in H.
    + destruct H as [H|[]]. left. exact H.
    + destruct H.
    + destruct H.
  - right. apply IH. exact H.
Qed.

Lemma rc_kept_uniq (cs : list rcall) :
  Uniq ck (List.map rc_arg cs) -> Uniq ck (flat_map rc_kept cs).
Proof.
  induction cs as [|[[[k v] a] v'] t IH]; intros Hu; cbn [flat_map List.map] in *; [exact Hu|].
  apply (d_Uniq_cons ck) in Hu. destruct Hu as [Hn Hu]. unfold rc_arg at 1 in Hn. cbn [fst snd] in Hn.
  unfold rc_kept at 1, rc_ans. cbn [fst snd]. destruct a as [[|]|]; cbn [app]; try (apply IH; exact Hu).
  apply (d_Uniq_cons ck). cbn [fst]. split; [|apply IH; exact Hu].
  intros Hin. apply Hn. apply rc_kept_classes. exact Hin.
Qed.

(* the whole traversal, from position 0 *)
Theorem l_retain_st_once (f : pred_t) s (l : list kv) :
  let o := l_retain_st f (length l) 0 s l in
  rt_log o = flat_map rc_events (rt_calls o) /\
  (rt_ok o = true ->
     Permutation (List.map rc_arg (rt_calls o)) l /\
     length (rt_calls o) = length l /\
     Permutation (rt_list o) (flat_map rc_kept (rt_calls o))).
Proof.
  cbv zeta. split; [apply l_retain_st_log|]. intros Hok.
  destruct (l_retain_st_perm f (length l) [] l s (le_n _) Hok) as [H1 H2]. cbn [app length] in H1, H2.
  split; [exact H1|]. split; [|exact H2].
  pose proof (Permutation_length H1) as Hlen. rewrite map_length in Hlen. exact Hlen.
Qed.

(* dictionary level: retain with a stateful predicate on a container that
   represents d.  On return the predicate has been called exactly once on every
   association of d, and the container represents the associations it answered
   true for, with the values it left; if a call panics the container is still
   well-formed, same capacity (the state is rt_list of the specification). *)
Theorem retain_stateful_abs (f : pred_t) w d :
  Abs ck (self w) d ->
  let o := l_retain_st f (length (elems (self w))) 0 (cb w) (elems (self w)) in
  wp (retain E debug f)
     (fun _ w' => Permutation (List.map rc_arg (rt_calls o)) d /\
                  Abs ck (self w') (flat_map rc_kept (rt_calls o)) /\
                  cap (self w') = cap (self w) /\ cb w' = rt_cb o /\
                  log w' = log w ++ flat_map rc_events (rt_calls o))
     (fun w' => rt_post o w false w') w.
Proof.
  intros (Hw & Hu & Hp) o.
  eapply wp_mono; [apply (retain_stateful f w Hw) | | intros w' H; exact H]; cbn beta.
  fold o. intros _ w' (Hok & Hw' & Hc' & He' & Hcb' & Hl').
  destruct (l_retain_st_once f (cb w) (elems (self w))) as [Hlog Hperm]. fold o in Hlog, Hperm.
  destruct (Hperm Hok) as (H1 & _ & H2).
  split; [eapply perm_trans; [exact H1 | exact Hp]|].
  split; [|split; [exact Hc'|split; [exact Hcb' | rewrite Hl', Hlog; reflexivity]]].
  assert (Huk : Uniq ck (flat_map rc_kept (rt_calls o))).
  { apply rc_kept_uniq. eapply (d_Uniq_perm ck); [apply Permutation_sym; exact H1 | exact Hu]. }
  split; [exact Hw'|]. rewrite He'. split; [|exact H2].
  eapply (d_Uniq_perm ck); [apply Permutation_sym; exact H2 | exact Huk].
Qed.

(* ------------------------------------------------------------------------ *)
(* 5. Every yielded key looks up the slot it was yielded from.               *)

Lemma find_idx_uniq_nth (l : list kv) i p :
  Uniq ck l -> nth_error l i = Some p -> find_idx ck (ck (fst p)) l = Some i.
Proof.
  intros Hu Hi. apply (find_idx_some ck (ck (fst p)) l i p Hi eq_refl).
  intros j q Hj Hq Hc. unfold Uniq in Hu.
  assert (Hlen : i < length l) by (apply nth_error_Some; rewrite Hi; discriminate).
  assert (Hj' : j < length l) by lia.
  pose proof (proj1 (NoDup_nth_error (List.map (fun p : kv => ck (fst p)) l)) Hu j i) as Hnd.
  rewrite map_length in Hnd. specialize (Hnd Hj').
  rewrite (map_nth_error (fun p : kv => ck (fst p)) _ _ Hq),
          (map_nth_error (fun p : kv => ck (fst p)) _ _ Hi) in Hnd.
  specialize (Hnd (f_equal Some Hc)). lia.
Qed.

(* iteration yields slot i with pair p; a lookup by (any borrowed form of) the
   yielded key returns a reference into slot i: the pair yielded with it *)
Theorem yielded_get q i p w :
  WF (self w) -> Uniq ck (elems (self w)) ->
  nth_error (elems (self w)) i = Some p -> cq q = ck (fst p) ->
  wp (get E q) (fun r w' => r = Some i /\ stable w w') (fun _ => False) w.
Proof.
  intros Hw Hu Hi Hq.
  eapply wp_mono; [apply (get_lawful E ck cq HL q w Hw) | | intros ? []]; cbn beta.
  intros r w' [Hst ->]. rewrite Hq, (find_idx_uniq_nth _ _ _ Hu Hi). split; [reflexivity | exact Hst].
Qed.

Theorem yielded_get_key_value q i p w :
  WF (self w) -> Uniq ck (elems (self w)) ->
  nth_error (elems (self w)) i = Some p -> cq q = ck (fst p) ->
  wp (get_key_value E q) (fun r w' => r = Some i /\ stable w w') (fun _ => False) w.
Proof.
  intros Hw Hu Hi Hq.
  eapply wp_mono; [apply (get_key_value_lawful E ck cq HL q w Hw) | | intros ? []]; cbn beta.
  intros r w' [Hst ->]. rewrite Hq, (find_idx_uniq_nth _ _ _ Hu Hi). split; [reflexivity | exact Hst].
Qed.

Theorem yielded_get_mut q i p w :
  WF (self w) -> Uniq ck (elems (self w)) ->
  nth_error (elems (self w)) i = Some p -> cq q = ck (fst p) ->
  wp (get_mut E q) (fun r w' => r = Some i /\ stable w w') (fun _ => False) w.
Proof.
  intros Hw Hu Hi Hq.
  eapply wp_mono; [apply (get_mut_lawful E ck cq HL q w Hw) | | intros ? []]; cbn beta.
  intros r w' [Hst ->]. rewrite Hq, (find_idx_uniq_nth _ _ _ Hu Hi). split; [reflexivity | exact Hst].
Qed.

(* ... and dereferencing it gives the very pair (key object and value) yielded *)
Theorem yielded_get_deref q i p w :
  WF (self w) -> Uniq ck (elems (self w)) ->
  nth_error (elems (self w)) i = Some p -> cq q = ck (fst p) ->
  wp (get_deref q) (fun r w' => r = Some p /\ stable w w') (fun _ => False) w.
Proof.
  intros Hw Hu Hi Hq. unfold get_deref. apply wp_bind.
  eapply wp_mono; [apply (yielded_get q i p w Hw Hu Hi Hq) | | intros ? []]; cbn beta.
  intros r w1 [-> Hst]. pose proof Hst as [Hs1 _].
  apply wp_bind. eapply d_wp_ref_at; [exact Hw | exact Hs1 | exact Hi|]. apply wp_ret.
  split; [reflexivity | exact Hst].
Qed.

(* the same on every state reached from Map::new(): Uniq and WF are discharged
   from reachability *)
Theorem yielded_get_reachable n ops s lg :
  exists wf, mfinal E debug ops {| cb := s; log := lg; self := new_map n |} = Some wf /\
    forall q i p, nth_error (elems (self wf)) i = Some p -> cq q = ck (fst p) ->
      wp (get E q) (fun r w' => r = Some i /\ stable wf w') (fun _ => False) wf /\
      wp (get_key_value E q) (fun r w' => r = Some i /\ stable wf w') (fun _ => False) wf /\
      wp (get_deref q) (fun r w' => r = Some p /\ stable wf w') (fun _ => False) wf.
Proof.
  destruct (run_refines_state_new E debug ck cq HL n ops s lg) as (wf & Hm & (Hw & Hu & _) & _).
  exists wf. split; [exact Hm|]. intros q i p Hi Hq.
  split; [apply (yielded_get q i p wf Hw Hu Hi Hq)|].
  split; [apply (yielded_get_key_value q i p wf Hw Hu Hi Hq) | apply (yielded_get_deref q i p wf Hw Hu Hi Hq)].
Qed.

(* ------------------------------------------------------------------------ *)
(* 8. get_disjoint_mut on every reachable state.                             *)

Definition disjoint_post (ks : list Q) (w : world) (r : list (option nat)) (w' : world) : Prop :=
  stable w w' /\ r = List.map (fun q : Q => find_idx ck (cq q) (elems (self w))) ks.

(* from any represented state, after any history of the 13 operations *)
Theorem disjoint_lawful_after n ops w d ks :
  Abs ck (self w) d -> cap (self w) = n -> NoDup (List.map cq ks) ->
  exists wf, mfinal E debug ops w = Some wf /\
    wp (get_disjoint_mut E ks) (disjoint_post ks wf) (fun _ => False) wf /\
    wp (get_disjoint_unchecked_mut E ks) (disjoint_post ks wf) (fun _ => False) wf.
Proof.
  intros Ha Hc Hnd.
  destruct (run_refines_state E debug ck cq HL n ops w d Ha Hc) as (wf & Hm & (Hw & Hu & _) & _).
  exists wf. split; [exact Hm|].
  split; [apply (disjoint_lawful E ck cq HL ks wf Hw Hu Hnd) | apply (disjoint_unchecked_lawful E ck cq HL ks wf Hw Hu Hnd)].
Qed.

(* every state reachable from Map::new(), every capacity *)
Theorem disjoint_lawful_reachable n ops s lg ks :
  NoDup (List.map cq ks) ->
  exists wf, mfinal E debug ops {| cb := s; log := lg; self := new_map n |} = Some wf /\
    wp (get_disjoint_mut E ks) (disjoint_post ks wf) (fun _ => False) wf /\
    wp (get_disjoint_unchecked_mut E ks) (disjoint_post ks wf) (fun _ => False) wf.
Proof.
  intros Hnd. apply (disjoint_lawful_after n ops _ []); cbn [self]; [apply Abs_new | apply cap_new | exact Hnd].
Qed.

Theorem disjoint_overlap_panics_reachable n ops s lg ks :
  ~ NoDup (List.map cq ks) ->
  exists wf, mfinal E debug ops {| cb := s; log := lg; self := new_map n |} = Some wf /\
    wp (get_disjoint_mut E ks) (fun _ _ => False) (fun w' => stable wf w') wf.
Proof.
  intros Hnd.
  destruct (run_refines_state_new E debug ck cq HL n ops s lg) as (wf & Hm & (Hw & _) & _).
  exists wf. split; [exact Hm|]. apply (disjoint_overlap_panics E ck cq HL ks wf Hw Hnd).
Qed.

(* the same over the extended histories of Dict2 (drain, whole-container iteration,
   entry(k).or_insert(v) and extend interleaved with the 13 operations) *)
Theorem disjoint_reachable2 n ops s lg ks :
  exists wf, mfinal2 E debug ops {| cb := s; log := lg; self := new_map n |} = Some wf /\
    (NoDup (List.map cq ks) ->
       wp (get_disjoint_mut E ks) (disjoint_post ks wf) (fun _ => False) wf) /\
    (~ NoDup (List.map cq ks) ->
       wp (get_disjoint_mut E ks) (fun _ _ => False) (fun w' => stable wf w') wf).
Proof.
  destruct (run2_refines_new E debug ck cq HL n ops s lg) as (wf & df & Hm & _ & (Hw & Hu & _) & _).
  exists wf. split; [exact Hm|]. split; intros Hnd.
  - apply (disjoint_lawful E ck cq HL ks wf Hw Hu Hnd).
  - apply (disjoint_overlap_panics E ck cq HL ks wf Hw Hnd).
Qed.

End MoreDict.

(* ######################################################################## *)
(* SECOND ROUND                                                              *)
(* ######################################################################## *)
Require Import Model.SetOps Model.Exec.
Require Import Proofs.Safety2 Proofs.SetDict Proofs.FmtSerde Proofs.ExecSafe Proofs.ExecUniq Proofs.MoreOwned.
(* Model.Exec defines its own [elems]; below it always means the live prefix of Spec.v *)
Local Notation elems := Spec.elems (only parsing).

Section Round2.
Context {K V Q T : Type} (E : env K V Q T) (debug : bool).
Context (ck : K -> N) (cq : Q -> N) (HL : Lawful E ck cq).
Notation M := (M K V T). Notation world := (world K V T). Notation map := (map K V).
Notation kv := (K * V)%type.
Notation dict := (@dict K V).

(* ------------------------------------------------------------------------ *)
(* R1. the observers after a dop2 history (drain / iteration / entry / extend
       interleaved): against the final state df of the run of the relational
       specification that the model's results follow                          *)
Theorem observers_after_history2 n (ops : list (@dop2 K V Q)) s lg :
  let w0 := {| cb := s; log := lg; self := new_map n |} in
  exists wf df, mfinal2 E debug ops w0 = Some wf /\
    druns2 ck cq n ops [] (mrun2 E debug ops w0) df /\
    @length_ K V T wf = Ok (length df) wf /\
    @is_empty K V T wf = Ok (match df with [] => true | _ => false end) wf /\
    @capacity K V T wf = Ok n wf /\
    length df <= n /\
    forall q, wp (get_deref E q) (fun r w' => stable wf w' /\ r = d_find ck df (cq q)) (fun _ => False) wf.
Proof.
  intros w0.
  destruct (run2_refines_new E debug ck cq HL n ops s lg) as (wf & df & Hm & Hr & Ha & Hc).
  exists wf, df. split; [exact Hm|]. split; [exact Hr|].
  split; [apply (abs_len_op ck wf _ Ha)|]. split; [apply (abs_is_empty_op ck wf _ Ha)|].
  split; [rewrite <- Hc; reflexivity|].
  split; [rewrite <- (abs_len ck wf _ Ha), <- Hc; apply (len_le_cap ck wf _ Ha)|].
  intros q. apply (get_deref_abs E ck cq HL). exact Ha.
Qed.

(* ------------------------------------------------------------------------ *)
(* R2. stateful retain INSIDE a history.                                     *)

(* the traversal specification never changes a key and never duplicates one *)
Lemma Uniq_upd_same_key (l : list kv) i k v v' :
  nth_error l i = Some (k, v) -> Uniq ck l -> Uniq ck (upd l i (k, v')).
Proof.
  intros Hi Hu. unfold Uniq. rewrite d_map_upd. rewrite d_upd_same; [exact Hu|]. cbn [fst].
  apply (map_nth_error (fun p : kv => ck (fst p)) _ _ Hi).
Qed.

Lemma l_retain_st_uniq (f : pred_t) : forall fuel i s (l : list kv),
  Uniq ck l -> Uniq ck (rt_list (l_retain_st E f fuel i s l)).
Proof.
  induction fuel as [|fuel IH]; intros i s l Hu; cbn [l_retain_st]; [exact Hu|].
  destruct (nth_error l i) as [[k v]|] eqn:Hi; [|exact Hu].
  destruct (f s k v) as [[r v'] s1].
  pose proof (Uniq_upd_same_key l i k v v' Hi Hu) as Hu1.
  destruct r as [[|]|]; cbn [rt_cons rt_list rt_end].
  - apply IH. exact Hu1.
  - apply IH.
    assert (Hi1 : nth_error (upd l i (k, v')) i = Some (k, v')).
    { apply nth_error_upd_eq. apply nth_error_Some. rewrite Hi. discriminate. }
    exact (proj1 (d_abs_del ck _ _ (ck k) i (k, v') Hu1 (Permutation_refl _) Hi1 eq_refl)).
  - exact Hu1.
Qed.

(* operations: the extended operations of Dict2, plus retain with ANY predicate
   (stateful, value-rewriting, possibly panicking) *)
Inductive dop3 := D3Base (o : @dop2 K V Q) | D3RetainF (f : @pred_t K V T).
Inductive dres3 := R3Base (r : @dres2 K V) | R3Unit | R3Panic.

Definition mstep3 (o : dop3) : M dres3 :=
  match o with
  | D3Base o => r <- mstep2 E debug o ;; ret (R3Base r)
  | D3RetainF f => retain E debug f ;; ret R3Unit
  end.

Definition panic_res3 (o : dop3) : dres3 :=
  match o with D3Base _ => R3Base RPanic2 | D3RetainF _ => R3Panic end.

(* THE SPECIFICATION of one step (a relation, as dstep2).  retain(f) on the ideal
   dictionary d: run the traversal specification l_retain_st on SOME enumeration
   l of d, from SOME callback state s (in the model: the slot order and the
   callback state at that moment: step3_refines_retain); the new dictionary is
   what the traversal leaves, the call panics iff a call of f panicked.
   What the traversal does to the associations is l_retain_st_once: f is called
   exactly once per association, the survivors are those it answered true for. *)
Definition dstep3 (n : nat) (o : dop3) (d : dict) (r : dres3) (d' : dict) : Prop :=
  match o with
  | D3Base o => exists r2, dstep2 ck cq n o d r2 d' /\ r = R3Base r2
  | D3RetainF f =>
      exists s l, Permutation l d /\
        Permutation (rt_list (l_retain_st E f (length l) 0 s l)) d' /\
        r = if rt_ok (l_retain_st E f (length l) 0 s l) then R3Unit else R3Panic
  end.

(* retain(f) from a represented state, with the witnesses made explicit *)
Lemma step3_refines_retain (f : pred_t) w d :
  Abs ck (self w) d ->
  let o := l_retain_st E f (length (elems (self w))) 0 (cb w) (elems (self w)) in
  wp (retain E debug f)
     (fun _ w' => rt_ok o = true /\ Abs ck (self w') (rt_list o) /\ elems (self w') = rt_list o /\
                  cap (self w') = cap (self w) /\ cb w' = rt_cb o /\ log w' = log w ++ rt_log o)
     (fun w' => rt_ok o = false /\ Abs ck (self w') (rt_list o) /\ elems (self w') = rt_list o /\
                  cap (self w') = cap (self w) /\ cb w' = rt_cb o /\ log w' = log w ++ rt_log o) w.
Proof.
  intros (Hw & Hu & Hp) o.
  assert (Huo : Uniq ck (rt_list o)) by (apply l_retain_st_uniq; exact Hu).
  eapply wp_mono; [apply (retain_stateful E debug ck cq HL f w Hw) | |]; cbn beta; fold o.
  - intros _ w' (Hok & Hw' & Hc' & He' & Hcb' & Hl').
    split; [exact Hok|]. split; [|repeat split; assumption].
    split; [exact Hw'|]. rewrite He'. split; [exact Huo | apply Permutation_refl].
  - intros w' (Hok & Hw' & Hc' & He' & Hcb' & Hl').
    split; [exact Hok|]. split; [|repeat split; assumption].
    split; [exact Hw'|]. rewrite He'. split; [exact Huo | apply Permutation_refl].
Qed.

Theorem step3_refines n o w d :
  Abs ck (self w) d -> cap (self w) = n ->
  match mstep3 o w with
  | Ok r w' => exists d', dstep3 n o d r d' /\ Abs ck (self w') d' /\ cap (self w') = n
  | Panic w' => exists d', dstep3 n o d (panic_res3 o) d' /\ Abs ck (self w') d' /\ cap (self w') = n
  | UB => False
  end.
Proof.
  intros Ha Hc. destruct o as [o|f]; cbn [mstep3 panic_res3 dstep3].
  - pose proof (step2_refines E debug ck cq HL n o w d Ha Hc) as Hs. unfold bind, ret.
    destruct (mstep2 E debug o w) as [r w'|w'|]; [| |exact Hs].
    + destruct Hs as (d' & Hst & Ha' & Hc'). exists d'. split; [exists r; split; [exact Hst | reflexivity]|].
      split; assumption.
    + destruct Hs as (d' & Hst & Ha' & Hc'). exists d'. split; [exists RPanic2; split; [exact Hst | reflexivity]|].
      split; assumption.
  - pose proof (step3_refines_retain f w d Ha) as Hs. cbv zeta in Hs. unfold wp in Hs. unfold bind, ret.
    pose proof Ha as (_ & _ & Hp).
    destruct (retain E debug f w) as [u w'|w'|]; [| |exact Hs].
    + destruct Hs as (Hok & Ha' & _ & Hc' & _).
      exists (rt_list (l_retain_st E f (length (elems (self w))) 0 (cb w) (elems (self w)))).
      split; [|split; [exact Ha' | congruence]].
      exists (cb w), (elems (self w)). split; [exact Hp|]. split; [apply Permutation_refl|].
      rewrite Hok. reflexivity.
    + destruct Hs as (Hok & Ha' & _ & Hc' & _).
      exists (rt_list (l_retain_st E f (length (elems (self w))) 0 (cb w) (elems (self w)))).
      split; [|split; [exact Ha' | congruence]].
      exists (cb w), (elems (self w)). split; [exact Hp|]. split; [apply Permutation_refl|].
      rewrite Hok. reflexivity.
Qed.

Fixpoint mrun3 (ops : list dop3) (w : world) : list dres3 :=
  match ops with
  | [] => []
  | o :: t => match mstep3 o w with
              | Ok r w' => r :: mrun3 t w'
              | Panic w' => panic_res3 o :: mrun3 t w'
              | UB => []
              end
  end.

Fixpoint mfinal3 (ops : list dop3) (w : world) : option world :=
  match ops with
  | [] => Some w
  | o :: t => match mstep3 o w with
              | Ok _ w' => mfinal3 t w'
              | Panic w' => mfinal3 t w'
              | UB => None
              end
  end.

Inductive druns3 (n : nat) : list dop3 -> dict -> list dres3 -> dict -> Prop :=
| druns3_nil d : druns3 n [] d [] d
| druns3_cons o ops d r d' rs df :
    dstep3 n o d r d' -> druns3 n ops d' rs df -> druns3 n (o :: ops) d (r :: rs) df.

(* any history mixing the 13 operations, drain, iteration, entry, extend AND
   retain with stateful predicates: no UB, the results are those of SOME run of
   the relational specification, whose final state the final container
   represents; capacity unchanged *)
Theorem run3_refines n ops w d :
  Abs ck (self w) d -> cap (self w) = n ->
  exists wf df, mfinal3 ops w = Some wf /\ druns3 n ops d (mrun3 ops w) df /\
                Abs ck (self wf) df /\ cap (self wf) = n.
Proof.
  revert w d; induction ops as [|o t IH]; intros w d Ha Hc.
  - exists w, d. split; [reflexivity|]. split; [apply druns3_nil|]. split; assumption.
  - cbn [mrun3 mfinal3]. pose proof (step3_refines n o w d Ha Hc) as Hs.
    destruct (mstep3 o w) as [r w'|w'|]; [| |destruct Hs].
    + destruct Hs as (d' & Hst & Ha' & Hc').
      destruct (IH w' d' Ha' Hc') as (wf & df & Hf & Hr & Haf & Hcf).
      exists wf, df. split; [exact Hf|]. split; [|split; assumption].
      eapply druns3_cons; eassumption.
    + destruct Hs as (d' & Hst & Ha' & Hc').
      destruct (IH w' d' Ha' Hc') as (wf & df & Hf & Hr & Haf & Hcf).
      exists wf, df. split; [exact Hf|]. split; [|split; assumption].
      eapply druns3_cons; eassumption.
Qed.

Theorem run3_refines_new n ops s lg :
  let w0 := {| cb := s; log := lg; self := new_map n |} in
  exists wf df, mfinal3 ops w0 = Some wf /\ druns3 n ops [] (mrun3 ops w0) df /\
                Abs ck (self wf) df /\ cap (self wf) = n.
Proof. intros w0. apply run3_refines; cbn [w0 self]; [apply Abs_new | apply cap_new]. Qed.

(* the specification of D3RetainF is conservative over DRetain: for a pure
   closure g the traversal on ANY enumeration of d leaves the dictionary
   dstep (DRetain g) computes *)
Lemma dstep3_retain_pure n (f : pred_t) (g : K -> V -> bool * V) d r d' :
  (forall s k v, fst (f s k v) = (Some (fst (g k v)), snd (g k v))) ->
  Uniq ck d ->
  dstep3 n (D3RetainF f) d r d' ->
  r = R3Unit /\ Permutation d' (snd (dstep ck cq n (DRetain g) d)).
Proof.
  intros Hf Hu (s & l & Hp & Hd' & ->). cbn [dstep snd].
  destruct (l_retain_st_pure E f g Hf (length l) 0 s l) as [Hl Hok]. rewrite Hok. split; [reflexivity|].
  rewrite Hl in Hd'. eapply perm_trans; [apply Permutation_sym; exact Hd'|].
  apply (d_abs_retain ck g l d); [|exact Hp].
  eapply (d_Uniq_perm ck); [apply Permutation_sym; exact Hp | exact Hu].
Qed.

(* ------------------------------------------------------------------------ *)
(* R7. get_disjoint_mut never aliases - on every REACHABLE state, for EVERY
       environment (== may lie or panic, Drop may panic, any retain closure)  *)
Definition disjoint_safe_post (ks : list Q) (w : world) (r : list (option nat)) (w' : world) : Prop :=
  self w' = self w /\ length r = length ks /\
  (forall j i, nth_error r j = Some (Some i) -> i < len (self w)) /\
  (forall j1 j2 i, nth_error r j1 = Some (Some i) -> nth_error r j2 = Some (Some i) -> j1 = j2).

End Round2.

Section AnyEnv.
Context {K V Q T : Type} (E : env K V Q T) (debug : bool).
Notation world := (world K V T).

Theorem disjoint_safe_reachable n (ops : list (@dop K V Q)) s lg ks :
  exists wf, mfinal E debug ops {| cb := s; log := lg; self := new_map n |} = Some wf /\
    wp (get_disjoint_mut E ks) (disjoint_safe_post ks wf) (fun w' => self w' = self wf) wf /\
    wp (get_disjoint_unchecked_mut E ks) (disjoint_safe_post ks wf) (fun w' => self w' = self wf) wf.
Proof.
  destruct (mrun_any_env_safe E debug ops {| cb := s; log := lg; self := new_map n |} (WF_new n))
    as (wf & Hm & Hw & _).
  exists wf. split; [exact Hm|].
  split; [apply (disjoint_safe E ks wf Hw) | apply (disjoint_unchecked_safe E ks wf Hw)].
Qed.

Theorem disjoint_safe_reachable2 n (ops : list (@dop2 K V Q)) s lg ks :
  exists wf, mfinal2 E debug ops {| cb := s; log := lg; self := new_map n |} = Some wf /\
    wp (get_disjoint_mut E ks) (disjoint_safe_post ks wf) (fun w' => self w' = self wf) wf /\
    wp (get_disjoint_unchecked_mut E ks) (disjoint_safe_post ks wf) (fun w' => self w' = self wf) wf.
Proof.
  destruct (mrun2_any_env_safe E debug ops {| cb := s; log := lg; self := new_map n |} (WF_new n))
    as (wf & Hm & Hw & _).
  exists wf. split; [exact Hm|].
  split; [apply (disjoint_safe E ks wf Hw) | apply (disjoint_unchecked_safe E ks wf Hw)].
Qed.

End AnyEnv.

(* ------------------------------------------------------------------------ *)
(* R4. Set: every yielded key can be looked up.                              *)
Section SetYield.
Context {K Q T : Type} (E : env K unit Q T) (debug : bool).
Context (ck : K -> N) (cq : Q -> N) (HL : Lawful E ck cq).
Notation world := (world K unit T).

Theorem s_yielded_contains q i k w :
  WF (self w) -> Uniq ck (elems (self w)) ->
  nth_error (elems (self w)) i = Some (k, tt) -> cq q = ck k ->
  wp (s_contains E q) (fun b w' => b = true /\ stable w w') (fun _ => False) w.
Proof.
  intros Hw Hu Hi Hq.
  eapply wp_mono; [apply (s_contains_lawful E ck cq HL q w Hw) | | intros ? []]; cbn beta.
  intros r w' [Hst ->]. rewrite Hq.
  pose proof (find_idx_uniq_nth ck (elems (self w)) i (k, tt) Hu Hi) as Hfi. cbn [fst] in Hfi.
  rewrite Hfi. split; [reflexivity | exact Hst].
Qed.

(* Set::get returns a reference to the stored element: the slot it was yielded from *)
Theorem s_yielded_get q i k w :
  WF (self w) -> Uniq ck (elems (self w)) ->
  nth_error (elems (self w)) i = Some (k, tt) -> cq q = ck k ->
  wp (s_get E q) (fun r w' => r = Some i /\ stable w w') (fun _ => False) w.
Proof.
  intros Hw Hu Hi Hq.
  eapply wp_mono; [apply (s_get_lawful E ck cq HL q w Hw) | | intros ? []]; cbn beta.
  intros r w' [Hst ->]. rewrite Hq.
  pose proof (find_idx_uniq_nth ck (elems (self w)) i (k, tt) Hu Hi) as Hfi. cbn [fst] in Hfi.
  rewrite Hfi. split; [reflexivity | exact Hst].
Qed.

(* on every state reached from Set::new() of any capacity by any history of Set
   operations (container-raised panics included) *)
Theorem s_yielded_reachable n (ops : list (@sop K Q)) t lg :
  exists wf, smfinal E debug ops {| cb := t; log := lg; self := new_map n |} = Some wf /\
    forall q i k, nth_error (elems (self wf)) i = Some (k, tt) -> cq q = ck k ->
      wp (s_contains E q) (fun b w' => b = true /\ stable wf w') (fun _ => False) wf /\
      wp (s_get E q) (fun r w' => r = Some i /\ stable wf w') (fun _ => False) wf.
Proof.
  destruct (srun_refines_state_new E debug ck cq HL n ops t lg) as (wf & Hm & (Hw & Hu & _) & _).
  exists wf. split; [exact Hm|]. intros q i k Hi Hq.
  split; [apply (s_yielded_contains q i k wf Hw Hu Hi Hq) | apply (s_yielded_get q i k wf Hw Hu Hi Hq)].
Qed.

End SetYield.

(* ------------------------------------------------------------------------ *)
(* R5. interpreter level: after ANY history of the interpreter's operations
       (Exec.op: every API entry point) under an honest script, in each of the
       four registers every yielded key looks up its own slot.  The world is the
       one Exec.run_m / run_s build for an operation on register r (any callback
       state and log; OGet / OGetKV / SContains ... run exactly these calls).   *)
Theorem run_final_yielded_get debug sc ops c0 c1 c2 c3 :
  honest sc -> Forall safe_op ops ->
  let x := run_final debug sc ops (init_world c0 c1 c2 c3) in
  (forall r q i p s lg, nth_error (elems (get_m r x)) i = Some p -> qcls q = kcls (fst p) ->
     let w := {| cb := s; log := lg; self := get_m r x |} in
     wp (get (env_map sc) q) (fun o w' => o = Some i /\ stable w w') (fun _ => False) w /\
     wp (get_key_value (env_map sc) q) (fun o w' => o = Some i /\ stable w w') (fun _ => False) w /\
     wp (get_deref (env_map sc) q) (fun o w' => o = Some p /\ stable w w') (fun _ => False) w) /\
  (forall r q i k s lg, nth_error (elems (get_s r x)) i = Some (k, tt) -> qcls q = kcls k ->
     let w := {| cb := s; log := lg; self := get_s r x |} in
     wp (s_contains (env_set sc) q) (fun b w' => b = true /\ stable w w') (fun _ => False) w /\
     wp (s_get (env_set sc) q) (fun o w' => o = Some i /\ stable w w') (fun _ => False) w).
Proof.
  intros Hh Hs x.
  destruct (run_uniq_init debug sc ops c0 c1 c2 c3 Hh Hs) as ((W0 & W1 & W2 & W3 & _) & (U0 & U1 & U2 & U3) & _).
  fold x in W0, W1, W2, W3, U0, U1, U2, U3.
  pose proof (env_map_lawful sc Hh) as Lm. pose proof (env_set_lawful sc Hh) as Ls.
  split.
  - intros r q i p s lg Hi Hq w.
    assert (Hw : WF (self w)) by (unfold w; cbn [self]; unfold get_m; destruct (N.eqb r 0); assumption).
    assert (Hu : Uniq kcls (elems (self w))) by (unfold w; cbn [self]; unfold get_m; destruct (N.eqb r 0); assumption).
    split; [apply (yielded_get _ kcls qcls Lm q i p w Hw Hu Hi Hq)|].
    split; [apply (yielded_get_key_value _ kcls qcls Lm q i p w Hw Hu Hi Hq)
           | apply (yielded_get_deref _ kcls qcls Lm q i p w Hw Hu Hi Hq)].
  - intros r q i k s lg Hi Hq w.
    assert (Hw : WF (self w)) by (unfold w; cbn [self]; unfold get_s; destruct (N.eqb r 2); assumption).
    assert (Hu : Uniq kcls (elems (self w))) by (unfold w; cbn [self]; unfold get_s; destruct (N.eqb r 2); assumption).
    split; [apply (s_yielded_contains _ kcls qcls Ls q i k w Hw Hu Hi Hq)
           | apply (s_yielded_get _ kcls qcls Ls q i k w Hw Hu Hi Hq)].
Qed.
