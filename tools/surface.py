#!/usr/bin/env python3
"""API-surface tie: every public function / trait impl of /repo/src must be listed in coq/MODELLED.tsv
(entry -> model definition).  A public entry that is not in the table means the theorems quantifying over
"any operation" no longer cover the API."""
import os, re, sys

def surface(root="/repo/src"):
    out = []
    for dp, _, fs in os.walk(root):
        for f in sorted(fs):
            if not f.endswith(".rs"):
                continue
            p = os.path.join(dp, f)
            rel = os.path.relpath(p, root)
            src = open(p).read()
            src = src.split("#[cfg(test)]")[0]
            impl = ""
            trait_impl = ""
            # join multi-line impl headers ("impl<...> Trait<..>\n    for Type<..>\nwhere ...{") into one line
            lines = []
            pending = None
            for line in src.split("\n"):
                st = line.strip()
                if st.startswith("//"):
                    continue
                if pending is not None:
                    pending += " " + st
                    if "{" in st or st.endswith(";"):
                        lines.append(pending)
                        pending = None
                    continue
                if re.match(r"(unsafe\s+)?impl\b", st) and "{" not in st:
                    pending = st
                    continue
                lines.append(line)
            for line in lines:
                s = line.strip()
                if s.startswith("//"):
                    continue
                m = re.match(r"(unsafe\s+)?impl\b(.*)", s)
                if m and "{" in s or (m and s.endswith(">")):
                    hdr = re.sub(r"<[^<>]*>", "", m.group(2))
                    hdr = re.sub(r"<[^<>]*>", "", hdr)
                    hdr = re.sub(r"\s+", " ", hdr).replace("{", "").strip()
                    hdr = re.sub(r"\bwhere\b.*", "", hdr).strip()
                    impl = hdr
                m = re.match(r"pub\s+(?:const\s+)?(?:unsafe\s+)?fn\s+(\w+)", s)
                if m:
                    out.append(f"{rel}:{impl}::{m.group(1)}")
                hs = re.sub(r"<[^<>]*>", "", s)
                hs = re.sub(r"<[^<>]*>", "", hs)
                hs = re.sub(r"<[^<>]*>", "", hs)
                m = re.match(r"(?:unsafe\s+)?impl\b\s*(\S+)\s+for\s+(\S+)", hs)
                if m and not s.startswith("pub"):
                    t = m.group(1).split("::")[-1]
                    for_ = m.group(2).replace("{", "").split("::")[-1]
                    trait_impl = f"impl {t} for {for_}"
                    out.append(f"{rel}:{trait_impl}")
                elif re.match(r"(?:unsafe\s+)?impl\b", s):
                    trait_impl = ""
                m = re.match(r"(?:unsafe\s+)?fn\s+(\w+)", s)
                if m and trait_impl:
                    out.append(f"{rel}:{trait_impl}::{m.group(1)}")
    return sorted(set(out))

if __name__ == "__main__":
    for e in surface():
        print(e)
