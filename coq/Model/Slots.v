(* Slots.v — one primitive per unsafe accessor of src/map.rs (mod internal)
   and per checked slice operation the crate relies on.  DEFINITIONS ONLY. *)
Require Import Model.Base.

Fixpoint upd {A} (l : list A) (i : nat) (x : A) : list A :=
  match l, i with
  | [], _ => []
  | _ :: t, 0 => x :: t
  | h :: t, S j => h :: upd t j x
  end.

Section Slots.
Context {K V Q T : Type} (E : env K V Q T) (debug : bool).
Notation M := (M K V T).
Notation map := (map K V).

Definition get_len : M nat := fun w => Ok (len (self w)) w.
Definition get_cap : M nat := fun w => Ok (cap (self w)) w.
Definition set_len (n : nat) : M unit :=
  fun w => Ok tt {| cb := cb w; log := log w;
                    self := {| len := n; slots := slots (self w) |} |}.
Definition set_slot (i : nat) (x : option (K * V)) : M unit :=
  fun w => Ok tt {| cb := cb w; log := log w;
                    self := {| len := len (self w); slots := upd (slots (self w)) i x |} |}.

(* get_unchecked(i).assume_init_ref() / assume_init_mut(): item_ref, item_mut, value_mut.
   UB when i is outside the array or the slot holds no live element. *)
Definition p_ref (i : nat) : M (K * V) :=
  fun w => match nth_error (slots (self w)) i with
           | Some (Some p) => Ok p w
           | _ => UB
           end.

(* assume_init_read(): item_read.  The slot no longer owns the element. *)
Definition p_read (i : nat) : M (K * V) :=
  p <- p_ref i ;; set_slot i None ;; ret p.

(* get_unchecked_mut(i).write(x): item_write.  UB when i >= N. *)
Definition p_write (i : nat) (x : K * V) : M unit :=
  c <- get_cap ;; if i <? c then set_slot i (Some x) else ub.

(* self.pairs[i].write(x): bounds-checked indexing; panics when i >= N. *)
Definition p_write_checked (i : nat) (x : K * V) : M unit :=
  c <- get_cap ;; if i <? c then set_slot i (Some x) else panic.

(* core::mem::replace through a reference obtained by assume_init_mut(). *)
Definition p_replace (i : nat) (f : K * V -> K * V) : M (K * V) :=
  p <- p_ref i ;; set_slot i (Some (f p)) ;; ret p.

(* &self.pairs[..self.len] / [0..self.len]: checked slicing. *)
Definition p_prefix : M unit :=
  n <- get_len ;; c <- get_cap ;; if n <=? c then ret tt else panic.

(* debug_assert!(c) *)
Definition dbg_assert (c : bool) : M unit :=
  if debug && negb c then panic else ret tt.

(* self.len -= 1: overflow check in debug, wrap-around in release (the wrapped
   length makes every later unchecked access undefined; modelled as UB at once). *)
Definition dec_len : M unit :=
  n <- get_len ;;
  match n with
  | 0 => if debug then panic else ub
  | S n' => set_len n'
  end.

(* A Drop callback never unwinds by itself here: the caller decides. *)
Definition cbd (f : T -> bool * T) : M bool :=
  fun w => let '(b, s) := f (cb w) in
           Ok b {| cb := s; log := log w; self := self w |}.

Definition ev_drops (l : list N) : list event := List.map EvDrop l.

(* Running Drop on an owned key / value / pair.  When the key's Drop panics the
   value is still destroyed by the unwinding drop glue. *)
Definition drop_key (k : K) : M unit :=
  emit (ev_drops (idK E k)) ;; b <- cbd (fun s => dropK E s k) ;;
  if b then panic else ret tt.
Definition drop_val (v : V) : M unit :=
  emit (ev_drops (idV E v)) ;; b <- cbd (fun s => dropV E s v) ;;
  if b then panic else ret tt.
Definition drop_pair (p : K * V) : M unit :=
  emit (ev_drops (idK E (fst p) ++ idV E (snd p))) ;;
  bk <- cbd (fun s => dropK E s (fst p)) ;;
  bv <- cbd (fun s => dropV E s (snd p)) ;;
  if bk || bv then panic else ret tt.

(* Unwinding out of a frame that still owns some values: their destructors run
   (a Drop that panics while unwinding aborts the process: not modelled, its
   answer is ignored). *)
Definition unwind_key (k : K) : M unit :=
  emit (ev_drops (idK E k)) ;; _ <- cbd (fun s => dropK E s k) ;; ret tt.
Definition unwind_pair (p : K * V) : M unit :=
  emit (ev_drops (idK E (fst p) ++ idV E (snd p))) ;;
  _ <- cbd (fun s => dropK E s (fst p)) ;; _ <- cbd (fun s => dropV E s (snd p)) ;; ret tt.
Definition unwind_val (v : V) : M unit :=
  emit (ev_drops (idV E v)) ;; _ <- cbd (fun s => dropV E s v) ;; ret tt.
(* two function PARAMETERS k, v (not a tuple): locals are destroyed in reverse order of
   declaration, so the value goes first, then the key *)
Definition drop_args (k : K) (v : V) : M unit :=
  emit (ev_drops (idV E v ++ idK E k)) ;;
  bv <- cbd (fun s => dropV E s v) ;;
  bk <- cbd (fun s => dropK E s k) ;;
  if bv || bk then panic else ret tt.
Definition unwind_args (k : K) (v : V) : M unit :=
  emit (ev_drops (idV E v ++ idK E k)) ;;
  _ <- cbd (fun s => dropV E s v) ;; _ <- cbd (fun s => dropK E s k) ;; ret tt.
Fixpoint unwind_pairs (l : list (K * V)) : M unit :=
  match l with [] => ret tt | p :: t => unwind_pair p ;; unwind_pairs t end.

(* run [c]; if it panics, run the cleanup of the locals this frame owns, then keep unwinding *)
Definition on_unwind {A} (cleanup : M unit) (c : M A) : M A :=
  fun w => match c w with
           | Panic w' => match cleanup w' with
                         | Ok _ w'' => Panic w''
                         | Panic w'' => Panic w''
                         | UB => UB
                         end
           | r => r
           end.

(* the bounds check of self.pairs[i] *)
Definition check_index (i : nat) : M unit :=
  c <- get_cap ;; if i <? c then ret tt else panic.

(* assume_init_drop(): item_drop. *)
Definition p_drop (i : nat) : M unit :=
  p <- p_read i ;; drop_pair p.

(* Scan slots i, i+1, ... (n of them) and return the first whose [test]
   answers true: slice.iter().enumerate().find(..) / position / any. *)
Fixpoint scan_loop (test : K * V -> M bool) (n i : nat) : M (option nat) :=
  match n with
  | 0 => ret None
  | S n' => p <- p_ref i ;; b <- test p ;;
            if b then ret (Some i) else scan_loop test n' (S i)
  end.

(* self.pairs[..self.len].iter()....find(test) *)
Definition scan (test : K * V -> M bool) : M (option nat) :=
  p_prefix ;; n <- get_len ;; scan_loop test n 0.

End Slots.
