(* ========================================================================
   C10  Consuming iterators and drain yield exactly the contents; drain always
        empties

   STATEMENT (properties.jsonl):
     "into_iter, into_keys, into_values, drain and their Set equivalents yield
      exactly the entries the container held, each once, with exact
      len()/size_hint before every step and None forever after the end. After
      drain() the container is empty and fully reusable no matter how much of
      the drain was consumed before it was dropped."
   QUANTIFIER:
     "every reachable container state x every consuming iterator kind x every
      number of items taken before the iterator is dropped"

   VOCABULARY
     IntoIter            owns the container: in the model `self w` IS the
                         iterator's container; into_iter_next pops the LAST live
                         entry (src/iterators.rs); len()/size_hint = len (self w').
     drain               sets len to 0 at once and returns the cursor (0, old len);
                         drain_next reads slot lo; drain_drop c destroys the pairs
                         in the slots [fst c, snd c) the cursor still owns.
                         len()/size_hint of a Drain = cursor_len c = snd c - fst c.
     into_run n / drain_run n c
                         (defined in Proofs/IterSpec.v, not in the model) call
                         next() up to n times, stop at the first None.
     DrainInv c m        len m = 0, snd c <= cap m, slots [fst c, snd c) of m live.
     inv_post w w'       WF (self w') /\ cap (self w') = cap (self w).
     evp E p             the EvDrop events of destroying the pair p (one per ledger
                         identity of its key and of its value).
     slot_pairs m c      the pairs held in slots [fst c, snd c) of m.
     No lawfulness hypothesis anywhere: E is ANY environment (only Drop is ever
     called, in drain_drop, and it may panic).

   READING GUIDE (clause -> theorem)
   * into_iter (into_keys / into_values are projections of the same IntoIter)
     yields exactly the entries held, each once; exact len() before every step:
       C10_into_run_spec      n steps yield the first n entries of the REVERSED
                              content; the iterator then holds exactly the prefix
                              of length len - min n len (its len()), log untouched
       C10_into_run_all       len steps: a permutation of the content, nothing left
       C10_into_run_all_rev   ... in exactly reversed slot order
       C10_into_iter_next_spec  one step, any state: Some -> len decreases by one;
                              None -> len = 0 and the container is unchanged, hence
                              None forever after the end
   * drain yields exactly the entries held, each once; exact len(); None after
     the end:
       C10_drain_run_spec     n steps yield the first n entries of the content in
                              slot order; cursor = (min n len, len), whose
                              cursor_len is the number still to come
       C10_drain_run_all      len steps yield exactly the content; cursor_len = 0
       C10_drain_next_spec    one step from any drain state: Some -> cursor_len
                              decreases by one; None -> cursor_len = 0 and the
                              cursor is unchanged (None forever)
   * "exactly the entries the container held, each once", at every step: what
     has been yielded and what the iterator still holds partition the content
       C10_into_debug_rest    IntoIter after n steps: yielded = firstn n (rev content),
                              still held = firstn (len - min n len) content
       C10_drain_debug_rest   Drain after n steps: yielded = firstn n content,
                              still owned by the cursor = skipn n content
   * "after drain() the container is empty and fully reusable no matter how much
     was consumed before it was dropped":
       C10_drain_empties_strong   for every n: take n items, drop the drain; in
                              every outcome (also when a Drop callback panics) the
                              container is WF, len = 0, same capacity
       C10_drain_empties      (weaker panic clause kept as listed in the mapping)
       C10_drain_forgotten    mem::forget(drain): already empty and WF
       C10_drain_empties / C10_drain_run_spec  len = 0 from the moment drain() returns
   * "each once" also for the entries NOT taken (destroyed by the drain's Drop):
       C10_drain_drop_logs    drain_drop destroys exactly the pairs its cursor
                              still owns, in order; on a panicking Drop a prefix
       C10_drain_session_logs take n, drop: result = first n entries; destroyed
                              = exactly the other entries, each once

   PARTLY / NOT COVERED BY A THEOREM (left to the correspondence check)
   * (Corrected after the audit.)  into_keys / into_values / Set::into_iter,
     the destruction of the half that is not handed out, "fully reusable" as
     refinement of the EMPTY dictionary, and the no-panic forms of the drain
     theorems are now theorems: AUDIT CLOSURE section at the end of this file
     (C10_into_keys_run_spec, C10_into_values_run_spec, C10_set_into_run_spec,
     C10_drain_session_Abs, C10_drain_then_run_refines, C10_drain_run_nopanic ...).
     C10_drain_run_spec / C10_drain_forgotten above keep a panic clause
     `self w' = self w` that can never fire (C10_drain_run_nopanic).
   * Set::drain is Map::drain on Map<T,(),N> (same model function, V := unit).
   * Dropping a partly consumed IntoIter destroys the remaining prefix through
     drop_map (Owned.drop_map_acct, C02), not restated here.
   * "every reachable container state" enters as WF (self w).
   ======================================================================== *)
Require Import Model.Base Model.Slots Model.MapOps Model.Exec.
Require Import Proofs.Hoare Proofs.Inv Proofs.Safety Proofs.Safety2 Proofs.Spec Proofs.IterSpec
               Proofs.Legacy Proofs.Gaps.
From Coq Require Import Permutation.

(* ---------------------------------------------------------------------- *)
(* IntoIter                                                                 *)
(* ---------------------------------------------------------------------- *)

Theorem C10_into_run_spec :
  forall (K V T : Type) (n : nat) (w : world K V T),
    WF (self w) ->
    wp (into_run n)
       (fun (r : list (K * V)) (w' : world K V T) =>
          WF (self w') /\ cap (self w') = cap (self w) /\ log w' = log w /\
          r = firstn n (rev (Spec.elems (self w))) /\
          len (self w') = len (self w) - Nat.min n (len (self w)) /\
          Spec.elems (self w') =
            firstn (len (self w) - Nat.min n (len (self w))) (Spec.elems (self w)))
       (fun _ : world K V T => False) w.
Proof. exact (fun K V T => @into_run_spec K V T). Qed.
Print Assumptions C10_into_run_spec.

Theorem C10_into_run_all :
  forall (K V T : Type) (w : world K V T),
    WF (self w) ->
    wp (into_run (len (self w)))
       (fun (r : list (K * V)) (w' : world K V T) =>
          Permutation r (Spec.elems (self w)) /\ len (self w') = 0)
       (fun _ : world K V T => False) w.
Proof. exact (fun K V T => @into_run_all K V T). Qed.
Print Assumptions C10_into_run_all.

Theorem C10_into_run_all_rev :
  forall (K V T : Type) (w : world K V T),
    WF (self w) ->
    wp (into_run (len (self w)))
       (fun (r : list (K * V)) (w' : world K V T) =>
          r = rev (Spec.elems (self w)) /\ len (self w') = 0 /\ Spec.elems (self w') = [])
       (fun _ : world K V T => False) w.
Proof. exact (fun K V T => @into_run_all_rev K V T). Qed.
Print Assumptions C10_into_run_all_rev.

Theorem C10_into_iter_next_spec :
  forall (K V T : Type) (w : world K V T),
    WF (self w) ->
    wp into_iter_next
       (fun (r : option (K * V)) (w' : world K V T) =>
          inv_post w w' /\
          match r with
          | Some _ => S (len (self w')) = len (self w)
          | None => len (self w) = 0 /\ self w' = self w
          end)
       (fun _ : world K V T => False) w.
Proof. exact (fun K V T => @into_iter_next_spec K V T). Qed.
Print Assumptions C10_into_iter_next_spec.

(* ---------------------------------------------------------------------- *)
(* Drain                                                                    *)
(* ---------------------------------------------------------------------- *)

Theorem C10_drain_run_spec :
  forall (K V T : Type) (n : nat) (w : world K V T),
    WF (self w) ->
    wp (c <- drain ;; drain_run n c)
       (fun (r : list (K * V) * cursor) (w' : world K V T) =>
          fst r = firstn n (Spec.elems (self w)) /\
          snd r = (Nat.min n (len (self w)), len (self w)) /\
          DrainInv (snd r) (self w') /\
          cap (self w') = cap (self w) /\ log w' = log w /\ len (self w') = 0)
       (fun w' : world K V T => self w' = self w) w.
Proof. exact (fun K V T => @drain_run_spec K V T). Qed.
Print Assumptions C10_drain_run_spec.

Theorem C10_drain_run_all :
  forall (K V T : Type) (w : world K V T),
    WF (self w) ->
    wp (c <- drain ;; drain_run (len (self w)) c)
       (fun (r : list (K * V) * cursor) (w' : world K V T) =>
          fst r = Spec.elems (self w) /\ cursor_len (snd r) = 0 /\ len (self w') = 0)
       (fun _ : world K V T => False) w.
Proof. exact (fun K V T => @drain_run_all K V T). Qed.
Print Assumptions C10_drain_run_all.

Theorem C10_drain_next_spec :
  forall (K V T : Type) (c : cursor) (w : world K V T),
    DrainInv c (self w) ->
    wp (drain_next c)
       (fun (r : option (K * V) * cursor) (w' : world K V T) =>
          DrainInv (snd r) (self w') /\
          cap (self w') = cap (self w) /\
          match fst r with
          | Some _ => cursor_len (snd r) + 1 = cursor_len c
          | None => cursor_len c = 0 /\ snd r = c
          end)
       (fun _ : world K V T => False) w.
Proof. exact (fun K V T => @drain_next_spec K V T). Qed.
Print Assumptions C10_drain_next_spec.

Theorem C10_drain_empties :
  forall (K V Q T : Type) (E : env K V Q T) (n : nat) (w : world K V T),
    WF (self w) ->
    let post := fun w' : world K V T =>
                  WF (self w') /\ len (self w') = 0 /\ cap (self w') = cap (self w) in
    wp (c <- drain ;; r <- drain_run n c ;; drain_drop E (snd r))
       (fun _ : unit => post)
       (fun w' : world K V T => post w' \/ self w' = self w) w.
Proof. exact (fun K V Q T => @drain_empties K V Q T). Qed.
Print Assumptions C10_drain_empties.

Theorem C10_drain_empties_strong :
  forall (K V Q T : Type) (E : env K V Q T) (n : nat) (w : world K V T),
    WF (self w) ->
    let post := fun w' : world K V T =>
                  WF (self w') /\ len (self w') = 0 /\ cap (self w') = cap (self w) in
    wp (c <- drain ;; r <- drain_run n c ;; drain_drop E (snd r))
       (fun _ : unit => post) post w.
Proof. exact (fun K V Q T => @drain_empties_strong K V Q T). Qed.
Print Assumptions C10_drain_empties_strong.

Theorem C10_drain_forgotten :
  forall (K V T : Type) (n : nat) (w : world K V T),
    WF (self w) ->
    wp (c <- drain ;; drain_run n c)
       (fun (_ : list (K * V) * cursor) (w' : world K V T) =>
          WF (self w') /\ len (self w') = 0 /\ cap (self w') = cap (self w))
       (fun w' : world K V T => self w' = self w) w.
Proof. exact (fun K V T => @drain_forgotten K V T). Qed.
Print Assumptions C10_drain_forgotten.

Theorem C10_drain_drop_logs :
  forall (K V Q T : Type) (E : env K V Q T) (c : cursor) (w : world K V T),
    DrainInv c (self w) ->
    wp (drain_drop E c)
       (fun (_ : unit) (w' : world K V T) =>
          exists evs : list event,
            log w' = log w ++ evs /\
            evs = flat_map (evp E) (slot_pairs (self w) c) /\ ev_drop_only evs)
       (fun w' : world K V T =>
          exists (evs : list event) (k : nat),
            log w' = log w ++ evs /\
            evs = flat_map (evp E) (firstn k (slot_pairs (self w) c)) /\ ev_drop_only evs)
       w.
Proof. exact (fun K V Q T => @drain_drop_logs K V Q T). Qed.
Print Assumptions C10_drain_drop_logs.

Theorem C10_drain_session_logs :
  forall (K V Q T : Type) (E : env K V Q T) (n : nat) (w : world K V T),
    WF (self w) ->
    wp (c <- drain ;; r <- drain_run n c ;; drain_drop E (snd r) ;; ret (fst r))
       (fun (r : list (K * V)) (w' : world K V T) =>
          r = firstn n (Spec.elems (self w)) /\
          log w' = log w ++ flat_map (evp E) (skipn n (Spec.elems (self w))))
       (fun w' : world K V T =>
          exists k : nat,
            log w' = log w ++ flat_map (evp E) (firstn k (skipn n (Spec.elems (self w)))))
       w.
Proof. exact (fun K V Q T => @drain_session_logs K V Q T). Qed.
Print Assumptions C10_drain_session_logs.

(* ---------------------------------------------------------------------- *)
(* what a partly consumed consuming iterator still holds (Proofs/Gaps.v):   *)
(* yielded ++ still-held = the content, nothing twice, nothing missing       *)
(* (interpreter key type `key`; V, T arbitrary)                              *)
(* ---------------------------------------------------------------------- *)

(* IntoIter after n steps: it has yielded the first n entries of the reversed
   content and still holds (Exec.elems = the live prefix, Model/Exec.v) exactly
   the first len - min n len entries of the content *)
Theorem C10_into_debug_rest :
  forall (V T : Type) (n : nat) (w : world key V T),
    WF (self w) ->
    wp (into_run n)
       (fun (r : list (key * V)) (w' : world key V T) =>
          Exec.elems (self w') =
            firstn (len (self w) - Nat.min n (len (self w))) (Spec.elems (self w)) /\
          r = firstn n (rev (Spec.elems (self w))))
       (fun _ : world key V T => False) w.
Proof. exact (fun V T => @into_debug_rest V T). Qed.
Print Assumptions C10_into_debug_rest.

(* Drain after n steps: it has yielded firstn n of the content and the range its
   cursor still owns (range_list m c = the entries in slots [fst c, snd c),
   Model/Exec.v) holds exactly skipn n of the content *)
Theorem C10_drain_debug_rest :
  forall (V T : Type) (n : nat) (w : world key V T),
    WF (self w) ->
    wp (c <- drain ;; drain_run n c)
       (fun (r : list (key * V) * cursor) (w' : world key V T) =>
          range_list (self w') (snd r) = skipn n (Spec.elems (self w)) /\
          range_list (self w') (snd r) =
            skipn (Nat.min n (length (Spec.elems (self w)))) (Spec.elems (self w)) /\
          fst r = firstn n (Spec.elems (self w)))
       (fun _ : world key V T => False) w.
Proof. exact (fun V T => @drain_debug_rest V T). Qed.
Print Assumptions C10_drain_debug_rest.

(* ---------------------------------------------------------------------- *)
(* non-vacuity                                                              *)
(* ---------------------------------------------------------------------- *)

Example C10_example_WF : WF (self (w_of m3)) /\ len (self (w_of m3)) = 3.
Proof. split; [exact m3_WF | reflexivity]. Qed.

(* IntoIter on m3: 2 steps pop the last two entries; the iterator still holds
   the first one (len() = 1); 4 steps yield the reversed content *)
Example C10_example_into :
  match into_run 2 (w_of m3) with
  | Ok r w' => r = [(k_ 5 7, v_ 6 9); (k_ 3 6, v_ 4 8)] /\
               len (self w') = 1 /\ Spec.elems (self w') = [(k_ 1 5, v_ 2 7)]
  | _ => False
  end /\
  match into_run 4 (w_of m3) with
  | Ok r w' => r = rev (Spec.elems m3) /\ len (self w') = 0
  | _ => False
  end.
Proof. vm_compute. repeat split; reflexivity. Qed.

(* Drain on m3 with a script that never faults (sc_drop 0: no object has
   identity 0): take 1 item, drop the drain: the
   item is the first entry, the other two are destroyed (ids 3,4 then 5,6), the
   container is empty with capacity 3.  With a Drop that panics on object 3
   (sc_drop 3) the container is empty all the same. *)
Example C10_example_drain :
  match (c <- drain ;; r <- drain_run 1 c ;; drain_drop (env_map (sc_drop 0)) (snd r) ;; ret r)
          (w_of m3) with
  | Ok r w' => fst r = [(k_ 1 5, v_ 2 7)] /\ snd r = (1, 3) /\ cursor_len (snd r) = 2 /\
               log w' = [EvDrop 3; EvDrop 4; EvDrop 5; EvDrop 6] /\
               len (self w') = 0 /\ cap (self w') = 3
  | _ => False
  end /\
  match (c <- drain ;; r <- drain_run 1 c ;; drain_drop (env_map (sc_drop 3)) (snd r)) (w_of m3) with
  | Panic w' => len (self w') = 0 /\ cap (self w') = 3 /\ log w' = [EvDrop 3; EvDrop 4]
  | _ => False
  end.
Proof. vm_compute. repeat split; reflexivity. Qed.

(* after one step the Drain over m3 still owns the other two entries; after two
   steps the IntoIter over m3 still holds the first entry *)
Example C10_example_rest :
  match (c <- drain ;; drain_run 1 c) (w_of m3) with
  | Ok r w' => range_list (self w') (snd r) = [(k_ 3 6, v_ 4 8); (k_ 5 7, v_ 6 9)]
  | _ => False
  end /\
  match into_run 2 (w_of m3) with
  | Ok r w' => Exec.elems (self w') = [(k_ 1 5, v_ 2 7)]
  | _ => False
  end.
Proof. vm_compute. split; reflexivity. Qed.

(* ======================================================================== *)
(* AUDIT CLOSURE for C10 (Proofs/MoreIter.v)

   The audit found: (9) into_keys / into_values and the Set equivalents had
   their projection only in the interpreter, and the destruction of the unused
   half was unproved; (10) "fully reusable" was only WF /\ len = 0; (11)
   C10_drain_run_spec / C10_drain_forgotten carried a panic clause although a
   drain cannot panic before its Drop runs; (12) DrainInv had no example.

   VOCABULARY
     into_keys_next E / into_values_next E   (Proofs/Owned2.v) IntoKeys::next =
                        self.iter.next().map(|p| p.0): pop the last entry, destroy
                        its VALUE, yield its key; IntoValues::next destroys the
                        KEY and yields the value.  Exec.into_steps_item kind 1 / 2
                        is exactly this (C10_into_steps_keys_next / _values_next).
     into_keys_run E n / into_values_run E n   call that next() up to n times,
                        stop at the first None (Proofs/MoreIter.v proj_run).
     into_proj_run proj n   the same for a projection that destroys nothing:
                        proj = fst with V = unit is Set::into_iter
                        (Exec.set_into_steps), proj = id is IntoIter.
     dropsV E p = ev_drops (idV E (snd p)), dropsK E p = ev_drops (idK E (fst p)):
                        the Drop events of the value / key of entry p.
     Set::drain IS Map::drain on Map<T,(),N>: every drain theorem of this file
     with V := unit is the Set statement (the interpreter runs the same
     Exec.drain_session for both).
   E is ANY environment in C10_into_keys_run_spec / C10_into_values_run_spec /
   C10_drain_session_Abs (a Drop may panic: the panic clause says what had been
   destroyed by then); Lawful E ck cq is needed only for the histories that
   FOLLOW the drain in C10_drain_then_run_refines (they call ==).

   READING GUIDE (clause -> theorem)
   * "into_keys, into_values ... yield exactly the entries the container held,
     each once, with exact len()":
       C10_into_keys_run_spec    n steps yield  map fst  of the first n entries of
                                 the reversed content; the log grows by exactly the
                                 Drop events of THOSE entries' values, in order,
                                 each once; what is left is the prefix of length
                                 len - min n len (its len()).  If the Drop of a
                                 value panics at step t: entries 0..t were popped,
                                 exactly their values were destroyed.
       C10_into_values_run_spec  symmetric: map snd, the KEYS are destroyed
       C10_set_into_run_spec     Set::into_iter: map fst of the entries (k, ()),
                                 nothing destroyed, no panic
       C10_into_steps_item_kinds, C10_into_steps_keys_next,
       C10_into_steps_values_next, C10_into_steps_pairs_next
                                 the interpreter's step for kinds 1, 2, 0 is
                                 into_keys_next, into_values_next, into_iter_next
   * "After drain() the container is empty and fully reusable no matter how much
     of the drain was consumed before it was dropped":
       C10_drain_session_Abs     every environment, every number taken, normal
                                 return or a panicking Drop: the container
                                 abstracts to the EMPTY dictionary, same capacity
       C10_drain_forgotten_Abs   mem::forget(drain): the same, and no panic
       C10_drain_then_run_refines, C10_drain_forgotten_then_run_refines
                                 hence every later history of the 13 dictionary
                                 operations returns exactly what the ideal
                                 dictionary started EMPTY returns (Dict.run_refines),
                                 i.e. exactly what the same history returns on a
                                 fresh Map::new() of that capacity
       C10_drain_first_run2_refines  the same inside the mixed histories of C01
                                 (Dict2: drain, iteration, entry, extend
                                 interleaved): after DDrain take the run continues
                                 from the empty dictionary
   * no panic before Drop:
       C10_drain_run_nopanic, C10_drain_forgotten_nopanic
                                 C10_drain_run_spec / C10_drain_forgotten with
                                 panic postcondition False
   ======================================================================== *)
Require Import Proofs.MoreIter Proofs.Lawful Proofs.Dict Proofs.Dict2 Proofs.Owned2 Proofs.FmtSerde.

Theorem C10_into_keys_run_spec :
  forall (K V Q T : Type) (E : env K V Q T) (n : nat) (w : world K V T),
    WF (self w) ->
    wp (into_keys_run E n)
       (fun (r : list K) (w' : world K V T) =>
          let took := firstn n (rev (Spec.elems (self w))) in
          r = List.map fst took /\
          log w' = log w ++ flat_map (dropsV E) took /\
          WF (self w') /\ cap (self w') = cap (self w) /\
          len (self w') = len (self w) - Nat.min n (len (self w)) /\
          Spec.elems (self w') =
            firstn (len (self w) - Nat.min n (len (self w))) (Spec.elems (self w)))
       (fun w' : world K V T =>
          exists t : nat, t < Nat.min n (len (self w)) /\
            let took := firstn (S t) (rev (Spec.elems (self w))) in
            log w' = log w ++ flat_map (dropsV E) took /\
            WF (self w') /\ cap (self w') = cap (self w) /\
            len (self w') = len (self w) - S t /\
            Spec.elems (self w') = firstn (len (self w) - S t) (Spec.elems (self w)))
       w.
Proof. exact (@into_keys_run_spec). Qed.
Print Assumptions C10_into_keys_run_spec.

Theorem C10_into_values_run_spec :
  forall (K V Q T : Type) (E : env K V Q T) (n : nat) (w : world K V T),
    WF (self w) ->
    wp (into_values_run E n)
       (fun (r : list V) (w' : world K V T) =>
          let took := firstn n (rev (Spec.elems (self w))) in
          r = List.map snd took /\
          log w' = log w ++ flat_map (dropsK E) took /\
          WF (self w') /\ cap (self w') = cap (self w) /\
          len (self w') = len (self w) - Nat.min n (len (self w)) /\
          Spec.elems (self w') =
            firstn (len (self w) - Nat.min n (len (self w))) (Spec.elems (self w)))
       (fun w' : world K V T =>
          exists t : nat, t < Nat.min n (len (self w)) /\
            let took := firstn (S t) (rev (Spec.elems (self w))) in
            log w' = log w ++ flat_map (dropsK E) took /\
            WF (self w') /\ cap (self w') = cap (self w) /\
            len (self w') = len (self w) - S t /\
            Spec.elems (self w') = firstn (len (self w) - S t) (Spec.elems (self w)))
       w.
Proof. exact (@into_values_run_spec). Qed.
Print Assumptions C10_into_values_run_spec.

(* a projection that destroys nothing (any result type A) *)
Theorem C10_into_proj_run_spec :
  forall (K V T A : Type) (proj : K * V -> A) (n : nat) (w : world K V T),
    WF (self w) ->
    wp (into_proj_run proj n)
       (fun (r : list A) (w' : world K V T) =>
          r = List.map proj (firstn n (rev (Spec.elems (self w)))) /\
          log w' = log w /\
          WF (self w') /\ cap (self w') = cap (self w) /\
          len (self w') = len (self w) - Nat.min n (len (self w)) /\
          Spec.elems (self w') =
            firstn (len (self w) - Nat.min n (len (self w))) (Spec.elems (self w)))
       (fun _ : world K V T => False) w.
Proof. exact (@into_proj_run_spec). Qed.
Print Assumptions C10_into_proj_run_spec.

(* Set::into_iter: V = unit, the item is the key *)
Theorem C10_set_into_run_spec :
  forall (K T : Type) (n : nat) (w : world K unit T),
    WF (self w) ->
    wp (into_proj_run (fun p : K * unit => fst p) n)
       (fun (r : list K) (w' : world K unit T) =>
          r = List.map (fun p : K * unit => fst p) (firstn n (rev (Spec.elems (self w)))) /\
          log w' = log w /\
          WF (self w') /\ cap (self w') = cap (self w) /\
          len (self w') = len (self w) - Nat.min n (len (self w)) /\
          Spec.elems (self w') =
            firstn (len (self w) - Nat.min n (len (self w))) (Spec.elems (self w)))
       (fun _ : world K unit T => False) w.
Proof. exact (fun K T => @into_proj_run_spec K unit T K (fun p : K * unit => fst p)). Qed.
Print Assumptions C10_set_into_run_spec.

(* the interpreter uses exactly these next() functions *)
Theorem C10_into_steps_item_kinds :
  forall (sc : script) (p : key * vobj),
    into_steps_item sc 0 p = ret (r_pair p) /\
    into_steps_item sc 1 p = (drop_val (env_map sc) (snd p) ;; ret (r_key (fst p))) /\
    into_steps_item sc 2 p = (drop_key (env_map sc) (fst p) ;; ret (r_val (snd p))).
Proof. exact into_steps_item_kinds. Qed.
Print Assumptions C10_into_steps_item_kinds.

Theorem C10_into_steps_keys_next :
  forall (sc : script) (w : world key vobj cstate),
    (o <- into_iter_next ;;
     match o with None => ret None | Some p => it <- into_steps_item sc 1 p ;; ret (Some it) end) w
    = (o <- into_keys_next (env_map sc) ;; ret (option_map r_key o)) w.
Proof. exact into_steps_keys_next. Qed.
Print Assumptions C10_into_steps_keys_next.

Theorem C10_into_steps_values_next :
  forall (sc : script) (w : world key vobj cstate),
    (o <- into_iter_next ;;
     match o with None => ret None | Some p => it <- into_steps_item sc 2 p ;; ret (Some it) end) w
    = (o <- into_values_next (env_map sc) ;; ret (option_map r_val o)) w.
Proof. exact into_steps_values_next. Qed.
Print Assumptions C10_into_steps_values_next.

Theorem C10_into_steps_pairs_next :
  forall (sc : script) (w : world key vobj cstate),
    (o <- into_iter_next ;;
     match o with None => ret None | Some p => it <- into_steps_item sc 0 p ;; ret (Some it) end) w
    = (into_proj_next r_pair) w.
Proof. exact into_steps_pairs_next. Qed.
Print Assumptions C10_into_steps_pairs_next.

(* ---- drain: no panic before Drop ---- *)
Theorem C10_drain_run_nopanic :
  forall (K V T : Type) (n : nat) (w : world K V T),
    WF (self w) ->
    wp (c <- drain ;; drain_run n c)
       (fun (r : list (K * V) * cursor) (w' : world K V T) =>
          fst r = firstn n (Spec.elems (self w)) /\
          snd r = (Nat.min n (len (self w)), len (self w)) /\
          DrainInv (snd r) (self w') /\
          cap (self w') = cap (self w) /\ log w' = log w /\ len (self w') = 0)
       (fun _ : world K V T => False) w.
Proof. exact (@drain_run_nopanic). Qed.
Print Assumptions C10_drain_run_nopanic.

Theorem C10_drain_forgotten_nopanic :
  forall (K V T : Type) (n : nat) (w : world K V T),
    WF (self w) ->
    wp (c <- drain ;; drain_run n c)
       (fun (_ : list (K * V) * cursor) (w' : world K V T) =>
          WF (self w') /\ len (self w') = 0 /\ cap (self w') = cap (self w))
       (fun _ : world K V T => False) w.
Proof. exact (@drain_forgotten_nopanic). Qed.
Print Assumptions C10_drain_forgotten_nopanic.

(* ---- drain: the container is the empty dictionary afterwards ---- *)
(* Abs ck m d := WF m /\ Uniq ck (elems m) /\ Permutation (elems m) d  (Proofs/Dict.v) *)
Theorem C10_drain_session_Abs :
  forall (K V Q T : Type) (E : env K V Q T) (ck : K -> N) (n : nat) (w : world K V T),
    WF (self w) ->
    let post := fun w' : world K V T => Abs ck (self w') [] /\ cap (self w') = cap (self w) in
    wp (c <- drain ;; r <- drain_run n c ;; drain_drop E (snd r)) (fun _ : unit => post) post w.
Proof. exact (@drain_session_Abs). Qed.
Print Assumptions C10_drain_session_Abs.

Theorem C10_drain_forgotten_Abs :
  forall (K V T : Type) (ck : K -> N) (n : nat) (w : world K V T),
    WF (self w) ->
    wp (c <- drain ;; drain_run n c)
       (fun (_ : list (K * V) * cursor) (w' : world K V T) =>
          Abs ck (self w') [] /\ cap (self w') = cap (self w))
       (fun _ : world K V T => False) w.
Proof. exact (@drain_forgotten_Abs). Qed.
Print Assumptions C10_drain_forgotten_Abs.

(* NOTE (second audit): in C10_drain_then_run_refines the drain and the later
   history share ONE environment E, and Lawful E excludes a panicking Drop, so its
   Panic branch cannot be reached; the statement with an arbitrary Drop for the
   drain is C10_drain_then_run_refines2 in the SECOND ROUND section below. *)
(* mrun E debug ops w: the results of running the dictionary operations ops from
   world w; drun ck cq n ops d: the results of the ideal dictionary of capacity n
   started in state d (Proofs/Dict.v, C01) *)
Theorem C10_drain_then_run_refines :
  forall (K V Q T : Type) (E : env K V Q T) (debug : bool) (ck : K -> N) (cq : Q -> N),
    Lawful E ck cq ->
    forall (take : nat) (ops : list (@dop K V Q)) (w : world K V T),
    WF (self w) ->
    match (c <- drain ;; r <- drain_run take c ;; drain_drop E (snd r)) w with
    | Ok _ w' | Panic w' =>
        cap (self w') = cap (self w) /\
        mrun E debug ops w' = drun ck cq (cap (self w)) ops [] /\
        (forall (s : T) (lg : list event),
           mrun E debug ops w' =
           mrun E debug ops {| cb := s; log := lg; self := new_map (cap (self w)) |})
    | UB => False
    end.
Proof. exact (@drain_then_run_refines). Qed.
Print Assumptions C10_drain_then_run_refines.

Theorem C10_drain_forgotten_then_run_refines :
  forall (K V Q T : Type) (E : env K V Q T) (debug : bool) (ck : K -> N) (cq : Q -> N),
    Lawful E ck cq ->
    forall (take : nat) (ops : list (@dop K V Q)) (w : world K V T),
    WF (self w) ->
    match (c <- drain ;; drain_run take c) w with
    | Ok _ w' =>
        cap (self w') = cap (self w) /\
        mrun E debug ops w' = drun ck cq (cap (self w)) ops [] /\
        (forall (s : T) (lg : list event),
           mrun E debug ops w' =
           mrun E debug ops {| cb := s; log := lg; self := new_map (cap (self w)) |})
    | _ => False
    end.
Proof. exact (@drain_forgotten_then_run_refines). Qed.
Print Assumptions C10_drain_forgotten_then_run_refines.

(* Dict2 (C01): histories mixing the dictionary operations with drain, whole
   iteration, entry and extend.  A history that starts with DDrain take: a final
   world exists (no UB), the drain returned the first `take` items of some
   ordering p of the dictionary, and the results rs of the REST of the history
   are results of a run of the ideal dictionary started EMPTY *)
Theorem C10_drain_first_run2_refines :
  forall (K V Q T : Type) (E : env K V Q T) (debug : bool) (ck : K -> N) (cq : Q -> N),
    Lawful E ck cq ->
    forall (n take : nat) (ops : list (@dop2 K V Q)) (w : world K V T) (d : @dict K V),
    Abs ck (self w) d -> cap (self w) = n ->
    exists (wf : world K V T) (df : @dict K V) (p : list (K * V)) (rs : list (@dres2 K V)),
      mfinal2 E debug (DDrain take :: ops) w = Some wf /\
      Permutation p d /\
      mrun2 E debug (DDrain take :: ops) w = RItems (firstn take p) :: rs /\
      druns2 ck cq n ops [] rs df /\
      Abs ck (self wf) df /\ cap (self wf) = n.
Proof. exact (@drain_first_run2_refines). Qed.
Print Assumptions C10_drain_first_run2_refines.

(* ---------------------------------------------------------------------- *)
(* non-vacuity                                                              *)
(* ---------------------------------------------------------------------- *)

(* DrainInv, directly: after drain() and one next() over m3 the cursor is (1,3),
   the container has len 0, capacity 3 >= 3, and slots 1 and 2 are live *)
Example C10_example_DrainInv :
  match (c <- drain ;; drain_run 1 c) (w_of m3) with
  | Ok r w' => snd r = (1, 3) /\ DrainInv (snd r) (self w')
  | _ => False
  end.
Proof.
  vm_compute. split; [reflexivity|]. split; [reflexivity|]. split; [repeat constructor|].
  intros j [H1 H2]. destruct j as [|[|[|j]]].
  - exfalso. inversion H1.
  - eexists; reflexivity.
  - eexists; reflexivity.
  - exfalso. do 3 apply le_S_n in H2. inversion H2.
Qed.

(* into_keys over m3, two steps, nothing faults: keys of entries 2, 1; exactly
   the values 6 and 4 are destroyed, in that order; entry 0 is left.
   into_values: values of entries 2, 1; keys 5 and 3 destroyed.
   With a Drop that panics on object 4 (the value of entry 1): the panic comes at
   step t = 1, values 6 and 4 were destroyed, entry 0 is left. *)
Example C10_example_into_keys_values :
  match into_keys_run (env_map (sc_drop 0)) 2 (w_of m3) with
  | Ok r w' => r = [k_ 5 7; k_ 3 6] /\ log w' = [EvDrop 6; EvDrop 4] /\
               Spec.elems (self w') = [(k_ 1 5, v_ 2 7)]
  | _ => False
  end /\
  match into_values_run (env_map (sc_drop 0)) 2 (w_of m3) with
  | Ok r w' => r = [v_ 6 9; v_ 4 8] /\ log w' = [EvDrop 5; EvDrop 3] /\
               Spec.elems (self w') = [(k_ 1 5, v_ 2 7)]
  | _ => False
  end /\
  match into_keys_run (env_map (sc_drop 4)) 3 (w_of m3) with
  | Panic w' => log w' = [EvDrop 6; EvDrop 4] /\ Spec.elems (self w') = [(k_ 1 5, v_ 2 7)]
  | _ => False
  end.
Proof. vm_compute. repeat split; reflexivity. Qed.

(* reuse after a partly consumed drain: a lawful environment exists, and on m3
   (drain, take 1, drop) followed by insert / get / contains gives exactly what
   the same operations give on a fresh Map of capacity 3 *)
Definition C10_sc0 : script := {| sc_adv := false; sc_seed := 0; sc_fk := 0; sc_fa := 0 |}.

Example C10_example_lawful : Lawful (env_map C10_sc0) kcls qcls.
Proof. exact (env_map_lawful C10_sc0 (conj eq_refl eq_refl)). Qed.

Example C10_example_reuse :
  let ops := [DInsert (k_ 11 5) (v_ 12 1); DInsert (k_ 13 6) (v_ 14 2);
              DGet (QCls 5); DContains (QCls 7); DInsert (k_ 15 7) (v_ 16 3);
              DInsert (k_ 17 8) (v_ 18 4)] in
  match (c <- drain ;; r <- drain_run 1 c ;; drain_drop (env_map C10_sc0) (snd r)) (w_of m3) with
  | Ok _ w' =>
      mrun (env_map C10_sc0) false ops w'
      = mrun (env_map C10_sc0) false ops {| cb := cs0; log := []; self := new_map 3 |} /\
      mrun (env_map C10_sc0) false ops w'
      = [RNone; RNone; RVal (v_ 12 1); RBool false; RNone; RPanic]
  | _ => False
  end.
Proof. vm_compute. split; reflexivity. Qed.

(* ======================================================================== *)
(* AUDIT CLOSURE, SECOND ROUND for C10 (Proofs/MoreIter.v)

   VOCABULARY
     cons_obs item l n     what n calls of next() on a consuming iterator that still
                           holds the entries l (in yield order) report: per step
                           [nn (length l); 1] ++ item p  (p the head of l, then the
                           tail), and [0; 0] at and after exhaustion: the first
                           number is len()/size_hint BEFORE the step = exactly the
                           number of entries still to come
     slot_pairs m c        the pairs in the slots [fst c, snd c) of m (IterSpec)
     r_into kind p         what the caller receives: kind 0 the pair, 1 the key,
                           2 the value;  into_evs sc kind p: the Drop events of the
                           half next() destroys (kind 1 the value, 2 the key, 0 none)
     rest_evs sc kind p    the Drop events of the half that was handed out;
     count_evs = into_evs ++ rest_evs;  skey_evs p: Drop events of a Set element
     evp E p               the Drop events of the stored pair p (key, then value)

   (1) exact len()/size_hint before every step, INTERPRETER level:
       C10_drain_steps_obs        Exec.drain_steps (Map::drain and Set::drain) from
                                  any drain state (DrainInv): observations =
                                  cons_obs of the pairs the cursor owns, cursor
                                  advanced by min n (hi - lo), what it then owns =
                                  skipn n; nothing else changes
       C10_drain_session_steps_obs  from drain() itself: cons_obs of the content
       C10_into_steps_obs         Exec.into_steps, kinds 0/1/2, every script: hint =
                                  len of what the iterator still holds, items from the
                                  back, the unused halves destroyed (log), prefix left;
                                  panic clause when such a Drop panics at step t
       C10_set_into_steps_obs     Exec.set_into_steps = Set::into_iter: the same
                                  with item = key, nothing destroyed, no panic
   (2) fates 2 (for_each(closure)) and 3 (count()):
       C10_drain_count_exact      every environment: count = number of pairs left;
                                  EVERY pair left is destroyed exactly once, in slot
                                  order, whether count() returns or a Drop panics
                                  (the unwinding Drain destroys the rest); register
                                  empty, same capacity
       C10_drain_for_each_exact   count = number left, the closure is called once per
                                  pair (one EvCall 4 each), the Drain destroys
                                  nothing; closure panics at pair t: called t+1 times,
                                  pairs t.. destroyed once each, register empty
       C10_into_count_exact       kinds 1/2 (and the default for 0): count = len;
                                  every entry destroyed from the back, unused half
                                  first; panic clause
       C10_into_count0_exact      IntoIter::count override: reports len, then drops
                                  the iterator (slot order)
       C10_into_for_each_exact, C10_set_into_count_exact, C10_set_into_for_each_exact
   (3) C10_drain_then_run_refines2  two environments: E (ANY Drop) for the drain,
                                  Lawful E' for the history that follows: the Panic
                                  branch is reachable (C10_example_reuse_after_panic)
   (4) "None forever after the end" for IntoKeys / IntoValues:
       C10_into_keys_next_end, C10_into_values_next_end   on an empty iterator
                                  next() is None and the world is unchanged
       C10_into_keys_fused, C10_into_values_fused   after a session of n >= len
                                  steps every further next() is None
   ======================================================================== *)

Theorem C10_drain_steps_obs :
  forall (V : Type) (rp : key * V -> list N) (n lo hi : nat) (acc : list N) (w : world key V cstate),
    DrainInv (lo, hi) (self w) ->
    wp (drain_steps rp n (lo, hi) acc)
       (fun (r : list N * cursor) (w' : world key V cstate) =>
          let m := Nat.min n (hi - lo) in
          fst r = acc ++ cons_obs rp (slot_pairs (self w) (lo, hi)) n /\
          snd r = (lo + m, hi) /\
          DrainInv (snd r) (self w') /\
          slot_pairs (self w') (snd r) = skipn n (slot_pairs (self w) (lo, hi)) /\
          cb w' = cb w /\ log w' = log w /\ cap (self w') = cap (self w))
       (fun _ : world key V cstate => False) w.
Proof. exact (@drain_steps_obs). Qed.
Print Assumptions C10_drain_steps_obs.

Theorem C10_drain_session_steps_obs :
  forall (V : Type) (rp : key * V -> list N) (n : nat) (w : world key V cstate),
    WF (self w) ->
    wp (c <- drain ;; drain_steps rp n c [])
       (fun (r : list N * cursor) (w' : world key V cstate) =>
          fst r = cons_obs rp (Spec.elems (self w)) n /\
          snd r = (Nat.min n (len (self w)), len (self w)) /\
          DrainInv (snd r) (self w') /\
          slot_pairs (self w') (snd r) = skipn n (Spec.elems (self w)) /\
          cb w' = cb w /\ log w' = log w /\ cap (self w') = cap (self w) /\ len (self w') = 0)
       (fun _ : world key V cstate => False) w.
Proof. exact (@drain_session_steps_obs). Qed.
Print Assumptions C10_drain_session_steps_obs.

Theorem C10_into_steps_obs :
  forall (sc : script) (kind : N) (n : nat) (acc : list N) (w : world key vobj cstate),
    WF (self w) ->
    wp (into_steps sc kind n acc)
       (fun (r : list N) (w' : world key vobj cstate) =>
          let took := firstn n (rev (Spec.elems (self w))) in
          r = acc ++ cons_obs (r_into kind) (rev (Spec.elems (self w))) n /\
          log w' = log w ++ flat_map (into_evs sc kind) took /\
          WF (self w') /\ cap (self w') = cap (self w) /\
          len (self w') = len (self w) - Nat.min n (len (self w)) /\
          Spec.elems (self w') =
            firstn (len (self w) - Nat.min n (len (self w))) (Spec.elems (self w)))
       (fun w' : world key vobj cstate =>
          exists t : nat, t < Nat.min n (len (self w)) /\
            let took := firstn (S t) (rev (Spec.elems (self w))) in
            log w' = log w ++ flat_map (into_evs sc kind) took /\
            WF (self w') /\ cap (self w') = cap (self w) /\
            len (self w') = len (self w) - S t /\
            Spec.elems (self w') = firstn (len (self w) - S t) (Spec.elems (self w)))
       w.
Proof. exact into_steps_obs. Qed.
Print Assumptions C10_into_steps_obs.

Theorem C10_set_into_steps_obs :
  forall (n : nat) (acc : list N) (w : world key unit cstate),
    WF (self w) ->
    wp (set_into_steps n acc)
       (fun (r : list N) (w' : world key unit cstate) =>
          r = acc ++ cons_obs (fun p : key * unit => r_key (fst p)) (rev (Spec.elems (self w))) n /\
          log w' = log w /\ cb w' = cb w /\
          WF (self w') /\ cap (self w') = cap (self w) /\
          len (self w') = len (self w) - Nat.min n (len (self w)) /\
          Spec.elems (self w') =
            firstn (len (self w) - Nat.min n (len (self w))) (Spec.elems (self w)))
       (fun _ : world key unit cstate => False) w.
Proof. exact set_into_steps_obs. Qed.
Print Assumptions C10_set_into_steps_obs.

(* ---- fate 3 / fate 2 of a Drain ---- *)
Theorem C10_drain_count_exact :
  forall (V : Type) (E : env key V query cstate) (c : cursor) (cnt : nat) (w : world key V cstate),
    DrainInv c (self w) ->
    let post := fun w' : world key V cstate =>
      log w' = log w ++ flat_map (evp E) (slot_pairs (self w) c) /\
      len (self w') = 0 /\ cap (self w') = cap (self w) in
    wp (drain_count E (S (cursor_len c)) c cnt)
       (fun (n : nat) (w' : world key V cstate) => n = cnt + cursor_len c /\ post w') post w.
Proof. exact (@drain_count_exact). Qed.
Print Assumptions C10_drain_count_exact.

Theorem C10_drain_for_each_exact :
  forall (V : Type) (E : env key V query cstate) (cl : cstate -> ans * cstate)
         (c : cursor) (cnt : nat) (w : world key V cstate),
    DrainInv c (self w) ->
    wp (drain_for_each E cl (S (cursor_len c)) c cnt)
       (fun (n : nat) (w' : world key V cstate) =>
          n = cnt + cursor_len c /\
          log w' = log w ++ repeat (EvCall 4) (cursor_len c) /\
          len (self w') = 0 /\ cap (self w') = cap (self w))
       (fun w' : world key V cstate =>
          exists t : nat, t < cursor_len c /\
            log w' = log w ++ repeat (EvCall 4) (S t) ++
                     flat_map (evp E) (skipn t (slot_pairs (self w) c)) /\
            len (self w') = 0 /\ cap (self w') = cap (self w))
       w.
Proof. exact (@drain_for_each_exact). Qed.
Print Assumptions C10_drain_for_each_exact.

(* ---- fate 3 / fate 2 of the consuming iterators ---- *)
Theorem C10_into_count_exact :
  forall (sc : script) (kind : N) (cnt : nat) (w : world key vobj cstate),
    WF (self w) ->
    wp (into_count sc kind (S (len (self w))) cnt)
       (fun (n : nat) (w' : world key vobj cstate) =>
          n = cnt + len (self w) /\
          log w' = log w ++ flat_map (count_evs sc kind) (rev (Spec.elems (self w))) /\
          WF (self w') /\ len (self w') = 0 /\ cap (self w') = cap (self w))
       (fun w' : world key vobj cstate =>
          exists (t : nat) (p : key * vobj) (part : list event),
            nth_error (rev (Spec.elems (self w))) t = Some p /\
            (part = into_evs sc kind p \/ part = count_evs sc kind p) /\
            log w' = log w ++ flat_map (count_evs sc kind) (firstn t (rev (Spec.elems (self w)))) ++ part /\
            WF (self w') /\ cap (self w') = cap (self w) /\
            len (self w') = len (self w) - S t /\
            Spec.elems (self w') = firstn (len (self w) - S t) (Spec.elems (self w)))
       w.
Proof. exact into_count_exact. Qed.
Print Assumptions C10_into_count_exact.

Theorem C10_into_count0_exact :
  forall (sc : script) (w : world key vobj cstate),
    WF (self w) ->
    wp (l <- get_len ;; drop_map (env_map sc) ;; ret [nn l])
       (fun (r : list N) (w' : world key vobj cstate) =>
          r = [nn (len (self w))] /\
          log w' = log w ++ flat_map (evp (env_map sc)) (Spec.elems (self w)))
       (fun w' : world key vobj cstate =>
          exists k : nat, log w' = log w ++ flat_map (evp (env_map sc)) (firstn k (Spec.elems (self w))))
       w.
Proof. exact into_count0_exact. Qed.
Print Assumptions C10_into_count0_exact.

Theorem C10_into_for_each_exact :
  forall (sc : script) (kind : N) (cnt : nat) (w : world key vobj cstate),
    WF (self w) ->
    wp (into_for_each sc kind (S (len (self w))) cnt)
       (fun (n : nat) (w' : world key vobj cstate) =>
          n = cnt + len (self w) /\
          log w' = log w ++ flat_map (fun p => into_evs sc kind p ++ [EvCall 4]) (rev (Spec.elems (self w))) /\
          WF (self w') /\ len (self w') = 0 /\ cap (self w') = cap (self w))
       (fun w' : world key vobj cstate =>
          exists (t : nat) (p : key * vobj) (part : list event),
            nth_error (rev (Spec.elems (self w))) t = Some p /\
            (part = into_evs sc kind p \/
             part = into_evs sc kind p ++ [EvCall 4] ++ rest_evs sc kind p) /\
            log w' = log w ++ flat_map (fun p => into_evs sc kind p ++ [EvCall 4])
                                       (firstn t (rev (Spec.elems (self w)))) ++ part /\
            WF (self w') /\ cap (self w') = cap (self w) /\
            len (self w') = len (self w) - S t /\
            Spec.elems (self w') = firstn (len (self w) - S t) (Spec.elems (self w)))
       w.
Proof. exact into_for_each_exact. Qed.
Print Assumptions C10_into_for_each_exact.

Theorem C10_set_into_count_exact :
  forall (sc : script) (cnt : nat) (w : world key unit cstate),
    WF (self w) ->
    wp (set_into_count sc (S (len (self w))) cnt)
       (fun (n : nat) (w' : world key unit cstate) =>
          n = cnt + len (self w) /\
          log w' = log w ++ flat_map (skey_evs sc) (rev (Spec.elems (self w))) /\
          WF (self w') /\ len (self w') = 0 /\ cap (self w') = cap (self w))
       (fun w' : world key unit cstate =>
          exists t : nat, t < len (self w) /\
            log w' = log w ++ flat_map (skey_evs sc) (firstn (S t) (rev (Spec.elems (self w)))) /\
            WF (self w') /\ cap (self w') = cap (self w) /\
            len (self w') = len (self w) - S t /\
            Spec.elems (self w') = firstn (len (self w) - S t) (Spec.elems (self w)))
       w.
Proof. exact set_into_count_exact. Qed.
Print Assumptions C10_set_into_count_exact.

Theorem C10_set_into_for_each_exact :
  forall (sc : script) (cnt : nat) (w : world key unit cstate),
    WF (self w) ->
    wp (set_into_for_each sc (S (len (self w))) cnt)
       (fun (n : nat) (w' : world key unit cstate) =>
          n = cnt + len (self w) /\
          log w' = log w ++ repeat (EvCall 4) (len (self w)) /\
          WF (self w') /\ len (self w') = 0 /\ cap (self w') = cap (self w))
       (fun w' : world key unit cstate =>
          exists (t : nat) (p : key * unit),
            nth_error (rev (Spec.elems (self w))) t = Some p /\
            log w' = log w ++ repeat (EvCall 4) (S t) ++ skey_evs sc p /\
            WF (self w') /\ cap (self w') = cap (self w) /\
            len (self w') = len (self w) - S t /\
            Spec.elems (self w') = firstn (len (self w) - S t) (Spec.elems (self w)))
       w.
Proof. exact set_into_for_each_exact. Qed.
Print Assumptions C10_set_into_for_each_exact.

(* ---- (3) reuse after a drain whose Drop may panic ---- *)
Theorem C10_drain_then_run_refines2 :
  forall (K V Q T : Type) (E E' : env K V Q T) (debug : bool) (ck : K -> N) (cq : Q -> N),
    Lawful E' ck cq ->
    forall (take : nat) (ops : list (@dop K V Q)) (w : world K V T),
    WF (self w) ->
    match (c <- drain ;; r <- drain_run take c ;; drain_drop E (snd r)) w with
    | Ok _ w' | Panic w' =>
        cap (self w') = cap (self w) /\
        mrun E' debug ops w' = drun ck cq (cap (self w)) ops [] /\
        (forall (s : T) (lg : list event),
           mrun E' debug ops w' =
           mrun E' debug ops {| cb := s; log := lg; self := new_map (cap (self w)) |})
    | UB => False
    end.
Proof. exact (@drain_then_run_refines2). Qed.
Print Assumptions C10_drain_then_run_refines2.

(* ---- (4) None forever ---- *)
Theorem C10_into_keys_next_end :
  forall (K V Q T : Type) (E : env K V Q T) (w : world K V T),
    len (self w) = 0 -> into_keys_next E w = Ok None w.
Proof. exact (@into_keys_next_end). Qed.
Print Assumptions C10_into_keys_next_end.

Theorem C10_into_values_next_end :
  forall (K V Q T : Type) (E : env K V Q T) (w : world K V T),
    len (self w) = 0 -> into_values_next E w = Ok None w.
Proof. exact (@into_values_next_end). Qed.
Print Assumptions C10_into_values_next_end.

Theorem C10_into_keys_fused :
  forall (K V Q T : Type) (E : env K V Q T) (n : nat) (w : world K V T),
    WF (self w) -> len (self w) <= n ->
    wp (into_keys_run E n)
       (fun (_ : list K) (w' : world K V T) =>
          len (self w') = 0 /\ into_keys_next E w' = Ok None w' /\
          forall m : nat, into_keys_run E m w' = Ok [] w')
       (fun _ : world K V T => True) w.
Proof. exact (@into_keys_fused). Qed.
Print Assumptions C10_into_keys_fused.

Theorem C10_into_values_fused :
  forall (K V Q T : Type) (E : env K V Q T) (n : nat) (w : world K V T),
    WF (self w) -> len (self w) <= n ->
    wp (into_values_run E n)
       (fun (_ : list V) (w' : world K V T) =>
          len (self w') = 0 /\ into_values_next E w' = Ok None w' /\
          forall m : nat, into_values_run E m w' = Ok [] w')
       (fun _ : world K V T => True) w.
Proof. exact (@into_values_fused). Qed.
Print Assumptions C10_into_values_fused.

(* ---------------------------------------------------------------------- *)
(* non-vacuity                                                              *)
(* ---------------------------------------------------------------------- *)

(* the PANIC branch of C10_drain_then_run_refines2 is reached: Drop of object 3
   (the key of entry 1) panics while the drain is dropped; the later history under
   the lawful environment behaves like on a fresh Map of capacity 3 *)
Example C10_example_reuse_after_panic :
  let ops := [DInsert (k_ 11 5) (v_ 12 1); DGet (QCls 5); DContains (QCls 6)] in
  match (c <- drain ;; r <- drain_run 1 c ;; drain_drop (env_map (sc_drop 3)) (snd r)) (w_of m3) with
  | Panic w' =>
      mrun (env_map C10_sc0) false ops w'
      = mrun (env_map C10_sc0) false ops {| cb := cs0; log := []; self := new_map 3 |} /\
      mrun (env_map C10_sc0) false ops w' = [RNone; RVal (v_ 12 1); RBool false]
  | _ => False
  end.
Proof. vm_compute. split; reflexivity. Qed.

(* observations: drain over m3, 4 steps: hints 3 2 1 0 0; into_keys (kind 1):
   hints 3 2, keys of entries 2 and 1, values 6 and 4 destroyed *)
Example C10_example_obs :
  match (c <- drain ;; drain_steps r_pair 4 c []) (w_of m3) with
  | Ok r w' => fst r = [3; 1; 1; 5; 2; 7;  2; 1; 3; 6; 4; 8;  1; 1; 5; 7; 6; 9;  0; 0]%N /\ snd r = (3, 3)
  | _ => False
  end /\
  match into_steps (sc_drop 0) 1 2 [] (w_of m3) with
  | Ok r w' => r = [3; 1; 5; 7;  2; 1; 3; 6]%N /\ log w' = [EvDrop 6; EvDrop 4] /\ len (self w') = 1
  | _ => False
  end /\
  cons_obs r_pair (Spec.elems m3) 4 = [3; 1; 1; 5; 2; 7;  2; 1; 3; 6; 4; 8;  1; 1; 5; 7; 6; 9;  0; 0]%N.
Proof. vm_compute. repeat split; reflexivity. Qed.

(* count() and for_each on the Drain over m3 after one next(): count = 2;
   count() destroys both remaining pairs; with a Drop that panics on object 3 the
   same four objects are destroyed (by count and by the unwinding Drain);
   for_each calls the closure twice and destroys nothing *)
Example C10_example_fates :
  match (c <- drain ;; r <- drain_run 1 c ;; drain_count (env_map (sc_drop 0)) 3 (snd r) 0) (w_of m3) with
  | Ok n w' => n = 2 /\ log w' = [EvDrop 3; EvDrop 4; EvDrop 5; EvDrop 6] /\ len (self w') = 0
  | _ => False
  end /\
  match (c <- drain ;; r <- drain_run 1 c ;; drain_count (env_map (sc_drop 3)) 3 (snd r) 0) (w_of m3) with
  | Panic w' => log w' = [EvDrop 3; EvDrop 4; EvDrop 5; EvDrop 6] /\ len (self w') = 0
  | _ => False
  end /\
  match (c <- drain ;; r <- drain_run 1 c ;;
         drain_for_each (env_map (sc_drop 0)) (nx_cb (sc_drop 0)) 3 (snd r) 0) (w_of m3) with
  | Ok n w' => n = 2 /\ log w' = [EvCall 4; EvCall 4] /\ len (self w') = 0
  | _ => False
  end /\
  match into_count (sc_drop 0) 1 4 0 (w_of m3) with
  | Ok n w' => n = 3 /\ log w' = [EvDrop 6; EvDrop 5; EvDrop 4; EvDrop 3; EvDrop 2; EvDrop 1]
  | _ => False
  end.
Proof. vm_compute. repeat split; reflexivity. Qed.
