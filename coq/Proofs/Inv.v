(* Inv.v — the container invariant and its basic facts. *)
Require Import Model.Base Model.Slots Model.MapOps Proofs.Hoare.

Section Inv.
Context {K V : Type}.
Notation map := (map K V).

Definition live (m : map) (i : nat) : Prop := exists p, nth_error (slots m) i = Some (Some p).

(* slots [0,len) are initialised; len never exceeds the capacity *)
Definition WF (m : map) : Prop := len m <= cap m /\ forall i, i < len m -> live m i.

(* slots [len,N) hold nothing (no leaked element) *)
Definition Tidy (m : map) : Prop := forall i, len m <= i -> nth_error (slots m) i <> None -> nth_error (slots m) i = Some None.

Lemma cap_set_slot (m : map) i x : cap (set_slot_m m i x) = cap m.
Proof. unfold cap, set_slot_m; cbn [slots]. apply upd_length. Qed.
Lemma cap_set_len (m : map) n : cap (set_len_m m n) = cap m.
Proof. reflexivity. Qed.
Lemma len_set_slot (m : map) i x : len (set_slot_m m i x) = len m.
Proof. reflexivity. Qed.
Lemma len_set_len (m : map) n : len (set_len_m m n) = n.
Proof. reflexivity. Qed.

Lemma live_lt_cap (m : map) i : live m i -> i < cap m.
Proof. intros [p H]. unfold cap. apply nth_error_Some. rewrite H. discriminate. Qed.

Lemma live_set_slot_neq (m : map) i j x : i <> j -> (live (set_slot_m m i x) j <-> live m j).
Proof. intros H. unfold live, set_slot_m; cbn [slots]. rewrite nth_error_upd_neq by exact H. tauto. Qed.

Lemma live_set_slot_eq (m : map) i p : i < cap m -> live (set_slot_m m i (Some p)) i.
Proof. intros H. exists p. unfold set_slot_m; cbn [slots]. apply nth_error_upd_eq. exact H. Qed.

Lemma live_set_len (m : map) n i : live (set_len_m m n) i <-> live m i.
Proof. reflexivity. Qed.

Lemma live_set_slot_some (m : map) i j p : live m j -> i < cap m -> live (set_slot_m m i (Some p)) j.
Proof.
  intros Hj Hi. destruct (Nat.eq_dec i j) as [->|Hn].
  - apply live_set_slot_eq; exact Hi.
  - apply live_set_slot_neq; assumption.
Qed.

Lemma WF_new n : WF (@new_map K V n).
Proof. split; cbn [len new_map]; [lia | intros i H; lia]. Qed.

Lemma cap_new n : cap (@new_map K V n) = n.
Proof. unfold cap, new_map; cbn [slots]. apply repeat_length. Qed.

Lemma WF_live (m : map) i : WF m -> i < len m -> live m i.
Proof. intros [_ H]; apply H. Qed.

Lemma WF_len_le_cap (m : map) : WF m -> len m <= cap m.
Proof. intros [H _]; exact H. Qed.

(* replacing the content of a live slot keeps the invariant *)
Lemma WF_set_slot_some (m : map) i p : WF m -> i < cap m -> WF (set_slot_m m i (Some p)).
Proof.
  intros [Hl Hs] Hi. split.
  - rewrite cap_set_slot, len_set_slot. exact Hl.
  - intros j Hj. rewrite len_set_slot in Hj. apply live_set_slot_some; auto.
Qed.

(* shrinking the length keeps the invariant *)
Lemma WF_set_len_le (m : map) n : WF m -> n <= len m -> WF (set_len_m m n).
Proof.
  intros [Hl Hs] Hn. split.
  - rewrite cap_set_len, len_set_len. lia.
  - intros j Hj. rewrite len_set_len in Hj. apply live_set_len. apply Hs. lia.
Qed.

(* emptying a slot at or beyond the length keeps the invariant *)
Lemma WF_set_slot_none_ge (m : map) i : WF m -> len m <= i -> WF (set_slot_m m i None).
Proof.
  intros [Hl Hs] Hi. split.
  - rewrite cap_set_slot, len_set_slot. exact Hl.
  - intros j Hj. rewrite len_set_slot in Hj. apply live_set_slot_neq; [lia | apply Hs; exact Hj].
Qed.

(* appending: write slot len, then bump len *)
Lemma WF_append (m : map) p :
  WF m -> len m < cap m -> WF (set_len_m (set_slot_m m (len m) (Some p)) (S (len m))).
Proof.
  intros [Hl Hs] Hc. split.
  - rewrite cap_set_len, cap_set_slot, len_set_len. lia.
  - intros j Hj. rewrite len_set_len in Hj. apply live_set_len.
    destruct (Nat.eq_dec (len m) j) as [<-|Hn].
    + apply live_set_slot_eq. exact Hc.
    + apply live_set_slot_neq; [exact Hn | apply Hs; lia].
Qed.

End Inv.
