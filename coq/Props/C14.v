(* ========================================================================
   C14  Equality is extensional, regardless of capacity, slot order or history

   STATEMENT (properties.jsonl):
     "Two maps (or two sets) compare equal exactly when they hold the same keys
      with equal values, regardless of their capacities, of the order in which
      entries were inserted or removed, and of the history that produced them.
      The comparison is reflexive and symmetric and modifies neither operand."
   QUANTIFIER:
     "all pairs of containers over a small universe in all internal orders and
      capacity pairs, including pairs differing only in one value, only in one
      key, or only in length"

   VOCABULARY
     map_eq E a b          the model of `a == b` (src/eq.rs): a and b are
                           PARAMETERS (shared borrows) of possibly different
                           capacities cap a, cap b; nothing relates the two.
     Spec.elems m          the stored pairs of m in slot order.
     lookup ck l c         the dictionary view of a content l: the stored pair
                           whose key has class c, if any.
     Uniq ck l             stored keys pairwise different.
     veq                   the boolean function the user's V == V computes
                           (hypothesis HV: eqV answers veq and never panics).
     entry_ok_in ck veq lb p   "lb holds a pair with p's key whose value == p's value".
     stable w w'           self and log unchanged.

   READING GUIDE (clause -> theorem)
   * "compare equal exactly when they hold the same keys with equal values":
       C14_map_eq_lawful       map_eq returns the boolean
                                 (len a =? len b) && forallb (entry_ok_in (elems b)) (elems a),
                               never panics, changes nothing
       C14_map_eq_extensional  that boolean is true iff the two dictionaries agree
                               at EVERY class c: both absent, or both present with
                               equal values (so a pair differing in one value, in one
                               key or in length compares unequal)
   * "regardless of their capacities": a and b in C14_map_eq_lawful are any two
     well-formed containers; cap a, cap b do not occur in the result.
   * "regardless of the order in which entries were inserted or removed, and of
     the history": the result is a function of the two contents only, and
       C14_map_eq_perm, C14_map_eq_perm_r   it is invariant under any permutation
                               of the content of the left / right operand.
   * "reflexive and symmetric":
       C14_map_eq_refl (needs V's == reflexive), C14_map_eq_sym (needs it symmetric).
   * "modifies neither operand": the operands are parameters of map_eq and are
     not returned; moreover
       C14_map_eq_frame        for ANY environment (== may lie or panic) the
                               surrounding container is untouched, in every outcome
       `stable w w'` in C14_map_eq_lawful: no event (drop/clone) is logged either.
   * sets: Set<T,N> = Map<T,(),N>; its == is map_eq with V = unit, whose eqV is
     constantly Yes (FmtSerde.env_set_eqV: veq = fun _ _ => true), so all theorems
     apply with "equal values" trivially true.

   PARTLY / NOT COVERED BY A THEOREM (left to the correspondence check)
   * Reflexivity/symmetry are stated for the boolean map_eq returns, under the
     corresponding law of the user's V == V (veq v v = true; veq x y = veq y x):
     without it the crate's == is not reflexive/symmetric either.
   * Uniq of both contents is assumed (true of reachable containers under a
     lawful ==, C01/C05).
   * `!=` (ne) is not modelled separately.
   ======================================================================== *)
Require Import Model.Base Model.Slots Model.MapOps Model.Exec.
Require Import Proofs.Hoare Proofs.Inv Proofs.Safety2 Proofs.Spec Proofs.Lawful Proofs.EqClone
               Proofs.FmtSerde Proofs.Legacy.
From Coq Require Import Permutation.

Theorem C14_map_eq_lawful :
  forall (K V Q T : Type) (E : env K V Q T) (ck : K -> N) (cq : Q -> N) (HL : Lawful E ck cq)
         (veq : V -> V -> bool)
         (HV : forall (s : T) (a b : V), fst (eqV E s a b) = (if veq a b then Yes else No))
         (a b : map K V) (w : world K V T),
    WF a -> WF b ->
    wp (map_eq E a b)
       (fun (r : bool) (w' : world K V T) =>
          stable w w' /\
          r = (len a =? len b) && forallb (entry_ok_in ck veq (Spec.elems b)) (Spec.elems a))
       (fun _ : world K V T => False) w.
Proof. exact (fun K V Q T E ck cq HL veq HV => map_eq_lawful E ck cq HL veq HV). Qed.
Print Assumptions C14_map_eq_lawful.

Theorem C14_map_eq_extensional :
  forall (K V : Type) (ck : K -> N) (veq : V -> V -> bool) (la lb : list (K * V)),
    Uniq ck la -> Uniq ck lb ->
    ((length la =? length lb) && forallb (entry_ok_in ck veq lb) la = true <->
     (forall c : N,
         match lookup ck la c, lookup ck lb c with
         | Some (_, v), Some (_, v') => veq v' v = true
         | None, None => True
         | _, _ => False
         end)).
Proof. exact (fun K V => @map_eq_extensional K V). Qed.
Print Assumptions C14_map_eq_extensional.

Theorem C14_map_eq_refl :
  forall (K V : Type) (ck : K -> N) (veq : V -> V -> bool) (la : list (K * V)),
    Uniq ck la ->
    (forall v : V, veq v v = true) ->
    (length la =? length la) && forallb (entry_ok_in ck veq la) la = true.
Proof. exact (fun K V => @map_eq_refl K V). Qed.
Print Assumptions C14_map_eq_refl.

Theorem C14_map_eq_sym :
  forall (K V : Type) (ck : K -> N) (veq : V -> V -> bool) (la lb : list (K * V)),
    Uniq ck la -> Uniq ck lb ->
    (forall x y : V, veq x y = veq y x) ->
    (length la =? length lb) && forallb (entry_ok_in ck veq lb) la =
    (length lb =? length la) && forallb (entry_ok_in ck veq la) lb.
Proof. exact (fun K V => @map_eq_sym K V). Qed.
Print Assumptions C14_map_eq_sym.

Theorem C14_map_eq_perm :
  forall (K V : Type) (ck : K -> N) (veq : V -> V -> bool) (la la' lb : list (K * V)),
    Uniq ck la -> Uniq ck lb ->
    Permutation la la' ->
    (length la =? length lb) && forallb (entry_ok_in ck veq lb) la =
    (length la' =? length lb) && forallb (entry_ok_in ck veq lb) la'.
Proof. exact (fun K V => @map_eq_perm K V). Qed.
Print Assumptions C14_map_eq_perm.

Theorem C14_map_eq_perm_r :
  forall (K V : Type) (ck : K -> N) (veq : V -> V -> bool) (la lb lb' : list (K * V)),
    Uniq ck la -> Uniq ck lb ->
    Permutation lb lb' ->
    (length la =? length lb) && forallb (entry_ok_in ck veq lb) la =
    (length la =? length lb') && forallb (entry_ok_in ck veq lb') la.
Proof. exact (fun K V => @map_eq_perm_r K V). Qed.
Print Assumptions C14_map_eq_perm_r.

(* operands untouched, ANY environment *)
Theorem C14_map_eq_frame :
  forall (K V Q T : Type) (E : env K V Q T) (a b : map K V) (w : world K V T),
    WF a -> WF b ->
    wp (map_eq E a b)
       (fun (_ : bool) (w' : world K V T) => self w' = self w)
       (fun w' : world K V T => self w' = self w) w.
Proof. exact (fun K V Q T => @map_eq_frame K V Q T). Qed.
Print Assumptions C14_map_eq_frame.

(* ---------------------------------------------------------------------- *)
(* non-vacuity                                                              *)
(* ---------------------------------------------------------------------- *)

(* hypotheses: honest script; veq = equality of the value payloads (reflexive,
   symmetric); m3 and a container b holding the same dictionary in another slot
   order, with other object identities and capacity 5 *)
Example C14_example_hyps :
  let sc0 := {| sc_adv := false; sc_seed := 0; sc_fk := 0; sc_fa := 0 |} in
  let veq := fun a b : vobj => N.eqb (vdat a) (vdat b) in
  let b : map key vobj :=
    {| len := 3; slots := [Some (k_ 15 7, v_ 16 9); Some (k_ 11 5, v_ 12 7); Some (k_ 13 6, v_ 14 8);
                           None; None] |} in
  Lawful (env_map sc0) kcls qcls /\
  (forall (s : cstate) (x y : vobj),
      fst (eqV (env_map sc0) s x y) = (if veq x y then Yes else No)) /\
  (forall v : vobj, veq v v = true) /\ (forall x y : vobj, veq x y = veq y x) /\
  WF m3 /\ WF b /\ Uniq kcls (Spec.elems m3) /\ Uniq kcls (Spec.elems b) /\
  cap m3 = 3 /\ cap b = 5.
Proof.
  intros sc0 veq b.
  assert (Hh : honest sc0) by (split; reflexivity).
  split; [exact (env_map_lawful sc0 Hh)|].
  split; [exact (env_map_eqV sc0 Hh)|].
  split; [intros v; apply N.eqb_refl|].
  split; [intros x y; apply N.eqb_sym|].
  split; [exact m3_WF|].
  split.
  { split; [cbn; lia|]. intros i Hi. cbn [len b] in Hi.
    destruct i as [|[|[|i]]]; try lia; eexists; reflexivity. }
  split; [vm_compute; repeat constructor; cbn; intuition discriminate|].
  split; [vm_compute; repeat constructor; cbn; intuition discriminate|].
  split; reflexivity.
Qed.

(* concrete comparisons: equal in both directions despite order/capacity/ids;
   unequal when one value, one key, or the length differs; nothing logged *)
Example C14_example_runs :
  let E := env_map {| sc_adv := false; sc_seed := 0; sc_fk := 0; sc_fa := 0 |} in
  let b : map key vobj :=
    {| len := 3; slots := [Some (k_ 15 7, v_ 16 9); Some (k_ 11 5, v_ 12 7); Some (k_ 13 6, v_ 14 8);
                           None; None] |} in
  let b_val : map key vobj :=
    {| len := 3; slots := [Some (k_ 15 7, v_ 16 9); Some (k_ 11 5, v_ 12 0); Some (k_ 13 6, v_ 14 8);
                           None; None] |} in
  let b_key : map key vobj :=
    {| len := 3; slots := [Some (k_ 15 7, v_ 16 9); Some (k_ 11 4, v_ 12 7); Some (k_ 13 6, v_ 14 8);
                           None; None] |} in
  let b_len : map key vobj :=
    {| len := 2; slots := [Some (k_ 15 7, v_ 16 9); Some (k_ 11 5, v_ 12 7); None; None; None] |} in
  let out (r : res key vobj cstate bool) : option (bool * list event * map key vobj) :=
    match r with Ok x w' => Some (x, log w', self w') | _ => None end in
  out (map_eq E m3 b (w_of (new_map 0))) = Some (true, [], new_map 0) /\
  out (map_eq E b m3 (w_of (new_map 0))) = Some (true, [], new_map 0) /\
  out (map_eq E m3 m3 (w_of (new_map 0))) = Some (true, [], new_map 0) /\
  out (map_eq E m3 b_val (w_of (new_map 0))) = Some (false, [], new_map 0) /\
  out (map_eq E m3 b_key (w_of (new_map 0))) = Some (false, [], new_map 0) /\
  out (map_eq E m3 b_len (w_of (new_map 0))) = Some (false, [], new_map 0) /\
  out (map_eq E b_len m3 (w_of (new_map 0))) = Some (false, [], new_map 0).
Proof. vm_compute. repeat split; reflexivity. Qed.
